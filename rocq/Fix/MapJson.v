(* C04 - how encoding/json writes and reads a map with string keys and string values (cbc.Meta =
   map[cbc.Key]string; tax.Extensions = map[cbc.Key]cbc.Code is the same shape).

   Writing (encode.go, mapEncoder.encode): the keys are collected, SORTED with Go's byte-wise string
   order (slices.SortFunc ... strings.Compare), and each key and value is written by appendString with
   escapeHTML = true: ASCII bytes outside htmlSafeSet are escaped (two-character escapes for
   backslash, quote, \b \f \n \r \t; \u00xx with lower-case hex for other control characters and
   for < > &), an invalid UTF-8 byte becomes the six characters backslash-ufffd, U+2028 / U+2029 become backslash-u2028 /
   backslash-u2029, everything else is copied.  A Go map has no order of its own: `m` below is ANY listing of
   its entries (keys pairwise different); Fix/MapJsonProofs.v shows the text does not depend on it.

   Reading: an object whose members are strings; the string scanner is Json/Lexer.v's scan_string (the
   model of encoding/json's unquote validated against Go by C07).  Later duplicates of a key win
   (dedup_last), as assignments to a Go map do.  Model file: no proofs. *)
From Coq Require Import String.
From Coq Require Import List ZArith Strings.Byte Bool.
From Verif Require Import Base.Wire Json.Utf8 Json.Json Json.Number Json.Lexer.
Import ListNotations.
Open Scope Z_scope.

(* htmlSafeSet of encoding/json/tables.go *)
Definition html_safe (b : byte) : bool :=
  let z := bZ b in
  (32 <=? z) && (z <? 128) && negb ((z =? 34) || (z =? 38) || (z =? 60) || (z =? 62) || (z =? 92)).

Definition hex_lower (z : Z) : byte := ch (if z <? 10 then 48 + z else 87 + z).

(* what appendString writes for an ASCII byte outside htmlSafeSet *)
Definition gj_escape (b : byte) : bytes :=
  let z := bZ b in
  if (z =? 92) || (z =? 34) then [c_bs; b]
  else if z =? 8 then [c_bs; ch 98]
  else if z =? 12 then [c_bs; ch 102]
  else if z =? 10 then [c_bs; ch 110]
  else if z =? 13 then [c_bs; ch 114]
  else if z =? 9 then [c_bs; ch 116]
  else [c_bs; c_u; ch 48; ch 48; hex_lower (z / 16); hex_lower (z mod 16)].

Definition gj_fffd : bytes := [c_bs; c_u; ch 102; ch 102; ch 102; ch 100].   (* backslash-ufffd *)

Fixpoint gj_body (fuel : nat) (s : bytes) : bytes :=
  match s with
  | [] => []
  | b :: r =>
    match fuel with
    | O => []
    | S f =>
      if bZ b <? 128 then (if html_safe b then [b] else gj_escape b) ++ gj_body f r
      else
        let '(cp, n) := decode_rune s in
        if (cp =? rune_error) && Nat.eqb n 1 then gj_fffd ++ gj_body f r
        else if (cp =? 8232) || (cp =? 8233)
          then [c_bs; c_u; ch 50; ch 48; ch 50; hex_lower (cp mod 16)] ++ gj_body f (skipn n s)
        else firstn n s ++ gj_body f (skipn n s)
    end
  end.

Definition gj_string (s : bytes) : bytes := c_quote :: gj_body (length s) s ++ [c_quote].

Definition c_colon := ch 58.
Definition c_comma := ch 44.

Definition member_text (kv : bytes * jv) : bytes :=
  match snd kv with
  | JStr v => gj_string (fst kv) ++ c_colon :: gj_string v
  | _ => []
  end.

Fixpoint join_members (l : list (bytes * jv)) : bytes :=
  match l with
  | [] => []
  | [x] => member_text x
  | x :: r => member_text x ++ c_comma :: join_members r
  end.

Definition as_members (m : list (bytes * bytes)) : list (bytes * jv) := map (fun kv => (fst kv, JStr (snd kv))) m.

(* json.Marshal of a non-nil map whose entries are m *)
Definition marshal_map (m : list (bytes * bytes)) : bytes :=
  ch 123 :: join_members (sort_members (as_members m)) ++ [ch 125].

(* the entries in key order *)
Definition of_member (kv : bytes * jv) : bytes * bytes := (fst kv, match snd kv with JStr v => v | _ => [] end).
Definition sorted_entries (m : list (bytes * bytes)) : list (bytes * bytes) := map of_member (sort_members (as_members m)).

(* ---- reading ---- *)
Definition read_string (s : bytes) : option (bytes * bytes) :=
  match skip_ws s with
  | q :: r => if Byte.eqb q c_quote then scan_string (S (length r)) r else None
  | [] => None
  end.

(* after `{` or `,`: "key" : "value" then `,` (again) or `}` and nothing but white space *)
Fixpoint parse_members (fuel : nat) (s : bytes) (acc : list (bytes * bytes)) : option (list (bytes * bytes)) :=
  match fuel with
  | O => None
  | S f =>
    match read_string s with
    | None => None
    | Some (k, r1) =>
      match skip_ws r1 with
      | c :: r2 =>
        if Byte.eqb c c_colon then
          match read_string r2 with
          | None => None
          | Some (v, r3) =>
            match skip_ws r3 with
            | d :: r4 =>
              if Byte.eqb d c_comma then parse_members f r4 ((k, v) :: acc)
              else if Byte.eqb d (ch 125) then
                match skip_ws r4 with [] => Some (rev ((k, v) :: acc)) | _ => None end
              else None
            | [] => None
            end
          end
        else None
      | [] => None
      end
    end
  end.

(* the members in text order; None: not an object of string members *)
Definition parse_map (s : bytes) : option (list (bytes * bytes)) :=
  match skip_ws s with
  | o :: r =>
    if Byte.eqb o (ch 123) then
      match skip_ws r with
      | c :: t => if Byte.eqb c (ch 125) then (match skip_ws t with [] => Some [] | _ => None end)
                  else parse_members (length s) r []
      | [] => None
      end
    else None
  | [] => None
  end.

(* text the read-back theorem covers: well-formed UTF-8 that holds none of U+FFFD, U+2028, U+2029 *)
Fixpoint text_plain_f (fuel : nat) (s : bytes) : bool :=
  match s with
  | [] => true
  | _ =>
    match fuel with
    | O => false
    | S f =>
      let '(cp, n) := decode_rune s in
      if (cp =? rune_error) || (cp =? 8232) || (cp =? 8233) then false else text_plain_f f (skipn n s)
    end
  end.
Definition text_plain (s : bytes) : bool := text_plain_f (length s) s.

(* assignments to a map: a later entry replaces an earlier one with the same key *)
Fixpoint dedup_last (l : list (bytes * bytes)) : list (bytes * bytes) :=
  match l with
  | [] => []
  | kv :: r => if existsb (fun x => eqb_bytes (fst x) (fst kv)) r then dedup_last r else kv :: dedup_last r
  end.

(* the resulting map, listed in key order *)
Definition unmarshal_map (s : bytes) : option (list (bytes * bytes)) :=
  option_map (fun l => sorted_entries (dedup_last l)) (parse_map s).
