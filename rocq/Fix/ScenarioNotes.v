(* C04 - the scenario-note mechanism of bill.Invoice.Calculate (bill/invoice_scenarios.go,
   tax/scenario.go, org/notes.go), as shipped and with fixes/C04-1-scenario-note-codes.diff applied.

     func (inv *Invoice) scenarioSummary() *tax.ScenarioSummary {
       ss := <scenarios of the regime, then of every add-on, in order>
       inv.removePreviousScenarioNotes(ss)
       return ss.SummaryFor(inv) }

     removePreviousScenarioNotes: sns := ss.Notes()            -- the Note of EVERY scenario, as declared
       if len(sns) == 0 || len(inv.Notes) == 0 { return }
       keep every n2 of inv.Notes with  n2 == nil || !isScenarioNote(sns, n2)
     isScenarioNote(sns, n2) = some sn of sns has NoteFromScenario(sn).SameAs(n2)
     Note.SameAs: Key, Code and Src are equal (NOT the text)

     SummaryFor: for every scenario s that matches the document, with a note:
                   summary.addNote(s.Note.withCode(s.ExtCode))   -- the code is REPLACED by the scenario's ExtCode
     addNote: replace the first summary note with the same key/code/src, else append

     prepareScenarios: for _, sn := range summary.Notes {
                         n := NoteFromScenario(sn)
                         if no non-nil n2 of inv.Notes has n.SameAs(n2) { inv.Notes = append(inv.Notes, n) } }

   Whether a scenario matches depends on the document's type, tags and extensions, which this step
   does not change: it is the flag sc_match.  A note's UUID / Meta / Ext only matter for equality of the
   result: n_meta and n_ext stand for them (NoteFromScenario copies Ext and leaves Meta empty).
   inv.Notes may contain nil pointers (None).  Model file: no proofs. *)
From Coq Require Import String.
From Coq Require Import List Bool.
From Verif Require Import Base.Wire.
Import ListNotations.
Local Open Scope string_scope.

Record note := mkNote { n_key : bytes; n_code : bytes; n_src : bytes; n_text : bytes; n_meta : bytes; n_ext : bytes }.
(* tax.ScenarioNote *)
Record snote := mkSN { sn_key : bytes; sn_code : bytes; sn_src : bytes; sn_text : bytes; sn_ext : bytes }.
Record scenario := mkSc { sc_match : bool; sc_extcode : bytes; sc_note : option snote }.

(* org.NoteFromScenario *)
Definition from_scenario (sn : snote) : note :=
  mkNote (sn_key sn) (sn_code sn) (sn_src sn) (sn_text sn) [] (sn_ext sn).

(* org.Note.SameAs and tax.ScenarioNote.sameAs *)
Definition same_as (a b : note) : bool :=
  eqb_bytes (n_key a) (n_key b) && eqb_bytes (n_code a) (n_code b) && eqb_bytes (n_src a) (n_src b).
Definition sn_same (a b : snote) : bool :=
  eqb_bytes (sn_key a) (sn_key b) && eqb_bytes (sn_code a) (sn_code b) && eqb_bytes (sn_src a) (sn_src b).

(* ScenarioNote.withCode *)
Definition with_code (c : bytes) (sn : snote) : snote :=
  mkSN (sn_key sn) c (sn_src sn) (sn_text sn) (sn_ext sn).

(* ScenarioSet.Notes() as shipped: the declared notes *)
Definition all_snotes (ss : list scenario) : list snote :=
  flat_map (fun s => match sc_note s with Some n => [n] | None => [] end) ss.
(* ScenarioSet.Notes() repaired: the notes as SummaryFor would add them *)
Definition all_snotes_fixed (ss : list scenario) : list snote :=
  flat_map (fun s => match sc_note s with Some n => [with_code (sc_extcode s) n] | None => [] end) ss.

Definition is_scenario_note (sns : list snote) (n2 : note) : bool :=
  existsb (fun sn => same_as (from_scenario sn) n2) sns.

Definition keep_note (sns : list snote) (n2 : option note) : bool :=
  match n2 with None => true | Some n => negb (is_scenario_note sns n) end.

(* removePreviousScenarioNotes given ss.Notes() *)
Definition remove_previous (sns : list snote) (notes : list (option note)) : list (option note) :=
  match sns, notes with
  | [], _ => notes
  | _, [] => notes
  | _, _ => filter (keep_note sns) notes
  end.

(* ScenarioSummary.addNote *)
Fixpoint add_note (acc : list snote) (n : snote) : list snote :=
  match acc with
  | [] => [n]
  | x :: r => if sn_same x n then n :: r else x :: add_note r n
  end.

(* the Notes of SummaryFor *)
Definition summary_notes (ss : list scenario) : list snote :=
  fold_left (fun acc s =>
    if sc_match s then match sc_note s with Some n => add_note acc (with_code (sc_extcode s) n) | None => acc end
    else acc) ss [].

Definition has_same (notes : list (option note)) (n : note) : bool :=
  existsb (fun n2 => match n2 with Some x => same_as n x | None => false end) notes.

(* one turn of prepareScenarios' loop *)
Definition append_missing (notes : list (option note)) (sn : snote) : list (option note) :=
  if has_same notes (from_scenario sn) then notes else notes ++ [Some (from_scenario sn)].

(* inv.Notes after prepareScenarios, given what ScenarioSet.Notes() returns *)
Definition prepare_with (notes_of : list scenario -> list snote) (ss : list scenario) (notes : list (option note))
  : list (option note) :=
  fold_left append_missing (summary_notes ss) (remove_previous (notes_of ss) notes).

Definition prepare_notes : list scenario -> list (option note) -> list (option note) := prepare_with all_snotes.
Definition prepare_notes_fixed : list scenario -> list (option note) -> list (option note) := prepare_with all_snotes_fixed.

(* ---- witnesses ---- *)
(* a tag scenario of the regime (no ExtCode) followed by an extension scenario of an add-on (ExtCode
   M01, declared note without code): regimes/es + addons/pt/saft *)
Definition wit_scenarios : list scenario :=
  [mkSc true [] (Some (mkSN (bs "legal") [] (bs "reverse-charge") (bs "Reverse Charge") []));
   mkSc true (bs "M01") (Some (mkSN (bs "legal") [] (bs "pt-saft-exemption") (bs "Artigo 16") []))].
(* the exemption changed from M01 to M02 between two calculations *)
Definition wit_scenarios_m01 : list scenario :=
  [mkSc true (bs "M01") (Some (mkSN (bs "legal") [] (bs "pt-saft-exemption") (bs "Artigo 16") []));
   mkSc false (bs "M02") (Some (mkSN (bs "legal") [] (bs "pt-saft-exemption") (bs "Artigo 6") []))].
Definition wit_scenarios_m02 : list scenario :=
  [mkSc false (bs "M01") (Some (mkSN (bs "legal") [] (bs "pt-saft-exemption") (bs "Artigo 16") []));
   mkSc true (bs "M02") (Some (mkSN (bs "legal") [] (bs "pt-saft-exemption") (bs "Artigo 6") []))].
(* a note of the user's with the key / code / source of a scenario note and a text of its own *)
Definition wit_user_note : note := mkNote (bs "legal") [] (bs "reverse-charge") (bs "my own words") (bs "m") [].
