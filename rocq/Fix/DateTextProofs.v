(* C04 - proofs about the cal.Date text codec (Fix/DateText.v): reading what was written gives the date
   back, writing what was read gives the text back (so nothing but the written form is accepted). *)
From Coq Require Import List ZArith Strings.Byte Bool Lia.
From Verif Require Import Base.Wire Defs.DefTypes Rates.Date Rates.DateProofs Json.Number Json.JsonProofs Json.LexProofs Fix.DateText.
Import ListNotations.
Open Scope Z_scope.
Ltac Zify.zify_post_hook ::= Z.div_mod_to_equations.

Lemma dv_ch k : 0 <= k < 10 -> is_digit (ch (48 + k)) = true /\ dv (ch (48 + k)) = k.
Proof. intro H. destruct (digit_ch k H) as [H1 H2]. split; [exact H1|exact H2]. Qed.

Lemma ch_dv b : is_digit b = true -> ch (48 + dv b) = b /\ 0 <= dv b < 10.
Proof.
  intro H. apply is_digit_range in H. unfold dv. split; [|lia].
  apply bZ_inj. rewrite bZ_ch by lia. lia.
Qed.

Definition of_digits (a1 a2 a3 a4 b1 b2 c1 c2 : Z) : date :=
  mkDate (((a1 * 10 + a2) * 10 + a3) * 10 + a4) (b1 * 10 + b2) (c1 * 10 + c2).

Lemma parse_digits a1 a2 a3 a4 b1 b2 c1 c2 :
  0 <= a1 < 10 -> 0 <= a2 < 10 -> 0 <= a3 < 10 -> 0 <= a4 < 10 -> 0 <= b1 < 10 -> 0 <= b2 < 10 -> 0 <= c1 < 10 -> 0 <= c2 < 10 ->
  parse_date [ch (48 + a1); ch (48 + a2); ch (48 + a3); ch (48 + a4); c_dash; ch (48 + b1); ch (48 + b2); c_dash; ch (48 + c1); ch (48 + c2)]
  = let d := of_digits a1 a2 a3 a4 b1 b2 c1 c2 in
    if date_eqb d zero_date then Some d else if date_valid d then Some d else None.
Proof.
  intros A1 A2 A3 A4 B1 B2 C1 C2. unfold parse_date.
  destruct (dv_ch _ A1) as [-> ->]. destruct (dv_ch _ A2) as [-> ->]. destruct (dv_ch _ A3) as [-> ->].
  destruct (dv_ch _ A4) as [-> ->]. destruct (dv_ch _ B1) as [-> ->]. destruct (dv_ch _ B2) as [-> ->].
  destruct (dv_ch _ C1) as [-> ->]. destruct (dv_ch _ C2) as [-> ->].
  reflexivity.
Qed.

Lemma days_in_month_le y m : days_in_month y m <= 31.
Proof. unfold days_in_month. repeat match goal with |- context [if ?c then _ else _] => destruct c end; lia. Qed.

Theorem parse_print_date d : date_storable d = true -> parse_date (print_date d) = Some d.
Proof.
  destruct d as [y m dd]. unfold date_storable. intro H.
  assert (Hr : 0 <= y <= 9999 /\ 0 <= m <= 12 /\ 0 <= dd <= 31).
  { apply orb_prop in H. destruct H as [H|H].
    - apply date_eqb_eq in H. unfold zero_date in H. inversion H. subst. lia.
    - apply andb_prop in H. destruct H as [H Hv]. apply andb_prop in H. destruct H as [H1 H2].
      unfold date_valid in Hv. cbn [d_year d_month d_day] in Hv, H1, H2.
      apply andb_prop in Hv. destruct Hv as [Hv V4]. apply andb_prop in Hv. destruct Hv as [Hv V3].
      apply andb_prop in Hv. destruct Hv as [V1 V2].
      pose proof (days_in_month_le y m). lia. }
  destruct Hr as [Hy [Hm Hd]].
  unfold print_date, pad4, pad2. cbn [d_year d_month d_day].
  assert (y <? 10000 = true) as -> by lia. assert (m <? 100 = true) as -> by lia. assert (dd <? 100 = true) as -> by lia.
  cbn [app]. rewrite parse_digits by lia. cbv zeta.
  assert (E : of_digits (y / 1000) ((y / 100) mod 10) ((y / 10) mod 10) (y mod 10) (m / 10) (m mod 10) (dd / 10) (dd mod 10) = mkDate y m dd).
  { unfold of_digits. f_equal; lia. }
  rewrite E. destruct (date_eqb (mkDate y m dd) zero_date) eqn:Ez; [reflexivity|].
  cbn [orb] in H. apply andb_prop in H. destruct H as [_ ->]. reflexivity.
Qed.

Theorem print_parse_date s d : parse_date s = Some d -> print_date d = s /\ date_storable d = true.
Proof.
  unfold parse_date.
  destruct s as [|y1 [|y2 [|y3 [|y4 [|s1 [|m1 [|m2 [|s2 [|d1 [|d2 [|x r]]]]]]]]]]]; try discriminate.
  destruct (is_digit y1 && is_digit y2 && is_digit y3 && is_digit y4 && Byte.eqb s1 c_dash && is_digit m1 && is_digit m2
            && Byte.eqb s2 c_dash && is_digit d1 && is_digit d2) eqn:E; [|discriminate].
  do 9 (apply andb_prop in E; destruct E as [E ?]).
  destruct (ch_dv y1 E) as [Ey1 By1]. destruct (ch_dv y2 H7) as [Ey2 By2]. destruct (ch_dv y3 H6) as [Ey3 By3].
  destruct (ch_dv y4 H5) as [Ey4 By4]. destruct (ch_dv m1 H3) as [Em1 Bm1]. destruct (ch_dv m2 H2) as [Em2 Bm2].
  destruct (ch_dv d1 H0) as [Ed1 Bd1]. destruct (ch_dv d2 H) as [Ed2 Bd2].
  rewrite byte_eqb_bZ in H4, H1. apply Z.eqb_eq in H4, H1. apply bZ_inj in H4, H1. subst s1 s2.
  set (dt := mkDate (((dv y1 * 10 + dv y2) * 10 + dv y3) * 10 + dv y4) (dv m1 * 10 + dv m2) (dv d1 * 10 + dv d2)).
  intro Hp.
  assert (Hd : d = dt /\ date_storable dt = true).
  { unfold date_storable. destruct (date_eqb dt zero_date) eqn:Ez.
    - inversion Hp. split; reflexivity.
    - destruct (date_valid dt) eqn:Ev; [|discriminate]. inversion Hp. split; [reflexivity|].
      cbn [orb]. rewrite andb_true_r. unfold dt. cbn [d_year]. apply andb_true_intro. split; lia. }
  destruct Hd as [-> Hs]. split; [|exact Hs].
  unfold print_date, pad4, pad2, dt. cbn [d_year d_month d_day].
  assert ((((dv y1 * 10 + dv y2) * 10 + dv y3) * 10 + dv y4 <? 10000) = true) as -> by lia.
  assert ((dv m1 * 10 + dv m2 <? 100) = true) as -> by lia.
  assert ((dv d1 * 10 + dv d2 <? 100) = true) as -> by lia.
  cbn [app].
  replace ((((dv y1 * 10 + dv y2) * 10 + dv y3) * 10 + dv y4) / 1000) with (dv y1) by lia.
  replace (((((dv y1 * 10 + dv y2) * 10 + dv y3) * 10 + dv y4) / 100) mod 10) with (dv y2) by lia.
  replace (((((dv y1 * 10 + dv y2) * 10 + dv y3) * 10 + dv y4) / 10) mod 10) with (dv y3) by lia.
  replace ((((dv y1 * 10 + dv y2) * 10 + dv y3) * 10 + dv y4) mod 10) with (dv y4) by lia.
  replace ((dv m1 * 10 + dv m2) / 10) with (dv m1) by lia. replace ((dv m1 * 10 + dv m2) mod 10) with (dv m2) by lia.
  replace ((dv d1 * 10 + dv d2) / 10) with (dv d1) by lia. replace ((dv d1 * 10 + dv d2) mod 10) with (dv d2) by lia.
  now rewrite Ey1, Ey2, Ey3, Ey4, Em1, Em2, Ed1, Ed2.
Qed.

(* nothing but the written form of a storable date is accepted *)
Theorem parse_accepts_only_printed s : (exists d, parse_date s = Some d) <-> exists d, date_storable d = true /\ s = print_date d.
Proof.
  split.
  - intros [d H]. destruct (print_parse_date s d H) as [E Hs]. exists d. auto.
  - intros [d [Hs ->]]. exists d. now apply parse_print_date.
Qed.
