(* C04 - the code normalisers of cbc/code.go over byte strings (Go strings are byte strings).

     func NormalizeCode(c Code) Code {
       code := strings.TrimSpace(c.String())
       code = codeSeparatorRegexp.ReplaceAllString(code, "$1")      ([\.\-\/ _\:])[^A-Za-z0-9]+
       code = codeInvalidCharsRegexp.ReplaceAllString(code, "")     [^A-Za-z0-9\.\-\/ _\:]
       code = strings.TrimSpace(code)
       return Code(code) }
     NormalizeAlphanumericalCode = NormalizeCode; strings.ToUpper; remove [^A-Z\d]
     NormalizeNumericalCode      = NormalizeCode; remove [^\d]

   Go's regexp package works on code points: an invalid byte is read as U+FFFD (one byte wide), a
   multi-byte code point is one character.  Every character class of these patterns has ASCII members
   only, ASCII bytes never occur inside a multi-byte sequence and are therefore always character
   boundaries, so: a negated class matches every character that is not one of the listed ASCII bytes,
   i.e. (byte-wise) every byte that is not one of them.  Hence
     - ReplaceAllString(s, "") with a single negated class = drop every byte outside the class;
     - ([seps])[^alnum]+ -> "$1", leftmost-first, non-overlapping, greedy: scanning from the left, the
       first separator byte that is followed by at least one non-alphanumerical byte starts a match, the
       match extends over the whole run of non-alphanumerical bytes, the separator alone is kept, and
       the scan resumes behind the run (at an alphanumerical byte or the end): `collapse`.
   strings.TrimSpace removes leading and trailing Unicode White_Space code points (unicode.IsSpace);
   leading ones are found by utf8.DecodeRune from the left, trailing ones by utf8.DecodeLastRune, and
   both find a white-space code point exactly when the text begins / ends with its (unique, shortest)
   UTF-8 encoding.  The classes are the `ranges` of Schema/Regex.v so that Fix/CodeNormProofs.v can
   pin them to the pattern terms the translator renders from the Go source (Gen/CodePatterns.v).
   Model file: no proofs. *)
From Coq Require Import List ZArith NArith Strings.Byte Bool.
From Verif Require Import Base.Wire Schema.Regex.
From Verif Require Gen.CodePatterns.
Import ListNotations.

(* A-Za-z0-9 *)
Definition alnum_ranges : ranges := [(65,90);(97,122);(48,57)]%N.
(* \. \- \/ space _ \: *)
Definition sep_ranges : ranges := [(46,46);(45,45);(47,47);(32,32);(95,95);(58,58)]%N.
Definition allowed_ranges : ranges := alnum_ranges ++ sep_ranges.
(* A-Z \d   and   \d *)
Definition upper_digit_ranges : ranges := [(65,90);(48,57)]%N.
Definition digit_ranges : ranges := [(48,57)]%N.

Definition is_alnum (c : byte) : bool := in_ranges (bN c) alnum_ranges.
Definition is_sep (c : byte) : bool := in_ranges (bN c) sep_ranges.
Definition is_allowed (c : byte) : bool := in_ranges (bN c) allowed_ranges.
Definition is_upper_digit (c : byte) : bool := in_ranges (bN c) upper_digit_ranges.
Definition is_digit_c (c : byte) : bool := in_ranges (bN c) digit_ranges.

(* ---- strings.TrimSpace ---- *)
(* number of bytes of the white-space code point the text starts with (0: none).
   unicode.IsSpace: U+0009..U+000D, U+0020, U+0085, U+00A0, U+1680, U+2000..U+200A, U+2028, U+2029,
   U+202F, U+205F, U+3000 *)
Definition space_prefix (s : bytes) : nat :=
  match s with
  | [] => 0
  | c :: r =>
    let z := bN c in
    if ((9 <=? z) && (z <=? 13) || (z =? 32))%N then 1
    else match r with
    | [] => 0
    | d :: r2 =>
      let y := bN d in
      if (z =? 194)%N then (if ((y =? 133) || (y =? 160))%N then 2 else 0)
      else match r2 with
      | [] => 0
      | e :: _ =>
        let x := bN e in
        if ((z =? 225) && (y =? 154) && (x =? 128))%N then 3                                       (* U+1680 *)
        else if ((z =? 226) && (y =? 128) && (((128 <=? x) && (x <=? 138)) || (x =? 168) || (x =? 169) || (x =? 175)))%N then 3
        else if ((z =? 226) && (y =? 129) && (x =? 159))%N then 3                                  (* U+205F *)
        else if ((z =? 227) && (y =? 128) && (x =? 128))%N then 3                                  (* U+3000 *)
        else 0
      end
    end
  end.

(* the same read from the end: `s` is the text REVERSED *)
Definition space_suffix_rev (s : bytes) : nat :=
  match s with
  | [] => 0
  | c :: r =>
    let z := bN c in
    if ((9 <=? z) && (z <=? 13) || (z =? 32))%N then 1
    else match r with
    | [] => 0
    | d :: r2 =>
      let y := bN d in
      if ((y =? 194) && ((z =? 133) || (z =? 160)))%N then 2
      else match r2 with
      | [] => 0
      | e :: _ =>
        let x := bN e in   (* bytes in text order: x y z *)
        if ((x =? 225) && (y =? 154) && (z =? 128))%N then 3
        else if ((x =? 226) && (y =? 128) && (((128 <=? z) && (z <=? 138)) || (z =? 168) || (z =? 169) || (z =? 175)))%N then 3
        else if ((x =? 226) && (y =? 129) && (z =? 159))%N then 3
        else if ((x =? 227) && (y =? 128) && (z =? 128))%N then 3
        else 0
      end
    end
  end.

Fixpoint strip_while (f : bytes -> nat) (fuel : nat) (s : bytes) : bytes :=
  match fuel with
  | O => s
  | S k => match f s with O => s | n => strip_while f k (skipn n s) end
  end.

Definition trim_left (s : bytes) : bytes := strip_while space_prefix (length s) s.
Definition trim_right (s : bytes) : bytes := rev (strip_while space_suffix_rev (length s) (rev s)).
Definition trim_space (s : bytes) : bytes := trim_right (trim_left s).

(* ---- codeSeparatorRegexp.ReplaceAllString(code, "$1") ----
   skipping = inside a match (behind its separator): bytes are dropped up to the next alphanumerical *)
Fixpoint collapse (skipping : bool) (s : bytes) : bytes :=
  match s with
  | [] => []
  | c :: r =>
    if is_alnum c then c :: collapse false r
    else if skipping then collapse true r
    else if is_sep c then
      c :: collapse (match r with d :: _ => negb (is_alnum d) | [] => false end) r
    else c :: collapse false r
  end.

Definition normalize_code (s : bytes) : bytes :=
  trim_space (filter is_allowed (collapse false (trim_space s))).

(* strings.ToUpper on text that is ASCII only (what NormalizeCode returns) *)
Definition ascii_upper (c : byte) : byte :=
  if ((97 <=? bN c) && (bN c <=? 122))%N then byte_of_Z (bZ c - 32) else c.

Definition normalize_alnum_code (s : bytes) : bytes :=
  filter is_upper_digit (map ascii_upper (normalize_code s)).

Definition normalize_num_code (s : bytes) : bytes :=
  filter is_digit_c (normalize_code s).

(* ---- Code.Validate: length 1..32 (in characters) and the pattern ---- *)
Definition code_valid (s : bytes) : bool :=
  (Gen.CodePatterns.code_min_length <=? Z.of_nat (length s))%Z &&
  (Z.of_nat (length s) <=? Gen.CodePatterns.code_max_length)%Z &&
  pattern_matches Gen.CodePatterns.code_pattern s.

(* Key.Validate's pattern (keys have no normaliser: they are stored and written as read) *)
Definition key_valid (s : bytes) : bool := pattern_matches Gen.CodePatterns.key_pattern s.

(* what a normalised code looks like: allowed bytes only, every separator is followed by an
   alphanumerical byte or ends the text, no space at either end *)
Fixpoint seps_followed (s : bytes) : bool :=
  match s with
  | [] => true
  | c :: r => (if is_sep c then match r with d :: _ => is_alnum d | [] => true end else true) && seps_followed r
  end.
Definition not_space (o : option byte) : bool :=
  match o with Some c => negb (bN c =? 32)%N | None => true end.
Definition norm_ok (s : bytes) : bool :=
  forallb is_allowed s && seps_followed s && not_space (hd_error s) && not_space (hd_error (rev s)).
