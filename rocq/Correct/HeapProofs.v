(* C16 - proofs about Correct/Correct.v, heap level: which stamp objects Correct writes to and which
   objects the new document shares with the source.  S is any set of addresses the caller's options
   do not point into (typically: everything reachable from the source envelope). *)
From Coq Require Import List Bool Strings.Byte Arith Lia.
From Verif Require Import Base.Wire Correct.Correct Correct.CorrectProofs.
Import ListNotations.

Definition avoids (l S : list addr) : Prop := forall a, In a l -> ~ In a S.
Definition below (S : list addr) (n : addr) : Prop := forall a, In a S -> a < n.
Definition same_on (S : list addr) (h h' : heap) : Prop := forall a, In a S -> hget h' a = hget h a.

(* the caller's options carry no pointer into S *)
Definition opt_avoids (S : list addr) (x : opt) : Prop :=
  match x with
  | WithStamps l => avoids l S
  | WithOptions o => avoids (o_stamps o) S
  | _ => True
  end.
Definition opts_avoid (S : list addr) (opts : list opt) : Prop := Forall (opt_avoids S) opts.

(* the options name no stamps in raw JSON *)
Definition data_without_stamps (ds : data_state) : Prop :=
  match ds with Data d => d_stamps d = None | _ => True end.
Definition opt_no_data_stamps (x : opt) : Prop :=
  match x with
  | WithData ds => data_without_stamps ds
  | WithOptions o => data_without_stamps (o_data o)
  | _ => True
  end.

Lemma hget_hset_other h a b c : a <> b -> hget (hset h b c) a = hget h a.
Proof. intro N. cbn. destruct (Nat.eqb a b) eqn:E; [apply Nat.eqb_eq in E; contradiction | reflexivity]. Qed.

Lemma clone_stamps_frame l : forall st st' l',
  clone_stamps st l = (st', l') ->
  st_next st <= st_next st' /\
  (forall a, a < st_next st -> hget (st_heap st') a = hget (st_heap st) a) /\
  (forall a', In a' l' -> st_next st <= a').
Proof.
  induction l as [|x l IH]; intros st st' l' E; cbn in E.
  - injection E as <- <-. repeat split; auto. intros a' [].
  - destruct (clone_stamps _ l) as [s2 r2] eqn:C. injection E as <- <-.
    destruct (IH _ _ _ C) as [N [F I]]. cbn in N, F. repeat split.
    + lia.
    + intros a La. rewrite F by lia. apply hget_hset_other. lia.
    + intros a' [<-|Hi]; [lia | apply I in Hi; cbn in Hi; lia].
Qed.

Lemma unmarshal_frame l : forall st cur st' out,
  unmarshal_stamps st cur l = (st', out) ->
  st_next st <= st_next st' /\
  (forall a, a < st_next st -> ~ In a cur -> hget (st_heap st') a = hget (st_heap st) a) /\
  (forall a', In a' out -> In a' cur \/ st_next st <= a').
Proof.
  induction l as [|d l IH]; intros st cur st' out E; cbn in E.
  - injection E as <- <-. repeat split; auto. intros a' [].
  - destruct cur as [|x cur].
    + destruct (unmarshal_stamps _ [] l) as [s2 r2] eqn:U. injection E as <- <-.
      destruct (IH _ _ _ _ U) as [N [F I]]. cbn in N, F. repeat split.
      * lia.
      * intros a La Na. rewrite F by (auto; lia). apply hget_hset_other. lia.
      * intros a' [<-|Hi]; [right; lia|]. destruct (I _ Hi) as [[]|X]. right. cbn in X. lia.
    + destruct (unmarshal_stamps _ cur l) as [s2 r2] eqn:U. injection E as <- <-.
      destruct (IH _ _ _ _ U) as [N [F I]]. cbn in N, F. repeat split.
      * exact N.
      * intros a La Na. rewrite F; [|exact La | intro X; apply Na; right; exact X].
        apply hget_hset_other. intro X. apply Na. left. auto.
      * intros a' [<-|Hi]; [left; left; reflexivity|]. destruct (I _ Hi) as [X|X]; [left; right; exact X | right; exact X].
Qed.

Lemma fold_opts_avoid S opts : forall o0,
  opts_avoid S opts -> avoids (o_stamps o0) S -> avoids (o_stamps (fold_left apply_opt opts o0)) S.
Proof.
  induction opts as [|x opts IH]; intros o0 A A0; cbn; [exact A0|].
  inversion A as [|? ? Ax Ar]; subst. apply IH; [exact Ar|].
  destruct x; cbn in *; assumption.
Qed.

(* ---- the code after fixes/C16-copy-header-stamps.diff (copy_head = true) ---- *)
Lemma resolve_copy_frame S opts st st' ro :
  below S (st_next st) -> opts_avoid S opts ->
  resolve true opts st = (st', ro) ->
  st_next st <= st_next st' /\ same_on S (st_heap st) (st_heap st') /\
  (forall o, ro = Some o -> avoids (o_stamps o) S).
Proof.
  intros Bl Av R. unfold resolve in R.
  set (o := fold_left apply_opt opts no_options) in *.
  assert (Ao : avoids (o_stamps o) S) by (apply fold_opts_avoid; [exact Av | intros a []]).
  (* the stage that appends the header's stamps *)
  assert (X : exists st0 o1,
    (match o_head o with
     | Some (s :: l) =>
         let '(st0, hs) := clone_stamps st (s :: l) in
         (st0, mkOpts (o_head o) (o_type o) (o_issue o) (o_series o) (o_stamps o ++ hs) (o_reason o) (o_ext o) (o_copy_tax o) (o_data o))
     | _ => (st, o)
     end) = (st0, o1) /\ st_next st <= st_next st0 /\ same_on S (st_heap st) (st_heap st0) /\
    avoids (o_stamps o1) S /\ o_data o1 = o_data o).
  { destruct (o_head o) as [[|s l]|].
    - exists st, o. repeat split; auto; intros a _; reflexivity.
    - destruct (clone_stamps st (s :: l)) as [st0 hs] eqn:C. eexists _, _. split; [reflexivity|].
      destruct (clone_stamps_frame _ _ _ _ C) as [N [F I]]. repeat split; auto.
      + intros a Ha. apply F. apply Bl. exact Ha.
      + cbn. intros a Ha. apply in_app_or in Ha. destruct Ha as [Ha|Ha]; [apply Ao; exact Ha|].
        intro Hs. apply I in Ha. apply Bl in Hs. lia.
    - exists st, o. repeat split; auto; intros a _; reflexivity. }
  destruct X as [st0 [o1 [E [N [Sm [A1 Dt]]]]]].
  cbn zeta in R. rewrite E in R. clear E.
  destruct (o_data o1) as [| |d] eqn:Ed.
  - injection R as <- <-. repeat split; auto. intros o' Eo. injection Eo as <-. exact A1.
  - injection R as <- <-. repeat split; auto. intros o' Eo. discriminate.
  - unfold apply_data in R. destruct (d_stamps d) as [l|] eqn:Es.
    + destruct (unmarshal_stamps st0 (o_stamps o1) l) as [st2 out] eqn:U. injection R as <- <-.
      destruct (unmarshal_frame _ _ _ _ _ U) as [N2 [F2 I2]]. repeat split.
      * lia.
      * intros a Ha. rewrite F2; [apply Sm; exact Ha | apply Bl in Ha; lia | intro X; apply (A1 _ X); exact Ha].
      * intros o' Eo. injection Eo as <-. cbn. intros a Ha Hs. destruct (I2 _ Ha) as [X|X]; [apply (A1 _ X); exact Hs|].
        apply Bl in Hs. lia.
    + injection R as <- <-. repeat split; auto. intros o' Eo. injection Eo as <-. exact A1.
Qed.

(* ---- the code as it stands (copy_head = false) writes nothing unless raw JSON names stamps ---- *)
Lemma fold_no_data_stamps opts : forall o0,
  Forall opt_no_data_stamps opts -> data_without_stamps (o_data o0) ->
  data_without_stamps (o_data (fold_left apply_opt opts o0)).
Proof.
  induction opts as [|x opts IH]; intros o0 A A0; cbn; [exact A0|].
  inversion A as [|? ? Ax Ar]; subst. apply IH; [exact Ar|]. destruct x; cbn in *; assumption.
Qed.

Lemma resolve_alias_no_write opts st st' ro :
  Forall opt_no_data_stamps opts -> resolve false opts st = (st', ro) -> st' = st.
Proof.
  intros A R. unfold resolve in R.
  set (o := fold_left apply_opt opts no_options) in *.
  assert (Dn : data_without_stamps (o_data o)) by (apply fold_no_data_stamps; [exact A | exact I]).
  destruct (o_head o) as [[|s l]|]; cbn in R.
  - destruct (o_data o) as [| |d]; try (injection R as <- <-; reflexivity).
    unfold apply_data in R. cbn in Dn. rewrite Dn in R. injection R as <- <-. reflexivity.
  - destruct (o_data o) as [| |d]; try (injection R as <- <-; reflexivity).
    unfold apply_data in R. cbn in Dn. cbn in R. rewrite Dn in R. injection R as <- <-. reflexivity.
  - destruct (o_data o) as [| |d]; try (injection R as <- <-; reflexivity).
    unfold apply_data in R. cbn in Dn. rewrite Dn in R. injection R as <- <-. reflexivity.
Qed.

(* ---- envelopes ---- *)
Section Env.
  Variables T B D : Type.
  Variable calc : invoice T B -> option (invoice T B).
  Variable digest : invoice T B -> D.

  Lemma clone_refs_frame (l : list (docref T)) : forall st st' l',
    clone_refs st l = (st', l') ->
    st_next st <= st_next st' /\ (forall a, a < st_next st -> hget (st_heap st') a = hget (st_heap st) a).
  Proof.
    induction l as [|p l IH]; intros st st' l' E; cbn in E.
    - injection E as <- <-. split; auto.
    - destruct (clone_stamps st (r_stamps p)) as [s1 x] eqn:C1. destruct (clone_refs s1 l) as [s2 y] eqn:C2.
      injection E as <- <-. destruct (clone_stamps_frame _ _ _ _ C1) as [N1 [F1 _]]. destruct (IH _ _ _ C2) as [N2 F2].
      split; [lia|]. intros a La. rewrite F2 by lia. apply F1. exact La.
  Qed.

  Lemma clone_frame st (inv : invoice T B) st' nd :
    clone st inv = (st', nd) ->
    st_next st <= st_next st' /\ (forall a, a < st_next st -> hget (st_heap st') a = hget (st_heap st) a).
  Proof.
    unfold clone. destruct (clone_refs st (i_preceding inv)) as [s r] eqn:C. intro E. injection E as <- <-.
    exact (clone_refs_frame _ _ _ _ C).
  Qed.

  (* after the repair: no object of S is written, and the new document's preceding reference holds
     none of them *)
  Lemma env_correct_copy_leaves_source S regime addons today u_head u_doc opts st (e : envelope T B D) st2 res :
    below S (st_next st) -> opts_avoid S opts ->
    env_correct calc digest true regime addons today u_head u_doc opts st e = (st2, res) ->
    same_on S (st_heap st) (st_heap st2) /\
    (forall e', res = Ok e' -> calc_keeps_header T B calc ->
       forall p, In p (i_preceding (e_doc e')) -> avoids (r_stamps p) S).
  Proof.
    intros Bl Av E. unfold env_correct in E.
    destruct (clone st (e_doc e)) as [st1 nd] eqn:Cl. destruct (clone_frame _ _ _ _ Cl) as [N1 F1].
    set (opts' := match e_stamps e with [] => opts | _ => (opts ++ [WithHead (e_stamps e)])%list end) in *.
    assert (Av' : opts_avoid S opts').
    { unfold opts'. destruct (e_stamps e); [exact Av|]. apply Forall_app. split; [exact Av|]. constructor; [exact I | constructor]. }
    assert (Bl1 : below S (st_next st1)) by (intros a Ha; apply Bl in Ha; lia).
    unfold correct, prepare in E.
    destruct (resolve true opts' st1) as [st' ro] eqn:R.
    destruct (resolve_copy_frame S _ _ _ _ Bl1 Av' R) as [N2 [Sm Ao]].
    assert (Same : same_on S (st_heap st) (st_heap st')).
    { intros a Ha. rewrite Sm by exact Ha. apply F1. apply Bl. exact Ha. }
    destruct ro as [o|].
    - destruct (is_empty (o_type o)).
      + injection E as <- <-. split; [exact Same | intros e' X; discriminate].
      + destruct (correct_with calc (correction_def regime addons) today (st_heap st') o nd) as [r|x] eqn:CW.
        * injection E as <- <-. split; [exact Same|]. intros e' Ee K p Hp.
          destruct (correct_with_shape _ _ _ _ _ _ _ _ _ K CW) as (S1 & _ & _ & _ & _ & _ & p0 & P0 & _ & _ & _ & _ & _ & _ & _ & _ & _ & Pin & _).
          destruct (envelop_shape _ _ _ _ _ _ _ _ _ K Ee) as (_ & _ & _ & _ & V5).
          rewrite S1 in V5. cbn in V5. unfold header in V5. cbn in V5. injection V5 as _ _ _ _ _ _ _ W8.
          rewrite P0 in W8. cbn in W8.
          destruct (i_preceding (e_doc e')) as [|p' [|q rest]]; cbn in W8; try discriminate.
          destruct Hp as [<-|[]]. unfold ref_header in W8. injection W8 as _ _ _ _ _ _ D7 _ _.
          rewrite D7. intros a Ha. apply (Ao o eq_refl). apply Pin. exact Ha.
        * injection E as <- <-. split; [exact Same | intros e' X; discriminate].
    - injection E as <- <-. split; [exact Same | intros e' X; discriminate].
  Qed.

  (* the code as it stands: without stamps in raw JSON options nothing below the allocation mark
     is written (in particular no object of the source) *)
  Lemma env_correct_alias_no_write regime addons today u_head u_doc opts st (e : envelope T B D) st2 res :
    Forall opt_no_data_stamps opts ->
    env_correct calc digest false regime addons today u_head u_doc opts st e = (st2, res) ->
    forall a, a < st_next st -> hget (st_heap st2) a = hget (st_heap st) a.
  Proof.
    intros A E. unfold env_correct in E.
    destruct (clone st (e_doc e)) as [st1 nd] eqn:Cl. destruct (clone_frame _ _ _ _ Cl) as [N1 F1].
    set (opts' := match e_stamps e with [] => opts | _ => (opts ++ [WithHead (e_stamps e)])%list end) in *.
    assert (A' : Forall opt_no_data_stamps opts').
    { unfold opts'. destruct (e_stamps e); [exact A|]. apply Forall_app. split; [exact A|]. constructor; [exact I | constructor]. }
    unfold correct, prepare in E. destruct (resolve false opts' st1) as [st' ro] eqn:R.
    apply resolve_alias_no_write in R; [|exact A']. subst st'.
    assert (X : st2 = st1).
    { destruct ro as [o|]; [destruct (is_empty (o_type o)) | ]; try (injection E as <- _; reflexivity).
      destruct (correct_with calc _ today (st_heap st1) o nd); injection E as <- _; reflexivity. }
    subst st2. exact F1.
  Qed.

  Lemma env_replicate_no_write today u_head u_doc st (e : envelope T B D) st1 res :
    env_replicate calc digest today u_head u_doc st e = (st1, res) ->
    forall a, a < st_next st -> hget (st_heap st1) a = hget (st_heap st) a.
  Proof.
    unfold env_replicate. destruct (clone st (e_doc e)) as [s nd] eqn:Cl. intro E. injection E as <- _.
    exact (proj2 (clone_frame _ _ _ _ Cl)).
  Qed.
End Env.
