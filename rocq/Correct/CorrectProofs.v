(* C16 - proofs about Correct/Correct.v, value level: acceptance conditions and result shapes. *)
From Coq Require Import List Bool Strings.Byte Arith Lia.
From Verif Require Import Base.Wire Digest.EnvelopeProofs Correct.Correct.
Import ListNotations.

Lemma is_empty_true b : is_empty b = true <-> b = [].
Proof. destruct b; cbn; split; intro H; try reflexivity; discriminate. Qed.
Lemma is_empty_false b : is_empty b = false <-> b <> [].
Proof. destruct b; cbn; split; intro H; try discriminate; try reflexivity; contradiction. Qed.
Lemma is_nil_true {A} (l : list A) : is_nil l = true <-> l = [].
Proof. destruct l; cbn; split; intro H; try reflexivity; discriminate. Qed.

Lemma key_in_iff k l : key_in k l = true <-> In k l.
Proof.
  unfold key_in. rewrite existsb_exists. split.
  - intros [x [Hi He]]. apply eqb_bytes_eq in He. subst x. exact Hi.
  - intro Hi. exists k. split; [exact Hi | apply eqb_bytes_eq; reflexivity].
Qed.

(* ---- the declarative refusal conditions ---- *)
Definition stamps_available (h : heap) (o : options) (cd : cdef) : Prop :=
  forall k, In k (cd_stamps cd) -> exists a, In a (o_stamps o) /\ prv_at h a = k.
Definition type_allowed (cd : cdef) (o : options) : Prop :=
  cd_types cd = [] \/ In (o_type o) (cd_types cd).
Definition reason_given (cd : cdef) (o : options) : Prop :=
  cd_reason cd = true -> o_reason o <> [].

Lemma pick_stamps_spec h have need l :
  pick_stamps h have need = inr l -> map (prv_at h) l = need /\ incl l have.
Proof.
  revert l. induction need as [|k need IH]; cbn; intros l E.
  - injection E as <-. split; [reflexivity | intros x []].
  - destruct (find _ have) as [a|] eqn:F; [|discriminate].
    destruct (pick_stamps h have need) as [k'|l'] eqn:P; [discriminate|].
    injection E as <-. destruct (IH l' eq_refl) as [M I]. apply find_some in F. destruct F as [Fi Fe].
    apply eqb_bytes_eq in Fe. split; [cbn; rewrite Fe, M; reflexivity|].
    intros x [<-|Hx]; [exact Fi | apply I; exact Hx].
Qed.

Lemma pick_stamps_ok_iff h have need :
  (exists l, pick_stamps h have need = inr l) <-> (forall k, In k need -> exists a, In a have /\ prv_at h a = k).
Proof.
  induction need as [|k need IH]; cbn.
  - split; [intros _ k [] | intros _; eexists; reflexivity].
  - split.
    + intros [l E]. destruct (find _ have) as [a|] eqn:F; [|discriminate].
      destruct (pick_stamps h have need) as [k'|l'] eqn:P; [discriminate|].
      intros k0 [<-|Hk].
      * apply find_some in F. destruct F as [Fi Fe]. apply eqb_bytes_eq in Fe. exists a. auto.
      * apply (proj1 IH); [eexists; reflexivity | exact Hk].
    + intro Hall. destruct (Hall k (or_introl eq_refl)) as [a [Hi Hp]].
      destruct (find (fun a0 => eqb_bytes (prv_at h a0) k) have) as [a'|] eqn:F.
      * destruct (proj2 IH (fun k0 Hk => Hall k0 (or_intror Hk))) as [l E]. rewrite E. eexists; reflexivity.
      * exfalso. apply (find_none _ _ F) in Hi. rewrite Hp in Hi.
        assert (X : eqb_bytes k k = true) by (apply eqb_bytes_eq; reflexivity). rewrite X in Hi. discriminate.
Qed.

Lemma clone_stamps_length l : forall st, length (snd (clone_stamps st l)) = length l.
Proof.
  induction l as [|a r IH]; intro st; cbn; [reflexivity|].
  specialize (IH (mkSt (hset (st_heap st) (st_next st) match hget (st_heap st) a with Some c => c | None => empty_stamp end) (S (st_next st)))).
  destruct (clone_stamps _ r) as [st' r']. cbn in *. rewrite IH. reflexivity.
Qed.

Section Value.
  Variables T B : Type.
  Variable calc : invoice T B -> option (invoice T B).
  Notation correct_with := (correct_with calc).
  Notation correct := (correct calc).

  (* Correct's own refusals (everything but a failing calculation of the new document) *)
  Lemma correct_with_passes_iff cd today h o (inv : invoice T B) :
    (correct_with cd today h o inv = Err CalcError \/ exists r, correct_with cd today h o inv = Ok r) <->
    (i_code inv <> [] /\ stamps_available h o cd /\ type_allowed cd o /\ reason_given cd o).
  Proof.
    unfold Correct.correct_with, stamps_available, type_allowed, reason_given.
    destruct (is_empty (i_code inv)) eqn:Ec.
    { apply is_empty_true in Ec. split; [intros [X|[r X]]; discriminate | intros [X _]; contradiction]. }
    apply is_empty_false in Ec.
    destruct (pick_stamps h (o_stamps o) (cd_stamps cd)) as [k|l] eqn:P.
    { split; [intros [X|[r X]]; discriminate|]. intros [_ [Hs _]].
      apply pick_stamps_ok_iff in Hs. destruct Hs as [l E]. rewrite E in P. discriminate. }
    assert (Hs : forall k, In k (cd_stamps cd) -> exists a, In a (o_stamps o) /\ prv_at h a = k)
      by (apply pick_stamps_ok_iff; eexists; exact P).
    destruct (negb (is_nil (cd_types cd)) && negb (key_in (o_type o) (cd_types cd))) eqn:Et.
    { apply andb_true_iff in Et. destruct Et as [E1 E2]. apply negb_true_iff in E1, E2.
      split; [intros [X|[r X]]; discriminate|]. intros [_ [_ [[Hn|Hi] _]]].
      - apply is_nil_true in Hn. rewrite Hn in E1. discriminate.
      - apply key_in_iff in Hi. rewrite Hi in E2. discriminate. }
    assert (Ht : cd_types cd = [] \/ In (o_type o) (cd_types cd)).
    { apply andb_false_iff in Et. destruct Et as [E|E]; apply negb_false_iff in E.
      - left. apply is_nil_true. exact E.
      - right. apply key_in_iff. exact E. }
    destruct (cd_reason cd && is_empty (o_reason o)) eqn:Er.
    { apply andb_true_iff in Er. destruct Er as [E1 E2]. apply is_empty_true in E2.
      split; [intros [X|[r X]]; discriminate|]. intros [_ [_ [_ Hr]]]. exfalso. apply (Hr E1). exact E2. }
    assert (Hr : cd_reason cd = true -> o_reason o <> []).
    { intros E1. rewrite E1 in Er. cbn in Er. apply is_empty_false. exact Er. }
    split; [intros _; auto|]. intros _.
    destruct (calc _); [right; eexists; reflexivity | left; reflexivity].
  Qed.

  (* the whole of Invoice.Correct: options resolved, type present, then the above *)
  Lemma correct_passes_iff c cd today opts st (inv : invoice T B) :
    (snd (correct c cd today opts st inv) = Err CalcError \/ exists r, snd (correct c cd today opts st inv) = Ok r) <->
    (exists o, snd (resolve c opts st) = Some o /\ o_type o <> [] /\ i_code inv <> [] /\
               stamps_available (st_heap (fst (resolve c opts st))) o cd /\ type_allowed cd o /\ reason_given cd o).
  Proof.
    unfold Correct.correct, prepare. destruct (resolve c opts st) as [st' [o|]] eqn:R; cbn [fst snd].
    - destruct (is_empty (o_type o)) eqn:Et; cbn [snd].
      + apply is_empty_true in Et. split; [intros [X|[r X]]; discriminate|].
        intros [o' [E [Ht _]]]. injection E as <-. contradiction.
      + apply is_empty_false in Et. rewrite correct_with_passes_iff. split.
        * intros H. exists o. tauto.
        * intros [o' [E H]]. injection E as <-. tauto.
    - split; [intros [X|[r X]]; discriminate | intros [o [E _]]; discriminate].
  Qed.

  (* ---- shape of an accepted correction ---- *)
  Definition calc_keeps_header := forall i i' : invoice T B, calc i = Some i' -> header i' = header i.

  Lemma correct_with_shape cd today h o (inv r : invoice T B) :
    calc_keeps_header ->
    correct_with cd today h o inv = Ok r ->
    i_uuid r = [] /\ i_code r = [] /\ i_type r = o_type o /\ type_allowed cd o /\
    i_series r = (if is_empty (o_series o) then i_series inv else o_series o) /\
    i_issue r = (match o_issue o with Some d => d | None => today end) /\
    exists p, i_preceding r = [p] /\
      r_uuid p = i_uuid inv /\ r_type p = i_type inv /\ r_series p = i_series inv /\ r_code p = i_code inv /\
      r_issue p = Some (i_issue inv) /\
      r_reason p = o_reason o /\ reason_given cd o /\ r_ext p = o_ext o /\
      map (prv_at h) (r_stamps p) = cd_stamps cd /\ incl (r_stamps p) (o_stamps o) /\
      (r_tax p <> None <-> o_copy_tax o = true /\ exists t, i_taxes inv = Some (Some t)).
  Proof.
    intros K E.
    assert (P : i_code inv <> [] /\ stamps_available h o cd /\ type_allowed cd o /\ reason_given cd o)
      by (apply (proj1 (correct_with_passes_iff cd today h o inv)); right; eexists; exact E).
    destruct P as [_ [_ [Pt Pr]]].
    unfold Correct.correct_with in E.
    destruct (is_empty (i_code inv)); [discriminate|].
    destruct (pick_stamps h (o_stamps o) (cd_stamps cd)) as [k|l] eqn:P; [discriminate|].
    destruct (negb (is_nil (cd_types cd)) && negb (key_in (o_type o) (cd_types cd))); [discriminate|].
    destruct (cd_reason cd && is_empty (o_reason o)); [discriminate|].
    match type of E with context [calc ?x] => destruct (calc x) as [r'|] eqn:C; [|discriminate] end.
    injection E as <-. apply K in C. unfold header in C. cbn in C.
    destruct (pick_stamps_spec _ _ _ _ P) as [M I].
    injection C as C1 C2 C3 C4 C5 C6 C7 C8.
    repeat (split; [assumption|]).
    destruct (i_preceding r') as [|p [|q rest]]; cbn in C8; try discriminate.
    exists p. split; [reflexivity|]. unfold ref_header in C8. cbn in C8.
    injection C8 as D1 D2 D3 D4 D5 D6 D7 D8 D9.
    rewrite D7. repeat (split; [assumption|]).
    destruct (r_tax p) as [t|]; destruct (o_copy_tax o); destruct (i_taxes inv) as [[t'|]|]; try discriminate;
      split; try (intros [X _]; discriminate); try (intros [_ [t0 X]]; discriminate); try (intro X; contradiction);
      try (intros _; split; [reflexivity | eexists; reflexivity]); try discriminate.
  Qed.

  (* ---- Replicate ---- *)
  Lemma replicate_shape today (inv : invoice T B) :
    let r := replicate today inv in
    i_uuid r = [] /\ i_code r = [] /\ i_issue r = today /\ i_value_date r = None /\ i_op_date r = None /\
    i_type r = i_type inv /\ i_series r = i_series inv /\ i_preceding r = i_preceding inv /\
    i_taxes r = i_taxes inv /\ i_body r = i_body inv.
  Proof. cbn. repeat split. Qed.

  (* ---- envelopes ---- *)
  Variable D : Type.
  Variable digest : invoice T B -> D.
  Notation envelop := (envelop calc digest).

  Lemma envelop_shape u_head u_doc (inv : invoice T B) e' :
    calc_keeps_header ->
    envelop u_head u_doc inv = Ok e' ->
    e_uuid e' = u_head /\ e_stamps e' = [] /\ e_sigs e' = [] /\ e_dig e' = digest (e_doc e') /\
    header (e_doc e') = header (if is_empty (i_uuid inv) then set_uuid inv u_doc else inv).
  Proof.
    intros K E. unfold Correct.envelop in E.
    match type of E with context [calc ?x] => destruct (calc x) as [r|] eqn:C; [|discriminate] end.
    injection E as <-. cbn. repeat split. apply K. exact C.
  Qed.

  Lemma clone_refs_headers st (l : list (docref T)) :
    map (fun r => (r_uuid r, r_type r, r_issue r, r_series r, r_code r, r_reason r, length (r_stamps r),
                   match r_tax r with Some _ => true | None => false end, r_ext r)) (snd (clone_refs st l)) =
    map (fun r => (r_uuid r, r_type r, r_issue r, r_series r, r_code r, r_reason r, length (r_stamps r),
                   match r_tax r with Some _ => true | None => false end, r_ext r)) l.
  Proof.
    revert st. induction l as [|p l IH]; intro st; cbn; [reflexivity|].
    destruct (clone_stamps st (r_stamps p)) as [st1 s] eqn:Cs.
    specialize (IH st1). destruct (clone_refs st1 l) as [st2 r'] eqn:Cr. cbn in *. rewrite IH. f_equal.
    pose proof (clone_stamps_length (r_stamps p) st) as L. rewrite Cs in L. cbn in L. rewrite L. reflexivity.
  Qed.

  Lemma clone_fields st (inv : invoice T B) :
    let nd := snd (clone st inv) in
    i_uuid nd = i_uuid inv /\ i_type nd = i_type inv /\ i_series nd = i_series inv /\ i_code nd = i_code inv /\
    i_issue nd = i_issue inv /\ i_value_date nd = i_value_date inv /\ i_op_date nd = i_op_date inv /\
    i_taxes nd = i_taxes inv /\ i_body nd = i_body inv.
  Proof. unfold clone. destruct (clone_refs st (i_preceding inv)). cbn. repeat split. Qed.

  (* Envelope.Correct: an accepted correction *)
  Lemma env_correct_shape c regime addons today u_head u_doc opts st (e : envelope T B D) st2 e' :
    calc_keeps_header ->
    env_correct calc digest c regime addons today u_head u_doc opts st e = (st2, Ok e') ->
    let cd := correction_def regime addons in
    let opts' := match e_stamps e with [] => opts | _ => opts ++ [WithHead (e_stamps e)] end in
    let st1 := fst (clone st (e_doc e)) in
    exists o, resolve c opts' st1 = (st2, Some o) /\
      (* a freshly calculated, unsigned envelope with new identifiers *)
      e_uuid e' = u_head /\ e_stamps e' = [] /\ e_sigs e' = [] /\ e_dig e' = digest (e_doc e') /\
      i_uuid (e_doc e') = u_doc /\
      (* no code, the requested - allowed - type *)
      i_code (e_doc e') = [] /\ i_type (e_doc e') = o_type o /\ o_type o <> [] /\ type_allowed cd o /\
      i_series (e_doc e') = (if is_empty (o_series o) then i_series (e_doc e) else o_series o) /\
      i_issue (e_doc e') = (match o_issue o with Some d => d | None => today end) /\
      (* exactly one preceding reference, carrying the source's identity *)
      exists p, i_preceding (e_doc e') = [p] /\
        r_uuid p = i_uuid (e_doc e) /\ r_type p = i_type (e_doc e) /\ r_series p = i_series (e_doc e) /\
        r_code p = i_code (e_doc e) /\ r_code p <> [] /\ r_issue p = Some (i_issue (e_doc e)) /\
        r_reason p = o_reason o /\ reason_given cd o /\ r_ext p = o_ext o /\
        map (prv_at (st_heap st2)) (r_stamps p) = cd_stamps cd /\ incl (r_stamps p) (o_stamps o) /\
        (r_tax p <> None <-> o_copy_tax o = true /\ exists t, i_taxes (e_doc e) = Some (Some t)).
  Proof.
    intros K E. cbn zeta. unfold Correct.env_correct in E.
    destruct (clone st (e_doc e)) as [st1 nd] eqn:Cl. cbn [fst].
    pose proof (clone_fields st (e_doc e)) as CF. rewrite Cl in CF. cbn in CF.
    destruct CF as [F1 [F2 [F3 [F4 [F5 [F6 [F7 [F8 F9]]]]]]]].
    set (opts' := match e_stamps e with [] => opts | _ => (opts ++ [WithHead (e_stamps e)])%list end) in *.
    unfold Correct.correct, prepare in E.
    destruct (resolve c opts' st1) as [st' [o|]] eqn:R; [|discriminate].
    destruct (is_empty (o_type o)) eqn:Et; [discriminate|]. apply is_empty_false in Et.
    destruct (Correct.correct_with calc (correction_def regime addons) today (st_heap st') o nd) as [r|x] eqn:CW; [|discriminate].
    injection E as -> E.
    assert (NC : i_code nd <> []).
    { assert (P : i_code nd <> [] /\ stamps_available (st_heap st2) o (correction_def regime addons) /\
                  type_allowed (correction_def regime addons) o /\ reason_given (correction_def regime addons) o)
        by (apply (proj1 (correct_with_passes_iff (correction_def regime addons) today (st_heap st2) o nd)); right; eexists; exact CW). tauto. }
    destruct (correct_with_shape _ _ _ _ _ _ K CW) as [S1 [S2 [S3 [S4 [S5 [S6 [p [P0 [P1 [P2 [P3 [P4 [P5 [P6 [P7 [P8 [P9 [P10 P11]]]]]]]]]]]]]]]]]].
    destruct (envelop_shape _ _ _ _ K E) as [V1 [V2 [V3 [V4 V5]]]].
    rewrite S1 in V5. cbn in V5. unfold header in V5. cbn in V5.
    injection V5 as W1 W2 W3 W4 W5 W6 W7 W8.
    rewrite F3 in S5. rewrite F1 in P1. rewrite F2 in P2. rewrite F3 in P3. rewrite F4 in P4, NC. rewrite F5 in P5. rewrite F8 in P11.
    rewrite <- W3 in S5. rewrite <- W5 in S6.
    exists o. split; [reflexivity|].
    repeat (split; [first [assumption | congruence]|]).
    rewrite P0 in W8. cbn in W8.
    destruct (i_preceding (e_doc e')) as [|p' [|q rest]]; cbn in W8; try discriminate.
    exists p'. split; [reflexivity|]. unfold ref_header in W8. injection W8 as D1 D2 D3 D4 D5 D6 D7 D8 D9.
    rewrite D7.
    assert (TX : (r_tax p' <> None) <-> (r_tax p <> None)).
    { destruct (r_tax p'), (r_tax p); try discriminate; split; intro X; try discriminate; try contradiction. }
    repeat (split; [first [assumption | congruence]|]).
    rewrite TX, P11. reflexivity.
  Qed.

  (* Envelope.Replicate *)
  Lemma env_replicate_shape today u_head u_doc st (e : envelope T B D) st1 e' :
    calc_keeps_header -> u_doc <> [] ->
    env_replicate calc digest today u_head u_doc st e = (st1, Ok e') ->
    e_uuid e' = u_head /\ e_stamps e' = [] /\ e_sigs e' = [] /\ e_dig e' = digest (e_doc e') /\
    i_uuid (e_doc e') = u_doc /\ i_code (e_doc e') = [] /\ i_issue (e_doc e') = today /\
    i_value_date (e_doc e') = None /\ i_op_date (e_doc e') = None /\
    i_type (e_doc e') = i_type (e_doc e) /\ i_series (e_doc e') = i_series (e_doc e) /\
    length (i_preceding (e_doc e')) = length (i_preceding (e_doc e)).
  Proof.
    intros K NU E. unfold Correct.env_replicate in E.
    destruct (clone st (e_doc e)) as [st1' nd] eqn:Cl.
    pose proof (clone_fields st (e_doc e)) as CF. rewrite Cl in CF. cbn in CF.
    destruct CF as [F1 [F2 [F3 [F4 [F5 [F6 [F7 [F8 F9]]]]]]]].
    injection E as -> E.
    destruct (envelop_shape _ _ _ _ K E) as [V1 [V2 [V3 [V4 V5]]]].
    cbn in V5. destruct (is_empty u_doc) eqn:EU; [apply is_empty_true in EU; contradiction|].
    unfold header in V5. cbn in V5. injection V5 as W1 W2 W3 W4 W5 W6 W7 W8.
    repeat (split; [first [assumption | congruence]|]).
    apply (f_equal (@length _)) in W8. rewrite !map_length in W8. rewrite W8.
    unfold clone in Cl. destruct (clone_refs st (i_preceding (e_doc e))) as [s2 refs] eqn:CR.
    injection Cl as _ <-. cbn.
    pose proof (clone_refs_headers st (i_preceding (e_doc e))) as H. rewrite CR in H. cbn in H.
    apply (f_equal (@length _)) in H. rewrite !map_length in H. exact H.
  Qed.
End Value.
