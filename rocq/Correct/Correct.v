(* C16 - correcting and replicating an invoice: bill/invoice_correct.go, bill/invoice_replicate.go,
   tax/corrections.go, head/options.go, schema/object.go (Correct, Replicate, Clone),
   envelope.go (Correct, Replicate, Envelop, calculate).

   Stamps are the only objects that travel by POINTER from the source envelope into the options and
   from there into the new document (head.WithHead(e.Head) -> o.Stamps = append(o.Stamps,
   o.Head.Stamps...) -> pre.Stamps = append(pre.Stamps, s)), and encoding/json decodes a JSON array
   into an existing []*Stamp element by element INTO the objects already pointed to.  They are
   therefore modelled as addresses into a small heap; everything else is a value.

   Parameters (Section variables):
     T        tax.Total (the tax totals copied on request)        B   the rest of the invoice
     calc     Invoice.Calculate;  None = error.  Nothing is assumed of it in the model.
   No proofs here. *)
From Coq Require Import List Bool Strings.Byte String Arith.
From Verif Require Import Base.Wire.
Import ListNotations.


(* ---- heap of *head.Stamp objects ---- *)
Definition addr := nat.
Record stampc := mkSC { prv : bytes; sval : bytes }.          (* head.Stamp *)
Definition heap := list (addr * stampc).                       (* newest binding first *)
Definition empty_stamp := mkSC [] [].

Fixpoint hget (h : heap) (a : addr) : option stampc :=
  match h with
  | [] => None
  | (a', c) :: r => if Nat.eqb a a' then Some c else hget r a
  end.
Definition hset (h : heap) (a : addr) (c : stampc) : heap := (a, c) :: h.
Definition prv_at (h : heap) (a : addr) : bytes := match hget h a with Some c => prv c | None => [] end.

Record state := mkSt { st_heap : heap; st_next : addr }.      (* st_next: first never-used address *)

(* ---- tax/corrections.go ---- *)
Record cdef := mkDef {
  cd_schema : bytes;
  cd_types : list bytes;
  cd_exts : list bytes;
  cd_reason : bool;
  cd_stamps : list bytes;
  cd_copy_tax : bool }.

Definition short_schema_invoice : bytes := bs "bill/invoice"%string.      (* bill.ShortSchemaInvoice *)

Fixpoint is_prefix (p s : bytes) : bool :=
  match p, s with
  | [], _ => true
  | x :: p', y :: s' => Byte.eqb x y && is_prefix p' s'
  | _ :: _, [] => false
  end.
Definition has_suffix (s suf : bytes) : bool := is_prefix (rev suf) (rev s).

(* CorrectionSet.Def *)
Definition def_for (cs : list cdef) (schema : bytes) : option cdef :=
  find (fun d => has_suffix schema (cd_schema d)) cs.

(* CorrectionDefinition.Merge (receiver never nil here) *)
Definition merge (cd : cdef) (other : option cdef) : cdef :=
  match other with
  | None => cd
  | Some o =>
      if negb (eqb_bytes (cd_schema cd) (cd_schema o)) then cd
      else mkDef (cd_schema cd) (cd_types cd ++ cd_types o) (cd_exts cd ++ cd_exts o)
                 (cd_reason cd || cd_reason o) (cd_stamps cd ++ cd_stamps o)
                 (cd_copy_tax cd || cd_copy_tax o)
  end.

(* Invoice.correctionDef: regime first, then the addons in document order *)
Definition correction_def (regime : option (list cdef)) (addons : list (list cdef)) : cdef :=
  let base := mkDef short_schema_invoice [] [] false [] false in
  let cd := match regime with Some cs => merge base (def_for cs short_schema_invoice) | None => base end in
  fold_left (fun cd cs => merge cd (def_for cs short_schema_invoice)) addons cd.

Definition is_nil {A} (l : list A) : bool := match l with [] => true | _ => false end.
Definition is_empty (b : bytes) : bool := is_nil b.

(* cbc.Key.In *)
Definition key_in (k : bytes) (l : list bytes) : bool := existsb (eqb_bytes k) l.

(* ---- options (bill.CorrectionOptions + head.CorrectionOptions) ---- *)
Record dstamp := mkDS { d_prv : option bytes; d_val : option bytes }.     (* one JSON stamp object *)
Record dataopts := mkData {                                               (* the JSON object of WithData *)
  d_type : option bytes; d_issue : option bytes; d_series : option bytes;
  d_stamps : option (list dstamp); d_reason : option bytes;
  d_ext : option (list (bytes * bytes)); d_copy_tax : option bool }.
Inductive data_state := NoData | BadData | Data (d : dataopts).

Record options := mkOpts {
  o_head : option (list addr);       (* o.Head != nil: o.Head.Stamps *)
  o_type : bytes; o_issue : option bytes; o_series : bytes; o_stamps : list addr;
  o_reason : bytes; o_ext : list (bytes * bytes); o_copy_tax : bool; o_data : data_state }.

Definition no_options := mkOpts None [] None [] [] [] [] false NoData.

Inductive opt :=
| WithType (k : bytes)               (* bill.Corrective / Credit / Debit *)
| WithSeries (s : bytes)
| WithStamps (l : list addr)
| WithReason (r : bytes)
| WithExtension (k v : bytes)
| WithIssueDate (d : bytes)
| WithCopyTax
| WithHead (stamps : list addr)      (* head.WithHead(e.Head) *)
| WithOptions (o : options)
| WithData (d : data_state).         (* NoData: empty raw message *)

Fixpoint ext_set (k v : bytes) (m : list (bytes * bytes)) : list (bytes * bytes) :=
  match m with
  | [] => [(k, v)]
  | (k', v') :: r => if eqb_bytes k k' then (k, v) :: r else (k', v') :: ext_set k v r
  end.

Definition apply_opt (o : options) (x : opt) : options :=
  match x with
  | WithType k => mkOpts (o_head o) k (o_issue o) (o_series o) (o_stamps o) (o_reason o) (o_ext o) (o_copy_tax o) (o_data o)
  | WithSeries s => mkOpts (o_head o) (o_type o) (o_issue o) s (o_stamps o) (o_reason o) (o_ext o) (o_copy_tax o) (o_data o)
  | WithStamps l => mkOpts (o_head o) (o_type o) (o_issue o) (o_series o) l (o_reason o) (o_ext o) (o_copy_tax o) (o_data o)
  | WithReason r => mkOpts (o_head o) (o_type o) (o_issue o) (o_series o) (o_stamps o) r (o_ext o) (o_copy_tax o) (o_data o)
  | WithExtension k v => mkOpts (o_head o) (o_type o) (o_issue o) (o_series o) (o_stamps o) (o_reason o) (ext_set k v (o_ext o)) (o_copy_tax o) (o_data o)
  | WithIssueDate d => mkOpts (o_head o) (o_type o) (Some d) (o_series o) (o_stamps o) (o_reason o) (o_ext o) (o_copy_tax o) (o_data o)
  | WithCopyTax => mkOpts (o_head o) (o_type o) (o_issue o) (o_series o) (o_stamps o) (o_reason o) (o_ext o) true (o_data o)
  | WithHead l => mkOpts (Some l) (o_type o) (o_issue o) (o_series o) (o_stamps o) (o_reason o) (o_ext o) (o_copy_tax o) (o_data o)
  | WithOptions o' => o'
  | WithData d => mkOpts (o_head o) (o_type o) (o_issue o) (o_series o) (o_stamps o) (o_reason o) (o_ext o) (o_copy_tax o) d
  end.

(* encoding/json, array -> existing []*Stamp: element i is decoded INTO the object o.Stamps[i]
   already points to (members present in the JSON overwrite, others stay); further elements get
   new objects; the slice is cut to the array's length *)
Definition decode_stamp (c : stampc) (d : dstamp) : stampc :=
  mkSC (match d_prv d with Some p => p | None => prv c end)
       (match d_val d with Some v => v | None => sval c end).

Fixpoint unmarshal_stamps (st : state) (cur : list addr) (l : list dstamp) : state * list addr :=
  match l with
  | [] => (st, [])
  | d :: l' =>
      match cur with
      | a :: cur' =>
          let c := match hget (st_heap st) a with Some c => c | None => empty_stamp end in
          let st1 := mkSt (hset (st_heap st) a (decode_stamp c d)) (st_next st) in
          let (st2, rest) := unmarshal_stamps st1 cur' l' in (st2, a :: rest)
      | [] =>
          let a := st_next st in
          let st1 := mkSt (hset (st_heap st) a (decode_stamp empty_stamp d)) (S a) in
          let (st2, rest) := unmarshal_stamps st1 [] l' in (st2, a :: rest)
      end
  end.

Definition or_else {A} (x : option A) (d : A) : A := match x with Some v => v | None => d end.

Definition apply_data (st : state) (o : options) (d : dataopts) : state * options :=
  let (st', stamps) := match d_stamps d with
                       | Some l => unmarshal_stamps st (o_stamps o) l
                       | None => (st, o_stamps o)
                       end in
  (st', mkOpts (o_head o) (or_else (d_type d) (o_type o))
               (match d_issue d with Some x => Some x | None => o_issue o end)
               (or_else (d_series d) (o_series o)) stamps (or_else (d_reason d) (o_reason o))
               (match d_ext d with Some m => fold_left (fun acc kv => ext_set (fst kv) (snd kv) acc) m (o_ext o) | None => o_ext o end)
               (or_else (d_copy_tax d) (o_copy_tax o)) (o_data o)).

Inductive refusal :=
| BadOptionsData | MissingType | NoCode | MissingStamp (k : bytes) | InvalidType | MissingReason | CalcError.
Inductive result (A : Type) := Ok (a : A) | Err (e : refusal).
Arguments Ok {A}.
Arguments Err {A}.

(* a copy of each stamp object in a new object (what JSON cloning does; and what the proposed repair
   fixes/C16-copy-header-stamps.diff does with the header's stamps) *)
Fixpoint clone_stamps (st : state) (l : list addr) : state * list addr :=
  match l with
  | [] => (st, [])
  | a :: r =>
      let c := match hget (st_heap st) a with Some c => c | None => empty_stamp end in
      let n := st_next st in
      let (st', r') := clone_stamps (mkSt (hset (st_heap st) n c) (S n)) r in (st', n :: r')
  end.

(* prepareCorrectionOptions; the state is returned also on refusal: what json.Unmarshal wrote stays written.
   copy_head = false is the code as it stands: o.Stamps = append(o.Stamps, o.Head.Stamps...) - the POINTERS;
   copy_head = true is the code after fixes/C16-copy-header-stamps.diff: copies of the objects. *)
Definition resolve (copy_head : bool) (opts : list opt) (st : state) : state * option options :=
  let o := fold_left apply_opt opts no_options in
  let '(st, o1) := match o_head o with
            | Some (s :: l) =>
                let '(st0, hs) := if copy_head then clone_stamps st (s :: l) else (st, s :: l) in
                (st0, mkOpts (o_head o) (o_type o) (o_issue o) (o_series o) (o_stamps o ++ hs)
                             (o_reason o) (o_ext o) (o_copy_tax o) (o_data o))
            | _ => (st, o)
            end in
  match o_data o1 with
  | BadData => (st, None)                      (* "failed to unmarshal correction options" *)
  | NoData => (st, Some o1)
  | Data d => let (st', o2) := apply_data st o1 d in (st', Some o2)
  end.

Definition prepare (copy_head : bool) (opts : list opt) (st : state) : state * result options :=
  match resolve copy_head opts st with
  | (st', None) => (st', Err BadOptionsData)
  | (st', Some o) => (st', if is_empty (o_type o) then Err MissingType else Ok o)
  end.

(* validatePrecedingData, the stamps loop: first stamp in o.Stamps with the provider *)
Fixpoint pick_stamps (h : heap) (have : list addr) (need : list bytes) : bytes + list addr :=
  match need with
  | [] => inr []
  | k :: need' =>
      match find (fun a => eqb_bytes (prv_at h a) k) have with
      | None => inl k
      | Some a => match pick_stamps h have need' with
                  | inl k' => inl k'
                  | inr l => inr (a :: l)
                  end
      end
  end.



(* ---- documents ---- *)
Section Correct.
  Variables T B : Type.

  Record docref := mkRef {             (* org.DocumentRef, the members Correct sets *)
    r_uuid : bytes; r_type : bytes; r_issue : option bytes; r_series : bytes; r_code : bytes;
    r_reason : bytes; r_stamps : list addr; r_tax : option T; r_ext : list (bytes * bytes) }.

  Record invoice := mkInv {
    i_uuid : bytes; i_type : bytes; i_series : bytes; i_code : bytes;
    i_issue : bytes; i_value_date : option bytes; i_op_date : option bytes;
    i_preceding : list docref;
    i_taxes : option (option T);       (* None: Totals == nil; Some None: Totals.Taxes == nil *)
    i_body : B }.

  Variable calc : invoice -> option invoice.

  (* Invoice.Correct, given the merged definition and today's date *)
  Definition correct_with (cd : cdef) (today : bytes) (h : heap) (o : options) (inv : invoice) : result invoice :=
    if is_empty (i_code inv) then Err NoCode else
    let tax := if o_copy_tax o then match i_taxes inv with Some t => t | None => None end else None in
    match pick_stamps h (o_stamps o) (cd_stamps cd) with
    | inl k => Err (MissingStamp k)
    | inr stamps =>
        if negb (is_nil (cd_types cd)) && negb (key_in (o_type o) (cd_types cd)) then Err InvalidType
        else if cd_reason cd && is_empty (o_reason o) then Err MissingReason
        else
          let pre := mkRef (i_uuid inv) (i_type inv) (Some (i_issue inv)) (i_series inv) (i_code inv)
                           (o_reason o) stamps tax (o_ext o) in
          let inv' := mkInv [] (o_type o) (if is_empty (o_series o) then i_series inv else o_series o) []
                            (match o_issue o with Some d => d | None => today end)
                            (i_value_date inv) (i_op_date inv) [pre] (i_taxes inv) (i_body inv) in
          match calc inv' with
          | Some r => Ok r
          | None => Err CalcError
          end
    end.

  Definition correct (copy_head : bool) (cd : cdef) (today : bytes) (opts : list opt) (st : state) (inv : invoice)
    : state * result invoice :=
    match prepare copy_head opts st with
    | (st', Err e) => (st', Err e)
    | (st', Ok o) => (st', correct_with cd today (st_heap st') o inv)
    end.

  (* Invoice.Replicate *)
  Definition replicate (today : bytes) (inv : invoice) : invoice :=
    mkInv [] (i_type inv) (i_series inv) [] today None None (i_preceding inv) (i_taxes inv) (i_body inv).

  (* what of a document the statement of C16 speaks about (tax totals only as present / absent) *)
  Definition ref_header (r : docref) :=
    (r_uuid r, r_type r, r_issue r, r_series r, r_code r, r_reason r, r_stamps r,
     match r_tax r with Some _ => true | None => false end, r_ext r).
  Definition header (i : invoice) :=
    (i_uuid i, i_type i, i_series i, i_code i, i_issue i, i_value_date i, i_op_date i, map ref_header (i_preceding i)).

  (* ---- envelopes ---- *)
  Variable D : Type.
  Variable digest : invoice -> D.            (* Envelope.Digest: C08 *)

  Record envelope := mkEnv {
    e_uuid : bytes; e_stamps : list addr; e_sigs : list bytes; e_dig : D; e_doc : invoice }.

  (* schema.Object.Clone: marshal + unmarshal - the same value in new objects; the only pointers
     the model tracks inside a document are the stamps of its preceding references *)
  Fixpoint clone_refs (st : state) (l : list docref) : state * list docref :=
    match l with
    | [] => (st, [])
    | p :: r =>
        let (st1, s) := clone_stamps st (r_stamps p) in
        let (st2, r') := clone_refs st1 r in
        (st2, mkRef (r_uuid p) (r_type p) (r_issue p) (r_series p) (r_code p) (r_reason p) s (r_tax p) (r_ext p) :: r')
    end.
  Definition clone (st : state) (inv : invoice) : state * invoice :=
    let (st', refs) := clone_refs st (i_preceding inv) in
    (st', mkInv (i_uuid inv) (i_type inv) (i_series inv) (i_code inv) (i_issue inv) (i_value_date inv)
                (i_op_date inv) refs (i_taxes inv) (i_body inv)).

  Definition set_uuid (inv : invoice) (u : bytes) : invoice :=
    mkInv u (i_type inv) (i_series inv) (i_code inv) (i_issue inv) (i_value_date inv) (i_op_date inv)
          (i_preceding inv) (i_taxes inv) (i_body inv).

  (* gobl.Envelop: NewEnvelope (header with a fresh identifier u_head, no stamps, no signatures),
     Insert -> calculate: Object.Calculate gives the document the fresh identifier u_doc when it has
     none, runs the document's Calculate; then the digest *)
  Definition envelop (u_head u_doc : bytes) (inv : invoice) : result envelope :=
    let inv1 := if is_empty (i_uuid inv) then set_uuid inv u_doc else inv in
    match calc inv1 with
    | Some inv2 => Ok (mkEnv u_head [] [] (digest inv2) inv2)
    | None => Err CalcError
    end.

  (* Envelope.Correct *)
  Definition env_correct (copy_head : bool) (regime : option (list cdef)) (addons : list (list cdef)) (today u_head u_doc : bytes)
             (opts : list opt) (st : state) (e : envelope) : state * result envelope :=
    let opts' := match e_stamps e with [] => opts | _ => opts ++ [WithHead (e_stamps e)] end in
    let (st1, nd) := clone st (e_doc e) in
    match correct copy_head (correction_def regime addons) today opts' st1 nd with
    | (st2, Err x) => (st2, Err x)
    | (st2, Ok nd') => (st2, envelop u_head u_doc nd')
    end.

  (* Envelope.Replicate (schema.Object.Replicate gives the identifier back right away; u_doc2 is
     never used because of that) *)
  Definition env_replicate (today u_head u_doc : bytes) (st : state) (e : envelope) : state * result envelope :=
    let (st1, nd) := clone st (e_doc e) in
    (st1, envelop u_head u_doc (set_uuid (replicate today nd) u_doc)).
End Correct.

Arguments mkRef {T}. Arguments r_uuid {T}. Arguments r_type {T}. Arguments r_issue {T}. Arguments r_series {T}.
Arguments r_code {T}. Arguments r_reason {T}. Arguments r_stamps {T}. Arguments r_tax {T}. Arguments r_ext {T}.
Arguments mkInv {T B}. Arguments i_uuid {T B}. Arguments i_type {T B}. Arguments i_series {T B}. Arguments i_code {T B}.
Arguments i_issue {T B}. Arguments i_value_date {T B}. Arguments i_op_date {T B}. Arguments i_preceding {T B}.
Arguments i_taxes {T B}. Arguments i_body {T B}.
Arguments mkEnv {T B D}. Arguments e_uuid {T B D}. Arguments e_stamps {T B D}. Arguments e_sigs {T B D}.
Arguments e_dig {T B D}. Arguments e_doc {T B D}.
Arguments correct_with {T B}. Arguments correct {T B}. Arguments replicate {T B}. Arguments clone {T B}.
Arguments clone_refs {T}. Arguments ref_header {T}. Arguments header {T B}. Arguments set_uuid {T B}. Arguments envelop {T B} calc {D}. Arguments env_correct {T B} calc {D}.
Arguments env_replicate {T B} calc {D}.
