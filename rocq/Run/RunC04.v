(* Runner for property C04 (non-numeric half): wire arguments -> model -> wire result.  Same operation
   names as harness/c04norm.go:
     c04 norm_code x<s> | norm_alnum x<s> | norm_num x<s>   -> x<normalised>
     c04 code_valid x<s> | key_valid x<s>                   -> 0/1
     c04 addr_trim x<s>                                     -> ( x<TrimSpace s> x<state> x<post code> )
     c04 notes ( ( match x<extcode> hasnote x<key> x<code> x<src> x<text> x<ext> ) ... )
               ( ( 1 x<key> x<code> x<src> x<text> x<meta> x<ext> ) | ( 0 ) ... )
                                                            -> ( ok <notes after one pass> <after two> )
                                                               (ScenarioSet.Notes() as repaired in /repo: codes = ExtCode)
     c04 notes_shipped ...                                  -> the same with ScenarioSet.Notes() as first shipped (refuted model)
     c04 marshal_map ( ( x<k> x<v> ) ... )                  -> x<json>
     c04 parse_map x<json>                                  -> ( ok ( x<k> x<v> ) ... ) | ( err parse )
     c04 date_parse x<text>                                 -> ( ok y m d ) | ( err parse )
     c04 date_print y m d                                   -> x<text>
   (the recalculation figures of the numeric half run under c17 recalc). *)
From Coq Require Import ZArith List String Bool.
From Verif Require Import Base.Wire Defs.DefTypes Fix.CodeNorm Fix.ScenarioNotes Fix.MapJson Fix.DateText.
Import ListNotations.

Definition dec_scenario (v : V) : scenario :=
  match vl v with
  | m :: ec :: hn :: k :: c :: s :: t :: e :: _ =>
    mkSc (vbool m) (vs_ ec) (if vbool hn then Some (mkSN (vs_ k) (vs_ c) (vs_ s) (vs_ t) (vs_ e)) else None)
  | _ => mkSc false [] None
  end.

Definition dec_note (v : V) : option note :=
  match vl v with
  | f :: k :: c :: s :: t :: m :: e :: _ => if vbool f then Some (mkNote (vs_ k) (vs_ c) (vs_ s) (vs_ t) (vs_ m) (vs_ e)) else None
  | _ => None
  end.

Definition enc_note (n : option note) : V :=
  match n with
  | None => VL [VI 0]
  | Some x => VL [VI 1; VS (n_key x); VS (n_code x); VS (n_src x); VS (n_text x); VS (n_meta x); VS (n_ext x)]
  end.

Definition run_notes (prep : list scenario -> list (option note) -> list (option note)) (a b : V) : list V :=
  let ss := map dec_scenario (vl a) in
  let ns := map dec_note (vl b) in
  let p1 := prep ss ns in
  [VL [VS (bs "ok"); VL (map enc_note p1); VL (map enc_note (prep ss p1))]].

Definition dec_pair (v : V) : bytes * bytes :=
  match vl v with k :: x :: _ => (vs_ k, vs_ x) | _ => ([], []) end.

Definition run_c04 (args : list V) : list V :=
  match args with
  | o :: rest =>
    let op := opname o in
    let a1 := hd (VS []) rest in
    if String.eqb op "norm_code" then [VS (normalize_code (vs_ a1))]
    else if String.eqb op "norm_alnum" then [VS (normalize_alnum_code (vs_ a1))]
    else if String.eqb op "norm_num" then [VS (normalize_num_code (vs_ a1))]
    else if String.eqb op "code_valid" then [VB (code_valid (vs_ a1))]
    else if String.eqb op "key_valid" then [VB (key_valid (vs_ a1))]
    else if String.eqb op "addr_trim" then
      [VL [VS (trim_space (vs_ a1)); VS (normalize_alnum_code (vs_ a1)); VS (normalize_code (vs_ a1))]]
    else if String.eqb op "notes" then run_notes prepare_notes_fixed a1 (hd (VL []) (tl rest))
    else if String.eqb op "notes_shipped" then run_notes prepare_notes a1 (hd (VL []) (tl rest))
    else if String.eqb op "marshal_map" then [VS (marshal_map (map dec_pair (vl a1)))]
    else if String.eqb op "parse_map" then
      match unmarshal_map (vs_ a1) with
      | Some l => [VL (VS (bs "ok") :: map (fun kv => VL [VS (fst kv); VS (snd kv)]) l)]
      | None => [verr "parse"]
      end
    else if String.eqb op "date_parse" then
      match parse_date (vs_ a1) with
      | Some d => [VL [VS (bs "ok"); VI (d_year d); VI (d_month d); VI (d_day d)]]
      | None => [verr "parse"]
      end
    else if String.eqb op "date_print" then
      match rest with
      | y :: m :: d :: _ =>
        let dt := mkDate (vz y) (vz m) (vz d) in
        if date_nonneg dt then [VS (print_date dt)] else [verr "domain"]
      | _ => [verr "badargs"]
      end
    else [verr "unknown-c04-op"]
  | [] => [verr "unknown-c04-op"]
  end.
