(* Runner for property C04: wire arguments -> model -> wire result. Filled in by the C04 model. *)
From Coq Require Import ZArith List String Bool.
From Verif Require Import Base.Wire.
Import ListNotations.

Definition run_c04 (args : list V) : list V := [verr "not-implemented"].
