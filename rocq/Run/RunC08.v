(* Runner for property C08: wire arguments -> model -> wire result. Filled in by the C08 model. *)
From Coq Require Import ZArith List String Bool.
From Verif Require Import Base.Wire.
Import ListNotations.

Definition run_c08 (args : list V) : list V := [verr "not-implemented"].
