(* Runner for property C08: wire arguments -> Digest/Envelope.v -> wire result.
   The parameters of the model are instantiated from the case itself:
     doc  := bytes      a short token standing for the canonical bytes of the parsed document as the
                        implementation's c14n printed them (distinct bytes <-> distinct tokens;
                        the bytes themselves are cross-checked against an independent printer by
                        the check; feeding 10 kB per case through the extracted wire parser is
                        too slow)
     canon := identity
     H    := the finite table given on the wire ( ( x<token> x<hash> ) ... ): sha256 of the
             bytes the token stands for, computed by the check (hashlib / the harness's own
             crypto/sha256) - not by the implementation's dsig
     structural := the boolean on the wire (did every Validate method of the parts pass)
     calc_doc := the observed result of the document's own calculation
   ops:  validate  <structural 0|1> <dig: ( ) | ( xalg xval )> x<doc> <table>
         calculate <dig> x<doc> <calculated: ( ) | ( x<doc'> )> <table>
         realcanon x<json text of a document>
             the text (json.Marshal of the parsed document on the Go side) is read by C07's reader,
             turned into a `content` (Digest/Link.of_json) and canonicalised by real_canon - the
             canonicaliser of the theorems `..._real` of Props/C08.v:
             -> ( ok x<real_canon d> <in_domain d> <wfb d> )   the value is good (Link.jgood)
              | ( outside )                                     it is not (a string that is not clean UTF-8,
                                                                a float failing C07's exact float premise, e.g. -0.0)
              | ( err <kind> )                                  the text is not one JSON value  *)
From Coq Require Import ZArith List String Bool.
From Verif Require Import Base.Wire Digest.Envelope Json.Json Json.C14n Digest.Content Digest.Link.
Import ListNotations.

Definition c08_kind_name (k : errkind) : string :=
  match k with
  | ESyntax => "syntax" | EIncomplete => "incomplete" | ETrailing => "trailing" | EKey => "key"
  | EUtf8 => "utf8" | ERange => "range" | EFuel => "fuel"
  end.

Definition run_realcanon (t : bytes) : list V :=
  match parse t with
  | Ok v =>
    if jgood v then
      let d := of_json v in
      [VL [VS (bs "ok"); VS (real_canon d); VB (in_domain d); VB (wfb d)]]
    else [VL [VS (bs "outside")]]
  | Err k => [verr (c08_kind_name k)]
  | Panic => [verr "panic"]
  end.

Definition H_tbl (tbl : list V) (b : bytes) : bytes :=
  match find (fun p => eqb_bytes (vs_ (nth 0 (vl p) (VS []))) b) tbl with
  | Some p => vs_ (nth 1 (vl p) (VS []))
  | None => []
  end.

Definition dig_in (v : V) : option digestv :=
  match v with VL [VS a; VS x] => Some (mkDig a x) | _ => None end.
Definition dig_out (d : option digestv) : V :=
  match d with Some d => VL [VS (alg d); VS (val d)] | None => VL [] end.

Definition verdict_out (r : verdict) : V :=
  match r with
  | Valid => VS (bs "ok")
  | ErrValidation => verr "validation"
  | ErrDigest => verr "digest"
  end.

Definition run_c08 (args : list V) : list V :=
  match args with
  | o :: rest =>
    let op := opname o in
    let a1 := nth 0 rest (VI 0) in
    let a2 := nth 1 rest (VI 0) in
    let a3 := nth 2 rest (VI 0) in
    let a4 := nth 3 rest (VI 0) in
    if String.eqb op "validate" then
      let e := mkEnv (vbool a1) (dig_in a2) (vs_ a3) in
      [verdict_out (validate bytes bool (fun d => d) (H_tbl (vl a4)) (fun e => e_rest e) e)]
    else if String.eqb op "calculate" then
      let e := mkEnv true (dig_in a1) (vs_ a2) in
      let calc := fun _ : bytes => match a3 with VL [VS d'] => Some d' | _ => None end in
      match calculate bytes bool (fun d => d) (H_tbl (vl a4)) calc e with
      | Some e1 => [VS (bs "ok"); dig_out (e_dig e1); VS (e_doc e1)]
      | None => [verr "calculation"]
      end
    else if String.eqb op "realcanon" then run_realcanon (vs_ a1)
    else [verr "unknown-c08-op"]
  | [] => [verr "unknown-c08-op"]
  end.
