(* Runner for property C07: wire arguments -> model -> wire result.
     c07 canon <flags> x<json text>    flags: bit 0 fix_comma, 1 fix_negfloat, 2 fix_eof, 3 fix_range, 4 fix_nullkey,
                                        5 fix_negzero (63 = the fixed code = `canon`, 31 = `canon_signed_zero`,
                                        0 = the tree as first examined = `canon_today`)
       -> ( ok x<canonical bytes> ) | ( err <kind> ) | ( err panic )
     c07 norm x<json text>  -> ( ok x<print (norm (parse text))> ) | ( err <kind> )   (the specification reading)
     c07 premise x<json text> -> 1 | 0 | ( err <kind> ): floats_okb (parse text), the premise of the round-trip theorems
   Same operation names as harness/c07.go (which ignores the flags). *)
From Coq Require Import ZArith List String Bool.
From Verif Require Import Base.Wire Json.Json Json.C14n.
Import ListNotations.
Open Scope Z_scope.

Definition kind_name (k : errkind) : string :=
  match k with
  | ESyntax => "syntax" | EIncomplete => "incomplete" | ETrailing => "trailing" | EKey => "key"
  | EUtf8 => "utf8" | ERange => "range" | EFuel => "fuel"
  end.

Definition enc_result (r : result bytes) : list V :=
  match r with
  | Ok o => [VL [VS (bs "ok"); VS o]]
  | Err k => [verr (kind_name k)]
  | Panic => [verr "panic"]
  end.

Definition cfg_of_flags (z : Z) : cfg :=
  mkCfg (Z.testbit z 0) (Z.testbit z 1) (Z.testbit z 2) (Z.testbit z 3) (Z.testbit z 4) (Z.testbit z 5).

Definition run_c07 (args : list V) : list V :=
  match args with
  | o :: rest =>
    let op := opname o in
    if String.eqb op "canon" then
      enc_result (canon_at (cfg_of_flags (vz (nth 0 rest (VI 0)))) (vs_ (nth 1 rest (VS []))))
    else if String.eqb op "norm" then
      enc_result (bind (parse (vs_ (nth 0 rest (VS [])))) (fun v => print (norm v)))
    else if String.eqb op "premise" then
      (* the computable float premise of the round-trip theorems on the value read from the text *)
      match parse (vs_ (nth 0 rest (VS []))) with
      | Ok v => [VB (floats_okb v)]
      | Err k => [verr (kind_name k)]
      | Panic => [verr "panic"]
      end
    else [verr "unknown-c07-op"]
  | [] => [verr "unknown-c07-op"]
  end.
