(* Runner for property C07: wire arguments -> model -> wire result. Filled in by the C07 model. *)
From Coq Require Import ZArith List String Bool.
From Verif Require Import Base.Wire.
Import ListNotations.

Definition run_c07 (args : list V) : list V := [verr "not-implemented"].
