(* Runner for property C12: wire arguments -> Rates/Lookup.v over Gen/Regimes.v -> wire result.
   Same operations as harness/c12.go; <mode> 1 = model after the repair of defect #1, 0 = as shipped. *)
From Coq Require Import ZArith List String Bool.
From Verif Require Import Base.Wire Defs.DefTypes Rates.Date Rates.Lookup Gen.Regimes.
Import ListNotations.
Open Scope Z_scope.

Definition c12_date (v : V) : date :=
  match v with VL [VI y; VI m; VI d] => mkDate y m d | _ => mkDate 0 0 0 end.
Definition c12_tags (v : V) : list str := map vs_ (vl v).
Definition c12_ext (v : V) : kvs :=
  map (fun p => match p with VL [VS k; VS c] => (k, c) | _ => ([], []) end) (vl v).
Definition c12_pct (v : V) : pct := match v with VL [VI x; VI e] => mkPct x e | _ => mkPct 0 0 end.
Definition c12_optpct (v : V) : option pct := match v with VL [VI x; VI e] => Some (mkPct x e) | _ => None end.
Definition c12_vpct (p : pct) : V := VL [VI (p_val p); VI (p_exp p)].
Definition c12_voptpct (p : option pct) : V := match p with Some x => c12_vpct x | None => VL [] end.
Definition c12_vext (e : kvs) : V := VL (map (fun kv => VL [VS (fst kv); VS (snd kv)]) e).

Definition c12_row (v : V) : ratevalue :=
  match v with
  | VL [s; p; su; t; e] =>
    mkValue (match s with VL [VI y; VI m; VI d] => Some (mkDate y m d) | _ => None end)
            (c12_pct p) (c12_optpct su) (c12_tags t) (c12_ext e) false
  | _ => mkValue None (mkPct 0 0) None [] [] false
  end.

Definition c12_test (mode : V) : date -> ratevalue -> bool :=
  if vz mode =? 0 then in_force_shipped else in_force.

Definition c12_found (r : option (Z * ratevalue)) : list V :=
  match r with
  | None => [VL [VI 0]]
  | Some (i, rv) => [VL [VI 1; VI i; c12_vpct (rv_percent rv); c12_voptpct (rv_surcharge rv)]]
  end.

Definition c12_err (e : tax_error) : list V :=
  match e with
  | ErrInvalidCategory => [verr "invalid-category"]
  | ErrInvalidRate => [verr "invalid-rate"]
  | ErrInvalidDate => [verr "invalid-date"]
  end.

Definition c12_sentinel_pct : pct := mkPct 12345 4.
Definition c12_sentinel_sur : pct := mkPct 678 3.

Definition run_c12 (args : list V) : list V :=
  match args with
  | o :: rest =>
    let op := opname o in
    let a n := nth n rest (VI 0) in
    if String.eqb op "lookup" then
      match regime_for in_code_regimes (vs_ (a 1%nat)) with
      | None => [verr "noregime"]
      | Some r =>
        match category_def r (vs_ (a 2%nat)) with
        | None => [verr "nocat"]
        | Some c =>
          match rate_def c (vs_ (a 3%nat)) with
          | None => [verr "norate"]
          | Some rd => c12_found (value_index_with (c12_test (a 0%nat)) (c12_date (a 4%nat)) (c12_tags (a 5%nat))
                                                   (c12_ext (a 6%nat)) (rt_values rd) 0)
          end
        end
      end
    else if String.eqb op "value" then
      c12_found (value_index_with (c12_test (a 0%nat)) (c12_date (a 2%nat)) (c12_tags (a 3%nat)) (c12_ext (a 4%nat))
                                  (map c12_row (vl (a 1%nat))) 0)
    else if String.eqb op "prepare" then
      match regime_for in_code_regimes (vs_ (a 1%nat)) with
      | None => [verr "noregime"]
      | Some r =>
        match calculate_for_regime_with (c12_test (a 0%nat)) r (vs_ (a 2%nat)) (c12_tags (a 5%nat)) (c12_date (a 4%nat))
                (mkCombo (vs_ (a 3%nat)) (Some c12_sentinel_pct) (Some c12_sentinel_sur) (c12_ext (a 6%nat)) false) with
        | inl e => c12_err e
        | inr (ret, c) => [VL [VS (bs "ok"); VB ret; c12_voptpct (cb_percent c); c12_voptpct (cb_surcharge c); c12_vext (cb_ext c)]]
        end
      end
    else if String.eqb op "invoice" then
      match regime_for in_code_regimes (vs_ (a 2%nat)) with
      | None => [verr "noregime"]
      | Some r =>
        match calculate_for_regime_with (c12_test (a 0%nat)) r (vs_ (a 3%nat)) (c12_tags (a 6%nat)) (c12_date (a 5%nat))
                (mkCombo (vs_ (a 4%nat)) (Some c12_sentinel_pct) (Some c12_sentinel_sur) (c12_ext (a 7%nat)) false) with
        | inl e => c12_err e
        | inr (ret, c) => [VL [VS (bs "ok"); c12_voptpct (cb_percent c); c12_voptpct (cb_surcharge c); c12_vext (cb_ext c); VS (cb_rate c)]]
        end
      end
    else if String.eqb op "date" then
      let x := c12_date (a 0%nat) in
      let y := c12_date (a 1%nat) in
      [VL [VB (date_valid x); VB (date_valid y); VB (date_before x y)]]
    else if String.eqb op "checkorder" then
      match check_order (map c12_row (vl (a 0%nat))) None with
      | Some true => [VL [VS (bs "ok")]]
      | Some false => [verr "order"]
      | None => [verr "panic"]
      end
    else [verr "unknown-c12-op"]
  | [] => [verr "unknown-c12-op"]
  end.
