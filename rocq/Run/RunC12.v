(* Runner for property C12: wire arguments -> model -> wire result. Filled in by the C12 model. *)
From Coq Require Import ZArith List String Bool.
From Verif Require Import Base.Wire.
Import ListNotations.

Definition run_c12 (args : list V) : list V := [verr "not-implemented"].
