(* Runner for property C19: wire arguments -> model -> wire result. Filled in by the C19 model. *)
From Coq Require Import ZArith List String Bool.
From Verif Require Import Base.Wire.
Import ListNotations.

Definition run_c19 (args : list V) : list V := [verr "not-implemented"].
