(* Runner for property C19: the checkers of Defs/DefEq.v and Defs/Coherence.v over the generated
   data, reporting WHICH definitions fail (the check turns these into concrete witnesses).
     c19 report  ->  ( ( differing-or-missing published files: ( kind name ) ... )
                       ( orphan published files: ( kind name ) ... )
                       ( incoherent: ( kind name clause-index ) ... ) )
   kind: regimes | addons | catalogues | world; clause-index counts the clauses of
   regime_clauses / addon_clauses from 0; 100 = scenario tags, 101 = tag keys unique. *)
From Coq Require Import ZArith List String Bool.
From Verif Require Import Base.Wire Defs.DefTypes Defs.DefEq Defs.Coherence.
From Verif Require Import Gen.Regimes Gen.Addons Gen.Catalogues Gen.Currencies Gen.Published.
Import ListNotations.
Open Scope Z_scope.

Definition c19_world : world := mkWorld in_code_regimes in_code_addons in_code_catalogues currencies.

Definition c19_named (kind : string) (names : list str) : list V := map (fun n => VL [VS (bs kind); VS n]) names.

Fixpoint c19_failed (kind : string) (name : str) (cl : list bool) (i : Z) : list V :=
  match cl with
  | [] => []
  | b :: r => (if b then [] else [VL [VS (bs kind); VS name; VI i]]) ++ c19_failed kind name r (i + 1)
  end.

Definition run_c19 (args : list V) : list V :=
  match args with
  | o :: _ =>
    if String.eqb (opname o) "report" then
      [ VL (c19_named "regimes" (uncovered regime_eqb in_code_regimes published_regimes) ++
            c19_named "addons" (uncovered addon_eqb in_code_addons published_addons) ++
            c19_named "catalogues" (uncovered catalogue_eqb in_code_catalogues published_catalogues));
        VL (c19_named "regimes" (orphans in_code_regimes published_regimes) ++
            c19_named "addons" (orphans in_code_addons published_addons) ++
            c19_named "catalogues" (orphans in_code_catalogues published_catalogues));
        VL ((if world_coherentb c19_world then [] else [VL [VS (bs "world"); VS (bs "world"); VI 0]]) ++
            flat_map (fun nr => c19_failed "regimes" (fst nr)
                                  (regime_clauses c19_world (snd nr)) 0 ++
                                c19_failed "regimes" (fst nr)
                                  [regime_scenario_tagsb (snd nr); tag_keys_uniqueb (rg_tags (snd nr))] 100) in_code_regimes ++
            flat_map (fun na => c19_failed "addons" (fst na) (addon_clauses c19_world (snd na)) 0 ++
                                c19_failed "addons" (fst na) [true; tag_keys_uniqueb (ad_tags (snd na))] 100) in_code_addons) ]
    else [verr "unknown-c19-op"]
  | [] => [verr "unknown-c19-op"]
  end.
