(* Runner for the num model: decodes wire arguments, calls Num/Amount.v, encodes the result.
   Same operation names as harness/c05.go. *)
From Coq Require Import ZArith List String Bool.
From Verif Require Import Base.Wire Base.Rha Num.Amount.
Import ListNotations.
Open Scope Z_scope.

Definition amt (v : V) : amount :=
  match v with VL [VI x; VI e] => mkA x (Z.to_nat e) | _ => mkA 0 0 end.
Definition vamt (a : amount) : V := VL [VI (val a); VN (exp a)].

Definition run_num (args : list V) : list V :=
  match args with
  | o :: rest =>
    let op := opname o in
    let a1 := nth 0 rest (VI 0) in
    let a2 := nth 1 rest (VI 0) in
    let a3 := nth 2 rest (VI 0) in
    let x := amt a1 in
    if String.eqb op "add" then [vamt (add x (amt a2))]
    else if String.eqb op "sub" then [vamt (sub x (amt a2))]
    else if String.eqb op "mul" then [vamt (mul x (amt a2))]
    else if String.eqb op "div" then [vamt (div x (amt a2))]
    else if String.eqb op "rescale" then [vamt (rescale x (vnat a2))]
    else if String.eqb op "rescale_up" then [vamt (rescale_up x (vnat a2))]
    else if String.eqb op "rescale_down" then [vamt (rescale_down x (vnat a2))]
    else if String.eqb op "rescale_range" then [vamt (rescale_range x (vnat a2) (vnat a3))]
    else if String.eqb op "match_precision" then [vamt (match_precision x (amt a2))]
    else if String.eqb op "upscale" then [vamt (upscale x (vnat a2))]
    else if String.eqb op "downscale" then [vamt (downscale x (vnat a2))]
    else if String.eqb op "compare" then [VI (compare x (amt a2))]
    else if String.eqb op "equals" then [VB (equals x (amt a2))]
    else if String.eqb op "split" then let s := split x (vz a2) in [vamt (fst s); vamt (snd s)]
    else if String.eqb op "negate" then [vamt (negate x)]
    else if String.eqb op "abs" then [vamt (abs x)]
    else if String.eqb op "remove" then [vamt (remove x (amt a2))]
    else if String.eqb op "pct_of" then [vamt (pct_of (amt a2) x)]
    else if String.eqb op "pct_from" then [vamt (pct_from (amt a2) x)]
    else if String.eqb op "factor" then [vamt (factor x)]
    else if String.eqb op "pct_from_amount" then [vamt (pct_from_amount x)]
    else if String.eqb op "pct_amount" then [vamt (pct_amount x)]
    else if String.eqb op "pct_compare" then [VI (compare x (amt a2))]
    else if String.eqb op "pct_equals" then [VB (equals x (amt a2))]
    else if String.eqb op "pct_negate" then [vamt (negate x)]
    else if String.eqb op "pct_rescale" then [vamt (rescale x (vnat a2))]
    else if String.eqb op "threshold" then [VB (threshold (vz a1) (amt a2) (amt a3))]
    else [verr "unknown-num-op"]
  | [] => [verr "unknown-num-op"]
  end.
