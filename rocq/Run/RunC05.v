(* Runner for the num model: decodes wire arguments, calls Num/Amount.v, encodes the result.
   Same operation names as harness/c05.go.  The same names with the prefix impl_ call the
   implementation-faithful model Num/AmountImpl.v (int64 wrap + binary64); its Undefined (Go's
   implementation-defined int64 conversion) is printed as ( err undefined ).  The prefix dom_
   evaluates the boolean guard in_domain_<op> of the exactness theorem for that operation. *)
From Coq Require Import ZArith List String Bool.
From Verif Require Import Base.Wire Base.Rha Base.Int64 Num.Amount Num.AmountImpl.
Import ListNotations.
Open Scope Z_scope.

Definition amt (v : V) : amount :=
  match v with VL [VI x; VI e] => mkA x (Z.to_nat e) | _ => mkA 0 0 end.
Definition vamt (a : amount) : V := VL [VI (val a); VN (exp a)].

Definition vres (r : impl_result) : list V :=
  match r with Defined a => [vamt a] | Undefined => [verr "undefined"] end.

Definition run_num_impl (op : string) (a1 a2 a3 : V) : list V :=
  let x := amt a1 in
  if String.eqb op "impl_add" then vres (impl_add x (amt a2))
  else if String.eqb op "impl_sub" then vres (impl_sub x (amt a2))
  else if String.eqb op "impl_mul" then vres (impl_mul x (amt a2))
  else if String.eqb op "impl_div" then vres (impl_div x (amt a2))
  else if String.eqb op "impl_rescale" then vres (impl_rescale x (vnat a2))
  else if String.eqb op "impl_rescale_up" then vres (impl_rescale_up x (vnat a2))
  else if String.eqb op "impl_rescale_down" then vres (impl_rescale_down x (vnat a2))
  else if String.eqb op "impl_rescale_range" then vres (impl_rescale_range x (vnat a2) (vnat a3))
  else if String.eqb op "impl_match_precision" then vres (impl_match_precision x (amt a2))
  else if String.eqb op "impl_upscale" then vres (impl_upscale x (vnat a2))
  else if String.eqb op "impl_downscale" then vres (impl_downscale x (vnat a2))
  else if String.eqb op "impl_compare" then
    match impl_compare x (amt a2) with Some c => [VI c] | None => [verr "undefined"] end
  else if String.eqb op "impl_equals" then
    match impl_equals x (amt a2) with Some c => [VB c] | None => [verr "undefined"] end
  else if String.eqb op "impl_split" then
    match impl_split x (vz a2) with Some s => [vamt (fst s); vamt (snd s)] | None => [verr "undefined"] end
  else if String.eqb op "impl_negate" then vres (impl_negate x)
  else if String.eqb op "impl_abs" then vres (impl_abs x)
  else if String.eqb op "impl_remove" then vres (impl_remove x (amt a2))
  else if String.eqb op "impl_pct_of" then vres (impl_pct_of (amt a2) x)
  else if String.eqb op "impl_pct_from" then vres (impl_pct_from (amt a2) x)
  else if String.eqb op "impl_factor" then vres (impl_factor x)
  else if String.eqb op "impl_pct_from_amount" then vres (impl_pct_from_amount x)
  else if String.eqb op "impl_pct_amount" then vres (impl_pct_amount x)
  else [verr "unknown-num-op"].

Definition run_num_dom (op : string) (a1 a2 a3 : V) : list V :=
  let x := amt a1 in
  if String.eqb op "dom_add" then [VB (in_domain_add x (amt a2))]
  else if String.eqb op "dom_sub" then [VB (in_domain_sub x (amt a2))]
  else if String.eqb op "dom_mul" then [VB (in_domain_mul x (amt a2))]
  else if String.eqb op "dom_div" then [VB (in_domain_div x (amt a2))]
  else if String.eqb op "dom_rescale" then [VB (in_domain_rescale x (vnat a2))]
  else if String.eqb op "dom_rescale_up" then [VB (in_domain_rescale x (Nat.max (vnat a2) (exp x)))]
  else if String.eqb op "dom_rescale_down" then [VB (in_domain_rescale x (Nat.min (vnat a2) (exp x)))]
  else if String.eqb op "dom_rescale_range" then
    [VB (in_domain_rescale x (Nat.max (vnat a2) (exp x)) &&
         in_domain_rescale (rescale_up x (vnat a2)) (Nat.min (vnat a3) (exp (rescale_up x (vnat a2)))))]
  else if String.eqb op "dom_match_precision" then [VB (in_domain_rescale x (Nat.max (exp (amt a2)) (exp x)))]
  else if String.eqb op "dom_upscale" then [VB (in_domain_rescale x (exp x + vnat a2))]
  else if String.eqb op "dom_downscale" then [VB (in_domain_rescale x (exp x - vnat a2))]
  else if String.eqb op "dom_compare" then [VB (in_domain_compare x (amt a2))]
  else if String.eqb op "dom_equals" then [VB (in_domain_compare x (amt a2))]
  else if String.eqb op "dom_split" then [VB (in_domain_split x (vz a2))]
  else if String.eqb op "dom_negate" then [VB (in_domain_negate x)]
  else if String.eqb op "dom_abs" then [VB (in_domain_negate x)]
  else if String.eqb op "dom_remove" then [VB (in_domain_remove x (amt a2))]
  else if String.eqb op "dom_pct_of" then [VB (in_domain_pct_of (amt a2) x)]
  else if String.eqb op "dom_pct_from" then [VB (in_domain_pct_from (amt a2) x)]
  else if String.eqb op "dom_factor" then [VB (in_domain_factor x)]
  else if String.eqb op "dom_pct_from_amount" then [VB (in_domain_pct_from_amount x)]
  else if String.eqb op "dom_pct_amount" then [VB (in_domain_pct_amount x)]
  else [verr "unknown-num-op"].

Definition run_num (args : list V) : list V :=
  match args with
  | o :: rest =>
    let op := opname o in
    let a1 := nth 0 rest (VI 0) in
    let a2 := nth 1 rest (VI 0) in
    let a3 := nth 2 rest (VI 0) in
    let x := amt a1 in
    if String.eqb op "add" then [vamt (add x (amt a2))]
    else if String.eqb op "sub" then [vamt (sub x (amt a2))]
    else if String.eqb op "mul" then [vamt (mul x (amt a2))]
    else if String.eqb op "div" then [vamt (div x (amt a2))]
    else if String.eqb op "rescale" then [vamt (rescale x (vnat a2))]
    else if String.eqb op "rescale_up" then [vamt (rescale_up x (vnat a2))]
    else if String.eqb op "rescale_down" then [vamt (rescale_down x (vnat a2))]
    else if String.eqb op "rescale_range" then [vamt (rescale_range x (vnat a2) (vnat a3))]
    else if String.eqb op "match_precision" then [vamt (match_precision x (amt a2))]
    else if String.eqb op "upscale" then [vamt (upscale x (vnat a2))]
    else if String.eqb op "downscale" then [vamt (downscale x (vnat a2))]
    else if String.eqb op "compare" then [VI (compare x (amt a2))]
    else if String.eqb op "equals" then [VB (equals x (amt a2))]
    else if String.eqb op "split" then let s := split x (vz a2) in [vamt (fst s); vamt (snd s)]
    else if String.eqb op "negate" then [vamt (negate x)]
    else if String.eqb op "abs" then [vamt (abs x)]
    else if String.eqb op "remove" then [vamt (remove x (amt a2))]
    else if String.eqb op "pct_of" then [vamt (pct_of (amt a2) x)]
    else if String.eqb op "pct_from" then [vamt (pct_from (amt a2) x)]
    else if String.eqb op "factor" then [vamt (factor x)]
    else if String.eqb op "pct_from_amount" then [vamt (pct_from_amount x)]
    else if String.eqb op "pct_amount" then [vamt (pct_amount x)]
    else if String.eqb op "pct_compare" then [VI (compare x (amt a2))]
    else if String.eqb op "pct_equals" then [VB (equals x (amt a2))]
    else if String.eqb op "pct_negate" then [vamt (negate x)]
    else if String.eqb op "pct_rescale" then [vamt (rescale x (vnat a2))]
    else if String.eqb op "threshold" then [VB (threshold (vz a1) (amt a2) (amt a3))]
    else if String.prefix "impl_" op then run_num_impl op a1 a2 a3
    else run_num_dom op a1 a2 a3
  | [] => [verr "unknown-num-op"]
  end.
