(* Runner for property C17: wire arguments -> model -> wire result. Filled in by the C17 model. *)
From Coq Require Import ZArith List String Bool.
From Verif Require Import Base.Wire.
Import ListNotations.

Definition run_c17 (args : list V) : list V := [verr "not-implemented"].
