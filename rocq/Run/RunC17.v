(* Runner for C17 and C04's recalculation: c17 invert|rit|recalc|neg <doc> *)
From Coq Require Import ZArith List String Bool.
From Verif Require Import Base.Wire Calc.Doc Calc.Calc Calc.Symmetry Run.RunCalc.
Import ListNotations.

Definition run_c17 (args : list V) : list V :=
  match args with
  | o :: d :: _ =>
    let dd := d_doc d in
    if is_op o "invert" then
      match invert dd with
      | Inverted t => [VS (bs "ok"); e_totals t]
      | InvertMismatch t => [verr "invert"]
      | InvertRefused => [verr "invert"]
      end
    else if is_op o "invert2" then
      match as_input dd with
      | Some d1 =>
        match invert dd, as_input (invert_doc d1) with
        | Inverted _, Some d2 =>
          match calculate (invert_doc d2) with
          | Totals t2 => [VS (bs "ok"); e_totals t2]
          | _ => [verr "invert"]
          end
        | _, _ => [verr "invert"]
        end
      | None => [verr "invert"]
      end
    else if is_op o "rit" then
      match remove_included_taxes dd with
      | RitDone t => [VS (bs "ok"); e_totals t]
      | RitRefused => [verr "rit"]
      end
    else if is_op o "rit2" then      (* RemoveIncludedTaxes, serialise, parse, calculate again *)
      match remove_included_taxes dd, rit_document dd with
      | RitDone _, Some d1 =>
        match calculate d1 with
        | Totals t => [VS (bs "ok"); e_totals t]
        | _ => [verr "rit"]
        end
      | _, _ => [verr "rit"]
      end
    else if is_op o "recalc" then
      match as_input dd with
      | Some d1 => e_result (calculate d1)
      | None => [verr "calc"]
      end
    else if is_op o "neg" then e_result (calculate (neg_doc dd))
    else [verr "unknown-c17-op"]
  | _ => [verr "unknown-c17-op"]
  end.
