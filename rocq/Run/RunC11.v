(* Runner for property C11: wire arguments -> model -> wire result. Filled in by the C11 model. *)
From Coq Require Import ZArith List String Bool.
From Verif Require Import Base.Wire.
Import ListNotations.

Definition run_c11 (args : list V) : list V := [verr "not-implemented"].
