(* Runner for property C11: wire arguments -> schema model -> wire result.
     validate x<schema id> <json>   -> 1 / 0 / ( err undetermined ) / ( err unknown-schema ) / ( err bad-json )
     refs x<path>                   -> ( x<ref> ... )       references of the shipped file that do not resolve
     match x<pattern text> x<str>   -> 1 / 0                one of the shipped patterns on a string
     format x<name> x<str>          -> 1 / 0                date / uuid
     files                          -> ( x<path> ... )
   JSON on the wire:  z | t | f | ( n <mantissa> <exponent> ) | ( s x<utf8> ) | ( a ( v ... ) ) |
                      ( o ( ( x<key> v ) ... ) ) *)
From Coq Require Import ZArith List String Bool.
From Verif Require Import Base.Wire Schema.Regex Schema.Schema Schema.Validate Schema.WellFormed.
From Verif Require Import Gen.Schemas.
Import ListNotations.
Open Scope Z_scope.

Fixpoint json_of_v (v : V) : option json :=
  match v with
  | VS s => if eqb_bytes s (bs "z") then Some JNull
            else if eqb_bytes s (bs "t") then Some (JBool true)
            else if eqb_bytes s (bs "f") then Some (JBool false)
            else None
  | VL [VS tag; VI m; VI e] => if eqb_bytes tag (bs "n") then Some (JNum m e) else None
  | VL [VS tag; VS s] => if eqb_bytes tag (bs "s") then Some (JStr s) else None
  | VL [VS tag; VL items] =>
      if eqb_bytes tag (bs "a") then
        option_map JArr
          ((fix go (l : list V) : option (list json) :=
              match l with
              | [] => Some []
              | x :: r => match json_of_v x, go r with
                          | Some a, Some b => Some (a :: b)
                          | _, _ => None
                          end
              end) items)
      else if eqb_bytes tag (bs "o") then
        option_map JObj
          ((fix go (l : list V) : option (list (bytes * json)) :=
              match l with
              | [] => Some []
              | VL [VS k; x] :: r => match json_of_v x, go r with
                                     | Some a, Some b => Some ((k, a) :: b)
                                     | _, _ => None
                                     end
              | _ :: _ => None
              end) items)
      else None
  | _ => None
  end.

Definition shipped_env : env := env_of_files shipped_schemas.

(* nesting depth budget: far above what the shipped schemas and any document need *)
Definition c11_fuel : nat := 400.

Definition vbytes_list (l : list bytes) : V := VL (map VS l).

Definition run_c11 (args : list V) : list V :=
  match args with
  | o :: rest =>
    let op := opname o in
    let a1 := nth 0 rest (VI 0) in
    let a2 := nth 1 rest (VI 0) in
    if String.eqb op "validate" then
      match json_of_v a2 with
      | None => [verr "bad-json"]
      | Some j =>
        match lookup_ref shipped_env (vs_ a1, []) with
        | None => [verr "unknown-schema"]
        | Some _ => match validate_id shipped_env c11_fuel (vs_ a1) j with
                    | Some b => [VB b]
                    | None => [verr "undetermined"]
                    end
        end
      end
    else if String.eqb op "refs" then
      match lookup (vs_ a1) shipped_schemas with
      | Some s => [vbytes_list (unresolved_refs shipped_env s)]
      | None => [verr "unknown-file"]
      end
    else if String.eqb op "match" then
      match find (fun p => eqb_bytes (p_src p) (vs_ a1)) shipped_patterns with
      | Some p => [VB (pattern_matches p (vs_ a2))]
      | None => [verr "unknown-pattern"]
      end
    else if String.eqb op "format" then
      if eqb_bytes (vs_ a1) (bs "date") then [VB (format_date (vs_ a2))]
      else if eqb_bytes (vs_ a1) (bs "uuid") then [VB (format_uuid (vs_ a2))]
      else [verr "unknown-format"]
    else if String.eqb op "files" then [vbytes_list (map fst shipped_schemas)]
    else [verr "unknown-c11-op"]
  | [] => [verr "unknown-c11-op"]
  end.
