(* Runner for property C09: wire arguments -> model -> wire result. Filled in by the C09 model. *)
From Coq Require Import ZArith List String Bool.
From Verif Require Import Base.Wire.
Import ListNotations.

Definition run_c09 (args : list V) : list V := [verr "not-implemented"].
