(* Runner for property C09: runs a history (as RunC10), then presents the resulting envelope
   with each listed key (-1 = no key) to the library and to the command-line entry point.
     c09 <fx> <base> ( op ... ) ( key ... )  ->  ( ( x<validate> x<lib verify> x<cli verify> ) ... ) ( x<op outcome> ... )
   Bulk and HTTP verification call the same function as the command line (internal/cli.Verify),
   so the model has one verdict for the three of them. *)
From Coq Require Import ZArith List String Bool.
From Verif Require Import Base.Wire Env.Header Env.Sig Env.Lifecycle Run.RunC10.
Import ListNotations.
Open Scope Z_scope.

Definition present (fx : fixes) (e : env) (k : Z) : V :=
  let ks := if k <? 0 then [] else [k] in
  let ko := if k <? 0 then None else Some k in
  VL [voutcome (validate hash_impl fx e);
      voutcome (verify e ks);
      match doc e with
      | None => VS (bs "marshal")            (* the empty object does not serialise *)
      | Some _ => voutcome (cli_verify hash_impl fx e ko)
      end].

Definition run_c09 (args : list V) : list V :=
  match args with
  | [VI f; VI b; VL ops; VL keys] =>
    let fx := dec_fx f in
    let e := final_env fx (start_env fx b) ops in
    [VL (map (fun k => present fx e (vz k)) keys);
     VL (map (fun r => match r with VL (x :: _) => x | _ => VS [] end) (run_wire fx (start_env fx b) ops))]
  | _ => [verr "badargs"]
  end.
