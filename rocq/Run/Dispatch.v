(* Entry point of the extracted oracle: one wire line in, one wire line out. *)
From Coq Require Import ZArith List String Bool.
From Verif Require Import Base.Wire Run.RunC05.
Import ListNotations.

Definition dispatch (vs : list V) : list V :=
  match vs with
  | o :: rest =>
    let op := opname o in
    if String.eqb op "num" then run_num rest
    else [verr "unknown-op"]
  | [] => [verr "badline"]
  end.

Definition run_line (l : bytes) : bytes :=
  match parse_line l with
  | Some vs => print_vs (dispatch vs)
  | None => print_vs [verr "badline"]
  end.
