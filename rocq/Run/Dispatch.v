(* Entry point of the extracted oracle: one wire line in, one wire line out.
   First token selects the property runner: num (C05) or c01 ... c20. *)
From Coq Require Import ZArith List String Bool.
From Verif Require Import Base.Wire.
From Verif Require Import Run.RunC01 Run.RunC02 Run.RunC03 Run.RunC04 Run.RunC05 Run.RunC06 Run.RunC07
  Run.RunC08 Run.RunC09 Run.RunC10 Run.RunC11 Run.RunC12 Run.RunC13 Run.RunC14 Run.RunC15 Run.RunC16
  Run.RunC17 Run.RunC18 Run.RunC19 Run.RunC20 Run.RunTj.
Import ListNotations.

Definition dispatch (vs : list V) : list V :=
  match vs with
  | o :: rest =>
    let op := opname o in
    if String.eqb op "num" then run_num rest
    else if String.eqb op "c01" then run_c01 rest
    else if String.eqb op "c02" then run_c02 rest
    else if String.eqb op "c03" then run_c03 rest
    else if String.eqb op "c04" then run_c04 rest
    else if String.eqb op "c06" then run_c06 rest
    else if String.eqb op "c07" then run_c07 rest
    else if String.eqb op "c08" then run_c08 rest
    else if String.eqb op "c09" then run_c09 rest
    else if String.eqb op "c10" then run_c10 rest
    else if String.eqb op "c11" then run_c11 rest
    else if String.eqb op "c12" then run_c12 rest
    else if String.eqb op "c13" then run_c13 rest
    else if String.eqb op "c14" then run_c14 rest
    else if String.eqb op "c15" then run_c15 rest
    else if String.eqb op "c16" then run_c16 rest
    else if String.eqb op "c17" then run_c17 rest
    else if String.eqb op "c18" then run_c18 rest
    else if String.eqb op "c19" then run_c19 rest
    else if String.eqb op "c20" then run_c20 rest
    else if String.eqb op "tj" then run_tj rest
    else [verr "unknown-op"]
  | [] => [verr "badline"]
  end.

Definition run_line (l : bytes) : bytes :=
  match parse_line l with
  | Some vs => print_vs (dispatch vs)
  | None => print_vs [verr "badline"]
  end.
