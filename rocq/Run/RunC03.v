(* Runner for property C03: wire arguments -> model -> wire result. Filled in by the C03 model. *)
From Coq Require Import ZArith List String Bool.
From Verif Require Import Base.Wire.
Import ListNotations.

Definition run_c03 (args : list V) : list V := [verr "not-implemented"].
