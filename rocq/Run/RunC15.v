(* Runner for property C15: wire arguments -> model -> wire result. Filled in by the C15 model. *)
From Coq Require Import ZArith List String Bool.
From Verif Require Import Base.Wire.
Import ListNotations.

Definition run_c15 (args : list V) : list V := [verr "not-implemented"].
