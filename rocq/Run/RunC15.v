(* Runner for property C15: wire arguments -> model -> wire result.
     c15 accepts ( (rid body)... ) ( ) | ( pid err )  ( (rid seq body final)... )   -> 0/1
         request list with the standalone operation's output for each request, the ending
         (end of input, or decode error with echoed id and error body), the observed output.
     c15 schedule <same arguments>    -> the label list of a schedule producing the output
                                         (0 = read, 1 = end, (2 k) = send k, 3 = final), or err
     c15 tags <copying 0/1> ( regime keys... ) <cap> ( ( addon keys... ) ... )
         -> ( regime backing array after supportedTags, up to capacity ) ( returned keys )       *)
From Coq Require Import ZArith List String Bool.
From Verif Require Import Base.Wire Conc.Bulk Conc.Slices.
Import ListNotations.

Definition rq_of (v : V) : bytes * bytes :=
  match v with VL [a; b] => (vs_ a, vs_ b) | _ => ([], []) end.
Definition ending_of (v : V) : ending :=
  match v with VL [a; b] => Bad (vs_ a) (vs_ b) | _ => Eof end.
Definition reply_of_v (v : V) : reply :=
  match v with
  | VL [a; n; b; fl] => mkReply (vs_ a) (vnat n) (vs_ b) (vbool fl)
  | _ => mkReply [] 0 [] false
  end.
Definition vlabel (l : label) : V :=
  match l with LRead => VI 0 | LEnd => VI 1 | LSend k => VL [VI 2; VN k] | LFinal => VI 3 end.

Definition tags_run (copying : bool) (rk : list Z) (c : nat) (adks : list (list Z)) : list V :=
  let n := List.length rk in
  let c' := Nat.max c n in
  let h0 := mkHeap ((rk ++ repeat 0%Z (c' - n))%list :: adks) [] [] in
  let r := mkDef [mkTagset INV (mkSlice 0 0 n c')] [] [] in
  let ads := map (fun p : nat * list Z => mkDef [mkTagset INV (mkSlice (S (fst p)) 0 (List.length (snd p)) (List.length (snd p)))] [] [])
                 (combine (List.seq 0%nat (List.length adks)) adks) in
  let res := supported_tags copying h0 (Some r) ads in
  [VL (map VI (nth 0 (arrays (fst res)) [])); VL (map VI (read (fst res) (snd res)))].

Definition run_c15 (args : list V) : list V :=
  match args with
  | o :: rest =>
    let op := opname o in
    if String.eqb op "accepts" || String.eqb op "schedule" then
      match rest with
      | [rq; e; ob] =>
        let i := mkInput (bytes * bytes) (map rq_of (vl rq)) (ending_of e) in
        let outp := map reply_of_v (vl ob) in
        if String.eqb op "accepts" then [VB (accepts _ fst snd i outp)]
        else if accepts _ fst snd i outp then [VL (map vlabel (schedule_for _ fst snd i outp))]
        else [verr "not-accepted"]
      | _ => [verr "bad-args"]
      end
    else if String.eqb op "tags" then
      match rest with
      | [cp; rk; c; adks] => tags_run (vbool cp) (map vz (vl rk)) (vnat c) (map (fun a => map vz (vl a)) (vl adks))
      | _ => [verr "bad-args"]
      end
    else [verr "unknown-c15-op"]
  | [] => [verr "unknown-c15-op"]
  end.
