(* Runner for property C13: wire arguments -> model -> wire result. Filled in by the C13 model. *)
From Coq Require Import ZArith List String Bool.
From Verif Require Import Base.Wire.
Import ListNotations.

Definition run_c13 (args : list V) : list V := [verr "not-implemented"].
