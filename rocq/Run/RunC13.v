(* Runner for property C13: wire arguments -> TaxId model -> wire result.
     c13 check    x<CC> x<raw code>  ->  x<country'> x<code'> <accepted 0/1> x<code''>
         (Identity.Normalize, Identity.Validate, Identity.Normalize again)
     c13 validate x<CC> x<code>      ->  <accepted 0/1>          (Identity.Validate only)
   Same operation names as harness/c13.go. *)
From Coq Require Import String ZArith List Bool.
From Verif Require Import Base.Wire TaxId.Common TaxId.Regimes.
Import ListNotations.

Definition run_c13 (args : list V) : list V :=
  match args with
  | o :: cc :: code :: _ =>
    let op := opname o in
    if String.eqb op "check" then
      let '((cc1, c1), ok, c2) := check (vs_ cc) (vs_ code) in
      [VS cc1; VS c1; VB ok; VS c2]
    else if String.eqb op "validate" then [VB (validate (vs_ cc) (vs_ code))]
    else [verr "unknown-c13-op"]
  | _ => [verr "unknown-c13-op"]
  end.
