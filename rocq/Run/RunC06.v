(* Runner for property C06: wire arguments -> Num/Codec.v -> wire result. Same operation names
   as harness/c06.go.  A trailing integer argument 1 selects the model of the REPAIRED code
   (fixes/C06-1-strict-amount-parse.diff), anything else the code as shipped.
     c06 print ( v e ) [1]        -> ( ok x<text> ) ( ok x<minimal text> )   |  ( err panic ) ( err panic )
     c06 pct_print ( v e ) [1]    -> ( ok x<text> )                           |  ( err panic )
     c06 parse x<str> [1]         -> ( ok ( v e ) ) | ( null ) | ( err )      (UnmarshalText)
     c06 parse_json x<raw> [1]    -> same                                     (UnmarshalJSON)
     c06 pct_parse / pct_parse_json
     c06 all x<str> x<json> [1]   -> the six readings above, the two matches, ( f ) (the Go side appends the
                                     struct-field results inside ( f ... ))
     c06 all_a / all_p x<str> x<json> [1] -> the three amount / percentage readings, ( f )
     c06 matches x<str> / pct_matches x<str> -> 0 | 1                         (the published pattern) *)
From Coq Require Import ZArith List String Bool.
From Verif Require Import Base.Wire Num.Amount Num.Codec.
Import ListNotations.
Open Scope Z_scope.

Definition c06_amt (v : V) : amount :=
  match v with VL [VI x; VI e] => mkA x (Z.to_nat e) | _ => mkA 0 0 end.
Definition c06_ok_text (s : bytes) : V := VL [VS (bs "ok"); VS s].
Definition c06_panic : V := VL [VS (bs "err"); VS (bs "panic")].
Definition c06_read (r : read) : V :=
  match r with
  | Rok a => VL [VS (bs "ok"); VL [VI (val a); VN (exp a)]]
  | Rnull => VL [VS (bs "null")]
  | Rerr => VL [VS (bs "err")]
  end.
Definition c06_opt (o : option amount) : read := match o with Some a => Rok a | None => Rerr end.

Definition run_c06 (args : list V) : list V :=
  match args with
  | o :: rest =>
    let op := opname o in
    let a1 := nth 0 rest (VI 0) in
    let fixed := vz (nth 1 rest (VI 0)) =? 1 in
    let pa := if fixed then parse_amount_fixed else parse_amount in
    let pr := if fixed then print_amount_fixed else print_amount in
    let panics := if fixed then amount_string_fixed_panics else amount_string_panics in
    if String.eqb op "print" then
      let a := c06_amt a1 in
      if panics a then [c06_panic; c06_panic]
      else [c06_ok_text (pr a); c06_ok_text (minimal_of_text (pr a))]
    else if String.eqb op "pct_print" then
      let p := c06_amt a1 in
      if panics (pct_amount p) then [c06_panic] else [c06_ok_text (print_pct_with pr p)]
    else if String.eqb op "parse" then [c06_read (unmarshal_text pa (vs_ a1))]
    else if String.eqb op "parse_json" then [c06_read (unmarshal_json pa (vs_ a1))]
    else if String.eqb op "pct_parse" then [c06_read (unmarshal_text (parse_pct_with pa) (vs_ a1))]
    else if String.eqb op "pct_parse_json" then [c06_read (unmarshal_json (parse_pct_with pa) (vs_ a1))]
    else if String.eqb op "all" then
      let s := vs_ a1 in
      let q := b_quote :: s ++ [b_quote] in
      let fixed := vz (nth 2 rest (VI 0)) =? 1 in
      let pa := if fixed then parse_amount_fixed else parse_amount in
      [c06_read (unmarshal_text pa s); c06_read (unmarshal_json pa s); c06_read (unmarshal_json pa q);
       c06_read (unmarshal_text (parse_pct_with pa) s); c06_read (unmarshal_json (parse_pct_with pa) s);
       c06_read (unmarshal_json (parse_pct_with pa) q);
       VB (matches_amount_pattern s); VB (matches_pct_pattern s); VL [VS (bs "f")]]
    else if String.eqb op "all_a" || String.eqb op "all_p" then
      let s := vs_ a1 in
      let q := b_quote :: s ++ [b_quote] in
      let fixed := vz (nth 2 rest (VI 0)) =? 1 in
      let pa := if fixed then parse_amount_fixed else parse_amount in
      let rd := if String.eqb op "all_a" then pa else parse_pct_with pa in
      [c06_read (unmarshal_text rd s); c06_read (unmarshal_json rd s); c06_read (unmarshal_json rd q);
       VL [VS (bs "f")]]
    else if String.eqb op "matches" then [VB (matches_amount_pattern (vs_ a1))]
    else if String.eqb op "pct_matches" then [VB (matches_pct_pattern (vs_ a1))]
    else [verr "unknown-c06-op"]
  | [] => [verr "unknown-c06-op"]
  end.
