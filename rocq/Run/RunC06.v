(* Runner for property C06: wire arguments -> model -> wire result. Filled in by the C06 model. *)
From Coq Require Import ZArith List String Bool.
From Verif Require Import Base.Wire.
Import ListNotations.

Definition run_c06 (args : list V) : list V := [verr "not-implemented"].
