(* Runner for property C20: wire arguments -> model -> wire result. Filled in by the C20 model. *)
From Coq Require Import ZArith List String Bool.
From Verif Require Import Base.Wire.
Import ListNotations.

Definition run_c20 (args : list V) : list V := [verr "not-implemented"].
