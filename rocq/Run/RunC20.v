(* Runner for C20: tax summaries and payments.
   operand := ( doc <doc> ) | ( tt <cats> <sum> <precise> ) | ( ctt rule c <cats> <sum> <precise> )
              (ctt: the loaded summary after Total.Calculate(currency with c decimals, rule): carries precise figures)
   cats := ( ( x<code> retained rates amount surcharge? precise ) ... )
   rate := ( x<key> x<country> ext pct? sur? base amount suramount )
   ops: negate A | merge A B ... (left fold) | calc rule c A | pay <payment>
   payment := ( keep rule curid c ( ( id subunits ) ... ) rates lines )
   line := ( cur? debit? credit? docref? )  cur? := ( ) | ( id ) ; docref? := ( ) | ( cur? tt? ) ; tt? := ( ) | ( cats sum precise ) *)
From Coq Require Import ZArith List String Bool.
From Verif Require Import Base.Wire Num.Amount Calc.Doc Calc.Calc Calc.Merge Run.RunCalc.
Import ListNotations.
Open Scope Z_scope.

Definition d_rt (v : V) : rate_total :=
  let l := vl v in
  mkRT (vs_ (nthv 0 l)) (vs_ (nthv 1 l)) (d_ext (nthv 2 l)) (d_oamt (nthv 3 l)) (d_oamt (nthv 4 l))
       (d_amt (nthv 5 l)) (d_amt (nthv 6 l)) (d_amt (nthv 7 l)).
Definition d_ct (v : V) : cat_total :=
  let l := vl v in
  mkCT (vs_ (nthv 0 l)) (vbool (nthv 1 l)) (map d_rt (vl (nthv 2 l))) (d_amt (nthv 3 l)) (d_oamt (nthv 4 l)) (d_amt (nthv 5 l)).
Definition d_tt (l : list V) : tax_total :=
  mkTT (map d_ct (vl (nthv 0 l))) (d_amt (nthv 1 l)) (d_amt (nthv 2 l)).

Definition operand (v : V) : option tax_total :=
  match vl v with
  | o :: rest =>
    if is_op o "doc" then
      match calculate (d_doc (nthv 0 rest)) with
      | Totals t => Some (mkTT (t_cats t) (t_taxsum t) (t_taxsum_precise t))
      | _ => None
      end
    else if is_op o "tt" then Some (d_tt rest)
    else if is_op o "ctt" then
      Some (tt_calculate (vbool (nthv 0 rest)) (vnat (nthv 1 rest)) (d_tt (skipn 2 rest)))
    else None
  | [] => None
  end.

Definition e_tt (t : tax_total) : list V :=
  [VS (bs "ok"); VL (map e_ct (tt_cats t)); e_amt (tt_sum t); e_amt (tt_PreciseSum t);
   VL (map (fun c => e_amt (ct_PreciseAmount c)) (tt_cats t))].

Fixpoint operands (vs : list V) : option (list tax_total) :=
  match vs with
  | [] => Some []
  | v :: r => match operand v, operands r with Some t, Some ts => Some (t :: ts) | _, _ => None end
  end.

Definition d_pl (v : V) : pay_line :=
  let l := vl v in
  mkPL (match nthv 0 l with VL [VI k] => Some k | _ => None end) (d_oamt (nthv 1 l)) (d_oamt (nthv 2 l))
       (match vl (nthv 3 l) with
        | [] => None
        | dc :: tv :: _ => Some (match dc with VL [VI k] => Some k | _ => None end,
                                 match vl tv with [] => None | l2 => Some (d_tt l2) end)
        | _ => None
        end).

Fixpoint lookup_sub (tbl : list (Z * nat)) (k : Z) : nat :=
  match tbl with [] => 2%nat | (i, s) :: r => if i =? k then s else lookup_sub r k end.

Definition run_c20 (args : list V) : list V :=
  match args with
  | o :: rest =>
    if is_op o "negate" then
      match operands rest with Some [t] => e_tt (tt_negate t) | _ => [verr "operand"] end
    else if is_op o "merge" then
      match operands rest with
      | Some (t :: ts) => e_tt (fold_left tt_merge ts t)
      | _ => [verr "operand"]
      end
    else if is_op o "merge_negate" then
      match operands rest with Some [t] => e_tt (tt_merge t (tt_negate t)) | _ => [verr "operand"] end
    else if is_op o "calc" then
      match rest with
      | r :: c :: a :: _ => match operand a with
                            | Some t => e_tt (tt_calculate (vbool r) (vnat c) t)
                            | None => [verr "operand"]
                            end
      | _ => [verr "operand"]
      end
    else if is_op o "pay" then
      let l := vl (nthv 0 rest) in
      let tbl := map (fun p => (vz (nthv 0 (vl p)), vnat (nthv 1 (vl p)))) (vl (nthv 4 l)) in
      let rates := map (fun p => mkXrate (vz (nthv 0 (vl p))) (vz (nthv 1 (vl p))) (d_amt (nthv 2 (vl p)))) (vl (nthv 5 l)) in
      match pay_calc (vbool (nthv 0 l)) (vbool (nthv 1 l)) rates (vz (nthv 2 l)) (vnat (nthv 3 l)) (lookup_sub tbl)
                     (map d_pl (vl (nthv 6 l))) with
      | None => [verr "calc"]
      | Some po =>
        [VS (bs "ok"); VL (map e_amt (po_lines po)); e_oamt (po_total po);
         match po_tax po with Some t => VL (e_tt t) | None => VL [] end]
      end
    else [verr "unknown-c20-op"]
  | [] => [verr "unknown-c20-op"]
  end.
