(* Runner for C01 (also used by C02/C03):
     c01 calc  <doc> : the calculation model (Calc.calculate)
     c01 ideal <doc> : the declarative specification with its rounding points (Ideal.ideal):
                       ( ok ( ( price sum total ) per presented line ) sum discount charge tax_included total tax
                         total_with_tax payable advances due ) - every figure ( numerator denominator decimals ),
                       absent optional totals ( )
     c01 exact <doc> : the same ten totals with no rounding at all (Ideal.exact), ( numerator denominator ) in
                       lowest terms
     c01 class <doc> : ( simple? budget uses_conversion? uses_breakdown? precise? simple_but_price? ) -
                       IdealClass.simple_docb, budget, uses_conversion, uses_breakdown, the rounding rule,
                       simple_but_priceb *)
From Coq Require Import ZArith QArith List String Bool.
From Verif Require Import Base.Wire Calc.Doc Calc.Calc Run.RunCalc Calc.Ideal Calc.IdealClass.
Import ListNotations.

Definition e_q (q : Q) : list V := let r := Qred q in [VI (Qnum r); VI (Zpos (Qden r))].
Definition e_tot (dec : option nat) (q : Q) : V :=
  VL (e_q q ++ match dec with Some c => [VN c] | None => [] end).
Definition e_otot (dec : option nat) (o : option Q) : V :=
  match o with Some q => e_tot dec q | None => VL [] end.
Definition e_fig (f : fig) : V := VL (e_q (fq f) ++ [VN (fp f)]).
Definition e_iline (l : iline) : V := VL [e_fig (il_price l); e_fig (il_sum l); e_fig (il_total l)].

Definition e_itotals (dec : option nat) (o : option itotals) : list V :=
  match o with
  | None => [VS (bs "none")]
  | Some t =>
    [VS (bs "ok");
     VL [VL (match dec with Some _ => map e_iline (i_lines t) | None => [] end);
         e_tot dec (i_sum t); e_otot dec (i_discount t); e_otot dec (i_charge t); e_otot dec (i_tax_included t);
         e_tot dec (i_total t); e_tot dec (i_tax t); e_tot dec (i_twt t); e_tot dec (i_payable t);
         e_otot dec (i_advances t); e_otot dec (i_due t)]]
  end.

Definition run_c01 (args : list V) : list V :=
  match args with
  | o :: d :: _ =>
    if is_op o "calc" then e_result (calculate (d_doc d))
    else if is_op o "ideal" then e_itotals (Some (d_c (d_doc d))) (ideal (d_doc d))
    else if is_op o "exact" then e_itotals None (exact (d_doc d))
    else if is_op o "class" then
      let x := d_doc d in
      [VL [VB (simple_docb x); VI (budget x); VB (uses_conversion x); VB (uses_breakdown x);
           VB (negb (d_currency_rule x)); VB (simple_but_priceb x)]]
    else [verr "unknown-c01-op"]
  | _ => [verr "unknown-c01-op"]
  end.
