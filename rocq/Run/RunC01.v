(* Runner for C01 (also used by C02/C03): c01 calc <doc> *)
From Coq Require Import ZArith List String Bool.
From Verif Require Import Base.Wire Calc.Doc Calc.Calc Run.RunCalc.
Import ListNotations.

Definition run_c01 (args : list V) : list V :=
  match args with
  | o :: d :: _ => if is_op o "calc" then e_result (calculate (d_doc d)) else [verr "unknown-c01-op"]
  | _ => [verr "unknown-c01-op"]
  end.
