(* Runner for property C01: wire arguments -> model -> wire result. Filled in by the C01 model. *)
From Coq Require Import ZArith List String Bool.
From Verif Require Import Base.Wire.
Import ListNotations.

Definition run_c01 (args : list V) : list V := [verr "not-implemented"].
