(* Runner for property C18: wire arguments -> model -> wire result. Filled in by the C18 model. *)
From Coq Require Import ZArith List String Bool.
From Verif Require Import Base.Wire.
Import ListNotations.

Definition run_c18 (args : list V) : list V := [verr "not-implemented"].
