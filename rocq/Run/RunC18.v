(* Runner for property C18: the reference rules of Defs/RefCheck.v over the GENERATED tables.
     c18 check ( x<regime> ( x<addon> ... ) x<schema> ( x<tag> ... )
                 ( ( x<path> x<cat> x<rate> x<country> ( ( x<key> x<value> ) ... ) ) ... )
                 ( ( x<path> x<key> x<value> ) ... )
                 ( ( x<path> x<code> ) ... )
                 ( ( x<path> x<kind: iso|tax|regime|combo> x<code> ) ... ) )
        (the view printed by `vharness` c18 refs / c18 run)
     ->  repaired shipped ( ( x<kind> x<path> x<detail> ) ... ) ( ... )
        verdict (1/0) of validate_refs and of validate_refs_shipped over in_code_defs with the
        matcher simple_match, then the items failing the repaired rules and the shipped rules;
     c18 check-published ( view ) -> the same over published_defs;
     c18 match x<pattern> x<value> -> supported(1/0) matches(1/0);
     c18 raterule x<country> x<cat> x<key> -> in-code(1/0) published(1/0) as-shipped-before-the-repair(1/0):
        in_category_rates (RegimeDef.InCategoryRates, the rule on a combo's rate key) over in_code_defs and
        published_defs, and in_category_rates_any_part (Key.Has) over in_code_defs. *)
From Coq Require Import ZArith List String Bool.
From Verif Require Import Base.Wire Defs.DefTypes Defs.DefEq Defs.RefCheck Defs.RefTables.
Import ListNotations.
Open Scope Z_scope.

Definition c18_kind (s : bytes) : country_kind :=
  if eqb_bytes s (bs "iso") then CkISO
  else if eqb_bytes s (bs "regime") then CkRegime
  else if eqb_bytes s (bs "combo") then CkCombo
  else CkTax.

Definition c18_nth (l : list V) (n : nat) : V := nth n l (VS []).

Definition c18_view (v : V) : doc_refs :=
  let l := vl v in
  mkDocRefs (vs_ (c18_nth l 0)) (map vs_ (vl (c18_nth l 1))) (vs_ (c18_nth l 2)) (map vs_ (vl (c18_nth l 3)))
    (map (fun c => let x := vl c in
                   mkComboRef (vs_ (c18_nth x 0)) (vs_ (c18_nth x 1)) (vs_ (c18_nth x 2)) (vs_ (c18_nth x 3))
                              (map (fun p => (vs_ (c18_nth (vl p) 0), vs_ (c18_nth (vl p) 1))) (vl (c18_nth x 4))))
         (vl (c18_nth l 4)))
    (map (fun e => let x := vl e in mkExtRef (vs_ (c18_nth x 0)) (vs_ (c18_nth x 1)) (vs_ (c18_nth x 2))) (vl (c18_nth l 5)))
    (map (fun e => let x := vl e in mkCurrencyRef (vs_ (c18_nth x 0)) (vs_ (c18_nth x 1))) (vl (c18_nth l 6)))
    (map (fun e => let x := vl e in mkCountryRef (vs_ (c18_nth x 0)) (c18_kind (vs_ (c18_nth x 1))) (vs_ (c18_nth x 2)))
         (vl (c18_nth l 7))).

Definition c18_items (l : list (str * str * str)) : V :=
  VL (map (fun it => VL [VS (fst (fst it)); VS (snd (fst it)); VS (snd it)]) l).

Definition c18_check (d : defs) (v : V) : list V :=
  let r := c18_view v in
  [ VB (validate_refs simple_match d r); VB (validate_refs_shipped simple_match d r);
    c18_items (failing_items simple_match repaired_rules d r);
    c18_items (failing_items simple_match shipped_rules d r) ].

Definition run_c18 (args : list V) : list V :=
  match args with
  | o :: rest =>
    if String.eqb (opname o) "check" then
      match rest with v :: _ => c18_check in_code_defs v | [] => [verr "bad-c18-args"] end
    else if String.eqb (opname o) "check-published" then
      match rest with v :: _ => c18_check published_defs v | [] => [verr "bad-c18-args"] end
    else if String.eqb (opname o) "match" then
      match rest with
      | p :: v :: _ => [VB (pattern_supported (vs_ p)); VB (simple_match (vs_ p) (vs_ v))]
      | _ => [verr "bad-c18-args"]
      end
    else if String.eqb (opname o) "raterule" then
      match rest with
      | cc :: cat :: k :: _ =>
        [VB (in_category_rates (regime_for in_code_defs (vs_ cc)) (vs_ cat) (vs_ k));
         VB (in_category_rates (regime_for published_defs (vs_ cc)) (vs_ cat) (vs_ k));
         VB (in_category_rates_any_part (regime_for in_code_defs (vs_ cc)) (vs_ cat) (vs_ k))]
      | _ => [verr "bad-c18-args"]
      end
    else [verr "unknown-c18-op"]
  | [] => [verr "unknown-c18-op"]
  end.
