(* Runner of the typed-marshalling model (Marshal/Typed.v over the regenerated Go types).
     tj schema x<schema id> <tree>   -> ( ok <tree> ) | ( bad ) | ( dom )
     tj type   x<type name> <tree>   -> same           (named struct type, e.g. gobl.Envelope)
   Trees: ( ) null, 0 / 1 booleans, ( x<number text> ) numbers, x<bytes> strings,
          ( 0 ( items ) ) arrays, ( 1 ( ( x<key> value ) ... ) ) objects. *)
From Coq Require Import ZArith List String Bool.
From Verif Require Import Base.Wire Marshal.Typed Marshal.Env.
Import ListNotations.
Open Scope Z_scope.

Fixpoint tv_of_v (fuel : nat) (v : V) : tv :=
  match fuel with
  | O => TNull
  | S f =>
    match v with
    | VI z => TBool (negb (z =? 0))
    | VS s => TStr s
    | VL [] => TNull
    | VL [VS raw] => TNum raw
    | VL [VI 0; VL items] => TArr (map (tv_of_v f) items)
    | VL [VI 1; VL members] =>
      TObj (map (fun kv => match kv with VL [VS k; x] => (k, tv_of_v f x) | _ => ([], TNull) end) members)
    | _ => TNull
    end
  end.

Fixpoint v_depth (v : V) : nat :=
  match v with VL l => S (fold_right (fun x n => Nat.max (v_depth x) n) O l) | _ => 1%nat end.

Fixpoint v_of_tv (t : tv) : V :=
  match t with
  | TNull => VL []
  | TBool b => VB b
  | TNum raw => VL [VS raw]
  | TStr s => VS s
  | TArr l => VL [VI 0; VL (map v_of_tv l)]
  | TObj m => VL [VI 1; VL (map (fun kv => VL [VS (fst kv); v_of_tv (snd kv)]) m)]
  end.

Definition tj_res (r : res tv) : list V :=
  match r with
  | Ok t => [VL [VS (bs "ok"); v_of_tv t]]
  | Bad => [VL [VS (bs "bad")]]
  | Dom => [VL [VS (bs "dom")]]
  end.

Definition run_tj (args : list V) : list V :=
  match args with
  | [o; VS n; t] =>
    let j := tv_of_v (S (v_depth t)) t in
    if String.eqb (opname o) "schema" then tj_res (reenc_schema n j)
    else if String.eqb (opname o) "type" then tj_res (reenc_type n j)
    else [verr "unknown-op"]
  | _ => [verr "badargs"]
  end.
