(* Runner for property C16: wire arguments -> Correct/Correct.v -> wire result.
   Instantiation: T := unit (tax totals present or not), B := unit, calc := identity (the check
   compares identifiers, type, series, code, dates and the preceding reference, which Calculate
   leaves alone on normalised input - the premise calc_keeps_header of the theorems), digest := unit.

   c16 correct <regime> <addons> xtoday xu_head xu_doc <opts> <state> <envelope> <copy_head 0|1>
       (copy_head: 0 = the code as it stands, 1 = after fixes/C16-copy-header-stamps.diff)
   c16 replicate xtoday xu_head xu_doc <state> <envelope>
     regime   = ( ) | ( ( def ... ) )          addons = ( ( def ... ) ... )
     def      = ( xschema ( xtype ... ) ( xext ... ) <reason 0|1> ( xstamp ... ) <copytax 0|1> )
     opts     = ( opt ... )   opt = ( type xk ) ( series xs ) ( stamps ( addr ... ) ) ( reason xr ) ( ext xk xv )
                                    ( issue xd ) ( copytax ) ( options <options> ) ( data <data> )
     options  = ( <head: ( ) | ( ( addr ... ) )> xtype <opt issue> xseries ( addr ... ) xreason ( ( xk xv ) ... ) <copytax> <data> )
     data     = ( nodata ) | ( bad ) | ( data <opt type> <opt issue> <opt series> <opt ( ( <opt prv> <opt val> ) ... )>
                                              <opt reason> <opt ( ( xk xv ) ... )> <opt 0|1> )      opt x = ( ) | ( x )
     state    = ( ( ( addr xprv xval ) ... ) next )
     envelope = ( xuuid ( addr ... ) ( xsig ... ) doc )
     doc      = ( xuuid xtype xseries xcode xissue <opt vd> <opt od> ( ref ... ) <taxes 0 no totals|1 no taxes|2 present> )
     ref      = ( xuuid xtype <opt issue> xseries xcode xreason ( addr ... ) <tax 0|1> ( ( xk xv ) ... ) )
   result:  ok <envelope'> ( source header stamps after: ( xprv xval ) ... ) ( addresses shared by the result's
            first preceding reference and the source header )
            with stamps printed as ( addr xprv xval );   or  ( err kind ) ( source header stamps after ) *)
From Coq Require Import ZArith List String Bool.
From Verif Require Import Base.Wire Correct.Correct.
Import ListNotations.

Definition T := unit.
Definition B := unit.
Notation docref := (docref T).
Notation invoice := (invoice T B).
Notation envelope := (Correct.envelope T B unit).

Definition vopt (v : V) : option V := match v with VL [x] => Some x | _ => None end.
Definition vobytes (v : V) : option bytes := option_map vs_ (vopt v).
Definition vaddrs (v : V) : list addr := map vnat (vl v).
Definition vpairs (v : V) : list (bytes * bytes) := map (fun p => (vs_ (nth 0 (vl p) (VS [])), vs_ (nth 1 (vl p) (VS [])))) (vl v).
Definition vstrs (v : V) : list bytes := map vs_ (vl v).

Definition def_in (v : V) : cdef :=
  let l := vl v in
  mkDef (vs_ (nth 0 l (VS []))) (vstrs (nth 1 l (VL []))) (vstrs (nth 2 l (VL []))) (vbool (nth 3 l (VI 0)))
        (vstrs (nth 4 l (VL []))) (vbool (nth 5 l (VI 0))).
Definition defs_in (v : V) : list cdef := map def_in (vl v).

Definition data_in (v : V) : data_state :=
  match vl v with
  | tag :: r =>
      if is_op tag "bad" then BadData
      else if is_op tag "data" then
        let g := fun i => nth i r (VL []) in
        Data (mkData (vobytes (g 0%nat)) (vobytes (g 1%nat)) (vobytes (g 2%nat))
                      (option_map (fun s => map (fun d => mkDS (vobytes (nth 0 (vl d) (VL []))) (vobytes (nth 1 (vl d) (VL [])))) (vl s)) (vopt (g 3%nat)))
                      (vobytes (g 4%nat)) (option_map vpairs (vopt (g 5%nat))) (option_map vbool (vopt (g 6%nat))))
      else NoData
  | [] => NoData
  end.

Definition options_in (v : V) : options :=
  let g := fun i => nth i (vl v) (VL []) in
  mkOpts (option_map vaddrs (vopt (g 0%nat))) (vs_ (g 1%nat)) (vobytes (g 2%nat)) (vs_ (g 3%nat)) (vaddrs (g 4%nat))
         (vs_ (g 5%nat)) (vpairs (g 6%nat)) (vbool (g 7%nat)) (data_in (g 8%nat)).

Definition opt_in (v : V) : opt :=
  match vl v with
  | tag :: r =>
      let a := nth 0 r (VL []) in
      let b := nth 1 r (VL []) in
      if is_op tag "type" then WithType (vs_ a)
      else if is_op tag "series" then WithSeries (vs_ a)
      else if is_op tag "stamps" then WithStamps (vaddrs a)
      else if is_op tag "reason" then WithReason (vs_ a)
      else if is_op tag "ext" then WithExtension (vs_ a) (vs_ b)
      else if is_op tag "issue" then WithIssueDate (vs_ a)
      else if is_op tag "copytax" then WithCopyTax
      else if is_op tag "options" then WithOptions (options_in a)
      else WithData (data_in a)
  | [] => WithData (NoData)
  end.

Definition state_in (v : V) : state :=
  mkSt (map (fun c => (vnat (nth 0 (vl c) (VI 0)), mkSC (vs_ (nth 1 (vl c) (VS []))) (vs_ (nth 2 (vl c) (VS []))))) (vl (nth 0 (vl v) (VL []))))
       (vnat (nth 1 (vl v) (VI 0))).

Definition ref_in (v : V) : docref :=
  let g := fun i => nth i (vl v) (VL []) in
  mkRef (vs_ (g 0%nat)) (vs_ (g 1%nat)) (vobytes (g 2%nat)) (vs_ (g 3%nat)) (vs_ (g 4%nat)) (vs_ (g 5%nat))
        (vaddrs (g 6%nat)) (if vbool (g 7%nat) then Some tt else None) (vpairs (g 8%nat)).

Definition doc_in (v : V) : invoice :=
  let g := fun i => nth i (vl v) (VL []) in
  mkInv (vs_ (g 0%nat)) (vs_ (g 1%nat)) (vs_ (g 2%nat)) (vs_ (g 3%nat)) (vs_ (g 4%nat)) (vobytes (g 5%nat)) (vobytes (g 6%nat))
        (map ref_in (vl (g 7%nat)))
        (match vz (g 8%nat) with 0%Z => None | 1%Z => Some None | _ => Some (Some tt) end) tt.

Definition env_in (v : V) : envelope :=
  let g := fun i => nth i (vl v) (VL []) in
  mkEnv (vs_ (g 0%nat)) (vaddrs (g 1%nat)) (vstrs (g 2%nat)) tt (doc_in (g 3%nat)).

(* ---- printing ---- *)
Definition oV {A} (f : A -> V) (o : option A) : V := match o with Some x => VL [f x] | None => VL [] end.
Definition pairs_out (m : list (bytes * bytes)) : V := VL (map (fun kv => VL [VS (fst kv); VS (snd kv)]) m).
Definition stamp_out (h : heap) (a : addr) : V :=
  match hget h a with
  | Some c => VL [VN a; VS (prv c); VS (sval c)]
  | None => VL [VN a]
  end.
Definition ref_out (h : heap) (r : docref) : V :=
  VL [VS (r_uuid r); VS (r_type r); oV VS (r_issue r); VS (r_series r); VS (r_code r); VS (r_reason r);
      VL (map (stamp_out h) (r_stamps r)); VB (match r_tax r with Some _ => true | None => false end); pairs_out (r_ext r)].
Definition doc_out (h : heap) (i : invoice) : V :=
  VL [VS (i_uuid i); VS (i_type i); VS (i_series i); VS (i_code i); VS (i_issue i);
      oV VS (i_value_date i); oV VS (i_op_date i); VL (map (ref_out h) (i_preceding i))].
Definition env_out (h : heap) (e : envelope) : V :=
  VL [VS (e_uuid e); VL (map (stamp_out h) (e_stamps e)); VL (map VS (e_sigs e)); doc_out h (e_doc e)].

Definition refusal_out (e : refusal) : V :=
  match e with
  | BadOptionsData => verr "bad-data"
  | MissingType => verr "missing-type"
  | NoCode => verr "no-code"
  | MissingStamp _ => verr "missing-stamp"
  | InvalidType => verr "invalid-type"
  | MissingReason => verr "missing-reason"
  | CalcError => verr "calculation"
  end.

Definition calc_id (i : invoice) : option invoice := Some i.

Definition shared (src res : envelope) : V :=
  match i_preceding (e_doc res) with
  | p :: _ => VL (map VN (filter (fun a => existsb (Nat.eqb a) (e_stamps src)) (r_stamps p)))
  | [] => VL []
  end.

Definition run_c16 (args : list V) : list V :=
  match args with
  | o :: rest =>
    let op := opname o in
    let g := fun i => nth i rest (VL []) in
    if String.eqb op "correct" then
      let src := env_in (g 7%nat) in
      let st := state_in (g 6%nat) in
      let src_stamps := fun h => VL (map (stamp_out h) (e_stamps src)) in
      match env_correct calc_id (fun _ => tt) (vbool (g 8%nat)) (option_map defs_in (vopt (g 0%nat))) (map defs_in (vl (g 1%nat)))
                        (vs_ (g 2%nat)) (vs_ (g 3%nat)) (vs_ (g 4%nat)) (map opt_in (vl (g 5%nat))) st src with
      | (st', Ok e') => [VS (bs "ok"); env_out (st_heap st') e'; src_stamps (st_heap st'); shared src e']
      | (st', Err x) => [refusal_out x; src_stamps (st_heap st')]
      end
    else if String.eqb op "replicate" then
      let src := env_in (g 4%nat) in
      let st := state_in (g 3%nat) in
      match env_replicate calc_id (fun _ => tt) (vs_ (g 0%nat)) (vs_ (g 1%nat)) (vs_ (g 2%nat)) st src with
      | (st', Ok e') => [VS (bs "ok"); env_out (st_heap st') e'; VL (map (stamp_out (st_heap st')) (e_stamps src)); shared src e']
      | (st', Err x) => [refusal_out x; VL (map (stamp_out (st_heap st')) (e_stamps src))]
      end
    else [verr "unknown-c16-op"]
  | [] => [verr "unknown-c16-op"]
  end.
