(* Runner for property C16: wire arguments -> model -> wire result. Filled in by the C16 model. *)
From Coq Require Import ZArith List String Bool.
From Verif Require Import Base.Wire.
Import ListNotations.

Definition run_c16 (args : list V) : list V := [verr "not-implemented"].
