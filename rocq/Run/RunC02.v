(* Runner for property C02: wire arguments -> model -> wire result. Filled in by the C02 model. *)
From Coq Require Import ZArith List String Bool.
From Verif Require Import Base.Wire.
Import ListNotations.

Definition run_c02 (args : list V) : list V := [verr "not-implemented"].
