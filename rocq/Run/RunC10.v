(* Runner for property C10: wire arguments -> model (Env/Lifecycle.v) -> wire result.
     c10 <fx> <base> ( op ... )   ->  ( ( x<outcome> nsigs nreal ) ... )
   <fx> bit 0 = fix9, bit 1 = fix10 (0 = the repository as shipped, 3 = with the proposed
   repairs).  Operation codes as in harness/c10.go.  The hash is instantiated with an
   injective encoding of the content (sha256 is treated as collision-free by the tie only). *)
From Coq Require Import ZArith List String Bool.
From Verif Require Import Base.Wire Env.Header Env.Sig Env.Lifecycle.
Import ListNotations.
Open Scope Z_scope.

Definition hash_impl (c : content) : str :=
  bs "h" ++ int_bytes (cid c) ++ bs "." ++ int_bytes (ver c) ++ bs "."
  ++ bs (if code c then "c" else "n") ++ bs (if dirty c then "d" else "k").

Definition base_doc (b : Z) : option content :=
  if b =? 0 then Some (mkC 0 0 true false true true)
  (* document 1 is document 0 without its code: setting the code makes them the same document *)
  else if b =? 1 then Some (mkC 0 0 false false true true)
  else if b =? 2 then Some (mkC 2 0 true false true false)
  else if b =? 3 then Some (mkC 3 0 true false false false)
  (* 4 / 5 an order, 6 / 7 a delivery, with and without the code *)
  else if b =? 4 then Some (mkC 4 0 true false true true)
  else if b =? 5 then Some (mkC 4 0 false false true true)
  else if b =? 6 then Some (mkC 6 0 true false true true)
  else if b =? 7 then Some (mkC 6 0 false false true true)
  else None.

Definition dec_fx (z : Z) : fixes :=
  mkFx (Z.testbit z 0) (Z.testbit z 1).

Definition dec_op (v : V) : option op :=
  let '(c, a) := match v with
                 | VI z => (z, [])
                 | VL (VI z :: r) => (z, r)
                 | _ => (-1, [])
                 end in
  let s := fun i => vs_ (nth i a (VS [])) in
  let z := fun i => vz (nth i a (VI 0)) in
  let has := fun n => Nat.leb n (List.length a) in
  if c =? 0 then Some Calculate
  else if c =? 1 then Some EditDoc
  else if c =? 2 then (if has 1%nat then Some (Sign (z 0%nat)) else None)
  else if c =? 3 then Some Unsign
  else if c =? 4 then Some (AddStamp (s 0%nat) (s 1%nat))
  else if c =? 5 then Some (AddLink (s 0%nat) (s 1%nat))
  else if c =? 6 then Some (AddTag (s 0%nat))
  else if c =? 7 then Some (AddMeta (s 0%nat) (s 1%nat))
  else if c =? 8 then Some (SetNotes (s 0%nat))
  else if c =? 9 then Some Validate
  else if c =? 10 then Some (Verify (map vz a))
  else if c =? 11 then Some Reparse
  else if c =? 12 then Some ToggleCode
  else if c =? 13 then (if has 1%nat then option_map Insert (base_doc (z 0%nat)) else None)
  else if c =? 20 then Some ReparseWithEmptySig
  else if c =? 21 then Some ReparseWithNullSig
  else if c =? 22 then Some ReparseNilHead
  else if c =? 23 then Some ReparseNilDig
  else if c =? 24 then Some ReparseNullLink
  else if c =? 25 then Some ReparseNullStamp
  else if c =? 26 then
    (let u := s 0%nat in
     if is_empty u || eqb_bytes u (bs "u0") || eqb_bytes u (bs "u1") then Some (SetUuid u) else None)
  else if c =? 27 then Some (SetDig (s 0%nat) (s 1%nat))
  else if c =? 28 then Some (RmStamp (s 0%nat))
  else if c =? 29 then Some (RawStamp (s 0%nat) (s 1%nat))
  else if c =? 30 then Some (RmLink (s 0%nat))
  else if c =? 31 then Some (RawLink (s 0%nat) (s 1%nat))
  else if c =? 32 then Some (RmTag (s 0%nat))
  else if c =? 33 then Some (RmMeta (s 0%nat))
  else if c =? 34 then (if has 1%nat then Some (RawSign (z 0%nat)) else None)
  else if c =? 35 then Some SwapSigs
  else if c =? 36 then Some DupSig
  else if c =? 37 then Some DropSig
  else None.

Definition errkey_name (k : errkey) : string :=
  match k with
  | EValidation => "validation" | EDigest => "digest" | ECalculation => "calculation"
  | ENoDocument => "no-document" | EInternal => "internal" | ESignature => "signature"
  | EOther => "other" | EUnmarshal => "unmarshal" | EMarshal => "marshal" | ESkip => "skip"
  end.
Definition outcome_name (x : outcome) : string :=
  match x with OK => "ok" | ERR k => errkey_name k | PANIC => "panic" end.
Definition voutcome (x : outcome) : V := VS (bs (outcome_name x)).

(* an undecodable operation is reported as skip and leaves the state alone *)
Definition step_wire (fx : fixes) (e : env) (v : V) : env * outcome :=
  match dec_op v with
  | Some o => step hash_impl fx e o
  | None => (e, ERR ESkip)
  end.

Definition start_env (fx : fixes) (base : Z) : env :=
  match base_doc base with
  | Some d => fst (step hash_impl fx new_envelope (Insert d))
  | None => new_envelope
  end.

Fixpoint run_wire (fx : fixes) (e : env) (ops : list V) : list V :=
  match ops with
  | [] => []
  | v :: r =>
    let '(e', x) := step_wire fx e v in
    VL [voutcome x; VN (List.length (sigs e')); VN (List.length (filter is_real (sigs e')))] :: run_wire fx e' r
  end.

Definition final_env (fx : fixes) (e : env) (ops : list V) : env :=
  fold_left (fun s v => fst (step_wire fx s v)) ops e.

Definition run_c10 (args : list V) : list V :=
  match args with
  | [VI f; VI b; VL ops] => [VL (run_wire (dec_fx f) (start_env (dec_fx f) b) ops)]
  | _ => [verr "badargs"]
  end.
