(* Runner for property C10: wire arguments -> model -> wire result. Filled in by the C10 model. *)
From Coq Require Import ZArith List String Bool.
From Verif Require Import Base.Wire.
Import ListNotations.

Definition run_c10 (args : list V) : list V := [verr "not-implemented"].
