(* Wire decoding/encoding for the calculation model (shared by the C01/C02/C03/C04/C17 runners).
   doc := ( c rule x<pit> curid lines discounts charges rates advances dues rounding )
   line := ( qty item breakdown discounts charges taxes )      item := ( price cur alts )
   cur := ( ) | ( id subunits )      alts := ( ( id amount ) ... )
   subline := ( qty item discounts charges )
   ldc := ( amount pct base rate qty )     ddc := ( amount pct base taxes )
   optional amounts: ( ) or ( value exp );   amounts: ( value exp )
   combo := ( x<cat> x<country> ( ( xk xv ) ... ) pct sur retained x<key> )
   rates := ( ( from to amount ) ... )     prow := ( amount pct )  *)
From Coq Require Import ZArith List String Bool.
From Verif Require Import Base.Wire Num.Amount Calc.Doc Calc.Calc.
Import ListNotations.
Open Scope Z_scope.

Definition d_amt (v : V) : amount :=
  match v with VL [VI x; VI e] => mkA x (Z.to_nat e) | _ => mkA 0 0 end.
Definition d_oamt (v : V) : option amount :=
  match v with VL [VI x; VI e] => Some (mkA x (Z.to_nat e)) | _ => None end.
Definition e_amt (a : amount) : V := VL [VI (val a); VN (exp a)].
Definition e_oamt (o : option amount) : V := match o with Some a => e_amt a | None => VL [] end.

Definition nthv (n : nat) (l : list V) : V := nth n l (VL []).

Definition d_ext (v : V) : list (bytes * bytes) :=
  map (fun p => (vs_ (nthv 0 (vl p)), vs_ (nthv 1 (vl p)))) (vl v).

Definition d_combo (v : V) : combo :=
  let l := vl v in
  mkCombo (vs_ (nthv 0 l)) (vs_ (nthv 1 l)) (d_ext (nthv 2 l)) (d_oamt (nthv 3 l)) (d_oamt (nthv 4 l))
          (vbool (nthv 5 l)) (vs_ (nthv 6 l)).

Definition d_ldc (v : V) : ldc :=
  let l := vl v in
  mkLdc (d_amt (nthv 0 l)) (d_oamt (nthv 1 l)) (d_oamt (nthv 2 l)) (d_oamt (nthv 3 l)) (d_oamt (nthv 4 l)).

Definition d_ddc (v : V) : ddc :=
  let l := vl v in
  mkDdc (d_amt (nthv 0 l)) (d_oamt (nthv 1 l)) (d_oamt (nthv 2 l)) (map d_combo (vl (nthv 3 l))).

Definition d_item (v : V) : item :=
  let l := vl v in
  mkItem (d_amt (nthv 0 l))
         (match nthv 1 l with VL [VI i; VI s] => Some (i, Z.to_nat s) | _ => None end)
         (map (fun p => (vz (nthv 0 (vl p)), d_amt (nthv 1 (vl p)))) (vl (nthv 2 l))).

Definition d_sub (v : V) : subline :=
  let l := vl v in
  mkSub (d_amt (nthv 0 l)) (d_item (nthv 1 l)) (map d_ldc (vl (nthv 2 l))) (map d_ldc (vl (nthv 3 l))).

Definition d_line (v : V) : line :=
  let l := vl v in
  mkLine (d_amt (nthv 0 l)) (d_item (nthv 1 l)) (map d_sub (vl (nthv 2 l)))
         (map d_ldc (vl (nthv 3 l))) (map d_ldc (vl (nthv 4 l))) (map d_combo (vl (nthv 5 l))).

Definition d_prow (v : V) : prow := mkProw (d_amt (nthv 0 (vl v))) (d_oamt (nthv 1 (vl v))).

Definition d_doc (v : V) : doc :=
  let l := vl v in
  mkDoc (vnat (nthv 0 l)) (vbool (nthv 1 l)) (vs_ (nthv 2 l)) (vz (nthv 3 l))
        (map d_line (vl (nthv 4 l))) (map d_ddc (vl (nthv 5 l))) (map d_ddc (vl (nthv 6 l)))
        (map (fun p => mkXrate (vz (nthv 0 (vl p))) (vz (nthv 1 (vl p))) (d_amt (nthv 2 (vl p)))) (vl (nthv 7 l)))
        (map d_prow (vl (nthv 8 l))) (map d_prow (vl (nthv 9 l))) (d_oamt (nthv 10 l)).

(* ---- results ---- *)
Definition e_line (l : line_out) : V :=
  VL [e_amt (lo_price l); e_amt (lo_sum l); e_amt (lo_total l);
      VL (map e_amt (lo_discounts l)); VL (map e_amt (lo_charges l));
      VL (map (fun s => VL [e_amt (so_sum s); e_amt (so_total s)]) (lo_subs l))].

Definition e_ext (x : list (bytes * bytes)) : V := VL (map (fun p => VL [VS (fst p); VS (snd p)]) x).

Definition e_rt (r : rate_total) : V :=
  VL [VS (rt_country r); e_ext (rt_ext r); e_oamt (rt_pct r); e_oamt (rt_sur r);
      e_amt (rt_base r); e_amt (rt_amount r);
      match rt_sur r with Some _ => e_amt (rt_suramount r) | None => VL [] end].

Definition e_ct (c : cat_total) : V :=
  VL [VS (ct_code c); VB (ct_retained c); VL (map e_rt (ct_rates c)); e_amt (ct_amount c); e_oamt (ct_surcharge c)].

Definition e_totals (t : totals) : V :=
  VL [VL (map e_line (t_lines t)); e_amt (t_sum t); e_oamt (t_discount t); e_oamt (t_charge t);
      e_oamt (t_tax_included t); e_amt (t_total t); e_amt (t_tax t); e_amt (t_twt t); e_amt (t_payable t);
      e_oamt (t_advances t); e_oamt (t_due t); VL (map e_amt (t_dd t)); VL (map e_amt (t_cc t));
      VL (map e_amt (t_adv_rows t)); VL (map e_amt (t_dues t)); VL (map e_ct (t_cats t));
      match t_cats t with [] => VL [] | _ => e_amt (t_taxsum t) end;
      e_oamt (t_rounding t)].

Definition e_result (r : calc_result) : list V :=
  match r with
  | CalcError => [verr "calc"]
  | NoTotals ls => [VS (bs "nototals"); VL (map e_line ls)]
  | Totals t => [VS (bs "ok"); e_totals t]
  end.
