(* Runner for property C14: wire arguments -> model -> wire result. Filled in by the C14 model. *)
From Coq Require Import ZArith List String Bool.
From Verif Require Import Base.Wire.
Import ListNotations.

Definition run_c14 (args : list V) : list V := [verr "not-implemented"].
