(* Runner for property C14: wire arguments -> model -> wire result.
     c14 header <signed> <uuid_ok> <digest_present> ( stamp... ) ( link... )
         stamp = ( prv val ) or ( ) for a nil entry; link = ( key url_ok url ) or ( ) for nil
         -> two results, as shipped and repaired: 0 = valid, 1 = validation error, "panic";
            for signed = 1 only panic / 2
            (the signed context can only be reached through an envelope, whose other checks
            then decide between valid and error)
     c14 notes ( scenario note... ) ( note... )      note = ( key code src text ) or ( )
         -> as shipped: ( remaining notes ) or "panic"                                          *)
From Coq Require Import ZArith List String Bool.
From Verif Require Import Base.Wire Crash.Result Crash.ScenarioNotes Crash.HeaderValidate.
Import ListNotations.

Definition stamp_of (v : V) : option stamp :=
  match v with VL [a; b] => Some (mkStamp (vz a) (vz b)) | _ => None end.
Definition link_of (v : V) : option link :=
  match v with VL [a; b; c] => Some (mkLink (vz a) (vbool b) (vz c)) | _ => None end.
Definition note_of (v : V) : option note :=
  match v with VL [a; b; c; d] => Some (mkNote (vz a) (vz b) (vz c) (vz d)) | _ => None end.
Definition vnote (n : option note) : V :=
  match n with Some x => VL [VI (n_key x); VI (n_code x); VI (n_src x); VI (n_text x)] | None => VL [] end.

Definition run_c14 (args : list V) : list V :=
  match args with
  | o :: rest =>
    let op := opname o in
    if String.eqb op "header" then
      match rest with
      | [sg; u; d; ss; ls] =>
        let h := mkHeader (vbool u) (vbool d) (map stamp_of (vl ss)) (map link_of (vl ls)) in
        let cls (g : bool) :=
          match validate_header g (vbool sg) h with
          | Panic => VS (bs "panic")
          | Ok _ => VI (if vbool sg then 2 else 0)
          | Err _ => VI (if vbool sg then 2 else 1)
          end in
        [cls false; cls true]
      | _ => [verr "bad-args"]
      end
    else if String.eqb op "notes" then
      match rest with
      | [sns; ns] =>
        let s := fold_right (fun v acc => match note_of v with Some x => x :: acc | None => acc end) [] (vl sns) in
        match remove_notes_shipped s (map note_of (vl ns)) with
        | Ok r => [VL (map vnote r)]
        | _ => [VS (bs "panic")]
        end
      | _ => [verr "bad-args"]
      end
    else [verr "unknown-c14-op"]
  | [] => [verr "unknown-c14-op"]
  end.
