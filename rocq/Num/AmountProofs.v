From Coq Require Import ZArith QArith Lia List Bool.
From Verif Require Import Base.Rha Base.RhaProofs Num.Amount.
Open Scope Z_scope.

(* the rational an amount denotes *)
Definition toQ (a : amount) : Q := Qmake (val a) (Z.to_pos (pow10 (exp a))).
(* q rounded half away from zero to e decimals, in units of 10^-e *)
Definition roundQ (e : nat) (q : Q) : Z := rha (Qnum q * pow10 e) (Zpos (Qden q)).

Lemma pos_pow10 e : Zpos (Z.to_pos (pow10 e)) = pow10 e.
Proof. apply Z2Pos.id, pow10_pos. Qed.

Lemma roundQ_make e n d : 0 < d -> roundQ e (Qmake n (Z.to_pos d)) = rha (n * pow10 e) d.
Proof. intros H. unfold roundQ. cbn [Qnum Qden]. rewrite Z2Pos.id by lia. reflexivity. Qed.

Lemma rha_cross n d n' d' : 0 < d -> 0 < d' -> n * d' = n' * d -> rha n d = rha n' d'.
Proof.
  intros Hd Hd' E.
  rewrite <- (rha_scale n d d') by lia. rewrite <- (rha_scale n' d' d) by lia.
  rewrite E. f_equal. lia.
Qed.

Lemma roundQ_compat e q q' : Qeq q q' -> roundQ e q = roundQ e q'.
Proof.
  unfold Qeq, roundQ. intros E. apply rha_cross; try lia.
  rewrite <- !Z.mul_assoc, (Z.mul_comm (pow10 e)), !Z.mul_assoc, E. ring.
Qed.

(* a + round(b) = round(a + b) unless the tie of b is pulled across zero by a *)
Lemma rha_add_mult n k d : 0 < d -> 0 <= n * k -> rha (n + k * d) d = k + rha n d.
Proof.
  intros Hd S. unfold rha.
  assert (Hk : 0 <= k * d <-> 0 <= k) by nia.
  destruct (0 <=? n) eqn:E1; destruct (0 <=? n + k * d) eqn:E2.
  - replace (2 * (n + k * d) + d) with (2 * n + d + k * (2 * d)) by ring.
    rewrite Z.div_add by lia. ring.
  - assert (n = 0 \/ k < 0) as [->|K] by nia.
    + replace (2 * - (0 + k * d) + d) with (d + (- k) * (2 * d)) by ring.
      rewrite Z.div_add by lia. rewrite !Z.div_small by lia. ring.
    + assert (n = 0) by nia. subst n.
      replace (2 * - (0 + k * d) + d) with (d + (- k) * (2 * d)) by ring.
      rewrite Z.div_add by lia. rewrite !Z.div_small by lia. ring.
  - assert (k >= 0) by nia. assert (k = 0 \/ 0 < k) as [->|K] by lia.
    + replace (n + 0 * d) with n in * by ring. lia.
    + nia.
  - replace (2 * - (n + k * d) + d) with (2 * - n + d + (- k) * (2 * d)) by ring.
    rewrite Z.div_add by lia. ring.
Qed.

Lemma rha_add_mult_refuted : rha (5 + (-1) * 10) 10 <> -1 + rha 5 10.
Proof. vm_compute. discriminate. Qed.

(* ---------- rescale ---------- *)
Lemma rescale_exp a e : exp (rescale a e) = e.
Proof.
  unfold rescale. destruct (Nat.ltb e (exp a)) eqn:E1; [reflexivity|].
  destruct (Nat.ltb (exp a) e) eqn:E2; [reflexivity|].
  apply Nat.ltb_ge in E1, E2. lia.
Qed.

Lemma pow10_split (a b : nat) : (b <= a)%nat -> pow10 a = pow10 (a - b) * pow10 b.
Proof. intros H. rewrite <- pow10_add. f_equal. lia. Qed.

Lemma rescale_val a e : val (rescale a e) = roundQ e (toQ a).
Proof.
  unfold toQ. rewrite roundQ_make by apply pow10_pos.
  unfold rescale.
  destruct (Nat.ltb e (exp a)) eqn:E1; [apply Nat.ltb_lt in E1|apply Nat.ltb_ge in E1].
  - cbn [val]. rewrite (pow10_split (exp a) e) by lia.
    symmetry. apply rha_scale; apply pow10_pos.
  - destruct (Nat.ltb (exp a) e) eqn:E2; [apply Nat.ltb_lt in E2|apply Nat.ltb_ge in E2].
    + cbn [val]. rewrite (pow10_split e (exp a)) by lia.
      symmetry. apply rha_exact; [apply pow10_pos|ring].
    + assert (e = exp a) by lia. subst e. symmetry. apply rha_exact; [apply pow10_pos|ring].
Qed.

Lemma rescale_up_val a e : (exp a <= e)%nat -> val (rescale a e) = val a * pow10 (e - exp a).
Proof.
  intros H. unfold rescale.
  destruct (Nat.ltb e (exp a)) eqn:E1; [apply Nat.ltb_lt in E1; lia|].
  destruct (Nat.ltb (exp a) e) eqn:E2; [reflexivity|].
  apply Nat.ltb_ge in E2. replace (e - exp a)%nat with 0%nat by lia. rewrite pow10_0. lia.
Qed.

Lemma toQ_eq_iff a b : Qeq (toQ a) (toQ b) <-> val a * pow10 (exp b) = val b * pow10 (exp a).
Proof. unfold Qeq, toQ. cbn [Qnum Qden]. rewrite !pos_pow10. reflexivity. Qed.

(* raising precision never loses information *)
Lemma rescale_lossless a e : (exp a <= e)%nat -> Qeq (toQ (rescale a e)) (toQ a).
Proof.
  intros H. apply toQ_eq_iff. rewrite rescale_exp, rescale_up_val by lia.
  rewrite <- Z.mul_assoc, <- pow10_add. f_equal. f_equal. lia.
Qed.

Lemma rescale_up_down_id a e : (exp a <= e)%nat -> rescale (rescale a e) (exp a) = a.
Proof.
  intros H. destruct a as [v x]. cbn [exp] in *.
  unfold rescale at 1. rewrite rescale_exp.
  destruct (Nat.ltb x e) eqn:E1.
  - rewrite rescale_up_val by (cbn [exp]; lia). cbn [val exp].
    f_equal. apply rha_exact; [apply pow10_pos|reflexivity].
  - apply Nat.ltb_ge in E1. assert (e = x) by lia. subst e.
    rewrite Nat.ltb_irrefl. unfold rescale. cbn [exp]. rewrite Nat.ltb_irrefl. reflexivity.
Qed.

(* ---------- add / sub ---------- *)
Lemma toQ_plus a b :
  Qplus (toQ a) (toQ b) = Qmake (val a * pow10 (exp b) + val b * pow10 (exp a))
                                 (Z.to_pos (pow10 (exp a) * pow10 (exp b))).
Proof.
  unfold Qplus, toQ. cbn [Qnum Qden]. rewrite !pos_pow10. f_equal.
  rewrite Z2Pos.inj_mul by apply pow10_pos. reflexivity.
Qed.

(* what Add does for every input: the operand is rounded to the receiver's precision first *)
Lemma add_val_impl a b : val (add a b) = val a + roundQ (exp a) (toQ b).
Proof. unfold add. cbn [val]. rewrite rescale_val. reflexivity. Qed.

(* ... which is the correctly rounded sum whenever both have the same sign (or b has no
   greater precision, add_no_loss below) *)
Lemma add_val a b : 0 <= val a * val b ->
  val (add a b) = roundQ (exp a) (Qplus (toQ a) (toQ b)).
Proof.
  intros S.
  rewrite toQ_plus, roundQ_make by (apply Z.mul_pos_pos; apply pow10_pos).
  unfold add. cbn [val]. rewrite rescale_val. unfold toQ. rewrite roundQ_make by apply pow10_pos.
  rewrite <- (rha_add_mult (val b * pow10 (exp a)) (val a) (pow10 (exp b))); [|apply pow10_pos|].
  - apply rha_cross; try apply pow10_pos; [apply Z.mul_pos_pos; apply pow10_pos|]. ring.
  - pose proof (pow10_pos (exp a)). nia.
Qed.

(* -1 + 0.5: exact sum -0.5 rounds to -1, Add gives 0 *)
Lemma add_val_refuted : exists a b, val (add a b) <> roundQ (exp a) (Qplus (toQ a) (toQ b)).
Proof. exists (mkA (-1) 0), (mkA 5 1). vm_compute. discriminate. Qed.

Lemma add_exp a b : exp (add a b) = exp a. Proof. reflexivity. Qed.

Lemma Qopp_toQ b : Qopp (toQ b) = toQ (negate b).
Proof. reflexivity. Qed.

Lemma rescale_negate b e : rescale (negate b) e = negate (rescale b e).
Proof.
  unfold rescale, negate. cbn [val exp].
  destruct (Nat.ltb e (exp b)); [|destruct (Nat.ltb (exp b) e)]; cbn [val exp]; f_equal.
  - apply rha_neg, pow10_pos.
  - ring.
Qed.

Lemma sub_add_negate a b : sub a b = add a (negate b).
Proof. unfold sub, add. rewrite rescale_negate. cbn [val negate]. reflexivity. Qed.

Lemma sub_val a b : 0 <= val a * - val b ->
  val (sub a b) = roundQ (exp a) (Qminus (toQ a) (toQ b)).
Proof. intros S. rewrite sub_add_negate, add_val by exact S. unfold Qminus. rewrite Qopp_toQ. reflexivity. Qed.

(* adding an amount of no greater precision is lossless *)
Lemma add_no_loss a b : (exp b <= exp a)%nat -> Qeq (toQ (add a b)) (Qplus (toQ a) (toQ b)).
Proof.
  intros H. rewrite toQ_plus. unfold Qeq, toQ, add. cbn [Qnum Qden val exp].
  rewrite rescale_up_val by lia. rewrite !Z2Pos.id by (try apply Z.mul_pos_pos; apply pow10_pos).
  rewrite (pow10_split (exp a) (exp b)) by lia.
  set (x := pow10 (exp a - exp b)). set (y := pow10 (exp b)). ring.
Qed.

(* ---------- mul / div ---------- *)
Lemma mul_val a b : val (mul a b) = roundQ (exp a) (Qmult (toQ a) (toQ b)).
Proof.
  unfold Qmult, toQ. cbn [Qnum Qden]. unfold roundQ. cbn [Qnum Qden].
  rewrite Pos2Z.inj_mul, !pos_pow10. unfold mul. cbn [val].
  apply rha_cross; try apply pow10_pos; [apply Z.mul_pos_pos; apply pow10_pos|]. ring.
Qed.
Lemma mul_exp a b : exp (mul a b) = exp a. Proof. reflexivity. Qed.

Lemma div_val a b : val b <> 0 -> val (div a b) = roundQ (exp a) (Qdiv (toQ a) (toQ b)).
Proof.
  intros Hb. unfold Qdiv, Qmult, Qinv, toQ, roundQ, div. cbn [Qnum Qden val].
  pose proof (pow10_pos (exp a)) as Pa. pose proof (pow10_pos (exp b)) as Pb.
  destruct (val b) as [|p|p] eqn:E; [congruence| |]; cbn [Qnum Qden].
  - rewrite rhaS_pos by lia. rewrite Pos2Z.inj_mul, !pos_pow10.
    apply rha_cross.
    + lia.
    + apply Z.mul_pos_pos; lia.
    + ring.
  - rewrite rhaS_neg by lia. rewrite Pos2Z.inj_mul, !pos_pow10.
    apply rha_cross.
    + lia.
    + apply Z.mul_pos_pos; lia.
    + change (Z.neg (Z.to_pos (pow10 (exp b)))) with (- Zpos (Z.to_pos (pow10 (exp b)))).
      rewrite pos_pow10. rewrite Pos2Z.opp_neg. ring.
Qed.
Lemma div_exp a b : exp (div a b) = exp a. Proof. reflexivity. Qed.

(* ---------- compare / equals ---------- *)
Lemma compare_spec a b :
  (compare a b = -1 <-> Qlt (toQ a) (toQ b)) /\
  (compare a b = 0 <-> Qeq (toQ a) (toQ b)) /\
  (compare a b = 1 <-> Qlt (toQ b) (toQ a)).
Proof.
  unfold compare, Qlt, Qeq, toQ. cbn [Qnum Qden]. rewrite !pos_pow10.
  set (e := Nat.max (exp a) (exp b)).
  rewrite !rescale_up_val by (unfold e; lia).
  pose proof (pow10_pos (exp a)) as Pa. pose proof (pow10_pos (exp b)) as Pb.
  assert (Ea : pow10 e = pow10 (e - exp a) * pow10 (exp a)) by (rewrite <- pow10_add; f_equal; unfold e; lia).
  assert (Eb : pow10 e = pow10 (e - exp b) * pow10 (exp b)) by (rewrite <- pow10_add; f_equal; unfold e; lia).
  pose proof (pow10_pos (e - exp a)) as Pa'. pose proof (pow10_pos (e - exp b)) as Pb'.
  set (x := val a * pow10 (e - exp a)). set (y := val b * pow10 (e - exp b)).
  assert (Hx : x * (pow10 (exp a) * pow10 (exp b)) = val a * pow10 (exp b) * pow10 e).
  { transitivity (val a * pow10 (exp b) * (pow10 (e - exp a) * pow10 (exp a))); [unfold x; ring|rewrite <- Ea; reflexivity]. }
  assert (Hy : y * (pow10 (exp a) * pow10 (exp b)) = val b * pow10 (exp a) * pow10 e).
  { transitivity (val b * pow10 (exp a) * (pow10 (e - exp b) * pow10 (exp b))); [unfold y; ring|rewrite <- Eb; reflexivity]. }
  pose proof (pow10_pos e) as Pe.
  assert (Pab : 0 < pow10 (exp a) * pow10 (exp b)) by (apply Z.mul_pos_pos; assumption).
  clearbody x y. clear Ea Eb Pa' Pb'.
  set (U := val a * pow10 (exp b)) in *. set (W := val b * pow10 (exp a)) in *.
  set (AB := pow10 (exp a) * pow10 (exp b)) in *. set (E := pow10 e) in *.
  assert (Kxy : forall s t, s * AB < t * AB <-> s < t) by (intros; symmetry; apply Z.mul_lt_mono_pos_r; exact Pab).
  assert (Kuw : forall s t, s * E < t * E <-> s < t) by (intros; symmetry; apply Z.mul_lt_mono_pos_r; exact Pe).
  assert (XY : x < y <-> U < W) by (rewrite <- Kxy, Hx, Hy, Kuw; reflexivity).
  assert (YX : y < x <-> W < U) by (rewrite <- Kxy, Hx, Hy, Kuw; reflexivity).
  destruct (x <? y) eqn:C1; [|destruct (y <? x) eqn:C2].
  - apply Z.ltb_lt in C1. repeat split; intros; lia.
  - apply Z.ltb_lt in C2. repeat split; intros; lia.
  - apply Z.ltb_ge in C1, C2. repeat split; intros; lia.
Qed.

Lemma equals_iff a b : equals a b = true <-> Qeq (toQ a) (toQ b).
Proof. unfold equals. rewrite Z.eqb_eq. apply compare_spec. Qed.

(* ---------- split ---------- *)
Lemma mul_int_exact a k : mul a (mkA k 0) = mkA (val a * k) (exp a).
Proof. unfold mul. cbn [val exp]. rewrite pow10_0, rha_1. reflexivity. Qed.

Lemma split_adds_back a x :
  let s := split a x in
  exp (fst s) = exp a /\ exp (snd s) = exp a /\
  val (fst s) * (x - 1) + val (snd s) = val a.
Proof.
  unfold split. cbv zeta. cbn [fst snd]. rewrite mul_int_exact. unfold sub, div. cbn [val exp].
  unfold rescale. cbn [exp val]. rewrite Nat.ltb_irrefl. cbn [val]. repeat split. ring.
Qed.

(* ---------- negate ---------- *)
Lemma negate_involutive a : negate (negate a) = a.
Proof. destruct a. unfold negate. cbn. f_equal. ring. Qed.
Lemma negate_toQ a : toQ (negate a) = Qopp (toQ a). Proof. reflexivity. Qed.

(* ---------- percentages ---------- *)
Lemma pct_of_val p a : val (pct_of p a) = roundQ (exp a) (Qmult (toQ a) (toQ p)).
Proof. apply mul_val. Qed.

Lemma factor_toQ p : Qeq (toQ (factor p)) (Qplus (toQ p) 1).
Proof. unfold factor. rewrite add_no_loss by (cbn; lia). reflexivity. Qed.

Lemma remove_val a p : val (factor p) <> 0 ->
  val (remove a p) = roundQ (exp a) (Qdiv (toQ a) (Qplus (toQ p) 1)).
Proof.
  intros H. unfold remove. rewrite div_val by exact H.
  apply roundQ_compat. rewrite factor_toQ. reflexivity.
Qed.

Lemma rescale_same a e : exp a = e -> rescale a e = a.
Proof. intros <-. unfold rescale. rewrite Nat.ltb_irrefl. reflexivity. Qed.

Lemma pct_from_val p a : val (factor p) <> 0 ->
  val (pct_from p a) = val a - roundQ (exp a) (Qdiv (toQ a) (Qplus (toQ p) 1)).
Proof.
  intros H. unfold pct_from, sub. cbn [val exp]. fold (remove a p).
  rewrite rescale_same by reflexivity. rewrite remove_val by exact H. reflexivity.
Qed.

(* ---------- threshold rule ---------- *)
Lemma threshold_sound op thr v :
  threshold op thr v = true <->
  (if op =? 0 then Qlt (toQ thr) (toQ v)
   else if op =? 1 then Qle (toQ thr) (toQ v)
   else if op =? 2 then Qlt (toQ v) (toQ thr)
   else if op =? 3 then Qle (toQ v) (toQ thr)
   else ~ Qeq (toQ v) (toQ thr)).
Proof.
  unfold threshold. destruct (compare_spec v thr) as (L & E & G).
  assert (T : compare v thr = -1 \/ compare v thr = 0 \/ compare v thr = 1).
  { unfold compare. destruct (_ <? _); [auto|destruct (_ <? _); auto]. }
  assert (LE1 : Qle (toQ thr) (toQ v) <-> compare v thr = 1 \/ compare v thr = 0).
  { rewrite Qle_lteq, G, E. split; (intros [?|?]; [left; assumption|right]).
    - symmetry; assumption.
    - symmetry; assumption. }
  assert (LE2 : Qle (toQ v) (toQ thr) <-> compare v thr = -1 \/ compare v thr = 0).
  { rewrite Qle_lteq, L, E. tauto. }
  destruct (op =? 0); [|destruct (op =? 1); [|destruct (op =? 2); [|destruct (op =? 3)]]];
    rewrite ?orb_true_iff, ?Z.eqb_eq.
  - exact G.
  - symmetry; exact LE1.
  - exact L.
  - symmetry; exact LE2.
  - split.
    + intros [H|H] Q; apply E in Q; lia.
    + intros N. destruct T as [T|[T|T]]; auto. exfalso. apply N, E, T.
Qed.
