(* impl = spec inside the property's magnitude domain: Num/AmountImpl.v (int64 wrap + IEEE binary64)
   agrees with Num/Amount.v (exact integers, rha) whenever operands and exact intermediates are
   below 2^52 in magnitude.  The heart: for |p| < 2^52 and 0 < |q| < 2^64 the binary64 quotient of
   p by q, rounded to the nearest integer with halves away from zero, is the exact quotient rounded
   the same way (the float error is below 1/(2|q|), and an exact half k + 1/2 is representable). *)
From Coq Require Import ZArith Reals Lia Lra Psatz Bool List.
From Flocq Require Import Core Relative BinarySingleNaN.
From Verif Require Import Base.Int64 Base.Rha Base.RhaProofs Num.Amount Num.AmountProofs Num.AmountImpl.

(* ================= real-number level ================= *)
Section RealLevel.
Open Scope R_scope.

Definition fexp64 := FLT_exp (-1074) 53.
Definition rnd64 (x : R) : R := round radix2 fexp64 ZnearestE x.

Lemma rel64 x : bpow radix2 (-1022) <= Rabs x ->
  Rabs (rnd64 x - x) <= bpow radix2 (-53) * Rabs x.
Proof.
  intros H. unfold rnd64, fexp64.
  pose proof (relative_error_N_FLT radix2 (-1074) 53 prec53 (fun t => negb (Z.even t)) x H) as E.
  eapply Rle_trans; [exact E|].
  apply Rmult_le_compat_r; [apply Rabs_pos|].
  change (/2) with (bpow radix2 (-1)).
  rewrite <- bpow_plus. apply bpow_le. lia.
Qed.

(* k + 1/2 is a binary64 number for |k| < 2^52 *)
Lemma half_repr (f : Z) : (Z.abs f < 2^52)%Z -> generic_format radix2 fexp64 (IZR f + /2).
Proof.
  intros Hf.
  replace (IZR f + /2) with (F2R (Float radix2 (2*f+1) (-1))).
  2:{ unfold F2R; cbn [Fnum Fexp]. rewrite plus_IZR, mult_IZR. change (bpow radix2 (-1)) with (/2). lra. }
  apply generic_format_FLT. exists (Float radix2 (2*f+1) (-1)).
  all: cbn [Fnum Fexp]; try reflexivity; try (change (radix2 ^ 53)%Z with (2^53)%Z; lia).
Qed.

(* float64(z) is exact for |z| <= 2^53 *)
Lemma int_repr (f : Z) : (Z.abs f <= 2^53)%Z -> generic_format radix2 fexp64 (IZR f).
Proof.
  intros Hf.
  destruct (Z.eq_dec (Z.abs f) (2^53)) as [E|NE].
  - replace (IZR f) with (F2R (Float radix2 (f / 2) 1)).
    2:{ unfold F2R; cbn [Fnum Fexp]. change (bpow radix2 1) with 2. rewrite <- mult_IZR. f_equal.
        assert (f = 2^53 \/ f = - 2^53)%Z as [-> | ->] by lia; reflexivity. }
    apply generic_format_FLT. exists (Float radix2 (f/2) 1). all: cbn [Fnum Fexp]; try reflexivity; try lia.
    change (radix2 ^ 53)%Z with (2^53)%Z. assert (f = 2^53 \/ f = - 2^53)%Z as [-> | ->] by lia; compute; reflexivity.
  - replace (IZR f) with (F2R (Float radix2 f 0)).
    2:{ unfold F2R; cbn [Fnum Fexp]. change (bpow radix2 0) with 1. lra. }
    apply generic_format_FLT. exists (Float radix2 f 0).
    all: cbn [Fnum Fexp]; try reflexivity; try (change (radix2 ^ 53)%Z with (2^53)%Z; lia).
Qed.

(* 10^e is a binary64 number for e <= 22 (5^22 < 2^53) *)
Lemma pow10_repr (e : nat) : (e <= 22)%nat -> generic_format radix2 fexp64 (IZR (pow10 e)).
Proof.
  intros He.
  assert (E5 : (0 < 5 ^ Z.of_nat e <= 5 ^ 22)%Z).
  { split; [apply Z.pow_pos_nonneg; lia|apply Z.pow_le_mono_r; lia]. }
  assert (B : (5 ^ 22 < 2 ^ 53)%Z) by (vm_compute; reflexivity).
  replace (IZR (pow10 e)) with (F2R (Float radix2 (5 ^ Z.of_nat e) (Z.of_nat e))).
  2:{ unfold F2R; cbn [Fnum Fexp]. rewrite <- IZR_Zpower by lia. change (radix_val radix2) with 2%Z.
      rewrite <- mult_IZR. f_equal. unfold pow10. change 10%Z with (5 * 2)%Z. rewrite Z.pow_mul_l. reflexivity. }
  apply generic_format_FLT. exists (Float radix2 (5 ^ Z.of_nat e) (Z.of_nat e)).
  all: cbn [Fnum Fexp]; try reflexivity; try (change (radix2 ^ 53)%Z with (2^53)%Z; lia).
Qed.

Lemma rnd64_id x : generic_format radix2 fexp64 x -> rnd64 x = x.
Proof. intros H. unfold rnd64. apply round_generic; auto with typeclass_instances. Qed.

(* The core: rounding p/q to binary64 and then to the nearest integer (halves away from zero) is
   rounding p/q directly, for |p| < 2^52 and 0 < q < 2^64 *)
Theorem round_div_nearest_pos (p q : Z) :
  (Z.abs p < 2^52)%Z -> (0 < q)%Z -> (q < 2^64)%Z ->
  ZnearestA (rnd64 (IZR p / IZR q)) = ZnearestA (IZR p / IZR q).
Proof.
  intros Hp Hq Hq64.
  set (f := (p / q)%Z). set (m := (p mod q)%Z).
  assert (Hpm : p = (q * f + m)%Z) by (unfold f, m; apply Z.div_mod; lia).
  assert (Hm : (0 <= m < q)%Z) by (unfold m; apply Z.mod_pos_bound; lia).
  assert (Hqr : 0 < IZR q) by (apply IZR_lt; lia).
  assert (Hq1 : 1 <= IZR q) by (apply IZR_le; lia).
  set (x := IZR p / IZR q).
  assert (Hx : x = IZR f + IZR m / IZR q).
  { unfold x. rewrite Hpm, plus_IZR, mult_IZR. field. lra. }
  destruct (Z.eq_dec p 0) as [P0|PN0].
  { unfold x. rewrite P0. unfold Rdiv. rewrite Rmult_0_l.
    rewrite rnd64_id; [reflexivity|]. apply generic_format_0. }
  (* error bound *)
  assert (Hxabs : Rabs x = IZR (Z.abs p) / IZR q).
  { unfold x. unfold Rdiv. rewrite Rabs_mult, Rabs_inv, <- abs_IZR.
    rewrite (Rabs_pos_eq (IZR q)); lra. }
  assert (Hp1 : 1 <= IZR (Z.abs p)) by (apply IZR_le; lia).
  assert (Hp52 : IZR (Z.abs p) <= IZR (2^52 - 1)) by (apply IZR_le; lia).
  assert (Hq64r : IZR q <= IZR (2^64)) by (apply IZR_le; lia).
  assert (Hbig : bpow radix2 (-1022) <= Rabs x).
  { rewrite Hxabs. apply Rle_trans with (/ IZR (2^64)).
    - change (IZR (2^64)) with (bpow radix2 64). rewrite <- bpow_opp. apply bpow_le. lia.
    - apply Rle_trans with (1 / IZR q).
      + unfold Rdiv. rewrite Rmult_1_l. apply Rinv_le_contravar; lra.
      + unfold Rdiv. apply Rmult_le_compat_r; [apply Rlt_le, Rinv_0_lt_compat; lra | lra]. }
  pose proof (rel64 x Hbig) as Herr.
  assert (Herr2 : Rabs (rnd64 x - x) < / (2 * IZR q)).
  { eapply Rle_lt_trans; [exact Herr|]. rewrite Hxabs.
    change (bpow radix2 (-53)) with (/ IZR (2^53)).
    assert (0 < IZR (2^53)) by (apply IZR_lt; lia).
    apply Rle_lt_trans with (/ IZR (2^53) * (IZR (2^52 - 1) / IZR q)).
    - apply Rmult_le_compat_l; [apply Rlt_le, Rinv_0_lt_compat; lra|].
      unfold Rdiv. apply Rmult_le_compat_r; [apply Rlt_le, Rinv_0_lt_compat; lra | lra].
    - rewrite minus_IZR. change (IZR (2^53)) with (2 * IZR (2^52)).
      assert (0 < IZR (2^52)) by (apply IZR_lt; lia).
      apply Rmult_lt_reg_r with (2 * IZR (2^52) * IZR q); [nra|]. field_simplify; lra. }
  apply Rabs_def2 in Herr2. destruct Herr2 as [Hup Hlo].
  assert (Hinv : / (2 * IZR q) = /2 * / IZR q) by (field; lra).
  assert (Hmq : 0 <= IZR m / IZR q).
  { unfold Rdiv. apply Rmult_le_pos; [apply IZR_le; lia | apply Rlt_le, Rinv_0_lt_compat; lra]. }
  destruct (Z.compare_spec (2*m) q) as [Heq|Hlt|Hgt].
  - (* exact tie: representable *)
    assert (Hhalf : x = IZR f + /2).
    { rewrite Hx. f_equal. rewrite <- Heq, mult_IZR. field.
      assert (0 < IZR m) by (apply IZR_lt; lia). lra. }
    rewrite rnd64_id; [reflexivity|]. rewrite Hhalf. apply half_repr.
    assert (Z.abs f <= Z.abs p)%Z; [|lia].
    unfold f. destruct (Z_le_gt_dec 0 p).
    + rewrite !Z.abs_eq; try lia. apply Z.div_le_upper_bound; nia. apply Z.div_pos; lia.
    + assert (p <= p / q)%Z by (apply Z.div_le_lower_bound; nia).
      assert (p / q < 0)%Z by (apply Z.div_lt_upper_bound; lia). lia.
  - (* below half: both round to f *)
    assert (Hm2 : IZR m / IZR q <= /2 - / (2 * IZR q)).
    { assert (IZR (2*m) <= IZR (q - 1)) by (apply IZR_le; lia).
      rewrite mult_IZR, minus_IZR in H.
      apply Rmult_le_reg_r with (2 * IZR q); [lra|]. field_simplify; lra. }
    assert (0 < / (2 * IZR q) <= /2).
    { split. apply Rinv_0_lt_compat; lra. rewrite Hinv.
      assert (/ IZR q <= 1) by (rewrite <- Rinv_1; apply Rinv_le_contravar; lra).
      assert (0 < / IZR q) by (apply Rinv_0_lt_compat; lra). lra. }
    transitivity f; [|symmetry]; apply Znearest_imp; apply Rabs_def1; lra.
  - (* above half: both round to f+1 *)
    assert (Hm2 : /2 + / (2 * IZR q) <= IZR m / IZR q).
    { assert (IZR (q + 1) <= IZR (2*m)) by (apply IZR_le; lia).
      rewrite mult_IZR, plus_IZR in H.
      apply Rmult_le_reg_r with (2 * IZR q); [lra|]. field_simplify; lra. }
    assert (Hm3 : IZR m / IZR q < 1).
    { apply Rmult_lt_reg_r with (IZR q); [lra|]. unfold Rdiv. rewrite Rmult_assoc, Rinv_l, Rmult_1_r, Rmult_1_l by lra.
      apply IZR_lt; lia. }
    assert (0 < / (2 * IZR q) <= /2).
    { split. apply Rinv_0_lt_compat; lra. rewrite Hinv.
      assert (/ IZR q <= 1) by (rewrite <- Rinv_1; apply Rinv_le_contravar; lra).
      assert (0 < / IZR q) by (apply Rinv_0_lt_compat; lra). lra. }
    transitivity (f+1)%Z; [|symmetry]; apply Znearest_imp; rewrite plus_IZR; apply Rabs_def1; lra.
Qed.

Lemma div_opp_opp (p q : Z) : q <> 0%Z -> IZR (- p) / IZR (- q) = IZR p / IZR q.
Proof. intros H. rewrite !opp_IZR. field. apply not_0_IZR. exact H. Qed.

(* ... and for divisors of either sign *)
Theorem round_div_nearest (p q : Z) :
  (Z.abs p < 2^52)%Z -> q <> 0%Z -> (Z.abs q < 2^64)%Z ->
  ZnearestA (rnd64 (IZR p / IZR q)) = ZnearestA (IZR p / IZR q).
Proof.
  intros Hp Hq Hq64. destruct (Z_lt_le_dec 0 q) as [G|L].
  - apply round_div_nearest_pos; lia.
  - rewrite <- (div_opp_opp p q Hq). apply round_div_nearest_pos; lia.
Qed.

(* Flocq's nearest-integer with halves away from zero at an exact half *)
Lemma Znearest_half_point (choice : Z -> bool) (k : Z) :
  Znearest choice (IZR k + /2) = if choice k then (k + 1)%Z else k.
Proof.
  unfold Znearest.
  assert (F : Zfloor (IZR k + /2) = k) by (apply Zfloor_imp; rewrite plus_IZR; lra).
  assert (C : Zceil (IZR k + /2) = (k + 1)%Z).
  { apply Zceil_imp. replace (k + 1 - 1)%Z with k by lia. rewrite plus_IZR. lra. }
  rewrite F, C. rewrite Rcompare_Eq by lra. reflexivity.
Qed.

(* bridge: Flocq's ZnearestA of the real quotient is the project's rha *)
Lemma ZnearestA_rha (p q : Z) : (0 < q)%Z -> ZnearestA (IZR p / IZR q) = rha p q.
Proof.
  intros Hq.
  assert (Hqr : 0 < IZR q) by (apply IZR_lt; lia).
  destruct (rha_spec p q Hq) as [A B]. set (r := rha p q) in *.
  assert (D : IZR p / IZR q - IZR r = IZR (p - r * q) / IZR q).
  { rewrite minus_IZR, mult_IZR. field. lra. }
  destruct (Z_lt_le_dec (Z.abs (2 * (p - r * q))) q) as [S|T].
  - apply Znearest_imp. rewrite D. unfold Rdiv. rewrite Rabs_mult, Rabs_inv, (Rabs_pos_eq (IZR q)) by lra.
    rewrite <- abs_IZR.
    apply Rmult_lt_reg_r with (IZR q); [lra|]. rewrite Rmult_assoc, Rinv_l, Rmult_1_r by lra.
    assert (IZR (2 * Z.abs (p - r * q)) < IZR q) by (apply IZR_lt; lia).
    rewrite mult_IZR in H. lra.
  - assert (E : Z.abs (2 * (p - r * q)) = q) by lia. specialize (B E).
    destruct (Z_le_gt_dec 0 p) as [P|P].
    + (* p >= 0: p/q = (r - 1) + 1/2, floor >= 0, goes up to r *)
      assert (R1 : (1 <= r)%Z).
      { destruct (Z_le_gt_dec r 0) as [R0|R0]; [exfalso|lia].
        assert (r = 0 \/ r <= -1)%Z as [Z0|R2] by lia.
        - rewrite Z0 in *. lia.
        - assert (r * q <= - q)%Z by nia. lia. }
      assert (Q1 : (q <= r * q)%Z) by nia.
      assert (E2 : (2 * p = 2 * r * q - q)%Z) by lia.
      replace (IZR p / IZR q) with (IZR (r - 1) + /2).
      2:{ apply Rmult_eq_reg_r with (2 * IZR q); [|lra]. 
          assert (K : IZR (2 * p) = IZR (2 * r * q - q)) by (f_equal; exact E2).
          rewrite minus_IZR, !mult_IZR in K. rewrite minus_IZR. field_simplify; lra. }
      rewrite Znearest_half_point.
      destruct (0 <=? r - 1)%Z eqn:C; [lia|apply Z.leb_gt in C; lia].
    + assert (R1 : (r <= -1)%Z).
      { destruct (Z_le_gt_dec 0 r) as [R0|R0]; [exfalso|lia].
        assert (r = 0 \/ 1 <= r)%Z as [Z0|R2] by lia.
        - rewrite Z0 in *. lia.
        - assert (q <= r * q)%Z by nia. lia. }
      assert (Q1 : (r * q <= - q)%Z) by nia.
      assert (E2 : (2 * p = 2 * r * q + q)%Z) by lia.
      replace (IZR p / IZR q) with (IZR r + /2).
      2:{ apply Rmult_eq_reg_r with (2 * IZR q); [|lra]. 
          assert (K : IZR (2 * p) = IZR (2 * r * q + q)) by (f_equal; exact E2).
          rewrite plus_IZR, !mult_IZR in K. field_simplify; lra. }
      rewrite Znearest_half_point.
      destruct (0 <=? r)%Z eqn:C; [apply Z.leb_le in C; lia|reflexivity].
Qed.

Lemma ZnearestA_rhaS (p q : Z) : q <> 0%Z -> ZnearestA (IZR p / IZR q) = rhaS p q.
Proof.
  intros Hq. destruct (Z_lt_le_dec 0 q) as [G|L].
  - rewrite rhaS_pos by lia. apply ZnearestA_rha; lia.
  - rewrite rhaS_neg by lia. rewrite <- (div_opp_opp p q Hq). apply ZnearestA_rha; lia.
Qed.

(* the exactness statement at the level of reals *)
Theorem round_div_rhaS (p q : Z) :
  (Z.abs p < 2^52)%Z -> q <> 0%Z -> (Z.abs q < 2^64)%Z ->
  ZnearestA (rnd64 (IZR p / IZR q)) = rhaS p q.
Proof. intros. rewrite round_div_nearest by assumption. apply ZnearestA_rhaS; assumption. Qed.

(* the rounded quotient stays far inside the binary64 range *)
Lemma rnd64_div_bound (p q : Z) : (Z.abs p < 2^52)%Z -> q <> 0%Z ->
  Rabs (rnd64 (IZR p / IZR q)) <= IZR (2^52).
Proof.
  intros Hp Hq. unfold rnd64, fexp64.
  apply abs_round_le_generic; [apply FLT_exp_valid; exact prec53|apply valid_rnd_N| |].
  - apply (int_repr (2^52)). lia.
  - unfold Rdiv. rewrite Rabs_mult, Rabs_inv, <- !abs_IZR.
    assert (1 <= IZR (Z.abs q)) by (apply IZR_le; lia).
    assert (0 <= IZR (Z.abs p) <= IZR (2^52)) by (split; apply IZR_le; lia).
    assert (0 < / IZR (Z.abs q) <= 1).
    { split; [apply Rinv_0_lt_compat; lra|]. rewrite <- Rinv_1. apply Rinv_le_contravar; lra. }
    nra.
Qed.
End RealLevel.

(* ================= executable binary64 level ================= *)
Section FloatLevel.
Open Scope R_scope.

Lemma below_emax (z : Z) x : Rabs x <= IZR z -> (z <= 2^64)%Z -> Rabs x < bpow radix2 1024.
Proof.
  intros H Hz. eapply Rle_lt_trans; [exact H|].
  apply Rle_lt_trans with (IZR (2^64)); [apply IZR_le; exact Hz|].
  change (IZR (2^64)) with (bpow radix2 64). apply bpow_lt. lia.
Qed.

(* float64(z) of a representable integer is that integer *)
Lemma f64_of_int_repr (z : Z) : generic_format radix2 fexp64 (IZR z) -> (Z.abs z <= 2^64)%Z ->
  B2R (f64_of_int z) = IZR z /\ is_finite (f64_of_int z) = true.
Proof.
  intros G H. unfold f64_of_int.
  pose proof (binary_normalize_correct 53 1024 prec53 emax1024 mode_NE z 0 false) as C.
  cbv zeta in C.
  assert (X : F2R (Float radix2 z 0) = IZR z).
  { unfold F2R; cbn [Fnum Fexp]. change (bpow radix2 0) with 1. ring. }
  rewrite X in C.
  change (SpecFloat.fexp 53 1024) with fexp64 in C. change (round_mode mode_NE) with ZnearestE in C.
  fold (rnd64 (IZR z)) in C. rewrite (rnd64_id _ G) in C.
  rewrite Rlt_bool_true in C.
  - destruct C as (A & B & _). split; assumption.
  - apply (below_emax (Z.abs z)); [rewrite abs_IZR; apply Rle_refl|exact H].
Qed.

Lemma f64_of_int_exact (z : Z) : (Z.abs z <= 2^53)%Z ->
  B2R (f64_of_int z) = IZR z /\ is_finite (f64_of_int z) = true.
Proof. intros H. apply f64_of_int_repr; [apply int_repr; exact H|lia]. Qed.

(* the product of two integers is exact when it is at most 2^53 in magnitude *)
Lemma f64_mul_exact (x y : f64) (a b : Z) :
  B2R x = IZR a -> B2R y = IZR b -> is_finite x = true -> is_finite y = true ->
  (Z.abs (a * b) <= 2^53)%Z ->
  B2R (f64_mul x y) = IZR (a * b) /\ is_finite (f64_mul x y) = true.
Proof.
  intros Hx Hy Fx Fy H. unfold f64_mul.
  pose proof (Bmult_correct 53 1024 prec53 emax1024 mode_NE x y) as C.
  rewrite Hx, Hy, <- mult_IZR in C.
  change (SpecFloat.fexp 53 1024) with fexp64 in C. change (round_mode mode_NE) with ZnearestE in C.
  fold (rnd64 (IZR (a * b))) in C. rewrite (rnd64_id _ (int_repr _ H)) in C.
  rewrite Rlt_bool_true in C.
  - destruct C as (A & B & _). rewrite Fx, Fy in B. split; assumption.
  - apply (below_emax (Z.abs (a * b))); [rewrite abs_IZR; apply Rle_refl|lia].
Qed.

Lemma rha_abs_le (n d : Z) : (0 < d)%Z -> (Z.abs (rha n d) <= Z.abs n)%Z.
Proof.
  intros Hd. unfold rha.
  assert (K : forall m, (0 <= m)%Z -> (0 <= (2 * m + d) / (2 * d) <= m)%Z).
  { intros m Hm. split; [apply Z.div_pos; lia|].
    destruct (Z.eq_dec m 0) as [->|N]; [rewrite Z.div_small by lia; lia|].
    apply Z.lt_succ_r. apply Z.div_lt_upper_bound; [lia|]. nia. }
  destruct (0 <=? n)%Z eqn:E.
  - apply Z.leb_le in E. specialize (K n E). lia.
  - apply Z.leb_gt in E. specialize (K (- n)%Z). lia.
Qed.

Lemma rhaS_abs_le (n d : Z) : d <> 0%Z -> (Z.abs (rhaS n d) <= Z.abs n)%Z.
Proof.
  intros Hd. destruct (Z_lt_le_dec 0 d).
  - rewrite rhaS_pos by lia. apply rha_abs_le; lia.
  - rewrite rhaS_neg by lia. rewrite <- (Z.abs_opp n). apply rha_abs_le; lia.
Qed.

(* int64(math.Round(x / y)) for floats holding the integers p and q *)
Lemma f64_div_round_exact (x y : f64) (p q : Z) :
  B2R x = IZR p -> B2R y = IZR q -> is_finite x = true ->
  (Z.abs p < 2^52)%Z -> q <> 0%Z -> (Z.abs q < 2^64)%Z ->
  int64_of_f64 (f64_round (f64_div x y)) = Some (rhaS p q).
Proof.
  intros Hx Hy Fx Hp Hq Hq64.
  assert (Y0 : B2R y <> 0) by (rewrite Hy; apply not_0_IZR; exact Hq).
  pose proof (Bdiv_correct 53 1024 prec53 emax1024 mode_NE x y Y0) as C.
  rewrite Hx, Hy in C.
  change (SpecFloat.fexp 53 1024) with fexp64 in C. change (round_mode mode_NE) with ZnearestE in C.
  fold (rnd64 (IZR p / IZR q)) in C.
  rewrite Rlt_bool_true in C by (apply (below_emax (2^52)); [apply rnd64_div_bound; assumption|lia]).
  destruct C as (Dv & Df & _). rewrite Fx in Df. fold (f64_div x y) in Dv, Df.
  destruct (Bnearbyint_correct 53 1024 emax1024 mode_NA (f64_div x y)) as (Rv & Rf & _).
  fold (f64_round (f64_div x y)) in Rv, Rf.
  rewrite Dv in Rv. rewrite Df in Rf. rewrite round_FIX_IZR in Rv.
  change (round_mode mode_NA) with ZnearestA in Rv.
  rewrite (round_div_rhaS p q Hp Hq Hq64) in Rv.
  unfold int64_of_f64. rewrite Rf. cbv zeta.
  assert (T : Btrunc (f64_round (f64_div x y)) = rhaS p q).
  { apply eq_IZR. rewrite (Btrunc_correct 53 1024 emax1024), Rv, round_FIX_IZR, Ztrunc_IZR. reflexivity. }
  rewrite T.
  pose proof (rhaS_abs_le p q Hq) as L.
  replace (fits64 (rhaS p q)) with true; [reflexivity|].
  symmetry. unfold fits64, two63. apply andb_true_intro. split; [apply Z.leb_le|apply Z.ltb_lt]; lia.
Qed.

(* ---- divisors that are wrapped powers of ten: intPow(10, e) for 19 <= e <= 63 overflows int64 but
   stays at least 2^55 in magnitude, so a numerator below 2^52 still rounds to 0, which is the
   exact answer (10^19 > 2^53) ---- *)
Lemma bpow_repr (e : Z) : (-1074 <= e)%Z -> generic_format radix2 fexp64 (bpow radix2 e).
Proof. intros H. unfold fexp64. apply generic_format_FLT_bpow; [exact prec53|exact H]. Qed.

Lemma f64_of_int_large (w : Z) : (2^55 <= Z.abs w <= 2^63)%Z ->
  bpow radix2 55 <= Rabs (B2R (f64_of_int w)).
Proof.
  intros H. unfold f64_of_int.
  pose proof (binary_normalize_correct 53 1024 prec53 emax1024 mode_NE w 0 false) as C.
  cbv zeta in C.
  assert (X : F2R (Float radix2 w 0) = IZR w).
  { unfold F2R; cbn [Fnum Fexp]. change (bpow radix2 0) with 1. ring. }
  rewrite X in C.
  change (SpecFloat.fexp 53 1024) with fexp64 in C. change (round_mode mode_NE) with ZnearestE in C.
  fold (rnd64 (IZR w)) in C.
  rewrite Rlt_bool_true in C.
  - destruct C as (A & _). rewrite A. unfold rnd64, fexp64.
    apply abs_round_ge_generic; [apply FLT_exp_valid; exact prec53|apply valid_rnd_N|apply (bpow_repr 55); lia|].
    rewrite <- abs_IZR. change (bpow radix2 55) with (IZR (2^55)). apply IZR_le. lia.
  - apply Rle_lt_trans with (bpow radix2 63); [|apply bpow_lt; lia]. unfold rnd64, fexp64.
    apply abs_round_le_generic; [apply FLT_exp_valid; exact prec53|apply valid_rnd_N|apply (bpow_repr 63); lia|].
    rewrite <- abs_IZR. change (bpow radix2 63) with (IZR (2^63)). apply IZR_le. lia.
Qed.

Lemma f64_div_round_tiny (x y : f64) (p : Z) :
  B2R x = IZR p -> is_finite x = true -> (Z.abs p < 2^52)%Z -> bpow radix2 55 <= Rabs (B2R y) ->
  int64_of_f64 (f64_round (f64_div x y)) = Some 0%Z.
Proof.
  intros Hx Fx Hp Hy.
  assert (B55 : 0 < bpow radix2 55) by apply bpow_gt_0.
  assert (Y0 : B2R y <> 0). { intros E. rewrite E, Rabs_R0 in Hy. lra. }
  pose proof (Bdiv_correct 53 1024 prec53 emax1024 mode_NE x y Y0) as C.
  rewrite Hx in C.
  change (SpecFloat.fexp 53 1024) with fexp64 in C. change (round_mode mode_NE) with ZnearestE in C.
  fold (rnd64 (IZR p / B2R y)) in C.
  assert (Q : Rabs (IZR p / B2R y) <= bpow radix2 (-3)).
  { unfold Rdiv. rewrite Rabs_mult, Rabs_inv, <- abs_IZR.
    assert (P1 : IZR (Z.abs p) <= bpow radix2 52).
    { change (bpow radix2 52) with (IZR (2^52)). apply IZR_le. lia. }
    assert (P0 : 0 <= IZR (Z.abs p)) by (apply IZR_le; lia).
    apply Rle_trans with (bpow radix2 52 * / bpow radix2 55).
    - apply Rmult_le_compat; [exact P0|apply Rlt_le, Rinv_0_lt_compat; lra|exact P1|].
      apply Rinv_le_contravar; [exact B55|exact Hy].
    - rewrite <- bpow_opp, <- bpow_plus. apply bpow_le. lia. }
  assert (RQ : Rabs (rnd64 (IZR p / B2R y)) <= bpow radix2 (-3)).
  { unfold rnd64, fexp64.
    apply abs_round_le_generic; [apply FLT_exp_valid; exact prec53|apply valid_rnd_N|apply (bpow_repr (-3)); lia|exact Q]. }
  rewrite Rlt_bool_true in C by (eapply Rle_lt_trans; [exact RQ|apply bpow_lt; lia]).
  destruct C as (Dv & Df & _). rewrite Fx in Df. fold (f64_div x y) in Dv, Df.
  destruct (Bnearbyint_correct 53 1024 emax1024 mode_NA (f64_div x y)) as (Rv & Rf & _).
  fold (f64_round (f64_div x y)) in Rv, Rf.
  rewrite Dv in Rv. rewrite Df in Rf. rewrite round_FIX_IZR in Rv.
  change (round_mode mode_NA) with ZnearestA in Rv.
  assert (Z0 : ZnearestA (rnd64 (IZR p / B2R y)) = 0%Z).
  { apply Znearest_imp. rewrite Rminus_0_r. eapply Rle_lt_trans; [exact RQ|].
    change (bpow radix2 (-3)) with (/8). lra. }
  rewrite Z0 in Rv.
  unfold int64_of_f64. rewrite Rf. cbv zeta.
  assert (T : Btrunc (f64_round (f64_div x y)) = 0%Z).
  { apply eq_IZR. rewrite (Btrunc_correct 53 1024 emax1024), Rv, round_FIX_IZR, Ztrunc_IZR. reflexivity. }
  rewrite T. reflexivity.
Qed.
End FloatLevel.

(* ================= int64 level ================= *)
Open Scope Z_scope.

Lemma wrap64_small z : - 2^63 <= z < 2^63 -> wrap64 z = z.
Proof. intros H. unfold wrap64, two63, two64. rewrite Z.mod_small; lia. Qed.

Lemma small52_iff z : small52 z = true <-> Z.abs z < 2^52.
Proof. unfold small52, two52. apply Z.ltb_lt. Qed.

Lemma pow10_le_mono (a b : nat) : (a <= b)%nat -> pow10 a <= pow10 b.
Proof. intros H. unfold pow10. apply Z.pow_le_mono_r; lia. Qed.

Lemma pow10_18 : pow10 18 < 2^60.
Proof. vm_compute. reflexivity. Qed.

Lemma pow10_16 : 2^52 < pow10 16.
Proof. vm_compute. reflexivity. Qed.

(* the loop of intPow without overflow *)
Lemma intpow_loop_spec (e : nat) : forall out, 0 <= out -> out * pow10 e < 2^63 ->
  intpow_loop out e = out * pow10 e.
Proof.
  induction e as [|e IH]; intros out H0 H.
  - cbn [intpow_loop]. rewrite pow10_0. ring.
  - cbn [intpow_loop]. rewrite pow10_S in *. pose proof (pow10_pos e) as P.
    assert (out * 10 <= out * (10 * pow10 e)) by nia.
    rewrite wrap64_small by lia. rewrite IH; [ring|lia|].
    replace (out * 10 * pow10 e) with (out * (10 * pow10 e)) by ring. exact H.
Qed.

Lemma intpow10_small (e : nat) : (e <= 18)%nat -> intpow10 e = pow10 e.
Proof.
  intros H. unfold intpow10. rewrite intpow_loop_spec; [ring|lia|].
  pose proof (pow10_le_mono e 18 H). pose proof pow10_18. lia.
Qed.

(* a non-zero value times 10^e below 2^52 leaves e <= 15 *)
Lemma small_scaled_exp (v : Z) (e : nat) : v <> 0 -> Z.abs (v * pow10 e) < 2^52 -> (e <= 15)%nat.
Proof.
  intros Hv H. destruct (Nat.le_gt_cases e 15) as [L|G]; [exact L|exfalso].
  pose proof (pow10_le_mono 16 e G). pose proof pow10_16. pose proof (pow10_pos e).
  rewrite Z.abs_mul, (Z.abs_eq (pow10 e)) in H by lia.
  assert (1 * pow10 e <= Z.abs v * pow10 e) by (apply Z.mul_le_mono_nonneg_r; lia). lia.
Qed.

(* what a.value * intPow(10, e) computes when the exact product is below 2^52 *)
Lemma scaled_exact (v : Z) (e : nat) : Z.abs (v * pow10 e) < 2^52 ->
  wrap64 (v * intpow10 e) = v * pow10 e.
Proof.
  intros H. destruct (Z.eq_dec v 0) as [->|N].
  - rewrite !Z.mul_0_l. apply wrap64_small. lia.
  - pose proof (small_scaled_exp v e N H). rewrite intpow10_small by lia. apply wrap64_small. lia.
Qed.

Lemma f64_pow10_exact (e : nat) : (e <= 18)%nat ->
  B2R (f64_of_int (intpow10 e)) = IZR (pow10 e) /\ is_finite (f64_of_int (intpow10 e)) = true.
Proof.
  intros H. rewrite intpow10_small by exact H. apply f64_of_int_repr.
  - apply pow10_repr. lia.
  - pose proof (pow10_le_mono e 18 H). pose proof pow10_18. pose proof (pow10_pos e). lia.
Qed.

(* intPow(10, e) for 19 <= e <= 63: overflowed, but of magnitude 2^55 .. 2^63 (checked on all 45) *)
Lemma intpow10_wrapped_large (e : nat) : (19 <= e <= 63)%nat -> 2^55 <= Z.abs (intpow10 e) <= 2^63.
Proof.
  intros H.
  assert (T : forallb (fun e => (2^55 <=? Z.abs (intpow10 e)) && (Z.abs (intpow10 e) <=? 2^63)) (seq 19 45) = true)
    by (vm_compute; reflexivity).
  rewrite forallb_forall in T. specialize (T e). rewrite in_seq in T.
  assert (I : (19 <= e < 19 + 45)%nat) by lia. specialize (T I).
  apply andb_true_iff in T. destruct T as [A B]. apply Z.leb_le in A, B. lia.
Qed.

Lemma pow10_19 : 2^53 < pow10 19.
Proof. vm_compute. reflexivity. Qed.

Lemma rha_small (n d : Z) : 0 < d -> 2 * Z.abs n < d -> rha n d = 0.
Proof.
  intros Hd H. unfold rha. destruct (0 <=? n) eqn:E.
  - apply Z.leb_le in E. apply Z.div_small. lia.
  - apply Z.leb_gt in E. rewrite Z.div_small by lia. reflexivity.
Qed.

(* int64(math.Round(float64(p) / float64(intPow(10, e)))) for every e below 64 *)
Lemma f64_div_pow10_exact (x : f64) (p : Z) (e : nat) :
  B2R x = IZR p -> is_finite x = true -> Z.abs p < 2^52 -> (e <= 63)%nat ->
  int64_of_f64 (f64_round (f64_div x (f64_of_int (intpow10 e)))) = Some (rha p (pow10 e)).
Proof.
  intros Hx Fx Hp He. destruct (Nat.le_gt_cases e 18) as [L|G].
  - destruct (f64_pow10_exact e L) as (Pv & Pf).
    pose proof (pow10_pos e) as PP. pose proof (pow10_le_mono e 18 L). pose proof pow10_18.
    rewrite (f64_div_round_exact _ _ _ _ Hx Pv Fx) by lia.
    rewrite rhaS_pos by lia. reflexivity.
  - pose proof (intpow10_wrapped_large e ltac:(lia)) as W.
    rewrite (f64_div_round_tiny _ _ _ Hx Fx Hp (f64_of_int_large _ W)).
    pose proof (pow10_le_mono 19 e G). pose proof pow10_19.
    rewrite rha_small by lia. reflexivity.
Qed.

(* ================= impl = spec ================= *)
Ltac guards :=
  repeat match goal with
  | H : _ && _ = true |- _ => apply andb_true_iff in H; destruct H
  | H : small52 _ = true |- _ => apply small52_iff in H
  | H : Nat.leb _ _ = true |- _ => apply Nat.leb_le in H
  | H : negb (_ =? _) = true |- _ => apply negb_true_iff, Z.eqb_neq in H
  end.

Lemma rounded_some v e z : int64_of_f64 (f64_round v) = Some z -> rounded v e = Defined (mkA z e).
Proof. intros H. unfold rounded. rewrite H. reflexivity. Qed.

Theorem mul_exact a b : in_domain_mul a b = true -> impl_mul a b = Defined (mul a b).
Proof.
  unfold in_domain_mul. intros D. guards.
  destruct (f64_of_int_exact (val a)) as (Av & Af); [lia|].
  destruct (f64_of_int_exact (val b)) as (Bv & Bf); [lia|].
  destruct (f64_mul_exact _ _ _ _ Av Bv Af Bf) as (Mv & Mf); [lia|].
  unfold impl_mul, mul. apply rounded_some.
  apply (f64_div_pow10_exact _ _ _ Mv Mf); assumption.
Qed.

Theorem div_exact a b : in_domain_div a b = true -> impl_div a b = Defined (div a b).
Proof.
  unfold in_domain_div. intros D. guards.
  match goal with H : Z.abs (val a * _) < _ |- _ => rename H into S end.
  unfold impl_div, div. rewrite (scaled_exact _ _ S).
  destruct (f64_of_int_exact (val a * pow10 (exp b))) as (Nv & Nf); [lia|].
  destruct (f64_of_int_exact (val b)) as (Bv & Bf); [lia|].
  apply rounded_some. apply (f64_div_round_exact _ _ _ _ Nv Bv Nf); lia.
Qed.

Theorem rescale_exact a e : in_domain_rescale a e = true -> impl_rescale a e = Defined (rescale a e).
Proof.
  unfold in_domain_rescale, impl_rescale, rescale. intros D.
  destruct (Nat.ltb e (exp a)) eqn:E1.
  - guards.
    destruct (f64_of_int_exact (val a)) as (Av & Af); [lia|].
    apply rounded_some. apply (f64_div_pow10_exact _ _ _ Av Af); assumption.
  - destruct (Nat.ltb (exp a) e) eqn:E2; [|reflexivity].
    guards. rewrite scaled_exact by assumption. reflexivity.
Qed.

(* a rescaled amount inside the domain stays below 2^52 *)
Lemma rescale_small b e : in_domain_rescale b e = true -> Z.abs (val (rescale b e)) < 2^52.
Proof.
  unfold in_domain_rescale, rescale. intros D.
  destruct (Nat.ltb e (exp b)) eqn:E1.
  - guards. cbn [val]. pose proof (rha_abs_le (val b) (pow10 (exp b - e)) (pow10_pos _)). lia.
  - guards. destruct (Nat.ltb (exp b) e) eqn:E2; [exact D|].
    apply Nat.ltb_ge in E1, E2. replace (e - exp b)%nat with 0%nat in D by lia.
    rewrite pow10_0, Z.mul_1_r in D. exact D.
Qed.

Theorem add_exact a b : in_domain_add a b = true -> impl_add a b = Defined (add a b).
Proof.
  unfold in_domain_add. intros D. guards.
  unfold impl_add, add. rewrite rescale_exact by assumption. cbn [bind].
  pose proof (rescale_small b (exp a) ltac:(assumption)).
  rewrite wrap64_small by lia. reflexivity.
Qed.

Theorem sub_exact a b : in_domain_sub a b = true -> impl_sub a b = Defined (sub a b).
Proof.
  unfold in_domain_sub. intros D. guards.
  unfold impl_sub, sub. rewrite rescale_exact by assumption. cbn [bind].
  pose proof (rescale_small b (exp a) ltac:(assumption)).
  rewrite wrap64_small by lia. reflexivity.
Qed.

Theorem compare_exact a b : in_domain_compare a b = true -> impl_compare a b = Some (compare a b).
Proof.
  unfold in_domain_compare. intros D. guards.
  unfold impl_compare, compare. cbv zeta. rewrite !rescale_exact by assumption. reflexivity.
Qed.

Theorem equals_exact a b : in_domain_compare a b = true -> impl_equals a b = Some (equals a b).
Proof. intros D. unfold impl_equals, equals. rewrite compare_exact by exact D. reflexivity. Qed.

Theorem negate_exact a : in_domain_negate a = true -> impl_negate a = Defined (negate a).
Proof.
  unfold in_domain_negate. intros D. guards. unfold impl_negate, negate.
  rewrite wrap64_small by lia. reflexivity.
Qed.

Theorem abs_exact a : in_domain_negate a = true -> impl_abs a = Defined (abs a).
Proof.
  intros D. unfold impl_abs, abs. destruct (val a <? 0); [apply negate_exact; exact D|reflexivity].
Qed.

(* ---------- derived operations: every step inside its domain ---------- *)
Lemma in_domain_rescale_same b e : exp b = e -> in_domain_rescale b e = small52 (val b).
Proof.
  intros <-. unfold in_domain_rescale. rewrite Nat.ltb_irrefl.
  replace (exp b - exp b)%nat with 0%nat by lia. rewrite pow10_0, Z.mul_1_r. reflexivity.
Qed.

Theorem split_exact a x : in_domain_split a x = true -> impl_split a x = Some (split a x).
Proof.
  unfold in_domain_split. intros D.
  apply andb_true_iff in D. destruct D as (D & Dm). apply andb_true_iff in D. destruct D as (Sa & Dd).
  assert (Sx : Z.abs x < 2^52).
  { unfold in_domain_div in Dd. cbn [val exp] in Dd. guards. assumption. }
  assert (Sx1 : Z.abs (x - 1) < 2^52).
  { unfold in_domain_mul in Dm. cbn [val exp] in Dm. guards. assumption. }
  unfold impl_split, split. cbv zeta.
  rewrite !wrap64_small by lia. rewrite (div_exact _ _ Dd), (mul_exact _ _ Dm). cbn [bind].
  rewrite sub_exact; [reflexivity|].
  unfold in_domain_sub. rewrite Sa. cbn [andb].
  rewrite in_domain_rescale_same by reflexivity.
  apply small52_iff.
  unfold in_domain_mul in Dm. cbn [val exp div] in Dm. guards.
  rewrite mul_int_exact. cbn [val div]. assumption.
Qed.

Theorem factor_exact p : in_domain_factor p = true -> impl_factor p = Defined (factor p).
Proof. apply add_exact. Qed.

Theorem remove_exact a p : in_domain_remove a p = true -> impl_remove a p = Defined (remove a p).
Proof.
  unfold in_domain_remove. intros D. apply andb_true_iff in D. destruct D as (Df & Dd).
  unfold impl_remove, remove. rewrite (factor_exact _ Df). cbn [bind]. apply div_exact. exact Dd.
Qed.

Theorem pct_of_exact p a : in_domain_pct_of p a = true -> impl_pct_of p a = Defined (pct_of p a).
Proof. apply mul_exact. Qed.

Theorem pct_from_exact p a : in_domain_pct_from p a = true -> impl_pct_from p a = Defined (pct_from p a).
Proof.
  unfold in_domain_pct_from. intros D. apply andb_true_iff in D. destruct D as (Sa & Dr).
  unfold impl_pct_from, pct_from. fold (impl_remove a p). rewrite (remove_exact _ _ Dr). cbn [bind].
  apply sub_exact. unfold in_domain_sub. rewrite Sa. cbn [andb].
  rewrite in_domain_rescale_same by reflexivity.
  apply small52_iff. unfold remove. cbn [val div].
  unfold in_domain_remove, in_domain_div in Dr. guards.
  match goal with H : val (factor p) <> 0 |- _ => pose proof (rhaS_abs_le (val a * pow10 (exp (factor p))) _ H) end.
  lia.
Qed.

Theorem pct_from_amount_exact a :
  in_domain_pct_from_amount a = true -> impl_pct_from_amount a = Defined (pct_from_amount a).
Proof.
  unfold in_domain_pct_from_amount. intros D. apply andb_true_iff in D. destruct D as (Dr & Dd).
  unfold impl_pct_from_amount, pct_from_amount. rewrite (rescale_exact _ _ Dr). cbn [bind].
  apply div_exact. exact Dd.
Qed.

Theorem pct_amount_exact p :
  in_domain_pct_amount p = true -> impl_pct_amount p = Defined (pct_amount p).
Proof.
  unfold in_domain_pct_amount. intros D. apply andb_true_iff in D. destruct D as (Dm & Dr).
  unfold impl_pct_amount, pct_amount. rewrite (mul_exact _ _ Dm). cbn [bind].
  apply rescale_exact. exact Dr.
Qed.

(* the conditional and composed rescales *)
Theorem rescale_up_exact a e : in_domain_rescale a (Nat.max e (exp a)) = true ->
  impl_rescale_up a e = Defined (rescale_up a e).
Proof.
  intros D. unfold impl_rescale_up, rescale_up. destruct (Nat.ltb (exp a) e) eqn:E; [|reflexivity].
  apply Nat.ltb_lt in E. apply rescale_exact. replace (Nat.max e (exp a)) with e in D by lia. exact D.
Qed.

Theorem rescale_down_exact a e : in_domain_rescale a (Nat.min e (exp a)) = true ->
  impl_rescale_down a e = Defined (rescale_down a e).
Proof.
  intros D. unfold impl_rescale_down, rescale_down. destruct (Nat.ltb e (exp a)) eqn:E; [|reflexivity].
  apply Nat.ltb_lt in E. apply rescale_exact. replace (Nat.min e (exp a)) with e in D by lia. exact D.
Qed.

Theorem rescale_range_exact a lo hi :
  in_domain_rescale a (Nat.max lo (exp a)) = true ->
  in_domain_rescale (rescale_up a lo) (Nat.min hi (exp (rescale_up a lo))) = true ->
  impl_rescale_range a lo hi = Defined (rescale_range a lo hi).
Proof.
  intros D1 D2. unfold impl_rescale_range, rescale_range. rewrite (rescale_up_exact _ _ D1). cbn [bind].
  apply rescale_down_exact. exact D2.
Qed.

Theorem match_precision_exact a b : in_domain_rescale a (Nat.max (exp b) (exp a)) = true ->
  impl_match_precision a b = Defined (match_precision a b).
Proof. apply rescale_up_exact. Qed.

Theorem upscale_exact a n : in_domain_rescale a (exp a + n) = true ->
  impl_upscale a n = Defined (upscale a n).
Proof. apply rescale_exact. Qed.

Theorem downscale_exact a n : in_domain_rescale a (exp a - n) = true ->
  impl_downscale a n = Defined (downscale a n).
Proof. apply rescale_exact. Qed.
