(* Proofs about the text codec model Num/Codec.v (property C06). *)
From Coq Require Import Strings.String.
From Coq Require Import ZArith QArith List Bool Strings.Byte Lia ZifyBool ZifyNat ZifyN.
From Verif Require Import Base.Wire Base.Int64 Base.Rha Base.RhaProofs Num.Amount Num.AmountProofs Num.Codec.
Import ListNotations.
Open Scope Z_scope.
Ltac Zify.zify_post_hook ::= Z.div_mod_to_equations.

(* ------------------------------------------------------------------------------------------ *)
(* A. digits as bytes                                                                          *)
(* ------------------------------------------------------------------------------------------ *)
Lemma digit_cases d : 0 <= d <= 9 ->
  d = 0 \/ d = 1 \/ d = 2 \/ d = 3 \/ d = 4 \/ d = 5 \/ d = 6 \/ d = 7 \/ d = 8 \/ d = 9.
Proof. lia. Qed.

Lemma dval_digit_byte d : 0 <= d <= 9 -> dval (digit_byte d) = d.
Proof. intros H. destruct (digit_cases d H) as [->|[->|[->|[->|[->|[->|[->|[->|[->| ->]]]]]]]]]; reflexivity. Qed.

Lemma is_digit_digit_byte d : 0 <= d <= 9 -> is_digit (digit_byte d) = true.
Proof. intros H. destruct (digit_cases d H) as [->|[->|[->|[->|[->|[->|[->|[->|[->| ->]]]]]]]]]; reflexivity. Qed.

Lemma is_digit_dval b : is_digit b = true -> 0 <= dval b <= 9.
Proof. destruct b; vm_compute; intros H; try discriminate H; split; discriminate. Qed.

Lemma is_digit_not_special b : is_digit b = true ->
  Byte.eqb b b_minus = false /\ Byte.eqb b b_plus = false /\ Byte.eqb b b_dot = false /\
  Byte.eqb b b_pct = false /\ Byte.eqb b b_quote = false.
Proof. destruct b; vm_compute; intros H; try discriminate H; repeat split. Qed.

Lemma byte_eqb_eq a b : Byte.eqb a b = true <-> a = b.
Proof. split; [apply Byte.byte_dec_bl | apply Byte.byte_dec_lb]. Qed.

Lemma byte_eqb_refl a : Byte.eqb a a = true.
Proof. now apply byte_eqb_eq. Qed.

(* ------------------------------------------------------------------------------------------ *)
(* B. value of a digit string                                                                  *)
(* ------------------------------------------------------------------------------------------ *)
Lemma vod_acc_app a b acc : vod_acc (a ++ b) acc = vod_acc b (vod_acc a acc).
Proof. revert acc; induction a; intros; cbn [vod_acc app]; auto. Qed.

Lemma vod_acc_shift s : forall acc, vod_acc s acc = acc * pow10 (length s) + vod_acc s 0.
Proof.
  induction s; intros; cbn [vod_acc length].
  - rewrite pow10_0. lia.
  - rewrite IHs. rewrite (IHs (0 * 10 + dval a)). rewrite pow10_S. ring.
Qed.

Lemma vod_app a b : value_of_digits (a ++ b) = value_of_digits a * pow10 (length b) + value_of_digits b.
Proof. unfold value_of_digits. rewrite vod_acc_app. apply vod_acc_shift. Qed.

Lemma vod_cons b r : value_of_digits (b :: r) = dval b * pow10 (length r) + value_of_digits r.
Proof. change (b :: r) with ([b] ++ r). rewrite vod_app. unfold value_of_digits at 1. cbn [vod_acc]. lia. Qed.

Lemma vod_nil : value_of_digits [] = 0. Proof. reflexivity. Qed.

Lemma vod_bounds s : all_digits s = true -> 0 <= value_of_digits s < pow10 (length s).
Proof.
  induction s as [|b r IH]; intros H.
  - rewrite vod_nil. cbn [length]. rewrite pow10_0. lia.
  - cbn [all_digits forallb] in H. apply andb_true_iff in H. destruct H as [Hb Hr].
    specialize (IH Hr). rewrite vod_cons. cbn [length]. rewrite pow10_S.
    pose proof (is_digit_dval b Hb). pose proof (pow10_pos (length r)). nia.
Qed.

Lemma all_digits_app a b : all_digits (a ++ b) = all_digits a && all_digits b.
Proof. apply forallb_app. Qed.

Lemma all_digits_zeros n : all_digits (zeros n) = true.
Proof. induction n; cbn; auto. Qed.

Lemma vod_zeros n : value_of_digits (zeros n) = 0.
Proof. induction n. - reflexivity. - cbn [zeros repeat]. rewrite vod_cons. fold (zeros n). rewrite IHn. reflexivity. Qed.

Lemma length_zeros n : length (zeros n) = n.
Proof. apply repeat_length. Qed.

Lemma pad_left_length w s : (length s <= w)%nat -> length (pad_left w s) = w.
Proof. intros. unfold pad_left. rewrite app_length, length_zeros. lia. Qed.

Lemma pad_left_digits w s : all_digits s = true -> all_digits (pad_left w s) = true.
Proof. intros. unfold pad_left. rewrite all_digits_app, all_digits_zeros. exact H. Qed.

Lemma pad_left_vod w s : value_of_digits (pad_left w s) = value_of_digits s.
Proof. unfold pad_left. rewrite vod_app, vod_zeros. lia. Qed.

(* ------------------------------------------------------------------------------------------ *)
(* C. decimal digits of a number                                                               *)
(* ------------------------------------------------------------------------------------------ *)
Lemma digits_aux_acc fuel : forall z acc, digits_aux fuel z acc = digits_aux fuel z [] ++ acc.
Proof.
  induction fuel; intros; cbn [digits_aux].
  - reflexivity.
  - destruct (z <? 10); [reflexivity|]. rewrite IHfuel. rewrite (IHfuel _ [_]).
    rewrite <- app_assoc. reflexivity.
Qed.

Lemma digits_aux_spec fuel : forall z, 0 <= z < 2 ^ Z.of_nat fuel ->
  all_digits (digits_aux fuel z []) = true /\ value_of_digits (digits_aux fuel z []) = z.
Proof.
  induction fuel; intros z Hz.
  - cbn in Hz. cbn [digits_aux]. split; [reflexivity|]. rewrite vod_nil. lia.
  - rewrite Nat2Z.inj_succ, Z.pow_succ_r in Hz by lia.
    cbn [digits_aux]. destruct (z <? 10) eqn:E.
    + assert (Hd : 0 <= z mod 10 <= 9) by lia.
      split.
      * cbn [all_digits forallb]. rewrite (is_digit_digit_byte _ Hd). reflexivity.
      * rewrite vod_cons, vod_nil, (dval_digit_byte _ Hd). cbn [length]. rewrite pow10_0. lia.
    + rewrite digits_aux_acc.
      assert (Hd : 0 <= z mod 10 <= 9) by lia.
      destruct (IHfuel (z / 10)) as [A B]; [lia|].
      split.
      * rewrite all_digits_app, A. cbn [all_digits forallb]. rewrite (is_digit_digit_byte _ Hd). reflexivity.
      * rewrite vod_app, B. rewrite vod_cons, vod_nil, (dval_digit_byte _ Hd). cbn [length].
        rewrite pow10_0. change (pow10 1) with 10. lia.
Qed.

Lemma digits_aux_nonempty fuel z : digits_aux (S fuel) z [] <> [].
Proof.
  cbn [digits_aux]. destruct (z <? 10); [discriminate|]. rewrite digits_aux_acc.
  intros H. apply app_eq_nil in H. destruct H; discriminate.
Qed.

Lemma digits_aux_len fuel : forall z e, 0 <= z < 2 ^ Z.of_nat fuel -> z < pow10 e -> (1 <= e)%nat ->
  (length (digits_aux fuel z []) <= e)%nat.
Proof.
  induction fuel; intros z e Hz Hp He.
  - cbn. lia.
  - rewrite Nat2Z.inj_succ, Z.pow_succ_r in Hz by lia.
    cbn [digits_aux]. destruct (z <? 10) eqn:E.
    + cbn. lia.
    + rewrite digits_aux_acc, app_length. cbn [length].
      destruct e as [|[|e]]; [lia| change (pow10 1) with 10 in Hp; lia |].
      rewrite pow10_S in Hp.
      specialize (IHfuel (z / 10) (S e)). pose proof (pow10_pos (S e)).
      assert ((length (digits_aux fuel (z / 10) []) <= S e)%nat) by (apply IHfuel; lia). lia.
Qed.

Lemma digits_of_fuel z : 0 <= z -> 0 <= z < 2 ^ Z.of_nat (S (Z.to_nat (Z.log2 z))).
Proof.
  intros Hz. rewrite Nat2Z.inj_succ, Z2Nat.id by apply Z.log2_nonneg.
  destruct (Z.eq_dec z 0) as [->|Hn].
  - cbn. lia.
  - pose proof (Z.log2_spec z). lia.
Qed.

Lemma digits_of_digits z : 0 <= z -> all_digits (digits_of z) = true.
Proof. intros. apply digits_aux_spec, digits_of_fuel, H. Qed.
Lemma digits_of_value z : 0 <= z -> value_of_digits (digits_of z) = z.
Proof. intros. apply digits_aux_spec, digits_of_fuel, H. Qed.
Lemma digits_of_nonempty z : digits_of z <> [].
Proof. apply digits_aux_nonempty. Qed.
Lemma digits_of_len z e : 0 <= z < pow10 e -> (1 <= e)%nat -> (length (digits_of z) <= e)%nat.
Proof. intros [H1 H2] He. apply digits_aux_len; auto. apply digits_of_fuel, H1. Qed.

(* ------------------------------------------------------------------------------------------ *)
(* D. text shapes: [-] digits [. digits]                                                       *)
(* ------------------------------------------------------------------------------------------ *)
Definition nodot (s : bytes) : bool := forallb (fun b => negb (Byte.eqb b b_dot)) s.
Definition sign_text (neg : bool) : bytes := if neg then [b_minus] else [].
Definition frac_text (f : option bytes) : bytes := match f with None => [] | Some f => b_dot :: f end.
Definition frac_digits (f : option bytes) : bytes := match f with None => [] | Some f => f end.
Definition mk_text (neg : bool) (i : bytes) (f : option bytes) : bytes := sign_text neg ++ i ++ frac_text f.
Definition good_digits (s : bytes) : Prop := s <> [] /\ all_digits s = true.
Definition good_text (i : bytes) (f : option bytes) : Prop :=
  good_digits i /\ match f with None => True | Some f => good_digits f end.

Lemma all_digits_nodot s : all_digits s = true -> nodot s = true.
Proof.
  induction s; cbn; auto. intros H. apply andb_true_iff in H. destruct H as [H1 H2].
  destruct (is_digit_not_special a H1) as (_ & _ & -> & _). cbn. auto.
Qed.

Lemma split_dot_nodot s : nodot s = true -> split_dot s = [s].
Proof.
  induction s; cbn; auto. intros H. apply andb_true_iff in H. destruct H as [H1 H2].
  destruct (Byte.eqb a b_dot); [discriminate|]. rewrite (IHs H2). reflexivity.
Qed.

Lemma split_dot_app x y : nodot x = true -> split_dot (x ++ b_dot :: y) = x :: split_dot y.
Proof.
  induction x; cbn [app split_dot nodot forallb]; intros H.
  - rewrite byte_eqb_refl. reflexivity.
  - apply andb_true_iff in H. destruct H as [H1 H2].
    destruct (Byte.eqb a b_dot); [discriminate|]. rewrite (IHx H2). reflexivity.
Qed.

Fixpoint join_dot (l : list bytes) : bytes :=
  match l with
  | [] => []
  | x :: r => match r with [] => x | _ => x ++ b_dot :: join_dot r end
  end.

Lemma split_dot_nonempty s : split_dot s <> [].
Proof. destruct s; cbn; [discriminate|]. destruct (Byte.eqb b b_dot); [discriminate|]. destruct (split_dot s); discriminate. Qed.

Lemma split_dot_join s : join_dot (split_dot s) = s.
Proof.
  induction s as [|a r IH]; [reflexivity|].
  cbn [split_dot]. destruct (Byte.eqb a b_dot) eqn:E.
  - apply byte_eqb_eq in E. subst a.
    pose proof (split_dot_nonempty r). destruct (split_dot r) eqn:Er; [contradiction|].
    cbn [join_dot app] in *. rewrite IH. reflexivity.
  - destruct (split_dot r) as [|h t] eqn:Er.
    + cbn in IH. subst r. reflexivity.
    + cbn [join_dot] in *. destruct t.
      * subst r. reflexivity.
      * rewrite <- IH. reflexivity.
Qed.

Lemma nodot_sign_digits neg i : all_digits i = true -> nodot (sign_text neg ++ i) = true.
Proof.
  intros H. unfold nodot. rewrite forallb_app. fold (nodot i). rewrite (all_digits_nodot i H).
  destruct neg; reflexivity.
Qed.

Lemma split_dot_mk_text neg i f : all_digits i = true -> all_digits (frac_digits f) = true ->
  split_dot (mk_text neg i f) =
  match f with None => [sign_text neg ++ i] | Some f => [sign_text neg ++ i; f] end.
Proof.
  intros Hi Hf. unfold mk_text. rewrite app_assoc. destruct f as [f|]; cbn [frac_text frac_digits] in *.
  - rewrite split_dot_app by (apply nodot_sign_digits, Hi).
    rewrite split_dot_nodot by (apply all_digits_nodot, Hf). reflexivity.
  - rewrite app_nil_r. apply split_dot_nodot, nodot_sign_digits, Hi.
Qed.

(* span_digits *)
Lemma span_digits_spec s :
  s = fst (span_digits s) ++ snd (span_digits s) /\ all_digits (fst (span_digits s)) = true /\
  match snd (span_digits s) with [] => True | c :: _ => is_digit c = false end.
Proof.
  induction s as [|b r IH]; cbn [span_digits].
  - repeat split.
  - destruct (is_digit b) eqn:E.
    + destruct (span_digits r) as [d t]. cbn [fst snd] in *. destruct IH as (A & B & C).
      repeat split; auto.
      * cbn [app]. congruence.
      * cbn [all_digits forallb]. rewrite E. exact B.
    + cbn [fst snd]. repeat split; auto.
Qed.

Lemma span_digits_app i t : all_digits i = true ->
  match t with [] => True | c :: _ => is_digit c = false end -> span_digits (i ++ t) = (i, t).
Proof.
  induction i as [|b r IH]; intros Hi Ht.
  - cbn [app]. destruct t as [|c t']; [reflexivity|]. cbn [span_digits]. rewrite Ht. reflexivity.
  - cbn [all_digits forallb] in Hi. apply andb_true_iff in Hi. destruct Hi as [Hb Hr].
    cbn [app span_digits]. rewrite Hb. rewrite (IH Hr Ht). reflexivity.
Qed.

Lemma has_minus_mk_text neg i f : good_digits i -> has_minus (mk_text neg i f) = neg.
Proof.
  intros [Hn Hd]. destruct neg; [reflexivity|]. destruct i as [|b r]; [contradiction|].
  cbn [all_digits forallb] in Hd. apply andb_true_iff in Hd. destruct Hd as [Hb _].
  cbn. apply (is_digit_not_special b Hb).
Qed.

Lemma trim_minus_mk_text neg i f : good_digits i -> trim_minus (mk_text neg i f) = i ++ frac_text f.
Proof.
  intros [Hn Hd]. destruct neg; [reflexivity|]. destruct i as [|b r]; [contradiction|].
  cbn [all_digits forallb] in Hd. apply andb_true_iff in Hd. destruct Hd as [Hb _].
  cbn. destruct (is_digit_not_special b Hb) as (-> & _). reflexivity.
Qed.

Lemma trim_minus_spec s : s = sign_text (has_minus s) ++ trim_minus s.
Proof.
  destruct s as [|b r]; [reflexivity|]. cbn. destruct (Byte.eqb b b_minus) eqn:E; [|reflexivity].
  apply byte_eqb_eq in E. subst. reflexivity.
Qed.

Lemma is_nil_false (s : bytes) : s <> [] -> is_nil s = false.
Proof. destruct s; [contradiction|reflexivity]. Qed.

Lemma span_frac_text i f : good_text i f -> span_digits (i ++ frac_text f) = (i, frac_text f).
Proof.
  intros [[_ Hi] _]. apply span_digits_app; auto. destruct f; cbn; auto.
Qed.

(* M1: every text of the shape is a member of the published pattern *)
Lemma matches_mk_text neg i f : good_text i f -> matches_amount_pattern (mk_text neg i f) = true.
Proof.
  intros H. unfold matches_amount_pattern. rewrite trim_minus_mk_text by apply H.
  unfold matches_unsigned. rewrite (span_frac_text i f H). destruct H as [[Hn Hd] Hf].
  rewrite (is_nil_false i Hn). destruct f as [f|]; cbn [frac_text negb andb]; auto.
  destruct Hf as [Hfn Hfd]. rewrite byte_eqb_refl, (is_nil_false f Hfn), Hfd. reflexivity.
Qed.

(* M2: every member of the published pattern has the shape *)
Lemma matches_shape s : matches_amount_pattern s = true ->
  exists i f, s = mk_text (has_minus s) i f /\ good_text i f.
Proof.
  unfold matches_amount_pattern, matches_unsigned. intros H.
  pose proof (span_digits_spec (trim_minus s)) as (A & B & C).
  destruct (span_digits (trim_minus s)) as [i t]. cbn [fst snd] in *.
  apply andb_true_iff in H. destruct H as [Hi Ht].
  assert (Hin : i <> []) by (destruct i; [discriminate|discriminate]).
  destruct t as [|c f].
  - exists i, None. split.
    + unfold mk_text. cbn [frac_text]. rewrite <- A. apply trim_minus_spec.
    + repeat split; auto.
  - apply andb_true_iff in Ht. destruct Ht as [Ht Hfd]. apply andb_true_iff in Ht. destruct Ht as [Hc Hfn].
    apply byte_eqb_eq in Hc. subst c.
    exists i, (Some f). split.
    + unfold mk_text. cbn [frac_text]. rewrite <- A. apply trim_minus_spec.
    + repeat split; auto. destruct f; [discriminate|discriminate].
Qed.

(* V: the value a text of the shape denotes *)
Lemma value_of_mk_text neg i f : good_text i f ->
  value_of (mk_text neg i f) =
  ((if neg then - value_of_digits (i ++ frac_digits f) else value_of_digits (i ++ frac_digits f)),
   length (frac_digits f)).
Proof.
  intros H. unfold value_of. rewrite trim_minus_mk_text by apply H. rewrite (span_frac_text i f H).
  rewrite has_minus_mk_text by apply H. destruct f; reflexivity.
Qed.

(* ------------------------------------------------------------------------------------------ *)
(* E. strconv.ParseInt on sign + digits                                                        *)
(* ------------------------------------------------------------------------------------------ *)
Lemma parse_uint_good i : good_digits i -> parse_uint i = Some (value_of_digits i).
Proof. intros [Hn Hd]. unfold parse_uint. rewrite (is_nil_false i Hn), Hd. reflexivity. Qed.

Lemma parse_uint_some s u : parse_uint s = Some u -> good_digits s /\ u = value_of_digits s.
Proof.
  unfold parse_uint. destruct s as [|b r]; [discriminate|]. cbn [is_nil].
  destruct (all_digits (b :: r)) eqn:E; [|discriminate]. intros H. inversion H.
  repeat split; auto. discriminate.
Qed.

Lemma parse_int64_signed neg i : good_digits i ->
  parse_int64 (sign_text neg ++ i) =
  if neg then (if value_of_digits i <=? two63 then Some (- value_of_digits i) else None)
  else (if value_of_digits i <? two63 then Some (value_of_digits i) else None).
Proof.
  intros H. destruct neg; cbn [sign_text app parse_int64].
  - rewrite byte_eqb_refl, orb_true_r. rewrite (parse_uint_good i H). reflexivity.
  - destruct H as [Hn Hd]. destruct i as [|b r]; [contradiction|].
    assert (Hb : is_digit b = true) by (cbn [all_digits forallb] in Hd; apply andb_true_iff in Hd; apply Hd).
    cbn [parse_int64]. destruct (is_digit_not_special b Hb) as (-> & -> & _). cbn [orb].
    rewrite (parse_uint_good (b :: r)) by (split; [discriminate|exact Hd]). reflexivity.
Qed.

Lemma has_plus_signed neg i : good_digits i -> has_plus (sign_text neg ++ i) = false.
Proof.
  intros [Hn Hd]. destruct neg; [reflexivity|]. destruct i as [|b r]; [contradiction|].
  cbn [all_digits forallb] in Hd. apply andb_true_iff in Hd. destruct Hd as [Hb _].
  cbn. apply (is_digit_not_special b Hb).
Qed.

Lemma has_sign_digits i : good_digits i -> has_sign i = false.
Proof.
  intros [Hn Hd]. destruct i as [|b r]; [contradiction|].
  cbn [all_digits forallb] in Hd. apply andb_true_iff in Hd. destruct Hd as [Hb _].
  unfold has_sign. cbn. destruct (is_digit_not_special b Hb) as (-> & -> & _). reflexivity.
Qed.

(* a successful ParseInt without a leading '+' read an optional '-' and digits *)
Lemma parse_int64_shape x v : parse_int64 x = Some v -> has_plus x = false ->
  exists neg i, x = sign_text neg ++ i /\ good_digits i.
Proof.
  destruct x as [|b r]; [discriminate|]. cbn [parse_int64 has_plus]. intros H Hp.
  destruct (Byte.eqb b b_minus) eqn:Em.
  - apply byte_eqb_eq in Em. subst b. rewrite orb_true_r in H.
    destruct (parse_uint r) as [u|] eqn:Eu; [|discriminate].
    exists true, r. split; [reflexivity|]. apply (parse_uint_some r u Eu).
  - rewrite Hp in H. cbn [orb] in H.
    destruct (parse_uint (b :: r)) as [u|] eqn:Eu; [|discriminate].
    exists false, (b :: r). split; [reflexivity|]. apply (parse_uint_some _ u Eu).
Qed.

Lemma parse_int64_unsigned_shape x v : parse_int64 x = Some v -> has_sign x = false -> good_digits x.
Proof.
  intros H Hs. unfold has_sign in Hs. apply orb_false_iff in Hs. destruct Hs as [Hp Hm].
  destruct (parse_int64_shape x v H Hp) as (neg & i & -> & Hg).
  destruct neg; [discriminate Hm|]. exact Hg.
Qed.

(* ------------------------------------------------------------------------------------------ *)
(* F. the range check of the repaired parser                                                   *)
(* ------------------------------------------------------------------------------------------ *)
Lemma int_pow10_small e : (e <= 18)%nat -> int_pow10 e = pow10 e.
Proof. intros H. do 19 (destruct e as [|e]; [reflexivity|]). lia. Qed.

Lemma pow10_le_18 e : (e <= 18)%nat -> pow10 e <= 1000000000000000000.
Proof. intros H. change 1000000000000000000 with (10 ^ 18). unfold pow10. apply Z.pow_le_mono_r; lia. Qed.

Lemma pow10_ge_19 e : (18 < e)%nat -> 10000000000000000000 <= pow10 e.
Proof. intros H. change 10000000000000000000 with (10 ^ 19). unfold pow10. apply Z.pow_le_mono_r; lia. Qed.

Lemma fits64_iff z : fits64 z = true <-> - 9223372036854775808 <= z < 9223372036854775808.
Proof. unfold fits64. change two63 with 9223372036854775808. lia. Qed.

Lemma range_check {A} (g : Z -> A) v w P : 0 < P ->
  (0 <= v /\ 0 <= w < P) \/ (v <= 0 /\ - P < w <= 0) ->
  (if (Z.quot max64 P <? v) || (v <? Z.quot min64 P) then None
   else if ((0 <? w) && (max64 - w <? v * P)) || ((w <? 0) && (v * P <? min64 - w)) then None
        else Some (g (v * P + w))) =
  if fits64 (v * P + w) then Some (g (v * P + w)) else None.
Proof.
  intros HP Hs.
  assert (Q1 : Z.quot max64 P = max64 / P) by (apply Z.quot_div_nonneg; [vm_compute; discriminate | lia]).
  assert (Q2 : Z.quot min64 P = - (two63 / P)).
  { unfold min64. rewrite Z.quot_opp_l by lia. rewrite Z.quot_div_nonneg; [reflexivity| vm_compute; discriminate | lia]. }
  rewrite Q1, Q2. unfold max64, min64. change two63 with 9223372036854775808.
  change (9223372036854775808 - 1) with 9223372036854775807.
  pose proof (Z.div_mod 9223372036854775807 P ltac:(lia)) as D1.
  pose proof (Z.mod_pos_bound 9223372036854775807 P HP) as B1.
  pose proof (Z.div_mod 9223372036854775808 P ltac:(lia)) as D2.
  pose proof (Z.mod_pos_bound 9223372036854775808 P HP) as B2.
  set (q1 := 9223372036854775807 / P) in *. set (r1 := 9223372036854775807 mod P) in *.
  set (q2 := 9223372036854775808 / P) in *. set (r2 := 9223372036854775808 mod P) in *.
  destruct (fits64 (v * P + w)) eqn:F.
  - apply fits64_iff in F.
    destruct ((q1 <? v) || (v <? - q2)) eqn:E1.
    + exfalso. apply orb_true_iff in E1. destruct E1 as [E|E]; apply Z.ltb_lt in E; nia.
    + match goal with |- (if ?c then _ else _) = _ => destruct c eqn:E2 end; [|reflexivity].
      exfalso. lia.
  - assert (~ (- 9223372036854775808 <= v * P + w < 9223372036854775808)) as NF
      by (intros X; apply fits64_iff in X; congruence).
    destruct ((q1 <? v) || (v <? - q2)) eqn:E1; [reflexivity|].
    match goal with |- (if ?c then _ else _) = _ => destruct c eqn:E2 end; [reflexivity|].
    exfalso. apply orb_false_iff in E1. destruct E1 as [E1a E1b]. apply Z.ltb_ge in E1a, E1b.
    assert (v * P <= 9223372036854775807) by nia.
    assert (- 9223372036854775808 <= v * P) by nia.
    lia.
Qed.

Lemma fits64_neg u : 0 <= u -> fits64 (- u) = (u <=? two63).
Proof. intros. unfold fits64. change two63 with 9223372036854775808. lia. Qed.
Lemma fits64_pos u : 0 <= u -> fits64 u = (u <? two63).
Proof. intros. unfold fits64. change two63 with 9223372036854775808. lia. Qed.

(* ------------------------------------------------------------------------------------------ *)
(* G. the repaired parser on a text of the shape (P1) and the shape of what it accepts (P2)    *)
(* ------------------------------------------------------------------------------------------ *)
Definition text_value (neg : bool) (i : bytes) (f : option bytes) : Z :=
  if neg then - value_of_digits (i ++ frac_digits f) else value_of_digits (i ++ frac_digits f).

Lemma parse_fixed_mk_text neg i f : good_text i f ->
  parse_amount_fixed (mk_text neg i f) =
  if fits64 (text_value neg i f) && Nat.leb (length (frac_digits f)) 18
  then Some (mkA (text_value neg i f) (length (frac_digits f))) else None.
Proof.
  intros [Hi Hf]. unfold parse_amount_fixed, text_value.
  rewrite has_minus_mk_text by exact Hi.
  pose proof (vod_bounds i (proj2 Hi)) as Bu.
  destruct f as [f|]; cbn [frac_digits].
  - rewrite split_dot_mk_text by (cbn [frac_digits]; first [apply Hi | apply Hf]).
    rewrite parse_int64_signed, has_plus_signed by exact Hi.
    change f with (sign_text false ++ f) at 1. rewrite parse_int64_signed by exact Hf.
    rewrite (has_sign_digits f Hf).
    pose proof (vod_bounds f (proj2 Hf)) as Bw.
    rewrite vod_app.
    set (u := value_of_digits i) in *. set (w0 := value_of_digits f) in *.
    set (e := length f) in *. pose proof (pow10_pos e) as HP.
    destruct (Nat.leb e 18) eqn:Ee.
    + apply Nat.leb_le in Ee. pose proof (pow10_le_18 e Ee) as HP18.
      assert (Hw : (w0 <? two63) = true) by (change two63 with 9223372036854775808; lia).
      rewrite Hw. assert (Hlt : Nat.ltb 18 e = false) by (apply Nat.ltb_ge; lia). rewrite Hlt.
      rewrite (int_pow10_small e Ee). rewrite andb_true_r.
      destruct neg.
      * destruct (u <=? two63) eqn:Eu.
        -- rewrite (range_check (fun z => mkA z e) (- u) (- w0) (pow10 e) HP) by lia.
           replace (- u * pow10 e + - w0) with (- (u * pow10 e + w0)) by ring. reflexivity.
        -- change two63 with 9223372036854775808 in Eu.
           assert (F : fits64 (- (u * pow10 e + w0)) = false).
           { destruct (fits64 (- (u * pow10 e + w0))) eqn:F; [|reflexivity]. apply fits64_iff in F. nia. }
           rewrite F. reflexivity.
      * destruct (u <? two63) eqn:Eu.
        -- rewrite (range_check (fun z => mkA z e) u w0 (pow10 e) HP) by lia. reflexivity.
        -- change two63 with 9223372036854775808 in Eu.
           assert (F : fits64 (u * pow10 e + w0) = false).
           { destruct (fits64 (u * pow10 e + w0)) eqn:F; [|reflexivity]. apply fits64_iff in F. nia. }
           rewrite F. reflexivity.
    + rewrite andb_false_r.
      assert (Hlt : Nat.ltb 18 e = true) by (apply Nat.ltb_lt; apply Nat.leb_gt in Ee; lia).
      rewrite Hlt.
      destruct (if neg then if u <=? two63 then Some (- u) else None else if u <? two63 then Some u else None);
        [|reflexivity].
      destruct (w0 <? two63); reflexivity.
  - rewrite split_dot_mk_text by (cbn [frac_digits]; first [apply Hi | reflexivity]).
    rewrite parse_int64_signed, has_plus_signed by exact Hi.
    rewrite app_nil_r. cbn [length Nat.leb]. rewrite andb_true_r.
    destruct neg.
    + rewrite fits64_neg by lia. destruct (value_of_digits i <=? two63); reflexivity.
    + rewrite fits64_pos by lia. destruct (value_of_digits i <? two63); reflexivity.
Qed.

Lemma parse_fixed_shape s a : parse_amount_fixed s = Some a ->
  exists i f, s = mk_text (has_minus s) i f /\ good_text i f.
Proof.
  unfold parse_amount_fixed. intros H.
  pose proof (split_dot_join s) as J.
  destruct (split_dot s) as [|x0 [|x1 [|x2 rest]]]; try discriminate.
  - cbn [join_dot] in J. subst x0.
    destruct (parse_int64 s) as [v|] eqn:E0; [|discriminate].
    destruct (has_plus s) eqn:Hp; [discriminate|].
    destruct (parse_int64_shape s v E0 Hp) as (neg & i & -> & Hg).
    exists i, None. split.
    + assert (E : sign_text neg ++ i = mk_text neg i None)
        by (unfold mk_text; cbn [frac_text]; rewrite app_nil_r; reflexivity).
      rewrite E. rewrite has_minus_mk_text by exact Hg. reflexivity.
    + split; auto.
  - cbn [join_dot] in J.
    destruct (parse_int64 x0) as [v|] eqn:E0; [|discriminate].
    destruct (has_plus x0) eqn:Hp; [discriminate|].
    destruct (parse_int64 x1) as [v2|] eqn:E1; [|discriminate].
    destruct (has_sign x1) eqn:Hs; [discriminate|].
    destruct (parse_int64_shape x0 v E0 Hp) as (neg & i & -> & Hg).
    pose proof (parse_int64_unsigned_shape x1 v2 E1 Hs) as Hg1.
    exists i, (Some x1). split.
    + rewrite <- J. rewrite <- app_assoc. change (b_dot :: x1) with (frac_text (Some x1)).
      fold (mk_text neg i (Some x1)). rewrite has_minus_mk_text by exact Hg. reflexivity.
    + split; auto.
Qed.

(* ------------------------------------------------------------------------------------------ *)
(* H. the repaired parser accepts exactly the pattern members that fit, and reads them right   *)
(* ------------------------------------------------------------------------------------------ *)
Lemma amount_of_mk_text neg i f : good_text i f ->
  amount_of (mk_text neg i f) = mkA (text_value neg i f) (length (frac_digits f)).
Proof. intros H. unfold amount_of. rewrite value_of_mk_text by exact H. reflexivity. Qed.

Lemma fits_int64_mk_text neg i f : good_text i f ->
  fits_int64 (mk_text neg i f) = fits64 (text_value neg i f) && Nat.leb (length (frac_digits f)) 18.
Proof. intros H. unfold fits_int64. rewrite value_of_mk_text by exact H. reflexivity. Qed.

Lemma parse_fixed_iff s a :
  parse_amount_fixed s = Some a <->
  matches_amount_pattern s = true /\ fits_int64 s = true /\ a = amount_of s.
Proof.
  split.
  - intros H. destruct (parse_fixed_shape s a H) as (i & f & E & G).
    remember (has_minus s) as neg eqn:Hneg. clear Hneg. subst s.
    rewrite parse_fixed_mk_text in H by exact G.
    rewrite matches_mk_text, fits_int64_mk_text, amount_of_mk_text by exact G.
    destruct (fits64 (text_value neg i f) && Nat.leb (length (frac_digits f)) 18); [|discriminate].
    inversion H. auto.
  - intros (M & F & ->). destruct (matches_shape s M) as (i & f & E & G).
    remember (has_minus s) as neg eqn:Hneg. clear Hneg. subst s.
    rewrite fits_int64_mk_text in F by exact G.
    rewrite parse_fixed_mk_text, amount_of_mk_text by exact G. rewrite F. reflexivity.
Qed.

Lemma parse_fixed_accepts_iff s :
  (exists a, parse_amount_fixed s = Some a) <-> matches_amount_pattern s = true /\ fits_int64 s = true.
Proof.
  split.
  - intros [a H]. apply parse_fixed_iff in H. tauto.
  - intros [M F]. exists (amount_of s). apply parse_fixed_iff. auto.
Qed.

Lemma parse_fixed_rejects_iff s :
  parse_amount_fixed s = None <-> ~ (matches_amount_pattern s = true /\ fits_int64 s = true).
Proof.
  rewrite <- parse_fixed_accepts_iff. destruct (parse_amount_fixed s) as [a|].
  - split; [discriminate|]. intros H. exfalso. apply H. eauto.
  - split; auto. intros _ [a H]. discriminate.
Qed.

Lemma parse_fixed_never_misreads s a : parse_amount_fixed s = Some a ->
  val a = fst (value_of s) /\ exp a = snd (value_of s).
Proof. intros H. apply parse_fixed_iff in H. destruct H as (_ & _ & ->). split; reflexivity. Qed.

(* ------------------------------------------------------------------------------------------ *)
(* I. printing                                                                                 *)
(* ------------------------------------------------------------------------------------------ *)
Lemma wrap_abs v : fits64 v = true -> wrapu64 (if v <? 0 then wrap64 (- v) else v) = Z.abs v.
Proof.
  intros F. apply fits64_iff in F. unfold wrapu64, wrap64.
  change two64 with 18446744073709551616. change two63 with 9223372036854775808.
  destruct (v <? 0) eqn:E; lia.
Qed.

Definition print_frac (v : Z) (e : nat) : option bytes :=
  if Nat.eqb e 0 then None else Some (pad_left e (digits_of (Z.abs v mod pow10 e))).

Lemma print_fixed_shape a : amount_ok a = true ->
  print_amount_fixed a =
  mk_text (val a <? 0) (digits_of (Z.abs (val a) / pow10 (exp a))) (print_frac (val a) (exp a)).
Proof.
  destruct a as [v e]. unfold amount_ok, print_amount_fixed, print_frac. cbn [val exp].
  intros H. apply andb_true_iff in H. destruct H as [F He]. apply Nat.leb_le in He.
  destruct (Nat.eqb e 0) eqn:E0.
  - apply Nat.eqb_eq in E0. subst e. rewrite pow10_0, Z.div_1_r.
    unfold print_int, mk_text. cbn [frac_text]. rewrite app_nil_r.
    destruct (v <? 0) eqn:E; cbn [sign_text app].
    + rewrite Z.abs_neq by lia. reflexivity.
    + rewrite Z.abs_eq by lia. reflexivity.
  - assert (Hlt : Nat.ltb 1000 e = false) by (apply Nat.ltb_ge; lia). rewrite Hlt.
    rewrite (int_pow10_small e He). pose proof (pow10_pos e) as HP. pose proof (pow10_le_18 e He) as HP18.
    assert (Hp : wrapu64 (pow10 e) = pow10 e)
      by (unfold wrapu64; change two64 with 18446744073709551616; apply Z.mod_small; lia).
    rewrite Hp, (wrap_abs v F).
    apply fits64_iff in F.
    set (u := Z.abs v) in *. assert (Hu : 0 <= u <= 9223372036854775808) by lia.
    pose proof (Z.div_mod u (pow10 e) ltac:(lia)) as D. pose proof (Z.mod_pos_bound u (pow10 e) HP) as B.
    assert (Hq : 0 <= u / pow10 e) by (apply Z.div_pos; lia).
    assert (H1 : wrapu64 (u / pow10 e * pow10 e) = u / pow10 e * pow10 e).
    { unfold wrapu64. change two64 with 18446744073709551616. apply Z.mod_small. nia. }
    rewrite H1.
    assert (H2 : wrapu64 (u - u / pow10 e * pow10 e) = u mod pow10 e).
    { replace (u - u / pow10 e * pow10 e) with (u mod pow10 e) by lia.
      unfold wrapu64. change two64 with 18446744073709551616. apply Z.mod_small. lia. }
    rewrite H2. reflexivity.
Qed.

Lemma digits_of_good z : 0 <= z -> good_digits (digits_of z).
Proof. intros H. split; [apply digits_of_nonempty | apply digits_of_digits, H]. Qed.

Lemma print_shape_good v e :
  good_text (digits_of (Z.abs v / pow10 e)) (print_frac v e) /\
  length (frac_digits (print_frac v e)) = e.
Proof.
  pose proof (pow10_pos e) as HP.
  assert (Hq : 0 <= Z.abs v / pow10 e) by (apply Z.div_pos; lia).
  pose proof (Z.mod_pos_bound (Z.abs v) (pow10 e) HP) as B.
  unfold print_frac. destruct (Nat.eqb e 0) eqn:E0.
  - apply Nat.eqb_eq in E0. subst e. repeat split; auto using digits_of_nonempty, digits_of_digits.
  - apply Nat.eqb_neq in E0.
    assert (L : length (pad_left e (digits_of (Z.abs v mod pow10 e))) = e)
      by (apply pad_left_length, digits_of_len; lia).
    repeat split; auto using digits_of_nonempty, digits_of_digits.
    + intros X. rewrite X in L. cbn in L. lia.
    + apply pad_left_digits, digits_of_digits. lia.
Qed.

Lemma print_shape_value v e :
  text_value (v <? 0) (digits_of (Z.abs v / pow10 e)) (print_frac v e) = v.
Proof.
  pose proof (pow10_pos e) as HP.
  assert (Hq : 0 <= Z.abs v / pow10 e) by (apply Z.div_pos; lia).
  pose proof (Z.mod_pos_bound (Z.abs v) (pow10 e) HP) as B.
  pose proof (Z.div_mod (Z.abs v) (pow10 e) ltac:(lia)) as D.
  assert (V : value_of_digits (digits_of (Z.abs v / pow10 e) ++ frac_digits (print_frac v e)) = Z.abs v).
  { rewrite vod_app. rewrite (proj2 (print_shape_good v e)). rewrite digits_of_value by exact Hq.
    unfold print_frac. destruct (Nat.eqb e 0) eqn:E0; cbn [frac_digits].
    - apply Nat.eqb_eq in E0. subst e. rewrite vod_nil. rewrite pow10_0 in *. lia.
    - rewrite pad_left_vod, digits_of_value by lia. lia. }
  unfold text_value. rewrite V. destruct (v <? 0) eqn:E; lia.
Qed.

Lemma print_fixed_matches a : amount_ok a = true -> matches_amount_pattern (print_amount_fixed a) = true.
Proof. intros H. rewrite (print_fixed_shape a H). apply matches_mk_text, print_shape_good. Qed.

Lemma parse_print_fixed a : amount_ok a = true -> parse_amount_fixed (print_amount_fixed a) = Some a.
Proof.
  intros H. rewrite (print_fixed_shape a H).
  rewrite parse_fixed_mk_text by apply print_shape_good.
  rewrite print_shape_value, (proj2 (print_shape_good (val a) (exp a))).
  unfold amount_ok in H. rewrite H. destruct a; reflexivity.
Qed.

(* the shipped printer agrees with the repaired one except on math.MinInt64 *)
Lemma print_shipped_eq_fixed a : amount_ok a = true -> val a <> min64 -> print_amount a = print_amount_fixed a.
Proof.
  destruct a as [v e]. unfold amount_ok, print_amount, print_amount_fixed, min64. cbn [val exp].
  intros H Hm. apply andb_true_iff in H. destruct H as [F He]. apply Nat.leb_le in He.
  destruct (Nat.eqb e 0) eqn:E0; [reflexivity|].
  assert (Hlt : Nat.ltb 1000 e = false) by (apply Nat.ltb_ge; lia). rewrite Hlt.
  rewrite (int_pow10_small e He). pose proof (pow10_pos e) as HP. pose proof (pow10_le_18 e He) as HP18.
  assert (Hp : wrapu64 (pow10 e) = pow10 e)
    by (unfold wrapu64; change two64 with 18446744073709551616; apply Z.mod_small; lia).
  rewrite Hp, (wrap_abs v F).
  apply fits64_iff in F. change two63 with 9223372036854775808 in Hm.
  assert (Hv : (if v <? 0 then wrap64 (- v) else v) = Z.abs v).
  { unfold wrap64. change two64 with 18446744073709551616. change two63 with 9223372036854775808.
    destruct (v <? 0) eqn:E; lia. }
  rewrite Hv.
  set (u := Z.abs v) in *. assert (Hu : 0 <= u < 9223372036854775808) by lia.
  pose proof (Z.div_mod u (pow10 e) ltac:(lia)) as D. pose proof (Z.mod_pos_bound u (pow10 e) HP) as B.
  assert (Hq : 0 <= u / pow10 e) by (apply Z.div_pos; lia).
  assert (Hq2 : u / pow10 e * pow10 e <= u) by lia.
  rewrite Z.quot_div_nonneg by lia.
  assert (W : forall z, 0 <= z < 9223372036854775808 -> wrap64 z = z).
  { intros z Hz. unfold wrap64. change two64 with 18446744073709551616. change two63 with 9223372036854775808. lia. }
  assert (U : forall z, 0 <= z < 9223372036854775808 -> wrapu64 z = z).
  { intros z Hz. unfold wrapu64. change two64 with 18446744073709551616. apply Z.mod_small. lia. }
  rewrite (W (u / pow10 e)) by nia.
  rewrite (W (u / pow10 e * pow10 e)) by nia.
  rewrite (U (u / pow10 e * pow10 e)) by nia.
  rewrite (W (u - u / pow10 e * pow10 e)) by lia.
  rewrite (U (u - u / pow10 e * pow10 e)) by lia.
  unfold print_int, print_int_padded.
  assert (E1 : (u / pow10 e <? 0) = false) by lia. rewrite E1.
  assert (E2 : (u - u / pow10 e * pow10 e <? 0) = false) by lia. rewrite E2.
  reflexivity.
Qed.

(* ------------------------------------------------------------------------------------------ *)
(* J. the shipped parser agrees with the repaired one wherever the latter accepts, except on   *)
(*    math.MinInt64                                                                            *)
(* ------------------------------------------------------------------------------------------ *)
Lemma wrap64_small z : - 9223372036854775808 <= z < 9223372036854775808 -> wrap64 z = z.
Proof. intros. unfold wrap64. change two64 with 18446744073709551616. change two63 with 9223372036854775808. lia. Qed.

Lemma parse_shipped_mk_text neg i f : good_text i f ->
  fits64 (text_value neg i f) && Nat.leb (length (frac_digits f)) 18 = true ->
  text_value neg i f <> min64 ->
  parse_amount (mk_text neg i f) = Some (mkA (text_value neg i f) (length (frac_digits f))).
Proof.
  intros [Hi Hf] F Hm. apply andb_true_iff in F. destruct F as [F Ee]. apply Nat.leb_le in Ee.
  apply fits64_iff in F. unfold min64 in Hm. change two63 with 9223372036854775808 in Hm.
  unfold parse_amount, text_value in *.
  rewrite has_minus_mk_text by exact Hi. rewrite trim_minus_mk_text by exact Hi.
  change (i ++ frac_text f) with (mk_text false i f).
  pose proof (vod_bounds i (proj2 Hi)) as Bu.
  destruct f as [f|]; cbn [frac_digits] in *.
  - rewrite split_dot_mk_text by (cbn [frac_digits]; first [apply Hi | apply Hf]).
    cbn [sign_text app].
    change i with (sign_text false ++ i) at 1. rewrite parse_int64_signed by exact Hi.
    change f with (sign_text false ++ f) at 1. rewrite parse_int64_signed by exact Hf.
    pose proof (vod_bounds f (proj2 Hf)) as Bw.
    rewrite vod_app in *.
    set (u := value_of_digits i) in *. set (w0 := value_of_digits f) in *.
    set (e := length f) in *. pose proof (pow10_pos e) as HP. pose proof (pow10_le_18 e Ee) as HP18.
    rewrite (int_pow10_small e Ee).
    assert (Hs : 0 <= u * pow10 e + w0 < 9223372036854775808) by (destruct neg; lia).
    assert (Hu : 0 <= u * pow10 e < 9223372036854775808) by nia.
    assert (Hu' : u < 9223372036854775808) by nia.
    assert (E1 : (u <? two63) = true) by (change two63 with 9223372036854775808; lia).
    assert (E2 : (w0 <? two63) = true) by (change two63 with 9223372036854775808; lia).
    rewrite E1, E2.
    rewrite (wrap64_small (u * pow10 e)) by lia.
    rewrite (wrap64_small (u * pow10 e + w0)) by lia.
    destruct neg; [rewrite wrap64_small by lia|]; reflexivity.
  - rewrite split_dot_mk_text by (cbn [frac_digits]; first [apply Hi | reflexivity]).
    cbn [sign_text app].
    change i with (sign_text false ++ i) at 1. rewrite parse_int64_signed by exact Hi.
    rewrite app_nil_r in *.
    assert (E1 : (value_of_digits i <? two63) = true)
      by (change two63 with 9223372036854775808; destruct neg; lia).
    rewrite E1. cbn [length].
    destruct neg; [rewrite wrap64_small by lia|]; reflexivity.
Qed.

Lemma parse_shipped_agrees s a : parse_amount_fixed s = Some a -> val a <> min64 -> parse_amount s = Some a.
Proof.
  intros H Hm. destruct (parse_fixed_shape s a H) as (i & f & E & G).
  remember (has_minus s) as neg eqn:Hneg. clear Hneg. subst s.
  rewrite parse_fixed_mk_text in H by exact G.
  destruct (fits64 (text_value neg i f) && Nat.leb (length (frac_digits f)) 18) eqn:F; [|discriminate].
  inversion H. subst a. cbn [val] in Hm. apply parse_shipped_mk_text; auto.
Qed.

Lemma parse_print_shipped a : amount_ok a = true -> val a <> min64 -> parse_amount (print_amount a) = Some a.
Proof.
  intros H Hm. rewrite (print_shipped_eq_fixed a H Hm).
  apply parse_shipped_agrees; [apply parse_print_fixed, H | exact Hm].
Qed.

Lemma print_shipped_matches a : amount_ok a = true -> val a <> min64 -> matches_amount_pattern (print_amount a) = true.
Proof. intros H Hm. rewrite (print_shipped_eq_fixed a H Hm). apply print_fixed_matches, H. Qed.

Lemma string_never_panics a : (exp a <= 18)%nat -> amount_string_panics a = false /\ amount_string_fixed_panics a = false.
Proof.
  intros He. unfold amount_string_panics, amount_string_fixed_panics.
  rewrite (int_pow10_small _ He). pose proof (pow10_pos (exp a)). pose proof (pow10_le_18 _ He).
  assert (Hp : wrapu64 (pow10 (exp a)) = pow10 (exp a))
    by (unfold wrapu64; change two64 with 18446744073709551616; apply Z.mod_small; lia).
  rewrite Hp. assert (E : (pow10 (exp a) =? 0) = false) by lia. rewrite E, !andb_false_r. auto.
Qed.

(* ------------------------------------------------------------------------------------------ *)
(* K. percentages                                                                              *)
(* ------------------------------------------------------------------------------------------ *)
Lemma pct_from_amount_eq a : pct_from_amount a = mkA (val a) (exp a + 2).
Proof.
  unfold pct_from_amount, div. cbn [val exp]. rewrite rescale_exp.
  rewrite rescale_up_val by lia. replace (exp a + 2 - exp a)%nat with 2%nat by lia.
  rewrite pow10_0, Z.mul_1_r. change (pow10 2) with 100.
  rewrite rhaS_pos by lia. rewrite (rha_exact _ 100 (val a)) by lia. reflexivity.
Qed.

Lemma pct_amount_eq p : pct_amount p = mkA (val p * pow10 (2 - exp p)) (exp p - 2).
Proof.
  unfold pct_amount. rewrite mul_int_exact. destruct p as [v e]. cbn [val exp].
  destruct e as [|[|e]].
  - reflexivity.
  - unfold rescale. cbn [val exp Nat.sub Nat.ltb Nat.leb]. change (pow10 1) with 10.
    rewrite (rha_exact _ 10 (v * 10)) by lia. reflexivity.
  - unfold rescale. cbn [val exp].
    replace (S (S e) - 2)%nat with e by lia.
    assert (L : Nat.ltb e (S (S e)) = true) by (apply Nat.ltb_lt; lia). rewrite L.
    replace (S (S e) - e)%nat with 2%nat by lia. replace (2 - S (S e))%nat with 0%nat by lia.
    change (pow10 2) with 100. rewrite pow10_0.
    rewrite (rha_exact _ 100 v) by lia. rewrite Z.mul_1_r. reflexivity.
Qed.

Lemma pct_from_amount_pct_amount p :
  pct_from_amount (pct_amount p) = mkA (val p * pow10 (2 - exp p)) (Nat.max (exp p) 2).
Proof. rewrite pct_from_amount_eq, pct_amount_eq. cbn [val exp]. f_equal. lia. Qed.

Lemma pct_amount_pct_from_amount a : pct_amount (pct_from_amount a) = a.
Proof.
  rewrite pct_from_amount_eq, pct_amount_eq. cbn [val exp].
  replace (2 - (exp a + 2))%nat with 0%nat by lia. replace (exp a + 2 - 2)%nat with (exp a) by lia.
  rewrite pow10_0, Z.mul_1_r. destruct a; reflexivity.
Qed.

Lemma pct_reread_same_value p : Qeq (toQ (pct_from_amount (pct_amount p))) (toQ p).
Proof.
  rewrite pct_from_amount_pct_amount. apply toQ_eq_iff. cbn [val exp].
  rewrite <- Z.mul_assoc, <- pow10_add. f_equal. f_equal. lia.
Qed.

Lemma parse_pct_with_nonempty pa s : s <> [] ->
  parse_pct_with pa s =
  if Byte.eqb (last s x00) b_pct then option_map pct_from_amount (pa (removelast s)) else pa s.
Proof. destruct s; [contradiction|reflexivity]. Qed.

Lemma matches_pct_nonempty s : s <> [] ->
  matches_pct_pattern s = Byte.eqb (last s x00) b_pct && matches_amount_pattern (removelast s).
Proof. destruct s; [contradiction|reflexivity]. Qed.

Lemma app_one_nonempty (x : bytes) c : x ++ [c] <> [].
Proof. intros H. apply app_eq_nil in H. destruct H; discriminate. Qed.

Lemma parse_pct_suffix pa x : parse_pct_with pa (x ++ [b_pct]) = option_map pct_from_amount (pa x).
Proof.
  rewrite parse_pct_with_nonempty by apply app_one_nonempty.
  rewrite last_last, removelast_last, byte_eqb_refl. reflexivity.
Qed.

Lemma matches_pct_suffix x : matches_pct_pattern (x ++ [b_pct]) = matches_amount_pattern x.
Proof.
  rewrite matches_pct_nonempty by apply app_one_nonempty.
  rewrite last_last, removelast_last, byte_eqb_refl. reflexivity.
Qed.

Lemma print_pct_fixed_matches p : amount_ok (pct_amount p) = true -> matches_pct_pattern (print_pct_fixed p) = true.
Proof. intros H. unfold print_pct_fixed, print_pct_with. rewrite matches_pct_suffix. apply print_fixed_matches, H. Qed.

Lemma parse_print_pct_fixed p : amount_ok (pct_amount p) = true ->
  parse_pct_fixed (print_pct_fixed p) = Some (pct_from_amount (pct_amount p)).
Proof.
  intros H. unfold parse_pct_fixed, print_pct_fixed, print_pct_with. rewrite parse_pct_suffix.
  rewrite (parse_print_fixed _ H). reflexivity.
Qed.

Lemma pct_roundtrip_value_fixed p : amount_ok (pct_amount p) = true ->
  exists q, parse_pct_fixed (print_pct_fixed p) = Some q /\ Qeq (toQ q) (toQ p) /\ exp q = Nat.max (exp p) 2.
Proof.
  intros H. exists (pct_from_amount (pct_amount p)). split; [apply parse_print_pct_fixed, H|].
  split; [apply pct_reread_same_value|]. rewrite pct_from_amount_pct_amount. reflexivity.
Qed.

Lemma pct_text_stable_fixed p : amount_ok (pct_amount p) = true ->
  exists q, parse_pct_fixed (print_pct_fixed p) = Some q /\ print_pct_fixed q = print_pct_fixed p.
Proof.
  intros H. exists (pct_from_amount (pct_amount p)). split; [apply parse_print_pct_fixed, H|].
  unfold print_pct_fixed, print_pct_with. rewrite pct_amount_pct_from_amount. reflexivity.
Qed.

(* a percentage with at least two decimals is read back identically *)
Lemma pct_roundtrip_exact_fixed p : amount_ok (pct_amount p) = true -> (2 <= exp p)%nat ->
  parse_pct_fixed (print_pct_fixed p) = Some p.
Proof.
  intros H He. rewrite (parse_print_pct_fixed p H), pct_from_amount_pct_amount.
  replace (2 - exp p)%nat with 0%nat by lia. rewrite pow10_0, Z.mul_1_r.
  replace (Nat.max (exp p) 2) with (exp p) by lia. destruct p; reflexivity.
Qed.

(* the exact language the (repaired) percentage reader accepts: the empty text, members of the
   percentage pattern that fit, and - documented intent - members of the amount pattern *)
Lemma parse_pct_fixed_language s q :
  parse_pct_fixed s = Some q <->
  (s = [] /\ q = mkA 0 0) \/
  (matches_pct_pattern s = true /\ fits_int64 (removelast s) = true /\
   q = pct_from_amount (amount_of (removelast s))) \/
  (s <> [] /\ Byte.eqb (last s x00) b_pct = false /\ matches_amount_pattern s = true /\
   fits_int64 s = true /\ q = amount_of s).
Proof.
  unfold parse_pct_fixed. destruct s as [|b r].
  - cbn [parse_pct_with matches_pct_pattern]. split.
    + intros H. inversion H. left. auto.
    + intros [[_ ->]|[[H _]|[H _]]]; [reflexivity|discriminate|contradiction].
  - assert (Hn : b :: r <> []) by discriminate. revert Hn. generalize (b :: r) as s. clear b r. intros s Hn.
    rewrite parse_pct_with_nonempty, matches_pct_nonempty by exact Hn.
    destruct (Byte.eqb (last s x00) b_pct) eqn:L; cbn [andb].
    + split.
      * intros H. destruct (parse_amount_fixed (removelast s)) as [a|] eqn:E; [|discriminate].
        inversion H. apply parse_fixed_iff in E. destruct E as (M & F & ->). right. left. auto.
      * intros [[-> _]|[(M & F & ->)|(_ & X & _)]]; [contradiction| |discriminate].
        assert (E : parse_amount_fixed (removelast s) = Some (amount_of (removelast s)))
          by (apply parse_fixed_iff; auto).
        rewrite E. reflexivity.
    + split.
      * intros H. apply parse_fixed_iff in H. destruct H as (M & F & ->). right. right. auto.
      * intros [[-> _]|[(M & _)|(_ & _ & M & F & ->)]]; [contradiction|discriminate|].
        apply parse_fixed_iff; auto.
Qed.

(* ------------------------------------------------------------------------------------------ *)
(* L. the JSON entry points                                                                    *)
(* ------------------------------------------------------------------------------------------ *)
Definition quote (s : bytes) : bytes := b_quote :: s ++ [b_quote].

Lemma unquote_quote s : s <> [] -> unquote (quote s) = s.
Proof.
  intros Hn. unfold unquote, quote.
  assert (L : Nat.ltb 2 (length (b_quote :: s ++ [b_quote])) = true).
  { apply Nat.ltb_lt. cbn [length]. rewrite app_length. cbn [length]. destruct s; [contradiction|cbn [length]; lia]. }
  rewrite L. cbn [hd tl]. rewrite byte_eqb_refl.
  change (b_quote :: s ++ [b_quote]) with ((b_quote :: s) ++ [b_quote]).
  rewrite last_last, byte_eqb_refl. cbn [andb]. apply removelast_last.
Qed.

Lemma unquote_noquote s : Byte.eqb (hd x00 s) b_quote = false -> unquote s = s.
Proof. intros H. unfold unquote. rewrite H, andb_false_r. reflexivity. Qed.

Lemma eqb_bytes_eq a : forall b, eqb_bytes a b = true <-> a = b.
Proof.
  induction a as [|x a IH]; destruct b as [|y b]; cbn [eqb_bytes]; split; intros H; try discriminate; auto.
  - apply andb_true_iff in H. destruct H as [H1 H2]. apply byte_eqb_eq in H1. apply IH in H2. congruence.
  - inversion H. subst. rewrite byte_eqb_refl. cbn [andb]. apply IH. reflexivity.
Qed.

Lemma member_not_null s : matches_amount_pattern s = true -> eqb_bytes s text_null = false.
Proof.
  intros M. destruct (eqb_bytes s text_null) eqn:E; [|reflexivity].
  apply eqb_bytes_eq in E. subst s. discriminate M.
Qed.

Lemma unmarshal_text_fixed_iff s a :
  unmarshal_text parse_amount_fixed s = Rok a <->
  matches_amount_pattern s = true /\ fits_int64 s = true /\ a = amount_of s.
Proof.
  unfold unmarshal_text. split.
  - destruct (eqb_bytes s text_null); [discriminate|].
    destruct (parse_amount_fixed s) as [a'|] eqn:E; [|discriminate].
    intros H. inversion H. subst a'. apply parse_fixed_iff, E.
  - intros (M & F & ->). rewrite (member_not_null s M).
    assert (E : parse_amount_fixed s = Some (amount_of s)) by (apply parse_fixed_iff; auto).
    rewrite E. reflexivity.
Qed.

Lemma unmarshal_text_null_iff pa s : unmarshal_text pa s = Rnull <-> s = text_null.
Proof.
  unfold unmarshal_text. destruct (eqb_bytes s text_null) eqn:E.
  - apply eqb_bytes_eq in E. tauto.
  - split; [destruct (pa s); discriminate|]. intros ->. discriminate E.
Qed.

Lemma unmarshal_text_fixed_err_iff s :
  unmarshal_text parse_amount_fixed s = Rerr <->
  s <> text_null /\ ~ (matches_amount_pattern s = true /\ fits_int64 s = true).
Proof.
  unfold unmarshal_text. destruct (eqb_bytes s text_null) eqn:E.
  - apply eqb_bytes_eq in E. split; [discriminate|]. intros [H _]. contradiction.
  - assert (Hn : s <> text_null) by (intros ->; discriminate E).
    rewrite <- parse_fixed_rejects_iff. destruct (parse_amount_fixed s); split; try discriminate; auto.
    intros [_ H]. discriminate.
Qed.

Lemma hd_mk_text neg i f : good_digits i -> Byte.eqb (hd x00 (mk_text neg i f)) b_quote = false.
Proof.
  intros [Hn Hd]. destruct neg; [reflexivity|]. destruct i as [|b r]; [contradiction|].
  cbn [all_digits forallb] in Hd. apply andb_true_iff in Hd. destruct Hd as [Hb _].
  cbn. apply (is_digit_not_special b Hb).
Qed.

Lemma json_quoted_roundtrip a : amount_ok a = true ->
  unmarshal_json parse_amount_fixed (quote (print_amount_fixed a)) = Rok a.
Proof.
  intros H. unfold unmarshal_json. rewrite unquote_quote.
  - apply unmarshal_text_fixed_iff. apply parse_fixed_iff, parse_print_fixed, H.
  - rewrite (print_fixed_shape a H). unfold mk_text. intros X.
    apply app_eq_nil in X. destruct X as [_ X]. apply app_eq_nil in X. destruct X as [X _].
    exact (digits_of_nonempty _ X).
Qed.

Lemma json_bare_roundtrip a : amount_ok a = true ->
  unmarshal_json parse_amount_fixed (print_amount_fixed a) = Rok a.
Proof.
  intros H. unfold unmarshal_json. rewrite unquote_noquote.
  - apply unmarshal_text_fixed_iff. apply parse_fixed_iff, parse_print_fixed, H.
  - rewrite (print_fixed_shape a H). apply hd_mk_text, print_shape_good.
Qed.

(* ------------------------------------------------------------------------------------------ *)
(* M. what is false of the code as shipped (witnesses by computation)                          *)
(* ------------------------------------------------------------------------------------------ *)
Definition t (s : string) : bytes := bs s.

Lemma shipped_accepts_plus_sign : parse_amount (t "+5") = Some (mkA 5 0) /\ matches_amount_pattern (t "+5") = false.
Proof. vm_compute. repeat split. Qed.
Lemma shipped_accepts_double_minus : parse_amount (t "--5") = Some (mkA 5 0) /\ matches_amount_pattern (t "--5") = false.
Proof. vm_compute. repeat split. Qed.
Lemma shipped_accepts_plus_in_fraction : parse_amount (t "1.+5") = Some (mkA 105 2) /\ matches_amount_pattern (t "1.+5") = false.
Proof. vm_compute. repeat split. Qed.
Lemma shipped_accepts_minus_in_fraction : parse_amount (t "1.-5") = Some (mkA 95 2) /\ matches_amount_pattern (t "1.-5") = false.
Proof. vm_compute. repeat split. Qed.
Lemma shipped_wraps_int64 :
  parse_amount (t "922337203685477580.75") = Some (mkA (-5) 2) /\
  matches_amount_pattern (t "922337203685477580.75") = true /\
  value_of (t "922337203685477580.75") = (92233720368547758075, 2%nat).
Proof. vm_compute. repeat split. Qed.
Lemma shipped_wraps_pow10 :
  parse_amount (t "1.0000000000000000000") = Some (mkA (-8446744073709551616) 19) /\
  value_of (t "1.0000000000000000000") = (10000000000000000000, 19%nat).
Proof. vm_compute. repeat split. Qed.
Lemma shipped_rejects_min_int64 :
  parse_amount (t "-9223372036854775808") = None /\
  matches_amount_pattern (t "-9223372036854775808") = true /\ fits_int64 (t "-9223372036854775808") = true.
Proof. vm_compute. repeat split. Qed.
Lemma shipped_min_int64_print :
  print_amount (mkA min64 0) = t "-9223372036854775808" /\ parse_amount (print_amount (mkA min64 0)) = None /\
  print_amount (mkA min64 1) = t "--922337203685477580.-8" /\ matches_amount_pattern (print_amount (mkA min64 1)) = false /\
  parse_amount (print_amount (mkA min64 1)) = Some (mkA (-72) 2).
Proof. vm_compute. repeat split. Qed.
Lemma shipped_parse_then_string_panics :
  parse_amount (t "0.0000000000000000000000000000000000000000000000000000000000000000") = Some (mkA 0 64) /\
  amount_string_panics (mkA 0 64) = true.
Proof. vm_compute. repeat split. Qed.
Lemma pct_without_symbol_accepted :
  parse_pct (t "0.16") = Some (mkA 16 2) /\ parse_pct_fixed (t "0.16") = Some (mkA 16 2) /\
  matches_pct_pattern (t "0.16") = false /\
  parse_pct (t "") = Some (mkA 0 0) /\ parse_pct_fixed (t "") = Some (mkA 0 0) /\ matches_pct_pattern (t "") = false.
Proof. vm_compute. repeat split. Qed.
Lemma quoted_null_accepted :
  unmarshal_json parse_amount (quote text_null) = Rnull /\ unmarshal_json parse_amount_fixed (quote text_null) = Rnull /\
  matches_amount_pattern text_null = false.
Proof. vm_compute. repeat split. Qed.
(* the repaired functions on the same witnesses *)
Lemma fixed_on_witnesses :
  parse_amount_fixed (t "+5") = None /\ parse_amount_fixed (t "--5") = None /\
  parse_amount_fixed (t "1.+5") = None /\ parse_amount_fixed (t "1.-5") = None /\
  parse_amount_fixed (t "922337203685477580.75") = None /\
  parse_amount_fixed (t "1.0000000000000000000") = None /\
  parse_amount_fixed (t "-9223372036854775808") = Some (mkA min64 0) /\
  print_amount_fixed (mkA min64 1) = t "-922337203685477580.8" /\
  parse_amount_fixed (t "-922337203685477580.8") = Some (mkA min64 1).
Proof. vm_compute. repeat split. Qed.

(* ------------------------------------------------------------------------------------------ *)
(* N. MinimalString                                                                            *)
(* ------------------------------------------------------------------------------------------ *)
Lemma trz_app a b : trim_right_zeros (a ++ b) =
  match trim_right_zeros b with [] => trim_right_zeros a | t => a ++ t end.
Proof.
  induction a as [|x a IH]; cbn [app trim_right_zeros].
  - destruct (trim_right_zeros b); reflexivity.
  - rewrite IH. destruct (trim_right_zeros b) as [|y t] eqn:E; [reflexivity|].
    destruct a; reflexivity.
Qed.

Lemma trz_decomp f : exists k, f = trim_right_zeros f ++ zeros k.
Proof.
  induction f as [|x f [k Hk]]; cbn [trim_right_zeros].
  - exists 0%nat. reflexivity.
  - destruct (trim_right_zeros f) as [|y t] eqn:E.
    + destruct (Byte.eqb x b_zero) eqn:Ex.
      * apply byte_eqb_eq in Ex. subst x. exists (S k). cbn [app] in *. rewrite Hk at 1. reflexivity.
      * exists k. cbn [app] in *. rewrite Hk at 1. reflexivity.
    + exists k. cbn [app] in *. rewrite Hk at 1. reflexivity.
Qed.

Lemma trz_last f : trim_right_zeros f = [] \/ Byte.eqb (last (trim_right_zeros f) x00) b_zero = false.
Proof.
  induction f as [|x f IH]; cbn [trim_right_zeros]; [left; reflexivity|].
  destruct (trim_right_zeros f) as [|y t] eqn:E.
  - destruct (Byte.eqb x b_zero) eqn:Ex; [left; reflexivity|right; exact Ex].
  - right. destruct IH as [IH|IH]; [discriminate|]. exact IH.
Qed.

Definition minimal_frac (f : option bytes) : option bytes :=
  match f with
  | None => None
  | Some f => match trim_right_zeros f with [] => None | t => Some t end
  end.

Lemma contains_dot_nodot s : nodot s = true -> contains_dot s = false.
Proof.
  induction s as [|x s IH]; cbn; auto. intros H. apply andb_true_iff in H. destruct H as [H1 H2].
  destruct (Byte.eqb x b_dot); [discriminate|]. cbn. auto.
Qed.

Lemma last_app_cons (a : bytes) x t d : last (a ++ x :: t) d = last (x :: t) d.
Proof. induction a as [|y a IH]; [reflexivity|]. cbn [app]. rewrite <- IH. destruct (a ++ x :: t) eqn:E; [destruct a; discriminate|reflexivity]. Qed.

Lemma minimal_of_mk_text neg i f : good_text i f ->
  minimal_of_text (mk_text neg i f) = mk_text neg i (minimal_frac f).
Proof.
  intros [Hi Hf]. unfold minimal_of_text. destruct f as [f|]; cbn [minimal_frac].
  - assert (C : contains_dot (mk_text neg i (Some f)) = true).
    { unfold mk_text, contains_dot. rewrite !existsb_app. cbn [frac_text existsb]. rewrite byte_eqb_refl.
      cbn [orb]. rewrite !orb_true_r. reflexivity. }
    rewrite C. unfold mk_text. cbn [frac_text]. rewrite app_assoc. rewrite trz_app.
    assert (D : trim_right_zeros (b_dot :: f) = b_dot :: trim_right_zeros f).
    { cbn [trim_right_zeros]. destruct (trim_right_zeros f); reflexivity. }
    rewrite D. rewrite <- app_assoc.
    destruct (trim_right_zeros f) as [|y t] eqn:E.
    + unfold trim_suffix_dot. cbn [frac_text].
      destruct (sign_text neg ++ i ++ [b_dot]) eqn:E2; [destruct (sign_text neg); destruct i; discriminate|].
      rewrite <- E2. rewrite app_assoc, last_last, removelast_last, byte_eqb_refl, app_nil_r. reflexivity.
    + unfold trim_suffix_dot. cbn [frac_text].
      destruct (sign_text neg ++ i ++ b_dot :: y :: t) eqn:E2; [destruct (sign_text neg); destruct i; discriminate|].
      rewrite <- E2. rewrite app_assoc, last_app_cons.
      assert (L : Byte.eqb (last (b_dot :: y :: t) x00) b_dot = false).
      { change (last (b_dot :: y :: t) x00) with (last (y :: t) x00).
        destruct (trz_decomp f) as [k Hk]. rewrite E in Hk.
        assert (A : all_digits (y :: t) = true).
        { destruct Hf as [_ Hd]. rewrite Hk, all_digits_app in Hd. apply andb_true_iff in Hd. apply Hd. }
        assert (In (last (y :: t) x00) (y :: t)) as Hin.
        { destruct (@exists_last _ (y :: t)) as (l' & z & ->); [discriminate|]. rewrite last_last. apply in_or_app. right. left. reflexivity. }
        unfold all_digits in A. rewrite forallb_forall in A. apply (is_digit_not_special _ (A _ Hin)). }
      rewrite L. reflexivity.
  - unfold mk_text. cbn [frac_text]. rewrite app_nil_r.
    rewrite contains_dot_nodot; [reflexivity|]. apply nodot_sign_digits, Hi.
Qed.

Lemma minimal_frac_good i f : good_text i f -> good_text i (minimal_frac f).
Proof.
  intros [Hi Hf]. split; [exact Hi|]. destruct f as [f|]; cbn [minimal_frac]; [|exact I].
  destruct (trim_right_zeros f) as [|y t] eqn:E; [exact I|].
  split; [discriminate|]. destruct (trz_decomp f) as [k Hk]. rewrite E in Hk.
  destruct Hf as [_ Hd]. rewrite Hk, all_digits_app in Hd. apply andb_true_iff in Hd. apply Hd.
Qed.

(* the digits dropped are zeros: the value is unchanged *)
Lemma minimal_frac_value neg i f : exists k,
  text_value neg i f = text_value neg i (minimal_frac f) * pow10 k /\
  length (frac_digits f) = (length (frac_digits (minimal_frac f)) + k)%nat.
Proof.
  unfold text_value. destruct f as [f|]; cbn [minimal_frac frac_digits].
  - destruct (trz_decomp f) as [k Hk]. exists k.
    assert (V : value_of_digits (i ++ f) = value_of_digits (i ++ trim_right_zeros f) * pow10 k).
    { rewrite Hk at 1. rewrite app_assoc, vod_app, vod_zeros, length_zeros. lia. }
    assert (L : length f = (length (trim_right_zeros f) + k)%nat).
    { rewrite Hk at 1. rewrite app_length, length_zeros. reflexivity. }
    destruct (trim_right_zeros f) as [|y t] eqn:E; cbn [frac_digits]; rewrite V; split; auto; destruct neg; lia.
  - exists 0%nat. rewrite pow10_0. split; [destruct neg; lia|reflexivity].
Qed.

Lemma minimal_string_fixed_spec a : amount_ok a = true ->
  matches_amount_pattern (minimal_string_fixed a) = true /\
  Qeq (toQ (amount_of (minimal_string_fixed a))) (toQ a) /\
  (snd (value_of (minimal_string_fixed a)) = 0%nat \/
   Byte.eqb (last (minimal_string_fixed a) x00) b_zero = false).
Proof.
  intros H. unfold minimal_string_fixed. rewrite (print_fixed_shape a H).
  pose proof (print_shape_good (val a) (exp a)) as [G L].
  rewrite (minimal_of_mk_text _ _ _ G).
  pose proof (minimal_frac_good _ _ G) as G'.
  split; [apply matches_mk_text, G'|].
  split.
  - rewrite amount_of_mk_text by exact G'. apply toQ_eq_iff. cbn [val exp].
    destruct (minimal_frac_value (val a <? 0) (digits_of (Z.abs (val a) / pow10 (exp a))) (print_frac (val a) (exp a)))
      as (k & V & Lk).
    rewrite print_shape_value in V. rewrite L in Lk.
    set (T := text_value _ _ (minimal_frac _)) in *. set (e' := length (frac_digits (minimal_frac _))) in *.
    clearbody T e'. rewrite Lk, pow10_add, V. ring.
  - rewrite value_of_mk_text by exact G'. cbn [snd].
    unfold print_frac. destruct (Nat.eqb (exp a) 0); cbn [minimal_frac frac_digits]; [left; reflexivity|].
    set (f := pad_left (exp a) (digits_of (Z.abs (val a) mod pow10 (exp a)))).
    destruct (trz_last f) as [E|E].
    + rewrite E. left. reflexivity.
    + destruct (trim_right_zeros f) as [|y t] eqn:E2; [left; reflexivity|]. right.
      unfold mk_text. cbn [frac_text]. rewrite app_assoc, last_app_cons. exact E.
Qed.

Lemma minimal_string_shipped_eq_fixed a : amount_ok a = true -> val a <> min64 -> minimal_string a = minimal_string_fixed a.
Proof. intros H Hm. unfold minimal_string, minimal_string_fixed. rewrite (print_shipped_eq_fixed a H Hm). reflexivity. Qed.
