(* Order facts of the num.Amount model: rounding half away from zero is monotone, so reducing
   precision never reverses the order of two amounts; it is idempotent; its error is at most half
   a unit of the target precision.  Used by Props/C05.v. *)
From Coq Require Import ZArith QArith Lia.
From Verif Require Import Base.Rha Base.RhaProofs Num.Amount Num.AmountProofs.
Open Scope Z_scope.
Ltac Zify.zify_post_hook ::= Z.div_mod_to_equations.

Lemma rha_monotone n m d : 0 < d -> n <= m -> rha n d <= rha m d.
Proof.
  intros Hd Hnm. unfold rha.
  destruct (0 <=? n) eqn:E1; destruct (0 <=? m) eqn:E2; try lia.
  - apply Z.div_le_mono; lia.
  - assert (0 <= (2 * - n + d) / (2 * d)) by (apply Z.div_pos; lia).
    assert (0 <= (2 * m + d) / (2 * d)) by (apply Z.div_pos; lia). lia.
  - assert ((2 * - m + d) / (2 * d) <= (2 * - n + d) / (2 * d)) by (apply Z.div_le_mono; lia). lia.
Qed.

Lemma rha_half_unit n d : 0 < d -> Z.abs (2 * (n - rha n d * d)) <= d.
Proof. intros Hd. exact (proj1 (rha_spec n d Hd)). Qed.

Lemma rha_sign n d : 0 < d -> 0 <= n -> 0 <= rha n d.
Proof.
  intros Hd Hn. replace 0 with (rha 0 d).
  - apply rha_monotone; assumption.
  - apply rha_exact with (k := 0); lia.
Qed.

Lemma rescale_idempotent a e : rescale (rescale a e) e = rescale a e.
Proof. apply rescale_same, rescale_exp. Qed.

(* two amounts of one precision: rescaling keeps their order (weakly) *)
Lemma rescale_monotone_same_exp a b e :
  exp a = exp b -> val a <= val b -> val (rescale a e) <= val (rescale b e).
Proof.
  intros He Hv. unfold rescale. rewrite <- He.
  destruct (Nat.ltb e (exp a)); [|destruct (Nat.ltb (exp a) e)]; cbn [val].
  - apply rha_monotone; [apply pow10_pos | exact Hv].
  - apply Z.mul_le_mono_nonneg_r; [pose proof (pow10_pos (e - exp a)); lia | exact Hv].
  - exact Hv.
Qed.

(* the rounding error of a precision reduction is at most half a unit of the new precision *)
Lemma rescale_down_error a e : (e <= exp a)%nat ->
  Z.abs (2 * (val a - val (rescale a e) * pow10 (exp a - e))) <= pow10 (exp a - e).
Proof.
  intros Hle. unfold rescale.
  destruct (Nat.ltb e (exp a)) eqn:E1; cbn [val].
  - apply rha_half_unit, pow10_pos.
  - apply Nat.ltb_ge in E1. assert (exp a = e) by lia. subst e.
    rewrite Nat.ltb_irrefl. rewrite Nat.sub_diag. change (pow10 0) with 1. lia.
Qed.

Lemma rescale_sign a e : 0 <= val a -> 0 <= val (rescale a e).
Proof.
  intros Hv. unfold rescale.
  destruct (Nat.ltb e (exp a)); [|destruct (Nat.ltb (exp a) e)]; cbn [val].
  - apply rha_sign; [apply pow10_pos | exact Hv].
  - pose proof (pow10_pos (e - exp a)). nia.
  - exact Hv.
Qed.

(* adding a non-negative amount never decreases, whatever the precisions *)
Lemma add_monotone a b : 0 <= val b -> val a <= val (add a b).
Proof. intros Hb. unfold add. cbn [val]. pose proof (rescale_sign b (exp a) Hb). lia. Qed.

Example order_premises_met :
  let a := mkA 12345 3 in let b := mkA 12355 3 in
  exp a = exp b /\ val a <= val b /\ val (rescale a 2) = 1235 /\ val (rescale b 2) = 1236.
Proof. vm_compute. repeat split; discriminate. Qed.

(* ---------- compare is the rational order: a total order on denotations ---------- *)
Lemma compare_range a b : compare a b = -1 \/ compare a b = 0 \/ compare a b = 1.
Proof.
  unfold compare. destruct (_ <? _); [left; reflexivity|].
  destruct (_ <? _); [right; right; reflexivity | right; left; reflexivity].
Qed.

(* compare is determined by the denotations alone *)
Lemma compare_compat a a' b b' :
  Qeq (toQ a) (toQ a') -> Qeq (toQ b) (toQ b') -> compare a b = compare a' b'.
Proof.
  intros Ha Hb.
  destruct (compare_spec a b) as (L & E & G). destruct (compare_spec a' b') as (L' & E' & G').
  destruct (compare_range a b) as [C|[C|C]]; rewrite C; symmetry.
  - apply L'. rewrite <- Ha, <- Hb. apply L, C.
  - apply E'. rewrite <- Ha, <- Hb. apply E, C.
  - apply G'. rewrite <- Ha, <- Hb. apply G, C.
Qed.

Lemma compare_antisym a b : compare b a = - compare a b.
Proof.
  destruct (compare_spec a b) as (L & E & G). destruct (compare_spec b a) as (L' & E' & G').
  destruct (compare_range a b) as [C|[C|C]]; rewrite C.
  - apply G', L, C.
  - apply E'. symmetry. apply E, C.
  - apply L', G, C.
Qed.

Lemma compare_refl a : compare a a = 0.
Proof. apply (compare_spec a a). reflexivity. Qed.

Lemma compare_lt_trans a b c : compare a b = -1 -> compare b c = -1 -> compare a c = -1.
Proof.
  intros H1 H2. apply (compare_spec a c).
  apply Qlt_trans with (toQ b); [apply (compare_spec a b), H1 | apply (compare_spec b c), H2].
Qed.

Lemma compare_eq_trans a b c : compare a b = 0 -> compare b c = 0 -> compare a c = 0.
Proof.
  intros H1 H2. apply (compare_spec a c).
  transitivity (toQ b); [apply (compare_spec a b), H1 | apply (compare_spec b c), H2].
Qed.

(* raising the precision of either operand never changes the outcome: no decimals are dropped *)
Lemma compare_rescale_up a b e e' :
  (exp a <= e)%nat -> (exp b <= e')%nat -> compare (rescale a e) (rescale b e') = compare a b.
Proof. intros Ha Hb. apply compare_compat; apply rescale_lossless; assumption. Qed.

(* the extra decimals of the second operand decide: b = a + one unit of a finer precision is larger *)
Lemma compare_sees_finer_decimals a n : compare a (mkA (val a * pow10 (S n) + 1) (exp a + S n)) = -1.
Proof.
  apply (compare_spec a _). unfold Qlt, toQ. cbn [Qnum Qden val exp]. rewrite !pos_pow10.
  rewrite pow10_add. pose proof (pow10_pos (exp a)). pose proof (pow10_pos (S n)). nia.
Qed.
