(* Implementation-faithful model of num.Amount / num.Percentage (num/amount.go, num/percentage.go):
   the Go statements in their order, int64 arithmetic wrapping (wrap64) on every integer step,
   IEEE-754 binary64 (Flocq's executable binary_float 53 1024, round to nearest even) on every
   float64 step, math.Round = round to the nearest integral float, halves away from zero.
   Go's int64(f) is implementation-defined for NaN, +-Inf and values outside int64: Undefined.
   Amount values are int64 (callers pass -2^63 <= val < 2^63); exponents are uint32 in Go and nat
   here (the uint32 wrap of exp+increase in Upscale is not modelled: exponents stay far below 2^32).
   No proofs in this file (Num/AmountExact.v proves impl = spec inside the domain). *)
From Coq Require Import ZArith Bool.
From Flocq Require Import Core BinarySingleNaN.
From Verif Require Import Base.Int64 Base.Rha Num.Amount.
Open Scope Z_scope.

(* ---------- float64 ---------- *)
Definition prec53 : Prec_gt_0 53 := eq_refl.
Definition emax1024 : Prec_lt_emax 53 1024 := eq_refl.
#[global] Existing Instance prec53.
#[global] Existing Instance emax1024.

Definition f64 : Set := binary_float 53 1024.
(* float64(z) for an int64 z: nearest even *)
Definition f64_of_int (z : Z) : f64 := binary_normalize 53 1024 prec53 emax1024 mode_NE z 0 false.
Definition f64_mul (x y : f64) : f64 := Bmult mode_NE x y.
Definition f64_div (x y : f64) : f64 := Bdiv mode_NE x y.
(* math.Round *)
Definition f64_round (x : f64) : f64 := Bnearbyint mode_NA x.
(* int64(f): truncation; NaN, +-Inf, out of range: implementation-defined in Go *)
Definition int64_of_f64 (x : f64) : option Z :=
  if is_finite x then (let t := Btrunc x in if fits64 t then Some t else None) else None.

(* ---------- int64 ---------- *)
(* intPow(10, e): out := 1; for e times: out *= 10 (wrapping) *)
Fixpoint intpow_loop (out : Z) (e : nat) : Z :=
  match e with O => out | S e' => intpow_loop (wrap64 (out * 10)) e' end.
Definition intpow10 (e : nat) : Z := intpow_loop 1 e.

Inductive impl_result := Defined (a : amount) | Undefined.

Definition bind (r : impl_result) (f : amount -> impl_result) : impl_result :=
  match r with Defined a => f a | Undefined => Undefined end.

(* Amount{int64(math.Round(v)), e} *)
Definition rounded (v : f64) (e : nat) : impl_result :=
  match int64_of_f64 (f64_round v) with Some z => Defined (mkA z e) | None => Undefined end.

(* ---------- Amount ---------- *)
Definition impl_rescale (a : amount) (e : nat) : impl_result :=
  if Nat.ltb e (exp a) then
    rounded (f64_div (f64_of_int (val a)) (f64_of_int (intpow10 (exp a - e)))) e
  else if Nat.ltb (exp a) e then
    Defined (mkA (wrap64 (val a * intpow10 (e - exp a))) e)
  else Defined a.

Definition impl_add (a b : amount) : impl_result :=
  bind (impl_rescale b (exp a)) (fun b' => Defined (mkA (wrap64 (val a + val b')) (exp a))).
Definition impl_sub (a b : amount) : impl_result :=
  bind (impl_rescale b (exp a)) (fun b' => Defined (mkA (wrap64 (val a - val b')) (exp a))).

Definition impl_mul (a b : amount) : impl_result :=
  rounded (f64_div (f64_mul (f64_of_int (val a)) (f64_of_int (val b))) (f64_of_int (intpow10 (exp b)))) (exp a).

Definition impl_div (a b : amount) : impl_result :=
  rounded (f64_div (f64_of_int (wrap64 (val a * intpow10 (exp b)))) (f64_of_int (val b))) (exp a).

(* Split(x int): int is 64 bits wide *)
Definition impl_split (a : amount) (x : Z) : option (amount * amount) :=
  match impl_div a (mkA (wrap64 x) 0) with
  | Defined a2 =>
    match bind (impl_mul a2 (mkA (wrap64 (x - 1)) 0)) (impl_sub a) with
    | Defined a3 => Some (a2, a3)
    | Undefined => None
    end
  | Undefined => None
  end.

Definition impl_compare (a b : amount) : option Z :=
  let e := Nat.max (exp a) (exp b) in
  match impl_rescale a e, impl_rescale b e with
  | Defined x, Defined y => Some (if val x <? val y then -1 else if val y <? val x then 1 else 0)
  | _, _ => None
  end.
Definition impl_equals (a b : amount) : option bool :=
  match impl_compare a b with Some c => Some (c =? 0) | None => None end.

Definition impl_rescale_up (a : amount) (e : nat) : impl_result :=
  if Nat.ltb (exp a) e then impl_rescale a e else Defined a.
Definition impl_rescale_down (a : amount) (e : nat) : impl_result :=
  if Nat.ltb e (exp a) then impl_rescale a e else Defined a.
Definition impl_rescale_range (a : amount) (lo hi : nat) : impl_result :=
  bind (impl_rescale_up a lo) (fun x => impl_rescale_down x hi).
Definition impl_match_precision (a b : amount) : impl_result := impl_rescale_up a (exp b).
Definition impl_upscale (a : amount) (n : nat) : impl_result := impl_rescale a (exp a + n).
Definition impl_downscale (a : amount) (n : nat) : impl_result := impl_rescale a (exp a - n).
Definition impl_negate (a : amount) : impl_result := Defined (mkA (wrap64 (- val a)) (exp a)).
Definition impl_abs (a : amount) : impl_result := if val a <? 0 then impl_negate a else Defined a.

(* ---------- Percentage ---------- *)
Definition impl_factor (p : amount) : impl_result := impl_add p (mkA 1 0).
Definition impl_remove (a p : amount) : impl_result := bind (impl_factor p) (impl_div a).
Definition impl_pct_of (p a : amount) : impl_result := impl_mul a p.
Definition impl_pct_from (p a : amount) : impl_result :=
  bind (bind (impl_factor p) (impl_div a)) (impl_sub a).
Definition impl_pct_from_amount (a : amount) : impl_result :=
  bind (impl_rescale a (exp a + 2)) (fun x => impl_div x (mkA 100 0)).
Definition impl_pct_amount (p : amount) : impl_result :=
  bind (impl_mul p (mkA 100 0)) (fun x => impl_rescale x (exp p - 2)).

(* ---------- the property's magnitude domain, as boolean guards ----------
   operands and the exact intermediate below 2^52 in magnitude, divisors non-zero, and the power
   of ten the float path divides by at most 10^63 (intPow(10, e) overflows int64 from e = 19 on,
   harmlessly up to e = 63; it is 0 from e = 64 on and the quotient is Inf or NaN) *)
Definition in_domain_mul (a b : amount) : bool :=
  small52 (val a) && small52 (val b) && small52 (val a * val b) && Nat.leb (exp b) 63.
Definition in_domain_div (a b : amount) : bool :=
  negb (val b =? 0) && small52 (val b) && small52 (val a * pow10 (exp b)).
Definition in_domain_rescale (a : amount) (e : nat) : bool :=
  if Nat.ltb e (exp a) then small52 (val a) && Nat.leb (exp a - e) 63
  else small52 (val a * pow10 (e - exp a)).
Definition in_domain_add (a b : amount) : bool := small52 (val a) && in_domain_rescale b (exp a).
Definition in_domain_sub (a b : amount) : bool := small52 (val a) && in_domain_rescale b (exp a).
Definition in_domain_compare (a b : amount) : bool :=
  in_domain_rescale a (Nat.max (exp a) (exp b)) && in_domain_rescale b (Nat.max (exp a) (exp b)).
Definition in_domain_split (a : amount) (x : Z) : bool :=
  small52 (val a) && in_domain_div a (mkA x 0) && in_domain_mul (div a (mkA x 0)) (mkA (x - 1) 0).
Definition in_domain_negate (a : amount) : bool := small52 (val a).
Definition in_domain_factor (p : amount) : bool := in_domain_add p (mkA 1 0).
Definition in_domain_remove (a p : amount) : bool := in_domain_factor p && in_domain_div a (factor p).
Definition in_domain_pct_of (p a : amount) : bool := in_domain_mul a p.
Definition in_domain_pct_from (p a : amount) : bool := small52 (val a) && in_domain_remove a p.
Definition in_domain_pct_from_amount (a : amount) : bool :=
  in_domain_rescale a (exp a + 2) && in_domain_div (rescale a (exp a + 2)) (mkA 100 0).
Definition in_domain_pct_amount (p : amount) : bool :=
  in_domain_mul p (mkA 100 0) && in_domain_rescale (mul p (mkA 100 0)) (exp p - 2).
