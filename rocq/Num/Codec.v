(* Text codec of num.Amount / num.Percentage (num/amount.go: String, MinimalString,
   AmountFromString, UnmarshalText, UnmarshalJSON, unquote, intPow; num/percentage.go:
   PercentageFromString, String, Amount, PercentageFromAmount, UnmarshalText/JSON).

   Three parts, no proofs in this file:
     1. the code AS SHIPPED (print_amount, parse_amount, ...), statement by statement, int64
        arithmetic as wrap64;
     2. the PROPOSED REPAIR (fixes/C06-1-strict-amount-parse.diff): print_amount_fixed,
        parse_amount_fixed; the property theorems of Props/C06.v are about these, the shipped
        functions keep `_refuted` theorems;
     3. the specification side: the two published patterns as a direct matcher, the value a
        pattern member denotes, and "fits in 64 bits".
   Percentages use the exact operations of Num/Amount.v (pct_from_amount, pct_amount), i.e. the
   float64 path of Multiply/Divide/Rescale is abstracted exactly as in C05 (valid below 2^52). *)
From Coq Require Import ZArith List Bool Strings.Byte.
From Verif Require Import Base.Wire Base.Int64 Base.Rha Num.Amount.
Import ListNotations.
Open Scope Z_scope.

(* ------------------------------------------------------------------------------------------ *)
(* bytes                                                                                       *)
(* ------------------------------------------------------------------------------------------ *)
Definition b_minus : byte := x2d.   (* - *)
Definition b_plus  : byte := x2b.   (* + *)
Definition b_dot   : byte := x2e.   (* . *)
Definition b_pct   : byte := x25.   (* % *)
Definition b_quote : byte := x22.   (* double quote *)
Definition b_zero  : byte := x30.   (* 0 *)

Definition text_NA : bytes := [x4e; x41].               (* NA *)
Definition text_null : bytes := [x6e; x75; x6c; x6c].   (* null *)

Definition digit_byte (d : Z) : byte := byte_of_Z (48 + d).     (* 0 <= d <= 9 *)
Definition dval (b : byte) : Z := bZ b - 48.
Definition all_digits (s : bytes) : bool := forallb is_digit s.
Definition is_nil (s : bytes) : bool := match s with [] => true | _ => false end.

(* a string of ASCII digits read as a decimal number (most significant first) *)
Fixpoint vod_acc (s : bytes) (acc : Z) : Z :=
  match s with [] => acc | b :: r => vod_acc r (acc * 10 + dval b) end.
Definition value_of_digits (s : bytes) : Z := vod_acc s 0.

(* decimal digits of z >= 0, most significant first, no leading zeros (the single digit 0 for 0) *)
Fixpoint digits_aux (fuel : nat) (z : Z) (acc : bytes) : bytes :=
  match fuel with
  | O => acc
  | S f => let acc' := digit_byte (z mod 10) :: acc in
           if z <? 10 then acc' else digits_aux f (z / 10) acc'
  end.
Definition digits_of (z : Z) : bytes := digits_aux (S (Z.to_nat (Z.log2 z))) z [].

Definition zeros (n : nat) : bytes := repeat b_zero n.
Definition pad_left (w : nat) (s : bytes) : bytes := zeros (w - length s) ++ s.

(* fmt %d *)
Definition print_int (z : Z) : bytes :=
  if z <? 0 then b_minus :: digits_of (- z) else digits_of z.
(* fmt %0*d: zero padding to the width, the sign counts towards the width *)
Definition print_int_padded (w : nat) (z : Z) : bytes :=
  if z <? 0 then b_minus :: pad_left (w - 1) (digits_of (- z)) else pad_left w (digits_of z).

(* intPow(10, e): repeated int64 multiplication *)
Fixpoint int_pow10 (e : nat) : Z :=
  match e with O => 1 | S e' => wrap64 (int_pow10 e' * 10) end.

Definition wrapu64 (z : Z) : Z := z mod two64.     (* uint64(x) *)

(* ------------------------------------------------------------------------------------------ *)
(* 1. the code as shipped                                                                      *)
(* ------------------------------------------------------------------------------------------ *)

(* Amount.String panics (integer divide by zero) when intPow(10, exp) wraps to 0: 64 <= exp <= 1000 *)
Definition amount_string_panics (a : amount) : bool :=
  negb (Nat.eqb (exp a) 0) && negb (Nat.ltb 1000 (exp a)) && (int_pow10 (exp a) =? 0).

(* Amount.String *)
Definition print_amount (a : amount) : bytes :=
  if Nat.eqb (exp a) 0 then print_int (val a)
  else if Nat.ltb 1000 (exp a) then text_NA
  else
    let p := int_pow10 (exp a) in
    let neg := val a <? 0 in
    let v := if neg then wrap64 (- val a) else val a in
    let v1 := wrap64 (Z.quot v p) in
    let v2 := wrap64 (v - wrap64 (v1 * p)) in
    (if neg then [b_minus] else []) ++ print_int v1 ++ [b_dot] ++ print_int_padded (exp a) v2.

(* strings.TrimRight(s, "0") *)
Fixpoint trim_right_zeros (s : bytes) : bytes :=
  match s with
  | [] => []
  | b :: r => match trim_right_zeros r with
              | [] => if Byte.eqb b b_zero then [] else [b]
              | t => b :: t
              end
  end.
Definition trim_suffix_dot (s : bytes) : bytes :=
  match s with
  | [] => []
  | _ => if Byte.eqb (last s x00) b_dot then removelast s else s
  end.
Definition contains_dot (s : bytes) : bool := existsb (fun b => Byte.eqb b b_dot) s.
(* Amount.MinimalString *)
Definition minimal_of_text (s : bytes) : bytes :=
  if contains_dot s then trim_suffix_dot (trim_right_zeros s) else s.
Definition minimal_string (a : amount) : bytes := minimal_of_text (print_amount a).

(* strconv.ParseUint(s, 10, 64) followed by ParseInt's range test, as one option:
   digits only (underscores are accepted by strconv only for base 0), not empty *)
Definition parse_uint (s : bytes) : option Z :=
  if is_nil s then None else if all_digits s then Some (value_of_digits s) else None.
(* strconv.ParseInt(s, 10, 64): optional leading + or -, range error beyond int64 *)
Definition parse_int64 (s : bytes) : option Z :=
  match s with
  | [] => None
  | b :: r =>
    let neg := Byte.eqb b b_minus in
    let t := if Byte.eqb b b_plus || neg then r else s in
    match parse_uint t with
    | None => None
    | Some u => if neg then (if u <=? two63 then Some (- u) else None)
                else (if u <? two63 then Some u else None)
    end
  end.

Definition has_minus (s : bytes) : bool :=        (* strings.HasPrefix(s, "-") *)
  match s with b :: _ => Byte.eqb b b_minus | [] => false end.
Definition trim_minus (s : bytes) : bytes :=      (* strings.TrimPrefix(s, "-") *)
  match s with b :: r => if Byte.eqb b b_minus then r else s | [] => [] end.
(* strings.Split(s, "."): never empty *)
Fixpoint split_dot (s : bytes) : list bytes :=
  match s with
  | [] => [[]]
  | b :: r => if Byte.eqb b b_dot then [] :: split_dot r
              else match split_dot r with
                   | h :: t => (b :: h) :: t
                   | [] => [[b]]
                   end
  end.

(* AmountFromString *)
Definition parse_amount (s : bytes) : option amount :=
  let n := has_minus s in
  match split_dot (trim_minus s) with
  | [x0] =>
    match parse_int64 x0 with
    | None => None
    | Some v => Some (mkA (if n then wrap64 (- v) else v) 0)
    end
  | [x0; x1] =>
    match parse_int64 x0 with
    | None => None
    | Some v =>
      match parse_int64 x1 with
      | None => None
      | Some v2 =>
        let e := length x1 in
        let v' := wrap64 (wrap64 (v * int_pow10 e) + v2) in
        Some (mkA (if n then wrap64 (- v') else v') e)
      end
    end
  | _ => None
  end.

(* result of UnmarshalText / UnmarshalJSON: the receiver is left untouched for "null" *)
Inductive read := Rnull | Rok (a : amount) | Rerr.

Definition unmarshal_text (pa : bytes -> option amount) (s : bytes) : read :=
  if eqb_bytes s (text_null) then Rnull
  else match pa s with Some a => Rok a | None => Rerr end.

(* unquote: strips the quotes only when len > 2 and both ends are quotes *)
Definition unquote (s : bytes) : bytes :=
  if Nat.ltb 2 (length s) && Byte.eqb (hd x00 s) b_quote && Byte.eqb (last s x00) b_quote
  then removelast (tl s) else s.

Definition unmarshal_json (pa : bytes -> option amount) (s : bytes) : read :=
  unmarshal_text pa (unquote s).

(* PercentageFromString over a given amount parser *)
Definition parse_pct_with (pa : bytes -> option amount) (s : bytes) : option amount :=
  match s with
  | [] => Some (mkA 0 0)
  | _ => if Byte.eqb (last s x00) b_pct
         then option_map pct_from_amount (pa (removelast s))
         else pa s
  end.
(* Percentage.String over a given amount printer *)
Definition print_pct_with (pr : amount -> bytes) (p : amount) : bytes := pr (pct_amount p) ++ [b_pct].

Definition parse_pct := parse_pct_with parse_amount.
Definition print_pct := print_pct_with print_amount.

(* ------------------------------------------------------------------------------------------ *)
(* 2. the proposed repair                                                                      *)
(* ------------------------------------------------------------------------------------------ *)
Definition max64 : Z := two63 - 1.
Definition min64 : Z := - two63.

(* Amount.String with the magnitude taken in uint64 *)
Definition amount_string_fixed_panics (a : amount) : bool :=
  negb (Nat.eqb (exp a) 0) && negb (Nat.ltb 1000 (exp a)) && (wrapu64 (int_pow10 (exp a)) =? 0).
Definition print_amount_fixed (a : amount) : bytes :=
  if Nat.eqb (exp a) 0 then print_int (val a)
  else if Nat.ltb 1000 (exp a) then text_NA
  else
    let p := wrapu64 (int_pow10 (exp a)) in
    let neg := val a <? 0 in
    let u := wrapu64 (if neg then wrap64 (- val a) else val a) in
    let u1 := u / p in
    let u2 := wrapu64 (u - wrapu64 (u1 * p)) in
    (if neg then [b_minus] else []) ++ digits_of u1 ++ [b_dot] ++ pad_left (exp a) (digits_of u2).

Definition minimal_string_fixed (a : amount) : bytes := minimal_of_text (print_amount_fixed a).

Definition has_plus (s : bytes) : bool :=
  match s with b :: _ => Byte.eqb b b_plus | [] => false end.
Definition has_sign (s : bytes) : bool := has_plus s || has_minus s.

(* AmountFromString, repaired: the major part is read with its sign, a '+' or a second sign is
   refused after the ParseInt calls, more than 18 decimals are refused, the scaled sum is
   range-checked before it is computed *)
Definition parse_amount_fixed (s : bytes) : option amount :=
  let n := has_minus s in
  match split_dot s with
  | [x0] =>
    match parse_int64 x0 with
    | None => None
    | Some v => if has_plus x0 then None else Some (mkA v 0)
    end
  | [x0; x1] =>
    match parse_int64 x0 with
    | None => None
    | Some v =>
      if has_plus x0 then None else
      match parse_int64 x1 with
      | None => None
      | Some v2 =>
        if has_sign x1 then None else
        let e := length x1 in
        if Nat.ltb 18 e then None else
        let p := int_pow10 e in
        let w := if n then - v2 else v2 in
        if (Z.quot max64 p <? v) || (v <? Z.quot min64 p) then None else
        let hi := v * p in
        if ((0 <? w) && (max64 - w <? hi)) || ((w <? 0) && (hi <? min64 - w)) then None
        else Some (mkA (hi + w) e)
      end
    end
  | _ => None
  end.

Definition parse_pct_fixed := parse_pct_with parse_amount_fixed.
Definition print_pct_fixed := print_pct_with print_amount_fixed.

(* ------------------------------------------------------------------------------------------ *)
(* 3. specification: the published patterns  ^\-?[0-9]+(\.[0-9]+)?$  and  ...%$               *)
(* ------------------------------------------------------------------------------------------ *)
Fixpoint span_digits (s : bytes) : bytes * bytes :=
  match s with
  | [] => ([], [])
  | b :: r => if is_digit b then let (d, t) := span_digits r in (b :: d, t) else ([], s)
  end.

(* [0-9]+(\.[0-9]+)? *)
Definition matches_unsigned (s : bytes) : bool :=
  let (i, t) := span_digits s in
  negb (is_nil i) &&
  match t with
  | [] => true
  | c :: f => Byte.eqb c b_dot && negb (is_nil f) && all_digits f
  end.
Definition matches_amount_pattern (s : bytes) : bool := matches_unsigned (trim_minus s).
Definition matches_pct_pattern (s : bytes) : bool :=
  match s with
  | [] => false
  | _ => Byte.eqb (last s x00) b_pct && matches_amount_pattern (removelast s)
  end.

(* the number a member of the amount pattern denotes: (n, e) stands for n / 10^e, where n is the
   digit string with the point removed read as a decimal integer (negated after '-') and e is
   the number of digits after the point *)
Definition value_of (s : bytes) : Z * nat :=
  let (i, t) := span_digits (trim_minus s) in
  let f := tl t in
  let n := value_of_digits (i ++ f) in
  ((if has_minus s then - n else n), length f).
Definition amount_of (s : bytes) : amount := mkA (fst (value_of s)) (snd (value_of s)).
(* representable as an Amount: the scaled integer fits in int64, at most 18 decimals *)
Definition fits_int64 (s : bytes) : bool :=
  fits64 (fst (value_of s)) && Nat.leb (snd (value_of s)) 18.

(* amounts in the property's domain *)
Definition amount_ok (a : amount) : bool := fits64 (val a) && Nat.leb (exp a) 18.
