(* Specification-level model of num.Amount / num.Percentage (num/amount.go, num/percentage.go,
   num/validation.go): exact integer arithmetic, rounding half away from zero exactly where the
   Go code rounds, result precision as the Go code chooses it.  No proofs in this file. *)
From Coq Require Import ZArith List Bool.
From Verif Require Import Base.Rha.
Import ListNotations.
Open Scope Z_scope.

Record amount := mkA { val : Z; exp : nat }.

Definition rescale (a : amount) (e : nat) : amount :=
  if Nat.ltb e (exp a) then mkA (rha (val a) (pow10 (exp a - e))) e
  else if Nat.ltb (exp a) e then mkA (val a * pow10 (e - exp a)) e
  else a.

Definition add (a b : amount) : amount := mkA (val a + val (rescale b (exp a))) (exp a).
Definition sub (a b : amount) : amount := mkA (val a - val (rescale b (exp a))) (exp a).
Definition mul (a b : amount) : amount := mkA (rha (val a * val b) (pow10 (exp b))) (exp a).
(* division by a zero amount is outside every theorem's domain (Go: int64 of ±Inf/NaN) *)
Definition div (a b : amount) : amount := mkA (rhaS (val a * pow10 (exp b)) (val b)) (exp a).

Definition split (a : amount) (x : Z) : amount * amount :=
  let a2 := div a (mkA x 0) in
  let a3 := mul a2 (mkA (x - 1) 0) in
  (a2, sub a a3).

Definition compare (a b : amount) : Z :=
  let e := Nat.max (exp a) (exp b) in
  let x := val (rescale a e) in
  let y := val (rescale b e) in
  if x <? y then -1 else if y <? x then 1 else 0.
Definition equals (a b : amount) : bool := compare a b =? 0.

Definition rescale_up (a : amount) (e : nat) : amount := if Nat.ltb (exp a) e then rescale a e else a.
Definition rescale_down (a : amount) (e : nat) : amount := if Nat.ltb e (exp a) then rescale a e else a.
Definition rescale_range (a : amount) (lo hi : nat) : amount := rescale_down (rescale_up a lo) hi.
Definition match_precision (a b : amount) : amount := rescale_up a (exp b).
Definition upscale (a : amount) (n : nat) : amount := rescale a (exp a + n).
Definition downscale (a : amount) (n : nat) : amount := rescale a (exp a - n).
Definition negate (a : amount) : amount := mkA (- val a) (exp a).
Definition abs (a : amount) : amount := if val a <? 0 then negate a else a.
Definition is_zero (a : amount) : bool := val a =? 0.

(* percentages: the stored amount is the fraction (16% = 0.16) *)
Definition factor (p : amount) : amount := add p (mkA 1 0).
Definition remove (a p : amount) : amount := div a (factor p).
Definition pct_of (p a : amount) : amount := mul a p.
Definition pct_from (p a : amount) : amount := sub a (div a (factor p)).
Definition pct_from_amount (a : amount) : amount := div (rescale a (exp a + 2)) (mkA 100 0).
Definition pct_amount (p : amount) : amount := rescale (mul p (mkA 100 0)) (exp p - 2).

(* ThresholdRule.compare: operators 0 >, 1 >=, 2 <, 3 <=, other: not zero (cmp <> 0) *)
Definition threshold (op : Z) (thr v : amount) : bool :=
  let c := compare v thr in
  if op =? 0 then c =? 1
  else if op =? 1 then (c =? 1) || (c =? 0)
  else if op =? 2 then c =? -1
  else if op =? 3 then (c =? -1) || (c =? 0)
  else (c =? -1) || (c =? 1).
