(* C14 - bill/invoice_scenarios.go removePreviousScenarioNotes, bounds- and nil-aware.

     for _, sn := range ss.Notes() {
       n := org.NoteFromScenario(sn)
       for i, n2 := range inv.Notes {              -- range evaluates inv.Notes ONCE: fixed length,
         if n.SameAs(n2) {                         -- same backing array; n2.Key: nil n2 panics
           inv.Notes = append(inv.Notes[:i], inv.Notes[i+1:]...)   -- i+1 > len(inv.Notes) panics
         }
       }
     }

   inv.Notes is modelled as its backing array (list of pointers, None = nil) plus the current
   length `cur`; append(s[:i], s[i+1:]...) moves cells i+1..cur-1 one place left IN PLACE (the
   ranged copy of the slice header still sees the array, so later iterations read shifted and
   stale cells) and sets len = cur-1.  `shipped` is the code as is, `repaired` the proposed
   replacement (build a new list, skipping nil entries when comparing).  No proofs here. *)
From Coq Require Import List ZArith Bool.
From Verif Require Import Crash.Result.
Import ListNotations.
Local Open Scope nat_scope.

Record note := mkNote { n_key : Z; n_code : Z; n_src : Z; n_text : Z }.

(* org.Note.SameAs *)
Definition same_as (n n2 : note) : bool :=
  (n_key n =? n_key n2)%Z && (n_code n =? n_code n2)%Z && (n_src n =? n_src n2)%Z.

(* copy(arr[i:], arr[i+1:cur]) *)
Definition shift_left (arr : list (option note)) (i cur : nat) : list (option note) :=
  firstn i arr ++ firstn (cur - S i) (skipn (S i) arr) ++ skipn (cur - 1) arr.

Fixpoint inner (n : note) (idx : list nat) (arr : list (option note)) (cur : nat)
  : result (list (option note) * nat) unit :=
  match idx with
  | [] => Ok (arr, cur)
  | i :: r =>
    match nth i arr None with
    | None => Panic                                 (* n2.Key on a nil *Note *)
    | Some n2 =>
      if same_as n n2 then
        if S i <=? cur then inner n r (shift_left arr i cur) (cur - 1)
        else Panic                                  (* slice bounds out of range [i+1:cur] *)
      else inner n r arr cur
    end
  end.

Fixpoint outer (sns : list note) (arr : list (option note)) (cur : nat)
  : result (list (option note) * nat) unit :=
  match sns with
  | [] => Ok (arr, cur)
  | n :: r => bind (inner n (seq 0 cur) arr cur) (fun st => outer r (fst st) (snd st))
  end.

(* as shipped: the resulting inv.Notes *)
Definition remove_notes_shipped (sns : list note) (notes : list (option note)) : result (list (option note)) unit :=
  bind (outer sns notes (length notes)) (fun st => Ok (firstn (snd st) (fst st))).

(* repaired: keep every entry that matches no scenario note (nil entries are kept for validation) *)
Definition keep (sns : list note) (n2 : option note) : bool :=
  match n2 with
  | None => true
  | Some x => negb (existsb (fun n => same_as n x) sns)
  end.
Definition remove_notes_repaired (sns : list note) (notes : list (option note)) : result (list (option note)) unit :=
  Ok (filter (keep sns) notes).

(* witness: the same scenario note present twice (defect 12) *)
Definition wit_note := mkNote 1 2 3 4.
Definition wit_dup_notes : list (option note) := [Some wit_note; Some wit_note].
