(* C14 - errors.go wrapError / Error.WithCause, envelope.go Envelope.Verify's error paths and
   internal/cli/errors.go wrapError, as functions on a small universe of Go error values.

   Keys: the nine documented keys are numbered 1..9 (no-document, validation, calculation,
   marshal, unmarshal, signature, digest, internal, unknown-schema).
   `repaired = false` is the code as shipped: Envelope.Verify returns
   errors.New("no signatures to verify") - a plain error - when there are no signatures;
   `repaired = true` returns ErrSignature.WithReason(...) instead.  No proofs here. *)
From Coq Require Import List ZArith Bool.
Import ListNotations.
Local Open Scope Z_scope.

Inductive goerr :=
| EGobl (key : Z) (cause : option goerr)       (* *gobl.Error *)
| EUnknownSchema                                (* the sentinel schema.ErrUnknownSchema *)
| EWrapped (inner : goerr)                      (* fmt.Errorf("...%w", inner) *)
| EValidation (fields : list (Z * goerr))       (* validation.Errors *)
| EFields (fields : list (Z * goerr))           (* gobl.FieldErrors *)
| EPlain (id : Z).                              (* errors.New / any other error type *)

Definition K_NO_DOCUMENT := 1. Definition K_VALIDATION := 2. Definition K_CALCULATION := 3.
Definition K_MARSHAL := 4.     Definition K_UNMARSHAL := 5.  Definition K_SIGNATURE := 6.
Definition K_DIGEST := 7.      Definition K_INTERNAL := 8.   Definition K_UNKNOWN_SCHEMA := 9.
Definition documented (k : Z) : bool := (1 <=? k) && (k <=? 9).

(* errors.Is(err, schema.ErrUnknownSchema) for a value that is not a *gobl.Error *)
Fixpoint is_unknown_schema (e : goerr) : bool :=
  match e with
  | EUnknownSchema => true
  | EWrapped i => is_unknown_schema i
  | _ => false
  end.

(* (e *Error) WithCause(err) for e = NewError(k) *)
Definition with_cause (k : Z) (err : goerr) : goerr :=
  match err with
  | EGobl _ _ => err
  | EValidation fs => EGobl k (Some (EFields fs))
  | _ => EGobl k (Some err)
  end.

(* errors.go wrapError *)
Definition wrap_error (err : option goerr) : option goerr :=
  match err with
  | None => None
  | Some e =>
    match e with
    | EGobl _ _ => Some e
    | _ => if is_unknown_schema e then Some (EGobl K_UNKNOWN_SCHEMA None)
           else match e with
                | EValidation _ => Some (with_cause K_VALIDATION e)
                | _ => Some (with_cause K_INTERNAL e)
                end
    end
  end.

Definition is_gobl (e : goerr) : bool := match e with EGobl k _ => documented k | _ => false end.

(* the precondition under which the library itself creates *gobl.Error values *)
Definition top_documented (e : goerr) : Prop := match e with EGobl k _ => documented k = true | _ => True end.

(* envelope.go Verify: nsigs = len(e.Signatures); sig_errs = the failures of verifySignature *)
Definition index_errs (l : list goerr) : list (Z * goerr) := combine (map Z.of_nat (seq 0 (length l))) l.
Definition envelope_verify (repaired : bool) (nsigs : nat) (sig_errs : list goerr) : option goerr :=
  match nsigs with
  | O => Some (if repaired then EGobl K_SIGNATURE (Some (EPlain 1)) else EPlain 1)
  | S _ => match sig_errs with
           | [] => None
           | _ => Some (with_cause K_VALIDATION (EValidation [(0, EValidation (index_errs sig_errs))]))
           end
  end.

(* internal/cli/errors.go wrapError: the record printed by the command line *)
Record cli_error := mkCli { ce_code : Z; ce_key : option Z; ce_has_fields : bool }.
Definition cli_wrap (code : Z) (e : goerr) : cli_error :=
  match e with
  | EGobl k c => mkCli code (Some k) (match c with Some (EFields _) => true | _ => false end)
  | _ => mkCli code None false
  end.
