(* C14 - head/header.go Header.ValidateWithContext with head/stamps.go detectDuplicateStamps,
   Stamp.In and head/link.go detectDuplicateLinks, LinkByKey, nil-aware.

   Header.Stamps and Header.Links are slices of pointers; JSON `[null]` gives a nil entry.
   validation.ValidateStruct validates every field (errors are collected, a panic in any field
   rule aborts everything); per field the rules run in order up to the first error, then every
   non-nil element's own Validate runs (the validation library skips nil pointers itself).
   (Found by the correspondence run: for a signed envelope an invalid stamp masks the nil panic.)
   `guarded = false`: as shipped; `guarded = true`: repaired (nil entries skipped by the duplicate
   detectors).  No proofs here. *)
From Coq Require Import List ZArith Bool.
From Verif Require Import Crash.Result.
Import ListNotations.

Record stamp := mkStamp { s_prv : Z; s_val : Z }.        (* 0 = empty string/key *)
Record link := mkLink { l_key : Z; l_url_ok : bool; l_url : Z }.
Record header := mkHeader {
  h_uuid_ok : bool; h_digest_present : bool;
  h_stamps : list (option stamp); h_links : list (option link) }.

Inductive herr := FieldErr.     (* some validation error (messages are not modelled) *)

Section HeaderValidate.
  Variable guarded : bool.

  (* Stamp.In: for _, r := range ss { if s.Provider == r.Provider { return true } } *)
  Fixpoint stamp_in (s : option stamp) (set : list (option stamp)) : result bool herr :=
    match set with
    | [] => Ok false
    | r :: t =>
      match s, r with
      | Some a, Some b => if (s_prv a =? s_prv b)%Z then Ok true else stamp_in s t
      | _, _ => Panic                                 (* s.Provider or r.Provider on nil *)
      end
    end.

  Fixpoint dup_stamps (values set : list (option stamp)) : result unit herr :=
    match values with
    | [] => Ok tt
    | v :: r =>
      match v, guarded with
      | None, true => dup_stamps r set                (* repaired: if v == nil { continue } *)
      | _, _ =>
        match stamp_in v set with
        | Panic => Panic
        | Err e => Err e
        | Ok true => Err FieldErr                     (* duplicate stamp *)
        | Ok false => dup_stamps r (set ++ [v])
        end
      end
    end.

  (* LinkByKey *)
  Fixpoint link_by_key (list : list (option link)) (k : Z) : result (option link) herr :=
    match list with
    | [] => Ok None
    | None :: t => Panic                              (* l.Key on nil *)
    | Some l :: t => if (l_key l =? k)%Z then Ok (Some l) else link_by_key t k
    end.

  Fixpoint dup_links (values set : list (option link)) : result unit herr :=
    match values with
    | [] => Ok tt
    | None :: r => if guarded then dup_links r set else Panic     (* v.Key on nil *)
    | Some v :: r =>
      match link_by_key set (l_key v) with
      | Panic => Panic
      | Err e => Err e
      | Ok (Some _) => Err FieldErr                   (* duplicate key *)
      | Ok None => dup_links r (set ++ [Some v])
      end
    end.

  (* element validation: nil pointers are skipped by the validation library *)
  Definition stamp_valid (s : option stamp) : bool :=
    match s with None => true | Some a => negb (s_prv a =? 0)%Z && negb (s_val a =? 0)%Z end.
  Definition link_valid (l : option link) : bool :=
    match l with None => true | Some a => negb (l_key a =? 0)%Z && negb (l_url a =? 0)%Z && l_url_ok a end.

  (* rules of the Stamps field, in order:
       validation.When(!signed, validation.Empty)  -- unsigned: must be empty; signed: When's (empty)
                                                      else-branch validates the ELEMENTS first, and an
                                                      invalid element ends the field's rules there
       DetectDuplicateStamps
     then the elements' own validation *)
  Definition stamps_field (signed : bool) (ss : list (option stamp)) : result unit herr :=
    if (if signed then negb (forallb stamp_valid ss)
        else negb (match ss with [] => true | _ => false end))
    then Err FieldErr
    else match dup_stamps ss [] with
         | Ok _ => if forallb stamp_valid ss then Ok tt else Err FieldErr
         | r => r
         end.
  Definition links_field (ls : list (option link)) : result unit herr :=
    match ls with
    | [] => Ok tt
    | _ => match dup_links ls [] with
           | Ok _ => if forallb link_valid ls then Ok tt else Err FieldErr
           | r => r
           end
    end.

  Definition is_panic {A E} (r : result A E) : bool := match r with Panic => true | _ => false end.
  Definition is_ok {A E} (r : result A E) : bool := match r with Ok _ => true | _ => false end.

  Definition validate_header (signed : bool) (h : header) : result unit herr :=
    let r1 := stamps_field signed (h_stamps h) in
    let r2 := links_field (h_links h) in
    if is_panic r1 || is_panic r2 then Panic
    else if h_uuid_ok h && h_digest_present h && is_ok r1 && is_ok r2 then Ok tt
    else Err FieldErr.
End HeaderValidate.

(* witnesses (defect 11): "links":[null]; signed envelope with "stamps":[{...},null] *)
Definition wit_links_null : header := mkHeader true true [] [None].
Definition wit_stamps_null : header := mkHeader true true [Some (mkStamp 1 1); None] [].
