(* C14 - proofs about the nil/bounds-aware cores (Crash/*.v). *)
From Coq Require Import List ZArith Bool Lia.
From Verif Require Import Crash.Result Num.Amount Crash.ScenarioNotes Crash.ItemPrice Crash.HeaderValidate Crash.WrapError.
Import ListNotations.

Lemma bind_np {A B E} (r : result A E) (k : A -> result B E) :
  r <> Panic -> (forall a, k a <> Panic) -> bind r k <> Panic.
Proof. destruct r; cbn; auto; discriminate. Qed.

(* ---------------- removePreviousScenarioNotes ---------------- *)
Theorem remove_notes_shipped_panics :
  exists sns notes, remove_notes_shipped sns notes = Panic.
Proof. exists [wit_note], wit_dup_notes. vm_compute. reflexivity. Qed.

Theorem remove_notes_repaired_total sns notes : remove_notes_repaired sns notes <> Panic.
Proof. discriminate. Qed.

Theorem remove_notes_repaired_spec sns notes :
  exists r, remove_notes_repaired sns notes = Ok r /\
    (forall x, In (Some x) r -> forall n, In n sns -> same_as n x = false) /\
    (forall e, In e notes -> keep sns e = true -> In e r) /\
    (forall e, In e r -> In e notes).
Proof.
  eexists. split; [reflexivity|]. repeat split.
  - intros x Hx n Hn. apply filter_In in Hx as [_ Hk]. cbn in Hk.
    apply negb_true_iff in Hk.
    destruct (same_as n x) eqn:E; auto.
    assert (existsb (fun n0 => same_as n0 x) sns = true) by (apply existsb_exists; eauto). congruence.
  - intros e He Hk. apply filter_In. auto.
  - intros e He. apply filter_In in He. tauto.
Qed.

(* on a list without nil entries in which no scenario note occurs, both versions leave it alone *)
Lemma inner_nomatch n : forall idx arr cur,
  (forall i, In i idx -> exists x, nth i arr None = Some x /\ same_as n x = false) ->
  inner n idx arr cur = Ok (arr, cur).
Proof.
  induction idx as [|i r IH]; intros arr cur H; cbn; auto.
  destruct (H i (or_introl eq_refl)) as (x & -> & ->). apply IH. intros j Hj. apply H. right; auto.
Qed.

(* ---------------- calculateLineItemPrice ---------------- *)
Theorem item_price_shipped_panics :
  exists defs it cur rates, it_price it <> None /\ calc_item_price defs false it cur rates = Panic.
Proof.
  exists wit_defs, wit_item, 978%Z, []. split; [discriminate|]. vm_compute. reflexivity.
Qed.

Section ItemPriceProofs.
  Variable defs : code -> option nat.

  Lemma zero_of_np c : zero_of defs true c <> Panic.
  Proof. unfold zero_of. destruct (defs c); discriminate. Qed.

  Lemma match_rate_np rates from to : match_rate true rates from to <> Panic.
  Proof.
    induction rates as [|[x|] r IH]; cbn; auto; try discriminate.
    destruct (_ && _); auto; discriminate.
  Qed.

  Lemma rate_convert_np x a : rate_convert defs true x a <> Panic.
  Proof. unfold rate_convert. apply bind_np; [apply zero_of_np|discriminate]. Qed.

  Lemma convert_np rates from to a : convert defs true rates from to a <> Panic.
  Proof.
    unfold convert. destruct (from =? to)%Z; [discriminate|].
    apply bind_np; [apply match_rate_np|]. intros [x|]; [|discriminate].
    apply bind_np; [apply rate_convert_np|discriminate].
  Qed.

  Lemma alt_loop_np alts cur nap : alt_loop defs true alts cur nap <> Panic.
  Proof.
    induction alts as [|[ap|] r IH]; cbn; auto; try discriminate.
    destruct (ca_cur ap =? cur)%Z; auto. apply bind_np; [apply zero_of_np|discriminate].
  Qed.

  Theorem item_price_guarded_total it cur rates :
    it_price it <> None -> calc_item_price defs true it cur rates <> Panic.
  Proof.
    intros Hp. unfold calc_item_price. destruct (it_price it) as [p|]; [|congruence].
    apply bind_np; [apply zero_of_np|]. intros z.
    destruct (_ || _); [discriminate|].
    apply bind_np; [apply alt_loop_np|]. intros [it'|]; [discriminate|].
    apply bind_np; [apply convert_np|]. intros [a|]; discriminate.
  Qed.

  (* the repair changes nothing where the shipped code does not panic *)
  Lemma bind_cons {A B E} (r r' : result A E) (k k' : A -> result B E) :
    (r <> Panic -> r' = r) -> (forall a, k a <> Panic -> k' a = k a) ->
    bind r k <> Panic -> bind r' k' = bind r k.
  Proof.
    intros Hr Hk Hb. destruct r; cbn in *; try congruence.
    - rewrite Hr by discriminate. cbn. auto.
    - rewrite Hr by discriminate. reflexivity.
  Qed.

  Lemma zero_of_cons c : zero_of defs false c <> Panic -> zero_of defs true c = zero_of defs false c.
  Proof. unfold zero_of. destruct (defs c); congruence. Qed.

  Lemma match_rate_cons rates from to :
    match_rate false rates from to <> Panic -> match_rate true rates from to = match_rate false rates from to.
  Proof.
    induction rates as [|[x|] r IH]; cbn; auto; try congruence.
    destruct (_ && _); auto.
  Qed.

  Lemma rate_convert_cons x a :
    rate_convert defs false x a <> Panic -> rate_convert defs true x a = rate_convert defs false x a.
  Proof. unfold rate_convert. apply bind_cons; [apply zero_of_cons|auto]. Qed.

  Lemma convert_cons rates from to a :
    convert defs false rates from to a <> Panic ->
    convert defs true rates from to a = convert defs false rates from to a.
  Proof.
    unfold convert. destruct (from =? to)%Z; auto.
    apply bind_cons; [apply match_rate_cons|]. intros [x|]; auto.
    apply bind_cons; [apply rate_convert_cons|auto].
  Qed.

  Lemma alt_loop_cons alts cur nap :
    alt_loop defs false alts cur nap <> Panic ->
    alt_loop defs true alts cur nap = alt_loop defs false alts cur nap.
  Proof.
    induction alts as [|[ap|] r IH]; cbn; auto; try congruence.
    destruct (ca_cur ap =? cur)%Z; auto. apply bind_cons; [apply zero_of_cons|auto].
  Qed.

  Theorem item_price_repair_conservative it cur rates :
    calc_item_price defs false it cur rates <> Panic ->
    calc_item_price defs true it cur rates = calc_item_price defs false it cur rates.
  Proof.
    unfold calc_item_price. destruct (it_price it) as [p|]; [|congruence].
    apply bind_cons; [apply zero_of_cons|]. intros z.
    destruct (_ || _); auto.
    apply bind_cons; [apply alt_loop_cons|]. intros [it'|]; auto.
    apply bind_cons; [apply convert_cons|]. intros [a|]; auto.
  Qed.
End ItemPriceProofs.

(* ---------------- header validation ---------------- *)
Theorem header_links_null_panics : validate_header false false wit_links_null = Panic.
Proof. vm_compute. reflexivity. Qed.

Theorem header_stamps_null_panics : validate_header false true wit_stamps_null = Panic.
Proof. vm_compute. reflexivity. Qed.

Definition no_nil {A} (l : list (option A)) : Prop := Forall (fun x => x <> None) l.

Lemma stamp_in_np s set : s <> None -> no_nil set -> stamp_in s set <> Panic.
Proof.
  intros Hs Hn. induction Hn as [|r t Hr Ht IH]; cbn; [discriminate|].
  destruct s as [a|]; [|congruence]. destruct r as [b|]; [|congruence].
  destruct (s_prv a =? s_prv b)%Z; auto; discriminate.
Qed.

Lemma dup_stamps_np values : forall set, no_nil set -> dup_stamps true values set <> Panic.
Proof.
  induction values as [|v r IH]; intros set Hn; cbn; [discriminate|].
  destruct v as [a|]; [|auto].
  pose proof (stamp_in_np (Some a) set ltac:(discriminate) Hn) as H.
  destruct (stamp_in (Some a) set) as [[|]| |]; try discriminate; try congruence.
  apply IH. apply Forall_app. split; auto. constructor; [discriminate|constructor].
Qed.

Lemma link_by_key_np set k : no_nil set -> link_by_key set k <> Panic.
Proof.
  intros Hn. induction Hn as [|r t Hr Ht IH]; cbn; [discriminate|].
  destruct r as [l|]; [|congruence]. destruct (l_key l =? k)%Z; auto; discriminate.
Qed.

Lemma dup_links_np values : forall set, no_nil set -> dup_links true values set <> Panic.
Proof.
  induction values as [|v r IH]; intros set Hn; cbn; [discriminate|].
  destruct v as [a|]; [|auto].
  pose proof (link_by_key_np set (l_key a) Hn) as H.
  destruct (link_by_key set (l_key a)) as [[|]| |]; try discriminate; try congruence.
  apply IH. apply Forall_app. split; auto. constructor; [discriminate|constructor].
Qed.

Theorem header_guarded_total signed h : validate_header true signed h <> Panic.
Proof.
  unfold validate_header.
  assert (is_panic (stamps_field true signed (h_stamps h)) = false) as ->.
  { unfold stamps_field. destruct (if signed then _ else _); [reflexivity|].
    pose proof (dup_stamps_np (h_stamps h) [] (Forall_nil _)) as H.
    destruct (dup_stamps true (h_stamps h) []); try congruence; cbn; auto.
    destruct (forallb _ _); reflexivity. }
  assert (is_panic (links_field true (h_links h)) = false) as ->.
  { unfold links_field. destruct (h_links h) as [|l ls] eqn:E; [reflexivity|]. rewrite <- E.
    pose proof (dup_links_np (h_links h) [] (Forall_nil _)) as H.
    destruct (dup_links true (h_links h) []); try congruence; cbn; auto.
    destruct (forallb _ _); reflexivity. }
  cbn. destruct (_ && _); discriminate.
Qed.

(* without nil entries the guards are never exercised: both versions agree *)
Lemma dup_stamps_same values : forall set, no_nil values ->
  dup_stamps true values set = dup_stamps false values set.
Proof.
  induction values as [|v r IH]; intros set Hn; cbn; auto.
  inversion Hn; subst. destruct v as [a|]; [|congruence].
  destruct (stamp_in (Some a) set) as [[|]| |]; auto.
Qed.

Lemma dup_links_same values : forall set, no_nil values ->
  dup_links true values set = dup_links false values set.
Proof.
  induction values as [|v r IH]; intros set Hn; cbn; auto.
  inversion Hn; subst. destruct v as [a|]; [|congruence].
  destruct (link_by_key set (l_key a)) as [[|]| |]; auto.
Qed.

Theorem header_repair_conservative signed h :
  no_nil (h_stamps h) -> no_nil (h_links h) ->
  validate_header true signed h = validate_header false signed h.
Proof.
  intros Hs Hl. unfold validate_header, stamps_field, links_field.
  rewrite (dup_stamps_same _ [] Hs). destruct (h_links h) eqn:E; [reflexivity|].
  rewrite <- E in *. rewrite (dup_links_same _ [] Hl). reflexivity.
Qed.

(* ---------------- wrapError ---------------- *)

Theorem wrap_error_total_proof e :
  top_documented e -> exists k c, wrap_error (Some e) = Some (EGobl k c) /\ documented k = true.
Proof.
  intros H. destruct e; cbn in *; eauto.
  destruct (is_unknown_schema e); cbn; eauto.
Qed.

Theorem wrap_error_nil_proof : wrap_error None = None.
Proof. reflexivity. Qed.

Theorem wrap_error_idem e : wrap_error (wrap_error e) = wrap_error e.
Proof.
  destruct e as [e|]; [|reflexivity]. destruct e; cbn; auto.
  destruct (is_unknown_schema e); reflexivity.
Qed.

Theorem verify_plain_error :
  exists n errs e, envelope_verify false n errs = Some e /\ is_gobl e = false.
Proof. exists 0%nat, [], (EPlain 1). split; reflexivity. Qed.

Theorem verify_structured n errs e :
  envelope_verify true n errs = Some e -> is_gobl e = true.
Proof.
  unfold envelope_verify. destruct n; [intros H; inversion H; reflexivity|].
  destruct errs; [discriminate|]. intros H; inversion H; reflexivity.
Qed.

Theorem verify_repair_conservative n errs : n <> 0%nat ->
  envelope_verify true n errs = envelope_verify false n errs.
Proof. destruct n; [congruence|reflexivity]. Qed.

Theorem cli_key_documented code e :
  top_documented e -> match ce_key (cli_wrap code e) with Some k => documented k = true | None => is_gobl e = false end.
Proof. destruct e; cbn; auto. Qed.
