(* C14 - bill/line_calculate.go calculateLineItemPrice with currency.Code.Def, currency.Convert,
   MatchExchangeRate and ExchangeRate.Convert, nil-aware.

   currency.Get(c) returns nil for a code that has no definition; Def.Zero() dereferences it.
   Entries of item.AltPrices and of the exchange rate list are pointers and may be nil
   ("alt_prices":[null], "exchange_rates":[null]).  `guarded = false` is the code as shipped;
   `guarded = true` the repaired code: unknown currency -> error, nil entries skipped.
   Amount arithmetic is Num/Amount.v's.  No proofs here. *)
From Coq Require Import List ZArith Bool.
From Verif Require Import Crash.Result Num.Amount.
Import ListNotations.

Definition code := Z.                      (* currency.Code; 0 = CodeEmpty *)
Record xrate := mkRate { x_from : code; x_to : code; x_amount : amount }.
Record cur_amount := mkCA { ca_cur : code; ca_val : amount }.
Record item := mkItem { it_cur : code; it_price : option amount; it_alt : list (option cur_amount) }.

Inductive price_err := UnknownCurrency | NoExchangeRate.

Section ItemPrice.
  Variable defs : code -> option nat.      (* currency.Get: Some subunits, or None = nil *)
  Variable guarded : bool.

  (* c.Def().Zero() *)
  Definition zero_of (c : code) : result amount price_err :=
    match defs c with
    | Some su => Ok (mkA 0 su)
    | None => if guarded then Err UnknownCurrency else Panic
    end.

  (* MatchExchangeRate (from <> to already established by the caller's control flow) *)
  Fixpoint match_rate (rates : list (option xrate)) (from to : code) : result (option xrate) price_err :=
    match rates with
    | [] => Ok None
    | None :: r => if guarded then match_rate r from to else Panic      (* rate.From on nil *)
    | Some x :: r => if (x_from x =? from)%Z && (x_to x =? to)%Z then Ok (Some x) else match_rate r from to
    end.

  (* ExchangeRate.Convert *)
  Definition rate_convert (x : xrate) (a : amount) : result amount price_err :=
    bind (zero_of (x_to x)) (fun z => Ok (rescale (mul (match_precision a z) (x_amount x)) (exp z))).

  (* currency.Convert *)
  Definition convert (rates : list (option xrate)) (from to : code) (a : amount) : result (option amount) price_err :=
    if (from =? to)%Z then Ok (Some a)
    else bind (match_rate rates from to) (fun m =>
           match m with
           | Some x => bind (rate_convert x a) (fun a' => Ok (Some a'))
           | None => Ok None
           end).

  Fixpoint alt_loop (alts : list (option cur_amount)) (cur : code) (nap : cur_amount)
    : result (option item) price_err :=
    match alts with
    | [] => Ok None
    | None :: r => if guarded then alt_loop r cur nap else Panic          (* ap.Currency on nil *)
    | Some ap :: r =>
      if (ca_cur ap =? cur)%Z
      then bind (zero_of (ca_cur ap)) (fun z =>
             Ok (Some (mkItem (ca_cur ap) (Some (match_precision (ca_val ap) z)) [Some nap])))
      else alt_loop r cur nap
    end.

  Definition calc_item_price (it : item) (cur : code) (rates : list (option xrate)) : result item price_err :=
    let icur := if (it_cur it =? 0)%Z then cur else it_cur it in
    match it_price it with
    | None => Panic                                   (* item.Price.MatchPrecision on nil: callers check *)
    | Some p =>
      bind (zero_of icur) (fun z =>
        let price := match_precision p z in
        if (it_cur it =? 0)%Z || (it_cur it =? cur)%Z
        then Ok (mkItem (it_cur it) (Some price) (it_alt it))
        else
          let nap := mkCA (it_cur it) price in
          bind (alt_loop (it_alt it) cur nap) (fun found =>
            match found with
            | Some it' => Ok it'
            | None =>
              bind (convert rates (it_cur it) cur price) (fun np =>
                match np with
                | None => Err NoExchangeRate
                | Some a => Ok (mkItem cur (Some a) [Some nap])
                end)
            end))
    end.
End ItemPrice.

(* witness: EUR (978) known with 2 subunits, item priced in an unknown currency 999 (defect 13) *)
Definition wit_defs (c : code) : option nat := if (c =? 978)%Z then Some 2%nat else None.
Definition wit_item : item := mkItem 999 (Some (mkA 1000 2)) [].
