(* C14 - outcome type of the nil/bounds-aware models: a Go function either returns a value,
   returns an error, or panics (nil dereference, slice bounds, failed type assertion). *)
Inductive result (A E : Type) := Ok (a : A) | Err (e : E) | Panic.
Arguments Ok {A E} a.
Arguments Err {A E} e.
Arguments Panic {A E}.

Definition bind {A B E} (r : result A E) (k : A -> result B E) : result B E :=
  match r with Ok a => k a | Err e => Err e | Panic => Panic end.
