(* C15 - proofs about the slice heap model (Conc/Slices.v). *)
From Coq Require Import List ZArith Bool Lia.
From Verif Require Import Conc.Slices.
Import ListNotations.
Local Open Scope nat_scope.

(* the heap only grows at the end: every component extends the original *)
Definition ext (h0 h : heap) : Prop :=
  (exists a, arrays h = arrays h0 ++ a) /\
  (exists s, scensets h = scensets h0 ++ s) /\
  (exists c, corrdefs h = corrdefs h0 ++ c).

(* a slice that can never be appended to in place inside a pre-existing array *)
Definition safe (h0 : heap) (s : slice) : Prop := length (arrays h0) <= arr s \/ cap s = 0.
Definition safe_cd (h0 : heap) (c : corrdef) : Prop :=
  safe h0 (cd_types c) /\ safe h0 (cd_exts c) /\ safe h0 (cd_stamps c).
(* objects allocated after h0 only hold safe slices *)
Definition fresh_ok (h0 h : heap) : Prop :=
  (forall p, length (scensets h0) <= p -> safe h0 (ss_list (get_ss h p))) /\
  (forall p, length (corrdefs h0) <= p -> safe_cd h0 (get_cd h p)).
Definition I (h0 h : heap) : Prop := ext h0 h /\ fresh_ok h0 h.

Lemma safe_nil h0 : safe h0 nil_slice.
Proof. right. reflexivity. Qed.

Lemma I_refl h0 : I h0 h0.
Proof.
  split.
  - repeat split; exists []; rewrite app_nil_r; reflexivity.
  - split; intros p Hp.
    + unfold get_ss. rewrite nth_overflow by lia. apply safe_nil.
    + unfold get_cd. rewrite nth_overflow by lia. repeat split; apply safe_nil.
Qed.

Lemma ext_preserved h0 h : ext h0 h -> preserved h0 h.
Proof.
  intros ((a & Ha) & (s & Hs) & (c & Hc)). unfold preserved. rewrite Ha, Hs, Hc.
  repeat split; rewrite firstn_app, Nat.sub_diag, firstn_all; cbn; apply app_nil_r.
Qed.

Lemma set_nth_ge_app {A} (l0 a : list A) n x :
  length l0 <= n -> set_nth n x (l0 ++ a) = l0 ++ set_nth (n - length l0) x a.
Proof.
  revert n; induction l0 as [|y l0 IH]; intros n H; cbn.
  - rewrite Nat.sub_0_r. reflexivity.
  - destruct n as [|n]; cbn in *; [lia|]. rewrite IH by lia. reflexivity.
Qed.

Lemma nth_set_nth {A} (l : list A) p q v d :
  nth q (set_nth p v l) d = v \/ nth q (set_nth p v l) d = nth q l d.
Proof.
  revert p q; induction l as [|y l IH]; intros p q.
  - right. destruct p; reflexivity.
  - destruct p, q; cbn; auto.
Qed.

Lemma nth_snoc {A} (l : list A) q v d :
  nth q (l ++ [v]) d = v \/ nth q (l ++ [v]) d = nth q l d.
Proof.
  destruct (Nat.lt_ge_cases q (length l)).
  - right. apply app_nth1. auto.
  - rewrite app_nth2 by lia. destruct (q - length l) as [|k]; cbn; auto.
    right. rewrite nth_overflow by lia. destruct k; reflexivity.
Qed.

(* ---- primitives ---- *)
Lemma I_write h0 h a i v : I h0 h -> length (arrays h0) <= a -> I h0 (write h a i v).
Proof.
  intros [((e & He) & Hs & Hc) Hf] Ha. split; [split; [|split]|]; cbn; auto.
  rewrite He, set_nth_ge_app by auto. eauto.
Qed.

Lemma I_write_many h0 vs : forall h a i, I h0 h -> length (arrays h0) <= a -> I h0 (write_many h a i vs).
Proof.
  induction vs as [|v vs IH]; intros h a i Hi Ha; cbn; auto.
  apply IH; auto. apply I_write; auto.
Qed.

Lemma I_alloc h0 h content c :
  I h0 h -> I h0 (fst (alloc h content c)) /\ safe h0 (snd (alloc h content c)).
Proof.
  intros [((e & He) & Hs & Hc) Hf]. split; [split; [split; [|split]|]|]; cbn; auto.
  - rewrite He, <- app_assoc. eauto.
  - left. cbn. rewrite He, app_length. lia.
Qed.

Lemma I_append1 h0 h s x :
  I h0 h -> safe h0 s -> I h0 (fst (append1 h s x)) /\ safe h0 (snd (append1 h s x)).
Proof.
  intros Hi Hs. unfold append1. destruct (len s <? cap s) eqn:E.
  - apply Nat.ltb_lt in E. assert (length (arrays h0) <= arr s) by (destruct Hs; [auto|lia]).
    cbn. split; [apply I_write; auto|left; auto].
  - apply I_alloc; auto.
Qed.

Lemma I_append_many h0 h s xs :
  I h0 h -> safe h0 s -> I h0 (fst (append_many h s xs)) /\ safe h0 (snd (append_many h s xs)).
Proof.
  intros Hi Hs. unfold append_many. destruct xs as [|x xs]; [cbn; auto|].
  destruct (len s + length (x :: xs) <=? cap s) eqn:E.
  - apply Nat.leb_le in E. cbn [length] in E.
    assert (length (arrays h0) <= arr s) by (destruct Hs; [auto|lia]).
    cbn [fst snd]. split; [apply I_write_many; auto|left; auto].
  - apply I_alloc; auto.
Qed.

(* ---- tag sets (repaired Merge) ---- *)
Lemma I_merge_loop h0 o idx : forall h nl,
  I h0 h -> safe h0 nl ->
  I h0 (fst (merge_loop h nl o idx)) /\ safe h0 (snd (merge_loop h nl o idx)).
Proof.
  induction idx as [|i r IH]; intros h nl Hi Hs; cbn; auto.
  destruct (has_key h nl (read_at h o i)); auto.
  destruct (append1 h nl (read_at h o i)) as [h' nl'] eqn:E.
  pose proof (I_append1 h0 h nl (read_at h o i) Hi Hs) as [H1 H2]. rewrite E in H1, H2. cbn in H1, H2.
  apply IH; auto.
Qed.

Lemma I_tagset_merge h0 h ts other : I h0 h -> I h0 (fst (tagset_merge true h ts other)).
Proof.
  intros Hi. unfold tagset_merge. destruct ts as [t|]; [|auto]. destruct other as [o|]; [|auto].
  destruct (negb (ts_schema t =? ts_schema o)%Z); [auto|].
  destruct (alloc h (read h (ts_list t)) (len (ts_list t) + len (ts_list o))) as [h1 nl] eqn:E.
  pose proof (I_alloc h0 h (read h (ts_list t)) (len (ts_list t) + len (ts_list o)) Hi) as [H1 H2].
  rewrite E in H1, H2. cbn in H1, H2.
  destruct (merge_loop h1 nl (ts_list o) (seq 0 (len (ts_list o)))) as [h2 nl'] eqn:E2.
  pose proof (I_merge_loop h0 (ts_list o) (seq 0 (len (ts_list o))) h1 nl H1 H2) as [H3 _].
  rewrite E2 in H3. exact H3.
Qed.

Lemma I_keys h0 h ts : I h0 h -> I h0 (fst (keys h ts)).
Proof. intros Hi. destruct ts; cbn [keys]; apply I_alloc; auto. Qed.

Lemma I_supported_tags h0 h r ads : I h0 h -> I h0 (fst (supported_tags true h r ads)).
Proof.
  intros Hi. unfold supported_tags.
  set (st0 := match r with Some rd => tagset_merge true h None (tagset_for (d_tags rd) INV) | None => (h, None) end).
  assert (I h0 (fst st0)) as H0 by (subst st0; destruct r; [apply I_tagset_merge|]; auto).
  destruct st0 as [h1 ts]. cbn in H0.
  assert (forall st, I h0 (fst st) ->
            I h0 (fst (fold_left (fun (st : heap * option tagset) a =>
                    tagset_merge true (fst st) (snd st) (tagset_for (d_tags a) INV)) ads st))) as HF.
  { induction ads as [|a ads IH]; intros st Hst; cbn; auto. apply IH. apply I_tagset_merge; auto. }
  specialize (HF (h1, ts) H0).
  destruct (fold_left _ ads (h1, ts)) as [h2 ts2]. apply I_keys. exact HF.
Qed.

(* ---- scenario sets ---- *)
Lemma I_new_ss h0 h v :
  I h0 h -> safe h0 (ss_list v) ->
  I h0 (fst (new_ss h v)) /\ length (scensets h0) <= snd (new_ss h v).
Proof.
  intros [(Ha & (e & He) & Hc) [Hf1 Hf2]] Hs. cbn. split; [split; [split; [|split]|split]|]; cbn; auto.
  - rewrite He, <- app_assoc. eauto.
  - intros p Hp. unfold get_ss; cbn. destruct (nth_snoc (scensets h) p v default_ss) as [-> | ->]; auto.
    apply Hf1; auto.
  - rewrite He, app_length. lia.
Qed.

Lemma I_set_ss h0 h p v :
  I h0 h -> length (scensets h0) <= p -> safe h0 (ss_list v) -> I h0 (set_ss h p v).
Proof.
  intros [(Ha & (e & He) & Hc) [Hf1 Hf2]] Hp Hs. split; [split; [|split]|split]; cbn; auto.
  - rewrite He, set_nth_ge_app by auto. eauto.
  - intros q Hq. unfold get_ss; cbn.
    destruct (nth_set_nth (scensets h) p q v default_ss) as [-> | ->]; auto. apply Hf1; auto.
Qed.

Lemma I_scenset_merge h0 ss others : forall h,
  I h0 h -> length (scensets h0) <= ss -> I h0 (scenset_merge h ss others).
Proof.
  induction others as [|o r IH]; intros h Hi Hp; cbn; auto.
  destruct (negb (ss_schema (get_ss h o) =? ss_schema (get_ss h ss))%Z); auto.
  destruct (append_many h (ss_list (get_ss h ss)) (read h (ss_list (get_ss h o)))) as [h1 l] eqn:E.
  assert (safe h0 (ss_list (get_ss h ss))) as Hs by (destruct Hi as [_ [Hf _]]; apply Hf; auto).
  pose proof (I_append_many h0 h _ (read h (ss_list (get_ss h o))) Hi Hs) as [H1 H2].
  rewrite E in H1, H2. cbn in H1, H2.
  apply IH; auto. apply I_set_ss; auto.
Qed.

Lemma I_notes h0 h ss : I h0 h -> I h0 (fst (notes h ss)).
Proof.
  intros Hi. unfold notes.
  destruct (alloc h [] 0) as [h1 n0] eqn:E.
  pose proof (I_alloc h0 h [] 0 Hi) as [H1 H2]. rewrite E in H1, H2. cbn in H1, H2.
  assert (forall cs st, I h0 (fst st) -> safe h0 (snd st) ->
            I h0 (fst (fold_left (fun (st : heap * slice) c => append1 (fst st) (snd st) c) cs st))) as HF.
  { induction cs as [|c cs IH]; intros st Hst Hss; cbn; auto.
    destruct (I_append1 h0 (fst st) (snd st) c Hst Hss). apply IH; auto. }
  apply HF; auto.
Qed.

Lemma I_scenario_summary h0 h r ads : I h0 h -> I h0 (fst (scenario_summary h r ads)).
Proof.
  intros Hi. unfold scenario_summary, new_scenario_set.
  destruct (alloc h [] 0) as [ha l] eqn:Ea.
  pose proof (I_alloc h0 h [] 0 Hi) as [Ha1 Ha2]. rewrite Ea in Ha1, Ha2. cbn in Ha1, Ha2.
  destruct (new_ss ha (mkScenset INV l)) as [h1 ss] eqn:En.
  pose proof (I_new_ss h0 ha (mkScenset INV l) Ha1 Ha2) as [H1 H2]. rewrite En in H1, H2. cbn in H1, H2.
  set (h2 := match r with Some rd => scenset_merge h1 ss (d_scen rd) | None => h1 end).
  assert (I h0 h2) as Hh2 by (subst h2; destruct r; [apply I_scenset_merge|]; auto).
  assert (forall h, I h0 h -> I h0 (fold_left (fun h a => scenset_merge h ss (d_scen a)) ads h)) as HF.
  { induction ads as [|a ads IH]; intros hh Hh; cbn; auto. apply IH. apply I_scenset_merge; auto. }
  apply I_notes. apply HF. exact Hh2.
Qed.

(* ---- correction definitions ---- *)
Lemma I_new_cd h0 h v :
  I h0 h -> safe_cd h0 v -> I h0 (fst (new_cd h v)) /\ length (corrdefs h0) <= snd (new_cd h v).
Proof.
  intros [(Ha & Hs & (e & He)) [Hf1 Hf2]] Hv. cbn. split; [split; [split; [|split]|split]|]; cbn; auto.
  - rewrite He, <- app_assoc. eauto.
  - intros p Hp. unfold get_cd; cbn. destruct (nth_snoc (corrdefs h) p v default_cd) as [-> | ->]; auto.
    apply Hf2; auto.
  - rewrite He, app_length. lia.
Qed.

Lemma I_set_cd h0 h p v :
  I h0 h -> length (corrdefs h0) <= p -> safe_cd h0 v -> I h0 (set_cd h p v).
Proof.
  intros [(Ha & Hs & (e & He)) [Hf1 Hf2]] Hp Hv. split; [split; [|split]|split]; cbn; auto.
  - rewrite He, set_nth_ge_app by auto. eauto.
  - intros q Hq. unfold get_cd; cbn.
    destruct (nth_set_nth (corrdefs h) p q v default_cd) as [-> | ->]; auto. apply Hf2; auto.
Qed.

Lemma I_corr_merge h0 h c other :
  I h0 h -> length (corrdefs h0) <= c ->
  I h0 (fst (corr_merge h (Some c) other)) /\
  exists c', snd (corr_merge h (Some c) other) = Some c' /\ length (corrdefs h0) <= c'.
Proof.
  intros Hi Hc. unfold corr_merge. destruct other as [o|]; [|cbn; eauto].
  destruct (negb (cd_schema (get_cd h c) =? cd_schema (get_cd h o))%Z); [cbn; eauto|].
  set (h1 := if cd_copytax (get_cd h o) then _ else h).
  assert (I h0 h1) as H1.
  { subst h1. destruct (cd_copytax (get_cd h o)); auto. apply I_set_cd; auto.
    destruct Hi as [_ [_ Hf]]. apply (Hf c Hc). }
  assert (safe_cd h0 (get_cd h1 c)) as (S1 & S2 & S3) by (destruct H1 as [_ [_ Hf]]; apply Hf; auto).
  destruct (append_many h1 (cd_types (get_cd h1 c)) (read h1 (cd_types (get_cd h1 o)))) as [h2 ty] eqn:E2.
  pose proof (I_append_many h0 h1 _ (read h1 (cd_types (get_cd h1 o))) H1 S1) as [H2 T2].
  rewrite E2 in H2, T2. cbn in H2, T2.
  destruct (append_many h2 (cd_exts (get_cd h1 c)) (read h2 (cd_exts (get_cd h1 o)))) as [h3 ex] eqn:E3.
  pose proof (I_append_many h0 h2 _ (read h2 (cd_exts (get_cd h1 o))) H2 S2) as [H3 T3].
  rewrite E3 in H3, T3. cbn in H3, T3.
  destruct (append_many h3 (cd_stamps (get_cd h1 c)) (read h3 (cd_stamps (get_cd h1 o)))) as [h4 st] eqn:E4.
  pose proof (I_append_many h0 h3 _ (read h3 (cd_stamps (get_cd h1 o))) H3 S3) as [H4 T4].
  rewrite E4 in H4, T4. cbn in H4, T4.
  match goal with |- context [new_cd h4 ?v] =>
    pose proof (I_new_cd h0 h4 v H4 (conj T2 (conj T3 T4))) as [H5 P5];
    destruct (new_cd h4 v) as [h5 p] eqn:E5 end.
  cbn in *. eauto.
Qed.

Lemma I_correction_def h0 h r ads : I h0 h -> I h0 (fst (correction_def h r ads)).
Proof.
  intros Hi. unfold correction_def.
  match goal with |- context [new_cd h ?v] =>
    assert (safe_cd h0 v) as Hv by (repeat split; apply safe_nil);
    pose proof (I_new_cd h0 h v Hi Hv) as [H1 P1];
    destruct (new_cd h v) as [h1 p] eqn:E1 end.
  cbn in H1, P1.
  set (st := match r with Some rd => corr_merge h1 (Some p) (corr_def_for h1 (d_corr rd) INV) | None => (h1, Some p) end).
  assert (I h0 (fst st) /\ exists c', snd st = Some c' /\ length (corrdefs h0) <= c') as Hst.
  { subst st. destruct r; [apply I_corr_merge; auto|cbn; eauto]. }
  assert (forall st : heap * option nat,
            (I h0 (fst st) /\ exists c', snd st = Some c' /\ length (corrdefs h0) <= c') ->
            I h0 (fst (fold_left (fun (st : heap * option nat) a =>
                   corr_merge (fst st) (snd st) (corr_def_for (fst st) (d_corr a) INV)) ads st))) as HF.
  { induction ads as [|a ads IH]; intros s [Hs (c' & Hc1 & Hc2)]; cbn; auto.
    apply IH. rewrite Hc1. apply I_corr_merge; auto. }
  apply HF. exact Hst.
Qed.

(* ---- any sequence of calls (repaired model) ---- *)
Lemma I_do_calls h0 cs : forall h, I h0 h -> I h0 (do_calls true h cs).
Proof.
  induction cs as [|c cs IH]; intros h Hi; cbn; auto.
  apply IH. destruct c; cbn.
  - apply I_supported_tags; auto.
  - apply I_scenario_summary; auto.
  - apply I_correction_def; auto.
Qed.

Theorem never_written_repaired h0 cs : preserved h0 (do_calls true h0 cs).
Proof. apply ext_preserved. apply (I_do_calls h0 cs h0 (I_refl h0)). Qed.

(* as shipped: the append in TagSet.Merge lands in the regime's spare capacity *)
Theorem never_written_shipped_refuted :
  exists h0 cs, ~ preserved h0 (do_calls false h0 cs).
Proof.
  exists wit_heap, wit_calls. intros [H _]. vm_compute in H. discriminate H.
Qed.

(* the scenario and correction helpers are safe as shipped (they do not go through TagSet.Merge) *)
Lemma I_do_calls_no_tags h0 cs : forall h,
  Forall (fun c => match c with CSupportedTags _ _ => False | _ => True end) cs ->
  I h0 h -> I h0 (do_calls false h cs).
Proof.
  induction cs as [|c cs IH]; intros h Hf Hi; cbn; auto.
  inversion Hf; subst. apply IH; auto. destruct c; cbn; try contradiction.
  - apply I_scenario_summary; auto.
  - apply I_correction_def; auto.
Qed.

Theorem never_written_shipped_partial h0 cs :
  Forall (fun c => match c with CSupportedTags _ _ => False | _ => True end) cs ->
  preserved h0 (do_calls false h0 cs).
Proof. intros Hf. apply ext_preserved. apply (I_do_calls_no_tags h0 cs h0 Hf (I_refl h0)). Qed.

(* non-vacuity: the repaired model really runs the witness and leaves array 0 alone,
   while still returning the merged keys *)
Example repaired_witness :
  arrays (do_calls true wit_heap wit_calls) =
    [[1; 2; 0; 0]%Z; [7%Z]; [1; 2; 7]%Z; [1; 2; 7]%Z] /\
  read (fst (supported_tags true wit_heap (Some wit_regime) [wit_addon]))
       (snd (supported_tags true wit_heap (Some wit_regime) [wit_addon])) = [1; 2; 7]%Z /\
  nth 0 (arrays (do_calls false wit_heap wit_calls)) [] = [1; 2; 7; 0]%Z.
Proof. vm_compute. repeat split. Qed.
