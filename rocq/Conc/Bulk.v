(* C15 - model of cli.Bulk (internal/cli/bulk.go) as a labelled transition system.

   Go code being modelled (one reader goroutine, one worker goroutine per request, one output
   channel consumed in order by the caller):

     go func() {
       var seq int64
       defer close(resCh)
       for {
         seq := atomic.AddInt64(&seq, 1)            -- counter incremented BEFORE each decode
         var req BulkRequest
         err := dec.Decode(&req)
         if err != nil {                            -- io.EOF or a decode error: both end the stream
           wg.Wait()                                -- all workers have sent their reply
           res := &BulkResponse{ReqID: req.ReqID, SeqID: seq, IsFinal: true}
           if err != io.EOF { res.Error = ... }
           resCh <- res; return
         }
         wg.Add(1)
         go func() { resCh <- processRequest(ctx, req, seq, opts); wg.Done() }()
       }
     }()

   Model.  The input is the list of requests that decode successfully followed by an ending:
   end of input, or a decode error (nothing after it is read; the partially decoded request's
   req_id, possibly empty, is echoed in the final marker together with an error payload).
   Labels: LRead (reader decodes request number seq+1 and spawns its worker), LEnd (reader meets
   the ending and starts waiting), LSend k (the k-th in-flight worker sends its reply on the
   channel and leaves the wait group), LFinal (wait group empty: the final marker is sent).
   Any interleaving of enabled labels is an execution; the channel is FIFO so the output list is
   the order of the sends.  No proofs in this file. *)
From Coq Require Import List ZArith Bool Strings.Byte Permutation.
From Verif Require Import Base.Wire.
Import ListNotations.
Local Open Scope nat_scope.

Record reply := mkReply {
  rp_req_id : bytes;     (* BulkResponse.ReqID *)
  rp_seq    : nat;       (* BulkResponse.SeqID *)
  rp_body   : bytes;     (* observable body: payload, or the error record *)
  rp_final  : bool       (* BulkResponse.IsFinal *)
}.

Inductive ending :=
| Eof
| Bad (partial_id : bytes) (err : bytes).   (* decode error: echoed req_id and error body *)

Inductive phase := Reading | Draining | Done.

Inductive label := LRead | LEnd | LSend (k : nat) | LFinal.

Definition eqb_reply (a b : reply) : bool :=
  eqb_bytes (rp_req_id a) (rp_req_id b) && Nat.eqb (rp_seq a) (rp_seq b)
  && eqb_bytes (rp_body a) (rp_body b) && Bool.eqb (rp_final a) (rp_final b).

Fixpoint remove_nth {A} (k : nat) (l : list A) : list A :=
  match l, k with
  | [], _ => []
  | _ :: t, O => t
  | x :: t, S k' => x :: remove_nth k' t
  end.

(* multiset comparison used by the acceptance predicate *)
Fixpoint remove1 (x : reply) (l : list reply) : option (list reply) :=
  match l with
  | [] => None
  | y :: t => if eqb_reply x y then Some t
              else match remove1 x t with Some t' => Some (y :: t') | None => None end
  end.
Fixpoint perm_b (a b : list reply) : bool :=
  match a with
  | [] => match b with [] => true | _ => false end
  | x :: a' => match remove1 x b with Some b' => perm_b a' b' | None => false end
  end.

Section Bulk.
  Variable Req : Type.
  Variable rid : Req -> bytes.        (* the request's req_id *)
  Variable f : Req -> bytes.          (* processRequest: the standalone operation's output *)

  Record input := mkInput { reqs : list Req; fin : ending }.

  Record state := mkState {
    seq      : nat;                   (* requests decoded so far = value of the seq counter *)
    unread   : list Req;
    inflight : list (nat * Req);      (* spawned workers that have not sent yet, with their seq *)
    out      : list reply;            (* what the consumer of resCh has received, in order *)
    ph       : phase
  }.

  Definition init (i : input) : state := mkState 0 (reqs i) [] [] Reading.

  Definition reply_of (w : nat * Req) : reply := mkReply (rid (snd w)) (fst w) (f (snd w)) false.

  Definition final_marker (e : ending) (n : nat) : reply :=
    match e with
    | Eof => mkReply [] (S n) [] true
    | Bad pid err => mkReply pid (S n) err true
    end.

  Definition step (e : ending) (s : state) (l : label) : option state :=
    match l, ph s with
    | LRead, Reading =>
        match unread s with
        | r :: rest => Some (mkState (S (seq s)) rest (inflight s ++ [(S (seq s), r)]) (out s) Reading)
        | [] => None
        end
    | LEnd, Reading =>
        match unread s with
        | [] => Some (mkState (seq s) [] (inflight s) (out s) Draining)
        | _ :: _ => None
        end
    | LSend k, (Reading | Draining) =>
        match nth_error (inflight s) k with
        | Some w => Some (mkState (seq s) (unread s) (remove_nth k (inflight s)) (out s ++ [reply_of w]) (ph s))
        | None => None
        end
    | LFinal, Draining =>
        match inflight s with
        | [] => Some (mkState (seq s) (unread s) [] (out s ++ [final_marker e (seq s)]) Done)
        | _ :: _ => None
        end
    | _, _ => None
    end.

  Fixpoint run (e : ending) (s : state) (ls : list label) : option state :=
    match ls with
    | [] => Some s
    | l :: r => match step e s l with Some s' => run e s' r | None => None end
    end.

  (* a complete execution: every label enabled when taken, ending in the terminal phase *)
  Definition complete (i : input) (ls : list label) (s' : state) : Prop :=
    run (fin i) (init i) ls = Some s' /\ ph s' = Done.

  (* the sequential answer: request number p (1-based) gets reply (rid, p, f req) *)
  Fixpoint replies_from (p : nat) (l : list Req) : list reply :=
    match l with
    | [] => []
    | r :: t => reply_of (p, r) :: replies_from (S p) t
    end.
  Definition expected_replies (i : input) : list reply := replies_from 1 (reqs i).
  Definition expected_final (i : input) : reply := final_marker (fin i) (length (reqs i)).

  (* what the property demands of an output stream *)
  Definition good_output (i : input) (o : list reply) : Prop :=
    exists body, o = body ++ [expected_final i] /\ Permutation body (expected_replies i).

  (* decidable acceptance predicate used by the harness *)
  Definition accepts (i : input) (o : list reply) : bool :=
    match rev o with
    | last :: rbody => eqb_reply last (expected_final i) && perm_b (rev rbody) (expected_replies i)
    | [] => false
    end.

  (* the canonical schedule producing a given accepted body: read everything, end, send in the
     order of the body, final.  (Used by the proof of valid_output_iff_schedule.) *)
  Fixpoint find_idx (x : reply) (l : list (nat * Req)) : option nat :=
    match l with
    | [] => None
    | w :: t => if eqb_reply x (reply_of w) then Some 0
                else match find_idx x t with Some k => Some (S k) | None => None end
    end.
  Fixpoint sends (body : list reply) (infl : list (nat * Req)) : list label :=
    match body with
    | [] => []
    | b :: body' => match find_idx b infl with
                    | Some k => LSend k :: sends body' (remove_nth k infl)
                    | None => []
                    end
    end.
  Fixpoint number_from (p : nat) (l : list Req) : list (nat * Req) :=
    match l with [] => [] | r :: t => (p, r) :: number_from (S p) t end.
  Definition schedule_for (i : input) (o : list reply) : list label :=
    repeat LRead (length (reqs i)) ++ [LEnd] ++ sends (removelast o) (number_from 1 (reqs i)) ++ [LFinal].
End Bulk.
