(* C15 - proofs about the cli.Bulk transition system (Conc/Bulk.v). *)
From Coq Require Import List ZArith Bool Strings.Byte Permutation Lia.
From Verif Require Import Base.Wire Conc.Bulk.
Import ListNotations.
Local Open Scope nat_scope.

(* ---- decidable equality helpers ---- *)
Lemma eqb_bytes_refl a : eqb_bytes a a = true.
Proof. induction a; cbn; auto. rewrite IHa, (byte_dec_lb (eq_refl a)). reflexivity. Qed.

Lemma eqb_bytes_eq a b : eqb_bytes a b = true -> a = b.
Proof.
  revert b; induction a as [|x a IH]; intros [|y b]; cbn; try discriminate; auto.
  intros H. apply andb_prop in H as [H1 H2]. apply byte_dec_bl in H1. f_equal; auto.
Qed.

Lemma eqb_reply_refl a : eqb_reply a a = true.
Proof.
  unfold eqb_reply. rewrite !eqb_bytes_refl, Nat.eqb_refl, Bool.eqb_reflx. reflexivity.
Qed.

Lemma eqb_reply_eq a b : eqb_reply a b = true -> a = b.
Proof.
  unfold eqb_reply. intros H.
  apply andb_prop in H as [H H4]. apply andb_prop in H as [H H3]. apply andb_prop in H as [H1 H2].
  apply eqb_bytes_eq in H1, H3. apply Nat.eqb_eq in H2. apply Bool.eqb_prop in H4.
  destruct a, b; cbn in *; subst; reflexivity.
Qed.

Lemma remove1_perm x l l' : remove1 x l = Some l' -> Permutation l (x :: l').
Proof.
  revert l'; induction l as [|y t IH]; cbn; intros l' H; try discriminate.
  destruct (eqb_reply x y) eqn:E.
  - apply eqb_reply_eq in E. inversion H; subst. reflexivity.
  - destruct (remove1 x t) as [t'|] eqn:R; try discriminate. inversion H; subst.
    rewrite (IH t' eq_refl). apply perm_swap.
Qed.

Lemma remove1_in x l : In x l -> exists l', remove1 x l = Some l'.
Proof.
  induction l as [|y t IH]; cbn; intros H; [contradiction|].
  destruct (eqb_reply x y) eqn:E; eauto.
  destruct H as [->|H]; [rewrite eqb_reply_refl in E; discriminate|].
  destruct (IH H) as [l' ->]. eauto.
Qed.

Lemma perm_b_sound a : forall b, perm_b a b = true -> Permutation a b.
Proof.
  induction a as [|x a IH]; cbn; intros b H.
  - destruct b; [constructor|discriminate].
  - destruct (remove1 x b) eqn:R; try discriminate.
    apply remove1_perm in R. rewrite R. constructor. auto.
Qed.

Lemma perm_b_complete a : forall b, Permutation a b -> perm_b a b = true.
Proof.
  induction a as [|x a IH]; cbn; intros b H.
  - apply Permutation_nil in H. subst. reflexivity.
  - assert (In x b) by (eapply Permutation_in; [exact H|left; reflexivity]).
    destruct (remove1_in _ _ H0) as [b' R]. rewrite R. apply IH.
    apply remove1_perm in R. rewrite R in H. eapply Permutation_cons_inv. exact H.
Qed.

Lemma remove_nth_split {A} (l : list A) k w :
  nth_error l k = Some w -> exists l1 l2, l = l1 ++ w :: l2 /\ remove_nth k l = l1 ++ l2.
Proof.
  revert k; induction l as [|x t IH]; intros [|k]; cbn; try discriminate.
  - intros H; inversion H; subst. exists [], t. auto.
  - intros H. destruct (IH _ H) as (l1 & l2 & -> & E). exists (x :: l1), l2. cbn. rewrite E. auto.
Qed.

Lemma skipn_cons_inv {A} n (l : list A) r rest :
  skipn n l = r :: rest ->
  firstn (S n) l = firstn n l ++ [r] /\ skipn (S n) l = rest /\ n < length l.
Proof.
  revert l; induction n as [|n IH]; intros [|x l]; cbn; try discriminate.
  - intros H; inversion H; subst. repeat split; auto. lia.
  - intros H. destruct (IH _ H) as (E1 & E2 & E3). cbn in E1. rewrite E1. repeat split; auto. lia.
Qed.

Lemma skipn_nil_inv {A} n (l : list A) : skipn n l = [] -> length l <= n.
Proof.
  revert l; induction n as [|n IH]; intros [|x l]; cbn; try discriminate; try lia.
  intros H. specialize (IH _ H). lia.
Qed.

Section BulkProofs.
  Variable Req : Type.
  Variable rid : Req -> bytes.
  Variable f : Req -> bytes.

  Notation reply_of := (reply_of Req rid f).
  Notation replies_from := (replies_from Req rid f).
  Notation step := (step Req rid f).
  Notation run := (run Req rid f).
  Notation state := (state Req).
  Notation input := (input Req).

  Lemma replies_from_app p a r :
    replies_from p (a ++ [r]) = replies_from p a ++ [reply_of (p + length a, r)].
  Proof.
    revert p; induction a as [|x a IH]; intros p; cbn.
    - rewrite Nat.add_0_r. reflexivity.
    - rewrite IH, Nat.add_succ_r. reflexivity.
  Qed.

  Lemma replies_from_number p l : map reply_of (number_from Req p l) = replies_from p l.
  Proof. revert p; induction l; intros p; cbn; auto. rewrite IHl. reflexivity. Qed.

  (* ---- the invariant of all reachable states ---- *)
  Definition Inv (i : input) (s : state) : Prop :=
    seq _ s <= length (reqs _ i) /\ unread _ s = skipn (seq _ s) (reqs _ i) /\
    exists body,
      Permutation (body ++ map reply_of (inflight _ s)) (replies_from 1 (firstn (seq _ s) (reqs _ i))) /\
      match ph _ s with
      | Reading => out _ s = body
      | Draining => out _ s = body /\ unread _ s = []
      | Done => out _ s = body ++ [final_marker (fin _ i) (seq _ s)] /\ inflight _ s = [] /\ unread _ s = []
      end.

  Lemma inv_init i : Inv i (init _ i).
  Proof.
    unfold Inv, init; cbn. split; [lia|]. split; auto. exists []. cbn. split; auto.
  Qed.

  Lemma inv_step i s l s' : Inv i s -> step (fin _ i) s l = Some s' -> Inv i s'.
  Proof.
    intros (Hle & Hun & body & Hp & Hph) Hs.
    destruct s as [n un infl o p]; cbn in *.
    destruct l; destruct p; cbn in Hs; try discriminate.
    - (* LRead *)
      destruct un as [|r rest]; try discriminate. injection Hs as <-. subst o.
      unfold Inv; cbn [seq unread inflight out ph].
      symmetry in Hun. destruct (skipn_cons_inv _ _ _ _ Hun) as (E1 & E2 & E3).
      split; [lia|]. split; [auto|]. exists body. split; auto.
      rewrite E1, replies_from_app, firstn_length_le by lia.
      rewrite map_app, app_assoc. cbn. apply Permutation_app_tail. exact Hp.
    - (* LEnd *)
      destruct un; try discriminate. injection Hs as <-. subst o.
      unfold Inv; cbn [seq unread inflight out ph].
      split; auto. split; auto. exists body. auto.
    - (* LSend, Reading *)
      destruct (nth_error infl k) as [w|] eqn:E; try discriminate. injection Hs as <-. subst o.
      unfold Inv; cbn [seq unread inflight out ph].
      destruct (remove_nth_split _ _ _ E) as (l1 & l2 & -> & ->).
      split; auto. split; auto. exists (body ++ [reply_of w]). split; auto.
      rewrite <- Hp. rewrite !map_app. cbn. rewrite <- !app_assoc. apply Permutation_app_head.
      cbn. apply Permutation_middle.
    - (* LSend, Draining *)
      destruct (nth_error infl k) as [w|] eqn:E; try discriminate. injection Hs as <-.
      destruct Hph as [-> Hu].
      unfold Inv; cbn [seq unread inflight out ph].
      destruct (remove_nth_split _ _ _ E) as (l1 & l2 & -> & ->).
      split; auto. split; auto. exists (body ++ [reply_of w]). split; auto.
      rewrite <- Hp. rewrite !map_app. cbn. rewrite <- !app_assoc. apply Permutation_app_head.
      cbn. apply Permutation_middle.
    - (* LFinal *)
      destruct infl; try discriminate. injection Hs as <-.
      destruct Hph as [-> Hu].
      unfold Inv; cbn [seq unread inflight out ph].
      split; auto. split; auto. exists body. auto.
  Qed.

  Lemma inv_run i ls : forall s s', Inv i s -> run (fin _ i) s ls = Some s' -> Inv i s'.
  Proof.
    induction ls as [|l ls IH]; cbn; intros s s' Hi Hr.
    - inversion Hr; subst; auto.
    - destruct (step (fin _ i) s l) eqn:E; try discriminate.
      eapply IH; [eapply inv_step; eauto|eauto].
  Qed.

  Theorem all_schedules i ls s' :
    complete Req rid f i ls s' -> good_output Req rid f i (out _ s').
  Proof.
    intros [Hr Hd].
    pose proof (inv_run i ls _ _ (inv_init i) Hr) as (Hle & Hun & body & Hp & Hph).
    rewrite Hd in Hph. destruct Hph as (Ho & Hi & Hu).
    rewrite Hu in Hun. symmetry in Hun. apply skipn_nil_inv in Hun.
    assert (seq _ s' = length (reqs _ i)) as En by lia.
    exists body. split.
    - rewrite Ho, En. reflexivity.
    - rewrite Hi in Hp. cbn in Hp. rewrite app_nil_r, En, firstn_all in Hp. exact Hp.
  Qed.

  (* ---- the acceptance predicate decides good_output ---- *)
  Lemma accepts_good i o : accepts Req rid f i o = true <-> good_output Req rid f i o.
  Proof.
    unfold accepts, good_output. split.
    - destruct (rev o) as [|last rbody] eqn:E; try discriminate.
      intros H. apply andb_prop in H as [H1 H2].
      apply eqb_reply_eq in H1. apply perm_b_sound in H2.
      exists (rev rbody). split; auto.
      rewrite <- H1. rewrite <- (rev_involutive o), E. reflexivity.
    - intros (body & -> & Hp). rewrite rev_app_distr. cbn.
      rewrite eqb_reply_refl, rev_involutive. cbn. apply perm_b_complete. exact Hp.
  Qed.

  (* ---- every good output is produced by some schedule ---- *)
  Lemma run_app e s l1 l2 : run e s (l1 ++ l2) =
    match run e s l1 with Some s' => run e s' l2 | None => None end.
  Proof.
    revert s; induction l1 as [|l l1 IH]; intros s; cbn; auto.
    destruct (step e s l); auto.
  Qed.

  Lemma run_reads e u : forall n infl o,
    run e (mkState _ n u infl o Reading) (repeat LRead (length u)) =
    Some (mkState _ (n + length u) [] (infl ++ number_from Req (S n) u) o Reading).
  Proof.
    induction u as [|r u IH]; intros n infl o; cbn.
    - rewrite Nat.add_0_r, app_nil_r. reflexivity.
    - rewrite IH. rewrite <- app_assoc. cbn. repeat f_equal. lia.
  Qed.

  Lemma find_idx_in x infl :
    In x (map reply_of infl) -> exists k w, find_idx Req rid f x infl = Some k /\
      nth_error infl k = Some w /\ x = reply_of w.
  Proof.
    induction infl as [|w t IH]; cbn; intros H; [contradiction|].
    destruct (eqb_reply x (reply_of w)) eqn:E.
    - apply eqb_reply_eq in E. exists 0, w. auto.
    - destruct H as [H|H]; [rewrite <- H, eqb_reply_refl in E; discriminate|].
      destruct (IH H) as (k & w' & -> & Hn & Hx). exists (S k), w'. auto.
  Qed.

  Lemma run_sends e n body : forall infl o,
    Permutation body (map reply_of infl) ->
    run e (mkState _ n [] infl o Draining) (sends Req rid f body infl) =
    Some (mkState _ n [] [] (o ++ body) Draining).
  Proof.
    induction body as [|b body IH]; intros infl o Hp; cbn.
    - apply Permutation_nil in Hp. destruct infl; try discriminate. rewrite app_nil_r. reflexivity.
    - assert (In b (map reply_of infl)) as Hin by (eapply Permutation_in; [exact Hp|left; reflexivity]).
      destruct (find_idx_in _ _ Hin) as (k & w & -> & Hn & ->). cbn. rewrite Hn.
      destruct (remove_nth_split _ _ _ Hn) as (l1 & l2 & -> & E). rewrite E.
      rewrite IH.
      + rewrite <- app_assoc. reflexivity.
      + rewrite map_app in *. cbn in Hp. eapply Permutation_cons_app_inv. exact Hp.
  Qed.

  Lemma good_has_schedule i o :
    good_output Req rid f i o ->
    exists s', complete Req rid f i (schedule_for Req rid f i o) s' /\ out _ s' = o.
  Proof.
    intros (body & -> & Hp).
    unfold schedule_for, complete, init. rewrite removelast_last.
    eexists. rewrite run_app, run_reads. cbn [app]. cbn [run step ph unread seq inflight out].
    rewrite run_app, run_sends.
    - cbn. split; [split; reflexivity|]. cbn. reflexivity.
    - cbn. rewrite replies_from_number. exact Hp.
  Qed.

  Theorem accepts_iff_schedule i o :
    accepts Req rid f i o = true <-> exists ls s', complete Req rid f i ls s' /\ out _ s' = o.
  Proof.
    split.
    - intros H. apply accepts_good in H. destruct (good_has_schedule i o H) as (s' & Hc & Ho).
      eauto.
    - intros (ls & s' & Hc & <-). apply accepts_good. eapply all_schedules; eauto.
  Qed.
End BulkProofs.
