(* C15 - heap model of Go slices and of the helpers that build merged tag / scenario /
   correction sets per document from the shared registry definitions.

   Go sources modelled (statement by statement):
     tax/tags.go         TagSet.Merge, TagSetForSchema, TagSet.Keys
     tax/scenario.go     NewScenarioSet, ScenarioSet.Merge, ScenarioSet.Notes
     tax/corrections.go  CorrectionSet.Def, CorrectionDefinition.Merge
     bill/invoice.go           Invoice.supportedTags
     bill/invoice_scenarios.go Invoice.scenarioSummary (the set building part)
     bill/invoice_correct.go   Invoice.correctionDef

   Go's slice is a header {pointer, len, cap} over a backing array; s[i] for i < len reads the
   array; append(s, x) WRITES IN PLACE into the backing array when len < cap (whoever else holds a
   slice over the same array shares that cell) and allocates a new array otherwise.  The heap
   holds the backing arrays (each list has the array's full capacity as its length) and the
   struct objects that are written through pointers (ScenarioSet.List = ..., cd.CopyTax = ...).
   *TagSet values are never assigned through in these helpers and are modelled as immutable
   values (nil pointer = None).  A cell holds the key of the definition pointed to (tag sets), a
   scenario identity (scenario sets) or a key (correction definitions); schemas are numbers.
   Simplifications: capacity growth is `max(needed, 2*cap)` (Go additionally rounds up to a size
   class; only "cap may exceed len" matters here); CorrectionSet.Def's HasSuffix test is schema
   equality.  `copying = false` is the code as shipped; `copying = true` is the repaired
   TagSet.Merge (`nl := make(.., len(ts.List), len(ts.List)+len(other.List)); copy(nl, ts.List)`,
   fixes/C15-1-tagset-merge-copy.diff).  No proofs in this file. *)
From Coq Require Import List ZArith Bool.
Import ListNotations.
Local Open Scope nat_scope.

Definition cell := Z.

Record slice := mkSlice { arr : nat; off : nat; len : nat; cap : nat }.
Definition nil_slice := mkSlice 0 0 0 0.

Record tagset := mkTagset { ts_schema : Z; ts_list : slice }.
Record scenset := mkScenset { ss_schema : Z; ss_list : slice }.
Record corrdef := mkCorrdef {
  cd_schema : Z; cd_types : slice; cd_exts : slice; cd_reason : bool; cd_stamps : slice; cd_copytax : bool }.

Record heap := mkHeap {
  arrays   : list (list cell);     (* backing arrays, address = index *)
  scensets : list scenset;         (* *ScenarioSet objects *)
  corrdefs : list corrdef          (* *CorrectionDefinition objects *)
}.

Definition default_ss := mkScenset 0%Z nil_slice.
Definition default_cd := mkCorrdef 0%Z nil_slice nil_slice false nil_slice false.

Fixpoint set_nth {A} (n : nat) (x : A) (l : list A) : list A :=
  match l, n with
  | [], _ => []
  | _ :: t, O => x :: t
  | y :: t, S n' => y :: set_nth n' x t
  end.

Definition get_arr (h : heap) (a : nat) : list cell := nth a (arrays h) [].
Definition get_ss (h : heap) (p : nat) : scenset := nth p (scensets h) default_ss.
Definition get_cd (h : heap) (p : nat) : corrdef := nth p (corrdefs h) default_cd.

(* s[0:len] and s[i] *)
Definition read (h : heap) (s : slice) : list cell := firstn (len s) (skipn (off s) (get_arr h (arr s))).
Definition read_at (h : heap) (s : slice) (i : nat) : cell := nth (off s + i) (get_arr h (arr s)) 0%Z.

(* one array cell *)
Definition write (h : heap) (a i : nat) (v : cell) : heap :=
  mkHeap (set_nth a (set_nth i v (get_arr h a)) (arrays h)) (scensets h) (corrdefs h).
Fixpoint write_many (h : heap) (a i : nat) (vs : list cell) : heap :=
  match vs with
  | [] => h
  | v :: r => write_many (write h a i v) a (S i) r
  end.

(* make + copy: a new backing array of capacity max(c, |content|) holding content *)
Definition alloc (h : heap) (content : list cell) (c : nat) : heap * slice :=
  (mkHeap (arrays h ++ [content ++ repeat 0%Z (c - length content)]) (scensets h) (corrdefs h),
   mkSlice (length (arrays h)) 0 (length content) (Nat.max c (length content))).

Definition grow (c need : nat) : nat := Nat.max need (2 * c).

(* append(s, x) *)
Definition append1 (h : heap) (s : slice) (x : cell) : heap * slice :=
  if len s <? cap s
  then (write h (arr s) (off s + len s) x, mkSlice (arr s) (off s) (S (len s)) (cap s))
  else alloc h (read h s ++ [x]) (grow (cap s) (S (len s))).

(* append(s, xs...) *)
Definition append_many (h : heap) (s : slice) (xs : list cell) : heap * slice :=
  match xs with
  | [] => (h, s)
  | _ :: _ =>
    if len s + length xs <=? cap s
    then (write_many h (arr s) (off s + len s) xs, mkSlice (arr s) (off s) (len s + length xs) (cap s))
    else alloc h (read h s ++ xs) (grow (cap s) (len s + length xs))
  end.

Definition set_ss (h : heap) (p : nat) (v : scenset) : heap :=
  mkHeap (arrays h) (set_nth p v (scensets h)) (corrdefs h).
Definition set_cd (h : heap) (p : nat) (v : corrdef) : heap :=
  mkHeap (arrays h) (scensets h) (set_nth p v (corrdefs h)).
Definition new_ss (h : heap) (v : scenset) : heap * nat :=
  (mkHeap (arrays h) (scensets h ++ [v]) (corrdefs h), length (scensets h)).
Definition new_cd (h : heap) (v : corrdef) : heap * nat :=
  (mkHeap (arrays h) (scensets h) (corrdefs h ++ [v]), length (corrdefs h)).

(* ---------------- tax/tags.go ---------------- *)

Definition has_key (h : heap) (nl : slice) (k : cell) : bool := existsb (Z.eqb k) (read h nl).

(* for _, t := range other.List { if not found in nl { nl = append(nl, t) } } *)
Fixpoint merge_loop (h : heap) (nl o : slice) (idx : list nat) : heap * slice :=
  match idx with
  | [] => (h, nl)
  | i :: r =>
    let t := read_at h o i in
    if has_key h nl t then merge_loop h nl o r
    else let '(h', nl') := append1 h nl t in merge_loop h' nl' o r
  end.

Definition tagset_merge (copying : bool) (h : heap) (ts other : option tagset) : heap * option tagset :=
  match ts, other with
  | None, _ => (h, other)                                   (* if ts == nil { return other } *)
  | Some t, None => (h, ts)
  | Some t, Some o =>
    if negb (ts_schema t =? ts_schema o)%Z then (h, ts)
    else
      let '(h1, nl) := if copying then alloc h (read h (ts_list t)) (len (ts_list t) + len (ts_list o))
                       else (h, ts_list t)                  (* nl := ts.List // shallow copy *) in
      let '(h2, nl') := merge_loop h1 nl (ts_list o) (seq 0 (len (ts_list o))) in
      (h2, Some (mkTagset (ts_schema t) nl'))
  end.

Definition tagset_for (sets : list tagset) (schema : Z) : option tagset :=
  find (fun t => (ts_schema t =? schema)%Z) sets.

(* keys := make([]cbc.Key, len(ts.List)); for i, k := range ts.List { keys[i] = k.Key } *)
Definition keys (h : heap) (ts : option tagset) : heap * slice :=
  match ts with
  | None => alloc h [] 0
  | Some t => alloc h (read h (ts_list t)) (len (ts_list t))
  end.

(* ---------------- registry definitions (regime or addon) ---------------- *)
Record def := mkDef {
  d_tags : list tagset;       (* Tags []*TagSet *)
  d_scen : list nat;          (* Scenarios []*ScenarioSet *)
  d_corr : list nat           (* Corrections CorrectionSet *)
}.

Definition INV : Z := 1%Z.   (* ShortSchemaInvoice *)

(* bill/invoice.go supportedTags *)
Definition supported_tags (copying : bool) (h : heap) (r : option def) (ads : list def) : heap * slice :=
  let '(h1, ts) := match r with
                   | Some rd => tagset_merge copying h None (tagset_for (d_tags rd) INV)
                   | None => (h, None)
                   end in
  let '(h2, ts2) := fold_left (fun (st : heap * option tagset) a =>
                                 tagset_merge copying (fst st) (snd st) (tagset_for (d_tags a) INV))
                              ads (h1, ts) in
  keys h2 ts2.

(* ---------------- tax/scenario.go ---------------- *)
Definition new_scenario_set (h : heap) (schema : Z) : heap * nat :=
  let '(h1, l) := alloc h [] 0 in             (* make([]*Scenario, 0) *)
  new_ss h1 (mkScenset schema l).

(* for _, os := range other { if os.Schema != ss.Schema { return }; ss.List = append(ss.List, os.List...) } *)
Fixpoint scenset_merge (h : heap) (ss : nat) (others : list nat) : heap :=
  match others with
  | [] => h
  | o :: r =>
    let S := get_ss h ss in
    let O := get_ss h o in
    if negb (ss_schema O =? ss_schema S)%Z then h
    else let '(h1, l) := append_many h (ss_list S) (read h (ss_list O)) in
         scenset_merge (set_ss h1 ss (mkScenset (ss_schema (get_ss h1 ss)) l)) ss r
  end.

(* Notes(): notes := make(.., 0); for _, row := range ss.List { notes = append(notes, row.Note) } *)
Definition notes (h : heap) (ss : nat) : heap * slice :=
  let '(h1, n0) := alloc h [] 0 in
  fold_left (fun (st : heap * slice) c => append1 (fst st) (snd st) c) (read h1 (ss_list (get_ss h1 ss))) (h1, n0).

(* bill/invoice_scenarios.go scenarioSummary: the merged set and its notes *)
Definition scenario_summary (h : heap) (r : option def) (ads : list def) : heap * slice :=
  let '(h1, ss) := new_scenario_set h INV in
  let h2 := match r with Some rd => scenset_merge h1 ss (d_scen rd) | None => h1 end in
  let h3 := fold_left (fun h a => scenset_merge h ss (d_scen a)) ads h2 in
  notes h3 ss.

(* ---------------- tax/corrections.go ---------------- *)
Definition corr_def_for (h : heap) (cs : list nat) (schema : Z) : option nat :=
  find (fun p => (cd_schema (get_cd h p) =? schema)%Z) cs.

Definition corr_merge (h : heap) (cd other : option nat) : heap * option nat :=
  match cd, other with
  | None, _ => (h, other)
  | Some c, None => (h, cd)
  | Some c, Some o =>
    if negb (cd_schema (get_cd h c) =? cd_schema (get_cd h o))%Z then (h, cd)
    else
      (* if other.CopyTax { cd.CopyTax = other.CopyTax }   -- a write through cd *)
      let h1 := if cd_copytax (get_cd h o)
                then let C := get_cd h c in
                     set_cd h c (mkCorrdef (cd_schema C) (cd_types C) (cd_exts C) (cd_reason C) (cd_stamps C) true)
                else h in
      let C := get_cd h1 c in
      let O := get_cd h1 o in
      let '(h2, ty) := append_many h1 (cd_types C) (read h1 (cd_types O)) in
      let '(h3, ex) := append_many h2 (cd_exts C) (read h2 (cd_exts O)) in
      let '(h4, st) := append_many h3 (cd_stamps C) (read h3 (cd_stamps O)) in
      let '(h5, p) := new_cd h4 (mkCorrdef (cd_schema C) ty ex (cd_reason C || cd_reason O) st (cd_copytax C)) in
      (h5, Some p)
  end.

(* bill/invoice_correct.go correctionDef *)
Definition correction_def (h : heap) (r : option def) (ads : list def) : heap * option nat :=
  let '(h1, p) := new_cd h (mkCorrdef INV nil_slice nil_slice false nil_slice false) in
  let st := match r with
            | Some rd => corr_merge h1 (Some p) (corr_def_for h1 (d_corr rd) INV)
            | None => (h1, Some p)
            end in
  fold_left (fun (st : heap * option nat) a =>
               corr_merge (fst st) (snd st) (corr_def_for (fst st) (d_corr a) INV)) ads st.

(* ---------------- any sequence of helper calls ---------------- *)
Inductive call :=
| CSupportedTags (r : option def) (ads : list def)
| CScenarioSummary (r : option def) (ads : list def)
| CCorrectionDef (r : option def) (ads : list def).

Definition do_call (copying : bool) (h : heap) (c : call) : heap :=
  match c with
  | CSupportedTags r ads => fst (supported_tags copying h r ads)
  | CScenarioSummary r ads => fst (scenario_summary h r ads)
  | CCorrectionDef r ads => fst (correction_def h r ads)
  end.

Definition do_calls (copying : bool) (h : heap) (cs : list call) : heap := fold_left (do_call copying) cs h.

(* every pre-existing array (its whole capacity) and object is what it was *)
Definition preserved (h0 h : heap) : Prop :=
  firstn (length (arrays h0)) (arrays h) = arrays h0 /\
  firstn (length (scensets h0)) (scensets h) = scensets h0 /\
  firstn (length (corrdefs h0)) (corrdefs h) = corrdefs h0.

(* ---------------- witness heap for the refutation (shape of ES + an addon with its own tag) ---- *)
(* array 0: the regime's invoice tag list, len 2, cap 4 (built by Merge at init: spare capacity);
   array 1: the addon's tag list with one tag (7) the regime does not have. *)
Definition wit_heap : heap := mkHeap [[1; 2; 0; 0]%Z; [7%Z]] [] [].
Definition wit_regime : def := mkDef [mkTagset INV (mkSlice 0 0 2 4)] [] [].
Definition wit_addon : def := mkDef [mkTagset INV (mkSlice 1 0 1 1)] [] [].
Definition wit_calls : list call := [CSupportedTags (Some wit_regime) [wit_addon]].
