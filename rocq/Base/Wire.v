(* Wire format shared by the Go harness, the extracted OCaml driver and the in-Coq
   cross-check: one case per line, whitespace-separated tokens:
     ( )            list delimiters
     -?[0-9]+       integer
     x<hex>         byte string (x alone = empty)
     bare word      byte string given literally (used for operation names)
   All parsing/printing is Gallina so that the OCaml driver only moves bytes. *)
From Coq Require Import List ZArith Strings.Byte String Ascii Bool Lia.
Import ListNotations.
Open Scope Z_scope.

Definition bytes := list byte.

Inductive V := VI (z : Z) | VS (s : bytes) | VL (l : list V).

Definition bs (s : string) : bytes := list_byte_of_string s.

Fixpoint eqb_bytes (a b : bytes) : bool :=
  match a, b with
  | [], [] => true
  | x :: a', y :: b' => Byte.eqb x y && eqb_bytes a' b'
  | _, _ => false
  end.

Definition bN (b : byte) : N := Byte.to_N b.
Definition bZ (b : byte) : Z := Z.of_N (Byte.to_N b).
Definition byte_of_Z (z : Z) : byte :=
  match Byte.of_N (Z.to_N (z mod 256)) with Some b => b | None => x00 end.

Definition is_digit (b : byte) : bool := (48 <=? bZ b) && (bZ b <=? 57).
Definition is_space (b : byte) : bool :=
  (bZ b =? 32) || (bZ b =? 9) || (bZ b =? 10) || (bZ b =? 13).

(* ---- tokens ---- *)
(* rev_append _ [] is List.rev computed in linear time (List.rev is quadratic: a 10 kB token
   took a second to reverse) *)
Fixpoint split_ws_aux (l : bytes) (cur : bytes) (acc : list bytes) : list bytes :=
  match l with
  | [] => rev_append (if cur then acc else rev_append cur [] :: acc) []
  | b :: r => if is_space b
              then split_ws_aux r [] (if cur then acc else rev_append cur [] :: acc)
              else split_ws_aux r (b :: cur) acc
  end.
Definition split_ws (l : bytes) : list bytes := split_ws_aux l [] [].

Fixpoint dec_digits (l : bytes) (acc : Z) : option Z :=
  match l with
  | [] => Some acc
  | b :: r => if is_digit b then dec_digits r (acc * 10 + (bZ b - 48)) else None
  end.
Definition parse_int (t : bytes) : option Z :=
  match t with
  | [] => None
  | b :: r => if bZ b =? 45 (* - *)
              then match r with [] => None | _ => option_map Z.opp (dec_digits r 0) end
              else dec_digits t 0
  end.

Definition hexval (b : byte) : option Z :=
  let z := bZ b in
  if (48 <=? z) && (z <=? 57) then Some (z - 48)
  else if (97 <=? z) && (z <=? 102) then Some (z - 87)
  else if (65 <=? z) && (z <=? 70) then Some (z - 55)
  else None.
Fixpoint unhex (l : bytes) : option bytes :=
  match l with
  | [] => Some []
  | a :: b :: r => match hexval a, hexval b, unhex r with
                   | Some x, Some y, Some t => Some (byte_of_Z (x * 16 + y) :: t)
                   | _, _, _ => None
                   end
  | _ => None
  end.

Definition atom (t : bytes) : V :=
  match parse_int t with
  | Some z => VI z
  | None =>
    match t with
    | b :: r => if bZ b =? 120 (* x *) then
                  match unhex r with Some s => VS s | None => VS t end
                else VS t
    | [] => VS []
    end
  end.

Fixpoint build (toks : list bytes) (stack : list (list V)) (cur : list V) : option (list V) :=
  match toks with
  | [] => match stack with [] => Some (rev_append cur []) | _ => None end
  | t :: r =>
    if eqb_bytes t (bs "(") then build r (cur :: stack) []
    else if eqb_bytes t (bs ")") then
      match stack with
      | p :: s => build r s (VL (rev_append cur []) :: p)
      | [] => None
      end
    else build r stack (atom t :: cur)
  end.

Definition parse_line (l : bytes) : option (list V) := build (split_ws l) [] [].

(* ---- printing ---- *)
Definition hexdigit (z : Z) : byte := byte_of_Z (if z <? 10 then 48 + z else 87 + z).
Fixpoint hex (l : bytes) : bytes :=
  match l with
  | [] => []
  | b :: r => hexdigit (bZ b / 16) :: hexdigit (bZ b mod 16) :: hex r
  end.

Fixpoint uint_bytes (u : Decimal.uint) : bytes :=
  match u with
  | Decimal.Nil => []
  | Decimal.D0 r => byte_of_Z 48 :: uint_bytes r
  | Decimal.D1 r => byte_of_Z 49 :: uint_bytes r
  | Decimal.D2 r => byte_of_Z 50 :: uint_bytes r
  | Decimal.D3 r => byte_of_Z 51 :: uint_bytes r
  | Decimal.D4 r => byte_of_Z 52 :: uint_bytes r
  | Decimal.D5 r => byte_of_Z 53 :: uint_bytes r
  | Decimal.D6 r => byte_of_Z 54 :: uint_bytes r
  | Decimal.D7 r => byte_of_Z 55 :: uint_bytes r
  | Decimal.D8 r => byte_of_Z 56 :: uint_bytes r
  | Decimal.D9 r => byte_of_Z 57 :: uint_bytes r
  end.
Definition nat_dec_bytes (p : Z) : bytes :=  (* p >= 0 *)
  match uint_bytes (N.to_uint (Z.to_N p)) with [] => [byte_of_Z 48] | l => l end.
Definition int_bytes (z : Z) : bytes :=
  if z <? 0 then byte_of_Z 45 :: nat_dec_bytes (- z) else nat_dec_bytes z.

Definition sp : bytes := [byte_of_Z 32].

Fixpoint print_v (v : V) : bytes :=
  match v with
  | VI z => int_bytes z
  | VS s => byte_of_Z 120 :: hex s
  | VL l => bs "(" ++ (fix pl (l : list V) : bytes :=
                         match l with
                         | [] => []
                         | x :: r => sp ++ print_v x ++ pl r
                         end) l ++ sp ++ bs ")"
  end.

Fixpoint print_vs (l : list V) : bytes :=
  match l with
  | [] => []
  | [x] => print_v x
  | x :: r => print_v x ++ sp ++ print_vs r
  end.

(* convenience decoders *)
Definition vz (v : V) : Z := match v with VI z => z | _ => 0 end.
Definition vnat (v : V) : nat := Z.to_nat (vz v).
Definition vs_ (v : V) : bytes := match v with VS s => s | _ => [] end.
Definition vl (v : V) : list V := match v with VL l => l | _ => [] end.
Definition vbool (v : V) : bool := negb (vz v =? 0).
Definition VB (b : bool) : V := VI (if b then 1 else 0).
Definition VN (n : nat) : V := VI (Z.of_nat n).
Definition verr (s : string) : V := VL [VS (bs "err"); VS (bs s)].

Definition opname (v : V) : string := string_of_list_byte (vs_ v).
Definition is_op (v : V) (s : string) : bool := String.eqb (opname v) s.
