From Coq Require Import ZArith Lia.
From Verif Require Import Base.Rha.
Open Scope Z_scope.
Ltac Zify.zify_post_hook ::= Z.div_mod_to_equations.

Lemma rha_neg n d : 0 < d -> rha (- n) d = - rha n d.
Proof.
  intros Hd. unfold rha.
  destruct (0 <=? n) eqn:E1; destruct (0 <=? - n) eqn:E2; try lia.
  - assert (n = 0) by lia. subst n.
    replace (2 * 0 + d) with d by lia. replace (2 * - 0 + d) with d by lia.
    rewrite Z.div_small by lia. lia.
  - replace (- - n) with n by lia. lia.
Qed.

(* nearest integer; on a tie the one of larger magnitude *)
Definition is_rha (n d r : Z) : Prop :=
  Z.abs (2 * (n - r * d)) <= d /\ (Z.abs (2 * (n - r * d)) = d -> Z.abs n < Z.abs (r * d)).

Lemma rha_spec n d : 0 < d -> is_rha n d (rha n d).
Proof.
  intros Hd. unfold is_rha, rha.
  destruct (0 <=? n) eqn:E; split; nia.
Qed.

Lemma tie_contra n d r : 0 < d ->
  Z.abs (2 * (n - (r + 1) * d)) <= d -> Z.abs (2 * (n - r * d)) <= d ->
  (Z.abs (2 * (n - (r + 1) * d)) = d -> Z.abs n < Z.abs ((r + 1) * d)) ->
  (Z.abs (2 * (n - r * d)) = d -> Z.abs n < Z.abs (r * d)) -> False.
Proof.
  intros Hd A1 A2 B1 B2.
  replace ((r + 1) * d) with (r * d + d) in * by ring.
  set (m := r * d) in *.
  assert (E : 2 * n = 2 * m + d) by lia.
  assert (H1 : Z.abs (2 * (n - (m + d))) = d) by lia.
  assert (H2 : Z.abs (2 * (n - m)) = d) by lia.
  specialize (B1 H1). specialize (B2 H2).
  destruct (Z_le_gt_dec 0 r) as [G|G].
  - assert (0 <= m) by (unfold m; apply Z.mul_nonneg_nonneg; lia). lia.
  - assert (m + d <= 0).
    { unfold m. replace (r * d + d) with ((r + 1) * d) by ring.
      apply Z.mul_nonpos_nonneg; lia. }
    lia.
Qed.

Lemma is_rha_unique n d r1 r2 : 0 < d -> is_rha n d r1 -> is_rha n d r2 -> r1 = r2.
Proof.
  unfold is_rha. intros Hd [A1 B1] [A2 B2].
  assert (K : Z.abs ((r1 - r2) * d) <= d) by lia.
  assert (K2 : -1 <= r1 - r2 <= 1).
  { set (k := r1 - r2) in *. clearbody k. clear - K Hd.
    destruct (Z_le_gt_dec 2 k) as [G|G].
    - assert (2 * d <= k * d) by (apply Z.mul_le_mono_nonneg_r; lia). lia.
    - destruct (Z_le_gt_dec k (-2)) as [G2|G2]; [|lia].
      assert (k * d <= (-2) * d) by (apply Z.mul_le_mono_nonneg_r; lia). lia. }
  assert (r1 = r2 \/ r1 = r2 + 1 \/ r2 = r1 + 1) as [E | [E | E]] by lia; [exact E | |].
  - subst r1. exfalso. eapply tie_contra; eauto.
  - subst r2. exfalso. eapply tie_contra; eauto.
Qed.

Lemma rha_unique n d r : 0 < d -> is_rha n d r -> r = rha n d.
Proof. intros Hd H. eapply is_rha_unique; eauto using rha_spec. Qed.

Lemma rha_exact n d k : 0 < d -> n = k * d -> rha n d = k.
Proof. intros Hd ->. unfold rha. destruct (0 <=? k * d) eqn:E; nia. Qed.

Lemma rha_scale n d k : 0 < d -> 0 < k -> rha (n * k) (d * k) = rha n d.
Proof.
  intros Hd Hk. symmetry. apply rha_unique; [nia|].
  destruct (rha_spec n d Hd) as [A B]. unfold is_rha. split; [nia|].
  intros H. assert (Z.abs (2 * (n - rha n d * d)) = d) by nia. specialize (B H0). nia.
Qed.

Lemma rha_1 n : rha n 1 = n.
Proof. apply rha_exact; lia. Qed.

Lemma pow10_pos e : 0 < pow10 e.
Proof. unfold pow10. apply Z.pow_pos_nonneg; lia. Qed.
Lemma pow10_add a b : pow10 (a + b) = pow10 a * pow10 b.
Proof. unfold pow10. rewrite Nat2Z.inj_add, Z.pow_add_r; lia. Qed.
Lemma pow10_0 : pow10 0 = 1. Proof. reflexivity. Qed.
Lemma pow10_S e : pow10 (S e) = 10 * pow10 e.
Proof. unfold pow10. rewrite Nat2Z.inj_succ, Z.pow_succ_r; lia. Qed.

Lemma rhaS_pos n d : 0 < d -> rhaS n d = rha n d.
Proof. intros H. unfold rhaS. destruct (0 <? d) eqn:E; [reflexivity|lia]. Qed.
Lemma rhaS_neg n d : d < 0 -> rhaS n d = rha (- n) (- d).
Proof. intros H. unfold rhaS. destruct (0 <? d) eqn:E; [lia|]. destruct (d <? 0) eqn:E2; [reflexivity|lia]. Qed.
Lemma rhaS_opp n d : d <> 0 -> rhaS (- n) d = - rhaS n d.
Proof.
  intros H. destruct (Z_lt_le_dec d 0) as [L|G].
  - rewrite !rhaS_neg by lia. apply rha_neg; lia.
  - rewrite !rhaS_pos by lia. apply rha_neg; lia.
Qed.
