From Coq Require Import ZArith.
Open Scope Z_scope.
Definition two63 : Z := 2 ^ 63.
Definition two64 : Z := 2 ^ 64.
Definition wrap64 (z : Z) : Z := (z + two63) mod two64 - two63.
Definition fits64 (z : Z) : bool := (- two63 <=? z) && (z <? two63).
Definition two52 : Z := 2 ^ 52.
Definition small52 (z : Z) : bool := Z.abs z <? two52.
