(* Round half away from zero of a quotient of integers. *)
From Coq Require Import ZArith Lia.
Open Scope Z_scope.

(* d > 0 *)
Definition rha (n d : Z) : Z :=
  if 0 <=? n then (2 * n + d) / (2 * d) else - ((2 * (- n) + d) / (2 * d)).

(* any non-zero divisor; 0 for a zero divisor (excluded by every theorem) *)
Definition rhaS (n d : Z) : Z :=
  if 0 <? d then rha n d else if d <? 0 then rha (- n) (- d) else 0.

Definition pow10 (e : nat) : Z := 10 ^ Z.of_nat e.
