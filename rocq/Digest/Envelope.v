(* C08 - the envelope's digest: envelope.go (ValidateWithContext, verifyDigest, Calculate,
   calculate, Digest), dsig/digest.go (Equals), dsig/sha256.go (NewSHA256Digest).

   Everything the digest does not look at is a parameter:
     doc        the parsed document (schema.Object with its payload)
     rest       the other parts of an envelope: $schema, uuid, stamps, links, tags, meta, notes, sigs
     canon      json.Marshal(e.Document) followed by c14n.CanonicalJSON            (C07's subject)
     H          hex(sha256.Sum256(.)) - NO property of it is assumed anywhere
     structural validation.ValidateStructWithContext(ctx, e, Field(&e.Schema, Required),
                Field(&e.Head, Required), Field(&e.Document, Required), Field(&e.Signatures)):
                every Validate method of header, document and signatures, as one boolean
     calc_doc   e.Document.Calculate() (C01-C04's subject); None = it returned an error
   No proofs here. *)
From Coq Require Import List Bool Strings.Byte String.
Local Open Scope string_scope.
From Verif Require Import Base.Wire.
Import ListNotations.

Record digestv := mkDig { alg : bytes; val : bytes }.      (* dsig.Digest *)

Definition sha256_name : bytes := bs "sha256".             (* dsig.DigestSHA256 *)

(* dsig.Digest.Equals: "algorithm mismatch" / "mismatch" / nil *)
Definition dig_equals (d1 d2 : digestv) : bool :=
  eqb_bytes (alg d1) (alg d2) && eqb_bytes (val d1) (val d2).

Inductive verdict := Valid | ErrValidation | ErrDigest.

Section Envelope.
  Variables doc rest : Type.
  Variable canon : doc -> bytes.
  Variable H : bytes -> bytes.

  Record envelope := mkEnv {
    e_rest : rest;
    e_dig : option digestv;       (* head.dig; nil pointer = None *)
    e_doc : doc }.

  Variable structural : envelope -> bool.
  Variable calc_doc : doc -> option doc.

  (* Envelope.Digest *)
  Definition digest_of (d : doc) : digestv := mkDig sha256_name (H (canon d)).

  (* Envelope.ValidateWithContext: the structural rules first (they include `dig` Required, so the
     nil digest never reaches Equals), then verifyDigest *)
  Definition validate (e : envelope) : verdict :=
    if structural e then
      match e_dig e with
      | None => ErrValidation
      | Some d => if dig_equals d (digest_of (e_doc e)) then Valid else ErrDigest
      end
    else ErrValidation.

  (* Envelope.Calculate / calculate: document calculated, then the digest refreshed *)
  Definition calculate (e : envelope) : option envelope :=
    match calc_doc (e_doc e) with
    | Some d' => Some (mkEnv (e_rest e) (Some (digest_of d')) d')
    | None => None
    end.

  (* the edit the property quantifies over: the document replaced, nothing else touched *)
  Definition with_doc (e : envelope) (d : doc) : envelope := mkEnv (e_rest e) (e_dig e) d.
End Envelope.

Arguments mkEnv {doc rest}.
Arguments e_rest {doc rest}.
Arguments e_dig {doc rest}.
Arguments e_doc {doc rest}.
Arguments with_doc {doc rest}.
