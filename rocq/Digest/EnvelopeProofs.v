(* C08 - proofs about Digest/Envelope.v with doc := content.
   The lemmas `..._at` take what they need of the canonicaliser for the two documents involved only
   (same content -> same bytes, resp. same bytes -> same content): that is all their proofs use.
   The lemmas without suffix are the same statements under the global hypotheses canon_norm /
   canon_inj (Section hypotheses: premises of the closed statements), derived from the `_at` forms;
   Digest/LinkProofs.v discharges the pointwise premises for the real canonicaliser.
   Nothing is assumed of H. *)
From Coq Require Import List Bool Strings.Byte Lia.
From Verif Require Import Base.Wire Digest.Content Digest.Envelope Digest.Regime.
Import ListNotations.

Lemma eqb_bytes_refl a : eqb_bytes a a = true.
Proof. induction a as [|x a IH]; cbn; [reflexivity|]. rewrite (Byte.byte_dec_lb (eq_refl x)). exact IH. Qed.

Lemma eqb_bytes_eq a b : eqb_bytes a b = true <-> a = b.
Proof.
  split.
  - revert b. induction a as [|x a IH]; destruct b as [|y b]; cbn; intro E; try reflexivity; try discriminate.
    apply andb_true_iff in E. destruct E as [E1 E2]. apply Byte.byte_dec_bl in E1. subst y.
    f_equal. apply IH. exact E2.
  - intros ->. apply eqb_bytes_refl.
Qed.

Lemma dig_equals_eq d1 d2 : dig_equals d1 d2 = true <-> d1 = d2.
Proof.
  destruct d1 as [a1 v1], d2 as [a2 v2]. unfold dig_equals. cbn. rewrite andb_true_iff, !eqb_bytes_eq.
  split; [intros [-> ->]; reflexivity | intro E; injection E; auto].
Qed.

Section Proofs.
  Variable rest : Type.
  Variable canon : content -> bytes.
  Variable H : bytes -> bytes.
  Variable structural : envelope content rest -> bool.
  Variable calc_doc : content -> option content.

  Hypothesis canon_norm : forall v, wf v -> canon v = canon (norm v).
  Hypothesis canon_inj : forall v1 v2, wf v1 -> wf v2 -> canon v1 = canon v2 -> norm v1 = norm v2.

  Notation validate := (validate content rest canon H structural).
  Notation calculate := (calculate content rest canon H calc_doc).
  Notation digest_of := (digest_of content canon H).

  Lemma validate_ok_iff e :
    validate e = Valid <-> structural e = true /\ e_dig e = Some (digest_of (e_doc e)).
  Proof.
    unfold Envelope.validate. destruct (structural e); [|split; [discriminate | intros [? _]; discriminate]].
    destruct (e_dig e) as [d|]; [|split; [discriminate | intros [_ ?]; discriminate]].
    destruct (dig_equals d _) eqn:E.
    - apply dig_equals_eq in E. subst d. split; auto.
    - split; [discriminate|]. intros [_ E']. injection E' as E'. subst d.
      assert (X : dig_equals (digest_of (e_doc e)) (digest_of (e_doc e)) = true) by (apply dig_equals_eq; reflexivity).
      rewrite X in E. discriminate.
  Qed.

  Lemma canon_respects v1 v2 : wf v1 -> wf v2 -> norm v1 = norm v2 -> canon v1 = canon v2.
  Proof. intros W1 W2 E. rewrite (canon_norm v1 W1), (canon_norm v2 W2), E. reflexivity. Qed.

  (* 1. a calculated envelope validates (whenever its parts pass their own Validate methods) *)
  Lemma calculated_validates e e1 : calculate e = Some e1 -> structural e1 = true -> validate e1 = Valid.
  Proof.
    unfold Envelope.calculate. destruct (calc_doc (e_doc e)) as [d'|]; [|discriminate].
    intros E S. injection E as E. subst e1. apply validate_ok_iff. split; [exact S | reflexivity].
  Qed.

  (* 2. a content-preserving re-encoding of the document keeps the envelope valid *)
  Lemma reencoding_preserves_validity_at e d' :
    canon d' = canon (e_doc e) ->
    structural (with_doc e d') = structural e ->
    validate e = Valid -> validate (with_doc e d') = Valid.
  Proof.
    intros CE S V. apply validate_ok_iff in V. destruct V as [S1 D1].
    apply validate_ok_iff. rewrite S. split; [exact S1|]. cbn. rewrite D1.
    unfold Envelope.digest_of. rewrite CE. reflexivity.
  Qed.

  Lemma reencoding_preserves_validity e d' :
    wf (e_doc e) -> wf d' -> norm d' = norm (e_doc e) ->
    structural (with_doc e d') = structural e ->
    validate e = Valid -> validate (with_doc e d') = Valid.
  Proof.
    intros W W' N. apply reencoding_preserves_validity_at. exact (canon_respects d' (e_doc e) W' W N).
  Qed.

  (* 3. undetected tampering is a collision of H on two explicit, distinct byte strings *)
  Lemma digest_tamper_evident_at e d' :
    (canon (e_doc e) = canon d' -> norm d' = norm (e_doc e)) ->
    validate e = Valid -> validate (with_doc e d') = Valid ->
    norm d' = norm (e_doc e) \/
    (canon (e_doc e) <> canon d' /\ H (canon (e_doc e)) = H (canon d')).
  Proof.
    intros CI V V'. apply validate_ok_iff in V. apply validate_ok_iff in V'.
    destruct V as [_ D], V' as [_ D']. cbn in D'. rewrite D in D'. injection D' as D'.
    destruct (list_eq_dec Byte.byte_eq_dec (canon (e_doc e)) (canon d')) as [E|NE].
    - left. apply CI. exact E.
    - right. split; assumption.
  Qed.

  Lemma digest_tamper_evident e d' :
    wf (e_doc e) -> wf d' ->
    validate e = Valid -> validate (with_doc e d') = Valid ->
    norm d' = norm (e_doc e) \/
    (canon (e_doc e) <> canon d' /\ H (canon (e_doc e)) = H (canon d')).
  Proof.
    intros W W'. apply digest_tamper_evident_at. intro E. symmetry. apply canon_inj; auto.
  Qed.

  (* 3'. the same, read forwards: changed content, no collision => rejected; and rejected with the
     digest error when the changed envelope is structurally fine *)
  Lemma tampered_is_rejected_at e d' :
    (canon (e_doc e) = canon d' -> norm d' = norm (e_doc e)) ->
    validate e = Valid ->
    norm d' <> norm (e_doc e) -> H (canon (e_doc e)) <> H (canon d') ->
    validate (with_doc e d') <> Valid /\
    (structural (with_doc e d') = true -> validate (with_doc e d') = ErrDigest).
  Proof.
    intros CI V N NH.
    assert (NV : validate (with_doc e d') <> Valid).
    { intro V'. destruct (digest_tamper_evident_at e d' CI V V') as [X|[_ X]]; contradiction. }
    split; [exact NV|]. intro S. revert NV. unfold Envelope.validate. rewrite S. cbn.
    apply validate_ok_iff in V. destruct V as [_ D]. rewrite D.
    destruct (dig_equals _ _); [intro X; exfalso; apply X; reflexivity | reflexivity].
  Qed.

  Lemma tampered_is_rejected e d' :
    wf (e_doc e) -> wf d' -> validate e = Valid ->
    norm d' <> norm (e_doc e) -> H (canon (e_doc e)) <> H (canon d') ->
    validate (with_doc e d') <> Valid /\
    (structural (with_doc e d') = true -> validate (with_doc e d') = ErrDigest).
  Proof.
    intros W W'. apply tampered_is_rejected_at. intro E. symmetry. apply canon_inj; auto.
  Qed.

  (* 4. recalculating a changed document changes the digest, or exhibits a collision *)
  Lemma recalculated_digest_differs_at e d' e1 :
    (canon (e_doc e) = canon (e_doc e1) -> norm (e_doc e1) = norm (e_doc e)) ->
    validate e = Valid -> calculate (with_doc e d') = Some e1 ->
    norm (e_doc e1) <> norm (e_doc e) ->
    e_dig e1 <> e_dig e \/
    (canon (e_doc e) <> canon (e_doc e1) /\ H (canon (e_doc e)) = H (canon (e_doc e1))).
  Proof.
    intros CI V C N. apply validate_ok_iff in V. destruct V as [_ D].
    unfold Envelope.calculate in C. cbn in C. destruct (calc_doc d') as [d1|]; [|discriminate].
    injection C as C. subst e1. cbn in *. rewrite D.
    destruct (list_eq_dec Byte.byte_eq_dec (H (canon (e_doc e))) (H (canon d1))) as [E|NE].
    - right. split; [|exact E]. intro E'. apply N. apply CI. exact E'.
    - left. intro X. injection X as X. apply NE. symmetry. exact X.
  Qed.

  Lemma recalculated_digest_differs e d' e1 :
    wf (e_doc e) -> wf (e_doc e1) ->
    validate e = Valid -> calculate (with_doc e d') = Some e1 ->
    norm (e_doc e1) <> norm (e_doc e) ->
    e_dig e1 <> e_dig e \/
    (canon (e_doc e) <> canon (e_doc e1) /\ H (canon (e_doc e)) = H (canon (e_doc e1))).
  Proof.
    intros W W1. apply recalculated_digest_differs_at. intro E. symmetry. apply canon_inj; auto.
  Qed.

  (* and a recalculated envelope carries the digest of its own (recalculated) document *)
  Lemma recalculated_digest_is_fresh e e1 : calculate e = Some e1 -> e_dig e1 = Some (digest_of (e_doc e1)).
  Proof.
    unfold Envelope.calculate. destruct (calc_doc (e_doc e)); [|discriminate]. intro E. injection E as E. subst e1. reflexivity.
  Qed.
End Proofs.

(* ---- the derived `$regime` member (row 29) ---- *)
Lemma lookup_remove_same k m : lookup k (remove_member k m) = None.
Proof.
  induction m as [|[k' x] m IH]; cbn; [reflexivity|].
  destruct (eqb_bytes k k') eqn:E; [exact IH|]. cbn. rewrite E. exact IH.
Qed.

Lemma lookup_remove_other k k' m : eqb_bytes k' k = false -> lookup k' (remove_member k m) = lookup k' m.
Proof.
  intro NE. induction m as [|[k2 x] m IH]; cbn; [reflexivity|].
  destruct (eqb_bytes k k2) eqn:E.
  - apply eqb_bytes_eq in E. subst k2. rewrite NE. exact IH.
  - cbn. rewrite IH. reflexivity.
Qed.

Lemma remove_member_idem k m : remove_member k (remove_member k m) = remove_member k m.
Proof.
  induction m as [|[k' x] m IH]; cbn; [reflexivity|].
  destruct (eqb_bytes k k') eqn:E; [exact IH|]. cbn. rewrite E, IH. reflexivity.
Qed.

Lemma regime_deletion_invisible defined m c :
  regime_of m = c -> c <> [] -> supplier_country m = c -> defined c = true ->
  parse_invoice defined (CObj (remove_member k_regime m)) = parse_invoice defined (CObj m).
Proof.
  intros R NE S D. unfold parse_invoice.
  assert (R' : regime_of (remove_member k_regime m) = []).
  { unfold regime_of. rewrite lookup_remove_same. reflexivity. }
  assert (S' : supplier_country (remove_member k_regime m) = c).
  { unfold supplier_country. rewrite lookup_remove_other by reflexivity. exact S. }
  rewrite R', S', D, R, remove_member_idem.
  destruct c; [contradiction|reflexivity].
Qed.
