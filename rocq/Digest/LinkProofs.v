(* C08 <-> C07 - proofs about Digest/Link.v: the translation to_json carries C08's norm / wf to
   C07's norm / dupfree, the real canonical form (real_canon) is invariant under norm and injective
   up to norm on the domain in_domain, and it is what C07's canon answers on every text that reads
   as the translated value. *)
From Coq Require Import List ZArith Strings.Byte Bool Lia Permutation.
From Verif Require Import Base.Wire Json.Utf8 Json.Json Json.Number Json.Lexer Json.C14n
  Json.JsonProofs Json.LexProofs Json.C14nProofs Json.PanicProofs Json.ShapeProofs.
From Verif Require Digest.Content Digest.ContentProofs.
From Verif Require Import Digest.Link.
Import ListNotations.

Module C := Digest.Content.
Module CP := Digest.ContentProofs.
Notation content := C.content.
Notation CNull := C.CNull.
Notation CBool := C.CBool.
Notation CNum := C.CNum.
Notation CStr := C.CStr.
Notation CArr := C.CArr.
Notation CObj := C.CObj.

(* the member-level translation *)
Definition tj (kv : C.member) : member := (fst kv, to_json (snd kv)).

Lemma to_json_obj m : to_json (CObj m) = JObj (map tj m).
Proof. reflexivity. Qed.

(* ---- the two byte orders are the same order ---- *)
Lemma ofN_ltb n m : (Z.of_N n <? Z.of_N m)%Z = N.ltb n m.
Proof.
  destruct (N.ltb n m) eqn:E.
  - apply N.ltb_lt in E. apply Z.ltb_lt. lia.
  - apply N.ltb_ge in E. apply Z.ltb_ge. lia.
Qed.

Lemma leb_ltb a : forall b, C.leb_bytes a b = negb (bytes_ltb b a).
Proof.
  induction a as [|x a IH]; destruct b as [|y b]; cbn; try reflexivity.
  unfold bZ. rewrite !ofN_ltb.
  destruct (N.ltb (Byte.to_N x) (Byte.to_N y)) eqn:E1.
  - apply N.ltb_lt in E1. destruct (N.ltb (Byte.to_N y) (Byte.to_N x)) eqn:E2; [apply N.ltb_lt in E2; lia | reflexivity].
  - destruct (N.ltb (Byte.to_N y) (Byte.to_N x)); [reflexivity | apply IH].
Qed.

(* ---- the two sorts are the same stable sort ---- *)
Lemma tj_insert kv l : map tj (C.insert_member kv l) = insert_member (tj kv) (map tj l).
Proof.
  induction l as [|h t IH]; cbn; [reflexivity|].
  rewrite leb_ltb. destruct (bytes_ltb (fst h) (fst kv)); cbn; [rewrite IH|]; reflexivity.
Qed.

Lemma tj_sort l : map tj (C.sort_members l) = sort_members (map tj l).
Proof.
  induction l as [|a l IH]; [reflexivity|].
  change (C.sort_members (a :: l)) with (C.insert_member a (C.sort_members l)).
  cbn [map]. rewrite sort_cons, tj_insert, IH. reflexivity.
Qed.

Lemma num_to_json_not_null t v : num_to_json t = Some v -> (exists z, v = JInt z) \/ (exists f, v = JFloat f).
Proof.
  unfold num_to_json. destruct (scan_number t) as [[lit [|? ?]]|]; try discriminate.
  destruct (parse_int64 lit); [intro E; injection E as <-; left; eexists; reflexivity|].
  destruct (parse_float lit); [intro E; injection E as <-; right; eexists; reflexivity | discriminate].
Qed.

Lemma is_null_to_json d : is_null (to_json d) = C.is_null d.
Proof.
  destruct d; try reflexivity. cbn. destruct (num_to_json t) as [v|] eqn:E; [|reflexivity].
  destruct (num_to_json_not_null _ _ E) as [[z ->]|[f ->]]; reflexivity.
Qed.

Lemma tj_drop_null l : map tj (C.drop_null l) = filter notnull (map tj l).
Proof.
  unfold C.drop_null. induction l as [|[k x] l IH]; [reflexivity|].
  cbn [map filter snd]. unfold notnull at 1, tj at 2. cbn [snd]. rewrite is_null_to_json.
  destruct (C.is_null x); cbn [negb map]; rewrite IH; reflexivity.
Qed.

(* C07's norm of an object, in the order of operations C08's norm uses *)
Lemma jnorm_obj m : norm (JObj m) = JObj (sort_members (filter notnull (map (onval norm) m))).
Proof.
  rewrite norm_obj. f_equal.
  change (map (onval strip)) with (map (fun kv : member => (fst kv, strip (snd kv)))).
  rewrite sort_map_val, filter_sort. f_equal. f_equal. rewrite map_map. reflexivity.
Qed.

(* ---- 1. norm corresponds to norm ---- *)
Lemma to_json_norm d : to_json (C.norm d) = norm (to_json d).
Proof.
  induction d as [| | | |l IH|m IH] using CP.content_ind'; try reflexivity.
  - cbn. destruct (num_to_json t) as [v|] eqn:E; [|reflexivity].
    destruct (num_to_json_not_null _ _ E) as [[z ->]|[f ->]]; reflexivity.
  - cbn [C.norm to_json]. rewrite norm_arr, !map_map. f_equal. apply map_ext_Forall. exact IH.
  - cbn [C.norm]. rewrite !to_json_obj, jnorm_obj, tj_sort, tj_drop_null. f_equal. f_equal. f_equal.
    rewrite !map_map. apply map_ext_Forall. eapply Forall_impl; [|exact IH].
    intros [k x] Hx. cbn in *. unfold tj, onval. cbn. rewrite Hx. reflexivity.
Qed.

(* ---- 2. wf corresponds to dupfree ---- *)
Lemma existsb_eqb_In k l : existsb (eqb_bytes k) l = true <-> In k l.
Proof.
  rewrite existsb_exists. split.
  - intros [x [Hx E]]. apply eqb_bytes_eq in E. subst x. exact Hx.
  - intro Hk. exists k. split; [exact Hk | apply eqb_bytes_eq; reflexivity].
Qed.

Lemma nodup_keysb_iff l : nodup_keysb l = true <-> NoDup l.
Proof.
  split; [apply nodup_keysb_NoDup|].
  induction 1 as [|k l Hk Hl IH]; cbn; [reflexivity|]. rewrite IH, andb_true_r.
  destruct (existsb (eqb_bytes k) l) eqn:E; [|reflexivity]. apply existsb_eqb_In in E. contradiction.
Qed.

Lemma map_fst_tj m : map fst (map tj m) = map fst m.
Proof. rewrite map_map. reflexivity. Qed.

Lemma wfb_dupfree d : wfb d = dupfree (to_json d).
Proof.
  induction d as [| | | |l IH|m IH] using CP.content_ind'; try reflexivity.
  - cbn. destruct (num_to_json t) as [v|] eqn:E; [|reflexivity].
    destruct (num_to_json_not_null _ _ E) as [[z ->]|[f ->]]; reflexivity.
  - cbn [wfb to_json dupfree]. induction IH as [|x l Hx Hl IHl]; cbn; [reflexivity|]. rewrite Hx, IHl. reflexivity.
  - rewrite to_json_obj. cbn [wfb dupfree]. rewrite map_fst_tj. f_equal.
    induction IH as [|[k x] m Hx Hm IHm]; cbn; [reflexivity|]. cbn in Hx. rewrite Hx, IHm. reflexivity.
Qed.

Lemma wf_wfb d : C.wf d <-> wfb d = true.
Proof.
  induction d as [| | | |l IH|m IH] using CP.content_ind'; cbn [C.wf wfb]; try (split; auto; fail).
  - induction IH as [|x l Hx Hl IHl]; cbn; [split; auto|]. rewrite andb_true_iff, Hx, IHl. reflexivity.
  - rewrite andb_true_iff, nodup_keysb_iff.
    enough (X : C.all_members C.wf m <-> forallb (fun kv => wfb (snd kv)) m = true) by (rewrite X; reflexivity).
    induction IH as [|kv m Hx Hm IHm]; cbn; [split; auto|]. rewrite andb_true_iff, Hx, IHm. reflexivity.
Qed.

Lemma wf_dupfree d : C.wf d <-> dupfree (to_json d) = true.
Proof. rewrite wf_wfb, wfb_dupfree. reflexivity. Qed.

(* ---- 3. the domain ---- *)
Lemma num_okb_inv t : num_okb t = true ->
  (exists z, num_to_json t = Some (JInt z) /\ in_int64 z = true /\ format_int z = t) \/
  (exists f, num_to_json t = Some (JFloat f) /\ float_exactb f = true /\ float_marshal cfg_fixed f = t).
Proof.
  unfold num_okb. destruct (num_to_json t) as [v|] eqn:E; [|discriminate].
  destruct v; try discriminate; intro H.
  - left. exists z. apply eqb_bytes_eq in H. repeat split; auto.
    unfold num_to_json in E. destruct (scan_number t) as [[lit [|? ?]]|]; try discriminate.
    destruct (parse_int64 lit) as [z'|] eqn:P.
    + injection E as ->. eapply parse_int64_range; eauto.
    + destruct (parse_float lit); discriminate.
  - right. exists f. apply andb_true_iff in H. destruct H as [H1 H2]. apply eqb_bytes_eq in H2. auto.
Qed.

Lemma in_domain_jgood d : in_domain d = true -> jgood (to_json d) = true.
Proof.
  induction d as [| | | |l IH|m IH] using CP.content_ind'; cbn [in_domain]; intro H; try reflexivity; try exact H.
  - cbn. destruct (num_okb_inv _ H) as [[z [-> [R _]]]|[f [-> [R _]]]]; exact R.
  - cbn [to_json jgood]. rewrite forallb_forall in *. rewrite Forall_forall in IH.
    intros y Hy. apply in_map_iff in Hy. destruct Hy as [x [<- Hx]]. auto.
  - rewrite to_json_obj. cbn [jgood]. rewrite forallb_forall in *. rewrite Forall_forall in IH.
    intros y Hy. apply in_map_iff in Hy. destruct Hy as [x [<- Hx]]. specialize (H x Hx).
    apply andb_true_iff in H. destruct H as [H1 H2].
    change (clean_utf8 (fst x) && jgood (to_json (snd x)) = true). rewrite H1. cbn [andb]. auto.
Qed.

Lemma jgood_sortrec v : jgood v = true -> jgood (sortrec v) = true.
Proof.
  induction v using jv_ind2; auto.
  - cbn [sortrec jgood]. rewrite !forallb_forall. rewrite Forall_forall in H. intros HG y Hy.
    apply in_map_iff in Hy. destruct Hy as [x [<- Hx]]. auto.
  - rewrite sortrec_obj. cbn [jgood]. rewrite !forallb_forall. rewrite Forall_forall in H. intros HG y Hy.
    eapply Permutation_in in Hy; [|apply sort_perm].
    apply in_map_iff in Hy. destruct Hy as [x [<- Hx]]. specialize (HG x Hx).
    apply andb_true_iff in HG. destruct HG as [H1 H2].
    change (clean_utf8 (fst x) && jgood (sortrec (snd x)) = true). rewrite H1. cbn [andb]. auto.
Qed.

Lemma jgood_strip v : jgood v = true -> jgood (strip v) = true.
Proof.
  induction v using jv_ind2; auto.
  - cbn [strip jgood]. rewrite !forallb_forall. rewrite Forall_forall in H. intros HG y Hy.
    apply in_map_iff in Hy. destruct Hy as [x [<- Hx]]. auto.
  - rewrite strip_obj. cbn [jgood]. rewrite !forallb_forall. rewrite Forall_forall in H. intros HG y Hy.
    apply filter_In in Hy. destruct Hy as [Hy _].
    apply in_map_iff in Hy. destruct Hy as [x [<- Hx]]. specialize (HG x Hx).
    apply andb_true_iff in HG. destruct HG as [H1 H2].
    change (clean_utf8 (fst x) && jgood (strip (snd x)) = true). rewrite H1. cbn [andb]. auto.
Qed.

Lemma jgood_norm v : jgood v = true -> jgood (norm v) = true.
Proof. intro H. unfold norm. apply jgood_strip, jgood_sortrec, H. Qed.

Lemma jgood_readable v : jgood v = true -> readable_exact v.
Proof.
  induction v using jv_ind2; cbn [jgood readable_exact]; auto.
  - apply float_exactb_sound.
  - intro HG. rewrite forallb_forall in HG. apply all_list_Forall. rewrite Forall_forall in *. auto.
  - intro HG. rewrite forallb_forall in HG. apply all_list_Forall. rewrite Forall_forall in *.
    intros x Hx. specialize (HG x Hx). apply andb_true_iff in HG. destruct HG as [_ H2]. auto.
Qed.

(* the printer accepts every good value *)
Lemma jgood_prints v : jgood v = true -> exists o, print v = Ok o.
Proof.
  unfold print. induction v using jv_ind2; cbn [jgood]; intro HG; try discriminate.
  - eexists; reflexivity.
  - destruct b; eexists; reflexivity.
  - eexists; reflexivity.
  - eexists; reflexivity.
  - apply encode_string_accepts. exact HG.
  - rewrite marshal_arr.
    assert (HB : forall first, exists b, arr_body (marshal cfg_fixed) l first = Ok b).
    { rewrite forallb_forall in HG. induction H as [|x l Hx HF IH]; intro first; [eexists; reflexivity|].
      rewrite arr_body_cons. destruct (Hx (HG x (or_introl eq_refl))) as [a ->]. cbn [bind].
      destruct (IH (fun y Hy => HG y (or_intror Hy)) false) as [b ->]. cbn [bind]. eexists; reflexivity. }
    destruct (HB true) as [b ->]. eexists; reflexivity.
  - rewrite marshal_obj.
    assert (HB : forall first written, exists b, obj_body cfg_fixed (marshal cfg_fixed) m first written = Ok b).
    { rewrite forallb_forall in HG. induction H as [|[k x] m Hx HF IH]; intros first written; [eexists; reflexivity|].
      rewrite obj_body_cons. pose proof (HG (k, x) (or_introl eq_refl)) as Hkx.
      apply andb_true_iff in Hkx. cbn [fst snd] in Hkx. destruct Hkx as [Hk Hgx].
      assert (IH' := IH (fun y Hy => HG y (or_intror Hy))).
      cbn [fix_nullkey cfg_fixed negb]. rewrite andb_false_r.
      destruct (encode_string_accepts k Hk) as [kb ->]. cbn [bind].
      destruct (is_null x); [apply IH'|].
      cbn [snd] in Hx. destruct (Hx Hgx) as [a ->]. cbn [bind].
      destruct (IH' false true) as [b ->]. cbn [bind]. eexists; reflexivity. }
    destruct (HB true false) as [b ->]. eexists; reflexivity.
Qed.

Lemma real_canon_ok d : in_domain d = true -> print (sortrec (to_json d)) = Ok (real_canon d).
Proof.
  intro HD. unfold real_canon.
  destruct (jgood_prints _ (jgood_sortrec _ (in_domain_jgood _ HD))) as [o ->]. reflexivity.
Qed.

Lemma real_canon_prints_norm d : in_domain d = true -> print (norm (to_json d)) = Ok (real_canon d).
Proof. intro HD. unfold norm, print. apply marshal_strip; [reflexivity|]. apply real_canon_ok. exact HD. Qed.

(* the domain is closed under C08's norm *)
Lemma forallb_csort (p : C.member -> bool) l : forallb p l = true -> forallb p (C.sort_members l) = true.
Proof.
  rewrite !forallb_forall. intros HF. apply Forall_forall. apply CP.Forall_sort. apply Forall_forall. exact HF.
Qed.

Lemma in_domain_norm d : in_domain d = true -> in_domain (C.norm d) = true.
Proof.
  induction d as [| | | |l IH|m IH] using CP.content_ind'; cbn [C.norm in_domain]; intro H; auto.
  - rewrite forallb_forall in *. rewrite Forall_forall in IH.
    intros y Hy. apply in_map_iff in Hy. destruct Hy as [x [<- Hx]]. auto.
  - apply forallb_csort. rewrite forallb_forall in *. rewrite Forall_forall in IH.
    intros y Hy. apply filter_In in Hy. destruct Hy as [Hy _].
    apply in_map_iff in Hy. destruct Hy as [[k x] [<- Hx]]. specialize (H _ Hx). cbn in *.
    apply andb_true_iff in H. destruct H as [H1 H2]. rewrite H1. cbn. exact (IH _ Hx H2).
Qed.

(* on the domain the translation loses nothing *)
Lemma to_json_num t : num_okb t = true ->
  (exists z, to_json (CNum t) = JInt z /\ format_int z = t) \/
  (exists f, to_json (CNum t) = JFloat f /\ float_marshal cfg_fixed f = t).
Proof.
  intro H. cbn. destruct (num_okb_inv _ H) as [[z [-> [_ E]]]|[f [-> [_ E]]]]; [left|right]; eexists; split; eauto.
Qed.

Lemma to_json_inj d1 : forall d2, in_domain d1 = true -> in_domain d2 = true -> to_json d1 = to_json d2 -> d1 = d2.
Proof.
  induction d1 as [|b|t|s|l IH|m IH] using CP.content_ind'; intros d2 D1 D2 E.
  - destruct d2; try discriminate; try reflexivity.
    cbn [in_domain] in D2. destruct (to_json_num _ D2) as [[z [R _]]|[f [R _]]]; rewrite R in E; discriminate.
  - destruct d2; try discriminate.
    + injection E as ->. reflexivity.
    + cbn [in_domain] in D2. destruct (to_json_num _ D2) as [[z [R _]]|[f [R _]]]; rewrite R in E; discriminate.
  - cbn [in_domain] in D1.
    destruct d2 as [|b2|t2|s2|l2|m2];
      try (destruct (to_json_num _ D1) as [[z [R _]]|[f [R _]]]; rewrite R in E; discriminate).
    cbn [in_domain] in D2.
    destruct (to_json_num _ D1) as [[z [R1 F1]]|[f [R1 F1]]], (to_json_num _ D2) as [[z2 [R2 F2]]|[f2 [R2 F2]]];
      rewrite R1, R2 in E; try discriminate; injection E as ->; rewrite <- F1, <- F2; reflexivity.
  - destruct d2; try discriminate.
    + cbn [in_domain] in D2. destruct (to_json_num _ D2) as [[z [R _]]|[f [R _]]]; rewrite R in E; discriminate.
    + injection E as ->. reflexivity.
  - destruct d2 as [|b2|t2|s2|l2|m2]; try discriminate.
    + cbn [in_domain] in D2. destruct (to_json_num _ D2) as [[z [R _]]|[f [R _]]]; rewrite R in E; discriminate.
    + cbn [to_json in_domain] in *. injection E as E. f_equal.
      revert l2 D2 E. induction IH as [|x l Hx Hl IHl]; intros [|y l2] D2 E; try discriminate; [reflexivity|].
      cbn in D1, D2, E. apply andb_true_iff in D1. apply andb_true_iff in D2. destruct D1 as [Dx Dl], D2 as [Dy Dl2].
      injection E as E1 E2. f_equal; [apply Hx; auto | apply IHl; auto].
  - destruct d2 as [|b2|t2|s2|l2|m2]; try discriminate.
    + cbn [in_domain] in D2. destruct (to_json_num _ D2) as [[z [R _]]|[f [R _]]]; rewrite R in E; discriminate.
    + rewrite !to_json_obj in E. cbn [in_domain] in *. injection E as E. f_equal.
      revert m2 D2 E. induction IH as [|[k x] m Hx Hm IHm]; intros [|[k2 y] m2] D2 E; try discriminate; [reflexivity|].
      cbn in D1, D2, E, Hx. apply andb_true_iff in D1. apply andb_true_iff in D2. destruct D1 as [Dx Dm], D2 as [Dy Dm2].
      apply andb_true_iff in Dx. apply andb_true_iff in Dy.
      injection E as E0 E1 E2. subst k2. f_equal; [f_equal; apply Hx; tauto | apply IHm; auto].
Qed.

(* ---- 4. the two premises of C08, for the real canonical form ---- *)
Lemma real_canon_invariant d : in_domain d = true -> real_canon d = real_canon (C.norm d).
Proof.
  intro HD. pose proof (real_canon_ok _ (in_domain_norm _ HD)) as H2.
  rewrite to_json_norm, sortrec_norm, (real_canon_prints_norm _ HD) in H2. injection H2 as H2. exact H2.
Qed.

Lemma real_canon_injective d1 d2 : in_domain d1 = true -> in_domain d2 = true ->
  real_canon d1 = real_canon d2 -> C.norm d1 = C.norm d2.
Proof.
  intros D1 D2 E.
  pose proof (real_canon_prints_norm _ D1) as P1. pose proof (real_canon_prints_norm _ D2) as P2.
  rewrite <- E in P2.
  assert (R1 : readable_exact (norm (to_json d1))) by (apply jgood_readable, jgood_norm, in_domain_jgood, D1).
  assert (R2 : readable_exact (norm (to_json d2))) by (apply jgood_readable, jgood_norm, in_domain_jgood, D2).
  pose proof (parse_print_exact _ _ P1 R1) as Q1. pose proof (parse_print_exact _ _ P2 R2) as Q2.
  rewrite Q1 in Q2. injection Q2 as Q. rewrite !strip_norm, <- !to_json_norm in Q.
  apply to_json_inj; auto using in_domain_norm.
Qed.

(* the converse of injectivity: same content, same canonical form *)
Lemma real_canon_respects d1 d2 : in_domain d1 = true -> in_domain d2 = true ->
  C.norm d1 = C.norm d2 -> real_canon d1 = real_canon d2.
Proof. intros D1 D2 E. rewrite (real_canon_invariant _ D1), (real_canon_invariant _ D2), E. reflexivity. Qed.

(* ---- 5. real_canon is C07's canon on every text of the document ---- *)
Lemma real_canon_is_canon d t : in_domain d = true -> parse t = Ok (to_json d) -> canon t = Ok (real_canon d).
Proof. intros HD P. rewrite canon_spec, P. cbn [bind]. apply real_canon_ok. exact HD. Qed.

(* the canonical form is never empty on the domain (the default [] is not reached) and parses back
   to the translated, normalised document *)
Lemma real_canon_parses_back d : in_domain d = true -> parse (real_canon d) = Ok (to_json (C.norm d)).
Proof.
  intro HD. rewrite to_json_norm.
  rewrite (parse_print_exact _ _ (real_canon_prints_norm _ HD)) by (apply jgood_readable, jgood_norm, in_domain_jgood, HD).
  rewrite strip_norm. reflexivity.
Qed.

(* ---- 6. of_json is a right inverse of to_json on good values, and lands in the domain ---- *)
Lemma num_to_json_int z : in_int64 z = true -> num_to_json (format_int z) = Some (JInt z).
Proof.
  intro R. unfold num_to_json. pose proof (scan_number_int z [] I) as S. rewrite app_nil_r in S. rewrite S.
  rewrite (parse_int64_format z R). reflexivity.
Qed.

Lemma num_to_json_float f : float_exactb f = true -> num_to_json (float_marshal cfg_fixed f) = Some (JFloat f).
Proof.
  intro R. destruct (float_exactb_sound f R) as [Sh Pf]. destruct (float_shape_scan _ Sh) as [S [Pi _]].
  unfold num_to_json. specialize (S [] I). rewrite app_nil_r in S. rewrite S, Pi, Pf. reflexivity.
Qed.

Lemma eqb_bytes_refl a : eqb_bytes a a = true.
Proof. apply eqb_bytes_eq. reflexivity. Qed.

Lemma of_json_good v : jgood v = true -> to_json (of_json v) = v /\ in_domain (of_json v) = true.
Proof.
  induction v using jv_ind2; cbn [jgood]; intro HG; try discriminate; try (split; reflexivity).
  - cbn [of_json to_json in_domain]. unfold num_okb. rewrite (num_to_json_int z HG), eqb_bytes_refl. split; reflexivity.
  - cbn [of_json to_json in_domain]. unfold num_okb. rewrite (num_to_json_float f HG), HG, eqb_bytes_refl. split; reflexivity.
  - split; [reflexivity | exact HG].
  - cbn [of_json to_json in_domain]. rewrite forallb_forall in HG.
    assert (X : map to_json (map of_json l) = l /\ forallb in_domain (map of_json l) = true).
    { induction H as [|x l Hx Hl IHl]; [split; reflexivity|].
      destruct (Hx (HG x (or_introl eq_refl))) as [E1 E2].
      destruct (IHl (fun y Hy => HG y (or_intror Hy))) as [E3 E4].
      cbn. rewrite E1, E2, E3, E4. split; reflexivity. }
    destruct X as [-> ->]. split; reflexivity.
  - cbn [of_json in_domain]. rewrite to_json_obj. rewrite forallb_forall in HG.
    assert (X : map tj (map (fun kv : member => (fst kv, of_json (snd kv))) m) = m /\
                forallb (fun kv : C.member => clean_utf8 (fst kv) && in_domain (snd kv))
                        (map (fun kv : member => (fst kv, of_json (snd kv))) m) = true).
    { induction H as [|[k x] m Hx Hm IHm]; [split; reflexivity|].
      pose proof (HG (k, x) (or_introl eq_refl)) as Hkx. apply andb_true_iff in Hkx. cbn [fst snd] in Hkx, Hx.
      destruct Hkx as [Hk Hgx]. destruct (Hx Hgx) as [E1 E2].
      destruct (IHm (fun y Hy => HG y (or_intror Hy))) as [E3 E4].
      cbn [map forallb fst snd]. unfold tj at 1. cbn [fst snd]. rewrite E1, E2, E3, E4, Hk. split; reflexivity. }
    destruct X as [X1 X2]. split; [f_equal; exact X1 | exact X2].
Qed.

(* so: for every text t that c14n reads as a good value v, c14n's answer is real_canon (of_json v) *)
Lemma real_canon_of_text t v : parse t = Ok v -> jgood v = true ->
  in_domain (of_json v) = true /\ canon t = Ok (real_canon (of_json v)).
Proof.
  intros P G. destruct (of_json_good v G) as [E D]. split; [exact D|].
  apply real_canon_is_canon; [exact D | rewrite E; exact P].
Qed.

(* ---- 7. the envelope lemmas of Digest/EnvelopeProofs.v for canon := real_canon: no premise on
   the canonicaliser is left, only the domain of the two documents involved ---- *)
From Verif Require Digest.Envelope Digest.EnvelopeProofs.
Module E := Digest.Envelope.
Module EP := Digest.EnvelopeProofs.

Section Real.
  Variable rest : Type.
  Variable H : bytes -> bytes.
  Variable structural : E.envelope content rest -> bool.
  Variable calc_doc : content -> option content.

  Notation validate := (E.validate content rest real_canon H structural).
  Notation calculate := (E.calculate content rest real_canon H calc_doc).

  Lemma reencoding_preserves_validity_real e d' :
    in_domain (E.e_doc e) = true -> in_domain d' = true -> C.norm d' = C.norm (E.e_doc e) ->
    structural (E.with_doc e d') = structural e ->
    validate e = E.Valid -> validate (E.with_doc e d') = E.Valid.
  Proof.
    intros D D' N. apply EP.reencoding_preserves_validity_at. apply real_canon_respects; assumption.
  Qed.

  Lemma digest_tamper_evident_real e d' :
    in_domain (E.e_doc e) = true -> in_domain d' = true ->
    validate e = E.Valid -> validate (E.with_doc e d') = E.Valid ->
    C.norm d' = C.norm (E.e_doc e) \/
    (real_canon (E.e_doc e) <> real_canon d' /\ H (real_canon (E.e_doc e)) = H (real_canon d')).
  Proof.
    intros D D'. apply EP.digest_tamper_evident_at. intro X. symmetry. apply real_canon_injective; assumption.
  Qed.

  Lemma tampered_is_rejected_real e d' :
    in_domain (E.e_doc e) = true -> in_domain d' = true -> validate e = E.Valid ->
    C.norm d' <> C.norm (E.e_doc e) -> H (real_canon (E.e_doc e)) <> H (real_canon d') ->
    validate (E.with_doc e d') <> E.Valid /\
    (structural (E.with_doc e d') = true -> validate (E.with_doc e d') = E.ErrDigest).
  Proof.
    intros D D'. apply EP.tampered_is_rejected_at. intro X. symmetry. apply real_canon_injective; assumption.
  Qed.

  Lemma recalculated_digest_differs_real e d' e1 :
    in_domain (E.e_doc e) = true -> in_domain (E.e_doc e1) = true ->
    validate e = E.Valid -> calculate (E.with_doc e d') = Some e1 ->
    C.norm (E.e_doc e1) <> C.norm (E.e_doc e) ->
    E.e_dig e1 <> E.e_dig e \/
    (real_canon (E.e_doc e) <> real_canon (E.e_doc e1) /\ H (real_canon (E.e_doc e)) = H (real_canon (E.e_doc e1))).
  Proof.
    intros D D1. apply EP.recalculated_digest_differs_at. intro X. symmetry. apply real_canon_injective; assumption.
  Qed.
End Real.
