(* C08 <-> C04 - proofs about typed documents (Digest/Typed.v): the tree the typed-marshalling model
   writes has no duplicate member names at any depth (Content.wf of its content), so the `wf` premises of
   the digest theorems are theorems for typed documents; and the edits of the text the reader undoes
   (member order of a struct, members no field listens to) leave no trace in document, canonical bytes,
   digest, verdict. *)
From Coq Require Import String.
From Coq Require Import List ZArith Strings.Byte Bool Lia Permutation Sorting.Sorted.
From Verif Require Import Base.Wire Marshal.Typed Marshal.Wf Marshal.TypedLeafProofs Marshal.TypedProofs
  Marshal.FuelProofs Gen.GoTypes Marshal.Env Marshal.EnvProofs.
From Verif Require Import Digest.Content Digest.Typed.
From Verif Require Digest.Envelope Digest.EnvelopeProofs Digest.Link Digest.LinkProofs.
Import ListNotations.

Module V := Digest.Envelope.
Module VP := Digest.EnvelopeProofs.
Module L := Digest.Link.
Module LP := Digest.LinkProofs.

(* ------------------------------------------------------------------------------------------ *)
(* well-formedness of the content of a tree, read off the tree                                 *)
(* ------------------------------------------------------------------------------------------ *)
Definition W (v : tv) : Prop := wf (content_of v).

Lemma W_arr l : W (TArr l) <-> forall x, In x l -> W x.
Proof.
  unfold W. cbn [content_of wf]. induction l as [|a l IH]; cbn [map all_list].
  - split; [intros _ x [] | auto].
  - rewrite IH. split.
    + intros [Ha Hl] x [<-|Hx]; auto.
    + intros Hx. split; [apply Hx; left; auto | intros x Hin; apply Hx; right; auto].
Qed.

Lemma content_keys (m : list (bytes * tv)) :
  map fst (map (fun kv => (fst kv, content_of (snd kv))) m) = map fst m.
Proof. rewrite map_map. reflexivity. Qed.

Lemma W_obj m : W (TObj m) <-> NoDup (map fst m) /\ forall kv, In kv m -> W (snd kv).
Proof.
  unfold W. cbn [content_of wf]. rewrite content_keys.
  assert (A : all_members wf (map (fun kv => (fst kv, content_of (snd kv))) m) <->
              forall kv, In kv m -> wf (content_of (snd kv))).
  { induction m as [|a m IH]; cbn [map all_members].
    - split; [intros _ x [] | auto].
    - rewrite IH. cbn [snd]. split.
      + intros [Ha Hl] x [<-|Hx]; auto.
      + intros Hx. split; [apply Hx; left; auto | intros x Hin; apply Hx; right; auto]. }
  rewrite A. reflexivity.
Qed.

Lemma flat_W v : flat v -> W v.
Proof. destruct v; cbn; try contradiction; intros _; exact I. Qed.

Lemma sublist_NoDup {A} (l l' : list A) : sublist l l' -> NoDup l' -> NoDup l.
Proof.
  induction 1 as [|x l l' S IH|x l l' S IH]; intros N; auto.
  - inversion N; auto.
  - inversion N as [|? ? Hn N']; subst. constructor; auto.
    intros Hin. apply Hn. eapply sublist_In; eauto.
Qed.

Lemma W_emit fv : NoDup (map f_name (map fst fv)) -> Forall (fun p => W (snd p)) fv -> W (TObj (emit fv)).
Proof.
  intros N H. apply W_obj. split.
  - eapply sublist_NoDup; [apply emit_keys_sublist | exact N].
  - intros kv Hin. apply emit_In in Hin. destruct Hin as (p & Hp & ->).
    rewrite Forall_forall in H. apply (H p Hp).
Qed.

Lemma set_W n s fv : Forall (fun p => W (snd p)) fv -> Forall (fun p => W (snd p)) (set_field n (TStr s) fv).
Proof.
  induction 1 as [|[f x] fv H HF IH]; [constructor|]. cbn [set_field].
  destruct (eqb_bytes (f_name f) n); constructor; auto. exact I.
Qed.

Lemma struct_names_NoDup h fs : struct_wfb h fs = true -> NoDup (map f_name fs).
Proof.
  intros S. apply struct_wfb_spec in S. destruct S as (_ & D & _).
  apply ndf_NoDup. eapply sublist_ndf; [|exact D].
  rewrite <- (app_nil_r (map f_name fs)) at 1. apply sublist_app; [apply sublist_refl | apply sublist_nil].
Qed.

Section Wellformed.
  Variable E : env.
  Hypothesis WE : env_wfb E = true.

  Lemma hook_W h m fv fv' : apply_hook E h m fv = Ok fv' ->
    Forall (fun p => W (snd p)) fv -> Forall (fun p => W (snd p)) fv'.
  Proof.
    assert (MS : forall l t m fv fv', move_string l t m fv = Ok fv' ->
                 Forall (fun p => W (snd p)) fv -> Forall (fun p => W (snd p)) fv').
    { intros l t m0 fv0 fv0' H. unfold move_string in H.
      destruct (assoc l m0) as [[| | |s| |]|]; try discriminate; try (inversion H; subst; auto; fail).
      destruct s; inversion H; subst; auto using set_W. }
    intros H. destruct h; cbn [apply_hook] in H.
    - inversion H; subst; auto.
    - destruct (get_field (bs "$regime") fv) as [[| | |s| |]|]; try (inversion H; subst; auto; fail).
      destruct s; [|inversion H; subst; auto].
      destruct (e_regime E (supplier_country fv)); inversion H; subst; auto using set_W.
    - destruct (assoc (bs "tags") m) as [[| | | |l|]|]; try discriminate; try (inversion H; subst; auto; fail).
      destruct l; [inversion H; subst; auto | discriminate].
    - eauto.
    - apply rbind_ok in H. destruct H as (fv1 & H1 & H2). eauto.
    - destruct (assoc (bs "tags") m) as [[| | | |l|]|]; try discriminate; try (inversion H; subst; auto; fail).
      destruct l as [|[| | |k| |] r]; try discriminate; try (inversion H; subst; auto; fail).
      destruct (negb (all_strings r)); [discriminate|].
      destruct (get_field (bs "rate") fv) as [[| | |s| |]|]; try (inversion H; subst; auto; fail).
      destruct s; inversion H; subst; auto using set_W.
  Qed.

  (* the written form of a zero value *)
  Lemma zero_W f : forall t z, ty_wfb t = true -> zero_enc E f t = Ok z -> W z.
  Proof.
    induction f as [|f IH]; intros t z T H; [discriminate|]. rewrite zero_enc_eq in H.
    destruct t as [l| | | |h fs|n| |]; try (inversion H; exact I); try discriminate.
    - destruct l; inversion H; exact I.
    - destruct h; try discriminate. apply ty_wfb_struct in T. destruct T as [S G].
      apply rbind_ok in H. destruct H as (fv & Hfv & H). inversion H; subst.
      pose proof (rmap_tag_fst (fun fd => zero_enc E f (f_ty fd)) _ _ Hfv) as Hfst.
      apply W_emit; [rewrite Hfst; eapply struct_names_NoDup; eauto|].
      apply rmap_ok in Hfv. clear H Hfst S. induction Hfv; constructor.
      + apply rbind_ok in H. destruct H as (v & Hv & Hy). inversion Hy; subst. cbn.
        eapply IH; [|eauto]. apply G. left; auto.
      + apply IHHfv. intros fd Hin. apply G. right; auto.
    - destruct (assoc n (e_types E)) as [t'|] eqn:A; [|discriminate].
      eapply IH; [|eauto]. apply (env_wfb_types E n t' WE A).
  Qed.

  Lemma schema_key_new f t' j ms : payload_ok E t' = true -> reenc E f t' j = Ok (TObj ms) ->
    ~ In schema_key (map fst ms).
  Proof.
    unfold payload_ok. destruct t' as [| | | | |n| |]; try discriminate.
    destruct (assoc n (e_types E)) as [[| | | |h fs| | |]|] eqn:A; try discriminate.
    intros P H Hin. destruct f as [|f]; [discriminate|]. rewrite reenc_eq, A in H.
    apply written_members_in_declaration_order in H.
    apply negb_true_iff in P. rewrite existsb_false in P.
    specialize (P schema_key). rewrite fold_eq_refl in P.
    assert (X : true = false); [|discriminate]. apply P. apply in_or_app. left.
    eapply sublist_In; eauto.
  Qed.

  (* 2: the content of what reenc writes has no duplicate member names, at any depth *)
  Lemma reenc_W f : forall t j r, ty_wfb t = true -> reenc E f t j = Ok r -> W r.
  Proof.
    induction f as [|f IH]; intros t j j' T H; [discriminate|]. rewrite reenc_eq in H.
    destruct t as [l|t'|t'|t'|h fs|n| |].
    - apply reenc_leaf_flat in H. apply flat_W. tauto.
    - destruct j; try (eapply IH; [|exact H]; exact T). inversion H. exact I.
    - destruct j; try discriminate; [inversion H; exact I|].
      apply rbind_ok in H. destruct H as (l' & Hl & H). inversion H; subst. apply rmap_ok in Hl.
      apply W_arr. intros y Hy. destruct (Forall2_In_r _ _ _ _ Hl Hy) as (x & Hxin & Hr). eapply IH; [|exact Hr]; exact T.
    - destruct j; try discriminate; [inversion H; exact I|].
      apply rbind_ok in H. destruct H as (m' & Hm & H). inversion H; subst. apply rmap_ok in Hm.
      apply W_obj. split.
      + assert (Keys : map fst m' = map fst (dedup_last m)).
        { clear H. induction Hm; cbn; auto.
          apply rbind_ok in H. destruct H as (v & _ & Hv). inversion Hv; subst. cbn. congruence. }
        eapply Permutation_NoDup; [apply Permutation_map; symmetry; apply sort_kv_perm|].
        rewrite Keys. apply dedup_last_NoDup.
      + intros kv Hkv. apply (Permutation_in _ (sort_kv_perm m')) in Hkv.
        destruct (Forall2_In_r _ _ _ _ Hm Hkv) as (kv0 & Hin0 & Hr).
        apply rbind_ok in Hr. destruct Hr as (v & Hv & Hr). inversion Hr; subst. cbn [snd].
        eapply IH; [|exact Hv]; exact T.
    - destruct j; try discriminate.
      + destruct h; try discriminate. eapply zero_W; eauto.
      + pose proof T as T0. apply ty_wfb_struct in T. destruct T as [S G].
        unfold struct_step in H. destruct (negb _); [discriminate|].
        apply rbind_ok in H. destruct H as (fv & Hfv & H).
        apply rbind_ok in H. destruct H as (fv' & Hh & H). inversion H; subst.
        pose proof (struct_first_fst E _ _ _ _ Hfv) as Hfst.
        apply W_emit.
        * rewrite (hook_fst E _ _ _ _ Hh), Hfst. eapply struct_names_NoDup; eauto.
        * eapply hook_W; eauto.
          apply rmap_ok in Hfv. clear H Hh Hfst S T0.
          induction Hfv as [|fd p fs0 fv0 Hp _ IHf]; constructor.
          -- assert (Tf : ty_wfb (f_ty fd) = true) by (apply G; left; auto).
             destruct (assoc (f_name fd) m) as [x|] eqn:A.
             ++ apply rbind_ok in Hp. destruct Hp as (v & Hv & Hp). inversion Hp; subst. cbn [snd].
                eapply IH; eauto.
             ++ apply rbind_ok in Hp. destruct Hp as (v & Hv & Hp). inversion Hp; subst. cbn [snd].
                eapply zero_W; eauto.
          -- apply IHf. intros fd' Hin. apply G. right; auto.
    - destruct (assoc n (e_types E)) as [t'|] eqn:A; [|discriminate].
      eapply IH; [|eauto]. apply (env_wfb_types E n t' WE A).
    - discriminate.
    - destruct j; try discriminate. unfold object_step in H.
      destruct (negb _); [discriminate|].
      destruct (assoc schema_key m) as [[| | |s| |]|]; try discriminate.
      destruct s; [discriminate|].
      destruct (assoc (b :: s) (e_schemas E)) as [t'|] eqn:A; [|discriminate].
      assert (G : (if negb (payload_ok E t') then Dom
                   else if has_null_element (depth (TObj m)) (TObj m) then Bad
                   else rbind (reenc E f t' (TObj m))
                     (fun v => match v with
                               | TObj [] => Dom
                               | TObj ms => Ok (TObj ((schema_key, TStr (b :: s)) :: ms))
                               | _ => Dom
                               end)) = Ok j' -> W j').
      { destruct (negb (payload_ok E t')) eqn:P; [discriminate|]. apply negb_false_iff in P.
        destruct (has_null_element _ _); [discriminate|]. intros G.
        apply rbind_ok in G. destruct G as (v & Hv & G).
        destruct v as [| | | | |[|kv ms]]; try discriminate. inversion G; subst.
        pose proof (schema_key_new _ _ _ _ P Hv) as New.
        apply IH in Hv; [|apply (env_wfb_schemas E _ _ WE A)].
        rewrite W_obj in Hv. destruct Hv as [N Hv]. apply W_obj. split.
        - cbn [map fst]. constructor; auto.
        - intros kv' [<-|Hin]; [exact I | auto]. }
      destruct t'; try (exact (G H)). discriminate.
  Qed.

  Theorem typed_output_wellformed fuel t j r :
    ty_wfb t = true -> reenc E fuel t j = Ok r -> wf (content_of r).
  Proof. apply reenc_W. Qed.

  Theorem typed_zero_wellformed fuel t z :
    ty_wfb t = true -> zero_enc E fuel t = Ok z -> wf (content_of z).
  Proof. apply zero_W. Qed.
End Wellformed.

(* the generated environment *)
Lemma typed_schema_document_wf id j r : reenc_schema id j = Ok r -> wf (content_of r).
Proof.
  unfold reenc_schema. destruct (assoc id go_schemas) as [t|] eqn:A; [|discriminate].
  apply (typed_output_wellformed go_env go_env_wf).
  apply (env_wfb_schemas go_env id t go_env_wf A).
Qed.

Lemma typed_value_wf n j r : reenc_type n j = Ok r -> wf (content_of r).
Proof. unfold reenc_type. apply (typed_output_wellformed go_env go_env_wf). reflexivity. Qed.

(* ------------------------------------------------------------------------------------------ *)
(* 3: the digest theorems over typed documents - the `wf` premises are discharged              *)
(* ------------------------------------------------------------------------------------------ *)
Section TypedDigest.
  Variable rest : Type.
  Variable canon : content -> bytes.
  Variable H : bytes -> bytes.
  Variable structural : V.envelope content rest -> bool.
  Variable E : env.
  Hypothesis WE : env_wfb E = true.
  Variable t : ty.
  Hypothesis WT : ty_wfb t = true.

  Notation validate := (V.validate content rest canon H structural).

  (* the envelope holds the typed document r; its document is replaced by the typed document r' *)
  Lemma typed_reencoding_preserves_validity :
    (forall v, wf v -> canon v = canon (norm v)) ->
    forall fuel fuel' j j' r r' (e : V.envelope content rest),
      reenc E fuel t j = Ok r -> reenc E fuel' t j' = Ok r' -> V.e_doc e = content_of r ->
      norm (content_of r') = norm (content_of r) ->
      structural (V.with_doc e (content_of r')) = structural e ->
      validate e = V.Valid -> validate (V.with_doc e (content_of r')) = V.Valid.
  Proof.
    intros CN fuel fuel' j j' r r' e R R' D N. apply (VP.reencoding_preserves_validity rest canon H structural CN).
    - rewrite D. apply (typed_output_wellformed E WE _ _ _ _ WT R).
    - apply (typed_output_wellformed E WE _ _ _ _ WT R').
    - rewrite D. exact N.
  Qed.

  Lemma typed_digest_tamper_evident :
    (forall v1 v2, wf v1 -> wf v2 -> canon v1 = canon v2 -> norm v1 = norm v2) ->
    forall fuel fuel' j j' r r' (e : V.envelope content rest),
      reenc E fuel t j = Ok r -> reenc E fuel' t j' = Ok r' -> V.e_doc e = content_of r ->
      validate e = V.Valid -> validate (V.with_doc e (content_of r')) = V.Valid ->
      norm (content_of r') = norm (content_of r) \/
      (canon (content_of r) <> canon (content_of r') /\ H (canon (content_of r)) = H (canon (content_of r'))).
  Proof.
    intros CI fuel fuel' j j' r r' e R R' D. rewrite <- D.
    apply (VP.digest_tamper_evident rest canon H structural CI).
    - rewrite D. apply (typed_output_wellformed E WE _ _ _ _ WT R).
    - apply (typed_output_wellformed E WE _ _ _ _ WT R').
  Qed.

  Lemma typed_tampered_is_rejected :
    (forall v1 v2, wf v1 -> wf v2 -> canon v1 = canon v2 -> norm v1 = norm v2) ->
    forall fuel fuel' j j' r r' (e : V.envelope content rest),
      reenc E fuel t j = Ok r -> reenc E fuel' t j' = Ok r' -> V.e_doc e = content_of r ->
      validate e = V.Valid ->
      norm (content_of r') <> norm (content_of r) ->
      H (canon (content_of r)) <> H (canon (content_of r')) ->
      validate (V.with_doc e (content_of r')) <> V.Valid /\
      (structural (V.with_doc e (content_of r')) = true ->
       validate (V.with_doc e (content_of r')) = V.ErrDigest).
  Proof.
    intros CI fuel fuel' j j' r r' e R R' D. rewrite <- D.
    apply (VP.tampered_is_rejected rest canon H structural CI).
    - rewrite D. apply (typed_output_wellformed E WE _ _ _ _ WT R).
    - apply (typed_output_wellformed E WE _ _ _ _ WT R').
  Qed.
End TypedDigest.

(* the same over the real canonical form, for documents of a registered schema: no premise on the
   canonicaliser; what is left is the domain of real_canon (clean UTF-8, canonical number texts) *)
Section TypedReal.
  Variable rest : Type.
  Variable H : bytes -> bytes.
  Variable structural : V.envelope content rest -> bool.
  Notation validate := (V.validate content rest L.real_canon H structural).

  Lemma typed_reencoding_preserves_validity_real id j j' r r' (e : V.envelope content rest) :
    reenc_schema id j = Ok r -> reenc_schema id j' = Ok r' -> V.e_doc e = content_of r ->
    L.in_domain (content_of r) = true -> L.in_domain (content_of r') = true ->
    norm (content_of r') = norm (content_of r) ->
    structural (V.with_doc e (content_of r')) = structural e ->
    validate e = V.Valid -> validate (V.with_doc e (content_of r')) = V.Valid.
  Proof.
    intros _ _ D I I' N. apply (LP.reencoding_preserves_validity_real rest H structural); rewrite ?D; assumption.
  Qed.

  Lemma typed_digest_tamper_evident_real id j j' r r' (e : V.envelope content rest) :
    reenc_schema id j = Ok r -> reenc_schema id j' = Ok r' -> V.e_doc e = content_of r ->
    L.in_domain (content_of r) = true -> L.in_domain (content_of r') = true ->
    validate e = V.Valid -> validate (V.with_doc e (content_of r')) = V.Valid ->
    norm (content_of r') = norm (content_of r) \/
    (L.real_canon (content_of r) <> L.real_canon (content_of r') /\
     H (L.real_canon (content_of r)) = H (L.real_canon (content_of r'))).
  Proof.
    intros _ _ D I I'. rewrite <- D.
    apply (LP.digest_tamper_evident_real rest H structural); rewrite ?D; assumption.
  Qed.

  Lemma typed_tampered_is_rejected_real id j j' r r' (e : V.envelope content rest) :
    reenc_schema id j = Ok r -> reenc_schema id j' = Ok r' -> V.e_doc e = content_of r ->
    L.in_domain (content_of r) = true -> L.in_domain (content_of r') = true ->
    validate e = V.Valid ->
    norm (content_of r') <> norm (content_of r) ->
    H (L.real_canon (content_of r)) <> H (L.real_canon (content_of r')) ->
    validate (V.with_doc e (content_of r')) <> V.Valid /\
    (structural (V.with_doc e (content_of r')) = true ->
     validate (V.with_doc e (content_of r')) = V.ErrDigest).
  Proof.
    intros _ _ D I I'. rewrite <- D. apply (LP.tampered_is_rejected_real rest H structural); rewrite ?D; assumption.
  Qed.
End TypedReal.

(* ------------------------------------------------------------------------------------------ *)
(* 4: edits of the text that leave no trace                                                    *)
(* ------------------------------------------------------------------------------------------ *)
(* the text whose members are permuted / extended by members no field listens to is read to the same
   typed document: same content (also the same failure, when the reading fails) *)
Lemma member_order_no_trace E fuel h fs m m2 : Permutation m m2 ->
  doc_of (reenc E fuel (TyStruct h fs) (TObj m2)) = doc_of (reenc E fuel (TyStruct h fs) (TObj m)).
Proof. intros P. f_equal. now apply struct_member_order_irrelevant. Qed.

Lemma unknown_members_no_trace E fuel h fs m1 x m2 :
  (forall kv n, In kv x -> In n (map f_name fs ++ hook_names h) -> fold_eq (fst kv) n = false) ->
  members_in_domain (map f_name fs ++ hook_names h) (m1 ++ x ++ m2) = true ->
  doc_of (reenc E fuel (TyStruct h fs) (TObj (m1 ++ x ++ m2))) = doc_of (reenc E fuel (TyStruct h fs) (TObj (m1 ++ m2))).
Proof. intros U M. f_equal. now apply ignores_unknown_members. Qed.

(* hence the same canonical bytes, the same digest, the same verdict of the envelope that holds it *)
Lemma with_same_doc {rest} (e : V.envelope content rest) d : d = V.e_doc e -> V.with_doc e d = e.
Proof. intros ->. destruct e; reflexivity. Qed.

Section NoTrace.
  Variable rest : Type.
  Variable canon : content -> bytes.
  Variable H : bytes -> bytes.
  Variable structural : V.envelope content rest -> bool.
  Notation validate := (V.validate content rest canon H structural).
  Notation digest_of := (V.digest_of content canon H).

  Lemma same_reading_same_verdict x x2 r r2 (e : V.envelope content rest) :
    x2 = x -> x = Ok r -> x2 = Ok r2 -> V.e_doc e = content_of r ->
    content_of r2 = content_of r /\
    canon (content_of r2) = canon (content_of r) /\
    digest_of (content_of r2) = digest_of (content_of r) /\
    validate (V.with_doc e (content_of r2)) = validate e.
  Proof.
    intros -> -> X D. inversion X; subst r2. repeat split. rewrite with_same_doc; auto.
  Qed.

  Lemma member_order_keeps_verdict E fuel h fs m m2 r r2 (e : V.envelope content rest) :
    Permutation m m2 ->
    reenc E fuel (TyStruct h fs) (TObj m) = Ok r -> reenc E fuel (TyStruct h fs) (TObj m2) = Ok r2 ->
    V.e_doc e = content_of r ->
    content_of r2 = content_of r /\
    canon (content_of r2) = canon (content_of r) /\
    digest_of (content_of r2) = digest_of (content_of r) /\
    validate (V.with_doc e (content_of r2)) = validate e.
  Proof.
    intros P. apply same_reading_same_verdict. now apply struct_member_order_irrelevant.
  Qed.

  Lemma unknown_members_keep_verdict E fuel h fs m1 x m2 r r2 (e : V.envelope content rest) :
    (forall kv n, In kv x -> In n (map f_name fs ++ hook_names h) -> fold_eq (fst kv) n = false) ->
    members_in_domain (map f_name fs ++ hook_names h) (m1 ++ x ++ m2) = true ->
    reenc E fuel (TyStruct h fs) (TObj (m1 ++ m2)) = Ok r ->
    reenc E fuel (TyStruct h fs) (TObj (m1 ++ x ++ m2)) = Ok r2 ->
    V.e_doc e = content_of r ->
    content_of r2 = content_of r /\
    canon (content_of r2) = canon (content_of r) /\
    digest_of (content_of r2) = digest_of (content_of r) /\
    validate (V.with_doc e (content_of r2)) = validate e.
  Proof.
    intros U M. apply same_reading_same_verdict. now apply ignores_unknown_members.
  Qed.
End NoTrace.

(* the same for a document of a registered schema whose Go type is a struct, with the fuel the runner
   computes from each tree (the two trees may differ in depth: that fuel is enough, Marshal/EnvProofs.v) *)
Lemma schema_struct_transfer id n h fs j j2 r :
  assoc id go_schemas = Some (TyRef n) -> assoc n go_types = Some (TyStruct h fs) ->
  (forall f, reenc go_env f (TyStruct h fs) j2 = reenc go_env f (TyStruct h fs) j) ->
  reenc_schema id j = Ok r -> reenc_schema id j2 = Ok r.
Proof.
  intros A B X. unfold reenc_schema at 1. rewrite A.
  destruct (fuel_for j) as [|f]; [discriminate|]. rewrite reenc_eq.
  change (e_types go_env) with go_types. rewrite B. intros R. rewrite <- X in R.
  apply (reenc_schema_fuel_enough id (TyRef n) j2 (S f) r A).
  rewrite reenc_eq. change (e_types go_env) with go_types. rewrite B. exact R.
Qed.

Lemma schema_member_order_no_trace id n h fs m m2 r :
  assoc id go_schemas = Some (TyRef n) -> assoc n go_types = Some (TyStruct h fs) ->
  Permutation m m2 ->
  (reenc_schema id (TObj m2) = Ok r <-> reenc_schema id (TObj m) = Ok r).
Proof.
  intros A B P. split; apply (schema_struct_transfer id n h fs _ _ r A B); intros f.
  - symmetry. now apply struct_member_order_irrelevant.
  - now apply struct_member_order_irrelevant.
Qed.

Lemma schema_unknown_members_no_trace id n h fs m1 x m2 r :
  assoc id go_schemas = Some (TyRef n) -> assoc n go_types = Some (TyStruct h fs) ->
  (forall kv k, In kv x -> In k (map f_name fs ++ hook_names h) -> fold_eq (fst kv) k = false) ->
  members_in_domain (map f_name fs ++ hook_names h) (m1 ++ x ++ m2) = true ->
  (reenc_schema id (TObj (m1 ++ x ++ m2)) = Ok r <-> reenc_schema id (TObj (m1 ++ m2)) = Ok r).
Proof.
  intros A B U M. split; apply (schema_struct_transfer id n h fs _ _ r A B); intros f.
  - symmetry. now apply ignores_unknown_members.
  - now apply ignores_unknown_members.
Qed.
