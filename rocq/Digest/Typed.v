(* C08 <-> C04 - typed documents: the link between the typed-marshalling model (Marshal/Typed.v:
   `reenc E fuel t j` = the JSON tree json.Marshal writes for the Go value json.Unmarshal built from the
   tree j at the Go type t) and the digest model's `content` (Digest/Content.v).

     content_of r   the written tree r as the document the digest sees: the same tree, constructor by
                    constructor (number texts and strings carried over as they are)
     doc_of x       the same on results: Ok r -> Ok (content_of r); Bad and Dom stay

   What the envelope hashes is json.Marshal(e.Document), i.e. `content_of r` for the r that `reenc` wrote.
   Digest/TypedProofs.v proves that such a document has no duplicate member names at any depth
   (Content.wf) - the premise of the digest theorems of Props/C08.v.  Definitions only. *)
From Coq Require Import List Strings.Byte.
From Verif Require Import Base.Wire Marshal.Typed Digest.Content.
Import ListNotations.

Fixpoint content_of (v : tv) : content :=
  match v with
  | TNull => CNull
  | TBool b => CBool b
  | TNum raw => CNum raw
  | TStr s => CStr s
  | TArr l => CArr (map content_of l)
  | TObj m => CObj (map (fun kv => (fst kv, content_of (snd kv))) m)
  end.

Definition doc_of (x : res tv) : res content :=
  match x with
  | Ok r => Ok (content_of r)
  | Bad => Bad
  | Dom => Dom
  end.
