(* C08 - a toy canonical form and toy hashes, only used to show that the hypotheses of the C08
   theorems are satisfiable and their conclusions not trivially true:
     toy_canon = enc . norm   with enc a prefix-free (hence injective) byte encoding of values
     H_id                     an injective "hash"  (tampering is always detected)
     H_const                  a constant "hash"    (every tampering goes through - as a collision)
   No proofs here. *)
From Coq Require Import List Bool Strings.Byte.
From Verif Require Import Base.Wire Digest.Content.
Import ListNotations.

Fixpoint enc_str (s : bytes) : bytes :=
  match s with
  | [] => [x00]
  | b :: r => x01 :: b :: enc_str r
  end.

Definition enc_list (f : content -> bytes) : list content -> bytes :=
  fix go l := match l with [] => [x00] | x :: r => x01 :: f x ++ go r end.
Definition enc_members (f : content -> bytes) : list member -> bytes :=
  fix go m := match m with [] => [x00] | kv :: r => x01 :: enc_str (fst kv) ++ f (snd kv) ++ go r end.

Fixpoint enc (v : content) : bytes :=
  match v with
  | CNull => [x00]
  | CBool b => [x01; if b then x01 else x00]
  | CNum t => x02 :: enc_str t
  | CStr s => x03 :: enc_str s
  | CArr l => x04 :: enc_list enc l
  | CObj m => x05 :: enc_members enc m
  end.

Definition toy_canon (v : content) : bytes := enc (norm v).
Definition H_id (b : bytes) : bytes := b.
Definition H_const (b : bytes) : bytes := [].
