(* C08 - facts about Digest/Content.v: an induction principle for the nested value type, and
   norm is idempotent (used to instantiate canon := enc . norm in the non-vacuity examples). *)
From Coq Require Import List Bool Strings.Byte NArith Lia.
From Verif Require Import Base.Wire Digest.Content.
Import ListNotations.

Section Ind.
  Variable P : content -> Prop.
  Hypothesis Hnull : P CNull.
  Hypothesis Hbool : forall b, P (CBool b).
  Hypothesis Hnum : forall t, P (CNum t).
  Hypothesis Hstr : forall s, P (CStr s).
  Hypothesis Harr : forall l, Forall P l -> P (CArr l).
  Hypothesis Hobj : forall m, Forall (fun kv => P (snd kv)) m -> P (CObj m).

  Fixpoint content_ind' (v : content) : P v :=
    match v with
    | CNull => Hnull
    | CBool b => Hbool b
    | CNum t => Hnum t
    | CStr s => Hstr s
    | CArr l => Harr l ((fix go (l : list content) : Forall P l :=
                           match l with
                           | [] => Forall_nil _
                           | x :: r => Forall_cons x (content_ind' x) (go r)
                           end) l)
    | CObj m => Hobj m ((fix go (m : list member) : Forall (fun kv => P (snd kv)) m :=
                           match m with
                           | [] => Forall_nil _
                           | kv :: r => Forall_cons kv (content_ind' (snd kv)) (go r)
                           end) m)
    end.
End Ind.

(* ---- the key order is total ---- *)
Lemma leb_bytes_total a b : leb_bytes a b = false -> leb_bytes b a = true.
Proof.
  revert b. induction a as [|x a IH]; destruct b as [|y b]; cbn; try discriminate; try reflexivity.
  destruct (N.ltb (Byte.to_N x) (Byte.to_N y)) eqn:E1; [discriminate|].
  destruct (N.ltb (Byte.to_N y) (Byte.to_N x)) eqn:E2; [reflexivity|]. apply IH.
Qed.

(* ---- sorting ---- *)
Inductive sorted : list member -> Prop :=
| sorted_nil : sorted []
| sorted_one a : sorted [a]
| sorted_cons a b l : leb_bytes (fst a) (fst b) = true -> sorted (b :: l) -> sorted (a :: b :: l).

Lemma insert_sorted a l : sorted l -> sorted (insert_member a l).
Proof.
  induction 1 as [|b|b c l Hbc Hs IH]; cbn.
  - constructor.
  - destruct (leb_bytes (fst a) (fst b)) eqn:E.
    + constructor; [exact E | constructor].
    + constructor; [apply leb_bytes_total; exact E | constructor].
  - destruct (leb_bytes (fst a) (fst b)) eqn:E.
    + constructor; [exact E|]. constructor; assumption.
    + cbn in IH. destruct (leb_bytes (fst a) (fst c)) eqn:E2.
      * constructor; [apply leb_bytes_total; exact E|]. exact IH.
      * constructor; [exact Hbc | exact IH].
Qed.

Lemma sort_sorted l : sorted (sort_members l).
Proof. induction l as [|a l IH]; cbn; [constructor | apply insert_sorted; exact IH]. Qed.

Lemma sort_of_sorted l : sorted l -> sort_members l = l.
Proof.
  induction 1 as [|b|b c l Hbc Hs IH]; cbn; try reflexivity.
  cbn in IH. rewrite IH. cbn. rewrite Hbc. reflexivity.
Qed.

Lemma sort_idem l : sort_members (sort_members l) = sort_members l.
Proof. apply sort_of_sorted, sort_sorted. Qed.

(* properties of all members survive the sort *)
Lemma Forall_insert (Q : member -> Prop) a l : Q a -> Forall Q l -> Forall Q (insert_member a l).
Proof.
  intros Ha Hl. induction Hl as [|h t Hh Ht IH]; cbn; [repeat constructor; exact Ha|].
  destruct (leb_bytes (fst a) (fst h)); repeat constructor; auto.
Qed.

Lemma Forall_sort (Q : member -> Prop) l : Forall Q l -> Forall Q (sort_members l).
Proof. induction 1 as [|h t Hh Ht IH]; cbn; [constructor | apply Forall_insert; assumption]. Qed.

Lemma filter_all (p : member -> bool) l : Forall (fun x => p x = true) l -> filter p l = l.
Proof. induction 1 as [|h t Hh Ht IH]; cbn; [reflexivity|]. rewrite Hh, IH. reflexivity. Qed.

Lemma map_fixed (f : member -> member) l : Forall (fun x => f x = x) l -> map f l = l.
Proof. induction 1 as [|h t Hh Ht IH]; cbn; [reflexivity|]. rewrite Hh, IH. reflexivity. Qed.

Lemma is_null_norm v : is_null (norm v) = is_null v.
Proof. destruct v; reflexivity. Qed.

Lemma norm_idem v : norm (norm v) = norm v.
Proof.
  induction v as [| | | |l IH|m IH] using content_ind'; try reflexivity.
  - cbn. f_equal. rewrite map_map. apply map_ext_Forall. exact IH.
  - cbn [norm]. f_equal.
    set (f := map_member norm). set (p := fun kv : member => negb (is_null (snd kv))).
    change (drop_null ?x) with (filter p x).
    assert (Q : Forall (fun kv => p kv = true /\ f kv = kv) (sort_members (filter p (map f m)))).
    { apply Forall_sort. induction m as [|[k x] m IHm]; [constructor|].
      inversion IH as [|? ? Hx Hm]; subst. cbn in Hx. specialize (IHm Hm).
      cbn [map f map_member filter]. destruct (p (k, norm x)) eqn:E; [|exact IHm].
      constructor; [|exact IHm]. split; [exact E|]. cbn. rewrite Hx. reflexivity. }
    rewrite (map_fixed f) by (eapply Forall_impl; [|exact Q]; intros ? [_ ?]; assumption).
    rewrite (filter_all p) by (eapply Forall_impl; [|exact Q]; intros ? [? _]; assumption).
    apply sort_idem.
Qed.
