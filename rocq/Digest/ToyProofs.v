(* C08 - the toy canonical form satisfies the two hypotheses the theorems take from C07. *)
From Coq Require Import List Bool Strings.Byte.
From Verif Require Import Base.Wire Digest.Content Digest.ContentProofs Digest.Toy.
Import ListNotations.

Lemma enc_str_prefix s1 : forall s2 r1 r2, enc_str s1 ++ r1 = enc_str s2 ++ r2 -> s1 = s2 /\ r1 = r2.
Proof.
  induction s1 as [|b s1 IH]; intros [|c s2] r1 r2 E; cbn in E; try discriminate.
  - injection E as E. auto.
  - injection E as E1 E2. subst c. destruct (IH _ _ _ E2) as [-> ->]. auto.
Qed.

Lemma enc_prefix v1 : forall v2 r1 r2, enc v1 ++ r1 = enc v2 ++ r2 -> v1 = v2 /\ r1 = r2.
Proof.
  induction v1 as [|b|t|s|l IH|m IH] using content_ind'; intros v2 r1 r2 E; destruct v2 as [|b2|t2|s2|l2|m2]; cbn in E; try discriminate.
  - injection E as E. auto.
  - injection E as E1 E2. split; [|exact E2]. destruct b, b2; try discriminate; reflexivity.
  - injection E as E. destruct (enc_str_prefix _ _ _ _ E) as [-> ->]. auto.
  - injection E as E. destruct (enc_str_prefix _ _ _ _ E) as [-> ->]. auto.
  - injection E as E. enough (X : l = l2 /\ r1 = r2) by (destruct X as [-> ->]; auto).
    revert l2 E. induction IH as [|x l Hx Hl IHl]; intros [|y l2] E; cbn in E; try discriminate.
    + injection E as E. auto.
    + injection E as E. rewrite <- !app_assoc in E. destruct (Hx _ _ _ E) as [-> E'].
      destruct (IHl _ E') as [-> ->]. auto.
  - injection E as E. enough (X : m = m2 /\ r1 = r2) by (destruct X as [-> ->]; auto).
    revert m2 E. induction IH as [|[k x] m Hx Hm IHm]; intros [|[k' y] m2] E; cbn in E; try discriminate.
    + injection E as E. auto.
    + injection E as E. rewrite <- !app_assoc in E. destruct (enc_str_prefix _ _ _ _ E) as [-> E1].
      cbn in Hx. destruct (Hx _ _ _ E1) as [-> E2]. destruct (IHm _ E2) as [-> ->]. auto.
Qed.

Lemma enc_inj v1 v2 : enc v1 = enc v2 -> v1 = v2.
Proof.
  intro E. apply (enc_prefix v1 v2 [] []). rewrite !app_nil_r. exact E.
Qed.

Lemma toy_canon_norm v : wf v -> toy_canon v = toy_canon (norm v).
Proof. intros _. unfold toy_canon. rewrite norm_idem. reflexivity. Qed.

Lemma toy_canon_inj v1 v2 : wf v1 -> wf v2 -> toy_canon v1 = toy_canon v2 -> norm v1 = norm v2.
Proof. intros _ _. apply enc_inj. Qed.
