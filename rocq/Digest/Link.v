(* C08 <-> C07 - the link between the digest model's `content` (Digest/Content.v) and the JSON
   values of the real canonicaliser (Json/Json.v, Json/C14n.v).

     to_json d      the value c14n's reader builds for the document d: strings and names as they
                    are, number text read the way tokenToValue reads a literal (the scanner's
                    number automaton, then ParseInt, else ParseFloat); text that is not one number
                    literal becomes JNil (Go's nil value - never printed, outside the domain)
     of_json v      the other direction: integers and floats carried as their canonical text
     real_canon d   print (sortrec (to_json d)): what c14n.CanonicalJSON answers for ANY text whose
                    value is to_json d (Json/C14nProofs.canon_spec) - in particular for
                    json.Marshal(doc), the text Envelope.Digest hands to it; [] when printing fails
     in_domain d    the documents the theorems are about:
                      every string and member name is well-formed UTF-8 without U+FFFD
                        (encodeString refuses anything else),
                      every number text is the canonical text of the number it reads as: an int64
                        printed by FormatInt, or a float for which C07's float premise holds exactly
                        (float_exactb: Float.MarshalJSON's text has the shape -?d.d+E-?d+ and ParseFloat
                        reads it back as that very float) printed by Float.MarshalJSON.  Negative zero
                        is written 0.0E0 and read back as zero: -0.0E0 is not a canonical number text.
                    Duplicate member names are allowed: both sorts are the same stable sort.
   Definitions only. *)
From Coq Require Import List ZArith Strings.Byte Bool.
From Verif Require Import Base.Wire Json.Utf8 Json.Json Json.Number Json.Lexer Json.C14n Json.ShapeProofs
  Digest.Content.
Import ListNotations.

(* tokenToValue on the literal the scanner takes from t; all of t must be that literal *)
Definition num_to_json (t : bytes) : option jv :=
  match scan_number t with
  | Some (lit, []) =>
    match parse_int64 lit with
    | Some z => Some (JInt z)
    | None => match parse_float lit with Some f => Some (JFloat f) | None => None end
    end
  | _ => None
  end.

Fixpoint to_json (d : content) : jv :=
  match d with
  | CNull => JNull
  | CBool b => JBool b
  | CNum t => match num_to_json t with Some v => v | None => JNil end
  | CStr s => JStr s
  | CArr l => JArr (map to_json l)
  | CObj m => JObj (map (fun kv => (fst kv, to_json (snd kv))) m)
  end.

Fixpoint of_json (v : jv) : content :=
  match v with
  | JNil => CNull
  | JNull => CNull
  | JBool b => CBool b
  | JInt z => CNum (format_int z)
  | JFloat f => CNum (float_marshal cfg_fixed f)
  | JStr s => CStr s
  | JArr l => CArr (map of_json l)
  | JObj m => CObj (map (fun kv => (fst kv, of_json (snd kv))) m)
  end.

Definition real_canon (d : content) : bytes :=
  match print (sortrec (to_json d)) with
  | Ok o => o
  | _ => []
  end.

(* the number text is canonical for the number it denotes *)
Definition num_okb (t : bytes) : bool :=
  match num_to_json t with
  | Some (JInt z) => eqb_bytes (format_int z) t
  | Some (JFloat f) => float_exactb f && eqb_bytes (float_marshal cfg_fixed f) t
  | _ => false
  end.

Fixpoint in_domain (d : content) : bool :=
  match d with
  | CNum t => num_okb t
  | CStr s => clean_utf8 s
  | CArr l => forallb in_domain l
  | CObj m => forallb (fun kv => clean_utf8 (fst kv) && in_domain (snd kv)) m
  | _ => true
  end.

(* computable form of Content.wf *)
Fixpoint wfb (d : content) : bool :=
  match d with
  | CArr l => forallb wfb l
  | CObj m => nodup_keysb (map fst m) && forallb (fun kv => wfb (snd kv)) m
  | _ => true
  end.

(* the values the reader can produce and the printer accepts: the image of the domain *)
Fixpoint jgood (v : jv) : bool :=
  match v with
  | JNil => false
  | JInt z => in_int64 z
  | JFloat f => float_exactb f
  | JStr s => clean_utf8 s
  | JArr l => forallb jgood l
  | JObj m => forallb (fun kv => clean_utf8 (fst kv) && jgood (snd kv)) m
  | _ => true
  end.
