(* C08 - the one member of a serialised invoice that is derived while parsing
   (bill/invoice.go Invoice.UnmarshalJSON):

      if inv.Regime.IsEmpty() { inv.SetRegime(partyTaxCountry(inv.Supplier)) }

   tax.Regime.SetRegime keeps the country only when a regime is defined for it.  `raw` below is
   the serialised document as JSON value, `parse_invoice raw` the logical content of the parsed
   one.  The digest, and every theorem of C08, speaks about the PARSED document.  No proofs here. *)
From Coq Require Import List Bool Strings.Byte String.
Local Open Scope string_scope.
From Verif Require Import Base.Wire Digest.Content.
Import ListNotations.

Definition k_regime : bytes := bs "$regime".
Definition k_supplier : bytes := bs "supplier".
Definition k_tax_id : bytes := bs "tax_id".
Definition k_country : bytes := bs "country".

Definition members_of (v : content) : list member := match v with CObj m => m | _ => [] end.

(* partyTaxCountry(inv.Supplier): supplier.tax_id.country, "" when any part is absent *)
Definition supplier_country (m : list member) : bytes :=
  match lookup k_supplier m with
  | Some s => match lookup k_tax_id (members_of s) with
              | Some t => match lookup k_country (members_of t) with
                          | Some (CStr c) => c
                          | _ => []
                          end
              | None => []
              end
  | None => []
  end.

Definition regime_of (m : list member) : bytes :=
  match lookup k_regime m with Some (CStr c) => c | _ => [] end.

Section Parse.
  Variable defined : bytes -> bool.          (* tax.Regimes().For(code) != nil *)

  (* the parsed document, serialised again: `$regime` is printed first when non-empty
     (tax.Regime is the first embedded struct of bill.Invoice; omitempty) *)
  Definition parse_invoice (raw : content) : content :=
    match raw with
    | CObj m =>
        let r := regime_of m in
        let r' := match r with
                  | [] => let c := supplier_country m in if defined c then c else []
                  | _ => r
                  end in
        let others := remove_member k_regime m in
        CObj (match r' with [] => others | _ => (k_regime, CStr r') :: others end)
    | _ => raw
    end.
End Parse.
