(* C08 - logical content of a document as the digest sees it.

   `content` is the PARSED document re-serialised: a JSON-like value.  Numbers and strings are
   carried as the byte strings canonical JSON prints for them (number formatting and string
   escapes are therefore already identified - they are C07's subject), so what remains of "the
   encoding" inside a `content` is exactly what c14n/c14n.go still normalises on the value level:
   the order of object members (handleObject -> Object.Sort, stable, by Go string order = bytewise)
   and members whose value is null (Attribute.MarshalJSON returns nothing for them).  `norm` does
   these two things and nothing else.  No proofs here. *)
From Coq Require Import List Bool Strings.Byte NArith.
From Verif Require Import Base.Wire.
Import ListNotations.

Inductive content :=
| CNull
| CBool (b : bool)
| CNum (t : bytes)          (* canonical number text *)
| CStr (s : bytes)
| CArr (l : list content)
| CObj (m : list (bytes * content)).

Definition member := (bytes * content)%type.

Definition is_null (v : content) : bool := match v with CNull => true | _ => false end.

(* Go's `a.Key < b.Key` on strings is bytewise lexicographic; leb is its reflexive closure *)
Fixpoint leb_bytes (a b : bytes) : bool :=
  match a, b with
  | [], _ => true
  | _ :: _, [] => false
  | x :: a', y :: b' =>
      if N.ltb (Byte.to_N x) (Byte.to_N y) then true
      else if N.ltb (Byte.to_N y) (Byte.to_N x) then false
      else leb_bytes a' b'
  end.

(* stable insertion sort = sort.SliceStable with Less = (<) *)
Fixpoint insert_member (kv : member) (l : list member) : list member :=
  match l with
  | [] => [kv]
  | h :: t => if leb_bytes (fst kv) (fst h) then kv :: l else h :: insert_member kv t
  end.
Definition sort_members (l : list member) : list member := fold_right insert_member [] l.

Definition drop_null (l : list member) : list member := filter (fun kv => negb (is_null (snd kv))) l.

Definition map_member (f : content -> content) (kv : member) : member := let (k, x) := kv in (k, f x).

Fixpoint norm (v : content) : content :=
  match v with
  | CArr l => CArr (map norm l)
  | CObj m => CObj (sort_members (drop_null (map (map_member norm) m)))
  | _ => v
  end.

(* well-formed: no duplicate member names, at any depth (what encoding/json emits for a struct) *)
Definition all_list (P : content -> Prop) : list content -> Prop :=
  fix go l := match l with [] => True | x :: r => P x /\ go r end.
Definition all_members (P : content -> Prop) : list member -> Prop :=
  fix go m := match m with [] => True | kv :: r => P (snd kv) /\ go r end.

Fixpoint wf (v : content) : Prop :=
  match v with
  | CArr l => all_list wf l
  | CObj m => NoDup (map fst m) /\ all_members wf m
  | _ => True
  end.

(* member lookup / removal by name *)
Fixpoint lookup (k : bytes) (m : list member) : option content :=
  match m with
  | [] => None
  | (k', x) :: r => if eqb_bytes k k' then Some x else lookup k r
  end.
Fixpoint remove_member (k : bytes) (m : list member) : list member :=
  match m with
  | [] => []
  | (k', x) :: r => if eqb_bytes k k' then remove_member k r else (k', x) :: remove_member k r
  end.
