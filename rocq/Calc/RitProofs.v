(* C17: RemoveIncludedTaxes (Calc/Symmetry.v remove_included_taxes) - payable after the removal is the
   original total with tax, whenever the stripped document re-reads to itself (C04's fixpoint), which the
   repaired document-level stripping (ddc_strip: no extra decimals) guarantees for the document rows. *)
From Coq Require Import ZArith List Bool Lia String.
From Verif Require Import Base.Wire Base.Rha Base.RhaProofs Num.Amount Num.AmountProofs
  Calc.Doc Calc.Calc Calc.Symmetry Calc.CurrencySpec Calc.ExpLemmas Calc.CurrencyProofs Calc.FixpointProofs Calc.FixpointGenProofs.
Import ListNotations.
Open Scope Z_scope.
Ltac Zify.zify_post_hook ::= Z.div_mod_to_equations.

(* ---------------- rounding half away from zero and whole shifts ---------------- *)
(* shifting by whole units commutes with rounding as long as the shift does not carry the value across zero *)
Lemma rha_shift n k d : 0 < d ->
  (0 <= n /\ 0 <= n + k * d) \/ (n <= 0 /\ n + k * d <= 0) -> rha (n + k * d) d = k + rha n d.
Proof.
  intros Hd S. unfold rha.
  destruct (0 <=? n) eqn:E1; destruct (0 <=? n + k * d) eqn:E2.
  - replace (2 * (n + k * d) + d) with (2 * n + d + k * (2 * d)) by ring.
    rewrite Z.div_add by lia. ring.
  - assert (n = 0) by lia. subst n.
    replace (2 * - (0 + k * d) + d) with (d + (- k) * (2 * d)) by ring.
    rewrite Z.div_add by lia. rewrite !Z.div_small by lia. ring.
  - assert (n + k * d = 0) by lia.
    assert (E : n = (- k) * d) by lia. rewrite E.
    replace (- k * d + k * d) with 0 by ring.
    replace (2 * - (- k * d) + d) with (d + k * (2 * d)) by ring.
    rewrite Z.div_add by lia. rewrite !Z.div_small by lia. ring.
  - replace (2 * - (n + k * d) + d) with (2 * - n + d + (- k) * (2 * d)) by ring.
    rewrite Z.div_add by lia. ring.
Qed.

(* the sign of the rounded value is the sign of the value *)
Lemma rha_pos_inv n d : 0 < d -> 0 < rha n d -> 0 < n.
Proof. intros Hd H. unfold rha in H. destruct (0 <=? n) eqn:E; nia. Qed.
Lemma rha_neg_inv n d : 0 < d -> rha n d < 0 -> n < 0.
Proof. intros Hd H. unfold rha in H. destruct (0 <=? n) eqn:E; nia. Qed.
Lemma rha_zero_inv n d : 0 < d -> rha n d = 0 -> 2 * Z.abs n < d.
Proof. intros Hd H. unfold rha in H. destruct (0 <=? n) eqn:E; nia. Qed.
Lemma rha_near n d : 0 < d -> Z.abs (2 * (n - rha n d * d)) <= d.
Proof. intros Hd. exact (proj1 (rha_spec n d Hd)). Qed.

(* replacing the rounded value by a target of the same strict sign (or starting from a value that rounds to
   zero): the difference added before rounding lands exactly on the target *)
Lemma rha_retarget n d T : 0 < d ->
  (0 < T /\ 0 < rha n d) \/ (T < 0 /\ rha n d < 0) \/ rha n d = 0 ->
  rha (n + (T - rha n d) * d) d = T.
Proof.
  intros Hd S.
  pose proof (rha_near n d Hd) as N.
  destruct S as [[HT HR]|[[HT HR]|HR]].
  - pose proof (rha_pos_inv n d Hd HR). rewrite rha_shift; [ring|exact Hd|]. left. split; [lia|]. nia.
  - pose proof (rha_neg_inv n d Hd HR). rewrite rha_shift; [ring|exact Hd|]. right. split; [lia|]. nia.
  - pose proof (rha_zero_inv n d Hd HR) as Z0. rewrite HR in *.
    replace (n + (T - 0) * d) with (n + T * d) by ring.
    symmetry. apply rha_unique; [exact Hd|]. unfold is_rha.
    replace (n + T * d - T * d) with n by ring. split; lia.
Qed.

Lemma rha_retarget_refuted : rha (5 + (0 - rha 5 10) * 10) 10 <> 0.
Proof. vm_compute. discriminate. Qed.

(* ---------------- amounts ---------------- *)
Lemma equals_same_exp a b : exp a = exp b -> equals a b = true -> a = b.
Proof.
  intros E H. unfold equals, compare in H. rewrite E, Nat.max_id in H.
  rewrite (rescale_same a) in H by exact E. rewrite (rescale_same b) in H by reflexivity.
  destruct a as [va ea], b as [vb eb]. cbn [val exp] in *. subst eb.
  destruct (va <? vb) eqn:C1; [discriminate|]. destruct (vb <? va) eqn:C2; [discriminate|].
  f_equal. lia.
Qed.

Lemma equals_false_neq a b : equals a b = false -> a <> b.
Proof.
  intros H ->. unfold equals, compare in H. rewrite Z.ltb_irrefl in H. discriminate.
Qed.

(* rounding to the currency after adding a residue r given at the currency's precision *)
Lemma rescale_add_residue twt r c : (c <= exp twt)%nat -> exp r = c ->
  rescale (add twt r) c = mkA (rha (val twt + val r * pow10 (exp twt - c)) (pow10 (exp twt - c))) c.
Proof.
  intros Hc Hr. unfold add. rewrite (amount_eta (rescale r (exp twt))), rescale_exp.
  rewrite rescale_up_val by lia. rewrite Hr. cbn [val exp].
  unfold rescale. cbn [val exp].
  destruct (Nat.ltb c (exp twt)) eqn:E1.
  - reflexivity.
  - apply Nat.ltb_ge in E1. assert (E : exp twt = c) by lia. rewrite E, Nat.ltb_irrefl, Nat.sub_diag.
    change (pow10 0) with 1. rewrite rha_1. reflexivity.
Qed.

Lemma rescale_down_val twt c : (c <= exp twt)%nat ->
  rescale twt c = mkA (rha (val twt) (pow10 (exp twt - c))) c.
Proof.
  intros Hc. unfold rescale. destruct (Nat.ltb c (exp twt)) eqn:E1; [reflexivity|].
  apply Nat.ltb_ge in E1. assert (E : exp twt = c) by lia. rewrite E, Nat.ltb_irrefl, Nat.sub_diag.
  change (pow10 0) with 1. rewrite rha_1. destruct twt; cbn in *; subst; reflexivity.
Qed.

(* the heart of RemoveIncludedTaxes' last step: t0 the original total with tax, twt the unrounded total
   with tax of the stripped document; the residue t0 - round(twt) added to twt rounds to t0 *)
Definition same_strict_sign_or_zero (t0 t1 : amount) : Prop :=
  (0 < val t0 /\ 0 < val t1) \/ (val t0 < 0 /\ val t1 < 0) \/ val t1 = 0.

Lemma residue_restores twt t0 c : (c <= exp twt)%nat -> exp t0 = c ->
  same_strict_sign_or_zero t0 (rescale twt c) ->
  rescale (add twt (sub t0 (rescale twt c))) c = t0.
Proof.
  intros Hc H0 S.
  rewrite rescale_add_residue; [|exact Hc|exact H0].
  unfold sub. rewrite (rescale_same (rescale twt c)) by (rewrite rescale_exp; auto).
  cbn [val exp].
  unfold same_strict_sign_or_zero in S.
  rewrite (rescale_down_val twt c Hc) in *. cbn [val] in *.
  rewrite rha_retarget; [destruct t0; cbn in *; subst; reflexivity|apply pow10_pos|exact S].
Qed.

(* ---------------- calculate and an external rounding ---------------- *)
Lemma sub_exp a b : exp (sub a b) = exp a. Proof. reflexivity. Qed.

Lemma fold_acc_exp_ge xs : forall z c, (c <= exp z)%nat -> (c <= exp (fold_left acc xs z))%nat.
Proof.
  induction xs as [|x xs IH]; intros z c H; cbn [fold_left]; [exact H|].
  apply IH. unfold acc. rewrite add_exp. unfold match_precision, rescale_up.
  destruct (Nat.ltb (exp z) (exp x)) eqn:E; [|exact H].
  apply Nat.ltb_lt in E. rewrite rescale_exp. lia.
Qed.

(* the totals of a document without external rounding, and of the same document with one: same figures,
   the rounding is presented at the currency's decimals, payable = the unrounded total with tax plus the
   presented rounding, rounded to the currency *)
Lemma calculate_rounding d r t :
  d_rounding d = None -> calculate d = Totals t ->
  exists twt t', calculate (with_rounding d (Some r)) = Totals t' /\ (d_c d <= exp twt)%nat /\
     t_twt t = rescale twt (d_c d) /\ t_payable t = t_twt t /\ t_rounding t = None /\
     t_twt t' = t_twt t /\ t_payable t' = rescale (add twt (rescale r (d_c d))) (d_c d) /\
     t_rounding t' = Some (rescale r (d_c d)).
Proof.
  intros HR H. unfold calculate in *. unfold with_rounding.
  cbn [d_c d_currency_rule d_pit d_cur d_lines d_discounts d_charges d_rates d_advances d_dues d_rounding].
  rewrite HR in H.
  destruct (calc_lines (d_currency_rule d) (d_c d) (d_cur d) (d_rates d) (d_lines d)) as [lcs|]; [|discriminate].
  destruct (tax_lines lcs (d_lines d) _ _) as [|tl0 tls0]; [discriminate|].
  destruct (remove_included_all (d_pit d) _) as [tls2|]; [|discriminate].
  inversion H; subst t; clear H.
  eexists. eexists. split; [reflexivity|]. cbn [t_twt t_payable t_rounding].
  split; [|repeat split; reflexivity].
  rewrite add_exp.
  repeat match goal with
         | |- context [match ?x with _ => _ end] => destruct x
         end; rewrite ?sub_exp, ?add_exp; apply fold_acc_exp_ge; cbn [exp zero_of]; lia.
Qed.

Lemma calculate_twt_exp d t : calculate d = Totals t -> exp (t_twt t) = d_c d /\ exp (t_payable t) = d_c d.
Proof.
  intros H. unfold calculate in H.
  destruct (calc_lines _ _ _ _ _) as [lcs|]; [|discriminate].
  destruct (tax_lines lcs (d_lines d) _ _) as [|tl0 tls0]; [discriminate|].
  destruct (remove_included_all (d_pit d) _) as [tls2|]; [|discriminate].
  inversion H; subst t; clear H. cbn [t_twt t_payable]. split; apply rescale_exp.
Qed.

Lemma as_input_fields d d1 : as_input d = Some d1 ->
  d_c d1 = d_c d /\ d_pit d1 = d_pit d /\ d_currency_rule d1 = d_currency_rule d /\
  d_cur d1 = d_cur d /\ d_rates d1 = d_rates d.
Proof.
  unfold as_input. intros H.
  destruct (calc_lines _ _ _ _ _); [|discriminate].
  destruct (calculate d); try discriminate; inversion H; subst d1; cbn; repeat split; reflexivity.
Qed.

(* a document without external rounding is read back without one *)
Lemma as_input_no_rounding d d1 : as_input d = Some d1 -> d_rounding d = None -> d_rounding d1 = None.
Proof.
  unfold as_input. intros H R.
  destruct (calc_lines _ _ _ _ _); [|discriminate].
  destruct (calculate d) as [|ls|t] eqn:C; try discriminate; inversion H; subst d1; cbn [d_rounding]; [exact R|].
  destruct (calculate_rounding d (mkA 0 0) t R C) as (_ & _ & _ & _ & _ & _ & N & _). exact N.
Qed.

(* ---------------- RemoveIncludedTaxes: payable = the original total with tax ---------------- *)
(* d: the document with prices including the category d_pit d; t0 its totals; d1 the calculated document as
   RemoveIncludedTaxes finds it; t1 the totals of the stripped document.  Hypotheses: the stripped document
   re-reads to itself (C04), and the two totals with tax do not disagree in sign. *)
Section Rit.
Variable ds : bytes -> ddc -> ddc.

Definition payable_is_twt_plus_rounding (t : totals) : Prop :=
  t_payable t = match t_rounding t with Some r => add (t_twt t) r | None => t_twt t end.

Lemma add_sub_back a b : exp a = exp b -> add b (sub a b) = a.
Proof.
  intros E. rewrite add_same by (cbn [sub exp]; exact E). unfold sub.
  rewrite (rescale_same b) by (symmetry; exact E). cbn [val].
  destruct a as [va ea], b as [vb eb]. cbn [val exp] in *. subst eb. f_equal. lia.
Qed.

Theorem rit_payable_with d t0 d1 t1 t :
  d_pit d <> [] -> calculate d = Totals t0 -> as_input d = Some d1 ->
  calculate (strip_doc_with ds (d_pit d) d1) = Totals t1 ->
  (forall d3, as_input (strip_doc_with ds (d_pit d) d1) = Some d3 -> calculate d3 = calculate (strip_doc_with ds (d_pit d) d1)) ->
  same_strict_sign_or_zero (t_twt t0) (t_twt t1) ->
  remove_included_taxes_with ds d = RitDone t ->
  t_payable t = t_twt t0 /\ t_twt t = t_twt t1 /\
  t_rounding t = (if equals (t_twt t0) (t_twt t1) then None else Some (sub (t_twt t0) (t_twt t1))) /\
  payable_is_twt_plus_rounding t.
Proof.
  intros HP H0 H1 H2 HF HS HR.
  unfold remove_included_taxes_with in HR.
  destruct (d_pit d) as [|b pit] eqn:P; [contradiction|].
  rewrite H0, H1, H2 in HR.
  set (d2 := strip_doc_with ds (b :: pit) d1) in *.
  destruct (as_input d2) as [d3|] eqn:A3; [|discriminate].
  destruct (as_input_fields d d1 H1) as (C1 & _).
  destruct (as_input_fields d2 d3 A3) as (C3 & _).
  assert (C2 : d_c d2 = d_c d) by (unfold d2, strip_doc_with; cbn [d_c]; exact C1).
  assert (R2 : d_rounding d2 = None) by reflexivity.
  pose proof (as_input_no_rounding d2 d3 A3 R2) as R3.
  destruct (calculate_twt_exp d t0 H0) as [E0 _].
  destruct (calculate_twt_exp d2 t1 H2) as [E1 _].
  unfold payable_is_twt_plus_rounding.
  destruct (equals (t_twt t0) (t_twt t1)) eqn:EQ.
  - inversion HR; subst t; clear HR.
    destruct (calculate_rounding d2 (mkA 0 0) t1 R2 H2) as (twt & t' & _ & _ & _ & Pay & N & _).
    rewrite N, Pay. repeat split; try reflexivity.
    symmetry. apply equals_same_exp; [congruence|exact EQ].
  - pose proof (HF d3 eq_refl) as F3. rewrite H2 in F3.
    destruct (calculate_rounding d3 (sub (t_twt t0) (t_twt t1)) t1 R3 F3) as (twt & t' & C' & Ge & T1 & _ & _ & T' & Pay & Rd).
    rewrite C' in HR. inversion HR; subst t; clear HR.
    rewrite C3, C2 in *.
    rewrite (rescale_same (sub (t_twt t0) (t_twt t1))) in Pay, Rd by (cbn [sub exp]; exact E0).
    assert (PP : t_payable t' = t_twt t0).
    { rewrite Pay, T1. rewrite T1 in HS. apply residue_restores; [exact Ge|exact E0|exact HS]. }
    split; [exact PP|]. split; [exact T'|]. split; [exact Rd|].
    rewrite Rd, T', PP. symmetry. apply add_sub_back. congruence.
Qed.
End Rit.

Theorem rit_payable d t0 d1 t1 t :
  d_pit d <> [] -> calculate d = Totals t0 -> as_input d = Some d1 ->
  calculate (strip_doc (d_pit d) d1) = Totals t1 ->
  no_excess_doc (strip_doc (d_pit d) d1) ->
  same_strict_sign_or_zero (t_twt t0) (t_twt t1) ->
  remove_included_taxes d = RitDone t ->
  t_payable t = t_twt t0 /\ t_twt t = t_twt t1 /\
  t_rounding t = (if equals (t_twt t0) (t_twt t1) then None else Some (sub (t_twt t0) (t_twt t1))) /\
  payable_is_twt_plus_rounding t.
Proof.
  intros HP H0 H1 H2 NE HS HR.
  apply (rit_payable_with ddc_strip d t0 d1 t1 t HP H0 H1 H2); [|exact HS|exact HR].
  intros d3 A3. apply calc_fixpoint_no_excess; assumption.
Qed.

(* ---------------- what the repair establishes for the document rows ---------------- *)
Lemma rescale_down_exp_le a e : (exp (rescale_down a e) <= e)%nat.
Proof.
  unfold rescale_down. destruct (Nat.ltb e (exp a)) eqn:E; [rewrite rescale_exp; lia|].
  apply Nat.ltb_ge in E. exact E.
Qed.

Lemma ddc_strip_no_excess c pit x a :
  (opt_nonzero (dd_pct x) = None -> dd_base x = None) ->
  ddc_no_excess c (ddc_strip pit (ddc_as_input x (present_ddc c x a))).
Proof.
  intros H. unfold ddc_strip, ddc_strip_with, ddc_as_input. cbn [dd_taxes dd_amount dd_pct dd_base].
  assert (K : forall b, (exp b <= c)%nat -> ddc_no_excess c (mkDdc b (dd_pct x) (dd_base x) (dd_taxes x))).
  { intros b Hb P. cbn [dd_pct dd_base dd_amount] in *. split; [exact (H P)|exact Hb]. }
  assert (E : opt_nonzero (dd_pct x) = None -> (exp (present_ddc c x a) <= c)%nat).
  { intros P. unfold present_ddc. rewrite (H P). apply rescale_down_exp_le. }
  destruct (get_combo pit (dd_taxes x)) as [cb|]; [destruct (cb_pct cb) as [p|]|].
  - intros P. cbn [dd_pct dd_base dd_amount] in *. split; [exact (H P)|].
    unfold remove. rewrite div_exp. exact (E P).
  - intros P. cbn [dd_pct dd_base dd_amount] in *. split; [exact (H P)|exact (E P)].
  - intros P. cbn [dd_pct dd_base dd_amount] in *. split; [exact (H P)|exact (E P)].
Qed.

Lemma ddc_strip_shipped_excess :
  exists c pit x a, (opt_nonzero (dd_pct x) = None -> dd_base x = None) /\
    ~ ddc_no_excess c (ddc_strip_shipped pit (ddc_as_input x (present_ddc c x a))).
Proof.
  exists 2%nat, (bs "VAT"), (mkDdc (mkA 38 2) None None [mkCombo (bs "VAT") [] [] (Some (mkA 210 3)) None false []]), (mkA 38 2).
  split; [reflexivity|]. intros H. destruct (H eq_refl) as [_ E]. vm_compute in E. lia.
Qed.

(* ---------------- the witness of the repaired defect ---------------- *)
Definition rit_witness : doc :=
  let vat p := [mkCombo (bs "VAT") [] [] (Some (mkA p 3)) None false []] in
  mkDoc 2 false (bs "VAT") 3
        [mkLine (mkA 3 0) (mkItem (mkA 100 2) None []) [] [] [] (vat 210);
         mkLine (mkA 7 0) (mkItem (mkA 137 2) None []) [] [] [] (vat 100)]
        [mkDdc (mkA 38 2) None None (vat 210)] [] [] [] [] None.

Lemma rit_example :
  let vat p := [mkCombo (bs "VAT") [] [] (Some (mkA p 3)) None false []] in
  let d := mkDoc 2 false (bs "VAT") 3
             [mkLine (mkA 3 0) (mkItem (mkA 100 2) None []) [] [] [] (vat 210);
              mkLine (mkA 7 0) (mkItem (mkA 137 2) None []) [] [] [] (vat 100)]
             [mkDdc (mkA 38 2) None None (vat 210)] [] [] [] [] None in
  exists t0 d1 t1 t d',
    d_pit d <> [] /\ calculate d = Totals t0 /\ as_input d = Some d1 /\
    calculate (strip_doc (d_pit d) d1) = Totals t1 /\ no_excess_doc (strip_doc (d_pit d) d1) /\
    same_strict_sign_or_zero (t_twt t0) (t_twt t1) /\ remove_included_taxes d = RitDone t /\
    t_twt t0 = mkA 1221 2 /\ t_payable t = mkA 1221 2 /\ t_twt t = mkA 1222 2 /\ t_rounding t = Some (mkA (-1) 2) /\
    rit_document d = Some d' /\ calculate d' = Totals t.
Proof.
  cbv zeta.
  (* closed witnesses (no existential variables: every vm_compute below leaves a VM cast for Qed) *)
  match goal with
  | |- exists t0 d1 t1 t d', _ /\ calculate ?d = _ /\ _ =>
    let r0 := eval vm_compute in (calculate d) in
    let r1 := eval vm_compute in (as_input d) in
    match r0 with
    | Totals ?t0 =>
      match r1 with
      | Some ?d1 =>
        let r2 := eval vm_compute in (calculate (strip_doc (d_pit d) d1)) in
        let r3 := eval vm_compute in (remove_included_taxes d) in
        let r4 := eval vm_compute in (rit_document d) in
        match r2 with
        | Totals ?t1 => match r3 with RitDone ?t => match r4 with Some ?d' => exists t0, d1, t1, t, d' end end
        end
      end
    end
  end.
  split; [discriminate|].
  split; [vm_compute; reflexivity|].
  split; [vm_compute; reflexivity|].
  split; [vm_compute; reflexivity|].
  split.
  { unfold no_excess_doc. split; [|split; [|split; [|split]]].
    - vm_compute. repeat constructor.
    - intros lcs H. vm_compute in H. inversion H; subst lcs; clear H.
      vm_compute. repeat constructor.
    - vm_compute. repeat constructor.
    - vm_compute. constructor.
    - vm_compute. constructor. }
  split; [left; vm_compute; split; reflexivity|].
  split; [vm_compute; reflexivity|].
  split; [vm_compute; reflexivity|].
  split; [vm_compute; reflexivity|].
  split; [vm_compute; reflexivity|].
  split; [vm_compute; reflexivity|].
  split; vm_compute; reflexivity.
Qed.

Lemma rit_shipped_not_fixpoint :
  exists d t d' t', remove_included_taxes_shipped d = RitDone t /\ rit_document_shipped d = Some d' /\
                    calculate d' = Totals t' /\ t_total t <> t_total t' /\ t_payable t <> t_payable t'.
Proof.
  exists rit_witness.
  let r0 := eval vm_compute in (remove_included_taxes_shipped rit_witness) in
  let r1 := eval vm_compute in (rit_document_shipped rit_witness) in
  match r0 with
  | RitDone ?t =>
    match r1 with
    | Some ?d' => let r2 := eval vm_compute in (calculate d') in
                  match r2 with Totals ?t' => exists t, d', t' end
    end
  end.
  split; [vm_compute; reflexivity|]. split; [vm_compute; reflexivity|]. split; [vm_compute; reflexivity|].
  split; vm_compute; discriminate.
Qed.
