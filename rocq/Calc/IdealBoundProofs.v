(* C01 - where the implementation's rounding points are not the documented ones (witnesses), and
   the distance of the presented totals from the unrounded exact value under 'precise'. *)
From Coq Require Import ZArith QArith Qabs Qround Lia Lqa List Bool ZifyBool ZifyNat Setoid Morphisms.
From Verif Require Import Base.Wire Base.Rha Base.RhaProofs Num.Amount Num.AmountProofs Calc.Doc Calc.Calc
  Calc.TaxProofs Calc.ExpLemmas Calc.BoundProofs Calc.Ideal Calc.IdealProofs Calc.IdealClass.
Import ListNotations.
Open Scope Q_scope.

(* ------------------------------------------------------------------------------------------ *)
(* witnesses: rounding at other than the documented points                                     *)
(* ------------------------------------------------------------------------------------------ *)
(* (1) a price converted by an exchange rate is rounded to the currency's decimals before it is
   multiplied by the quantity: 1000 x 1.00 USD at 0.915, two decimals, 'precise':
   presented total 920.00, exact value 915.00 *)
Definition w_exchange : doc :=
  mkDoc 2 false [] 1
    [mkLine (mkA 1000 0) (mkItem (mkA 100 2) (Some (2%Z, 2%nat)) []) [] [] [] []]
    [] [] [mkXrate 2 1 (mkA 915 3)] [] [] None.

(* (2) the price of a line with a breakdown is rounded to the decimals of the sub-line prices:
   1000 x (0.5 x 0.01), two decimals, 'precise': presented total 10.00, exact value 5.00 *)
Definition w_breakdown : doc :=
  mkDoc 2 false [] 1
    [mkLine (mkA 1000 0) (mkItem (mkA 0 0) None []) [mkSub (mkA 5 1) (mkItem (mkA 1 2) None []) [] []] [] [] []]
    [] [] [] [] [] None.

Definition far_from_exact (d : doc) : Prop :=
  d_currency_rule d = false /\ (length (d_lines d) <= 1)%nat /\
  exists t x, calculate d = Totals t /\ exact d = Some x /\
    unitQ (d_c d) <= Qabs (toQ (t_total t) - i_total x).

Lemma w_exchange_far : far_from_exact w_exchange.
Proof.
  split; [reflexivity|]. split; [cbn; lia|].
  eexists. eexists. split; [vm_compute; reflexivity|]. split; [vm_compute; reflexivity|].
  vm_compute. discriminate.
Qed.

Lemma w_breakdown_far : far_from_exact w_breakdown.
Proof.
  split; [reflexivity|]. split; [cbn; lia|].
  eexists. eexists. split; [vm_compute; reflexivity|]. split; [vm_compute; reflexivity|].
  vm_compute. discriminate.
Qed.

(* the last sentence of the property, unrestricted, is false of the model: a one-line document
   whose presented total is a full minor unit (here: five hundred) away from the exact value *)
Lemma precise_error_bound_unrestricted_refuted :
  exists d, d_currency_rule d = false /\ (length (d_lines d) <= 1)%nat /\
    exists t x, calculate d = Totals t /\ exact d = Some x /\
      unitQ (d_c d) <= Qabs (toQ (t_total t) - i_total x).
Proof. exists w_exchange. exact w_exchange_far. Qed.

(* (3) under 'currency' a line sum is NOT the product rounded once to the currency's decimals:
   a price with more decimals than the currency makes it a double rounding.
   0.05 x 0.0999 = 0.004995: rounded at 4 decimals 0.0050, then at 2 decimals 0.01; rounded once 0.00 *)
Definition w_double_rounding : line := mkLine (mkA 5 2) (mkItem (mkA 999 4) None []) [] [] [] [].

Lemma currency_line_sum_single_rounding_refuted :
  exists l lc, plain_line l /\ calc_line true 2 1 [] l = Some lc /\
    val (lc_sum lc) <> roundQ 2 (toQ (it_price (ln_item l)) * toQ (ln_qty l)).
Proof.
  exists w_double_rounding. eexists. split; [repeat split|]. split; [vm_compute; reflexivity|].
  vm_compute. discriminate.
Qed.

(* ------------------------------------------------------------------------------------------ *)
(* closeness calculus                                                                          *)
(* ------------------------------------------------------------------------------------------ *)
Definition cl (e x y : Q) : Prop := Qabs (x - y) <= e.

#[global] Instance cl_proper : Proper (Qeq ==> Qeq ==> Qeq ==> iff) cl.
Proof. intros e e' He x x' Hx y y' Hy. unfold cl. rewrite He, Hx, Hy. reflexivity. Qed.

Lemma cl_refl x : cl 0 x x.
Proof. unfold cl. setoid_replace (x - x) with 0 by ring. cbn. discriminate. Qed.

Lemma cl_weaken a b x y : cl a x y -> a <= b -> cl b x y.
Proof. unfold cl. intros H L. eapply Qle_trans; eassumption. Qed.

Lemma cl_nonneg a x y : cl a x y -> 0 <= a.
Proof. unfold cl. intros H. eapply Qle_trans; [apply Qabs_nonneg|exact H]. Qed.

Lemma cl_plus a b x y z w : cl a x y -> cl b z w -> cl (a + b) (x + z) (y + w).
Proof.
  unfold cl. intros H1 H2. apply Qabs_Qle_condition in H1. apply Qabs_Qle_condition in H2.
  apply Qabs_Qle_condition. split; lra.
Qed.

Lemma cl_minus a b x y z w : cl a x y -> cl b z w -> cl (a + b) (x - z) (y - w).
Proof.
  unfold cl. intros H1 H2. apply Qabs_Qle_condition in H1. apply Qabs_Qle_condition in H2.
  apply Qabs_Qle_condition. split; lra.
Qed.

Lemma cl_opp a x y : cl a x y -> cl a (- x) (- y).
Proof.
  unfold cl. intros H1. apply Qabs_Qle_condition in H1. apply Qabs_Qle_condition. split; lra.
Qed.

Lemma cl_mult a x y p : cl a x y -> Qabs p <= 1 -> cl a (x * p) (y * p).
Proof.
  unfold cl. intros H P. setoid_replace (x * p - y * p) with ((x - y) * p) by ring.
  rewrite Qabs_Qmult. pose proof (Qabs_nonneg (x - y)). pose proof (Qabs_nonneg p).
  set (u := Qabs (x - y)) in *. set (v := Qabs p) in *. nra.
Qed.

Lemma rnd_error e q : Qabs (rnd e q - q) <= (1 # 2) * unitQ e.
Proof. exact (roundQ_error e q). Qed.

Lemma cl_rnd e a x y : cl a x y -> cl (a + (1 # 2) * unitQ e) (rnd e x) y.
Proof.
  unfold cl. intros H. pose proof (rnd_error e x) as K.
  apply Qabs_Qle_condition in H. apply Qabs_Qle_condition in K. apply Qabs_Qle_condition. split; lra.
Qed.

(* half a unit of the (c+2)-th decimal: the error of one rounding at working precision *)
Definition eps (c : nat) : Q := (1 # 2) * unitQ (c + 2).

Lemma eps_pos c : 0 < eps c.
Proof. unfold eps. pose proof (unitQ_pos (c + 2)). lra. Qed.

Lemma half_unit_le_eps c w : (c + 2 <= w)%nat -> (1 # 2) * unitQ w <= eps c.
Proof. intros H. unfold eps. pose proof (unitQ_mono (c + 2) w H). lra. Qed.

Lemma cl_rnd_w c w a x y : (c + 2 <= w)%nat -> cl a x y -> cl (a + eps c) (rnd w x) y.
Proof.
  intros W H. eapply cl_weaken; [apply cl_rnd, H|]. pose proof (half_unit_le_eps c w W). lra.
Qed.

Lemma nQ_S n : nQ (S n) == nQ n + 1.
Proof. unfold nQ. rewrite Nat2Z.inj_succ, <- Z.add_1_r, inject_Z_plus. reflexivity. Qed.
Lemma nQ_nonneg n : 0 <= nQ n.
Proof. unfold nQ. change 0 with (inject_Z 0). rewrite <- Zle_Qle. lia. Qed.
Lemma nQ_app {A} (l1 l2 : list A) : nQ (length (l1 ++ l2)) == nQ (length l1) + nQ (length l2).
Proof. unfold nQ. rewrite app_length, Nat2Z.inj_add, inject_Z_plus. reflexivity. Qed.

(* sums: element-wise closeness with a uniform bound *)
Lemma cl_sum_uniform a xs ys : Forall2 (cl a) xs ys -> cl (nQ (length xs) * a) (sumQl xs) (sumQl ys).
Proof.
  intros F. induction F as [|x y r s H _ IH]; cbn [sumQl fold_right length].
  - setoid_replace (nQ 0 * a) with 0 by (unfold nQ; cbn; ring). apply cl_refl.
  - rewrite nQ_S. setoid_replace ((nQ (length r) + 1) * a) with (a + nQ (length r) * a) by ring.
    apply cl_plus; assumption.
Qed.

(* ------------------------------------------------------------------------------------------ *)
(* simple documents: the features whose rounding points are the documented ones                *)
(* ------------------------------------------------------------------------------------------ *)
Lemma price_unconverted R c cur rates it : unconverted cur it ->
  exists P, s_item_price R c cur rates it = Some P /\ s_item_price noround c cur rates it = Some P.
Proof.
  unfold unconverted, s_item_price. destruct (it_cur it) as [[ic isub]|]; [|intros _; eexists; split; reflexivity].
  intros [E|E].
  - subst ic. rewrite Z.eqb_refl. eexists; split; reflexivity.
  - destruct (ic =? cur)%Z; [eexists; split; reflexivity|].
    destruct (find_alt cur (it_alts it)); [eexists; split; reflexivity|congruence].
Qed.

Lemma nonzero_pct_ok p x : pct_ok p -> nonzero_pct p = Some x -> Qabs x <= 1.
Proof.
  unfold pct_ok, nonzero_pct. destruct p as [q|]; [|discriminate].
  destruct (Qeq_bool (toQ q) 0); [discriminate|]. intros H E. injection E as <-. exact H.
Qed.

Lemma s_row_close c sum sum' q ch d : simple_row d ->
  cl (eps c) (fq sum) (fq sum') -> fp sum' = fp sum -> (c + 2 <= fp sum)%nat ->
  cl (2 * eps c) (fq (s_row rnd false c sum q ch d)) (fq (s_row noround false c sum' q ch d)).
Proof.
  intros PO CS EP W. unfold s_row. pose proof (eps_pos c) as EPS.
  assert (A1 : cl (2 * eps c)
    (fq (match nonzero_pct (ld_pct d) with
     | Some p => prod rnd match ld_base d with Some b => s_base rnd false c b | None => sum end p
     | None => of_amount (ld_amount d) end))
    (fq (match nonzero_pct (ld_pct d) with
     | Some p => prod noround match ld_base d with Some b => s_base noround false c b | None => sum' end p
     | None => of_amount (ld_amount d) end))).
  { destruct (nonzero_pct (ld_pct d)) as [p|] eqn:NP.
    - pose proof (nonzero_pct_ok _ _ PO NP) as P1. unfold prod. cbn [fq fp]. unfold noround at 1.
      destruct (ld_base d) as [b|].
      + unfold s_base. cbn [raise fq fp of_amount].
        eapply cl_weaken; [apply (cl_rnd_w c); [lia|apply cl_refl]|lra].
      + setoid_replace (2 * eps c) with (eps c + eps c) by ring.
        apply (cl_rnd_w c); [exact W|]. apply cl_mult; assumption.
    - eapply cl_weaken; [apply cl_refl|lra]. }
  unfold settle. cbn [raise fq]. destruct ch; [|exact A1].
  destruct (ld_rate d) as [r|]; [|exact A1].
  cbn [fq]. eapply cl_weaken; [apply cl_refl|lra].
Qed.

Lemma s_rows_close c sum sum' q ch ds : Forall simple_row ds ->
  cl (eps c) (fq sum) (fq sum') -> fp sum' = fp sum -> (c + 2 <= fp sum)%nat ->
  Forall2 (cl (3 * eps c))
    (map (fun x => rnd (fp sum) (fq x)) (map (s_row rnd false c sum q ch) ds))
    (map (fun x => noround (fp sum') (fq x)) (map (s_row noround false c sum' q ch) ds)).
Proof.
  intros F CS EP W. induction F as [|d r H _ IH]; cbn [map]; constructor; [|exact IH].
  unfold noround at 1. setoid_replace (3 * eps c) with (2 * eps c + eps c) by ring.
  apply (cl_rnd_w c); [exact W|]. apply s_row_close; assumption.
Qed.

Lemma s_line_close c cur rates l : simple_line cur l ->
  exists il il', s_line rnd false c cur rates l = Some il /\ s_line noround false c cur rates l = Some il' /\
    cl (e_line l * eps c) (fq (il_total il)) (fq (il_total il')) /\ (c + 2 <= fp (il_total il))%nat.
Proof.
  intros (B & U & FD & FC). unfold s_line. rewrite B. cbn [s_subs].
  destruct (price_unconverted rnd c cur rates (ln_item l) U) as (P & E1 & E2). rewrite E1, E2.
  eexists. eexists. split; [reflexivity|]. split; [reflexivity|].
  cbn [il_total]. unfold wmin, settle.
  set (sum := raise c (prod rnd (raise (c + 2) P) (toQ (ln_qty l)))).
  set (sum' := raise c (prod noround (raise (c + 2) P) (toQ (ln_qty l)))).
  assert (W : (c + 2 <= fp sum)%nat) by (unfold sum; cbn [raise prod fp]; lia).
  assert (EP : fp sum' = fp sum) by reflexivity.
  assert (CS : cl (eps c) (fq sum) (fq sum')).
  { unfold sum, sum'. cbn [raise prod fq fp]. unfold noround.
    setoid_replace (eps c) with (0 + eps c) by ring. apply (cl_rnd_w c); [lia|apply cl_refl]. }
  split; [|exact W].
  unfold s_total. cbn [fq fp].
  pose proof (cl_sum_uniform _ _ _ (s_rows_close c sum sum' (of_amount (ln_qty l)) false _ FD CS EP W)) as SD.
  pose proof (cl_sum_uniform _ _ _ (s_rows_close c sum sum' (of_amount (ln_qty l)) true _ FC CS EP W)) as SC.
  rewrite !map_length in SD, SC.
  unfold e_line.
  setoid_replace ((1 + 3 * nQ (length (ln_discounts l)) + 3 * nQ (length (ln_charges l))) * eps c)
    with (eps c + nQ (length (ln_discounts l)) * (3 * eps c) + nQ (length (ln_charges l)) * (3 * eps c)) by ring.
  apply cl_plus; [apply cl_minus|]; assumption.
Qed.

(* ------------------------------------------------------------------------------------------ *)
(* all lines, the document sum, document discounts and charges                                 *)
(* ------------------------------------------------------------------------------------------ *)
Inductive lines_close (c : nat) : list line -> list iline -> list iline -> Prop :=
| lines_close_nil : lines_close c [] [] []
| lines_close_cons l il il' ls ils ils' :
    cl (e_line l * eps c) (fq (il_total il)) (fq (il_total il')) -> (c + 2 <= fp (il_total il))%nat ->
    lines_close c ls ils ils' -> lines_close c (l :: ls) (il :: ils) (il' :: ils').


Lemma s_lines_close c cur rates ls : Forall (simple_line cur) ls ->
  exists ils ils', s_lines rnd false c cur rates ls = Some ils /\ s_lines noround false c cur rates ls = Some ils' /\
    lines_close c ls ils ils'.
Proof.
  intros F. induction F as [|l r H _ IH]; cbn [s_lines].
  - exists [], []. repeat split. constructor.
  - destruct (s_line_close c cur rates l H) as (il & il' & E1 & E2 & C & W).
    destruct IH as (ils & ils' & I1 & I2 & LC). rewrite E1, E2, I1, I2.
    eexists. eexists. split; [reflexivity|]. split; [reflexivity|]. constructor; assumption.
Qed.

Lemma maxl_ge_z l z : (z <= maxl l z)%nat.
Proof. induction l; cbn [maxl fold_right]; [lia|]. fold (maxl l z). lia. Qed.

Lemma lines_sum_close c ls ils ils' : lines_close c ls ils ils' ->
  cl (e_sum ls * eps c) (fq (s_sum_figs c (map il_total ils))) (fq (s_sum_figs c (map il_total ils'))) /\
  (ls <> [] -> (c + 2 <= fp (s_sum_figs c (map il_total ils)))%nat).
Proof.
  intros LC. unfold s_sum_figs. cbn [fq fp]. split.
  - induction LC as [|l il il' ls ils ils' C W _ IH]; cbn [map sumQl fold_right e_sum].
    + setoid_replace (0 * eps c) with 0 by ring. apply cl_refl.
    + fold (e_sum ls). setoid_replace ((e_line l + e_sum ls) * eps c) with (e_line l * eps c + e_sum ls * eps c) by ring.
      apply cl_plus; assumption.
  - intros NE. destruct LC as [|l il il' ls ils ils' C W _]; [congruence|].
    cbn [map maxl fold_right]. lia.
Qed.

Lemma e_line_nonneg l : 0 <= e_line l.
Proof. unfold e_line. pose proof (nQ_nonneg (length (ln_discounts l))). pose proof (nQ_nonneg (length (ln_charges l))). lra. Qed.

Lemma e_sum_nonneg ls : 0 <= e_sum ls.
Proof.
  unfold e_sum. induction ls as [|l r IH]; cbn [map sumQl fold_right]; [lra|].
  pose proof (e_line_nonneg l). fold (sumQl (map e_line r)). lra.
Qed.


Lemma s_ddc_close c sum sum' B d : simple_drow d -> 0 <= B ->
  cl (B * eps c) (fq sum) (fq sum') -> (c + 2 <= fp sum)%nat ->
  cl ((B + 1) * eps c) (fq (s_ddc rnd false c sum d)) (fq (s_ddc noround false c sum' d)).
Proof.
  intros PO BP CS W. unfold s_ddc, settle. cbn [raise fq]. pose proof (eps_pos c) as EPS.
  setoid_replace ((B + 1) * eps c) with (B * eps c + eps c) by ring.
  destruct (nonzero_pct (dd_pct d)) as [p|] eqn:NP.
  - pose proof (nonzero_pct_ok _ _ PO NP) as P1. unfold prod. cbn [fq fp]. unfold noround at 1.
    destruct (dd_base d) as [b|].
    + unfold s_base. cbn [raise fq fp of_amount].
      eapply cl_weaken; [apply (cl_rnd_w c); [lia|apply cl_refl]|nra].
    + apply (cl_rnd_w c); [exact W|]. apply cl_mult; assumption.
  - eapply cl_weaken; [apply cl_refl|nra].
Qed.

Lemma s_ddcs_close c sum sum' B ds : Forall simple_drow ds -> 0 <= B ->
  cl (B * eps c) (fq sum) (fq sum') -> (c + 2 <= fp sum)%nat ->
  Forall2 (cl ((B + 1) * eps c))
    (map fq (map snd (map (fun x => (x, s_ddc rnd false c sum x)) ds)))
    (map fq (map snd (map (fun x => (x, s_ddc noround false c sum' x)) ds))).
Proof.
  intros F BP CS W. induction F as [|d r H _ IH]; cbn [map snd]; constructor; [|exact IH].
  apply s_ddc_close; assumption.
Qed.

Lemma oQ_opt_sum c xs : oQ (s_opt_sum c xs) == sumQl (map fq xs).
Proof. unfold s_opt_sum. destruct xs; [reflexivity|]. reflexivity. Qed.

(* ------------------------------------------------------------------------------------------ *)
(* tax rows, groups and categories                                                             *)
(* ------------------------------------------------------------------------------------------ *)

Inductive rows_close (c : nat) : list Q -> list irow -> list irow -> Prop :=
| rows_close_nil : rows_close c [] [] []
| rows_close_cons b r r' bs rs rs' :
    cl (b * eps c) (fq (ir_total r)) (fq (ir_total r')) -> ir_taxes r' = ir_taxes r ->
    Forall combo_ok (ir_taxes r) -> 0 <= b ->
    rows_close c bs rs rs' -> rows_close c (b :: bs) (r :: rs) (r' :: rs').

Definition row_prec (c : nat) (r : irow) : Prop := ir_taxes r = [] \/ (c + 2 <= fp (ir_total r))%nat.

Lemma rows_close_app c b1 r1 r1' b2 r2 r2' :
  rows_close c b1 r1 r1' -> rows_close c b2 r2 r2' -> rows_close c (b1 ++ b2) (r1 ++ r2) (r1' ++ r2').
Proof. intros H1 H2. induction H1; cbn [app]; [exact H2|constructor; assumption]. Qed.

Lemma prepare_close c bs rs rs' : rows_close c bs rs rs' ->
  rows_close c bs (map (s_prepare c) rs) (map (s_prepare c) rs') /\ Forall (row_prec c) (map (s_prepare c) rs).
Proof.
  intros H. induction H as [|b r r' bs rs rs' C E F B _ [IH1 IH2]]; cbn [map]; [split; constructor|].
  assert (K : cl (b * eps c) (fq (ir_total (s_prepare c r))) (fq (ir_total (s_prepare c r'))) /\
              ir_taxes (s_prepare c r') = ir_taxes (s_prepare c r) /\
              ir_taxes (s_prepare c r) = ir_taxes r /\ row_prec c (s_prepare c r)).
  { unfold s_prepare, row_prec. rewrite E. destruct (ir_taxes r) eqn:T.
    - split; [exact C|]. split; [congruence|]. split; [exact T|left; exact T].
    - cbn [ir_total ir_taxes raise fq fp]. split; [exact C|]. split; [reflexivity|]. split; [reflexivity|right; lia]. }
  destruct K as (K1 & K2 & K3 & K4).
  split; [constructor; try assumption|constructor; assumption].
  rewrite K3. exact F.
Qed.

Lemma inv_le_1 p : 0 <= p -> Qabs (/ (p + 1)) <= 1.
Proof.
  intros H. assert (P : 0 < p + 1) by lra.
  rewrite Qabs_pos by (apply Qlt_le_weak, Qinv_lt_0_compat, P).
  setoid_replace (/ (p + 1)) with (1 / (p + 1)) by (unfold Qdiv; ring).
  apply Qle_shift_div_r; [exact P|lra].
Qed.

Lemma get_combo_in pit cbs cb : get_combo pit cbs = Some cb -> In cb cbs.
Proof.
  induction cbs as [|x r IH]; cbn [get_combo]; [discriminate|].
  destruct (eqb_bytes (cb_cat x) pit); [intros E; injection E as <-; left; reflexivity|intros E; right; apply IH, E].
Qed.

Lemma remove_close c pit b r r' : cl (b * eps c) (fq (ir_total r)) (fq (ir_total r')) -> ir_taxes r' = ir_taxes r ->
  Forall combo_ok (ir_taxes r) -> row_prec c r ->
  match s_remove rnd pit r, s_remove noround pit r' with
  | Some x, Some x' => cl ((b + 1) * eps c) (fq (ir_total x)) (fq (ir_total x')) /\ ir_taxes x' = ir_taxes x /\
                       ir_taxes x = ir_taxes r /\ row_prec c x
  | None, None => True
  | _, _ => False
  end.
Proof.
  intros C E F PR. pose proof (eps_pos c) as EPS.
  assert (W0 : cl ((b + 1) * eps c) (fq (ir_total r)) (fq (ir_total r'))) by (eapply cl_weaken; [exact C|lra]).
  unfold s_remove. rewrite E. destruct pit; [repeat split; assumption|].
  destruct (get_combo _ _) as [cb|] eqn:G; [|repeat split; assumption].
  destruct (cb_retained cb); [exact I|].
  destruct (cb_pct cb) as [p|] eqn:EP; [|repeat split; assumption].
  cbn [ir_total ir_taxes fq fp]. split; [|split; [reflexivity|split; [reflexivity|]]].
  - apply get_combo_in in G. rewrite Forall_forall in F. destruct (F cb G) as [R1 _]. rewrite EP in R1. cbn [rate_ok] in R1.
    destruct PR as [T|W]; [rewrite T in G; destruct G|].
    unfold noround. setoid_replace ((b + 1) * eps c) with (b * eps c + eps c) by ring.
    apply (cl_rnd_w c); [exact W|]. unfold Qdiv. apply cl_mult; [exact C|apply inv_le_1, R1].
  - destruct PR as [T|W]; [left; exact T|right; exact W].
Qed.

Lemma remove_all_close c pit bs rs rs' : rows_close c bs rs rs' -> Forall (row_prec c) rs ->
  match s_remove_all rnd pit rs, s_remove_all noround pit rs' with
  | Some xs, Some xs' => rows_close c (map (fun b => b + 1) bs) xs xs' /\ Forall (row_prec c) xs /\
                         map ir_taxes xs = map ir_taxes rs
  | None, None => True
  | _, _ => False
  end.
Proof.
  intros H. induction H as [|b r r' bs rs rs' C E F B _ IH]; intros PR; cbn [s_remove_all map]; [repeat split; constructor|].
  inversion PR as [|? ? P1 P2]; subst.
  pose proof (remove_close c pit b r r' C E F P1) as K.
  destruct (s_remove rnd pit r) as [x|]; destruct (s_remove noround pit r') as [x'|]; try contradiction;
    specialize (IH P2); destruct (s_remove_all rnd pit rs) as [xs|]; destruct (s_remove_all noround pit rs') as [xs'|];
    try contradiction; try exact I.
  destruct K as (K1 & K2 & K3 & K4). destruct IH as (I1 & I2 & I3).
  split; [constructor; try assumption|split; [constructor; assumption|cbn [map]; rewrite K3, I3; reflexivity]].
  - rewrite K3. exact F.
  - lra.
Qed.

Lemma prepare_taxes c rs : map ir_taxes (map (s_prepare c) rs) = map ir_taxes rs.
Proof.
  induction rs as [|r rs IH]; cbn [map]; [reflexivity|]. rewrite IH. f_equal.
  unfold s_prepare. destruct (ir_taxes r) eqn:T; [exact T|reflexivity].
Qed.

(* groups and categories: same shape whatever the rounding operator; distance of the bases *)
Fixpoint gdist (gs gs' : list igroup) : Q :=
  match gs, gs' with
  | g :: r, g' :: r' => Qabs (fq (ig_base g) - fq (ig_base g')) + gdist r r'
  | _, _ => 0
  end.
Definition gshape (c : nat) (g g' : igroup) : Prop :=
  ig_cb g' = ig_cb g /\ combo_ok (ig_cb g) /\ (c + 2 <= fp (ig_base g))%nat.
Fixpoint cdist (cts cts' : list icat) : Q :=
  match cts, cts' with
  | ct :: r, ct' :: r' => gdist (ic_groups ct) (ic_groups ct') + cdist r r'
  | _, _ => 0
  end.
Definition cshape (c : nat) (ct ct' : icat) : Prop :=
  ic_code ct' = ic_code ct /\ ic_retained ct' = ic_retained ct /\ Forall2 (gshape c) (ic_groups ct) (ic_groups ct').
Definition ngroups (cts : list icat) : nat := fold_right (fun ct n => (length (ic_groups ct) + n)%nat) 0%nat cts.

Lemma gdist_nonneg gs : forall gs', 0 <= gdist gs gs'.
Proof.
  induction gs as [|g r IH]; intros [|g' r']; cbn [gdist]; try lra.
  pose proof (Qabs_nonneg (fq (ig_base g) - fq (ig_base g'))). specialize (IH r'). lra.
Qed.

Lemma add_to_groups_close c tot tot' cb gs gs' :
  Forall2 (gshape c) gs gs' -> combo_ok cb -> (c + 2 <= fp tot)%nat ->
  Forall2 (gshape c) (s_add_to_groups rnd false c tot cb gs) (s_add_to_groups noround false c tot' cb gs') /\
  gdist (s_add_to_groups rnd false c tot cb gs) (s_add_to_groups noround false c tot' cb gs')
    <= gdist gs gs' + Qabs (fq tot - fq tot') /\
  (length (s_add_to_groups rnd false c tot cb gs) <= length gs + 1)%nat.
Proof.
  intros F OK W. induction F as [|g g' r r' (E & O & P) Hr IH]; cbn [s_add_to_groups].
  - split; [|split; [|cbn; lia]].
    + constructor; [|constructor]. unfold gshape, s_add_base. cbn [ig_cb ig_base fp]. split; [reflexivity|split; [exact OK|lia]].
    + cbn [gdist s_add_base ig_base fq].
      setoid_replace (0 + fq tot - (0 + fq tot')) with (fq tot - fq tot') by ring. lra.
  - assert (M : ig_matches g' cb = ig_matches g cb) by (unfold ig_matches; rewrite E; reflexivity).
    rewrite M. destruct (ig_matches g cb).
    + split; [|split; [|cbn [length]; lia]].
      * constructor; [|exact Hr]. unfold gshape, s_add_base. cbn [ig_cb ig_base fp]. split; [first [exact E|reflexivity]|split; [exact O|lia]].
      * cbn [gdist s_add_base ig_base fq].
        setoid_replace (fq (ig_base g) + fq tot - (fq (ig_base g') + fq tot'))
          with ((fq (ig_base g) - fq (ig_base g')) + (fq tot - fq tot')) by ring.
        pose proof (Qabs_triangle (fq (ig_base g) - fq (ig_base g')) (fq tot - fq tot')). lra.
    + destruct IH as (I1 & I2 & I3). split; [|split; [|cbn [length]; lia]].
      * constructor; [split; [exact E|split; [exact O|exact P]]|exact I1].
      * cbn [gdist]. lra.
Qed.

Lemma add_to_cats_close c tot tot' cb cts cts' :
  Forall2 (cshape c) cts cts' -> combo_ok cb -> (c + 2 <= fp tot)%nat ->
  Forall2 (cshape c) (s_add_to_cats rnd false c tot cb cts) (s_add_to_cats noround false c tot' cb cts') /\
  cdist (s_add_to_cats rnd false c tot cb cts) (s_add_to_cats noround false c tot' cb cts')
    <= cdist cts cts' + Qabs (fq tot - fq tot') /\
  (ngroups (s_add_to_cats rnd false c tot cb cts) <= ngroups cts + 1)%nat.
Proof.
  intros F OK W. induction F as [|ct ct' r r' (E & Rt & G) Hr IH]; cbn [s_add_to_cats].
  - destruct (add_to_groups_close c tot tot' cb [] [] (Forall2_nil _) OK W) as (A1 & A2 & A3).
    split; [|split].
    + constructor; [|constructor]. repeat split. exact A1.
    + cbn [cdist ic_groups]. cbn [gdist] in A2. lra.
    + cbn [ngroups fold_right ic_groups]. cbn [length] in A3. lia.
  - rewrite E. destruct (eqb_bytes (ic_code ct) (cb_cat cb)).
    + destruct (add_to_groups_close c tot tot' cb _ _ G OK W) as (A1 & A2 & A3).
      split; [|split].
      * constructor; [|exact Hr]. repeat split; try assumption.
      * cbn [cdist ic_groups]. lra.
      * cbn [ngroups fold_right ic_groups]. fold (ngroups r). lia.
    + destruct IH as (I1 & I2 & I3). split; [|split].
      * constructor; [repeat split; assumption|exact I1].
      * cbn [cdist]. lra.
      * cbn [ngroups fold_right]. fold (ngroups r). fold (ngroups (s_add_to_cats rnd false c tot cb r)). lia.
Qed.

Lemma cshape_refl_nil c : Forall2 (cshape c) [] [].
Proof. constructor. Qed.

Lemma add_row_close c b r r' cts cts' :
  Forall2 (cshape c) cts cts' -> cl (b * eps c) (fq (ir_total r)) (fq (ir_total r')) -> ir_taxes r' = ir_taxes r ->
  Forall combo_ok (ir_taxes r) -> row_prec c r ->
  Forall2 (cshape c) (s_add_row rnd false c cts r) (s_add_row noround false c cts' r') /\
  cdist (s_add_row rnd false c cts r) (s_add_row noround false c cts' r')
    <= cdist cts cts' + nQ (length (ir_taxes r)) * (b * eps c) /\
  (ngroups (s_add_row rnd false c cts r) <= ngroups cts + length (ir_taxes r))%nat.
Proof.
  intros F C E OK PR. unfold s_add_row. rewrite E.
  destruct PR as [T|W].
  { rewrite T. cbn [fold_left length]. split; [exact F|]. split; [|lia].
    setoid_replace (nQ 0 * (b * eps c)) with 0 by (unfold nQ; cbn; ring). lra. }
  clear E. revert cts cts' F. induction OK as [|cb cbs O _ IH]; intros cts cts' F; cbn [fold_left length].
  - split; [exact F|]. split; [|lia]. setoid_replace (nQ 0 * (b * eps c)) with 0 by (unfold nQ; cbn; ring). lra.
  - destruct (add_to_cats_close c (ir_total r) (ir_total r') cb cts cts' F O W) as (A1 & A2 & A3).
    destruct (IH _ _ A1) as (I1 & I2 & I3). split; [exact I1|]. split; [|lia].
    rewrite nQ_S. unfold cl in C. lra.
Qed.

Lemma cats_close c bs rs rs' : rows_close c bs rs rs' -> Forall (row_prec c) rs ->
  Forall2 (cshape c) (s_cats rnd false c rs) (s_cats noround false c rs') /\
  cdist (s_cats rnd false c rs) (s_cats noround false c rs') <= row_weight bs (map ir_taxes rs) * eps c /\
  (ngroups (s_cats rnd false c rs) <= ncombos (map ir_taxes rs))%nat.
Proof.
  intros H PR. unfold s_cats.
  assert (G : forall cts cts', Forall2 (cshape c) cts cts' ->
     Forall2 (cshape c) (fold_left (s_add_row rnd false c) rs cts) (fold_left (s_add_row noround false c) rs' cts') /\
     cdist (fold_left (s_add_row rnd false c) rs cts) (fold_left (s_add_row noround false c) rs' cts')
       <= cdist cts cts' + row_weight bs (map ir_taxes rs) * eps c /\
     (ngroups (fold_left (s_add_row rnd false c) rs cts) <= ngroups cts + ncombos (map ir_taxes rs))%nat).
  { induction H as [|b r r' bs rs rs' C E F B _ IH]; intros cts cts' K; cbn [fold_left map row_weight ncombos fold_right].
    - split; [exact K|]. split; [lra|lia].
    - inversion PR as [|? ? P1 P2]; subst.
      destruct (add_row_close c b r r' cts cts' K C E F P1) as (A1 & A2 & A3).
      destruct (IH P2 _ _ A1) as (I1 & I2 & I3). split; [exact I1|]. split; [|fold (ncombos (map ir_taxes rs)); lia].
      lra. }
  destruct (G [] [] (cshape_refl_nil c)) as (G1 & G2 & G3). split; [exact G1|]. split; [|exact G3].
  cbn [cdist] in G2. lra.
Qed.

(* group and category amounts, the tax *)
Lemma rate_abs p q : rate_ok (Some p) -> toQ p = q -> Qabs q <= 1.
Proof. intros [A B] <-. rewrite Qabs_pos; assumption. Qed.

Lemma group_amounts_close c g g' : gshape c g g' ->
  cl (Qabs (fq (ig_base g) - fq (ig_base g')) + eps c) (g_amount rnd g) (g_amount noround g') /\
  cl (Qabs (fq (ig_base g) - fq (ig_base g')) + eps c) (g_surcharge rnd g) (g_surcharge noround g').
Proof.
  intros (E & [O1 O2] & W). unfold g_amount, g_surcharge. rewrite E.
  pose proof (eps_pos c) as EPS. pose proof (Qabs_nonneg (fq (ig_base g) - fq (ig_base g'))) as NN.
  assert (Z : cl (Qabs (fq (ig_base g) - fq (ig_base g')) + eps c) 0 0) by (eapply cl_weaken; [apply cl_refl|lra]).
  assert (K : forall p, rate_ok (Some p) ->
     cl (Qabs (fq (ig_base g) - fq (ig_base g')) + eps c) (fq (prod rnd (ig_base g) (toQ p))) (fq (prod noround (ig_base g') (toQ p)))).
  { intros p OK. unfold prod. cbn [fq]. unfold noround. apply (cl_rnd_w c); [exact W|].
    apply cl_mult; [unfold cl; lra|]. eapply rate_abs; [exact OK|reflexivity]. }
  destruct (cb_pct (ig_cb g)) as [p|]; [|split; exact Z].
  split; [apply K, O1|]. destruct (cb_sur (ig_cb g)) as [s|]; [apply K, O2|exact Z].
Qed.

Lemma cat_amounts_close c ct ct' : cshape c ct ct' ->
  let B := gdist (ic_groups ct) (ic_groups ct') + nQ (length (ic_groups ct)) * eps c in
  cl B (cat_amount rnd false c ct) (cat_amount noround false c ct') /\
  cl B (cat_surcharge rnd false c ct) (cat_surcharge noround false c ct').
Proof.
  intros (_ & _ & F). cbv zeta. unfold cat_amount, cat_surcharge, contribQ.
  induction F as [|g g' r r' H _ [IH1 IH2]]; cbn [map sumQl fold_right gdist length].
  - setoid_replace (0 + nQ 0 * eps c) with 0 by (unfold nQ; cbn; ring). split; apply cl_refl.
  - destruct (group_amounts_close c g g' H) as [A S]. rewrite nQ_S.
    setoid_replace (Qabs (fq (ig_base g) - fq (ig_base g')) + gdist r r' + (nQ (length r) + 1) * eps c)
      with ((Qabs (fq (ig_base g) - fq (ig_base g')) + eps c) + (gdist r r' + nQ (length r) * eps c)) by ring.
    split; apply cl_plus; assumption.
Qed.

Lemma tax_close c cts cts' : Forall2 (cshape c) cts cts' ->
  cl (2 * (cdist cts cts' + nQ (ngroups cts) * eps c)) (s_tax rnd false c cts) (s_tax noround false c cts').
Proof.
  intros F. unfold s_tax. induction F as [|ct ct' r r' H _ IH]; cbn [map sumQl fold_right cdist ngroups].
  - setoid_replace (2 * (0 + nQ 0 * eps c)) with 0 by (unfold nQ; cbn; ring). apply cl_refl.
  - fold (ngroups r). destruct (cat_amounts_close c ct ct' H) as [A S]. cbv zeta in A, S.
    pose proof H as (_ & Rt & _).
    assert (K : cl (2 * (gdist (ic_groups ct) (ic_groups ct') + nQ (length (ic_groups ct)) * eps c))
                   (cat_signed rnd false c ct) (cat_signed noround false c ct')).
    { unfold cat_signed. rewrite Rt.
      setoid_replace (2 * (gdist (ic_groups ct) (ic_groups ct') + nQ (length (ic_groups ct)) * eps c))
        with ((gdist (ic_groups ct) (ic_groups ct') + nQ (length (ic_groups ct)) * eps c) +
              (gdist (ic_groups ct) (ic_groups ct') + nQ (length (ic_groups ct)) * eps c)) by ring.
      destruct (ic_retained ct); [apply cl_opp|]; apply cl_plus; assumption. }
    unfold nQ. rewrite Nat2Z.inj_add, inject_Z_plus. fold (nQ (length (ic_groups ct))). fold (nQ (ngroups r)).
    setoid_replace (2 * (gdist (ic_groups ct) (ic_groups ct') + cdist r r' + (nQ (length (ic_groups ct)) + nQ (ngroups r)) * eps c))
      with (2 * (gdist (ic_groups ct) (ic_groups ct') + nQ (length (ic_groups ct)) * eps c) +
            2 * (cdist r r' + nQ (ngroups r) * eps c)) by ring.
    apply cl_plus; assumption.
Qed.

Lemma cdist_nonneg cts : forall cts', 0 <= cdist cts cts'.
Proof.
  induction cts as [|ct r IH]; intros [|ct' r']; cbn [cdist]; try lra.
  pose proof (gdist_nonneg (ic_groups ct) (ic_groups ct')). specialize (IH r'). lra.
Qed.

Lemma find_cat_close c code cts cts' : Forall2 (cshape c) cts cts' ->
  match s_find_cat code cts, s_find_cat code cts' with
  | Some ct, Some ct' => cl (cdist cts cts' + nQ (ngroups cts) * eps c) (cat_amount rnd false c ct) (cat_amount noround false c ct')
  | None, None => True
  | _, _ => False
  end.
Proof.
  intros F. pose proof (eps_pos c) as EPS.
  induction F as [|ct ct' r r' H Hr IH]; cbn [s_find_cat cdist ngroups fold_right]; [exact I|].
  fold (ngroups r). pose proof H as (E & _ & _). rewrite E.
  unfold nQ. rewrite Nat2Z.inj_add, inject_Z_plus. fold (nQ (length (ic_groups ct))). fold (nQ (ngroups r)).
  pose proof (gdist_nonneg (ic_groups ct) (ic_groups ct')). pose proof (cdist_nonneg r r').
  pose proof (nQ_nonneg (length (ic_groups ct))). pose proof (nQ_nonneg (ngroups r)).
  destruct (eqb_bytes (ic_code ct) code).
  - destruct (cat_amounts_close c ct ct' H) as [A _]. cbv zeta in A. eapply cl_weaken; [exact A|nra].
  - destruct (s_find_cat code r); destruct (s_find_cat code r'); try contradiction; [|exact I].
    eapply cl_weaken; [exact IH|nra].
Qed.

(* ------------------------------------------------------------------------------------------ *)
(* the document: classes, budgets, the bound                                                   *)
(* ------------------------------------------------------------------------------------------ *)
(* optional totals: both present and close, or both absent *)
Definition ocl (B : Q) (o o' : option Q) : Prop :=
  match o, o' with Some a, Some b => cl B a b | None, None => True | _, _ => False end.

Lemma ocl_weaken B B' o o' : ocl B o o' -> B <= B' -> ocl B' o o'.
Proof. unfold ocl. destruct o; destruct o'; auto. intros H L. eapply cl_weaken; eassumption. Qed.

Lemma opt_sum_close c B xs ys : cl B (oQ (s_opt_sum c xs)) (oQ (s_opt_sum c ys)) -> length xs = length ys ->
  ocl (B + (1 # 2) * unitQ c)
      (match option_map fq (s_opt_sum c xs) with Some q => Some (rnd c q) | None => None end)
      (match option_map fq (s_opt_sum c ys) with Some q => Some (noround c q) | None => None end).
Proof.
  intros H L. destruct xs; destruct ys; try discriminate; cbn [s_opt_sum option_map ocl]; [exact I|].
  unfold noround. apply cl_rnd. exact H.
Qed.

Lemma advances_close c B ws ws' twt twt' rs : Forall (fun r => pct_ok (pr_pct r)) rs -> 0 <= B ->
  cl (B * eps c) twt twt' -> (c + 2 <= ws)%nat ->
  Forall2 (cl ((B + 1) * eps c)) (map fq (map (s_advance rnd c (mkF twt ws)) rs))
                                 (map fq (map (s_advance noround c (mkF twt' ws')) rs)).
Proof.
  intros F BP C W. pose proof (eps_pos c) as EPS.
  induction F as [|r rs H _ IH]; cbn [map]; constructor; [|exact IH].
  unfold s_advance. cbn [raise fq]. setoid_replace ((B + 1) * eps c) with (B * eps c + eps c) by ring.
  unfold pct_ok in H. destruct (pr_pct r) as [p|].
  - unfold prod. cbn [fq fp]. unfold noround. apply (cl_rnd_w c); [exact W|]. apply cl_mult; assumption.
  - eapply cl_weaken; [apply cl_refl|nra].
Qed.

Lemma line_rows_close c ls ils ils' : lines_close c ls ils ils' ->
  Forall (fun l => Forall combo_ok (ln_taxes l)) ls ->
  rows_close c (map e_line ls)
    (map (fun p => mkIR (il_total (fst p)) (ln_taxes (snd p))) (combine ils ls))
    (map (fun p => mkIR (il_total (fst p)) (ln_taxes (snd p))) (combine ils' ls)) /\
  map ir_taxes (map (fun p => mkIR (il_total (fst p)) (ln_taxes (snd p))) (combine ils ls)) = map ln_taxes ls.
Proof.
  intros H F. induction H as [|l il il' ls ils ils' C W _ IH]; cbn [combine map]; [split; constructor|].
  inversion F as [|? ? F1 F2]; subst. destruct (IH F2) as [I1 I2].
  split; [constructor; cbn [ir_total ir_taxes fst snd]; try assumption; try reflexivity; apply e_line_nonneg|].
  cbn [ir_taxes snd]. rewrite I2. reflexivity.
Qed.

Lemma drows_close c sum sum' B neg ds : Forall simple_drow ds -> Forall (fun x => Forall combo_ok (dd_taxes x)) ds ->
  0 <= B -> cl (B * eps c) (fq sum) (fq sum') -> (c + 2 <= fp sum)%nat ->
  let f := fun x : fig => if neg : bool then fneg x else x in
  rows_close c (map (fun _ => B + 1) ds)
    (map (fun p => mkIR (f (snd p)) (dd_taxes (fst p))) (map (fun x => (x, s_ddc rnd false c sum x)) ds))
    (map (fun p => mkIR (f (snd p)) (dd_taxes (fst p))) (map (fun x => (x, s_ddc noround false c sum' x)) ds)) /\
  map ir_taxes (map (fun p => mkIR (f (snd p)) (dd_taxes (fst p))) (map (fun x => (x, s_ddc rnd false c sum x)) ds))
    = map dd_taxes ds.
Proof.
  intros F1 F2 BP CS W. cbv zeta.
  induction F1 as [|x r H _ IH]; cbn [map]; [split; constructor|].
  inversion F2 as [|? ? G1 G2]; subst. destruct (IH G2) as [I1 I2].
  split; [constructor; cbn [ir_total ir_taxes fst snd]; try assumption; try reflexivity|].
  - pose proof (s_ddc_close c sum sum' B x H BP CS W) as K.
    destruct neg; [cbn [fneg fq]; apply cl_opp, K|exact K].
  - lra.
  - cbn [ir_taxes fst]. rewrite I2. reflexivity.
Qed.

Lemma nQ_le a b : (a <= b)%nat -> nQ a <= nQ b.
Proof. intros H. unfold nQ. rewrite <- Zle_Qle. lia. Qed.

Lemma rows_close_nonempty c bs rs rs' : rows_close c bs rs rs' -> bs <> [] -> rs <> [] /\ rs' <> [].
Proof. intros H N. destruct H; [congruence|split; discriminate]. Qed.

Lemma row_weight_nonneg bs : Forall (fun b => 0 <= b) bs -> forall ts, 0 <= row_weight bs ts.
Proof.
  intros F. induction F as [|b r H _ IH]; intros [|t ts]; cbn [row_weight]; try lra.
  pose proof (nQ_nonneg (length t)). specialize (IH ts). nra.
Qed.

Lemma b_cats_nonneg d : 0 <= b_cats d.
Proof.
  unfold b_cats. pose proof (nQ_nonneg (ncombos (row_taxes d))).
  assert (0 <= row_weight (map (fun b => b + 1) (row_bounds d)) (row_taxes d)); [|lra].
  apply row_weight_nonneg. apply Forall_forall. intros b I. apply in_map_iff in I. destruct I as (b0 & <- & I).
  assert (0 <= b0); [|lra]. unfold row_bounds in I. pose proof (e_sum_nonneg (d_lines d)).
  apply in_app_or in I. destruct I as [I|I]; [|apply in_app_or in I; destruct I as [I|I]];
    apply in_map_iff in I; destruct I as (z & <- & _); [apply e_line_nonneg|unfold b_drow; lra|unfold b_drow; lra].
Qed.

Lemma b_inc_nonneg d : 0 <= b_inc d.
Proof. unfold b_inc. pose proof (b_cats_nonneg d). destruct (d_pit d); lra. Qed.

(* the specification with and without rounding, on a simple document *)
Lemma spec_close d x : simple_doc d -> ideal d = Some x ->
  exists y, exact d = Some y /\
    let c := d_c d in
    let P := (1 # 2) * unitQ c in
    cl (e_sum (d_lines d) * eps c + P) (i_sum x) (i_sum y) /\
    cl (b_total d * eps c + P) (i_total x) (i_total y) /\
    cl (b_tax d * eps c + P) (i_tax x) (i_tax y) /\
    cl (b_twt d * eps c + P) (i_twt x) (i_twt y) /\
    cl (b_payable d * eps c + P) (i_payable x) (i_payable y) /\
    ocl (b_discount d * eps c + P) (i_discount x) (i_discount y) /\
    ocl (b_charge d * eps c + P) (i_charge x) (i_charge y) /\
    ocl (b_advances d * eps c + P) (i_advances x) (i_advances y) /\
    ocl (b_due d * eps c + P) (i_due x) (i_due y).
Proof.
  intros (CR & NE & FL & FD & FC & TL & TD & TC & FA & RO). unfold ideal, exact, spec. rewrite CR.
  set (c := d_c d).
  destruct (s_lines_close c (d_cur d) (d_rates d) (d_lines d) FL) as (ils & ils' & E1 & E2 & LC).
  rewrite E1, E2.
  destruct (lines_sum_close c _ _ _ LC) as [CS W]. specialize (W NE).
  set (sum := s_sum_figs c (map il_total ils)) in *. set (sum' := s_sum_figs c (map il_total ils')) in *.
  pose proof (e_sum_nonneg (d_lines d)) as ESP. pose proof (eps_pos c) as EPS.
  set (ES := e_sum (d_lines d)) in *.
  (* document discounts and charges *)
  pose proof (cl_sum_uniform _ _ _ (s_ddcs_close c sum sum' ES _ FD ESP CS W)) as HD.
  pose proof (cl_sum_uniform _ _ _ (s_ddcs_close c sum sum' ES _ FC ESP CS W)) as HC.
  rewrite !map_length in HD, HC.
  set (dds := map (fun x => (x, s_ddc rnd false c sum x)) (d_discounts d)) in *.
  set (dds' := map (fun x => (x, s_ddc noround false c sum' x)) (d_discounts d)) in *.
  set (ccs := map (fun x => (x, s_ddc rnd false c sum x)) (d_charges d)) in *.
  set (ccs' := map (fun x => (x, s_ddc noround false c sum' x)) (d_charges d)) in *.
  rewrite <- !oQ_opt_sum with (c := c) in HD, HC.
  (* rows *)
  destruct (line_rows_close c _ _ _ LC TL) as [RL RLt].
  destruct (drows_close c sum sum' ES true _ FD TD ESP CS W) as [RD RDt]. cbv zeta in RD, RDt.
  destruct (drows_close c sum sum' ES false _ FC TC ESP CS W) as [RC RCt]. cbv zeta in RC, RCt.
  fold dds dds' in RD, RDt. fold ccs ccs' in RC, RCt.
  pose proof (rows_close_app _ _ _ _ _ _ _ RL (rows_close_app _ _ _ _ _ _ _ RD RC)) as RR.
  fold (s_rows ils (d_lines d) dds ccs) in RR. fold (s_rows ils' (d_lines d) dds' ccs') in RR.
  assert (RT : map ir_taxes (s_rows ils (d_lines d) dds ccs) = row_taxes d).
  { unfold s_rows, row_taxes. rewrite !map_app, RLt, RDt, RCt. reflexivity. }
  fold (b_drow d) in RR. fold (row_bounds d) in RR.
  assert (BN : row_bounds d <> []).
  { unfold row_bounds. destruct (d_lines d); [congruence|discriminate]. }
  destruct (rows_close_nonempty _ _ _ _ RR BN) as [N1 N2].
  destruct (s_rows ils (d_lines d) dds ccs) as [|r0 rs0] eqn:ER; [congruence|].
  destruct (s_rows ils' (d_lines d) dds' ccs') as [|r0' rs0'] eqn:ER'; [congruence|].
  destruct (prepare_close c _ _ _ RR) as [RP PP].
  pose proof (remove_all_close c (d_pit d) _ _ _ RP PP) as RM.
  destruct (s_remove_all rnd (d_pit d) (map (s_prepare c) (r0 :: rs0))) as [rows2|]; [|discriminate].
  destruct (s_remove_all noround (d_pit d) (map (s_prepare c) (r0' :: rs0'))) as [rows2'|]; [|contradiction].
  destruct RM as (R2 & P2 & T2). rewrite prepare_taxes, RT in T2.
  destruct (cats_close c _ _ _ R2 P2) as (SH & CD & NG). rewrite T2 in CD, NG.
  set (cts := s_cats rnd false c rows2) in *. set (cts' := s_cats noround false c rows2') in *.
  pose proof (tax_close c cts cts' SH) as TX.
  pose proof (nQ_le _ _ NG) as NGQ. pose proof (nQ_nonneg (ngroups cts)) as NGP.
  pose proof (cdist_nonneg cts cts') as CDP.
  assert (BCv : cdist cts cts' + nQ (ngroups cts) * eps c <= b_cats d * eps c).
  { unfold b_cats. assert (K : nQ (ngroups cts) * eps c <= nQ (ncombos (row_taxes d)) * eps c) by (apply Qmult_le_compat_r; [exact NGQ|apply Qlt_le_weak, EPS]).
    assert (CD' : cdist cts cts' <= row_weight (map (fun b => b + 1) (row_bounds d)) (row_taxes d) * eps c) by exact CD.
    clear CD. revert K CD'. generalize (nQ (ngroups cts)) (nQ (ncombos (row_taxes d))) (cdist cts cts') (eps c)
      (row_weight (map (fun b : Q => b + 1) (row_bounds d)) (row_taxes d)). intros n1 n2 cd e rw K CD. lra. }
  intros H. injection H as <-. eexists. split; [reflexivity|]. cbv zeta.
  cbn [i_sum i_total i_tax i_twt i_payable i_discount i_charge i_advances i_due].
  assert (OD := opt_sum_close c _ (map snd dds) (map snd dds') HD ltac:(unfold dds, dds'; rewrite !map_length; reflexivity)).
  assert (OC := opt_sum_close c _ (map snd ccs) (map snd ccs') HC ltac:(unfold ccs, ccs'; rewrite !map_length; reflexivity)).
  set (PD := match option_map fq (s_opt_sum c (map snd dds)) with Some q => Some (rnd c q) | None => None end) in *.
  set (PD' := match option_map fq (s_opt_sum c (map snd dds')) with Some q => Some (noround c q) | None => None end) in *.
  set (PC := match option_map fq (s_opt_sum c (map snd ccs)) with Some q => Some (rnd c q) | None => None end) in *.
  set (PC' := match option_map fq (s_opt_sum c (map snd ccs')) with Some q => Some (noround c q) | None => None end) in *.
  clearbody PD PD' PC PC'.
  unfold noround.
  set (ws := fp sum) in *.
  (* total before taxes *)
  set (t1 := fq sum - rnd ws (oQ (s_opt_sum c (map snd dds))) + rnd ws (oQ (s_opt_sum c (map snd ccs)))).
  set (t1' := fq sum' - oQ (s_opt_sum c (map snd dds')) + oQ (s_opt_sum c (map snd ccs'))).
  assert (H1 : cl (b_total1 d * eps c) t1 t1').
  { unfold t1, t1', b_total1. fold ES. fold (b_drow d).
    setoid_replace ((ES + (nQ (length (d_discounts d)) * b_drow d + 1) + (nQ (length (d_charges d)) * b_drow d + 1)) * eps c)
      with (ES * eps c + (nQ (length (d_discounts d)) * ((ES + 1) * eps c) + eps c)
            + (nQ (length (d_charges d)) * ((ES + 1) * eps c) + eps c)) by (unfold b_drow; fold ES; ring).
    apply cl_plus; [apply cl_minus; [exact CS|]|]; apply (cl_rnd_w c); assumption. }
  (* included tax *)
  set (inc := match match d_pit d with [] => None | _ :: _ => match s_find_cat (d_pit d) cts with
               | Some ct => Some (cat_amount rnd false c ct) | None => None end end with
              | Some ti => rnd ws ti | None => 0 end).
  set (inc' := match match d_pit d with [] => None | _ :: _ => match s_find_cat (d_pit d) cts' with
               | Some ct => Some (cat_amount noround false c ct) | None => None end end with
              | Some ti => ti | None => 0 end).
  assert (HI : cl (b_inc d * eps c) inc inc').
  { unfold inc, inc', b_inc. pose proof (nQ_nonneg (ncombos (row_taxes d))).
    destruct (d_pit d) as [|b0 bs0]; [setoid_replace (0 * eps c) with 0 by ring; apply cl_refl|].
    assert (Z : cl ((b_cats d + 1) * eps c) 0 0) by (eapply cl_weaken; [apply cl_refl|nra]).
    pose proof (find_cat_close c (b0 :: bs0) cts cts' SH) as K.
    destruct (s_find_cat (b0 :: bs0) cts); destruct (s_find_cat (b0 :: bs0) cts'); try contradiction; [|exact Z].
    setoid_replace ((b_cats d + 1) * eps c) with (b_cats d * eps c + eps c) by ring.
    apply (cl_rnd_w c); [exact W|]. eapply cl_weaken; [exact K|exact BCv]. }
  assert (HT : cl (b_total d * eps c) (t1 - inc) (t1' - inc')).
  { unfold b_total. setoid_replace ((b_total1 d + b_inc d) * eps c) with (b_total1 d * eps c + b_inc d * eps c) by ring.
    apply cl_minus; assumption. }
  assert (HX : cl (b_tax d * eps c) (s_tax rnd false c cts) (s_tax noround false c cts')).
  { eapply cl_weaken; [exact TX|]. unfold b_tax. lra. }
  assert (HW : cl (b_twt d * eps c) (t1 - inc + rnd ws (s_tax rnd false c cts)) (t1' - inc' + s_tax noround false c cts')).
  { unfold b_twt. setoid_replace ((b_total d + (b_tax d + 1)) * eps c) with (b_total d * eps c + (b_tax d * eps c + eps c)) by ring.
    apply cl_plus; [exact HT|]. apply (cl_rnd_w c); assumption. }
  assert (HP : cl (b_payable d * eps c)
                  (t1 - inc + rnd ws (s_tax rnd false c cts) + match d_rounding d with Some r => rnd ws (rnd c (toQ r)) | None => 0 end)
                  (t1' - inc' + s_tax noround false c cts' + match d_rounding d with Some r => toQ r | None => 0 end)).
  { unfold b_payable. setoid_replace ((b_twt d + 1) * eps c) with (b_twt d * eps c + eps c) by ring.
    apply cl_plus; [exact HW|]. fold c in RO. destruct (d_rounding d) as [r|].
    - cbn [rounding_ok] in RO.
      assert (RCq : rnd c (toQ r) == toQ r).
      { rewrite <- (proj1 (pres_rescale c r (toQ r) (Qeq_refl _))). apply rescale_lossless, RO. }
      setoid_replace (eps c) with (0 + eps c) by ring. apply (cl_rnd_w c); [exact W|]. rewrite RCq. apply cl_refl.
    - eapply cl_weaken; [apply cl_refl|lra]. }
  split; [apply cl_rnd, CS|]. split; [apply cl_rnd, HT|]. split; [apply cl_rnd, HX|]. split; [apply cl_rnd, HW|]. split; [apply cl_rnd, HP|].
  split; [eapply ocl_weaken; [exact OD|]; unfold b_discount, b_drow; fold ES; apply Qle_lteq; right; ring|].
  split; [eapply ocl_weaken; [exact OC|]; unfold b_charge, b_drow; fold ES; apply Qle_lteq; right; ring|].
  (* advances and the amount due *)
  assert (BT : 0 <= b_twt d).
  { pose proof (b_cats_nonneg d). pose proof (b_inc_nonneg d).
    pose proof (nQ_nonneg (length (d_discounts d))). pose proof (nQ_nonneg (length (d_charges d))).
    unfold b_twt, b_tax, b_total, b_total1, b_drow. fold ES.
    assert (0 <= nQ (length (d_discounts d)) * (ES + 1)) by nra. assert (0 <= nQ (length (d_charges d)) * (ES + 1)) by nra. lra. }
  pose proof (cl_sum_uniform _ _ _ (advances_close c (b_twt d) ws (fp sum') _ _ (d_advances d) FA BT HW W)) as HA.
  rewrite !map_length in HA. rewrite <- !oQ_opt_sum with (c := c) in HA. unfold noround in HA.
  set (advs := map (s_advance rnd c _) (d_advances d)) in *.
  set (advs' := map (s_advance (fun _ q => q) c _) (d_advances d)) in *.
  assert (LA : length advs = length advs') by (unfold advs, advs'; rewrite !map_length; reflexivity).
  split.
  - setoid_replace (nQ (length (d_advances d)) * ((b_twt d + 1) * eps c)) with (b_advances d * eps c) in HA by (unfold b_advances; ring).
    pose proof (opt_sum_close c _ advs advs' HA LA) as OA. unfold noround in OA. exact OA.
  - destruct advs as [|a0 ar]; destruct advs' as [|a0' ar']; try discriminate; cbn [s_opt_sum ocl]; [exact I|].
    cbn [s_opt_sum oQ] in HA. apply cl_rnd. unfold b_due.
    setoid_replace ((b_payable d + (b_advances d + 1)) * eps c)
      with (b_payable d * eps c + (nQ (length (d_advances d)) * ((b_twt d + 1) * eps c) + eps c)) by (unfold b_advances; ring).
    apply cl_minus; [exact HP|]. apply (cl_rnd_w c); [exact W|exact HA].
Qed.

(* ------------------------------------------------------------------------------------------ *)
(* the presented totals of the calculation against the unrounded exact value                   *)
(* ------------------------------------------------------------------------------------------ *)
(* optional totals of the calculation against optional exact values *)
Definition obound (P : Q -> Prop) (o : option amount) (o' : option Q) : Prop :=
  match o, o' with Some a, Some q => P (Qabs (toQ a - q)) | None, None => True | _, _ => False end.

Lemma obound_le c B o oi oy : opres c o oi -> ocl B oi oy -> obound (fun e => e <= B) o oy.
Proof.
  unfold opres, ocl, obound. destruct o; destruct oi; destruct oy; try contradiction; auto.
  intros [H _] K. unfold cl in K. rewrite H. exact K.
Qed.

Lemma obound_lt B u o oy : obound (fun e => e <= B) o oy -> B < u -> obound (fun e => e < u) o oy.
Proof.
  unfold obound. destruct o; destruct oy; auto. intros H L. eapply Qle_lt_trans; eassumption.
Qed.

Lemma precise_error_bound_budget d t : simple_doc d -> calculate d = Totals t ->
  exists y, exact d = Some y /\
    let c := d_c d in
    let P := (1 # 2) * unitQ c in
    Qabs (toQ (t_sum t) - i_sum y) <= e_sum (d_lines d) * eps c + P /\
    Qabs (toQ (t_total t) - i_total y) <= b_total d * eps c + P /\
    Qabs (toQ (t_tax t) - i_tax y) <= b_tax d * eps c + P /\
    Qabs (toQ (t_twt t) - i_twt y) <= b_twt d * eps c + P /\
    Qabs (toQ (t_payable t) - i_payable y) <= b_payable d * eps c + P /\
    obound (fun e => e <= b_discount d * eps c + P) (t_discount t) (i_discount y) /\
    obound (fun e => e <= b_charge d * eps c + P) (t_charge t) (i_charge y) /\
    obound (fun e => e <= b_advances d * eps c + P) (t_advances t) (i_advances y) /\
    obound (fun e => e <= b_due d * eps c + P) (t_due t) (i_due y).
Proof.
  intros S H. destruct (calc_refines_ideal d t H) as (x & I & R).
  destruct (spec_close d x S I) as (y & E & K). exists y. split; [exact E|]. cbv zeta in *.
  destruct R as (_ & (R1 & _) & RD & RC & _ & (R2 & _) & (R3 & _) & (R4 & _) & (R5 & _) & RA & RU & _).
  destruct K as (K1 & K2 & K3 & K4 & K5 & K6 & K7 & K8 & K9). unfold cl in *.
  rewrite R1, R2, R3, R4, R5.
  repeat (split; [assumption|]).
  split; [eapply obound_le; eassumption|]. split; [eapply obound_le; eassumption|].
  split; [eapply obound_le; eassumption|eapply obound_le; eassumption].
Qed.

Lemma eps_unit c : eps c == (1 # 200) * unitQ c.
Proof. unfold eps. rewrite unitQ_add. change (unitQ 2) with (1 # 100). ring. Qed.

(* ordinary-sized: the budget of the payable amount (the largest) stays under 100, i.e. under half
   a minor unit of accumulated working-precision error, the other half being presentation *)
Lemma precise_error_bound d t : simple_doc d -> b_due d < 100 -> calculate d = Totals t ->
  exists y, exact d = Some y /\
    let u := unitQ (d_c d) in
    Qabs (toQ (t_sum t) - i_sum y) < u /\
    Qabs (toQ (t_total t) - i_total y) < u /\
    Qabs (toQ (t_tax t) - i_tax y) < u /\
    Qabs (toQ (t_twt t) - i_twt y) < u /\
    Qabs (toQ (t_payable t) - i_payable y) < u /\
    obound (fun e => e < u) (t_discount t) (i_discount y) /\
    obound (fun e => e < u) (t_charge t) (i_charge y) /\
    obound (fun e => e < u) (t_advances t) (i_advances y) /\
    obound (fun e => e < u) (t_due t) (i_due y).
Proof.
  intros S B H. destruct (precise_error_bound_budget d t S H) as (y & E & K). exists y. split; [exact E|].
  cbv zeta in *. destruct K as (K1 & K2 & K3 & K4 & K5 & K6 & K7 & K8 & K9).
  pose proof (b_cats_nonneg d) as CN. pose proof (b_inc_nonneg d) as IN. pose proof (e_sum_nonneg (d_lines d)) as EN.
  pose proof (nQ_nonneg (length (d_discounts d))) as N1. pose proof (nQ_nonneg (length (d_charges d))) as N2.
  pose proof (nQ_nonneg (length (d_advances d))) as N3.
  pose proof (unitQ_pos (d_c d)) as U.
  assert (G : forall b, 0 <= b -> b <= b_due d -> b * eps (d_c d) + (1 # 2) * unitQ (d_c d) < unitQ (d_c d)).
  { intros b B0 B1. rewrite eps_unit. set (u := unitQ (d_c d)) in *. nra. }
  unfold b_due, b_advances, b_payable, b_twt, b_tax, b_total, b_total1, b_discount, b_charge, b_drow in *.
  set (es := e_sum (d_lines d)) in *. set (bc := b_cats d) in *. set (bi := b_inc d) in *.
  set (n1 := nQ (length (d_discounts d))) in *. set (n2 := nQ (length (d_charges d))) in *.
  set (n3 := nQ (length (d_advances d))) in *.
  assert (M1 : 0 <= n1 * (es + 1)) by nra. assert (M2 : 0 <= n2 * (es + 1)) by nra.
  set (m1 := n1 * (es + 1)) in *. set (m2 := n2 * (es + 1)) in *.
  set (tw := es + (m1 + 1) + (m2 + 1) + bi + (2 * bc + 1)) in *.
  assert (TW : 0 <= tw) by (unfold tw; lra).
  assert (M3 : 0 <= n3 * (tw + 1)) by nra. set (m3 := n3 * (tw + 1)) in *.
  split; [eapply Qle_lt_trans; [exact K1|apply G; unfold tw; lra]|].
  split; [eapply Qle_lt_trans; [exact K2|apply G; unfold tw; lra]|].
  split; [eapply Qle_lt_trans; [exact K3|apply G; unfold tw; lra]|].
  split; [eapply Qle_lt_trans; [exact K4|apply G; unfold tw; lra]|].
  split; [eapply Qle_lt_trans; [exact K5|apply G; unfold tw; lra]|].
  split; [eapply obound_lt; [exact K6|apply G; unfold tw; lra]|].
  split; [eapply obound_lt; [exact K7|apply G; unfold tw; lra]|].
  split; [eapply obound_lt; [exact K8|apply G; unfold tw; lra]|].
  eapply obound_lt; [exact K9|apply G; unfold tw; lra].
Qed.

(* ------------------------------------------------------------------------------------------ *)
(* the decidable version of the class                                                          *)
(* ------------------------------------------------------------------------------------------ *)
Lemma pct_okb_sound p : pct_okb p = true -> pct_ok p.
Proof. unfold pct_okb, pct_ok. destruct p; [apply Qle_bool_imp_le|auto]. Qed.

Lemma rate_okb_sound p : rate_okb p = true -> rate_ok p.
Proof.
  unfold rate_okb, rate_ok. destruct p; [|auto]. intros H. apply andb_prop in H. destruct H as [A B].
  split; apply Qle_bool_imp_le; assumption.
Qed.

Lemma combo_okb_sound cb : combo_okb cb = true -> combo_ok cb.
Proof. unfold combo_okb, combo_ok. intros H. apply andb_prop in H. destruct H. split; apply rate_okb_sound; assumption. Qed.

Lemma forallb_Forall {A} (f : A -> bool) (P : A -> Prop) l :
  (forall x, f x = true -> P x) -> forallb f l = true -> Forall P l.
Proof.
  intros H F. apply Forall_forall. intros x I. apply H. rewrite forallb_forall in F. apply F, I.
Qed.

Lemma unconvertedb_sound cur it : unconvertedb cur it = true -> unconverted cur it.
Proof.
  unfold unconvertedb, unconverted. destruct (it_cur it) as [[ic isub]|]; [|auto].
  intros H. apply orb_prop in H. destruct H as [H|H]; [left; apply Z.eqb_eq, H|right].
  destruct (find_alt cur (it_alts it)); [discriminate|discriminate].
Qed.

Lemma simple_lineb_sound cur l : simple_lineb cur l = true -> simple_line cur l.
Proof.
  unfold simple_lineb, simple_line. intros H.
  apply andb_prop in H. destruct H as [H H4]. apply andb_prop in H. destruct H as [H H3].
  apply andb_prop in H. destruct H as [H1 H2].
  split; [destruct (ln_breakdown l); [reflexivity|discriminate]|].
  split; [apply unconvertedb_sound, H2|].
  split; eapply forallb_Forall; try eassumption; intros x; apply pct_okb_sound.
Qed.

Lemma simple_docb_sound d : simple_docb d = true -> simple_doc d.
Proof.
  unfold simple_docb, simple_doc. intros H.
  repeat (let K := fresh "K" in apply andb_prop in H; destruct H as [H K]).
  split; [destruct (d_currency_rule d); [discriminate|reflexivity]|].
  split; [intros E; rewrite E in *; discriminate|].
  split; [eapply forallb_Forall; [|exact K6]; apply simple_lineb_sound|].
  split; [eapply forallb_Forall; [|exact K5]; intros x; apply pct_okb_sound|].
  split; [eapply forallb_Forall; [|exact K4]; intros x; apply pct_okb_sound|].
  split; [eapply forallb_Forall; [|exact K3]; intros x K'; eapply forallb_Forall; [|exact K']; apply combo_okb_sound|].
  split; [eapply forallb_Forall; [|exact K2]; intros x K'; eapply forallb_Forall; [|exact K']; apply combo_okb_sound|].
  split; [eapply forallb_Forall; [|exact K1]; intros x K'; eapply forallb_Forall; [|exact K']; apply combo_okb_sound|].
  split; [eapply forallb_Forall; [|exact K0]; intros x; apply pct_okb_sound|].
  unfold rounding_okb in K. unfold rounding_ok. destruct (d_rounding d) as [r|]; [apply Nat.leb_le, K|exact I].
Qed.

(* the clause rounding_ok of simple_doc is needed: a supplied totals.rounding with more decimals than
   the currency is presented at the currency's decimals and that figure is what payable adds, so the
   presented payable can be a full minor unit from the unrounded sum of the inputs.
   1 x 10.005 with rounding 0.005, two decimals: total with tax 10.005 presented 10.01, rounding
   presented 0.01, payable 10.015 presented 10.02; unrounded 10.005 + 0.005 = 10.01 *)
Definition w_rounding : doc :=
  mkDoc 2 false [] 1 [mkLine (mkA 1 0) (mkItem (mkA 10005 3) None []) [] [] [] []] [] [] [] [] [] (Some (mkA 5 3)).

Lemma precise_error_bound_supplied_rounding_refuted :
  exists d t y, simple_docb (mkDoc (d_c d) (d_currency_rule d) (d_pit d) (d_cur d) (d_lines d) (d_discounts d)
                                     (d_charges d) (d_rates d) (d_advances d) (d_dues d) None) = true /\
    (budget d < 100)%Z /\ calculate d = Totals t /\ exact d = Some y /\
    t_rounding t = Some (mkA 1 2) /\
    unitQ (d_c d) <= Qabs (toQ (t_payable t) - i_payable y).
Proof.
  exists w_rounding. eexists. eexists.
  split; [vm_compute; reflexivity|]. split; [vm_compute; reflexivity|]. split; [vm_compute; reflexivity|].
  split; [vm_compute; reflexivity|]. split; [vm_compute; reflexivity|]. vm_compute. discriminate.
Qed.

(* the bound, with decidable premises: what the check evaluates on every generated document *)
Lemma precise_error_bound_decidable d t : simple_docb d = true -> (budget d < 100)%Z -> calculate d = Totals t ->
  exists y, exact d = Some y /\
    let u := unitQ (d_c d) in
    Qabs (toQ (t_sum t) - i_sum y) < u /\
    Qabs (toQ (t_total t) - i_total y) < u /\
    Qabs (toQ (t_tax t) - i_tax y) < u /\
    Qabs (toQ (t_twt t) - i_twt y) < u /\
    Qabs (toQ (t_payable t) - i_payable y) < u /\
    obound (fun e => e < u) (t_discount t) (i_discount y) /\
    obound (fun e => e < u) (t_charge t) (i_charge y) /\
    obound (fun e => e < u) (t_advances t) (i_advances y) /\
    obound (fun e => e < u) (t_due t) (i_due y).
Proof.
  intros S B H. apply precise_error_bound; [apply simple_docb_sound, S| |exact H].
  unfold budget in B. eapply Qle_lt_trans; [apply Qle_ceiling|].
  change 100 with (inject_Z 100). rewrite <- Zlt_Qlt. exact B.
Qed.
