(* C01 - where the implementation's rounding points are not the documented ones (witnesses), and
   the distance of the presented totals from the unrounded exact value under 'precise'. *)
From Coq Require Import ZArith QArith Qabs Lia Lqa List Bool ZifyBool ZifyNat Setoid Morphisms.
From Verif Require Import Base.Wire Base.Rha Base.RhaProofs Num.Amount Num.AmountProofs Calc.Doc Calc.Calc
  Calc.TaxProofs Calc.ExpLemmas Calc.BoundProofs Calc.Ideal Calc.IdealProofs.
Import ListNotations.
Open Scope Q_scope.

(* ------------------------------------------------------------------------------------------ *)
(* witnesses: rounding at other than the documented points                                     *)
(* ------------------------------------------------------------------------------------------ *)
(* (1) a rate x quantity charge is rounded at the decimals the rate was written with:
   1 x 10.00 with a charge of 3 per unit on 0.5 units, two decimals, 'precise':
   presented total 12.00, exact value 11.50 - fifty minor units away *)
Definition w_rate_charge : doc :=
  mkDoc 2 false [] 1
    [mkLine (mkA 1 0) (mkItem (mkA 1000 2) None []) [] []
            [mkLdc (mkA 0 0) None None (Some (mkA 3 0)) (Some (mkA 5 1))] []]
    [] [] [] [] [] None.

(* (2) a price converted by an exchange rate is rounded to the currency's decimals before it is
   multiplied by the quantity: 1000 x 1.00 USD at 0.915, two decimals, 'precise':
   presented total 920.00, exact value 915.00 *)
Definition w_exchange : doc :=
  mkDoc 2 false [] 1
    [mkLine (mkA 1000 0) (mkItem (mkA 100 2) (Some (2%Z, 2%nat)) []) [] [] [] []]
    [] [] [mkXrate 2 1 (mkA 915 3)] [] [] None.

(* (3) the price of a line with a breakdown is rounded to the decimals of the sub-line prices:
   1000 x (0.5 x 0.01), two decimals, 'precise': presented total 10.00, exact value 5.00 *)
Definition w_breakdown : doc :=
  mkDoc 2 false [] 1
    [mkLine (mkA 1000 0) (mkItem (mkA 0 0) None []) [mkSub (mkA 5 1) (mkItem (mkA 1 2) None []) [] []] [] [] []]
    [] [] [] [] [] None.

Definition far_from_exact (d : doc) : Prop :=
  d_currency_rule d = false /\ (length (d_lines d) <= 1)%nat /\
  exists t x, calculate d = Totals t /\ exact d = Some x /\
    unitQ (d_c d) <= Qabs (toQ (t_total t) - i_total x).

Lemma w_rate_charge_far : far_from_exact w_rate_charge.
Proof.
  split; [reflexivity|]. split; [cbn; lia|].
  eexists. eexists. split; [vm_compute; reflexivity|]. split; [vm_compute; reflexivity|].
  vm_compute. discriminate.
Qed.

Lemma w_exchange_far : far_from_exact w_exchange.
Proof.
  split; [reflexivity|]. split; [cbn; lia|].
  eexists. eexists. split; [vm_compute; reflexivity|]. split; [vm_compute; reflexivity|].
  vm_compute. discriminate.
Qed.

Lemma w_breakdown_far : far_from_exact w_breakdown.
Proof.
  split; [reflexivity|]. split; [cbn; lia|].
  eexists. eexists. split; [vm_compute; reflexivity|]. split; [vm_compute; reflexivity|].
  vm_compute. discriminate.
Qed.

(* the last sentence of the property, unrestricted, is false of the model: a one-line document
   whose presented total is a full minor unit (here: fifty) away from the exact value *)
Lemma precise_error_bound_unrestricted_refuted :
  exists d, d_currency_rule d = false /\ (length (d_lines d) <= 1)%nat /\
    exists t x, calculate d = Totals t /\ exact d = Some x /\
      unitQ (d_c d) <= Qabs (toQ (t_total t) - i_total x).
Proof. exists w_rate_charge. exact w_rate_charge_far. Qed.

(* (4) under 'currency' a line sum is NOT the product rounded once to the currency's decimals:
   a price with more decimals than the currency makes it a double rounding.
   0.05 x 0.0999 = 0.004995: rounded at 4 decimals 0.0050, then at 2 decimals 0.01; rounded once 0.00 *)
Definition w_double_rounding : line := mkLine (mkA 5 2) (mkItem (mkA 999 4) None []) [] [] [] [].

Lemma currency_line_sum_single_rounding_refuted :
  exists l lc, plain_line l /\ calc_line true 2 1 [] l = Some lc /\
    val (lc_sum lc) <> roundQ 2 (toQ (it_price (ln_item l)) * toQ (ln_qty l)).
Proof.
  exists w_double_rounding. eexists. split; [repeat split|]. split; [vm_compute; reflexivity|].
  vm_compute. discriminate.
Qed.
