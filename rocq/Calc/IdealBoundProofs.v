(* C01 - where the implementation's rounding points are not the documented ones (witnesses), and
   the distance of the presented totals from the unrounded exact value under 'precise'. *)
From Coq Require Import ZArith QArith Qabs Lia Lqa List Bool ZifyBool ZifyNat Setoid Morphisms.
From Verif Require Import Base.Wire Base.Rha Base.RhaProofs Num.Amount Num.AmountProofs Calc.Doc Calc.Calc
  Calc.TaxProofs Calc.ExpLemmas Calc.BoundProofs Calc.Ideal Calc.IdealProofs.
Import ListNotations.
Open Scope Q_scope.

(* ------------------------------------------------------------------------------------------ *)
(* witnesses: rounding at other than the documented points                                     *)
(* ------------------------------------------------------------------------------------------ *)
(* (1) a rate x quantity charge is rounded at the decimals the rate was written with:
   1 x 10.00 with a charge of 3 per unit on 0.5 units, two decimals, 'precise':
   presented total 12.00, exact value 11.50 - fifty minor units away *)
Definition w_rate_charge : doc :=
  mkDoc 2 false [] 1
    [mkLine (mkA 1 0) (mkItem (mkA 1000 2) None []) [] []
            [mkLdc (mkA 0 0) None None (Some (mkA 3 0)) (Some (mkA 5 1))] []]
    [] [] [] [] [] None.

(* (2) a price converted by an exchange rate is rounded to the currency's decimals before it is
   multiplied by the quantity: 1000 x 1.00 USD at 0.915, two decimals, 'precise':
   presented total 920.00, exact value 915.00 *)
Definition w_exchange : doc :=
  mkDoc 2 false [] 1
    [mkLine (mkA 1000 0) (mkItem (mkA 100 2) (Some (2%Z, 2%nat)) []) [] [] [] []]
    [] [] [mkXrate 2 1 (mkA 915 3)] [] [] None.

(* (3) the price of a line with a breakdown is rounded to the decimals of the sub-line prices:
   1000 x (0.5 x 0.01), two decimals, 'precise': presented total 10.00, exact value 5.00 *)
Definition w_breakdown : doc :=
  mkDoc 2 false [] 1
    [mkLine (mkA 1000 0) (mkItem (mkA 0 0) None []) [mkSub (mkA 5 1) (mkItem (mkA 1 2) None []) [] []] [] [] []]
    [] [] [] [] [] None.

Definition far_from_exact (d : doc) : Prop :=
  d_currency_rule d = false /\ (length (d_lines d) <= 1)%nat /\
  exists t x, calculate d = Totals t /\ exact d = Some x /\
    unitQ (d_c d) <= Qabs (toQ (t_total t) - i_total x).

Lemma w_rate_charge_far : far_from_exact w_rate_charge.
Proof.
  split; [reflexivity|]. split; [cbn; lia|].
  eexists. eexists. split; [vm_compute; reflexivity|]. split; [vm_compute; reflexivity|].
  vm_compute. discriminate.
Qed.

Lemma w_exchange_far : far_from_exact w_exchange.
Proof.
  split; [reflexivity|]. split; [cbn; lia|].
  eexists. eexists. split; [vm_compute; reflexivity|]. split; [vm_compute; reflexivity|].
  vm_compute. discriminate.
Qed.

Lemma w_breakdown_far : far_from_exact w_breakdown.
Proof.
  split; [reflexivity|]. split; [cbn; lia|].
  eexists. eexists. split; [vm_compute; reflexivity|]. split; [vm_compute; reflexivity|].
  vm_compute. discriminate.
Qed.

(* the last sentence of the property, unrestricted, is false of the model: a one-line document
   whose presented total is a full minor unit (here: fifty) away from the exact value *)
Lemma precise_error_bound_unrestricted_refuted :
  exists d, d_currency_rule d = false /\ (length (d_lines d) <= 1)%nat /\
    exists t x, calculate d = Totals t /\ exact d = Some x /\
      unitQ (d_c d) <= Qabs (toQ (t_total t) - i_total x).
Proof. exists w_rate_charge. exact w_rate_charge_far. Qed.

(* (4) under 'currency' a line sum is NOT the product rounded once to the currency's decimals:
   a price with more decimals than the currency makes it a double rounding.
   0.05 x 0.0999 = 0.004995: rounded at 4 decimals 0.0050, then at 2 decimals 0.01; rounded once 0.00 *)
Definition w_double_rounding : line := mkLine (mkA 5 2) (mkItem (mkA 999 4) None []) [] [] [] [].

Lemma currency_line_sum_single_rounding_refuted :
  exists l lc, plain_line l /\ calc_line true 2 1 [] l = Some lc /\
    val (lc_sum lc) <> roundQ 2 (toQ (it_price (ln_item l)) * toQ (ln_qty l)).
Proof.
  exists w_double_rounding. eexists. split; [repeat split|]. split; [vm_compute; reflexivity|].
  vm_compute. discriminate.
Qed.

(* ------------------------------------------------------------------------------------------ *)
(* closeness calculus                                                                          *)
(* ------------------------------------------------------------------------------------------ *)
Definition cl (e x y : Q) : Prop := Qabs (x - y) <= e.

#[global] Instance cl_proper : Proper (Qeq ==> Qeq ==> Qeq ==> iff) cl.
Proof. intros e e' He x x' Hx y y' Hy. unfold cl. rewrite He, Hx, Hy. reflexivity. Qed.

Lemma cl_refl x : cl 0 x x.
Proof. unfold cl. setoid_replace (x - x) with 0 by ring. cbn. discriminate. Qed.

Lemma cl_weaken a b x y : cl a x y -> a <= b -> cl b x y.
Proof. unfold cl. intros H L. eapply Qle_trans; eassumption. Qed.

Lemma cl_nonneg a x y : cl a x y -> 0 <= a.
Proof. unfold cl. intros H. eapply Qle_trans; [apply Qabs_nonneg|exact H]. Qed.

Lemma cl_plus a b x y z w : cl a x y -> cl b z w -> cl (a + b) (x + z) (y + w).
Proof.
  unfold cl. intros H1 H2. apply Qabs_Qle_condition in H1. apply Qabs_Qle_condition in H2.
  apply Qabs_Qle_condition. split; lra.
Qed.

Lemma cl_minus a b x y z w : cl a x y -> cl b z w -> cl (a + b) (x - z) (y - w).
Proof.
  unfold cl. intros H1 H2. apply Qabs_Qle_condition in H1. apply Qabs_Qle_condition in H2.
  apply Qabs_Qle_condition. split; lra.
Qed.

Lemma cl_opp a x y : cl a x y -> cl a (- x) (- y).
Proof.
  unfold cl. intros H1. apply Qabs_Qle_condition in H1. apply Qabs_Qle_condition. split; lra.
Qed.

Lemma cl_mult a x y p : cl a x y -> Qabs p <= 1 -> cl a (x * p) (y * p).
Proof.
  unfold cl. intros H P. setoid_replace (x * p - y * p) with ((x - y) * p) by ring.
  rewrite Qabs_Qmult. pose proof (Qabs_nonneg (x - y)). pose proof (Qabs_nonneg p).
  set (u := Qabs (x - y)) in *. set (v := Qabs p) in *. nra.
Qed.

Lemma rnd_error e q : Qabs (rnd e q - q) <= (1 # 2) * unitQ e.
Proof. exact (roundQ_error e q). Qed.

Lemma cl_rnd e a x y : cl a x y -> cl (a + (1 # 2) * unitQ e) (rnd e x) y.
Proof.
  unfold cl. intros H. pose proof (rnd_error e x) as K.
  apply Qabs_Qle_condition in H. apply Qabs_Qle_condition in K. apply Qabs_Qle_condition. split; lra.
Qed.

(* half a unit of the (c+2)-th decimal: the error of one rounding at working precision *)
Definition eps (c : nat) : Q := (1 # 2) * unitQ (c + 2).

Lemma eps_pos c : 0 < eps c.
Proof. unfold eps. pose proof (unitQ_pos (c + 2)). lra. Qed.

Lemma half_unit_le_eps c w : (c + 2 <= w)%nat -> (1 # 2) * unitQ w <= eps c.
Proof. intros H. unfold eps. pose proof (unitQ_mono (c + 2) w H). lra. Qed.

Lemma cl_rnd_w c w a x y : (c + 2 <= w)%nat -> cl a x y -> cl (a + eps c) (rnd w x) y.
Proof.
  intros W H. eapply cl_weaken; [apply cl_rnd, H|]. pose proof (half_unit_le_eps c w W). lra.
Qed.

Definition nQ (n : nat) : Q := inject_Z (Z.of_nat n).
Lemma nQ_S n : nQ (S n) == nQ n + 1.
Proof. unfold nQ. rewrite Nat2Z.inj_succ, <- Z.add_1_r, inject_Z_plus. reflexivity. Qed.
Lemma nQ_nonneg n : 0 <= nQ n.
Proof. unfold nQ. change 0 with (inject_Z 0). rewrite <- Zle_Qle. lia. Qed.
Lemma nQ_app {A} (l1 l2 : list A) : nQ (length (l1 ++ l2)) == nQ (length l1) + nQ (length l2).
Proof. unfold nQ. rewrite app_length, Nat2Z.inj_add, inject_Z_plus. reflexivity. Qed.

(* sums: element-wise closeness with a uniform bound *)
Lemma cl_sum_uniform a xs ys : Forall2 (cl a) xs ys -> cl (nQ (length xs) * a) (sumQl xs) (sumQl ys).
Proof.
  intros F. induction F as [|x y r s H _ IH]; cbn [sumQl fold_right length].
  - setoid_replace (nQ 0 * a) with 0 by (unfold nQ; cbn; ring). apply cl_refl.
  - rewrite nQ_S. setoid_replace ((nQ (length r) + 1) * a) with (a + nQ (length r) * a) by ring.
    apply cl_plus; assumption.
Qed.

(* ------------------------------------------------------------------------------------------ *)
(* simple documents: the features whose rounding points are the documented ones                *)
(* ------------------------------------------------------------------------------------------ *)
Definition pct_ok (p : option amount) : Prop :=
  match p with Some q => Qabs (toQ q) <= 1 | None => True end.
(* no rate x quantity; a percentage of at most 100% either way *)
Definition simple_row (d : ldc) : Prop := ld_rate d = None /\ pct_ok (ld_pct d).
(* priced in the document's currency, or by an alternative price in it *)
Definition unconverted (cur : Z) (it : item) : Prop :=
  match it_cur it with
  | None => True
  | Some (ic, _) => ic = cur \/ find_alt cur (it_alts it) <> None
  end.
Definition simple_line (cur : Z) (l : line) : Prop :=
  ln_breakdown l = [] /\ unconverted cur (ln_item l) /\
  Forall simple_row (ln_discounts l) /\ Forall simple_row (ln_charges l).

(* error budget of a line total, in units of eps: one for the product, three per row *)
Definition e_line (l : line) : Q := 1 + 3 * nQ (length (ln_discounts l)) + 3 * nQ (length (ln_charges l)).

Lemma price_unconverted R c cur rates it : unconverted cur it ->
  exists P, s_item_price R c cur rates it = Some P /\ s_item_price noround c cur rates it = Some P.
Proof.
  unfold unconverted, s_item_price. destruct (it_cur it) as [[ic isub]|]; [|intros _; eexists; split; reflexivity].
  intros [E|E].
  - subst ic. rewrite Z.eqb_refl. eexists; split; reflexivity.
  - destruct (ic =? cur)%Z; [eexists; split; reflexivity|].
    destruct (find_alt cur (it_alts it)); [eexists; split; reflexivity|congruence].
Qed.

Lemma nonzero_pct_ok p x : pct_ok p -> nonzero_pct p = Some x -> Qabs x <= 1.
Proof.
  unfold pct_ok, nonzero_pct. destruct p as [q|]; [|discriminate].
  destruct (Qeq_bool (toQ q) 0); [discriminate|]. intros H E. injection E as <-. exact H.
Qed.

Lemma s_row_close c sum sum' q ch d : simple_row d ->
  cl (eps c) (fq sum) (fq sum') -> fp sum' = fp sum -> (c + 2 <= fp sum)%nat ->
  cl (2 * eps c) (fq (s_row rnd false c sum q ch d)) (fq (s_row noround false c sum' q ch d)).
Proof.
  intros [NR PO] CS EP W. unfold s_row. rewrite NR.
  replace (if ch then _ else _) with
    (match nonzero_pct (ld_pct d) with
     | Some p => prod rnd match ld_base d with Some b => s_base rnd false c b | None => sum end p
     | None => of_amount (ld_amount d) end) by (destruct ch; reflexivity).
  replace (if ch then _ else _) with
    (match nonzero_pct (ld_pct d) with
     | Some p => prod noround match ld_base d with Some b => s_base noround false c b | None => sum' end p
     | None => of_amount (ld_amount d) end) by (destruct ch; reflexivity).
  unfold settle. cbn [raise fq]. pose proof (eps_pos c) as EPS.
  destruct (nonzero_pct (ld_pct d)) as [p|] eqn:NP.
  - pose proof (nonzero_pct_ok _ _ PO NP) as P1. unfold prod. cbn [fq fp]. unfold noround at 1.
    destruct (ld_base d) as [b|].
    + unfold s_base. cbn [raise fq fp of_amount].
      eapply cl_weaken; [apply (cl_rnd_w c); [lia|apply cl_refl]|lra].
    + setoid_replace (2 * eps c) with (eps c + eps c) by ring.
      apply (cl_rnd_w c); [exact W|]. apply cl_mult; assumption.
  - eapply cl_weaken; [apply cl_refl|lra].
Qed.

Lemma s_rows_close c sum sum' q ch ds : Forall simple_row ds ->
  cl (eps c) (fq sum) (fq sum') -> fp sum' = fp sum -> (c + 2 <= fp sum)%nat ->
  Forall2 (cl (3 * eps c))
    (map (fun x => rnd (fp sum) (fq x)) (map (s_row rnd false c sum q ch) ds))
    (map (fun x => noround (fp sum') (fq x)) (map (s_row noround false c sum' q ch) ds)).
Proof.
  intros F CS EP W. induction F as [|d r H _ IH]; cbn [map]; constructor; [|exact IH].
  unfold noround at 1. setoid_replace (3 * eps c) with (2 * eps c + eps c) by ring.
  apply (cl_rnd_w c); [exact W|]. apply s_row_close; assumption.
Qed.

Lemma s_line_close c cur rates l : simple_line cur l ->
  exists il il', s_line rnd false c cur rates l = Some il /\ s_line noround false c cur rates l = Some il' /\
    cl (e_line l * eps c) (fq (il_total il)) (fq (il_total il')) /\ (c + 2 <= fp (il_total il))%nat.
Proof.
  intros (B & U & FD & FC). unfold s_line. rewrite B. cbn [s_subs].
  destruct (price_unconverted rnd c cur rates (ln_item l) U) as (P & E1 & E2). rewrite E1, E2.
  eexists. eexists. split; [reflexivity|]. split; [reflexivity|].
  cbn [il_total]. unfold wmin, settle.
  set (sum := raise c (prod rnd (raise (c + 2) P) (toQ (ln_qty l)))).
  set (sum' := raise c (prod noround (raise (c + 2) P) (toQ (ln_qty l)))).
  assert (W : (c + 2 <= fp sum)%nat) by (unfold sum; cbn [raise prod fp]; lia).
  assert (EP : fp sum' = fp sum) by reflexivity.
  assert (CS : cl (eps c) (fq sum) (fq sum')).
  { unfold sum, sum'. cbn [raise prod fq fp]. unfold noround.
    setoid_replace (eps c) with (0 + eps c) by ring. apply (cl_rnd_w c); [lia|apply cl_refl]. }
  split; [|exact W].
  unfold s_total. cbn [fq fp].
  pose proof (cl_sum_uniform _ _ _ (s_rows_close c sum sum' (toQ (ln_qty l)) false _ FD CS EP W)) as SD.
  pose proof (cl_sum_uniform _ _ _ (s_rows_close c sum sum' (toQ (ln_qty l)) true _ FC CS EP W)) as SC.
  rewrite !map_length in SD, SC.
  unfold e_line.
  setoid_replace ((1 + 3 * nQ (length (ln_discounts l)) + 3 * nQ (length (ln_charges l))) * eps c)
    with (eps c + nQ (length (ln_discounts l)) * (3 * eps c) + nQ (length (ln_charges l)) * (3 * eps c)) by ring.
  apply cl_plus; [apply cl_minus|]; assumption.
Qed.
