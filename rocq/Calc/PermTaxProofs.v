(* C17: the tax summary does not depend on the order of the taxable rows.
   Part 1 - what a group's base is, in terms of the rows alone (a fold over the rows of its class in
   row order), hence invariant under permutation because the accumulator is commutative. *)
From Coq Require Import ZArith QArith List Bool Lia ZifyBool ZifyNat Permutation SetoidList SetoidPermutation Morphisms.
From Verif Require Import Base.Wire Base.Rha Base.RhaProofs Num.Amount Num.AmountProofs Calc.Doc Calc.Calc
  Calc.PermProofs Calc.TaxProofs.
Import ListNotations.

(* ---------------- corollary of the partition theorem ---------------- *)
Lemma sumQ_rows_perm cr c cat tls tls' : Permutation tls tls' -> sumQ_rows cr c cat tls == sumQ_rows cr c cat tls'.
Proof.
  intros P. unfold sumQ_rows.
  induction P as [|x l l' _ IH|x y l|l l' l'' _ IH1 _ IH2]; cbn [fold_right].
  - reflexivity.
  - rewrite IH. reflexivity.
  - ring.
  - rewrite IH1. exact IH2.
Qed.

Theorem category_base_independent_of_row_order cr c cat tls tls' :
  Permutation tls tls' ->
  sumQ_bases cat (base_totals cr c tls) == sumQ_bases cat (base_totals cr c tls').
Proof. intros P. rewrite !tax_partition_rule. apply sumQ_rows_perm. exact P. Qed.

(* ---------------- rate classes ---------------- *)
(* two combos are of the same class when a group created by the first would take the second *)
Definition klass (cb1 cb2 : combo) : bool := rt_matches (new_rt 0 cb1) cb2.

Lemma klass_spec cb1 cb2 :
  klass cb1 cb2 = true <->
  cb_ext cb1 = cb_ext cb2 /\ cb_country cb1 = cb_country cb2 /\
  same_rate (cb_pct cb1) (cb_sur cb1) (cb_pct cb2) (cb_sur cb2).
Proof. unfold klass. rewrite rt_matches_spec. reflexivity. Qed.

Lemma opt_eqQ_refl s : opt_eqQ s s.
Proof. destruct s; cbn; [reflexivity|exact I]. Qed.
Lemma opt_eqQ_sym s t : opt_eqQ s t -> opt_eqQ t s.
Proof. destruct s, t; cbn; auto. intros H. symmetry. exact H. Qed.
Lemma opt_eqQ_trans s t u : opt_eqQ s t -> opt_eqQ t u -> opt_eqQ s u.
Proof. destruct s, t, u; cbn; try tauto. intros A B. rewrite A. exact B. Qed.

Lemma same_rate_sym p s q t : same_rate p s q t -> same_rate q t p s.
Proof.
  unfold same_rate. destruct p, q; try tauto. intros [A B]. split; [symmetry; exact A|apply opt_eqQ_sym; exact B].
Qed.
(* transitivity through a middle that is not exempt on one side only; exempt rows do not look at
   surcharges, so the middle must be of the same kind *)
Lemma same_rate_trans p s q t r u : same_rate p s q t -> same_rate q t r u -> same_rate p s r u.
Proof.
  unfold same_rate. destruct p, q, r; try tauto. intros [A B] [C D].
  split; [rewrite A; exact C|eapply opt_eqQ_trans; eauto].
Qed.

Lemma klass_refl cb : klass cb cb = true.
Proof. unfold klass. apply rt_matches_new. Qed.
Lemma klass_sym a b : klass a b = klass b a.
Proof.
  destruct (klass a b) eqn:E, (klass b a) eqn:F; try reflexivity.
  - apply klass_spec in E. destruct E as (E1 & E2 & E3).
    assert (klass b a = true) by (apply klass_spec; repeat split; try congruence; apply same_rate_sym; exact E3). congruence.
  - apply klass_spec in F. destruct F as (E1 & E2 & E3).
    assert (klass a b = true) by (apply klass_spec; repeat split; try congruence; apply same_rate_sym; exact E3). congruence.
Qed.
Lemma klass_trans a b d : klass a b = true -> klass b d = true -> klass a d = true.
Proof.
  rewrite !klass_spec. intros (A1 & A2 & A3) (B1 & B2 & B3). repeat split; try congruence.
  eapply same_rate_trans; eauto.
Qed.

(* a group takes a combo iff the group's own rate is of the combo's class *)
Lemma matches_trans g a b : rt_matches g a = true -> klass a b = true -> rt_matches g b = true.
Proof.
  rewrite !rt_matches_spec, klass_spec. intros (A1 & A2 & A3) (B1 & B2 & B3). repeat split; try congruence.
  eapply same_rate_trans; eauto.
Qed.
Lemma matches_join g a b : rt_matches g a = true -> rt_matches g b = true -> klass a b = true.
Proof.
  rewrite !rt_matches_spec, klass_spec. intros (A1 & A2 & A3) (B1 & B2 & B3). repeat split; try congruence.
  eapply same_rate_trans; [apply same_rate_sym; exact A3|exact B3].
Qed.
Lemma new_rt_matches c a b : rt_matches (new_rt c a) b = klass a b.
Proof. reflexivity. Qed.

(* ---------------- what a group's base is ---------------- *)
Definition find_group (q : combo) (rts : list rate_total) : option rate_total :=
  find (fun g => rt_matches g q) rts.

Definition add_pair (cr : bool) (c : nat) (rts : list rate_total) (p : amount * combo) : list rate_total :=
  add_to_rates cr c (fst p) (snd p) rts.

(* one step: the group found for q grows by the row iff the row's combo is of q's class *)
Lemma find_group_add cr c tot cb q rts :
  option_map rt_base (find_group q (add_to_rates cr c tot cb rts)) =
  if klass cb q
  then Some (acc_rr cr (match find_group q rts with Some g => rt_base g | None => zero_of c end) tot)
  else option_map rt_base (find_group q rts).
Proof.
  unfold find_group. induction rts as [|g rts IH]; cbn [add_to_rates find].
  - rewrite rt_matches_add_base, new_rt_matches. destruct (klass cb q); reflexivity.
  - destruct (rt_matches g cb) eqn:M.
    + cbn [find]. rewrite rt_matches_add_base.
      destruct (rt_matches g q) eqn:Q.
      * rewrite (matches_join g cb q M Q). reflexivity.
      * destruct (klass cb q) eqn:K; [|reflexivity].
        rewrite (matches_trans g cb q M K) in Q. discriminate.
    + cbn [find]. destruct (rt_matches g q) eqn:Q.
      * destruct (klass cb q) eqn:K; [|reflexivity].
        rewrite klass_sym in K. rewrite (matches_trans g q cb Q K) in M. discriminate.
      * exact IH.
Qed.

Definition class_rows (q : combo) (ps : list (amount * combo)) : list amount :=
  map fst (filter (fun p => klass (snd p) q) ps).

Lemma class_rows_cons q tot cb ps :
  class_rows q ((tot, cb) :: ps) = if klass cb q then tot :: class_rows q ps else class_rows q ps.
Proof. unfold class_rows. cbn [filter snd]. destruct (klass cb q); reflexivity. Qed.

Lemma find_group_fold cr c q ps : forall rts,
  option_map rt_base (find_group q (fold_left (add_pair cr c) ps rts)) =
  match class_rows q ps, find_group q rts with
  | [], o => option_map rt_base o
  | l, Some g => Some (fold_left (acc_rr cr) l (rt_base g))
  | l, None => Some (fold_left (acc_rr cr) l (zero_of c))
  end.
Proof.
  induction ps as [|[tot cb] ps IH]; intros rts.
  - reflexivity.
  - cbn [fold_left]. rewrite IH, class_rows_cons. change (add_pair cr c rts (tot, cb)) with (add_to_rates cr c tot cb rts).
    pose proof (find_group_add cr c tot cb q rts) as S.
    destruct (klass cb q) eqn:K.
    + destruct (find_group q (add_to_rates cr c tot cb rts)) as [g'|]; cbn [option_map] in S; [|discriminate].
      inversion S as [E]. cbn [fold_left].
      destruct (class_rows q ps) as [|x l]; cbn [fold_left option_map]; rewrite E; destruct (find_group q rts); reflexivity.
    + destruct (class_rows q ps) as [|x l].
      * exact S.
      * destruct (find_group q (add_to_rates cr c tot cb rts)) as [g'|], (find_group q rts) as [g|]; cbn [option_map] in S; try discriminate;
          [inversion S as [E]; rewrite E|]; reflexivity.
Qed.

(* permuting the rows permutes the rows of every class, and the accumulator is commutative *)
Lemma class_rows_perm q ps ps' : Permutation ps ps' -> Permutation (class_rows q ps) (class_rows q ps').
Proof.
  intros P. unfold class_rows. apply Permutation_map.
  induction P as [|x l l' _ IH|x y l|l l' l'' _ IH1 _ IH2]; cbn [filter].
  - constructor.
  - destruct (klass (snd x) q); [constructor|]; exact IH.
  - destruct (klass (snd x) q), (klass (snd y) q); try apply Permutation_refl; apply perm_swap.
  - eapply Permutation_trans; eauto.
Qed.

Lemma fold_acc_rr_perm cr l l' z : Permutation l l' -> fold_left (acc_rr cr) l z = fold_left (acc_rr cr) l' z.
Proof. intros P. apply (fold_perm (acc_rr cr) (acc_rr_comm cr) _ _ P). Qed.

Theorem group_base_independent_of_row_order cr c q ps ps' :
  Permutation ps ps' ->
  option_map rt_base (find_group q (fold_left (add_pair cr c) ps [])) =
  option_map rt_base (find_group q (fold_left (add_pair cr c) ps' [])).
Proof.
  intros P. rewrite !find_group_fold. cbn [find_group find].
  pose proof (class_rows_perm q ps ps' P) as PC.
  destruct (class_rows q ps) as [|x l] eqn:E1, (class_rows q ps') as [|y l'] eqn:E2.
  - reflexivity.
  - apply Permutation_nil in PC. discriminate.
  - apply Permutation_sym, Permutation_nil in PC. discriminate.
  - f_equal. apply fold_acc_rr_perm. exact PC.
Qed.

(* ================================================================================================ *)
(* Part 2 - the rate groups of one category, as a list up to order                                  *)
(* ================================================================================================ *)

(* ---------------- the rates list of one category is a fold over the rows of that category ---------------- *)
Definition cat_rates (code : bytes) (cts : list cat_total) : list rate_total :=
  match find_cat code cts with Some ct => ct_rates ct | None => [] end.

Definition pairs_of_tl (code : bytes) (tl : tax_line) : list (amount * combo) :=
  map (fun cb => (tl_total tl, cb)) (filter (fun cb => eqb_bytes (cb_cat cb) code) (tl_taxes tl)).
Definition pairs_of (code : bytes) (tls : list tax_line) : list (amount * combo) :=
  flat_map (pairs_of_tl code) tls.

Lemma cat_rates_add cr c tot cb code cts :
  cat_rates code (add_to_cats cr c tot cb cts) =
  if eqb_bytes (cb_cat cb) code then add_to_rates cr c tot cb (cat_rates code cts) else cat_rates code cts.
Proof.
  unfold cat_rates. induction cts as [|ct r IH]; cbn [add_to_cats find_cat].
  - cbn [ct_with_rates new_ct ct_code ct_rates]. destruct (eqb_bytes (cb_cat cb) code); reflexivity.
  - destruct (eqb_bytes (ct_code ct) (cb_cat cb)) eqn:E.
    + apply eqb_bytes_eq in E. cbn [find_cat ct_with_rates ct_code]. rewrite <- E.
      destruct (eqb_bytes (ct_code ct) code); reflexivity.
    + cbn [find_cat]. destruct (eqb_bytes (ct_code ct) code) eqn:F.
      * apply eqb_bytes_eq in F. apply eqb_bytes_neq in E.
        assert (N : eqb_bytes (cb_cat cb) code = false) by (apply eqb_bytes_neq; congruence).
        rewrite N. reflexivity.
      * exact IH.
Qed.

Lemma cat_rates_add_tl cr c code tl cts :
  cat_rates code (add_tl cr c cts tl) = fold_left (add_pair cr c) (pairs_of_tl code tl) (cat_rates code cts).
Proof.
  unfold add_tl, pairs_of_tl. generalize (tl_total tl) as tot. intros tot. revert cts.
  induction (tl_taxes tl) as [|cb l IH]; intros cts; cbn [fold_left filter map].
  - reflexivity.
  - rewrite IH, cat_rates_add. destruct (eqb_bytes (cb_cat cb) code); cbn [map fold_left]; reflexivity.
Qed.

Lemma cat_rates_fold cr c code tls : forall cts,
  cat_rates code (fold_left (add_tl cr c) tls cts) =
  fold_left (add_pair cr c) (pairs_of code tls) (cat_rates code cts).
Proof.
  unfold pairs_of. induction tls as [|tl r IH]; intros cts; cbn [fold_left flat_map]; [reflexivity|].
  rewrite IH, cat_rates_add_tl, fold_left_app. reflexivity.
Qed.

(* EXACT list equality: the groups of a category, in their order, are the fold over its rows *)
Theorem cat_rates_base_totals cr c code tls :
  cat_rates code (base_totals cr c tls) = fold_left (add_pair cr c) (pairs_of code tls) [].
Proof. unfold base_totals. apply cat_rates_fold. Qed.

(* presence of a category *)
Definition has_cat (code : bytes) (cts : list cat_total) : bool :=
  match find_cat code cts with Some _ => true | None => false end.
Definition nonempty {A} (l : list A) : bool := match l with [] => false | _ => true end.

Lemma nonempty_app {A} (l l' : list A) : nonempty (l ++ l') = nonempty l || nonempty l'.
Proof. destruct l; reflexivity. Qed.
Lemma nonempty_perm {A} (l l' : list A) : Permutation l l' -> nonempty l = nonempty l'.
Proof.
  intros P. destruct l as [|x l], l' as [|y l']; try reflexivity.
  - apply Permutation_nil in P. discriminate.
  - apply Permutation_sym, Permutation_nil in P. discriminate.
Qed.

Lemma has_cat_add cr c tot cb code cts :
  has_cat code (add_to_cats cr c tot cb cts) = has_cat code cts || eqb_bytes (cb_cat cb) code.
Proof.
  unfold has_cat. induction cts as [|ct r IH]; cbn [add_to_cats find_cat].
  - cbn [ct_with_rates new_ct ct_code]. destruct (eqb_bytes (cb_cat cb) code); reflexivity.
  - destruct (eqb_bytes (ct_code ct) (cb_cat cb)) eqn:E.
    + apply eqb_bytes_eq in E. cbn [find_cat ct_with_rates ct_code].
      destruct (eqb_bytes (ct_code ct) code) eqn:F; [reflexivity|].
      rewrite <- E, F, orb_false_r. reflexivity.
    + cbn [find_cat]. destruct (eqb_bytes (ct_code ct) code) eqn:F; [reflexivity|exact IH].
Qed.

Lemma has_cat_add_tl cr c code tl cts :
  has_cat code (add_tl cr c cts tl) = has_cat code cts || nonempty (pairs_of_tl code tl).
Proof.
  unfold add_tl, pairs_of_tl. generalize (tl_total tl) as tot. intros tot. revert cts.
  induction (tl_taxes tl) as [|cb l IH]; intros cts; cbn [fold_left filter map].
  - cbn [nonempty]. rewrite orb_false_r. reflexivity.
  - rewrite IH, has_cat_add. destruct (eqb_bytes (cb_cat cb) code); cbn [map nonempty].
    + rewrite !orb_true_r. reflexivity.
    + rewrite orb_false_r. reflexivity.
Qed.

Lemma has_cat_fold cr c code tls : forall cts,
  has_cat code (fold_left (add_tl cr c) tls cts) = has_cat code cts || nonempty (pairs_of code tls).
Proof.
  unfold pairs_of. induction tls as [|tl r IH]; intros cts; cbn [fold_left flat_map].
  - cbn [nonempty]. rewrite orb_false_r. reflexivity.
  - rewrite IH, has_cat_add_tl, nonempty_app, orb_assoc. reflexivity.
Qed.

Lemma has_cat_base_totals cr c code tls : has_cat code (base_totals cr c tls) = nonempty (pairs_of code tls).
Proof. unfold base_totals. rewrite has_cat_fold. reflexivity. Qed.

Theorem category_present_iff_rows cr c code tls :
  find_cat code (base_totals cr c tls) <> None <-> pairs_of code tls <> [].
Proof.
  pose proof (has_cat_base_totals cr c code tls) as H. unfold has_cat in H.
  destruct (find_cat code (base_totals cr c tls)), (pairs_of code tls); cbn [nonempty] in H; try discriminate;
    split; congruence.
Qed.

Lemma pairs_of_perm code tls tls' : Permutation tls tls' -> Permutation (pairs_of code tls) (pairs_of code tls').
Proof.
  intros P. unfold pairs_of. induction P as [|x l l' _ IH|x y l|l l' l'' _ IH1 _ IH2]; cbn [flat_map].
  - constructor.
  - apply Permutation_app_head. exact IH.
  - rewrite !app_assoc. apply Permutation_app_tail. apply Permutation_app_comm.
  - eapply Permutation_trans; eauto.
Qed.

(* the base of the group a query combo falls into, in a given category, does not depend on row order *)
Theorem group_base_in_category_independent_of_row_order cr c code q tls tls' :
  Permutation tls tls' ->
  option_map rt_base (find_group q (cat_rates code (base_totals cr c tls))) =
  option_map rt_base (find_group q (cat_rates code (base_totals cr c tls'))).
Proof.
  intros P. rewrite !cat_rates_base_totals. apply group_base_independent_of_row_order, pairs_of_perm, P.
Qed.

Lemma find_cat_some code cts ct : find_cat code cts = Some ct -> In ct cts /\ ct_code ct = code.
Proof.
  induction cts as [|x r IH]; cbn [find_cat]; [discriminate|].
  destruct (eqb_bytes (ct_code x) code) eqn:E.
  - intros H. injection H as <-. apply eqb_bytes_eq in E. split; [left; reflexivity|exact E].
  - intros H. destruct (IH H) as [I C]. split; [right; exact I|exact C].
Qed.

Lemma find_cat_nodup cts ct : NoDup (map ct_code cts) -> In ct cts -> find_cat (ct_code ct) cts = Some ct.
Proof.
  induction cts as [|x r IH]; intros N I; [destruct I|].
  cbn [map] in N. inversion N as [|? ? N1 N2]; subst. cbn [find_cat].
  destruct I as [->|I].
  - rewrite eqb_bytes_refl. reflexivity.
  - destruct (eqb_bytes (ct_code x) (ct_code ct)) eqn:E.
    + apply eqb_bytes_eq in E. exfalso. apply N1. rewrite E. apply in_map. exact I.
    + apply IH; assumption.
Qed.

(* ---------------- groups up to order ---------------- *)
Lemma same_group_spec g h :
  same_group g h = true <->
  rt_ext g = rt_ext h /\ rt_country g = rt_country h /\ same_rate (rt_pct g) (rt_sur g) (rt_pct h) (rt_sur h).
Proof. unfold same_group. rewrite rt_matches_spec. reflexivity. Qed.

Lemma same_rate_refl p s : same_rate p s p s.
Proof. unfold same_rate. destruct p; [|exact I]. split; [reflexivity|apply opt_eqQ_refl]. Qed.

Lemma same_group_refl g : same_group g g = true.
Proof. apply same_group_spec. repeat split. apply same_rate_refl. Qed.
Lemma same_group_trans g h k : same_group g h = true -> same_group h k = true -> same_group g k = true.
Proof.
  rewrite !same_group_spec. intros (A1 & A2 & A3) (B1 & B2 & B3). repeat split; try congruence.
  eapply same_rate_trans; eauto.
Qed.
(* a group takes exactly the combos its equals take *)
Lemma matches_same_group g h q : same_group g h = true -> rt_matches h q = true -> rt_matches g q = true.
Proof.
  rewrite same_group_spec, !rt_matches_spec. intros (A1 & A2 & A3) (B1 & B2 & B3). repeat split; try congruence.
  eapply same_rate_trans; eauto.
Qed.

(* same class (country, extensions, percentage and surcharge as rationals) and same figures; the
   informational key and the TEXT of the percentage are those of the first row seen *)
Definition geqv (g h : rate_total) : Prop :=
  same_group g h = true /\ rt_base g = rt_base h /\ rt_amount g = rt_amount h /\ rt_suramount g = rt_suramount h.

Global Instance geqv_equiv : Equivalence geqv.
Proof.
  split.
  - intros g. unfold geqv. repeat split. apply same_group_refl.
  - intros g h (A & B & C & D). unfold geqv. rewrite same_group_sym. repeat split; congruence.
  - intros g h k (A & B & C & D) (A' & B' & C' & D'). unfold geqv. repeat split; try congruence.
    eapply same_group_trans; eauto.
Qed.

Lemma distinct_NoDupA R : distinct_groups R -> NoDupA geqv R.
Proof.
  induction R as [|g r IH]; cbn [distinct_groups]; intros D; constructor.
  - intros I. apply InA_alt in I. destruct I as (h & (S & _) & Ih).
    destruct D as [F _]. rewrite Forall_forall in F. rewrite (F h Ih) in S. discriminate.
  - apply IH, D.
Qed.

(* in a list of distinct groups, two members of the same class are the same member *)
Lemma distinct_same_group_eq R g h :
  distinct_groups R -> In g R -> In h R -> same_group h g = true -> h = g.
Proof.
  induction R as [|x r IH]; cbn [distinct_groups]; intros FD Ig Ih S; [destruct Ig|].
  destruct FD as [F D]. rewrite Forall_forall in F. destruct Ig as [->|Ig], Ih as [->|Ih].
  - reflexivity.
  - rewrite same_group_sym, (F h Ih) in S. discriminate.
  - rewrite (F g Ig) in S. discriminate.
  - apply IH; assumption.
Qed.

Lemma fold_add_pair_distinct cr c ps : forall rts, distinct_groups rts -> distinct_groups (fold_left (add_pair cr c) ps rts).
Proof.
  induction ps as [|p ps IH]; intros rts D; cbn [fold_left]; [exact D|].
  apply IH. unfold add_pair. apply add_to_rates_distinct, D.
Qed.

(* before the amounts are calculated they are all zero *)
Definition fresh (c : nat) (g : rate_total) : Prop := rt_amount g = zero_of c /\ rt_suramount g = zero_of c.

Lemma add_to_rates_fresh cr c tot cb rts : Forall (fresh c) rts -> Forall (fresh c) (add_to_rates cr c tot cb rts).
Proof.
  induction rts as [|rt r IH]; intros F; cbn [add_to_rates].
  - constructor; [|constructor]. split; reflexivity.
  - inversion F as [|? ? F1 F2]; subst. destruct (rt_matches rt cb); constructor; auto.
Qed.
Lemma fold_add_pair_fresh cr c ps : forall rts, Forall (fresh c) rts -> Forall (fresh c) (fold_left (add_pair cr c) ps rts).
Proof.
  induction ps as [|p ps IH]; intros rts D; cbn [fold_left]; [exact D|].
  apply IH. unfold add_pair. apply add_to_rates_fresh, D.
Qed.

Lemma find_group_some q R g : find_group q R = Some g -> In g R /\ rt_matches g q = true.
Proof. unfold find_group. apply find_some. Qed.

Lemma find_group_in q R g : In g R -> rt_matches g q = true -> exists h, find_group q R = Some h.
Proof.
  intros I M. unfold find_group. destruct (find (fun g0 => rt_matches g0 q) R) as [h|] eqn:E; [eauto|].
  pose proof (find_none _ _ E g I) as N. cbn beta in N. congruence.
Qed.

Lemma groups_sub cr c ps ps' : Permutation ps ps' ->
  forall g, In g (fold_left (add_pair cr c) ps []) -> InA geqv g (fold_left (add_pair cr c) ps' []).
Proof.
  intros P g Ig.
  set (R := fold_left (add_pair cr c) ps []) in *. set (R' := fold_left (add_pair cr c) ps' []).
  assert (D : distinct_groups R) by (apply fold_add_pair_distinct; exact I).
  assert (Fr : Forall (fresh c) R) by (apply fold_add_pair_fresh; constructor).
  assert (Fr' : Forall (fresh c) R') by (apply fold_add_pair_fresh; constructor).
  set (q := rt_combo [] g).
  destruct (find_group_in q R g Ig (same_group_refl g)) as (h & Eh).
  destruct (find_group_some _ _ _ Eh) as [Ih Mh].
  assert (h = g) by (apply (distinct_same_group_eq R); assumption). subst h.
  pose proof (group_base_independent_of_row_order cr c q ps ps' P) as B. fold R R' in B.
  rewrite Eh in B. cbn [option_map] in B.
  destruct (find_group q R') as [g'|] eqn:Eg'; cbn [option_map] in B; [|discriminate].
  injection B as B. destruct (find_group_some _ _ _ Eg') as [Ig' Mg'].
  apply InA_alt. exists g'. split; [|exact Ig'].
  rewrite Forall_forall in Fr, Fr'. destruct (Fr g Ig) as [A1 A2]. destruct (Fr' g' Ig') as [B1 B2].
  unfold geqv. rewrite same_group_sym. repeat split; try congruence. exact Mg'.
Qed.

Theorem groups_permA cr c ps ps' : Permutation ps ps' ->
  PermutationA geqv (fold_left (add_pair cr c) ps []) (fold_left (add_pair cr c) ps' []).
Proof.
  intros P. apply NoDupA_equivlistA_PermutationA.
  - exact geqv_equiv.
  - apply distinct_NoDupA, fold_add_pair_distinct. exact I.
  - apply distinct_NoDupA, fold_add_pair_distinct. exact I.
  - intros x. split; intros Ix; apply InA_alt in Ix; destruct Ix as (g & E & Ig).
    + apply (InA_eqA geqv_equiv (x := g)); [symmetry; exact E|]. apply (groups_sub cr c ps ps' P g Ig).
    + apply (InA_eqA geqv_equiv (x := g)); [symmetry; exact E|].
      apply (groups_sub cr c ps' ps (Permutation_sym P) g Ig).
Qed.

Theorem category_groups_independent_of_row_order cr c code tls tls' : Permutation tls tls' ->
  PermutationA geqv (cat_rates code (base_totals cr c tls)) (cat_rates code (base_totals cr c tls')).
Proof. intros P. rewrite !cat_rates_base_totals. apply groups_permA, pairs_of_perm, P. Qed.
