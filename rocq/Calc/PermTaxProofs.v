(* C17: the tax summary does not depend on the order of the taxable rows.
   Part 1 - what a group's base is, in terms of the rows alone (a fold over the rows of its class in
   row order), hence invariant under permutation because the accumulator is commutative. *)
From Coq Require Import ZArith QArith List Bool Lia Permutation.
From Verif Require Import Base.Wire Base.Rha Base.RhaProofs Num.Amount Num.AmountProofs Calc.Doc Calc.Calc
  Calc.PermProofs Calc.TaxProofs.
Import ListNotations.

(* ---------------- corollary of the partition theorem ---------------- *)
Lemma sumQ_rows_perm cr c cat tls tls' : Permutation tls tls' -> sumQ_rows cr c cat tls == sumQ_rows cr c cat tls'.
Proof.
  intros P. unfold sumQ_rows.
  induction P as [|x l l' _ IH|x y l|l l' l'' _ IH1 _ IH2]; cbn [fold_right].
  - reflexivity.
  - rewrite IH. reflexivity.
  - ring.
  - rewrite IH1. exact IH2.
Qed.

Theorem category_base_independent_of_row_order cr c cat tls tls' :
  Permutation tls tls' ->
  sumQ_bases cat (base_totals cr c tls) == sumQ_bases cat (base_totals cr c tls').
Proof. intros P. rewrite !tax_partition_rule. apply sumQ_rows_perm. exact P. Qed.

(* ---------------- rate classes ---------------- *)
(* two combos are of the same class when a group created by the first would take the second *)
Definition klass (cb1 cb2 : combo) : bool := rt_matches (new_rt 0 cb1) cb2.

Lemma klass_spec cb1 cb2 :
  klass cb1 cb2 = true <->
  cb_ext cb1 = cb_ext cb2 /\ cb_country cb1 = cb_country cb2 /\
  same_rate (cb_pct cb1) (cb_sur cb1) (cb_pct cb2) (cb_sur cb2).
Proof. unfold klass. rewrite rt_matches_spec. reflexivity. Qed.

Lemma opt_eqQ_refl s : opt_eqQ s s.
Proof. destruct s; cbn; [reflexivity|exact I]. Qed.
Lemma opt_eqQ_sym s t : opt_eqQ s t -> opt_eqQ t s.
Proof. destruct s, t; cbn; auto. intros H. symmetry. exact H. Qed.
Lemma opt_eqQ_trans s t u : opt_eqQ s t -> opt_eqQ t u -> opt_eqQ s u.
Proof. destruct s, t, u; cbn; try tauto. intros A B. rewrite A. exact B. Qed.

Lemma same_rate_sym p s q t : same_rate p s q t -> same_rate q t p s.
Proof.
  unfold same_rate. destruct p, q; try tauto. intros [A B]. split; [symmetry; exact A|apply opt_eqQ_sym; exact B].
Qed.
(* transitivity through a middle that is not exempt on one side only; exempt rows do not look at
   surcharges, so the middle must be of the same kind *)
Lemma same_rate_trans p s q t r u : same_rate p s q t -> same_rate q t r u -> same_rate p s r u.
Proof.
  unfold same_rate. destruct p, q, r; try tauto. intros [A B] [C D].
  split; [rewrite A; exact C|eapply opt_eqQ_trans; eauto].
Qed.

Lemma klass_refl cb : klass cb cb = true.
Proof. unfold klass. apply rt_matches_new. Qed.
Lemma klass_sym a b : klass a b = klass b a.
Proof.
  destruct (klass a b) eqn:E, (klass b a) eqn:F; try reflexivity.
  - apply klass_spec in E. destruct E as (E1 & E2 & E3).
    assert (klass b a = true) by (apply klass_spec; repeat split; try congruence; apply same_rate_sym; exact E3). congruence.
  - apply klass_spec in F. destruct F as (E1 & E2 & E3).
    assert (klass a b = true) by (apply klass_spec; repeat split; try congruence; apply same_rate_sym; exact E3). congruence.
Qed.
Lemma klass_trans a b d : klass a b = true -> klass b d = true -> klass a d = true.
Proof.
  rewrite !klass_spec. intros (A1 & A2 & A3) (B1 & B2 & B3). repeat split; try congruence.
  eapply same_rate_trans; eauto.
Qed.

(* a group takes a combo iff the group's own rate is of the combo's class *)
Lemma matches_trans g a b : rt_matches g a = true -> klass a b = true -> rt_matches g b = true.
Proof.
  rewrite !rt_matches_spec, klass_spec. intros (A1 & A2 & A3) (B1 & B2 & B3). repeat split; try congruence.
  eapply same_rate_trans; eauto.
Qed.
Lemma matches_join g a b : rt_matches g a = true -> rt_matches g b = true -> klass a b = true.
Proof.
  rewrite !rt_matches_spec, klass_spec. intros (A1 & A2 & A3) (B1 & B2 & B3). repeat split; try congruence.
  eapply same_rate_trans; [apply same_rate_sym; exact A3|exact B3].
Qed.
Lemma new_rt_matches c a b : rt_matches (new_rt c a) b = klass a b.
Proof. reflexivity. Qed.

(* ---------------- what a group's base is ---------------- *)
Definition find_group (q : combo) (rts : list rate_total) : option rate_total :=
  find (fun g => rt_matches g q) rts.

Definition add_pair (cr : bool) (c : nat) (rts : list rate_total) (p : amount * combo) : list rate_total :=
  add_to_rates cr c (fst p) (snd p) rts.

(* one step: the group found for q grows by the row iff the row's combo is of q's class *)
Lemma find_group_add cr c tot cb q rts :
  option_map rt_base (find_group q (add_to_rates cr c tot cb rts)) =
  if klass cb q
  then Some (acc_rr cr (match find_group q rts with Some g => rt_base g | None => zero_of c end) tot)
  else option_map rt_base (find_group q rts).
Proof.
  unfold find_group. induction rts as [|g rts IH]; cbn [add_to_rates find].
  - rewrite rt_matches_add_base, new_rt_matches. destruct (klass cb q); reflexivity.
  - destruct (rt_matches g cb) eqn:M.
    + cbn [find]. rewrite rt_matches_add_base.
      destruct (rt_matches g q) eqn:Q.
      * rewrite (matches_join g cb q M Q). reflexivity.
      * destruct (klass cb q) eqn:K; [|reflexivity].
        rewrite (matches_trans g cb q M K) in Q. discriminate.
    + cbn [find]. destruct (rt_matches g q) eqn:Q.
      * destruct (klass cb q) eqn:K; [|reflexivity].
        rewrite klass_sym in K. rewrite (matches_trans g q cb Q K) in M. discriminate.
      * exact IH.
Qed.

Definition class_rows (q : combo) (ps : list (amount * combo)) : list amount :=
  map fst (filter (fun p => klass (snd p) q) ps).

Lemma class_rows_cons q tot cb ps :
  class_rows q ((tot, cb) :: ps) = if klass cb q then tot :: class_rows q ps else class_rows q ps.
Proof. unfold class_rows. cbn [filter snd]. destruct (klass cb q); reflexivity. Qed.

Lemma find_group_fold cr c q ps : forall rts,
  option_map rt_base (find_group q (fold_left (add_pair cr c) ps rts)) =
  match class_rows q ps, find_group q rts with
  | [], o => option_map rt_base o
  | l, Some g => Some (fold_left (acc_rr cr) l (rt_base g))
  | l, None => Some (fold_left (acc_rr cr) l (zero_of c))
  end.
Proof.
  induction ps as [|[tot cb] ps IH]; intros rts.
  - reflexivity.
  - cbn [fold_left]. rewrite IH, class_rows_cons. change (add_pair cr c rts (tot, cb)) with (add_to_rates cr c tot cb rts).
    pose proof (find_group_add cr c tot cb q rts) as S.
    destruct (klass cb q) eqn:K.
    + destruct (find_group q (add_to_rates cr c tot cb rts)) as [g'|]; cbn [option_map] in S; [|discriminate].
      inversion S as [E]. cbn [fold_left].
      destruct (class_rows q ps) as [|x l]; cbn [fold_left option_map]; rewrite E; destruct (find_group q rts); reflexivity.
    + destruct (class_rows q ps) as [|x l].
      * exact S.
      * destruct (find_group q (add_to_rates cr c tot cb rts)) as [g'|], (find_group q rts) as [g|]; cbn [option_map] in S; try discriminate;
          [inversion S as [E]; rewrite E|]; reflexivity.
Qed.

(* permuting the rows permutes the rows of every class, and the accumulator is commutative *)
Lemma class_rows_perm q ps ps' : Permutation ps ps' -> Permutation (class_rows q ps) (class_rows q ps').
Proof.
  intros P. unfold class_rows. apply Permutation_map.
  induction P as [|x l l' _ IH|x y l|l l' l'' _ IH1 _ IH2]; cbn [filter].
  - constructor.
  - destruct (klass (snd x) q); [constructor|]; exact IH.
  - destruct (klass (snd x) q), (klass (snd y) q); try apply Permutation_refl; apply perm_swap.
  - eapply Permutation_trans; eauto.
Qed.

Lemma fold_acc_rr_perm cr l l' z : Permutation l l' -> fold_left (acc_rr cr) l z = fold_left (acc_rr cr) l' z.
Proof. intros P. apply (fold_perm (acc_rr cr) (acc_rr_comm cr) _ _ P). Qed.

Theorem group_base_independent_of_row_order cr c q ps ps' :
  Permutation ps ps' ->
  option_map rt_base (find_group q (fold_left (add_pair cr c) ps [])) =
  option_map rt_base (find_group q (fold_left (add_pair cr c) ps' [])).
Proof.
  intros P. rewrite !find_group_fold. cbn [find_group find].
  pose proof (class_rows_perm q ps ps' P) as PC.
  destruct (class_rows q ps) as [|x l] eqn:E1, (class_rows q ps') as [|y l'] eqn:E2.
  - reflexivity.
  - apply Permutation_nil in PC. discriminate.
  - apply Permutation_sym, Permutation_nil in PC. discriminate.
  - f_equal. apply fold_acc_rr_perm. exact PC.
Qed.
