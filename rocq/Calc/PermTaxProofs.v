(* C17: the tax summary does not depend on the order of the taxable rows.
   Part 1 - what a group's base is, in terms of the rows alone (a fold over the rows of its class in
   row order), hence invariant under permutation because the accumulator is commutative. *)
From Coq Require Import ZArith QArith List Bool Lia ZifyBool ZifyNat Permutation SetoidList SetoidPermutation Morphisms.
From Verif Require Import Base.Wire Base.Rha Base.RhaProofs Num.Amount Num.AmountProofs Calc.Doc Calc.Calc
  Calc.PermProofs Calc.TaxProofs.
Import ListNotations.

(* ---------------- corollary of the partition theorem ---------------- *)
Lemma sumQ_rows_perm cr c cat tls tls' : Permutation tls tls' -> sumQ_rows cr c cat tls == sumQ_rows cr c cat tls'.
Proof.
  intros P. unfold sumQ_rows.
  induction P as [|x l l' _ IH|x y l|l l' l'' _ IH1 _ IH2]; cbn [fold_right].
  - reflexivity.
  - rewrite IH. reflexivity.
  - ring.
  - rewrite IH1. exact IH2.
Qed.

Theorem category_base_independent_of_row_order cr c cat tls tls' :
  Permutation tls tls' ->
  sumQ_bases cat (base_totals cr c tls) == sumQ_bases cat (base_totals cr c tls').
Proof. intros P. rewrite !tax_partition_rule. apply sumQ_rows_perm. exact P. Qed.

(* ---------------- rate classes ---------------- *)
(* two combos are of the same class when a group created by the first would take the second *)
Definition klass (cb1 cb2 : combo) : bool := rt_matches (new_rt 0 cb1) cb2.

Lemma klass_spec cb1 cb2 :
  klass cb1 cb2 = true <->
  cb_ext cb1 = cb_ext cb2 /\ cb_country cb1 = cb_country cb2 /\
  same_rate (cb_pct cb1) (cb_sur cb1) (cb_pct cb2) (cb_sur cb2).
Proof. unfold klass. rewrite rt_matches_spec. reflexivity. Qed.

Lemma opt_eqQ_refl s : opt_eqQ s s.
Proof. destruct s; cbn; [reflexivity|exact I]. Qed.
Lemma opt_eqQ_sym s t : opt_eqQ s t -> opt_eqQ t s.
Proof. destruct s, t; cbn; auto. intros H. symmetry. exact H. Qed.
Lemma opt_eqQ_trans s t u : opt_eqQ s t -> opt_eqQ t u -> opt_eqQ s u.
Proof. destruct s, t, u; cbn; try tauto. intros A B. rewrite A. exact B. Qed.

Lemma same_rate_sym p s q t : same_rate p s q t -> same_rate q t p s.
Proof.
  unfold same_rate. destruct p, q; try tauto. intros [A B]. split; [symmetry; exact A|apply opt_eqQ_sym; exact B].
Qed.
(* transitivity through a middle that is not exempt on one side only; exempt rows do not look at
   surcharges, so the middle must be of the same kind *)
Lemma same_rate_trans p s q t r u : same_rate p s q t -> same_rate q t r u -> same_rate p s r u.
Proof.
  unfold same_rate. destruct p, q, r; try tauto. intros [A B] [C D].
  split; [rewrite A; exact C|eapply opt_eqQ_trans; eauto].
Qed.

Lemma klass_refl cb : klass cb cb = true.
Proof. unfold klass. apply rt_matches_new. Qed.
Lemma klass_sym a b : klass a b = klass b a.
Proof.
  destruct (klass a b) eqn:E, (klass b a) eqn:F; try reflexivity.
  - apply klass_spec in E. destruct E as (E1 & E2 & E3).
    assert (klass b a = true) by (apply klass_spec; repeat split; try congruence; apply same_rate_sym; exact E3). congruence.
  - apply klass_spec in F. destruct F as (E1 & E2 & E3).
    assert (klass a b = true) by (apply klass_spec; repeat split; try congruence; apply same_rate_sym; exact E3). congruence.
Qed.
Lemma klass_trans a b d : klass a b = true -> klass b d = true -> klass a d = true.
Proof.
  rewrite !klass_spec. intros (A1 & A2 & A3) (B1 & B2 & B3). repeat split; try congruence.
  eapply same_rate_trans; eauto.
Qed.

(* a group takes a combo iff the group's own rate is of the combo's class *)
Lemma matches_trans g a b : rt_matches g a = true -> klass a b = true -> rt_matches g b = true.
Proof.
  rewrite !rt_matches_spec, klass_spec. intros (A1 & A2 & A3) (B1 & B2 & B3). repeat split; try congruence.
  eapply same_rate_trans; eauto.
Qed.
Lemma matches_join g a b : rt_matches g a = true -> rt_matches g b = true -> klass a b = true.
Proof.
  rewrite !rt_matches_spec, klass_spec. intros (A1 & A2 & A3) (B1 & B2 & B3). repeat split; try congruence.
  eapply same_rate_trans; [apply same_rate_sym; exact A3|exact B3].
Qed.
Lemma new_rt_matches c a b : rt_matches (new_rt c a) b = klass a b.
Proof. reflexivity. Qed.

(* ---------------- what a group's base is ---------------- *)
Definition find_group (q : combo) (rts : list rate_total) : option rate_total :=
  find (fun g => rt_matches g q) rts.

Definition add_pair (cr : bool) (c : nat) (rts : list rate_total) (p : amount * combo) : list rate_total :=
  add_to_rates cr c (fst p) (snd p) rts.

(* one step: the group found for q grows by the row iff the row's combo is of q's class *)
Lemma find_group_add cr c tot cb q rts :
  option_map rt_base (find_group q (add_to_rates cr c tot cb rts)) =
  if klass cb q
  then Some (acc_rr cr (match find_group q rts with Some g => rt_base g | None => zero_of c end) tot)
  else option_map rt_base (find_group q rts).
Proof.
  unfold find_group. induction rts as [|g rts IH]; cbn [add_to_rates find].
  - rewrite rt_matches_add_base, new_rt_matches. destruct (klass cb q); reflexivity.
  - destruct (rt_matches g cb) eqn:M.
    + cbn [find]. rewrite rt_matches_add_base.
      destruct (rt_matches g q) eqn:Q.
      * rewrite (matches_join g cb q M Q). reflexivity.
      * destruct (klass cb q) eqn:K; [|reflexivity].
        rewrite (matches_trans g cb q M K) in Q. discriminate.
    + cbn [find]. destruct (rt_matches g q) eqn:Q.
      * destruct (klass cb q) eqn:K; [|reflexivity].
        rewrite klass_sym in K. rewrite (matches_trans g q cb Q K) in M. discriminate.
      * exact IH.
Qed.

Definition class_rows (q : combo) (ps : list (amount * combo)) : list amount :=
  map fst (filter (fun p => klass (snd p) q) ps).

Lemma class_rows_cons q tot cb ps :
  class_rows q ((tot, cb) :: ps) = if klass cb q then tot :: class_rows q ps else class_rows q ps.
Proof. unfold class_rows. cbn [filter snd]. destruct (klass cb q); reflexivity. Qed.

Lemma find_group_fold cr c q ps : forall rts,
  option_map rt_base (find_group q (fold_left (add_pair cr c) ps rts)) =
  match class_rows q ps, find_group q rts with
  | [], o => option_map rt_base o
  | l, Some g => Some (fold_left (acc_rr cr) l (rt_base g))
  | l, None => Some (fold_left (acc_rr cr) l (zero_of c))
  end.
Proof.
  induction ps as [|[tot cb] ps IH]; intros rts.
  - reflexivity.
  - cbn [fold_left]. rewrite IH, class_rows_cons. change (add_pair cr c rts (tot, cb)) with (add_to_rates cr c tot cb rts).
    pose proof (find_group_add cr c tot cb q rts) as S.
    destruct (klass cb q) eqn:K.
    + destruct (find_group q (add_to_rates cr c tot cb rts)) as [g'|]; cbn [option_map] in S; [|discriminate].
      inversion S as [E]. cbn [fold_left].
      destruct (class_rows q ps) as [|x l]; cbn [fold_left option_map]; rewrite E; destruct (find_group q rts); reflexivity.
    + destruct (class_rows q ps) as [|x l].
      * exact S.
      * destruct (find_group q (add_to_rates cr c tot cb rts)) as [g'|], (find_group q rts) as [g|]; cbn [option_map] in S; try discriminate;
          [inversion S as [E]; rewrite E|]; reflexivity.
Qed.

(* permuting the rows permutes the rows of every class, and the accumulator is commutative *)
Lemma class_rows_perm q ps ps' : Permutation ps ps' -> Permutation (class_rows q ps) (class_rows q ps').
Proof.
  intros P. unfold class_rows. apply Permutation_map.
  induction P as [|x l l' _ IH|x y l|l l' l'' _ IH1 _ IH2]; cbn [filter].
  - constructor.
  - destruct (klass (snd x) q); [constructor|]; exact IH.
  - destruct (klass (snd x) q), (klass (snd y) q); try apply Permutation_refl; apply perm_swap.
  - eapply Permutation_trans; eauto.
Qed.

Lemma fold_acc_rr_perm cr l l' z : Permutation l l' -> fold_left (acc_rr cr) l z = fold_left (acc_rr cr) l' z.
Proof. intros P. apply (fold_perm (acc_rr cr) (acc_rr_comm cr) _ _ P). Qed.

Theorem group_base_independent_of_row_order cr c q ps ps' :
  Permutation ps ps' ->
  option_map rt_base (find_group q (fold_left (add_pair cr c) ps [])) =
  option_map rt_base (find_group q (fold_left (add_pair cr c) ps' [])).
Proof.
  intros P. rewrite !find_group_fold. cbn [find_group find].
  pose proof (class_rows_perm q ps ps' P) as PC.
  destruct (class_rows q ps) as [|x l] eqn:E1, (class_rows q ps') as [|y l'] eqn:E2.
  - reflexivity.
  - apply Permutation_nil in PC. discriminate.
  - apply Permutation_sym, Permutation_nil in PC. discriminate.
  - f_equal. apply fold_acc_rr_perm. exact PC.
Qed.

(* ================================================================================================ *)
(* Part 2 - the rate groups of one category, as a list up to order                                  *)
(* ================================================================================================ *)

(* ---------------- the rates list of one category is a fold over the rows of that category ---------------- *)
Definition cat_rates (code : bytes) (cts : list cat_total) : list rate_total :=
  match find_cat code cts with Some ct => ct_rates ct | None => [] end.

Definition pairs_of_tl (code : bytes) (tl : tax_line) : list (amount * combo) :=
  map (fun cb => (tl_total tl, cb)) (filter (fun cb => eqb_bytes (cb_cat cb) code) (tl_taxes tl)).
Definition pairs_of (code : bytes) (tls : list tax_line) : list (amount * combo) :=
  flat_map (pairs_of_tl code) tls.

Lemma cat_rates_add cr c tot cb code cts :
  cat_rates code (add_to_cats cr c tot cb cts) =
  if eqb_bytes (cb_cat cb) code then add_to_rates cr c tot cb (cat_rates code cts) else cat_rates code cts.
Proof.
  unfold cat_rates. induction cts as [|ct r IH]; cbn [add_to_cats find_cat].
  - cbn [ct_with_rates new_ct ct_code ct_rates]. destruct (eqb_bytes (cb_cat cb) code); reflexivity.
  - destruct (eqb_bytes (ct_code ct) (cb_cat cb)) eqn:E.
    + apply eqb_bytes_eq in E. cbn [find_cat ct_with_rates ct_code]. rewrite <- E.
      destruct (eqb_bytes (ct_code ct) code); reflexivity.
    + cbn [find_cat]. destruct (eqb_bytes (ct_code ct) code) eqn:F.
      * apply eqb_bytes_eq in F. apply eqb_bytes_neq in E.
        assert (N : eqb_bytes (cb_cat cb) code = false) by (apply eqb_bytes_neq; congruence).
        rewrite N. reflexivity.
      * exact IH.
Qed.

Lemma cat_rates_add_tl cr c code tl cts :
  cat_rates code (add_tl cr c cts tl) = fold_left (add_pair cr c) (pairs_of_tl code tl) (cat_rates code cts).
Proof.
  unfold add_tl, pairs_of_tl. generalize (tl_total tl) as tot. intros tot. revert cts.
  induction (tl_taxes tl) as [|cb l IH]; intros cts; cbn [fold_left filter map].
  - reflexivity.
  - rewrite IH, cat_rates_add. destruct (eqb_bytes (cb_cat cb) code); cbn [map fold_left]; reflexivity.
Qed.

Lemma cat_rates_fold cr c code tls : forall cts,
  cat_rates code (fold_left (add_tl cr c) tls cts) =
  fold_left (add_pair cr c) (pairs_of code tls) (cat_rates code cts).
Proof.
  unfold pairs_of. induction tls as [|tl r IH]; intros cts; cbn [fold_left flat_map]; [reflexivity|].
  rewrite IH, cat_rates_add_tl, fold_left_app. reflexivity.
Qed.

(* EXACT list equality: the groups of a category, in their order, are the fold over its rows *)
Theorem cat_rates_base_totals cr c code tls :
  cat_rates code (base_totals cr c tls) = fold_left (add_pair cr c) (pairs_of code tls) [].
Proof. unfold base_totals. apply cat_rates_fold. Qed.

(* presence of a category *)
Definition has_cat (code : bytes) (cts : list cat_total) : bool :=
  match find_cat code cts with Some _ => true | None => false end.
Definition nonempty {A} (l : list A) : bool := match l with [] => false | _ => true end.

Lemma nonempty_app {A} (l l' : list A) : nonempty (l ++ l') = nonempty l || nonempty l'.
Proof. destruct l; reflexivity. Qed.
Lemma nonempty_perm {A} (l l' : list A) : Permutation l l' -> nonempty l = nonempty l'.
Proof.
  intros P. destruct l as [|x l], l' as [|y l']; try reflexivity.
  - apply Permutation_nil in P. discriminate.
  - apply Permutation_sym, Permutation_nil in P. discriminate.
Qed.

Lemma has_cat_add cr c tot cb code cts :
  has_cat code (add_to_cats cr c tot cb cts) = has_cat code cts || eqb_bytes (cb_cat cb) code.
Proof.
  unfold has_cat. induction cts as [|ct r IH]; cbn [add_to_cats find_cat].
  - cbn [ct_with_rates new_ct ct_code]. destruct (eqb_bytes (cb_cat cb) code); reflexivity.
  - destruct (eqb_bytes (ct_code ct) (cb_cat cb)) eqn:E.
    + apply eqb_bytes_eq in E. cbn [find_cat ct_with_rates ct_code].
      destruct (eqb_bytes (ct_code ct) code) eqn:F; [reflexivity|].
      rewrite <- E, F, orb_false_r. reflexivity.
    + cbn [find_cat]. destruct (eqb_bytes (ct_code ct) code) eqn:F; [reflexivity|exact IH].
Qed.

Lemma has_cat_add_tl cr c code tl cts :
  has_cat code (add_tl cr c cts tl) = has_cat code cts || nonempty (pairs_of_tl code tl).
Proof.
  unfold add_tl, pairs_of_tl. generalize (tl_total tl) as tot. intros tot. revert cts.
  induction (tl_taxes tl) as [|cb l IH]; intros cts; cbn [fold_left filter map].
  - cbn [nonempty]. rewrite orb_false_r. reflexivity.
  - rewrite IH, has_cat_add. destruct (eqb_bytes (cb_cat cb) code); cbn [map nonempty].
    + rewrite !orb_true_r. reflexivity.
    + rewrite orb_false_r. reflexivity.
Qed.

Lemma has_cat_fold cr c code tls : forall cts,
  has_cat code (fold_left (add_tl cr c) tls cts) = has_cat code cts || nonempty (pairs_of code tls).
Proof.
  unfold pairs_of. induction tls as [|tl r IH]; intros cts; cbn [fold_left flat_map].
  - cbn [nonempty]. rewrite orb_false_r. reflexivity.
  - rewrite IH, has_cat_add_tl, nonempty_app, orb_assoc. reflexivity.
Qed.

Lemma has_cat_base_totals cr c code tls : has_cat code (base_totals cr c tls) = nonempty (pairs_of code tls).
Proof. unfold base_totals. rewrite has_cat_fold. reflexivity. Qed.

Theorem category_present_iff_rows cr c code tls :
  find_cat code (base_totals cr c tls) <> None <-> pairs_of code tls <> [].
Proof.
  pose proof (has_cat_base_totals cr c code tls) as H. unfold has_cat in H.
  destruct (find_cat code (base_totals cr c tls)), (pairs_of code tls); cbn [nonempty] in H; try discriminate;
    split; congruence.
Qed.

Lemma pairs_of_perm code tls tls' : Permutation tls tls' -> Permutation (pairs_of code tls) (pairs_of code tls').
Proof.
  intros P. unfold pairs_of. induction P as [|x l l' _ IH|x y l|l l' l'' _ IH1 _ IH2]; cbn [flat_map].
  - constructor.
  - apply Permutation_app_head. exact IH.
  - rewrite !app_assoc. apply Permutation_app_tail. apply Permutation_app_comm.
  - eapply Permutation_trans; eauto.
Qed.

(* the base of the group a query combo falls into, in a given category, does not depend on row order *)
Theorem group_base_in_category_independent_of_row_order cr c code q tls tls' :
  Permutation tls tls' ->
  option_map rt_base (find_group q (cat_rates code (base_totals cr c tls))) =
  option_map rt_base (find_group q (cat_rates code (base_totals cr c tls'))).
Proof.
  intros P. rewrite !cat_rates_base_totals. apply group_base_independent_of_row_order, pairs_of_perm, P.
Qed.

Lemma find_cat_some code cts ct : find_cat code cts = Some ct -> In ct cts /\ ct_code ct = code.
Proof.
  induction cts as [|x r IH]; cbn [find_cat]; [discriminate|].
  destruct (eqb_bytes (ct_code x) code) eqn:E.
  - intros H. injection H as <-. apply eqb_bytes_eq in E. split; [left; reflexivity|exact E].
  - intros H. destruct (IH H) as [I C]. split; [right; exact I|exact C].
Qed.

Lemma find_cat_nodup cts ct : NoDup (map ct_code cts) -> In ct cts -> find_cat (ct_code ct) cts = Some ct.
Proof.
  induction cts as [|x r IH]; intros N I; [destruct I|].
  cbn [map] in N. inversion N as [|? ? N1 N2]; subst. cbn [find_cat].
  destruct I as [->|I].
  - rewrite eqb_bytes_refl. reflexivity.
  - destruct (eqb_bytes (ct_code x) (ct_code ct)) eqn:E.
    + apply eqb_bytes_eq in E. exfalso. apply N1. rewrite E. apply in_map. exact I.
    + apply IH; assumption.
Qed.

(* ---------------- groups up to order ---------------- *)
Lemma same_group_spec g h :
  same_group g h = true <->
  rt_ext g = rt_ext h /\ rt_country g = rt_country h /\ same_rate (rt_pct g) (rt_sur g) (rt_pct h) (rt_sur h).
Proof. unfold same_group. rewrite rt_matches_spec. reflexivity. Qed.

Lemma same_rate_refl p s : same_rate p s p s.
Proof. unfold same_rate. destruct p; [|exact I]. split; [reflexivity|apply opt_eqQ_refl]. Qed.

Lemma same_group_refl g : same_group g g = true.
Proof. apply same_group_spec. repeat split. apply same_rate_refl. Qed.
Lemma same_group_trans g h k : same_group g h = true -> same_group h k = true -> same_group g k = true.
Proof.
  rewrite !same_group_spec. intros (A1 & A2 & A3) (B1 & B2 & B3). repeat split; try congruence.
  eapply same_rate_trans; eauto.
Qed.
(* a group takes exactly the combos its equals take *)
Lemma matches_same_group g h q : same_group g h = true -> rt_matches h q = true -> rt_matches g q = true.
Proof.
  rewrite same_group_spec, !rt_matches_spec. intros (A1 & A2 & A3) (B1 & B2 & B3). repeat split; try congruence.
  eapply same_rate_trans; eauto.
Qed.

(* same class (country, extensions, percentage and surcharge as rationals) and same figures; the
   informational key and the TEXT of the percentage are those of the first row seen *)
Definition geqv (g h : rate_total) : Prop :=
  same_group g h = true /\ rt_base g = rt_base h /\ rt_amount g = rt_amount h /\ rt_suramount g = rt_suramount h.

Global Instance geqv_equiv : Equivalence geqv.
Proof.
  split.
  - intros g. unfold geqv. repeat split. apply same_group_refl.
  - intros g h (A & B & C & D). unfold geqv. rewrite same_group_sym. repeat split; congruence.
  - intros g h k (A & B & C & D) (A' & B' & C' & D'). unfold geqv. repeat split; try congruence.
    eapply same_group_trans; eauto.
Qed.

Lemma distinct_NoDupA R : distinct_groups R -> NoDupA geqv R.
Proof.
  induction R as [|g r IH]; cbn [distinct_groups]; intros D; constructor.
  - intros I. apply InA_alt in I. destruct I as (h & (S & _) & Ih).
    destruct D as [F _]. rewrite Forall_forall in F. rewrite (F h Ih) in S. discriminate.
  - apply IH, D.
Qed.

(* in a list of distinct groups, two members of the same class are the same member *)
Lemma distinct_same_group_eq R g h :
  distinct_groups R -> In g R -> In h R -> same_group h g = true -> h = g.
Proof.
  induction R as [|x r IH]; cbn [distinct_groups]; intros FD Ig Ih S; [destruct Ig|].
  destruct FD as [F D]. rewrite Forall_forall in F. destruct Ig as [->|Ig], Ih as [->|Ih].
  - reflexivity.
  - rewrite same_group_sym, (F h Ih) in S. discriminate.
  - rewrite (F g Ig) in S. discriminate.
  - apply IH; assumption.
Qed.

Lemma fold_add_pair_distinct cr c ps : forall rts, distinct_groups rts -> distinct_groups (fold_left (add_pair cr c) ps rts).
Proof.
  induction ps as [|p ps IH]; intros rts D; cbn [fold_left]; [exact D|].
  apply IH. unfold add_pair. apply add_to_rates_distinct, D.
Qed.

(* before the amounts are calculated they are all zero *)
Definition fresh (c : nat) (g : rate_total) : Prop := rt_amount g = zero_of c /\ rt_suramount g = zero_of c.

Lemma add_to_rates_fresh cr c tot cb rts : Forall (fresh c) rts -> Forall (fresh c) (add_to_rates cr c tot cb rts).
Proof.
  induction rts as [|rt r IH]; intros F; cbn [add_to_rates].
  - constructor; [|constructor]. split; reflexivity.
  - inversion F as [|? ? F1 F2]; subst. destruct (rt_matches rt cb); constructor; auto.
Qed.
Lemma fold_add_pair_fresh cr c ps : forall rts, Forall (fresh c) rts -> Forall (fresh c) (fold_left (add_pair cr c) ps rts).
Proof.
  induction ps as [|p ps IH]; intros rts D; cbn [fold_left]; [exact D|].
  apply IH. unfold add_pair. apply add_to_rates_fresh, D.
Qed.

Lemma find_group_some q R g : find_group q R = Some g -> In g R /\ rt_matches g q = true.
Proof. unfold find_group. apply find_some. Qed.

Lemma find_group_in q R g : In g R -> rt_matches g q = true -> exists h, find_group q R = Some h.
Proof.
  intros I M. unfold find_group. destruct (find (fun g0 => rt_matches g0 q) R) as [h|] eqn:E; [eauto|].
  pose proof (find_none _ _ E g I) as N. cbn beta in N. congruence.
Qed.

Lemma groups_sub cr c ps ps' : Permutation ps ps' ->
  forall g, In g (fold_left (add_pair cr c) ps []) -> InA geqv g (fold_left (add_pair cr c) ps' []).
Proof.
  intros P g Ig.
  set (R := fold_left (add_pair cr c) ps []) in *. set (R' := fold_left (add_pair cr c) ps' []).
  assert (D : distinct_groups R) by (apply fold_add_pair_distinct; exact I).
  assert (Fr : Forall (fresh c) R) by (apply fold_add_pair_fresh; constructor).
  assert (Fr' : Forall (fresh c) R') by (apply fold_add_pair_fresh; constructor).
  set (q := rt_combo [] g).
  destruct (find_group_in q R g Ig (same_group_refl g)) as (h & Eh).
  destruct (find_group_some _ _ _ Eh) as [Ih Mh].
  assert (h = g) by (apply (distinct_same_group_eq R); assumption). subst h.
  pose proof (group_base_independent_of_row_order cr c q ps ps' P) as B. fold R R' in B.
  rewrite Eh in B. cbn [option_map] in B.
  destruct (find_group q R') as [g'|] eqn:Eg'; cbn [option_map] in B; [|discriminate].
  injection B as B. destruct (find_group_some _ _ _ Eg') as [Ig' Mg'].
  apply InA_alt. exists g'. split; [|exact Ig'].
  rewrite Forall_forall in Fr, Fr'. destruct (Fr g Ig) as [A1 A2]. destruct (Fr' g' Ig') as [B1 B2].
  unfold geqv. rewrite same_group_sym. repeat split; try congruence. exact Mg'.
Qed.

Theorem groups_permA cr c ps ps' : Permutation ps ps' ->
  PermutationA geqv (fold_left (add_pair cr c) ps []) (fold_left (add_pair cr c) ps' []).
Proof.
  intros P. apply NoDupA_equivlistA_PermutationA.
  - exact geqv_equiv.
  - apply distinct_NoDupA, fold_add_pair_distinct. exact I.
  - apply distinct_NoDupA, fold_add_pair_distinct. exact I.
  - intros x. split; intros Ix; apply InA_alt in Ix; destruct Ix as (g & E & Ig).
    + apply (InA_eqA geqv_equiv (x := g)); [symmetry; exact E|]. apply (groups_sub cr c ps ps' P g Ig).
    + apply (InA_eqA geqv_equiv (x := g)); [symmetry; exact E|].
      apply (groups_sub cr c ps' ps (Permutation_sym P) g Ig).
Qed.

Theorem category_groups_independent_of_row_order cr c code tls tls' : Permutation tls tls' ->
  PermutationA geqv (cat_rates code (base_totals cr c tls)) (cat_rates code (base_totals cr c tls')).
Proof. intros P. rewrite !cat_rates_base_totals. apply groups_permA, pairs_of_perm, P. Qed.

(* ================================================================================================ *)
(* Part 3 - amounts: group amounts, category amounts and the tax sum                                *)
(* ================================================================================================ *)
Lemma mul_compat a p p' : toQ p == toQ p' -> mul a p = mul a p'.
Proof.
  intros E. apply amount_eq; [|reflexivity]. rewrite !mul_val. apply roundQ_compat. rewrite E. reflexivity.
Qed.

Lemma rt_calc_ext c g : rt_ext (rt_calc c g) = rt_ext g.
Proof. unfold rt_calc. destruct (rt_pct g); reflexivity. Qed.
Lemma rt_calc_country c g : rt_country (rt_calc c g) = rt_country g.
Proof. unfold rt_calc. destruct (rt_pct g); reflexivity. Qed.

Lemma same_group_calc c g h : same_group g h = true -> same_group (rt_calc c g) (rt_calc c h) = true.
Proof.
  rewrite !same_group_spec, !rt_calc_ext, !rt_calc_country, !rt_calc_pct, !rt_calc_sur. tauto.
Qed.

(* groups of the same class with the same base get the same amounts: equal percentages as rationals
   give the same rounded product *)
Lemma rt_calc_geqv c g h : geqv g h -> geqv (rt_calc c g) (rt_calc c h).
Proof.
  intros (S & B & A & U). unfold geqv. split; [apply same_group_calc, S|].
  rewrite !rt_calc_base. split; [exact B|].
  apply same_group_spec in S. destruct S as (_ & _ & S). unfold same_rate, opt_eqQ in S.
  unfold rt_calc. destruct (rt_pct g) as [p|], (rt_pct h) as [p'|]; try tauto; cbn [rt_amount rt_suramount].
  destruct S as [Ep Es]. unfold pct_of. rewrite B. split; [apply mul_compat, Ep|].
  destruct (rt_sur g) as [s|], (rt_sur h) as [s'|]; try tauto.
  apply mul_compat, Es.
Qed.

Lemma ct_step_geqv cr c st g h : geqv g h -> ct_step cr c st g = ct_step cr c st h.
Proof.
  intros (S & B & A & U). apply same_group_spec in S. destruct S as (_ & _ & S). unfold same_rate, opt_eqQ in S.
  unfold ct_step. destruct (rt_pct g) as [p|], (rt_pct h) as [p'|]; try tauto.
  destruct S as [_ Es]. rewrite A, U. destruct (rt_sur g) as [s|], (rt_sur h) as [s'|]; try tauto.
Qed.

Lemma ct_step_comm cr c st g h : ct_step cr c (ct_step cr c st g) h = ct_step cr c (ct_step cr c st h) g.
Proof.
  unfold ct_step. destruct st as [a o].
  destruct (rt_pct g), (rt_pct h); try reflexivity;
    destruct (rt_sur g), (rt_sur h); cbn [fst snd]; rewrite (acc_rr_comm cr a); try reflexivity.
  f_equal. f_equal. apply acc_rr_comm.
Qed.

Lemma fold_permA {A S} (eqA : A -> A -> Prop) (f : S -> A -> S) :
  (forall s x y, eqA x y -> f s x = f s y) -> (forall s x y, f (f s x) y = f (f s y) x) ->
  forall l l', PermutationA eqA l l' -> forall s, fold_left f l s = fold_left f l' s.
Proof.
  intros R C l l' P. induction P as [|x y l l' E _ IH|x y l|l l' l'' _ IH1 _ IH2]; intros s; cbn [fold_left].
  - reflexivity.
  - rewrite (R s x y E). apply IH.
  - rewrite C. reflexivity.
  - rewrite IH1. apply IH2.
Qed.

Lemma map_permA {A B} (RA : A -> A -> Prop) (RB : B -> B -> Prop) (f : A -> B) :
  (forall x y, RA x y -> RB (f x) (f y)) ->
  forall l l', PermutationA RA l l' -> PermutationA RB (map f l) (map f l').
Proof.
  intros R l l' P. induction P as [|x y l l' E _ IH|x y l|l l' l'' _ IH1 _ IH2]; cbn [map].
  - constructor.
  - apply permA_skip; [apply R, E|exact IH].
  - apply permA_swap.
  - eapply permA_trans; eauto.
Qed.

(* categories: same code, retention flag and figures; the same groups up to order *)
Definition ceqv (a b : cat_total) : Prop :=
  ct_code a = ct_code b /\ ct_retained a = ct_retained b /\ ct_amount a = ct_amount b /\
  ct_surcharge a = ct_surcharge b /\ ct_precise a = ct_precise b /\ PermutationA geqv (ct_rates a) (ct_rates b).
(* before the amounts are calculated *)
Definition ceqv_base (a b : cat_total) : Prop :=
  ct_code a = ct_code b /\ ct_retained a = ct_retained b /\ PermutationA geqv (ct_rates a) (ct_rates b).

Global Instance ceqv_equiv : Equivalence ceqv.
Proof.
  split.
  - intros a. unfold ceqv. repeat split. reflexivity.
  - intros a b (A & B & C & D & E & F). unfold ceqv. repeat split; try congruence. symmetry. exact F.
  - intros a b d (A & B & C & D & E & F) (A' & B' & C' & D' & E' & F'). unfold ceqv. repeat split; try congruence.
    etransitivity; eauto.
Qed.
Global Instance ceqv_base_equiv : Equivalence ceqv_base.
Proof.
  split.
  - intros a. unfold ceqv_base. repeat split. reflexivity.
  - intros a b (A & B & F). unfold ceqv_base. repeat split; try congruence. symmetry. exact F.
  - intros a b d (A & B & F) (A' & B' & F'). unfold ceqv_base. repeat split; try congruence.
    etransitivity; eauto.
Qed.

Lemma ct_calc_ceqv cr c a b : ceqv_base a b -> ceqv (ct_calc cr c a) (ct_calc cr c b).
Proof.
  intros (A & B & F). unfold ceqv, ct_calc. cbn [ct_code ct_retained ct_amount ct_surcharge ct_precise ct_rates].
  assert (P : PermutationA geqv (map (rt_calc c) (ct_rates a)) (map (rt_calc c) (ct_rates b))).
  { apply (map_permA geqv geqv); [apply rt_calc_geqv|exact F]. }
  rewrite (fold_permA geqv (ct_step cr c) (ct_step_geqv cr c) (ct_step_comm cr c) _ _ P).
  repeat split; assumption.
Qed.

Lemma rt_round_geqv c g h : geqv g h -> geqv (rt_round c g) (rt_round c h).
Proof.
  intros (S & B & A & U). unfold geqv, rt_round. cbn [rt_base rt_amount rt_suramount]. rewrite B, A, U.
  repeat split. apply same_group_spec in S. apply same_group_spec. exact S.
Qed.

Lemma ct_round_ceqv c a b : ceqv a b -> ceqv (ct_round c a) (ct_round c b).
Proof.
  intros (A & B & C & D & E & F). unfold ceqv, ct_round. cbn [ct_code ct_retained ct_amount ct_surcharge ct_precise ct_rates].
  rewrite C, D. repeat split; try assumption. apply (map_permA geqv geqv); [apply rt_round_geqv|exact F].
Qed.

(* ---------------- categories up to order ---------------- *)
(* retention is a property of the category (the regime's flag), not of the row *)
Definition retained_consistent (tls : list tax_line) : Prop :=
  forall tl cb tl' cb', In tl tls -> In cb (tl_taxes tl) -> In tl' tls -> In cb' (tl_taxes tl') ->
    cb_cat cb = cb_cat cb' -> cb_retained cb = cb_retained cb'.
Definition retained_by (ret : bytes -> bool) (tls : list tax_line) : Prop :=
  forall tl cb, In tl tls -> In cb (tl_taxes tl) -> cb_retained cb = ret (cb_cat cb).

Lemma retained_fun tls : retained_consistent tls -> exists ret, retained_by ret tls.
Proof.
  intros H.
  exists (fun code => match find (fun cb => eqb_bytes (cb_cat cb) code) (flat_map tl_taxes tls) with
                      | Some cb => cb_retained cb | None => false end).
  intros tl cb Itl Icb.
  assert (Iall : In cb (flat_map tl_taxes tls)) by (apply in_flat_map; eauto).
  destruct (find _ _) as [cb0|] eqn:E.
  - apply find_some in E. destruct E as [I0 E0]. apply eqb_bytes_eq in E0.
    apply in_flat_map in I0. destruct I0 as (tl0 & Itl0 & Icb0).
    apply (H tl cb tl0 cb0); auto.
  - pose proof (find_none _ _ E cb Iall) as N. cbn beta in N. rewrite eqb_bytes_refl in N. discriminate.
Qed.

Lemma retained_by_perm ret tls tls' : Permutation tls tls' -> retained_by ret tls -> retained_by ret tls'.
Proof. intros P H tl cb I. apply H. eapply Permutation_in; [apply Permutation_sym; exact P|exact I]. Qed.

Definition cats_ret (ret : bytes -> bool) (cts : list cat_total) : Prop :=
  Forall (fun ct => ct_retained ct = ret (ct_code ct)) cts.

Lemma add_to_cats_ret ret cr c tot cb cts : cb_retained cb = ret (cb_cat cb) ->
  cats_ret ret cts -> cats_ret ret (add_to_cats cr c tot cb cts).
Proof.
  intros H. unfold cats_ret. induction cts as [|ct r IH]; intros F; cbn [add_to_cats].
  - constructor; [|constructor]. cbn [ct_with_rates new_ct ct_retained ct_code]. exact H.
  - inversion F as [|? ? F1 F2]; subst. destruct (eqb_bytes (ct_code ct) (cb_cat cb)); constructor; auto.
Qed.

Lemma base_totals_ret ret cr c tls : retained_by ret tls -> cats_ret ret (base_totals cr c tls).
Proof.
  unfold base_totals.
  assert (G : forall cts, retained_by ret tls -> cats_ret ret cts -> cats_ret ret (fold_left (add_tl cr c) tls cts)).
  { induction tls as [|tl r IH]; intros cts H W; cbn [fold_left]; [exact W|].
    apply IH; [intros t cb It; apply H; right; exact It|].
    assert (Htl : forall cb, In cb (tl_taxes tl) -> cb_retained cb = ret (cb_cat cb)) by (intros cb; apply H; left; reflexivity).
    unfold add_tl. generalize (tl_total tl) as tot. intros tot. clear - Htl W.
    revert cts W. induction (tl_taxes tl) as [|cb l IHl]; intros cts W; cbn [fold_left]; [exact W|].
    apply IHl; [intros x Ix; apply Htl; right; exact Ix|].
    apply add_to_cats_ret; [apply Htl; left; reflexivity|exact W]. }
  intros H. apply G; [exact H|constructor].
Qed.

Lemma cats_sub ret cr c tls tls' : Permutation tls tls' -> retained_by ret tls ->
  forall ct, In ct (base_totals cr c tls) -> InA ceqv_base ct (base_totals cr c tls').
Proof.
  intros P H ct Ict.
  destruct (groups_pairwise_distinct cr c tls) as [ND _].
  pose proof (find_cat_nodup _ ct ND Ict) as E. set (code := ct_code ct) in *.
  pose proof (has_cat_base_totals cr c code tls) as P1. unfold has_cat in P1. rewrite E in P1.
  pose proof (has_cat_base_totals cr c code tls') as P2. unfold has_cat in P2.
  rewrite <- (nonempty_perm _ _ (pairs_of_perm code tls tls' P)), <- P1 in P2.
  destruct (find_cat code (base_totals cr c tls')) as [ct'|] eqn:E'; [|discriminate].
  destruct (find_cat_some _ _ _ E') as [I' C'].
  apply InA_alt. exists ct'. split; [|exact I'].
  pose proof (category_groups_independent_of_row_order cr c code tls tls' P) as G.
  unfold cat_rates in G. rewrite E, E' in G.
  pose proof (base_totals_ret ret cr c tls H) as R1.
  pose proof (base_totals_ret ret cr c tls' (retained_by_perm ret tls tls' P H)) as R2.
  unfold cats_ret in R1, R2. rewrite Forall_forall in R1, R2.
  unfold ceqv_base. split; [symmetry; exact C'|]. split; [|exact G].
  rewrite (R1 ct Ict), (R2 ct' I'). fold code. rewrite C'. reflexivity.
Qed.

Lemma codes_NoDupA cts : NoDup (map ct_code cts) -> NoDupA ceqv_base cts.
Proof.
  induction cts as [|x r IH]; cbn [map]; intros N; constructor; inversion N as [|? ? N1 N2]; subst.
  - intros I. apply InA_alt in I. destruct I as (y & (C & _) & Iy). apply N1. rewrite C. apply in_map, Iy.
  - apply IH, N2.
Qed.

Theorem base_categories_independent_of_row_order cr c tls tls' :
  Permutation tls tls' -> retained_consistent tls ->
  PermutationA ceqv_base (base_totals cr c tls) (base_totals cr c tls').
Proof.
  intros P H. destruct (retained_fun tls H) as (ret & Hr).
  pose proof (retained_by_perm ret tls tls' P Hr) as Hr'.
  apply NoDupA_equivlistA_PermutationA.
  - exact ceqv_base_equiv.
  - apply codes_NoDupA, groups_pairwise_distinct.
  - apply codes_NoDupA, groups_pairwise_distinct.
  - intros x. split; intros Ix; apply InA_alt in Ix; destruct Ix as (g & E & Ig).
    + apply (InA_eqA ceqv_base_equiv (x := g)); [symmetry; exact E|]. apply (cats_sub ret cr c tls tls' P Hr g Ig).
    + apply (InA_eqA ceqv_base_equiv (x := g)); [symmetry; exact E|].
      apply (cats_sub ret cr c tls' tls (Permutation_sym P) Hr' g Ig).
Qed.

(* ---------------- the tax sum ---------------- *)
Lemma signedQ_ceqv a b : ceqv a b -> signedQ a = signedQ b.
Proof. intros (_ & B & C & D & _). unfold signedQ. rewrite B, C, D. reflexivity. Qed.

Lemma sumQ_signed_permA l l' : PermutationA ceqv l l' -> sumQ_signed l == sumQ_signed l'.
Proof.
  intros P. unfold sumQ_signed.
  induction P as [|x y l l' E _ IH|x y l|l l' l'' _ IH1 _ IH2]; cbn [fold_right].
  - reflexivity.
  - rewrite (signedQ_ceqv x y E), IH. reflexivity.
  - ring.
  - rewrite IH1. exact IH2.
Qed.

Lemma sum_step_exp cr s ct : exp (sum_step cr s ct) = if cr then exp s else Nat.max (exp s) (exp (ct_amount ct)).
Proof.
  unfold sum_step.
  assert (K : exp (match_rr cr s (ct_amount ct)) = if cr then exp s else Nat.max (exp s) (exp (ct_amount ct))).
  { unfold match_rr. destruct cr; [reflexivity|]. apply match_precision_exp. }
  destruct (ct_retained ct), (ct_surcharge ct); cbn [sub add exp]; exact K.
Qed.

Definition max_amount_exp (cts : list cat_total) (m : nat) : nat :=
  fold_left (fun m ct => Nat.max m (exp (ct_amount ct))) cts m.

Lemma sum_fold_exp cr cts : forall s,
  exp (fold_left (sum_step cr) cts s) = if cr then exp s else max_amount_exp cts (exp s).
Proof.
  unfold max_amount_exp. induction cts as [|ct r IH]; intros s; cbn [fold_left].
  - destruct cr; reflexivity.
  - rewrite IH, sum_step_exp. destruct cr; reflexivity.
Qed.

Lemma max_amount_exp_permA l l' m : PermutationA ceqv l l' -> max_amount_exp l m = max_amount_exp l' m.
Proof.
  intros P. unfold max_amount_exp. apply (fold_permA ceqv); [| |exact P].
  - intros s x y (_ & _ & C & _). rewrite C. reflexivity.
  - intros s x y. lia.
Qed.

Lemma toQ_exp_eq a b : toQ a == toQ b -> exp a = exp b -> a = b.
Proof.
  intros Q E. apply amount_eq; [|exact E]. apply toQ_eq_iff in Q. rewrite E in Q.
  pose proof (pow10_pos (exp b)) as Pp. apply Z.mul_cancel_r in Q; [exact Q|lia].
Qed.

Lemma tax_sum_permA cr c l l' : PermutationA ceqv (map (ct_calc cr c) l) (map (ct_calc cr c) l') ->
  fold_left (sum_step cr) (map (ct_calc cr c) l) (zero_of c) = fold_left (sum_step cr) (map (ct_calc cr c) l') (zero_of c).
Proof.
  intros P. apply toQ_exp_eq.
  - rewrite !tax_sum_signed. apply sumQ_signed_permA, P.
  - rewrite !sum_fold_exp. destruct cr; [reflexivity|]. apply max_amount_exp_permA, P.
Qed.

(* ---------------- main theorem, rows level ---------------- *)
Theorem tax_summary_independent_of_row_order cr c tls tls' :
  Permutation tls tls' -> retained_consistent tls ->
  let cats := map (ct_round c) (map (ct_calc cr c) (base_totals cr c tls)) in
  let cats' := map (ct_round c) (map (ct_calc cr c) (base_totals cr c tls')) in
  PermutationA ceqv cats cats' /\
  fold_left (sum_step cr) (map (ct_calc cr c) (base_totals cr c tls)) (zero_of c) =
  fold_left (sum_step cr) (map (ct_calc cr c) (base_totals cr c tls')) (zero_of c).
Proof.
  intros P H. cbv zeta.
  pose proof (base_categories_independent_of_row_order cr c tls tls' P H) as B.
  assert (C : PermutationA ceqv (map (ct_calc cr c) (base_totals cr c tls)) (map (ct_calc cr c) (base_totals cr c tls'))).
  { apply (map_permA ceqv_base ceqv); [apply ct_calc_ceqv|exact B]. }
  split.
  - apply (map_permA ceqv ceqv); [apply ct_round_ceqv|exact C].
  - apply tax_sum_permA, C.
Qed.

(* ---------------- lookup form: what is found for a category code and a query combo ---------------- *)
Definition group_figures (g : rate_total) : amount * amount * amount := (rt_base g, rt_amount g, rt_suramount g).

Lemma find_group_permA q R R' : distinct_groups R' -> PermutationA geqv R R' ->
  forall g, find_group q R = Some g -> exists g', find_group q R' = Some g' /\ geqv g g'.
Proof.
  intros D' P g E. destruct (find_group_some _ _ _ E) as [Ig Mg].
  assert (IA : InA geqv g R') by (apply (PermutationA_equivlistA geqv_equiv P), In_InA; [exact geqv_equiv|exact Ig]).
  apply InA_alt in IA. destruct IA as (g' & Eg & Ig').
  assert (Mg' : rt_matches g' q = true).
  { apply (matches_same_group g' g q); [|exact Mg]. rewrite same_group_sym. apply Eg. }
  destruct (find_group_in q R' g' Ig' Mg') as (h & Eh). destruct (find_group_some _ _ _ Eh) as [Ih Mh].
  assert (h = g').
  { apply (distinct_same_group_eq R'); try assumption. unfold same_group. apply (rt_matches_join h g' q); assumption. }
  subst h. exists g'. split; assumption.
Qed.

Lemma find_group_figures_permA q R R' : distinct_groups R -> distinct_groups R' -> PermutationA geqv R R' ->
  option_map group_figures (find_group q R) = option_map group_figures (find_group q R').
Proof.
  intros D D' P.
  destruct (find_group q R) as [g|] eqn:E.
  - destruct (find_group_permA q R R' D' P g E) as (g' & -> & (_ & B & A & U)).
    cbn [option_map]. unfold group_figures. rewrite B, A, U. reflexivity.
  - destruct (find_group q R') as [g'|] eqn:E'; [|reflexivity].
    assert (P' : PermutationA geqv R' R) by (symmetry; exact P).
    destruct (find_group_permA q R' R D P' g' E') as (g & Eg & _). congruence.
Qed.

Lemma distinct_map f R : (forall g h, same_group (f g) (f h) = same_group g h) ->
  distinct_groups R -> distinct_groups (map f R).
Proof.
  intros Hf. induction R as [|x r IH]; cbn [map distinct_groups]; [auto|]. intros [F D]. split; [|apply IH, D].
  apply Forall_forall. intros y Iy. apply in_map_iff in Iy. destruct Iy as (y0 & <- & Iy0).
  rewrite Hf. rewrite Forall_forall in F. apply F, Iy0.
Qed.

Lemma same_group_calc_eq c g h : same_group (rt_calc c g) (rt_calc c h) = same_group g h.
Proof.
  unfold same_group. rewrite rt_calc_matches. apply rt_matches_ext; unfold rt_combo; cbn [cb_ext cb_country cb_pct cb_sur].
  - apply rt_calc_ext.
  - apply rt_calc_country.
  - apply rt_calc_pct.
  - apply rt_calc_sur.
Qed.
Lemma same_group_round_eq c g h : same_group (rt_round c g) (rt_round c h) = same_group g h.
Proof. reflexivity. Qed.

Lemma find_cat_map f code cts : (forall ct, ct_code (f ct) = ct_code ct) ->
  find_cat code (map f cts) = option_map f (find_cat code cts).
Proof.
  intros Hf. induction cts as [|x r IH]; cbn [map find_cat]; [reflexivity|].
  rewrite Hf. destruct (eqb_bytes (ct_code x) code); [reflexivity|exact IH].
Qed.

Lemma cat_rates_calc_round cr c code cts :
  cat_rates code (map (ct_round c) (map (ct_calc cr c) cts)) = map (rt_round c) (map (rt_calc c) (cat_rates code cts)).
Proof.
  unfold cat_rates. rewrite !find_cat_map by reflexivity. destruct (find_cat code cts); reflexivity.
Qed.

Lemma cat_rates_distinct cr c code tls : distinct_groups (cat_rates code (base_totals cr c tls)).
Proof. rewrite cat_rates_base_totals. apply fold_add_pair_distinct. exact I. Qed.

(* for every category code and every query combo, the group the combo falls into has the same base,
   amount and surcharge amount whatever the order of the rows (no hypothesis on retention needed) *)
Theorem group_figures_independent_of_row_order cr c tls tls' code q :
  Permutation tls tls' ->
  let cats := map (ct_round c) (map (ct_calc cr c) (base_totals cr c tls)) in
  let cats' := map (ct_round c) (map (ct_calc cr c) (base_totals cr c tls')) in
  option_map group_figures (find_group q (cat_rates code cats)) =
  option_map group_figures (find_group q (cat_rates code cats')).
Proof.
  intros P. cbv zeta. rewrite !cat_rates_calc_round.
  apply find_group_figures_permA.
  - apply distinct_map; [apply same_group_round_eq|]. apply distinct_map; [apply same_group_calc_eq|]. apply cat_rates_distinct.
  - apply distinct_map; [apply same_group_round_eq|]. apply distinct_map; [apply same_group_calc_eq|]. apply cat_rates_distinct.
  - apply (map_permA geqv geqv); [apply rt_round_geqv|]. apply (map_permA geqv geqv); [apply rt_calc_geqv|].
    apply category_groups_independent_of_row_order, P.
Qed.

(* ================================================================================================ *)
(* Part 4 - the whole calculation: reordering lines, document discounts and document charges        *)
(* ================================================================================================ *)
(* `calculate` cut into its stages (calculate_unfold: by computation) *)
Definition included_of (pit : bytes) (cats : list cat_total) : option amount :=
  match pit with
  | [] => None
  | _ => match find_cat pit cats with
         | Some ct => Some (precise_or (ct_precise ct) (ct_amount ct))
         | None => None
         end
  end.

Definition assemble (d : doc) (lcs : list line_calc) (sum : amount) (dds ccs : list (ddc * amount))
    (discount charge : option amount) (cats : list cat_total) (taxsum : amount) (included : option amount) : totals :=
  let c := d_c d in
  let total0 := match discount with Some x => sub sum x | None => sum end in
  let total1 := match charge with Some x => add total0 x | None => total0 end in
  let taxsum_r := rescale taxsum c in
  let total := match included with Some ti => sub total1 ti | None => total1 end in
  let tax := precise_or taxsum taxsum_r in
  let twt := add total tax in
  let rounding := match d_rounding d with Some r => Some (rescale r c) | None => None end in
  let payable := match rounding with Some r => add twt r | None => twt end in
  let advs := map (advance_amount c twt) (d_advances d) in
  let advances := sum_opt c advs in
  let due := match advances with Some a => Some (sub payable a) | None => None end in
  let R := fun a => rescale a c in
  let Ro := fun o => match o with Some a => Some (rescale a c) | None => None end in
  mkTotals (map present_line lcs) (R sum) (Ro discount) (Ro charge) (Ro included) (R total)
           (R tax) (R twt) (R payable) (Ro advances) (Ro due)
           (map (fun p => present_ddc c (fst p) (snd p)) dds)
           (map (fun p => present_ddc c (fst p) (snd p)) ccs)
           (map R advs) (map (due_amount c payable) (d_dues d))
           cats taxsum_r taxsum rounding.

Definition calc_final (d : doc) (lcs : list line_calc) (sum : amount) (dds ccs : list (ddc * amount))
    (tls2 : list tax_line) : totals :=
  let c := d_c d in
  let cr := d_currency_rule d in
  let cats0 := map (ct_calc cr c) (base_totals cr c tls2) in
  let cats := map (ct_round c) cats0 in
  assemble d lcs sum dds ccs (sum_opt c (map snd dds)) (sum_opt c (map snd ccs)) cats
           (fold_left (sum_step cr) cats0 (zero_of c)) (included_of (d_pit d) cats).

Definition calc_rest (d : doc) (lcs : list line_calc) (sum : amount) (dds ccs : list (ddc * amount))
    (tls : list tax_line) : calc_result :=
  match tls with
  | [] => NoTotals (map present_line lcs)
  | _ => match remove_included_all (d_pit d) (map (prepare_tl (d_c d)) tls) with
         | None => CalcError
         | Some tls2 => Totals (calc_final d lcs sum dds ccs tls2)
         end
  end.

Lemma calculate_unfold d :
  calculate d =
  match calc_lines (d_currency_rule d) (d_c d) (d_cur d) (d_rates d) (d_lines d) with
  | None => CalcError
  | Some lcs => calc_rest d lcs (doc_sum d lcs) (doc_ddc d lcs (d_discounts d)) (doc_ddc d lcs (d_charges d))
                          (doc_rows d lcs)
  end.
Proof. reflexivity. Qed.

(* the same document with its lines, document discounts and document charges in another order *)
Definition reorder (d : doc) (ls : list line) (ds cs : list ddc) : doc :=
  mkDoc (d_c d) (d_currency_rule d) (d_pit d) (d_cur d) ls ds cs (d_rates d) (d_advances d) (d_dues d) (d_rounding d).

(* every figure equal; the lists of lines, of presented discounts / charges and of categories (and
   the groups inside each category) equal up to order *)
Definition totals_same_up_to_order (t t' : totals) : Prop :=
  Permutation (t_lines t) (t_lines t') /\
  t_sum t = t_sum t' /\ t_discount t = t_discount t' /\ t_charge t = t_charge t' /\
  t_tax_included t = t_tax_included t' /\ t_total t = t_total t' /\ t_tax t = t_tax t' /\
  t_twt t = t_twt t' /\ t_payable t = t_payable t' /\ t_advances t = t_advances t' /\ t_due t = t_due t' /\
  Permutation (t_dd t) (t_dd t') /\ Permutation (t_cc t) (t_cc t') /\
  t_adv_rows t = t_adv_rows t' /\ t_dues t = t_dues t' /\
  PermutationA ceqv (t_cats t) (t_cats t') /\
  t_taxsum t = t_taxsum t' /\ t_taxsum_precise t = t_taxsum_precise t' /\ t_rounding t = t_rounding t'.

Definition result_same_up_to_order (r r' : calc_result) : Prop :=
  match r, r' with
  | CalcError, CalcError => True
  | NoTotals l, NoTotals l' => Permutation l l'
  | Totals t, Totals t' => totals_same_up_to_order t t'
  | _, _ => False
  end.

(* ---- the per-row stages commute with permutations ---- *)
Lemma calc_lines_perm_combine cr c cur rates ls ls' :
  Permutation ls ls' -> forall lcs, calc_lines cr c cur rates ls = Some lcs ->
  exists lcs', calc_lines cr c cur rates ls' = Some lcs' /\ Permutation (combine lcs ls) (combine lcs' ls').
Proof.
  intros P. induction P as [|l ls ls' _ IH|l1 l2 ls|ls ls' ls'' _ IH1 _ IH2]; intros lcs H.
  - exists lcs. split; [exact H|apply Permutation_refl].
  - cbn [calc_lines] in *. destruct (calc_line cr c cur rates l) as [x|]; [|discriminate].
    destruct (calc_lines cr c cur rates ls) as [xs|] eqn:E; [|discriminate].
    injection H as <-. destruct (IH xs eq_refl) as (xs' & E' & P').
    rewrite E'. exists (x :: xs'). split; [reflexivity|]. cbn [combine]. apply perm_skip. exact P'.
  - cbn [calc_lines] in *. destruct (calc_line cr c cur rates l1) as [x1|]; destruct (calc_line cr c cur rates l2) as [x2|]; try discriminate;
      destruct (calc_lines cr c cur rates ls) as [xs|]; try discriminate.
    injection H as <-. exists (x1 :: x2 :: xs). split; [reflexivity|]. cbn [combine]. apply perm_swap.
  - destruct (IH1 lcs H) as (l1 & E1 & P1). destruct (IH2 l1 E1) as (l2 & E2 & P2).
    exists l2. split; [exact E2|eapply Permutation_trans; eauto].
Qed.

Lemma remove_included_all_perm pit l l' :
  Permutation l l' -> forall r, remove_included_all pit l = Some r ->
  exists r', remove_included_all pit l' = Some r' /\ Permutation r r'.
Proof.
  intros P. induction P as [|t l l' _ IH|t1 t2 l|l l' l'' _ IH1 _ IH2]; intros r H.
  - exists r. split; [exact H|apply Permutation_refl].
  - cbn [remove_included_all] in *. destruct (remove_included pit t) as [x|]; [|discriminate].
    destruct (remove_included_all pit l) as [xs|] eqn:E; [|discriminate].
    injection H as <-. destruct (IH xs eq_refl) as (xs' & E' & P').
    rewrite E'. exists (x :: xs'). split; [reflexivity|apply perm_skip; exact P'].
  - cbn [remove_included_all] in *. destruct (remove_included pit t1) as [x1|]; destruct (remove_included pit t2) as [x2|]; try discriminate;
      destruct (remove_included_all pit l) as [xs|]; try discriminate.
    injection H as <-. exists (x1 :: x2 :: xs). split; [reflexivity|apply perm_swap].
  - destruct (IH1 r H) as (r1 & E1 & P1). destruct (IH2 r1 E1) as (r2 & E2 & P2).
    exists r2. split; [exact E2|eapply Permutation_trans; eauto].
Qed.

(* ---- retention consistency only looks at the combos ---- *)
Definition combos_consistent (cbs : list combo) : Prop :=
  forall cb cb', In cb cbs -> In cb' cbs -> cb_cat cb = cb_cat cb' -> cb_retained cb = cb_retained cb'.

Lemma retained_consistent_iff tls : retained_consistent tls <-> combos_consistent (flat_map tl_taxes tls).
Proof.
  unfold retained_consistent, combos_consistent. split.
  - intros H cb cb' I1 I2. apply in_flat_map in I1, I2. destruct I1 as (tl & A & B). destruct I2 as (tl' & A' & B').
    apply (H tl cb tl' cb'); assumption.
  - intros H tl cb tl' cb' A B A' B'. apply H; apply in_flat_map; eauto.
Qed.

Lemma flat_map_taxes_eq tls tls' : map tl_taxes tls = map tl_taxes tls' -> flat_map tl_taxes tls = flat_map tl_taxes tls'.
Proof. intros E. rewrite !flat_map_concat_map, E. reflexivity. Qed.

Lemma prepared_taxes pit c tls tls2 : remove_included_all pit (map (prepare_tl c) tls) = Some tls2 ->
  flat_map tl_taxes tls2 = flat_map tl_taxes tls.
Proof.
  intros E. apply flat_map_taxes_eq. rewrite (remove_included_all_taxes _ _ _ E), map_map.
  apply map_ext. intros tl. apply (prepare_tl_spec c tl).
Qed.

(* ---- looking a category up in lists equal up to order ---- *)
Lemma find_cat_permA code l l' : NoDup (map ct_code l') -> PermutationA ceqv l l' ->
  forall ct, find_cat code l = Some ct -> exists ct', find_cat code l' = Some ct' /\ ceqv ct ct'.
Proof.
  intros N P ct E. destruct (find_cat_some _ _ _ E) as [Ict C].
  assert (IA : InA ceqv ct l') by (apply (PermutationA_equivlistA ceqv_equiv P), In_InA; [exact ceqv_equiv|exact Ict]).
  apply InA_alt in IA. destruct IA as (ct' & Ec & Ict'). exists ct'. split; [|exact Ec].
  rewrite <- C. destruct Ec as (Ec & _). rewrite Ec. apply find_cat_nodup; assumption.
Qed.

Lemma calc_codes cr c cts : map ct_code (map (ct_round c) (map (ct_calc cr c) cts)) = map ct_code cts.
Proof. rewrite !map_map. apply map_ext. reflexivity. Qed.

Lemma included_of_permA pit l l' : NoDup (map ct_code l) -> NoDup (map ct_code l') -> PermutationA ceqv l l' ->
  included_of pit l = included_of pit l'.
Proof.
  intros N N' P. unfold included_of. destruct pit as [|b pit]; [reflexivity|].
  destruct (find_cat (b :: pit) l) as [ct|] eqn:E.
  - destruct (find_cat_permA _ l l' N' P ct E) as (ct' & -> & (_ & _ & A & _ & B & _)). rewrite A, B. reflexivity.
  - destruct (find_cat (b :: pit) l') as [ct'|] eqn:E'; [|reflexivity].
    assert (P' : PermutationA ceqv l' l) by (symmetry; exact P).
    destruct (find_cat_permA _ l' l N P' ct' E') as (ct & Ec & _). congruence.
Qed.

(* ---- the final stage ---- *)
Lemma calc_final_perm d lcs lcs' sum dds dds' ccs ccs' tls2 tls2' :
  Permutation lcs lcs' -> Permutation dds dds' -> Permutation ccs ccs' -> Permutation tls2 tls2' ->
  retained_consistent tls2 ->
  totals_same_up_to_order (calc_final d lcs sum dds ccs tls2) (calc_final d lcs' sum dds' ccs' tls2').
Proof.
  intros Pl Pd Pc Pt H. unfold calc_final. cbv zeta.
  set (c := d_c d). set (cr := d_currency_rule d).
  destruct (tax_summary_independent_of_row_order cr c tls2 tls2' Pt H) as [PC ES]. cbv zeta in PC.
  rewrite <- ES.
  rewrite <- (sum_opt_perm c (map snd dds) (map snd dds')) by (apply Permutation_map, Pd).
  rewrite <- (sum_opt_perm c (map snd ccs) (map snd ccs')) by (apply Permutation_map, Pc).
  rewrite <- (included_of_permA (d_pit d) _ _) with (3 := PC).
  2:{ rewrite calc_codes. apply groups_pairwise_distinct. }
  2:{ rewrite calc_codes. apply groups_pairwise_distinct. }
  unfold assemble, totals_same_up_to_order. cbv zeta.
  cbn [t_lines t_sum t_discount t_charge t_tax_included t_total t_tax t_twt t_payable t_advances t_due t_dd t_cc
       t_adv_rows t_dues t_cats t_taxsum t_taxsum_precise t_rounding].
  repeat split; try reflexivity.
  - apply Permutation_map, Pl.
  - apply Permutation_map, Pd.
  - apply Permutation_map, Pc.
  - exact PC.
Qed.

Lemma calc_rest_perm d lcs lcs' sum dds dds' ccs ccs' tls tls' :
  Permutation lcs lcs' -> Permutation dds dds' -> Permutation ccs ccs' -> Permutation tls tls' ->
  retained_consistent tls ->
  result_same_up_to_order (calc_rest d lcs sum dds ccs tls) (calc_rest d lcs' sum dds' ccs' tls').
Proof.
  intros Pl Pd Pc Pt H. unfold calc_rest.
  destruct tls as [|t0 ts] eqn:Et.
  { apply Permutation_nil in Pt. subst tls'. cbn [result_same_up_to_order]. apply Permutation_map, Pl. }
  destruct tls' as [|t0' ts'] eqn:Et'.
  { apply Permutation_sym, Permutation_nil in Pt. discriminate. }
  rewrite <- Et, <- Et' in *. clear Et Et' t0 ts t0' ts'.
  assert (Pp : Permutation (map (prepare_tl (d_c d)) tls) (map (prepare_tl (d_c d)) tls')) by (apply Permutation_map, Pt).
  destruct (remove_included_all (d_pit d) (map (prepare_tl (d_c d)) tls)) as [tls2|] eqn:E.
  - destruct (remove_included_all_perm _ _ _ Pp tls2 E) as (tls2' & -> & P2).
    cbn [result_same_up_to_order]. apply calc_final_perm; try assumption.
    apply retained_consistent_iff. rewrite (prepared_taxes _ _ _ _ E). apply retained_consistent_iff, H.
  - destruct (remove_included_all (d_pit d) (map (prepare_tl (d_c d)) tls')) as [tls2'|] eqn:E'; [|exact I].
    destruct (remove_included_all_perm _ _ _ (Permutation_sym Pp) tls2' E') as (x & Ex & _). congruence.
Qed.

(* ---- the rows handed to the tax calculator ---- *)
Lemma tax_lines_perm lcs ls lcs' ls' dd dd' cc cc' :
  Permutation (combine lcs ls) (combine lcs' ls') -> Permutation dd dd' -> Permutation cc cc' ->
  Permutation (tax_lines lcs ls dd cc) (tax_lines lcs' ls' dd' cc').
Proof.
  intros P1 P2 P3. unfold tax_lines. repeat apply Permutation_app; apply Permutation_map; assumption.
Qed.

Definition doc_combos (d : doc) : list combo :=
  flat_map ln_taxes (d_lines d) ++ flat_map dd_taxes (d_discounts d) ++ flat_map dd_taxes (d_charges d).
(* retention is a property of the category: two combos of the same category anywhere in the document
   agree on it (in the implementation the flag is copied from the regime's category definition) *)
Definition doc_retained_consistent (d : doc) : Prop := combos_consistent (doc_combos d).

Lemma doc_rows_combos d lcs cb : In cb (flat_map tl_taxes (doc_rows d lcs)) -> In cb (doc_combos d).
Proof.
  unfold doc_rows, tax_lines, doc_combos, doc_ddc. rewrite !flat_map_app, !in_app_iff, !in_flat_map.
  intros [(tl & I1 & I2)|[(tl & I1 & I2)|(tl & I1 & I2)]]; apply in_map_iff in I1.
  - destruct I1 as ([lc l] & <- & I1). apply in_combine_r in I1. left. exists l. split; assumption.
  - destruct I1 as ([x a] & <- & I1). apply in_map_iff in I1. destruct I1 as (y & Ey & I1). injection Ey as -> _.
    right. left. exists x. split; assumption.
  - destruct I1 as ([x a] & <- & I1). apply in_map_iff in I1. destruct I1 as (y & Ey & I1). injection Ey as -> _.
    right. right. exists x. split; assumption.
Qed.

(* ---- main theorem, document level ---- *)
Theorem calculate_independent_of_row_order d ls ds cs :
  Permutation (d_lines d) ls -> Permutation (d_discounts d) ds -> Permutation (d_charges d) cs ->
  doc_retained_consistent d ->
  result_same_up_to_order (calculate d) (calculate (reorder d ls ds cs)).
Proof.
  intros Pl Pd Pc H. rewrite !calculate_unfold.
  cbn [reorder d_c d_currency_rule d_cur d_rates d_lines d_discounts d_charges].
  set (c := d_c d). set (cr := d_currency_rule d). set (d' := reorder d ls ds cs).
  destruct (calc_lines cr c (d_cur d) (d_rates d) (d_lines d)) as [lcs|] eqn:EL.
  - destruct (calc_lines_perm_combine cr c _ _ _ _ Pl lcs EL) as (lcs' & EL' & PC). rewrite EL'.
    assert (PL : Permutation lcs lcs').
    { destruct (calc_lines_perm cr c _ _ _ _ Pl lcs EL) as (x & Ex & Px). congruence. }
    assert (ES : doc_sum d' lcs' = doc_sum d lcs).
    { unfold doc_sum. apply fold_acc_perm, Permutation_map, Permutation_sym, PL. }
    assert (PD : Permutation (doc_ddc d lcs (d_discounts d)) (doc_ddc d' lcs' ds)).
    { unfold doc_ddc. rewrite ES. apply Permutation_map, Pd. }
    assert (PCh : Permutation (doc_ddc d lcs (d_charges d)) (doc_ddc d' lcs' cs)).
    { unfold doc_ddc. rewrite ES. apply Permutation_map, Pc. }
    assert (PR : Permutation (doc_rows d lcs) (doc_rows d' lcs')).
    { unfold doc_rows. apply tax_lines_perm; assumption. }
    rewrite ES.
    change (calc_rest d' lcs' (doc_sum d lcs) (doc_ddc d' lcs' ds) (doc_ddc d' lcs' cs) (doc_rows d' lcs'))
      with (calc_rest d lcs' (doc_sum d lcs) (doc_ddc d' lcs' ds) (doc_ddc d' lcs' cs) (doc_rows d' lcs')).
    apply calc_rest_perm; try assumption.
    apply retained_consistent_iff. intros cb cb' I1 I2. apply H; apply (doc_rows_combos d lcs); assumption.
  - destruct (calc_lines cr c (d_cur d) (d_rates d) ls) as [lcs'|] eqn:EL'; [|exact I].
    destruct (calc_lines_perm cr c _ _ _ _ (Permutation_sym Pl) lcs' EL') as (x & Ex & _). congruence.
Qed.

Corollary totals_independent_of_row_order d ls ds cs t :
  Permutation (d_lines d) ls -> Permutation (d_discounts d) ds -> Permutation (d_charges d) cs ->
  doc_retained_consistent d -> calculate d = Totals t ->
  exists t', calculate (reorder d ls ds cs) = Totals t' /\ totals_same_up_to_order t t'.
Proof.
  intros Pl Pd Pc H E. pose proof (calculate_independent_of_row_order d ls ds cs Pl Pd Pc H) as R.
  rewrite E in R. destruct (calculate (reorder d ls ds cs)) as [|l'|t']; cbn [result_same_up_to_order] in R; try contradiction.
  exists t'. split; [reflexivity|exact R].
Qed.

(* the retention hypothesis cannot be dropped: a category keeps the flag of the first combo seen, so two
   rows of one category that disagree on `retained` give a tax sum whose sign depends on their order *)
Lemma tax_sum_without_consistent_retention_refuted :
  exists cr c tls tls', Permutation tls tls' /\
    fold_left (sum_step cr) (map (ct_calc cr c) (base_totals cr c tls)) (zero_of c) <>
    fold_left (sum_step cr) (map (ct_calc cr c) (base_totals cr c tls')) (zero_of c).
Proof.
  exists false, 2%nat,
    [mkTL (mkA 10000 2) [mkCombo [] [] [] (Some (mkA 10 2)) None false []];
     mkTL (mkA 10000 2) [mkCombo [] [] [] (Some (mkA 10 2)) None true []]],
    [mkTL (mkA 10000 2) [mkCombo [] [] [] (Some (mkA 10 2)) None true []];
     mkTL (mkA 10000 2) [mkCombo [] [] [] (Some (mkA 10 2)) None false []]].
  split; [apply perm_swap|]. vm_compute. discriminate.
Qed.
