(* C17 (partial step towards tax-group invariance): the total base a category receives does not
   depend on the order of the taxable rows - a corollary of C02's partition theorem. *)
From Coq Require Import ZArith QArith List Bool Permutation.
From Verif Require Import Base.Wire Num.Amount Num.AmountProofs Calc.Doc Calc.Calc Calc.TaxProofs.
Import ListNotations.

Lemma sumQ_rows_perm cr c cat tls tls' : Permutation tls tls' -> sumQ_rows cr c cat tls == sumQ_rows cr c cat tls'.
Proof.
  intros P. unfold sumQ_rows.
  induction P as [|x l l' _ IH|x y l|l l' l'' _ IH1 _ IH2]; cbn [fold_right].
  - reflexivity.
  - rewrite IH. reflexivity.
  - ring.
  - rewrite IH1. exact IH2.
Qed.

Theorem category_base_independent_of_row_order cr c cat tls tls' :
  Permutation tls tls' ->
  sumQ_bases cat (base_totals cr c tls) == sumQ_bases cat (base_totals cr c tls').
Proof. intros P. rewrite !tax_partition_rule. apply sumQ_rows_perm. exact P. Qed.
