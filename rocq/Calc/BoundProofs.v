(* Error bounds of the 'precise' rounding rule for plain documents (property C01, last sentence). *)
From Coq Require Import ZArith QArith Qabs Lia Lqa List Bool ZifyBool ZifyNat.
From Verif Require Import Base.Wire Base.Rha Base.RhaProofs Num.Amount Num.AmountProofs Calc.Doc Calc.Calc
  Calc.TaxProofs.
Import ListNotations.
Open Scope Q_scope.

(* one unit of the e-th decimal *)
Definition unitQ (e : nat) : Q := 1 # Z.to_pos (pow10 e).

Lemma unitQ_pos e : 0 < unitQ e.
Proof. reflexivity. Qed.

Lemma unitQ_add a b : unitQ (a + b) == unitQ a * unitQ b.
Proof.
  unfold unitQ, Qeq, Qmult. cbn [Qnum Qden]. rewrite Pos2Z.inj_mul, !pos_pow10, pow10_add. ring.
Qed.

Lemma unitQ_mono a b : (a <= b)%nat -> unitQ b <= unitQ a.
Proof.
  intros H. unfold unitQ, Qle. cbn [Qnum Qden]. rewrite !pos_pow10.
  replace b with ((b - a) + a)%nat by lia. rewrite pow10_add.
  pose proof (pow10_pos (b - a)). pose proof (pow10_pos a). nia.
Qed.

(* rounding to e decimals moves a rational by at most half a unit of the e-th decimal *)
Lemma roundQ_error e q : Qabs (toQ (mkA (roundQ e q) e) - q) <= (1 # 2) * unitQ e.
Proof.
  apply Qabs_Qle_condition.
  unfold roundQ. destruct q as [n d]. cbn [Qnum Qden].
  destruct (rha_spec (n * pow10 e) (Zpos d) eq_refl) as [A _].
  set (r := rha (n * pow10 e) (Z.pos d)) in *. clearbody r.
  pose proof (pow10_pos e) as P.
  unfold toQ, unitQ, Qle, Qminus, Qplus, Qopp, Qmult. cbn [Qnum Qden val exp].
  rewrite !Pos2Z.inj_mul, !pos_pow10.
  set (D := Z.pos d) in *. assert (0 < D)%Z by (unfold D; lia). clearbody D.
  set (T := pow10 e) in *. clearbody T.
  assert (B : (-D <= 2 * (n * T - r * D) <= D)%Z) by lia. clear A.
  split; nia.
Qed.

(* (i) a product computed by Multiply is within half a unit of its last decimal of the exact one *)
Lemma mul_error a b : Qabs (toQ (mul a b) - toQ a * toQ b) <= (1 # 2) * unitQ (exp a).
Proof.
  pose proof (roundQ_error (exp a) (toQ a * toQ b)) as H.
  rewrite <- mul_val in H. replace (mkA (val (mul a b)) (exp a)) with (mul a b) in H by reflexivity.
  exact H.
Qed.

(* (iii) rounding an amount for presentation *)
Lemma rescale_error a e : Qabs (toQ (rescale a e) - toQ a) <= (1 # 2) * unitQ e.
Proof.
  pose proof (roundQ_error e (toQ a)) as H. rewrite <- rescale_val in H.
  replace (mkA (val (rescale a e)) e) with (rescale a e) in H; [exact H|].
  rewrite <- (rescale_exp a e) at 3. destruct (rescale a e); reflexivity.
Qed.

(* ---------------- plain lines ---------------- *)
(* no breakdown, discounts, charges or taxes; item priced in the document currency *)
Definition plain_line (l : line) : Prop :=
  ln_breakdown l = [] /\ ln_discounts l = [] /\ ln_charges l = [] /\ ln_taxes l = [] /\
  it_cur (ln_item l) = None.

(* the price at the precision lines are calculated with under 'precise' *)
Definition line_price (c : nat) (l : line) : amount :=
  rescale_up (rescale_up (it_price (ln_item l)) c) (c + line_precision_extra).

Lemma line_price_toQ c l : toQ (line_price c l) == toQ (it_price (ln_item l)).
Proof. unfold line_price. rewrite !rescale_up_toQ. reflexivity. Qed.

Lemma line_price_exp c l : (c + 2 <= exp (line_price c l))%nat.
Proof. unfold line_price, line_precision_extra. rewrite !rescale_up_exp. lia. Qed.

Lemma calc_line_plain c cur rates l : plain_line l ->
  exists lc, calc_line false c cur rates l = Some lc /\
    lc_sum lc = mul (line_price c l) (ln_qty l) /\ lc_total lc = lc_sum lc /\
    lc_price lc = rescale_up (it_price (ln_item l)) c.
Proof.
  intros (B & D & C & _ & I). unfold calc_line. rewrite B. cbn [calc_subs].
  unfold item_price. rewrite I, D, C. cbn [ldc_amounts map sub_all add_all fold_left].
  eexists. split; [reflexivity|]. cbn [lc_sum lc_total lc_price]. repeat split.
  unfold apply_rr. fold (line_price c l).
  unfold rescale_up at 1. cbn [mul exp].
  pose proof (line_price_exp c l). destruct (Nat.ltb _ c) eqn:E; [apply Nat.ltb_lt in E; lia|reflexivity].
Qed.

(* the line sum is the exact product of (raised) price and quantity rounded half away from zero
   at the line precision, hence within half a unit of the (c+2)-th decimal of price x quantity *)
Lemma line_sum_is_rounded_product c cur rates l : plain_line l ->
  exists lc, calc_line false c cur rates l = Some lc /\
    let e := exp (line_price c l) in
    exp (lc_sum lc) = e /\ (c + 2 <= e)%nat /\
    val (lc_sum lc) = roundQ e (toQ (it_price (ln_item l)) * toQ (ln_qty l)) /\
    lc_total lc = lc_sum lc /\
    Qabs (toQ (lc_sum lc) - toQ (it_price (ln_item l)) * toQ (ln_qty l)) <= (1 # 2) * unitQ (c + 2).
Proof.
  intros P. destruct (calc_line_plain c cur rates l P) as (lc & E & S & T & _).
  exists lc. split; [exact E|]. cbv zeta. rewrite S.
  split; [reflexivity|]. split; [apply line_price_exp|]. split; [|split; [rewrite T, S; reflexivity|]].
  - rewrite mul_val. apply roundQ_compat. rewrite line_price_toQ. reflexivity.
  - eapply Qle_trans; [|apply Qmult_le_l; [reflexivity|apply (unitQ_mono (c + 2) (exp (line_price c l))), line_price_exp]].
    rewrite <- (line_price_toQ c l). apply mul_error.
Qed.

(* (ii) the document sum adds the line totals without loss *)
Definition sumQ (xs : list amount) : Q := fold_right (fun x s => toQ x + s) 0 xs.

Lemma fold_acc_toQ xs s : toQ (fold_left acc xs s) == toQ s + sumQ xs.
Proof.
  revert s. induction xs as [|x r IH]; intros s; cbn [fold_left sumQ fold_right].
  - ring.
  - rewrite IH, acc_toQ. fold (sumQ r). ring.
Qed.

(* ---------------- plain documents ---------------- *)
Definition plain_doc (d : doc) : Prop :=
  d_currency_rule d = false /\ d_lines d <> [] /\ Forall plain_line (d_lines d) /\
  d_discounts d = [] /\ d_charges d = [] /\ d_rounding d = None.

(* the exact value: sum over the lines of price x quantity *)
Definition exact_sum (ls : list line) : Q :=
  fold_right (fun l s => toQ (it_price (ln_item l)) * toQ (ln_qty l) + s) 0 ls.

Lemma calc_lines_plain c cur rates ls : Forall plain_line ls ->
  exists lcs, calc_lines false c cur rates ls = Some lcs /\ length lcs = length ls /\
    Forall (fun lc => lc_total lc = lc_sum lc) lcs /\
    Qabs (sumQ (map lc_total lcs) - exact_sum ls) <= inject_Z (Z.of_nat (length ls)) * ((1 # 2) * unitQ (c + 2)).
Proof.
  induction ls as [|l r IH]; intros F.
  - exists []. cbn. repeat split; auto. discriminate.
  - inversion F as [|? ? P F']; subst. destruct (IH F') as (lcs & E & L & T & B).
    destruct (line_sum_is_rounded_product c cur rates l P) as (lc & E1 & _ & _ & _ & T1 & B1).
    exists (lc :: lcs). cbn [calc_lines]. rewrite E1, E. split; [reflexivity|].
    split; [cbn [length]; lia|]. split; [constructor; assumption|].
    cbn [map sumQ fold_right exact_sum length]. fold (sumQ (map lc_total lcs)). fold (exact_sum r).
    rewrite Nat2Z.inj_succ, <- Z.add_1_r, inject_Z_plus.
    set (u := (1 # 2) * unitQ (c + 2)) in *.
    rewrite T1.
    apply Qabs_Qle_condition in B. apply Qabs_Qle_condition in B1. apply Qabs_Qle_condition.
    change (inject_Z 1) with 1. lra.
Qed.

Lemma tax_lines_plain lcs ls :
  Forall plain_line ls -> Forall (fun tl => tl_taxes tl = []) (tax_lines lcs ls [] []).
Proof.
  intros F. unfold tax_lines. cbn [map]. rewrite app_nil_r.
  apply Forall_forall. intros x I. apply in_map_iff in I. destruct I as ([lc l] & <- & I).
  apply in_combine_r in I. rewrite Forall_forall in F. apply (F l I).
Qed.

Lemma untaxed_rows_stay pit c tls : Forall (fun tl => tl_taxes tl = []) tls ->
  remove_included_all pit (map (prepare_tl c) tls) = Some tls.
Proof.
  induction tls as [|tl r IH]; intros F; [reflexivity|]. inversion F as [|? ? E F']; subst.
  cbn [map remove_included_all]. rewrite (IH F').
  unfold prepare_tl. rewrite E. unfold remove_included. rewrite E. cbn [get_combo].
  destruct pit; reflexivity.
Qed.

Lemma untaxed_rows_no_cats cr c tls : Forall (fun tl => tl_taxes tl = []) tls -> base_totals cr c tls = [].
Proof.
  unfold base_totals. induction tls as [|tl r IH]; intros F; [reflexivity|]. inversion F as [|? ? E F']; subst.
  cbn [fold_left]. unfold add_tl at 2. rewrite E. cbn [fold_left]. apply IH, F'.
Qed.

Lemma calculate_plain d : plain_doc d ->
  exists lcs t,
    calc_lines false (d_c d) (d_cur d) (d_rates d) (d_lines d) = Some lcs /\
    calculate d = Totals t /\
    let sum := fold_left acc (map lc_total lcs) (zero_of (d_c d)) in
    t_sum t = rescale sum (d_c d) /\ t_total t = t_sum t /\ t_twt t = t_sum t /\ t_payable t = t_sum t /\
    t_tax t = zero_of (d_c d) /\ t_cats t = [].
Proof.
  intros (R & NE & F & D & C & RO).
  destruct (calc_lines_plain (d_c d) (d_cur d) (d_rates d) (d_lines d) F) as (lcs & E & L & _ & _).
  exists lcs. unfold calculate. rewrite R, E, D, C, RO. cbn [map sum_opt].
  pose proof (tax_lines_plain lcs (d_lines d) F) as TP.
  destruct (tax_lines lcs (d_lines d) [] []) as [|r0 rs] eqn:ET.
  { exfalso. unfold tax_lines in ET. cbn [map] in ET. rewrite app_nil_r in ET.
    apply (f_equal (@length _)) in ET. rewrite map_length, combine_length, L, Nat.min_id in ET.
    destruct (d_lines d); [congruence|discriminate]. }
  rewrite (untaxed_rows_stay _ _ _ TP), (untaxed_rows_no_cats _ _ _ TP).
  eexists. split; [reflexivity|]. split; [reflexivity|].
  cbn [map fold_left find_cat t_sum t_total t_twt t_payable t_tax t_cats]. cbv zeta.
  assert (Z0 : precise_or (zero_of (d_c d)) (rescale (zero_of (d_c d)) (d_c d)) = zero_of (d_c d)).
  { unfold precise_or. cbn [is_zero zero_of val Z.eqb]. apply rescale_same. reflexivity. }
  rewrite Z0, add_zero. rewrite rescale_same with (a := zero_of (d_c d)) by reflexivity.
  destruct (d_pit d); repeat split.
Qed.

(* the presented sum (and with it total, total with tax and payable) of a plain document of n
   lines is within n/200 + 1/2 minor units of the exact value *)
Lemma precise_sum_error_bound_n d : plain_doc d ->
  exists t, calculate d = Totals t /\
    t_total t = t_sum t /\ t_twt t = t_sum t /\ t_payable t = t_sum t /\
    Qabs (toQ (t_sum t) - exact_sum (d_lines d)) <=
      (inject_Z (Z.of_nat (length (d_lines d))) * (1 # 200) + (1 # 2)) * unitQ (d_c d).
Proof.
  intros P. destruct (calculate_plain d P) as (lcs & t & E & Ec & S & T1 & T2 & T3 & _).
  exists t. split; [exact Ec|]. split; [exact T1|]. split; [exact T2|]. split; [exact T3|].
  destruct P as (_ & _ & F & _).
  destruct (calc_lines_plain (d_c d) (d_cur d) (d_rates d) (d_lines d) F) as (lcs' & E' & _ & _ & B).
  rewrite E in E'. injection E' as <-.
  rewrite S. set (sum := fold_left acc (map lc_total lcs) (zero_of (d_c d))).
  pose proof (rescale_error sum (d_c d)) as B2.
  assert (ES : toQ sum == sumQ (map lc_total lcs)).
  { unfold sum. rewrite fold_acc_toQ, toQ_zero. ring. }
  rewrite <- ES in B. clear ES.
  assert (U : unitQ (d_c d + 2) == (1 # 100) * unitQ (d_c d)).
  { rewrite unitQ_add. change (unitQ 2) with (1 # 100). ring. }
  rewrite U in B.
  set (n := inject_Z (Z.of_nat (length (d_lines d)))) in *.
  set (u := unitQ (d_c d)) in *.
  apply Qabs_Qle_condition in B. apply Qabs_Qle_condition in B2. apply Qabs_Qle_condition.
  split; lra.
Qed.

Lemma precise_sum_error_bound d : plain_doc d -> (length (d_lines d) <= 99)%nat ->
  exists t, calculate d = Totals t /\
    t_total t = t_sum t /\ t_twt t = t_sum t /\ t_payable t = t_sum t /\
    Qabs (toQ (t_sum t) - exact_sum (d_lines d)) < unitQ (d_c d).
Proof.
  intros P N. destruct (precise_sum_error_bound_n d P) as (t & E & T1 & T2 & T3 & B).
  exists t. repeat (split; [assumption|]).
  eapply Qle_lt_trans; [exact B|].
  pose proof (unitQ_pos (d_c d)) as U. set (u := unitQ (d_c d)) in *.
  assert (K : inject_Z (Z.of_nat (length (d_lines d))) <= 99).
  { change 99 with (inject_Z 99). rewrite <- Zle_Qle. lia. }
  set (n := inject_Z (Z.of_nat (length (d_lines d)))) in *. clearbody n u.
  nra.
Qed.
