(* Abstract documents for the calculation model (bill.Invoice / Order / Delivery share
   bill/calculator.go).  Only what the calculation reads.  No proofs in this file. *)
From Coq Require Import ZArith List Bool.
From Verif Require Import Base.Wire Num.Amount.
Import ListNotations.

(* a prepared tax combo (tax.Combo after combo.calculate: rate key already resolved to percent /
   surcharge by the regime tables - that resolution is property C12's model) *)
Record combo := mkCombo {
  cb_cat : bytes;                   (* category code *)
  cb_country : bytes;               (* per-combo country override, usually empty *)
  cb_ext : list (bytes * bytes);    (* extensions, sorted by key (Go: map equality) *)
  cb_pct : option amount;           (* None = exempt *)
  cb_sur : option amount;
  cb_retained : bool;
  cb_key : bytes                    (* rate key, informational *)
}.

(* line-level discount or charge (bill.LineDiscount / bill.LineCharge) *)
Record ldc := mkLdc {
  ld_amount : amount;               (* fixed amount as supplied (zero value when absent) *)
  ld_pct : option amount;
  ld_base : option amount;
  ld_rate : option amount;          (* charges only *)
  ld_qty : option amount            (* charges only *)
}.

(* document-level discount or charge (bill.Discount / bill.Charge) *)
Record ddc := mkDdc {
  dd_amount : amount;
  dd_pct : option amount;
  dd_base : option amount;
  dd_taxes : list combo
}.

Record item := mkItem {
  it_price : amount;
  it_cur : option (Z * nat);        (* item currency (id, subunits) when given *)
  it_alts : list (Z * amount)       (* alternative prices: currency id, value *)
}.

Record subline := mkSub {
  sl_qty : amount;
  sl_item : item;
  sl_discounts : list ldc;
  sl_charges : list ldc
}.

Record line := mkLine {
  ln_qty : amount;
  ln_item : item;
  ln_breakdown : list subline;
  ln_discounts : list ldc;
  ln_charges : list ldc;
  ln_taxes : list combo
}.

Record xrate := mkXrate { xr_from : Z; xr_to : Z; xr_amount : amount }.

(* advance / due date row: fixed amount or percentage *)
Record prow := mkProw { pr_amount : amount; pr_pct : option amount }.

Record doc := mkDoc {
  d_c : nat;                        (* decimals (subunits) of the document currency *)
  d_currency_rule : bool;           (* true = 'currency' rounding rule, false = 'precise' *)
  d_pit : bytes;                    (* category included in prices; empty = none *)
  d_cur : Z;                        (* document currency id *)
  d_lines : list line;
  d_discounts : list ddc;
  d_charges : list ddc;
  d_rates : list xrate;
  d_advances : list prow;
  d_dues : list prow;
  d_rounding : option amount        (* externally supplied totals.rounding *)
}.

(* ---- results ---- *)
Record ldc_out := mkLdcOut { lo_amount : amount }.

Record sub_out := mkSubOut { so_sum : amount; so_total : amount }.

Record line_out := mkLineOut {
  lo_price : amount;
  lo_sum : amount;
  lo_total : amount;
  lo_discounts : list amount;
  lo_charges : list amount;
  lo_subs : list sub_out
}.

Record rate_total := mkRT {
  rt_key : bytes; rt_country : bytes; rt_ext : list (bytes * bytes);
  rt_pct : option amount; rt_sur : option amount;
  rt_base : amount; rt_amount : amount; rt_suramount : amount
}.

Record cat_total := mkCT {
  ct_code : bytes; ct_retained : bool; ct_rates : list rate_total;
  ct_amount : amount; ct_surcharge : option amount;
  ct_precise : amount               (* unexported amount kept at working precision *)
}.

Record totals := mkTotals {
  t_lines : list line_out;
  t_sum : amount;
  t_discount : option amount;
  t_charge : option amount;
  t_tax_included : option amount;
  t_total : amount;
  t_tax : amount;
  t_twt : amount;
  t_payable : amount;
  t_advances : option amount;
  t_due : option amount;
  t_dd : list amount;               (* presented document discount amounts *)
  t_cc : list amount;
  t_adv_rows : list amount;
  t_dues : list amount;
  t_cats : list cat_total;
  t_taxsum : amount;                (* taxes.sum as presented *)
  t_taxsum_precise : amount;        (* unexported precise sum *)
  t_rounding : option amount        (* totals.rounding as presented: the supplied value at the currency's decimals *)
}.
