(* Re-input, inversion and tax removal (bill/invoice.go Invert, RemoveIncludedTaxes;
   bill/calculator.go removeIncludedTaxes; bill/line.go removeLineIncludedTaxes ...).
   All three operate on an already calculated document, i.e. on `as_input d`: the document whose
   stored amounts are the presented results of the previous calculation.  No proofs here. *)
From Coq Require Import ZArith List Bool.
From Verif Require Import Base.Wire Base.Rha Num.Amount Calc.Doc Calc.Calc.
Import ListNotations.
Open Scope Z_scope.

Definition default_tax_removal_accuracy : nat := 2.   (* bill.defaultTaxRemovalAccuracy *)

(* ---- what a calculated document looks like when read back as input ---- *)
Definition ldc_as_input (c : nat) (d : ldc) (a : amount) : ldc :=
  mkLdc a (ld_pct d)
        (match opt_nonzero (ld_pct d), ld_base d with
         | Some _, Some b => Some (rescale_up b c)    (* d.Base = &b *)
         | _, ob => ob
         end)
        (ld_rate d) (ld_qty d).

Fixpoint zip_with {A B C} (f : A -> B -> C) (l : list A) (m : list B) : list C :=
  match l, m with
  | a :: l', b :: m' => f a b :: zip_with f l' m'
  | _, _ => []
  end.

Definition sub_as_input (c : nat) (sl : subline) (sc : sub_calc) : subline :=
  mkSub (sl_qty sl) (mkItem (sc_price sc) None [])
        (zip_with (ldc_as_input c) (sl_discounts sl) (sc_ds sc))
        (zip_with (ldc_as_input c) (sl_charges sl) (sc_cs sc)).

Definition line_as_input (c : nat) (l : line) (lc : line_calc) : line :=
  let lo := present_line lc in
  mkLine (ln_qty l) (mkItem (lo_price lo) None [])
         (zip_with (sub_as_input c) (ln_breakdown l) (lc_subs lc))
         (zip_with (ldc_as_input c) (ln_discounts l) (lo_discounts lo))
         (zip_with (ldc_as_input c) (ln_charges l) (lo_charges lo))
         (ln_taxes l).

Definition ddc_as_input (d : ddc) (a : amount) : ddc := mkDdc a (dd_pct d) (dd_base d) (dd_taxes d).
Definition prow_as_input (r : prow) (a : amount) : prow := mkProw a (pr_pct r).

Definition as_input (d : doc) : option doc :=
  match calc_lines (d_currency_rule d) (d_c d) (d_cur d) (d_rates d) (d_lines d), calculate d with
  | Some lcs, Totals t =>
    Some (mkDoc (d_c d) (d_currency_rule d) (d_pit d) (d_cur d)
                (zip_with (line_as_input (d_c d)) (d_lines d) lcs)
                (zip_with ddc_as_input (d_discounts d) (t_dd t))
                (zip_with ddc_as_input (d_charges d) (t_cc t))
                (d_rates d)
                (zip_with prow_as_input (d_advances d) (t_adv_rows t))
                (zip_with prow_as_input (d_dues d) (t_dues t))
                (t_rounding t))
  | Some lcs, NoTotals _ =>
    Some (mkDoc (d_c d) (d_currency_rule d) (d_pit d) (d_cur d)
                (zip_with (line_as_input (d_c d)) (d_lines d) lcs) [] [] (d_rates d)
                (d_advances d) (d_dues d) (d_rounding d))
  | _, _ => None
  end.

(* ---- negation of every signed input (what "the negated document" means) ---- *)
Definition oneg (o : option amount) : option amount := option_map negate o.
Definition ldc_neg (d : ldc) : ldc := mkLdc (negate (ld_amount d)) (ld_pct d) (oneg (ld_base d)) (ld_rate d) (oneg (ld_qty d)).
Definition sub_neg (s : subline) : subline := s.   (* sub-lines define the unit price: unchanged *)
Definition line_neg (l : line) : line :=
  mkLine (negate (ln_qty l)) (ln_item l) (ln_breakdown l) (map ldc_neg (ln_discounts l)) (map ldc_neg (ln_charges l)) (ln_taxes l).
Definition ddc_neg (d : ddc) : ddc := mkDdc (negate (dd_amount d)) (dd_pct d) (oneg (dd_base d)) (dd_taxes d).
Definition prow_neg (r : prow) : prow := mkProw (negate (pr_amount r)) (pr_pct r).
Definition neg_doc (d : doc) : doc :=
  mkDoc (d_c d) (d_currency_rule d) (d_pit d) (d_cur d) (map line_neg (d_lines d))
        (map ddc_neg (d_discounts d)) (map ddc_neg (d_charges d)) (d_rates d)
        (map prow_neg (d_advances d)) (map prow_neg (d_dues d)) (oneg (d_rounding d)).

(* ---- Invoice.Invert: line quantities, fixed line/document discount and charge amounts, their
        explicit bases, explicit charge quantities and advances are negated; due-date amounts are
        not (they do not enter payable); an external rounding adjustment is kept, negated (it was
        dropped with the stored totals before the second repair of Invert).  (Bases and charge quantities are negated since the repair recorded in
        KNOWN_FINDINGS.json; invert_doc_shipped is the earlier behaviour.) ---- *)
Definition invert_doc (d : doc) : doc :=
  mkDoc (d_c d) (d_currency_rule d) (d_pit d) (d_cur d) (map line_neg (d_lines d))
        (map ddc_neg (d_discounts d)) (map ddc_neg (d_charges d)) (d_rates d)
        (map prow_neg (d_advances d)) (d_dues d) (oneg (d_rounding d)).

Definition ldc_invert_shipped (d : ldc) : ldc := mkLdc (negate (ld_amount d)) (ld_pct d) (ld_base d) (ld_rate d) (ld_qty d).
Definition line_invert_shipped (l : line) : line :=
  mkLine (negate (ln_qty l)) (ln_item l) (ln_breakdown l) (map ldc_invert_shipped (ln_discounts l)) (map ldc_invert_shipped (ln_charges l)) (ln_taxes l).
Definition ddc_invert_shipped (d : ddc) : ddc := mkDdc (negate (dd_amount d)) (dd_pct d) (dd_base d) (dd_taxes d).
Definition invert_doc_shipped (d : doc) : doc :=
  mkDoc (d_c d) (d_currency_rule d) (d_pit d) (d_cur d) (map line_invert_shipped (d_lines d))
        (map ddc_invert_shipped (d_discounts d)) (map ddc_invert_shipped (d_charges d)) (d_rates d)
        (map prow_neg (d_advances d)) (d_dues d) None.

Inductive invert_result := InvertRefused | InvertMismatch (t : totals) | Inverted (t : totals).

(* Invert: on the calculated document; recalculates and compares payable with the negated one *)
Definition invert (d : doc) : invert_result :=
  match calculate d, as_input d with
  | Totals t0, Some d1 =>
    match calculate (invert_doc d1) with
    | Totals t1 => if equals (negate (t_payable t0)) (t_payable t1) then Inverted t1 else InvertMismatch t1
    | _ => InvertRefused
    end
  | _, _ => InvertRefused
  end.

(* ---- RemoveIncludedTaxes ----
   Line level (removeLineIncludedTaxes, removeSubLinesIncludedTaxes, removeLineDiscounts/ChargesIncludedTaxes):
   `Amount.Upscale(2).Remove(pct)` = strip.  Document level (Discount/Charge.removeIncludedTaxes): since the
   repair recorded in findings/C17.json (C17-rit-not-a-fixpoint) `Amount.Remove(pct)` at the precision the amount
   is presented with = ddc_strip; ddc_strip_shipped is the earlier behaviour (two extra decimals, which the
   presentation then rounds away, so the next calculation starts from another amount). ---- *)
Definition strip (a : amount) (p : amount) : amount := remove (upscale a default_tax_removal_accuracy) p.

Definition ldc_strip (p : amount) (d : ldc) : ldc := mkLdc (strip (ld_amount d) p) (ld_pct d) (ld_base d) (ld_rate d) (ld_qty d).
Definition sub_strip (p : amount) (s : subline) : subline :=
  mkSub (sl_qty s) (mkItem (strip (it_price (sl_item s)) p) (it_cur (sl_item s)) [])
        (map (ldc_strip p) (sl_discounts s)) (map (ldc_strip p) (sl_charges s)).
Definition line_strip (pit : bytes) (l : line) : line :=
  match get_combo pit (ln_taxes l) with
  | Some cb => match cb_pct cb with
               | Some p => mkLine (ln_qty l) (mkItem (strip (it_price (ln_item l)) p) (it_cur (ln_item l)) [])
                                  (map (sub_strip p) (ln_breakdown l)) (map (ldc_strip p) (ln_discounts l))
                                  (map (ldc_strip p) (ln_charges l)) (ln_taxes l)
               | None => l
               end
  | None => l
  end.
(* Discount.removeIncludedTaxes / Charge.removeIncludedTaxes; `rm` = how the tax is taken out of the amount *)
Definition ddc_strip_with (rm : amount -> amount -> amount) (pit : bytes) (d : ddc) : ddc :=
  match get_combo pit (dd_taxes d) with
  | Some cb => match cb_pct cb with
               | Some p => mkDdc (rm (dd_amount d) p) (dd_pct d) (dd_base d) (dd_taxes d)
               | None => d
               end
  | None => d
  end.
Definition ddc_strip : bytes -> ddc -> ddc := ddc_strip_with remove.           (* m2.Amount.Remove(pct) *)
Definition ddc_strip_shipped : bytes -> ddc -> ddc := ddc_strip_with strip.    (* m2.Amount.Upscale(2).Remove(pct) *)

(* the document RemoveIncludedTaxes calculates: d1 is the calculated document read back (as_input d) *)
Definition strip_doc_with (ds : bytes -> ddc -> ddc) (pit : bytes) (d1 : doc) : doc :=
  mkDoc (d_c d1) (d_currency_rule d1) [] (d_cur d1) (map (line_strip pit) (d_lines d1))
        (map (ds pit) (d_discounts d1)) (map (ds pit) (d_charges d1)) (d_rates d1)
        (d_advances d1) (d_dues d1) None.
Definition strip_doc : bytes -> doc -> doc := strip_doc_with ddc_strip.

(* t.Rounding = &rnd on the calculated document *)
Definition with_rounding (d : doc) (r : option amount) : doc :=
  mkDoc (d_c d) (d_currency_rule d) (d_pit d) (d_cur d) (d_lines d) (d_discounts d) (d_charges d)
        (d_rates d) (d_advances d) (d_dues d) r.

Inductive rit_result := RitRefused | RitDone (t : totals).

Definition remove_included_taxes_with (ds : bytes -> ddc -> ddc) (d : doc) : rit_result :=
  match d_pit d with
  | [] => match calculate d with Totals t => RitDone t | _ => RitRefused end
  | pit =>
    match calculate d, as_input d with
    | Totals t0, Some d1 =>
      let d2 := strip_doc_with ds pit d1 in
      match calculate d2, as_input d2 with
      | Totals t1, Some d3 =>
        if equals (t_twt t0) (t_twt t1) then RitDone t1
        else
          match calculate (with_rounding d3 (Some (sub (t_twt t0) (t_twt t1)))) with Totals t2 => RitDone t2 | _ => RitRefused end
      | _, _ => RitRefused
      end
    | _, _ => RitRefused
    end
  end.
Definition remove_included_taxes : doc -> rit_result := remove_included_taxes_with ddc_strip.
Definition remove_included_taxes_shipped : doc -> rit_result := remove_included_taxes_with ddc_strip_shipped.

(* the document RemoveIncludedTaxes leaves behind, as the next reader sees it (None: it refused) *)
Definition rit_document_with (ds : bytes -> ddc -> ddc) (d : doc) : option doc :=
  match d_pit d with
  | [] => as_input d
  | pit =>
    match calculate d, as_input d with
    | Totals t0, Some d1 =>
      let d2 := strip_doc_with ds pit d1 in
      match calculate d2, as_input d2 with
      | Totals t1, Some d3 =>
        if equals (t_twt t0) (t_twt t1) then Some d3
        else as_input (with_rounding d3 (Some (sub (t_twt t0) (t_twt t1))))
      | _, _ => None
      end
    | _, _ => None
    end
  end.
Definition rit_document : doc -> option doc := rit_document_with ddc_strip.
Definition rit_document_shipped : doc -> option doc := rit_document_with ddc_strip_shipped.
