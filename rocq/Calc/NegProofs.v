(* C17: the calculation commutes with negation of every signed input.  Every operation of the
   model is odd in its signed arguments because rha is (rha_neg). *)
From Coq Require Import ZArith List Bool Lia.
From Verif Require Import Base.Wire Base.Rha Base.RhaProofs Num.Amount Num.AmountProofs
  Calc.Doc Calc.Calc Calc.Merge Calc.Symmetry Calc.NegSpec.
Import ListNotations.
Open Scope Z_scope.

(* ---------------- amounts ---------------- *)
Lemma negate_zero c : negate (zero_of c) = zero_of c.
Proof. reflexivity. Qed.

Lemma negate_exp a : exp (negate a) = exp a. Proof. reflexivity. Qed.

Lemma is_zero_negate a : is_zero (negate a) = is_zero a.
Proof. unfold is_zero, negate. cbn [val]. destruct (Z.eqb_spec (val a) 0), (Z.eqb_spec (- val a) 0); try reflexivity; lia. Qed.

Lemma rescale_up_negate a e : rescale_up (negate a) e = negate (rescale_up a e).
Proof. unfold rescale_up. rewrite negate_exp. destruct (Nat.ltb (exp a) e); [apply rescale_negate|reflexivity]. Qed.

Lemma rescale_down_negate a e : rescale_down (negate a) e = negate (rescale_down a e).
Proof. unfold rescale_down. rewrite negate_exp. destruct (Nat.ltb e (exp a)); [apply rescale_negate|reflexivity]. Qed.

Lemma match_precision_negate a b : match_precision (negate a) (negate b) = negate (match_precision a b).
Proof. unfold match_precision. rewrite negate_exp. apply rescale_up_negate. Qed.

Lemma add_negate a b : add (negate a) (negate b) = negate (add a b).
Proof. unfold add. rewrite negate_exp, rescale_negate. unfold negate. cbn [val exp]. f_equal. lia. Qed.

Lemma sub_negate a b : sub (negate a) (negate b) = negate (sub a b).
Proof. unfold sub. rewrite negate_exp, rescale_negate. unfold negate. cbn [val exp]. f_equal. lia. Qed.

Lemma mul_negate_l a b : mul (negate a) b = negate (mul a b).
Proof.
  unfold mul, negate. cbn [val exp]. f_equal.
  replace (- val a * val b) with (- (val a * val b)) by lia. apply rha_neg, pow10_pos.
Qed.

Lemma mul_negate_r a b : mul a (negate b) = negate (mul a b).
Proof.
  unfold mul, negate. cbn [val exp]. f_equal.
  replace (val a * - val b) with (- (val a * val b)) by lia. apply rha_neg, pow10_pos.
Qed.

Lemma rhaS_opp_all n d : rhaS (- n) d = - rhaS n d.
Proof.
  destruct (Z.eq_dec d 0) as [->|N]; [|apply rhaS_opp; exact N].
  unfold rhaS. cbn. reflexivity.
Qed.

Lemma div_negate_l a b : div (negate a) b = negate (div a b).
Proof.
  unfold div, negate. cbn [val exp]. f_equal.
  replace (- val a * pow10 (exp b)) with (- (val a * pow10 (exp b))) by lia. apply rhaS_opp_all.
Qed.

Lemma remove_negate a p : remove (negate a) p = negate (remove a p).
Proof. unfold remove. apply div_negate_l. Qed.

Lemma pct_of_negate p a : pct_of p (negate a) = negate (pct_of p a).
Proof. unfold pct_of. apply mul_negate_l. Qed.

Lemma apply_rr_negate cr c a : apply_rr cr c (negate a) = negate (apply_rr cr c a).
Proof. unfold apply_rr. destruct cr; [apply rescale_negate|apply rescale_up_negate]. Qed.

Lemma acc_negate s x : acc (negate s) (negate x) = negate (acc s x).
Proof. unfold acc. rewrite match_precision_negate. apply add_negate. Qed.

Lemma acc_rr_negate cr s x : acc_rr cr (negate s) (negate x) = negate (acc_rr cr s x).
Proof. unfold acc_rr, match_rr. destruct cr; [apply add_negate|rewrite match_precision_negate; apply add_negate]. Qed.

Lemma precise_or_negate p q : precise_or (negate p) (negate q) = negate (precise_or p q).
Proof. unfold precise_or. rewrite is_zero_negate. destruct (is_zero p); reflexivity. Qed.

Lemma fold_acc_negate xs : forall z, fold_left acc (map negate xs) (negate z) = negate (fold_left acc xs z).
Proof. induction xs as [|x xs IH]; intros z; cbn [map fold_left]; [reflexivity|]. rewrite acc_negate. apply IH. Qed.

Lemma fold_add_negate xs : forall z, fold_left add (map negate xs) (negate z) = negate (fold_left add xs z).
Proof. induction xs as [|x xs IH]; intros z; cbn [map fold_left]; [reflexivity|]. rewrite add_negate. apply IH. Qed.

Lemma fold_sub_negate xs : forall z, fold_left sub (map negate xs) (negate z) = negate (fold_left sub xs z).
Proof. induction xs as [|x xs IH]; intros z; cbn [map fold_left]; [reflexivity|]. rewrite sub_negate. apply IH. Qed.

Lemma sum_opt_negate c xs : sum_opt c (map negate xs) = oneg (sum_opt c xs).
Proof.
  unfold sum_opt. destruct xs as [|x xs]; [reflexivity|]. cbn [map oneg option_map].
  rewrite <- (negate_zero c) at 1. rewrite <- fold_acc_negate. reflexivity.
Qed.

(* ---------------- line discounts / charges ---------------- *)
Lemma ldc_base_negate cr c sum b : ldc_base cr c (negate sum) (oneg b) = negate (ldc_base cr c sum b).
Proof.
  unfold ldc_base. destruct b as [b0|]; cbn [oneg option_map]; [|reflexivity].
  rewrite !rescale_up_negate. apply apply_rr_negate.
Qed.

Lemma ldc_amount_negate cr c sum qty ch d :
  ldc_amount cr c (negate sum) (negate qty) ch (ldc_neg d) = negate (ldc_amount cr c sum qty ch d).
Proof.
  unfold ldc_amount, ldc_neg. cbn [ld_amount ld_pct ld_base ld_rate ld_qty].
  rewrite <- apply_rr_negate. f_equal.
  assert (E1 : match opt_nonzero (ld_pct d) with
               | Some p => pct_of p (ldc_base cr c (negate sum) (oneg (ld_base d)))
               | None => negate (ld_amount d)
               end = negate (match opt_nonzero (ld_pct d) with
                             | Some p => pct_of p (ldc_base cr c sum (ld_base d))
                             | None => ld_amount d
                             end)).
  { destruct (opt_nonzero (ld_pct d)); [rewrite ldc_base_negate; apply pct_of_negate|reflexivity]. }
  destruct ch; [|exact E1].
  destruct (ld_rate d) as [r|]; [|exact E1].
  destruct (ld_qty d) as [q|]; cbn [oneg option_map]; apply mul_negate_r.
Qed.

Lemma ldc_amounts_negate cr c sum qty ch ds :
  ldc_amounts cr c (negate sum) (negate qty) ch (map ldc_neg ds) = map negate (ldc_amounts cr c sum qty ch ds).
Proof.
  unfold ldc_amounts. induction ds as [|d ds IH]; cbn [map]; [reflexivity|].
  rewrite ldc_amount_negate, IH. reflexivity.
Qed.

(* ---------------- lines ---------------- *)
Definition lc_neg (lc : line_calc) : line_calc :=
  mkLineCalc (lc_price lc) (negate (lc_sum lc)) (negate (lc_total lc))
             (map negate (lc_ds lc)) (map negate (lc_cs lc)) (lc_subs lc).

Lemma calc_line_negate cr c cur rates l :
  calc_line cr c cur rates (line_neg l) = option_map lc_neg (calc_line cr c cur rates l).
Proof.
  unfold calc_line, line_neg. cbn [ln_breakdown ln_item ln_qty ln_discounts ln_charges].
  destruct (calc_subs cr c cur rates (ln_breakdown l)) as [subs|]; [|reflexivity].
  match goal with |- context [item_price ?it cur c rates] => destruct (item_price it cur c rates) as [price|] end; [|reflexivity].
  cbn [option_map]. unfold lc_neg. cbn [lc_price lc_sum lc_total lc_ds lc_cs lc_subs].
  set (e := if cr then c else (c + line_precision_extra)%nat).
  assert (ES : apply_rr cr c (mul (rescale_up price e) (negate (ln_qty l))) =
               negate (apply_rr cr c (mul (rescale_up price e) (ln_qty l)))).
  { rewrite mul_negate_r. apply apply_rr_negate. }
  rewrite ES. rewrite !ldc_amounts_negate.
  unfold add_all, sub_all. rewrite fold_sub_negate, fold_add_negate. reflexivity.
Qed.

Lemma calc_lines_negate cr c cur rates ls :
  calc_lines cr c cur rates (map line_neg ls) = option_map (map lc_neg) (calc_lines cr c cur rates ls).
Proof.
  induction ls as [|l ls IH]; cbn [map calc_lines]; [reflexivity|].
  rewrite calc_line_negate, IH.
  destruct (calc_line cr c cur rates l); cbn [option_map]; [|reflexivity].
  destruct (calc_lines cr c cur rates ls); reflexivity.
Qed.

Lemma present_line_negate lc : present_line (lc_neg lc) = lo_neg (present_line lc).
Proof.
  unfold present_line, lc_neg, lo_neg. cbn [lc_price lc_sum lc_total lc_ds lc_cs lc_subs lo_price lo_sum lo_total lo_discounts lo_charges lo_subs].
  rewrite !rescale_down_negate. rewrite !map_map. f_equal; apply map_ext; intros a; apply rescale_down_negate.
Qed.

(* ---------------- document discounts / charges ---------------- *)
Lemma ddc_amount_negate cr c sum x : ddc_amount cr c (negate sum) (ddc_neg x) = negate (ddc_amount cr c sum x).
Proof.
  unfold ddc_amount, ddc_neg. cbn [dd_amount dd_pct dd_base].
  rewrite <- apply_rr_negate. f_equal.
  destruct (opt_nonzero (dd_pct x)) as [p|]; [|reflexivity].
  rewrite <- pct_of_negate. f_equal.
  destruct (dd_base x) as [b|]; cbn [oneg option_map]; [|reflexivity].
  rewrite rescale_up_negate. apply apply_rr_negate.
Qed.

Definition dd_pair_neg (p : ddc * amount) : ddc * amount := (ddc_neg (fst p), negate (snd p)).

Lemma ddc_rows_negate cr c sum xs :
  map (fun x => (x, ddc_amount cr c (negate sum) x)) (map ddc_neg xs) =
  map dd_pair_neg (map (fun x => (x, ddc_amount cr c sum x)) xs).
Proof.
  induction xs as [|x xs IH]; cbn [map]; [reflexivity|].
  rewrite IH. unfold dd_pair_neg at 1. cbn [fst snd]. rewrite ddc_amount_negate. reflexivity.
Qed.

Lemma map_snd_pair_neg ps : map snd (map dd_pair_neg ps) = map negate (map snd ps).
Proof. induction ps as [|p ps IH]; cbn [map]; [reflexivity|]. rewrite IH. reflexivity. Qed.

Lemma present_ddc_negate c p : present_ddc c (fst (dd_pair_neg p)) (snd (dd_pair_neg p)) = negate (present_ddc c (fst p) (snd p)).
Proof.
  unfold present_ddc, dd_pair_neg. cbn [fst snd ddc_neg dd_base].
  rewrite rescale_down_negate. f_equal. f_equal.
  destruct (dd_base (fst p)); reflexivity.
Qed.

Lemma present_ddcs_negate c ps :
  map (fun p => present_ddc c (fst p) (snd p)) (map dd_pair_neg ps) = map negate (map (fun p => present_ddc c (fst p) (snd p)) ps).
Proof. induction ps as [|p ps IH]; cbn [map]; [reflexivity|]. rewrite IH, present_ddc_negate. reflexivity. Qed.

(* ---------------- tax lines ---------------- *)
Definition tl_neg (tl : tax_line) : tax_line := mkTL (negate (tl_total tl)) (tl_taxes tl).

Lemma combine_lc_neg lcs ls :
  map (fun p => mkTL (lc_total (fst p)) (ln_taxes (snd p))) (combine (map lc_neg lcs) (map line_neg ls)) =
  map tl_neg (map (fun p => mkTL (lc_total (fst p)) (ln_taxes (snd p))) (combine lcs ls)).
Proof.
  revert ls. induction lcs as [|lc lcs IH]; intros ls; [reflexivity|].
  destruct ls as [|l ls]; [reflexivity|]. cbn [map combine fst snd]. rewrite IH. reflexivity.
Qed.

Lemma tax_lines_negate lcs ls dds ccs :
  tax_lines (map lc_neg lcs) (map line_neg ls) (map dd_pair_neg dds) (map dd_pair_neg ccs) =
  map tl_neg (tax_lines lcs ls dds ccs).
Proof.
  unfold tax_lines. rewrite !map_app, combine_lc_neg. f_equal. f_equal.
  - rewrite !map_map. apply map_ext. intros p. reflexivity.
  - rewrite !map_map. apply map_ext. intros p. reflexivity.
Qed.

Lemma prepare_tl_negate c tl : prepare_tl c (tl_neg tl) = tl_neg (prepare_tl c tl).
Proof.
  unfold prepare_tl, tl_neg. cbn [tl_taxes tl_total]. destruct (tl_taxes tl) eqn:E; cbn [tl_total tl_taxes].
  - rewrite E. reflexivity.
  - rewrite rescale_up_negate. reflexivity.
Qed.

Lemma remove_included_negate pit tl : remove_included pit (tl_neg tl) = option_map tl_neg (remove_included pit tl).
Proof.
  unfold remove_included. destruct pit as [|b pit]; [reflexivity|].
  cbn [tl_neg tl_taxes]. destruct (get_combo (b :: pit) (tl_taxes tl)) as [cb|]; [|reflexivity].
  destruct (cb_retained cb); [reflexivity|]. destruct (cb_pct cb) as [p|]; [|reflexivity].
  cbn [option_map tl_total tl_taxes]. unfold tl_neg. cbn [tl_total tl_taxes]. rewrite remove_negate. reflexivity.
Qed.

Lemma remove_included_all_negate pit tls :
  remove_included_all pit (map tl_neg tls) = option_map (map tl_neg) (remove_included_all pit tls).
Proof.
  induction tls as [|t tls IH]; cbn [map remove_included_all]; [reflexivity|].
  rewrite remove_included_negate, IH. destruct (remove_included pit t); cbn [option_map]; [|reflexivity].
  destruct (remove_included_all pit tls); reflexivity.
Qed.

(* ---------------- grouping ---------------- *)
Lemma rt_matches_negate rt cb : rt_matches (rt_negate rt) cb = rt_matches rt cb.
Proof. reflexivity. Qed.

Lemma rt_add_base_negate cr tot rt : rt_add_base cr (negate tot) (rt_negate rt) = rt_negate (rt_add_base cr tot rt).
Proof. unfold rt_add_base, rt_negate. cbn [rt_key rt_country rt_ext rt_pct rt_sur rt_base rt_amount rt_suramount]. rewrite acc_rr_negate. reflexivity. Qed.

Lemma new_rt_negate c cb : rt_negate (new_rt c cb) = new_rt c cb.
Proof. reflexivity. Qed.

Lemma add_to_rates_negate cr c tot cb rts :
  add_to_rates cr c (negate tot) cb (map rt_negate rts) = map rt_negate (add_to_rates cr c tot cb rts).
Proof.
  induction rts as [|rt rts IH]; cbn [map add_to_rates].
  - rewrite <- (new_rt_negate c cb) at 1. rewrite rt_add_base_negate. reflexivity.
  - rewrite rt_matches_negate. destruct (rt_matches rt cb); cbn [map]; [rewrite rt_add_base_negate; reflexivity|].
    rewrite IH. reflexivity.
Qed.

Lemma add_to_cats_negate cr c tot cb cts :
  add_to_cats cr c (negate tot) cb (map ct_negate cts) = map ct_negate (add_to_cats cr c tot cb cts).
Proof.
  induction cts as [|ct cts IH]; cbn [map add_to_cats].
  - unfold ct_with_rates, new_ct, ct_negate. cbn [ct_code ct_retained ct_rates ct_amount ct_surcharge ct_precise].
    rewrite <- (add_to_rates_negate cr c tot cb []). reflexivity.
  - cbn [ct_negate ct_code]. destruct (eqb_bytes (ct_code ct) (cb_cat cb)); cbn [map].
    + unfold ct_with_rates, ct_negate. cbn [ct_code ct_retained ct_rates ct_amount ct_surcharge ct_precise].
      rewrite add_to_rates_negate. reflexivity.
    + rewrite IH. reflexivity.
Qed.

Lemma add_tl_negate cr c cts tl : add_tl cr c (map ct_negate cts) (tl_neg tl) = map ct_negate (add_tl cr c cts tl).
Proof.
  unfold add_tl, tl_neg. cbn [tl_total tl_taxes]. generalize (tl_taxes tl) as cbs. intros cbs. revert cts.
  induction cbs as [|cb cbs IH]; intros cts; cbn [fold_left]; [reflexivity|].
  rewrite add_to_cats_negate. apply IH.
Qed.

Lemma base_totals_negate cr c tls : base_totals cr c (map tl_neg tls) = map ct_negate (base_totals cr c tls).
Proof.
  unfold base_totals. change (@nil cat_total) with (map ct_negate []) at 1. generalize (@nil cat_total) as cts.
  induction tls as [|tl tls IH]; intros cts; cbn [map fold_left]; [reflexivity|].
  rewrite add_tl_negate. apply IH.
Qed.

(* ---------------- amounts per group / category ---------------- *)
Lemma rt_calc_negate c rt : rt_calc c (rt_negate rt) = rt_negate (rt_calc c rt).
Proof.
  unfold rt_calc, rt_negate. cbn [rt_key rt_country rt_ext rt_pct rt_sur rt_base rt_amount rt_suramount].
  destruct (rt_pct rt) as [p|]; cbn [rt_key rt_country rt_ext rt_pct rt_sur rt_base rt_amount rt_suramount].
  - rewrite pct_of_negate. destruct (rt_sur rt) as [s|]; [rewrite pct_of_negate|]; reflexivity.
  - reflexivity.
Qed.

Lemma ct_step_negate cr c st rt :
  ct_step cr c (negate (fst st), oneg (snd st)) (rt_negate rt) =
  (negate (fst (ct_step cr c st rt)), oneg (snd (ct_step cr c st rt))).
Proof.
  unfold ct_step. cbn [rt_negate rt_pct rt_sur rt_amount rt_suramount fst snd].
  destruct (rt_pct rt) as [p|]; [|reflexivity].
  cbn [fst snd]. rewrite acc_rr_negate.
  destruct (rt_sur rt) as [s|]; [|reflexivity].
  cbn [fst snd oneg option_map]. f_equal. f_equal.
  destruct (snd st) as [x|]; cbn [oneg option_map].
  - apply acc_rr_negate.
  - rewrite <- (negate_zero c) at 1. apply acc_rr_negate.
Qed.

Lemma fold_ct_step_negate cr c rts : forall st,
  fold_left (ct_step cr c) (map rt_negate rts) (negate (fst st), oneg (snd st)) =
  (negate (fst (fold_left (ct_step cr c) rts st)), oneg (snd (fold_left (ct_step cr c) rts st))).
Proof.
  induction rts as [|rt rts IH]; intros st; cbn [map fold_left]; [reflexivity|].
  rewrite ct_step_negate. apply (IH (ct_step cr c st rt)).
Qed.

Lemma ct_calc_negate cr c ct : ct_calc cr c (ct_negate ct) = ct_negate (ct_calc cr c ct).
Proof.
  unfold ct_calc. cbn [ct_negate ct_code ct_retained ct_rates].
  assert (E : map (rt_calc c) (map rt_negate (ct_rates ct)) = map rt_negate (map (rt_calc c) (ct_rates ct))).
  { rewrite !map_map. apply map_ext. intros rt. apply rt_calc_negate. }
  rewrite E.
  pose proof (fold_ct_step_negate cr c (map (rt_calc c) (ct_rates ct)) (zero_of c, None)) as F.
  cbn [fst snd oneg option_map] in F. rewrite negate_zero in F. rewrite F.
  unfold ct_negate. cbn [ct_code ct_retained ct_rates ct_amount ct_surcharge ct_precise fst snd]. reflexivity.
Qed.

Lemma sum_step_negate cr s ct : sum_step cr (negate s) (ct_negate ct) = negate (sum_step cr s ct).
Proof.
  unfold sum_step. cbn [ct_negate ct_amount ct_retained ct_surcharge].
  assert (M : match_rr cr (negate s) (negate (ct_amount ct)) = negate (match_rr cr s (ct_amount ct))).
  { unfold match_rr. destruct cr; [reflexivity|apply match_precision_negate]. }
  rewrite M. destruct (ct_retained ct); destruct (ct_surcharge ct) as [x|]; cbn [option_map];
    rewrite ?sub_negate, ?add_negate; reflexivity.
Qed.

Lemma fold_sum_step_negate cr cts : forall s,
  fold_left (sum_step cr) (map ct_negate cts) (negate s) = negate (fold_left (sum_step cr) cts s).
Proof. induction cts as [|ct cts IH]; intros s; cbn [map fold_left]; [reflexivity|]. rewrite sum_step_negate. apply IH. Qed.

Lemma rt_round_negate c rt : rt_round c (rt_negate rt) = rt_negate (rt_round c rt).
Proof. unfold rt_round, rt_negate. cbn [rt_key rt_country rt_ext rt_pct rt_sur rt_base rt_amount rt_suramount]. rewrite !rescale_negate. reflexivity. Qed.

Lemma ct_round_negate c ct : ct_round c (ct_negate ct) = ct_negate (ct_round c ct).
Proof.
  unfold ct_round, ct_negate. cbn [ct_code ct_retained ct_rates ct_amount ct_surcharge ct_precise].
  rewrite rescale_negate. f_equal.
  - rewrite !map_map. apply map_ext. intros rt. apply rt_round_negate.
  - destruct (ct_surcharge ct) as [s|]; cbn [option_map]; [rewrite rescale_negate|]; reflexivity.
Qed.

Lemma find_cat_negate code cts : find_cat code (map ct_negate cts) = option_map ct_negate (find_cat code cts).
Proof.
  induction cts as [|ct cts IH]; cbn [map find_cat]; [reflexivity|].
  cbn [ct_negate ct_code]. destruct (eqb_bytes (ct_code ct) code); [reflexivity|exact IH].
Qed.

(* ---------------- payment rows ---------------- *)
Lemma advance_amount_negate c twt r : advance_amount c (negate twt) (prow_neg r) = negate (advance_amount c twt r).
Proof.
  unfold advance_amount, prow_neg. cbn [pr_pct pr_amount]. rewrite <- rescale_up_negate. f_equal.
  destruct (pr_pct r); [apply pct_of_negate|reflexivity].
Qed.

Lemma due_amount_negate c pay r : due_amount c (negate pay) (prow_neg r) = negate (due_amount c pay r).
Proof.
  unfold due_amount, prow_neg. cbn [pr_pct pr_amount]. rewrite <- rescale_negate. f_equal.
  destruct (opt_nonzero (pr_pct r)); [apply pct_of_negate|reflexivity].
Qed.

(* ---------------- the whole calculation ---------------- *)
Lemma map_lc_total_neg lcs : map lc_total (map lc_neg lcs) = map negate (map lc_total lcs).
Proof. rewrite !map_map. reflexivity. Qed.

Lemma map_present_neg lcs : map present_line (map lc_neg lcs) = map lo_neg (map present_line lcs).
Proof. rewrite !map_map. apply map_ext. intros lc. apply present_line_negate. Qed.

Lemma tl_neg_nil tls : map tl_neg tls = [] -> tls = [].
Proof. destruct tls; [reflexivity|discriminate]. Qed.

Lemma oneg_rescale o c :
  match oneg o with Some a => Some (rescale a c) | None => None end =
  oneg (match o with Some a => Some (rescale a c) | None => None end).
Proof. destruct o; cbn [oneg option_map]; [rewrite rescale_negate|]; reflexivity. Qed.

Theorem calculate_negate d : calculate (neg_doc d) = result_neg (calculate d).
Proof.
  unfold calculate, neg_doc.
  cbn [d_c d_currency_rule d_pit d_cur d_lines d_discounts d_charges d_rates d_advances d_dues d_rounding].
  set (c := d_c d). set (cr := d_currency_rule d).
  rewrite calc_lines_negate.
  destruct (calc_lines cr c (d_cur d) (d_rates d) (d_lines d)) as [lcs|]; cbn [option_map]; [|reflexivity].
  rewrite map_lc_total_neg.
  change (fold_left acc (map negate (map lc_total lcs)) (zero_of c)) with (fold_left acc (map negate (map lc_total lcs)) (negate (zero_of c))).
  rewrite fold_acc_negate.
  set (sum := fold_left acc (map lc_total lcs) (zero_of c)).
  rewrite !ddc_rows_negate.
  set (dds := map (fun x => (x, ddc_amount cr c sum x)) (d_discounts d)).
  set (ccs := map (fun x => (x, ddc_amount cr c sum x)) (d_charges d)).
  rewrite !map_snd_pair_neg, !sum_opt_negate.
  set (discount := sum_opt c (map snd dds)). set (charge := sum_opt c (map snd ccs)).
  rewrite tax_lines_negate.
  set (total0 := match discount with Some x => sub sum x | None => sum end).
  assert (E0 : match oneg discount with Some x => sub (negate sum) x | None => negate sum end = negate total0).
  { unfold total0. destruct discount; cbn [oneg option_map]; [apply sub_negate|reflexivity]. }
  rewrite E0.
  set (total1 := match charge with Some x => add total0 x | None => total0 end).
  assert (E1 : match oneg charge with Some x => add (negate total0) x | None => negate total0 end = negate total1).
  { unfold total1. destruct charge; cbn [oneg option_map]; [apply add_negate|reflexivity]. }
  rewrite E1.
  destruct (tax_lines lcs (d_lines d) dds ccs) as [|tl0 tls0] eqn:ETL.
  { cbn [map result_neg]. rewrite map_present_neg. reflexivity. }
  destruct (map tl_neg (tl0 :: tls0)) as [|x xs] eqn:EM; [discriminate EM|]. cbv iota. rewrite <- EM. clear EM x xs.
  assert (EP : map (prepare_tl c) (map tl_neg (tl0 :: tls0)) = map tl_neg (map (prepare_tl c) (tl0 :: tls0))).
  { rewrite !map_map. apply map_ext. intros tl. apply prepare_tl_negate. }
  rewrite EP, remove_included_all_negate.
  destruct (remove_included_all (d_pit d) (map (prepare_tl c) (tl0 :: tls0))) as [tls2|]; cbn [option_map]; [|reflexivity].
  rewrite base_totals_negate.
  assert (EC : map (ct_calc cr c) (map ct_negate (base_totals cr c tls2)) = map ct_negate (map (ct_calc cr c) (base_totals cr c tls2))).
  { rewrite !map_map. apply map_ext. intros ct. apply ct_calc_negate. }
  rewrite EC. set (cats0 := map (ct_calc cr c) (base_totals cr c tls2)).
  change (fold_left (sum_step cr) (map ct_negate cats0) (zero_of c)) with (fold_left (sum_step cr) (map ct_negate cats0) (negate (zero_of c))).
  rewrite fold_sum_step_negate.
  set (taxsum := fold_left (sum_step cr) cats0 (zero_of c)).
  assert (ER : map (ct_round c) (map ct_negate cats0) = map ct_negate (map (ct_round c) cats0)).
  { rewrite !map_map. apply map_ext. intros ct. apply ct_round_negate. }
  rewrite ER. set (cats := map (ct_round c) cats0).
  rewrite !rescale_negate, !precise_or_negate.
  set (included := match d_pit d with
                   | [] => None
                   | _ :: _ => match find_cat (d_pit d) cats with
                               | Some ct => Some (precise_or (ct_precise ct) (ct_amount ct))
                               | None => None
                               end
                   end).
  assert (EI : match d_pit d with
               | [] => None
               | _ :: _ => match find_cat (d_pit d) (map ct_negate cats) with
                           | Some ct => Some (precise_or (ct_precise ct) (ct_amount ct))
                           | None => None
                           end
               end = oneg included).
  { unfold included. destruct (d_pit d); [reflexivity|]. rewrite find_cat_negate.
    destruct (find_cat _ cats) as [ct|]; cbn [option_map oneg]; [|reflexivity].
    cbn [ct_negate ct_precise ct_amount]. rewrite precise_or_negate. reflexivity. }
  rewrite EI.
  set (total := match included with Some ti => sub total1 ti | None => total1 end).
  assert (ET : match oneg included with Some ti => sub (negate total1) ti | None => negate total1 end = negate total).
  { unfold total. destruct included; cbn [oneg option_map]; [apply sub_negate|reflexivity]. }
  rewrite ET. rewrite add_negate.
  set (tax := precise_or taxsum (rescale taxsum c)). set (twt := add total tax).
  rewrite (oneg_rescale (d_rounding d) c).
  set (rounding := match d_rounding d with Some r => Some (rescale r c) | None => None end).
  set (payable := match rounding with Some r => add twt r | None => twt end).
  assert (EPay : match oneg rounding with Some r => add (negate twt) r | None => negate twt end = negate payable).
  { unfold payable. destruct rounding; cbn [oneg option_map]; [apply add_negate|reflexivity]. }
  rewrite EPay.
  assert (EA : map (advance_amount c (negate twt)) (map prow_neg (d_advances d)) = map negate (map (advance_amount c twt) (d_advances d))).
  { rewrite !map_map. apply map_ext. intros r. apply advance_amount_negate. }
  rewrite EA. set (advs := map (advance_amount c twt) (d_advances d)).
  rewrite sum_opt_negate. set (advances := sum_opt c advs).
  assert (ED : map (due_amount c (negate payable)) (map prow_neg (d_dues d)) = map negate (map (due_amount c payable) (d_dues d))).
  { rewrite !map_map. apply map_ext. intros r. apply due_amount_negate. }
  rewrite ED.
  cbn [result_neg]. unfold totals_neg.
  cbn [t_lines t_sum t_discount t_charge t_tax_included t_total t_tax t_twt t_payable t_advances t_due t_dd t_cc t_adv_rows t_dues t_cats t_taxsum t_taxsum_precise t_rounding].
  rewrite map_present_neg, !present_ddcs_negate, !rescale_negate.
  f_equal. f_equal; try reflexivity;
    try apply oneg_rescale;
    try (destruct included; cbn [oneg option_map]; rewrite ?rescale_negate; reflexivity);
    try (destruct advances; cbn [oneg option_map]; rewrite ?sub_negate, ?rescale_negate; reflexivity);
    try (rewrite !map_map; apply map_ext; intros a; apply rescale_negate).
Qed.

(* ---------------- negating twice ---------------- *)
Lemma oneg_involutive o : oneg (oneg o) = o.
Proof. destruct o as [a|]; cbn [oneg option_map]; [rewrite negate_involutive|]; reflexivity. Qed.

Lemma map_involutive {A} (f : A -> A) : (forall x, f (f x) = x) -> forall l, map f (map f l) = l.
Proof. intros H l. rewrite map_map. rewrite <- (map_id l) at 2. apply map_ext. exact H. Qed.

Lemma ldc_neg_involutive x : ldc_neg (ldc_neg x) = x.
Proof. destruct x as [a p b r q]. unfold ldc_neg. cbn [ld_amount ld_pct ld_base ld_rate ld_qty]. rewrite negate_involutive, !oneg_involutive. reflexivity. Qed.

Lemma line_neg_involutive l : line_neg (line_neg l) = l.
Proof.
  destruct l as [q it br ds cs tx]. unfold line_neg. cbn [ln_qty ln_item ln_breakdown ln_discounts ln_charges ln_taxes].
  rewrite negate_involutive, !(map_involutive ldc_neg ldc_neg_involutive). reflexivity.
Qed.

Lemma ddc_neg_involutive x : ddc_neg (ddc_neg x) = x.
Proof. destruct x as [a p b t]. unfold ddc_neg. cbn [dd_amount dd_pct dd_base dd_taxes]. rewrite negate_involutive, oneg_involutive. reflexivity. Qed.

Lemma prow_neg_involutive r : prow_neg (prow_neg r) = r.
Proof. destruct r as [a p]. unfold prow_neg. cbn [pr_amount pr_pct]. rewrite negate_involutive. reflexivity. Qed.

Theorem neg_doc_involutive d : neg_doc (neg_doc d) = d.
Proof.
  destruct d as [c cr pit cur ls dd cc rates adv dues rnd]. unfold neg_doc.
  cbn [d_c d_currency_rule d_pit d_cur d_lines d_discounts d_charges d_rates d_advances d_dues d_rounding].
  rewrite (map_involutive line_neg line_neg_involutive), !(map_involutive ddc_neg ddc_neg_involutive),
          !(map_involutive prow_neg prow_neg_involutive), oneg_involutive. reflexivity.
Qed.

(* ---------------- Invoice.Invert ---------------- *)
(* Invert negates everything neg_doc negates except the due-date amounts (which do not enter
   payable) and drops the external rounding; the calculation reads the due rows only to present them *)
Definition with_dues (d : doc) (ds : list prow) : doc :=
  mkDoc (d_c d) (d_currency_rule d) (d_pit d) (d_cur d) (d_lines d) (d_discounts d) (d_charges d)
        (d_rates d) (d_advances d) ds (d_rounding d).

Definition drop_dues (r : calc_result) : calc_result :=
  match r with
  | Totals t => Totals (mkTotals (t_lines t) (t_sum t) (t_discount t) (t_charge t) (t_tax_included t) (t_total t)
                                 (t_tax t) (t_twt t) (t_payable t) (t_advances t) (t_due t) (t_dd t) (t_cc t)
                                 (t_adv_rows t) [] (t_cats t) (t_taxsum t) (t_taxsum_precise t) (t_rounding t))
  | r0 => r0
  end.

Lemma calculate_dues_only_presented d ds : drop_dues (calculate (with_dues d ds)) = drop_dues (calculate d).
Proof.
  unfold calculate, with_dues.
  cbn [d_c d_currency_rule d_pit d_cur d_lines d_discounts d_charges d_rates d_advances d_dues d_rounding].
  destruct (calc_lines _ _ _ _ _) as [lcs|]; [|reflexivity].
  destruct (tax_lines _ _ _ _) as [|tl tls]; [reflexivity|].
  destruct (remove_included_all _ _) as [tls2|]; reflexivity.
Qed.

Lemma invert_doc_as_neg d : invert_doc d = with_dues (neg_doc d) (d_dues d).
Proof. reflexivity. Qed.

(* recalculating the inverted document gives exactly the negated figures (due rows aside) *)
Theorem invert_doc_negates d :
  drop_dues (calculate (invert_doc d)) = drop_dues (result_neg (calculate d)).
Proof.
  rewrite (invert_doc_as_neg d), calculate_dues_only_presented, calculate_negate. reflexivity.
Qed.

(* hence Invert succeeds - its payable check passes - whenever re-reading the calculated document
   is a fixpoint for payable (C04; refuted only for fixed amounts with excess decimals) *)
Theorem invert_succeeds d t0 d1 t1 :
  calculate d = Totals t0 -> as_input d = Some d1 ->
  calculate d1 = Totals t1 -> t_payable t1 = t_payable t0 ->
  exists t2, invert d = Inverted t2 /\ drop_dues (Totals t2) = drop_dues (Totals (totals_neg t1)).
Proof.
  intros H0 HA H1 HP. unfold invert. rewrite H0, HA.
  pose proof (invert_doc_negates d1) as E. rewrite H1 in E. cbn [result_neg] in E.
  destruct (calculate (invert_doc d1)) as [|ls|t2] eqn:E2; cbn [drop_dues] in E; try discriminate.
  exists t2.
  assert (P2 : t_payable t2 = negate (t_payable t1)).
  { inversion E. reflexivity. }
  rewrite P2, HP. unfold equals.
  assert (C : compare (negate (t_payable t0)) (negate (t_payable t0)) = 0).
  { apply compare_spec. reflexivity. }
  rewrite C. cbn. split; [reflexivity|exact E].
Qed.
