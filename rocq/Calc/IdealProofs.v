(* C01 - the calculation model refines the declarative specification Calc/Ideal.v:
   every figure computed by Calc.calculate denotes exactly the ideal figure and is held at the
   documented number of decimals. *)
From Coq Require Import ZArith QArith Qabs Lia Lqa List Bool ZifyBool ZifyNat Setoid Morphisms.
From Verif Require Import Base.Wire Base.Rha Base.RhaProofs Num.Amount Num.AmountProofs Calc.Doc Calc.Calc
  Calc.TaxProofs Calc.ExpLemmas Calc.BoundProofs Calc.Ideal.
Import ListNotations.
Open Scope Q_scope.

(* ------------------------------------------------------------------------------------------ *)
(* amounts denote figures                                                                      *)
(* ------------------------------------------------------------------------------------------ *)
Definition den (a : amount) (f : fig) : Prop := toQ a == fq f /\ exp a = fp f.

Lemma rnd_compat e q q' : q == q' -> rnd e q = rnd e q'.
Proof. intros H. unfold rnd. rewrite (roundQ_compat e q q' H). reflexivity. Qed.

#[global] Instance rnd_proper : Proper (eq ==> Qeq ==> Qeq) rnd.
Proof. intros e e' <- q q' H. rewrite (rnd_compat e q q' H). reflexivity. Qed.

Lemma toQ_mk v e : toQ (mkA v e) = v # Z.to_pos (pow10 e).
Proof. reflexivity. Qed.

Lemma toQ_rescale a e : toQ (rescale a e) = rnd e (toQ a).
Proof. unfold toQ at 1. rewrite rescale_exp, rescale_val. reflexivity. Qed.

Lemma toQ_mul a b : toQ (mul a b) = rnd (exp a) (toQ a * toQ b).
Proof. unfold toQ at 1. rewrite mul_exp, mul_val. reflexivity. Qed.

Lemma Qmake_plus_same x y d : (x + y # d) == (x # d) + (y # d).
Proof. unfold Qeq, Qplus. cbn [Qnum Qden]. rewrite Pos2Z.inj_mul. ring. Qed.

Lemma Qmake_minus_same x y d : (x - y # d) == (x # d) - (y # d).
Proof. unfold Qeq, Qminus, Qplus, Qopp. cbn [Qnum Qden]. rewrite Pos2Z.inj_mul. ring. Qed.

Lemma toQ_add a b : toQ (add a b) == toQ a + rnd (exp a) (toQ b).
Proof. unfold toQ at 1. rewrite add_exp, add_val_impl. apply Qmake_plus_same. Qed.

Lemma toQ_sub a b : toQ (sub a b) == toQ a - rnd (exp a) (toQ b).
Proof.
  unfold toQ at 1. unfold sub. cbn [val exp]. rewrite rescale_val. apply Qmake_minus_same.
Qed.

(* division: also by zero (Coq's x / 0 = 0 and the model's rhaS n 0 = 0 agree) *)
Lemma div_val_all a b : val (div a b) = roundQ (exp a) (toQ a / toQ b).
Proof.
  destruct (Z.eq_dec (val b) 0) as [E|N]; [|apply div_val, N].
  unfold div, roundQ, Qdiv, Qmult, Qinv, toQ. cbn [val Qnum Qden]. rewrite E. cbn [Qnum Qden].
  unfold rhaS. cbn [Z.ltb Z.compare]. rewrite !Z.mul_0_r, Z.mul_0_l.
  unfold rha. cbn [Z.leb Z.compare Z.mul Z.add]. symmetry. apply Z.div_small. lia.
Qed.

Lemma toQ_div a b : toQ (div a b) = rnd (exp a) (toQ a / toQ b).
Proof. unfold toQ at 1. rewrite div_exp, div_val_all. reflexivity. Qed.

Lemma den_of_amount a : den a (of_amount a).
Proof. split; reflexivity. Qed.

Lemma den_rescale a f e : den a f -> den (rescale a e) (mkF (rnd e (fq f)) e).
Proof. intros [H1 H2]. split; cbn [fq fp]; [rewrite toQ_rescale, H1; reflexivity|apply rescale_exp]. Qed.

Lemma den_rescale_up a f e : den a f -> den (rescale_up a e) (raise e f).
Proof.
  intros [H1 H2]. split; cbn [fq fp raise]; [rewrite rescale_up_toQ; exact H1|rewrite rescale_up_exp, H2; reflexivity].
Qed.

Lemma den_mul a f b q : den a f -> toQ b == q -> den (mul a b) (prod rnd f q).
Proof.
  intros [H1 H2] Hb. split; cbn [fq fp prod]; [|rewrite mul_exp; exact H2].
  rewrite toQ_mul, H2, H1, Hb. reflexivity.
Qed.

Lemma den_apply_rr cr c a f : den a f -> den (apply_rr cr c a) (settle rnd cr c f).
Proof.
  intros H. unfold apply_rr, settle. destruct cr; [apply den_rescale, H|apply den_rescale_up, H].
Qed.

Lemma den_negate a f : den a f -> den (negate a) (fneg f).
Proof. intros [H1 H2]. split; cbn [fq fp fneg]; [rewrite negate_toQ, H1; reflexivity|exact H2]. Qed.

Lemma is_zero_Qeq_bool q : is_zero q = Qeq_bool (toQ q) 0.
Proof.
  unfold is_zero, Qeq_bool, toQ. cbn [Qnum Qden]. rewrite Z.mul_1_r. cbn.
  destruct (val q); reflexivity.
Qed.

Lemma opt_nonzero_spec p :
  match opt_nonzero p, nonzero_pct p with
  | Some q, Some x => toQ q = x
  | None, None => True
  | _, _ => False
  end.
Proof.
  unfold opt_nonzero, nonzero_pct. destruct p as [q|]; [|exact I].
  rewrite is_zero_Qeq_bool. destruct (Qeq_bool (toQ q) 0); [exact I|reflexivity].
Qed.

(* ------------------------------------------------------------------------------------------ *)
(* item price                                                                                  *)
(* ------------------------------------------------------------------------------------------ *)
Definition oden (o : option amount) (f : option fig) : Prop :=
  match o, f with Some a, Some g => den a g | None, None => True | _, _ => False end.

Lemma item_price_refines it cur c rates :
  oden (item_price it cur c rates) (s_item_price rnd c cur rates it).
Proof.
  unfold item_price, s_item_price. destruct (it_cur it) as [[ic isub]|].
  - destruct (ic =? cur)%Z.
    + apply den_rescale_up, den_of_amount.
    + destruct (find_alt cur (it_alts it)) as [v|].
      * apply den_rescale_up, den_of_amount.
      * destruct (find_rate ic cur rates) as [r|]; [|exact I].
        cbn [oden]. apply (den_rescale _ (prod rnd (raise c (raise isub (of_amount (it_price it)))) (toQ r))).
        apply den_mul; [|reflexivity]. unfold match_precision. cbn [exp zero_of].
        apply den_rescale_up, den_rescale_up, den_of_amount.
  - apply den_rescale_up, den_of_amount.
Qed.

(* a price converted by an exchange rate, written with no more decimals than the document's
   currency (and in a currency of no more decimals): the exact product price x rate rounded ONCE,
   to the currency's decimals (ExchangeRate.Convert as repaired; before, the product was first
   rounded to the decimals of the price: JPY 1550 x 0.0062 gave 10.00 EUR instead of 9.61) *)
Lemma converted_price_rounded_once it cur c rates ic isub r :
  it_cur it = Some (ic, isub) -> (ic =? cur)%Z = false -> find_alt cur (it_alts it) = None ->
  find_rate ic cur rates = Some r -> (exp (it_price it) <= c)%nat -> (isub <= c)%nat ->
  exists p, item_price it cur c rates = Some p /\ exp p = c /\ toQ p == rnd c (toQ (it_price it) * toQ r).
Proof.
  intros Hc Hne Ha Hr He Hs. unfold item_price. rewrite Hc, Hne, Ha, Hr.
  set (P := match_precision (rescale_up (it_price it) isub) (zero_of c)).
  assert (EP : exp P = c).
  { unfold P, match_precision. cbn [exp zero_of]. rewrite !rescale_up_exp. lia. }
  assert (QP : toQ P == toQ (it_price it)).
  { unfold P, match_precision. rewrite !rescale_up_toQ. reflexivity. }
  eexists. split; [reflexivity|]. split; [apply rescale_exp|].
  rewrite rescale_same by (rewrite mul_exp; exact EP).
  rewrite toQ_mul, EP. rewrite (rnd_compat c (toQ P * toQ r) (toQ (it_price it) * toQ r)); [reflexivity|].
  rewrite QP. reflexivity.
Qed.

(* ... and the hypothesis on the decimals of the price is needed: a price with MORE decimals than
   the currency is still rounded twice (at its own decimals, then to the currency's):
   0.0999 x 0.05 = 0.004995 -> 0.0050 -> 0.01, rounded once 0.00 *)
Lemma converted_price_rounded_once_beyond_currency_decimals_refuted :
  exists it cur c rates ic isub r p,
    it_cur it = Some (ic, isub) /\ (ic =? cur)%Z = false /\ find_alt cur (it_alts it) = None /\
    find_rate ic cur rates = Some r /\ (isub <= c)%nat /\
    item_price it cur c rates = Some p /\ ~ toQ p == rnd c (toQ (it_price it) * toQ r).
Proof.
  exists (mkItem (mkA 999 4) (Some (2%Z, 2%nat)) []), 1%Z, 2%nat, [mkXrate 2 1 (mkA 5 2)], 2%Z, 2%nat, (mkA 5 2).
  eexists. do 4 (split; [reflexivity|]). split; [cbn; lia|]. split; [vm_compute; reflexivity|].
  vm_compute. discriminate.
Qed.

(* ------------------------------------------------------------------------------------------ *)
(* line discounts and charges                                                                  *)
(* ------------------------------------------------------------------------------------------ *)
Lemma fig_eq f g : fq f = fq g -> fp f = fp g -> f = g.
Proof. destruct f, g. cbn. intros -> ->. reflexivity. Qed.

Lemma den_base cr c b : den (apply_rr cr c (rescale_up (rescale_up b c) (c + line_precision_extra))) (s_base rnd cr c b).
Proof.
  unfold s_base, line_precision_extra. destruct cr.
  - unfold apply_rr. split; cbn [fq fp]; [|apply rescale_exp].
    rewrite toQ_rescale, !rescale_up_toQ. reflexivity.
  - unfold apply_rr. split; cbn [fq fp raise of_amount].
    + rewrite !rescale_up_toQ. reflexivity.
    + rewrite !rescale_up_exp. lia.
Qed.

Lemma den_base2 cr c b : den (apply_rr cr c (rescale_up b (c + line_precision_extra))) (s_base rnd cr c b).
Proof.
  unfold s_base, line_precision_extra. destruct cr.
  - unfold apply_rr. split; cbn [fq fp]; [|apply rescale_exp].
    rewrite toQ_rescale, !rescale_up_toQ. reflexivity.
  - unfold apply_rr. split; cbn [fq fp raise of_amount].
    + rewrite !rescale_up_toQ. reflexivity.
    + rewrite !rescale_up_exp. lia.
Qed.

(* rate x quantity keeps every decimal: the product is exact *)
Lemma rate_times_exact r q : rate_times r q = mkA (val r * val q) (exp r + exp q).
Proof.
  unfold rate_times, mul. rewrite rescale_up_exp.
  replace (Nat.max (exp r) (exp r + exp q)) with (exp r + exp q)%nat by lia. f_equal.
  unfold rescale_up. destruct (Nat.ltb (exp r) (exp r + exp q)) eqn:E.
  - rewrite rescale_up_val by lia. replace (exp r + exp q - exp r)%nat with (exp q) by lia.
    apply rha_exact; [apply pow10_pos|ring].
  - apply Nat.ltb_ge in E. assert (Z0 : exp q = 0%nat) by lia. rewrite Z0, pow10_0, rha_1. reflexivity.
Qed.

Lemma den_rate_times r q fqty : den q fqty -> den (rate_times r q) (mkF (toQ r * fq fqty) (exp r + fp fqty)).
Proof.
  intros [H1 H2]. rewrite rate_times_exact. split; cbn [fq fp exp]; [|rewrite H2; reflexivity].
  rewrite <- H1. unfold toQ, Qeq, Qmult. cbn [val exp Qnum Qden].
  rewrite Pos2Z.inj_mul, !pos_pow10, pow10_add. ring.
Qed.

Lemma ldc_amount_refines cr c sum fs qty q ch d : den sum fs -> den qty q ->
  den (ldc_amount cr c sum qty ch d) (s_row rnd cr c fs q ch d).
Proof.
  intros Hs Hq. unfold ldc_amount, s_row. apply den_apply_rr.
  assert (A1 : den (match opt_nonzero (ld_pct d) with
                    | Some p => pct_of p (ldc_base cr c sum (ld_base d))
                    | None => ld_amount d end)
                   (match nonzero_pct (ld_pct d) with
                    | Some p => prod rnd (match ld_base d with None => fs | Some b => s_base rnd cr c b end) p
                    | None => of_amount (ld_amount d) end)).
  { pose proof (opt_nonzero_spec (ld_pct d)) as N.
    destruct (opt_nonzero (ld_pct d)) as [p|]; destruct (nonzero_pct (ld_pct d)) as [x|]; try contradiction.
    - unfold pct_of. apply den_mul; [|rewrite N; reflexivity].
      unfold ldc_base. destruct (ld_base d) as [b|]; [apply den_base|exact Hs].
    - apply den_of_amount. }
  destruct ch; [|exact A1].
  destruct (ld_rate d) as [r|]; [|exact A1].
  apply den_rate_times. destruct (ld_qty d); [apply den_of_amount|exact Hq].
Qed.

Lemma ldc_amounts_refines cr c sum fs qty q ch ds : den sum fs -> den qty q ->
  Forall2 den (ldc_amounts cr c sum qty ch ds) (map (s_row rnd cr c fs q ch) ds).
Proof.
  intros Hs Hq. unfold ldc_amounts. induction ds as [|d r IH]; cbn [map]; constructor; [|exact IH].
  apply ldc_amount_refines; assumption.
Qed.

(* total = sum - discounts + charges *)
Lemma sub_all_toQ xs : forall fxs t, Forall2 den xs fxs ->
  toQ (sub_all t xs) == toQ t - sumQl (map (fun x => rnd (exp t) (fq x)) fxs) /\ exp (sub_all t xs) = exp t.
Proof.
  unfold sub_all. induction xs as [|x r IH]; intros fxs t F; inversion F as [|? fx ? fr Hx Hr]; subst;
    cbn [fold_left map sumQl fold_right].
  - split; [ring|reflexivity].
  - destruct (IH fr (sub t x) Hr) as [E1 E2]. split; [|rewrite E2; reflexivity].
    rewrite E1, toQ_sub. cbn [sub exp]. destruct Hx as [Hx _]. rewrite Hx.
    fold (sumQl (map (fun x0 => rnd (exp t) (fq x0)) fr)). ring.
Qed.

Lemma add_all_toQ xs : forall fxs t, Forall2 den xs fxs ->
  toQ (add_all t xs) == toQ t + sumQl (map (fun x => rnd (exp t) (fq x)) fxs) /\ exp (add_all t xs) = exp t.
Proof.
  unfold add_all. induction xs as [|x r IH]; intros fxs t F; inversion F as [|? fx ? fr Hx Hr]; subst;
    cbn [fold_left map sumQl fold_right].
  - split; [ring|reflexivity].
  - destruct (IH fr (add t x) Hr) as [E1 E2]. split; [|rewrite E2; reflexivity].
    rewrite E1, toQ_add. cbn [add exp]. destruct Hx as [Hx _]. rewrite Hx.
    fold (sumQl (map (fun x0 => rnd (exp t) (fq x0)) fr)). ring.
Qed.

Lemma total_refines sum fs ds fds cs fcs : den sum fs -> Forall2 den ds fds -> Forall2 den cs fcs ->
  den (add_all (sub_all sum ds) cs) (s_total rnd fs fds fcs).
Proof.
  intros [H1 H2] Fd Fc.
  destruct (sub_all_toQ ds fds sum Fd) as [S1 S2].
  destruct (add_all_toQ cs fcs (sub_all sum ds) Fc) as [A1 A2].
  split; cbn [fq fp s_total].
  - rewrite A1, S1, S2, H1, H2. reflexivity.
  - rewrite A2, S2. exact H2.
Qed.

(* ------------------------------------------------------------------------------------------ *)
(* sub-lines and lines                                                                         *)
(* ------------------------------------------------------------------------------------------ *)
Definition orel {A B} (P : A -> B -> Prop) (x : option A) (y : option B) : Prop :=
  match x, y with Some a, Some b => P a b | None, None => True | _, _ => False end.

Definition sub_den (s : sub_calc) (f : isub) : Prop :=
  den (sc_price s) (is_price f) /\ den (sc_sum s) (is_sum f) /\ den (sc_total s) (is_total f) /\
  Forall2 den (sc_ds s) (is_ds f) /\ Forall2 den (sc_cs s) (is_cs f).

Definition line_den (l : line_calc) (f : iline) : Prop :=
  den (lc_price l) (il_price f) /\ den (lc_sum l) (il_sum f) /\ den (lc_total l) (il_total f) /\
  Forall2 den (lc_ds l) (il_ds f) /\ Forall2 den (lc_cs l) (il_cs f) /\
  Forall2 sub_den (lc_subs l) (il_subs f).

Lemma calc_sub_refines cr c cur rates sl :
  orel sub_den (calc_sub cr c cur rates sl) (s_sub rnd cr c cur rates sl).
Proof.
  unfold calc_sub, s_sub. pose proof (item_price_refines (sl_item sl) cur c rates) as P.
  destruct (item_price _ _ _ _) as [sp|]; destruct (s_item_price _ _ _ _ _) as [fsp|]; try contradiction; [|exact I].
  cbn [oden] in P. cbn [orel].
  assert (S : den (apply_rr cr c (mul (if cr then sp else rescale_up sp (c + line_precision_extra)) (sl_qty sl)))
                  (settle rnd cr c (prod rnd (if cr then fsp else raise (c + 2) fsp) (toQ (sl_qty sl))))).
  { apply den_apply_rr, den_mul; [|reflexivity]. destruct cr; [exact P|apply den_rescale_up, P]. }
  unfold sub_den. cbn [sc_price sc_sum sc_total sc_ds sc_cs is_price is_sum is_total is_ds is_cs].
  split; [exact P|]. split; [exact S|].
  assert (D : forall ch xs, Forall2 den
     (ldc_amounts cr c (apply_rr cr c (mul (if cr then sp else rescale_up sp (c + line_precision_extra)) (sl_qty sl))) (sl_qty sl) ch xs)
     (map (s_row rnd cr c (settle rnd cr c (prod rnd (if cr then fsp else raise (c + 2) fsp) (toQ (sl_qty sl)))) (of_amount (sl_qty sl)) ch) xs)).
  { intros ch xs. apply ldc_amounts_refines; [exact S|apply den_of_amount]. }
  split; [|split; [apply D|apply D]].
  apply total_refines; [exact S|apply D|apply D].
Qed.

Lemma calc_subs_refines cr c cur rates sls :
  orel (Forall2 sub_den) (calc_subs cr c cur rates sls) (s_subs rnd cr c cur rates sls).
Proof.
  induction sls as [|sl r IH]; cbn [calc_subs s_subs orel]; [constructor|].
  pose proof (calc_sub_refines cr c cur rates sl) as H.
  destruct (calc_sub _ _ _ _ _); destruct (s_sub _ _ _ _ _ _); try contradiction;
    destruct (calc_subs _ _ _ _ _); destruct (s_subs _ _ _ _ _ _); try contradiction; cbn [orel] in *; auto.
Qed.

Lemma max_exp_fold l : forall z, fold_left (fun m a => Nat.max m (exp a)) l z = Nat.max z (maxl (map exp l) 0).
Proof.
  induction l as [|a r IH]; intros z; cbn [fold_left map maxl fold_right]; [lia|].
  rewrite IH. fold (maxl (map exp r) 0). lia.
Qed.

Lemma subs_price_prec subs fsubs : Forall2 sub_den subs fsubs ->
  max_exp (map sc_price subs) = maxl (map (fun s => fp (is_price s)) fsubs) 0.
Proof.
  intros F. unfold max_exp. rewrite max_exp_fold. cbn [Nat.max].
  induction F as [|s f r fr H _ IH]; cbn [map maxl fold_right]; [reflexivity|].
  destruct H as ((_ & E) & _). rewrite E. f_equal. exact IH.
Qed.

Lemma subs_total_sum subs fsubs : Forall2 sub_den subs fsubs ->
  sumQ (map sc_total subs) == sumQl (map (fun s => fq (is_total s)) fsubs).
Proof.
  intros F. induction F as [|s f r fr H _ IH]; cbn [map sumQ sumQl fold_right]; [reflexivity|].
  destruct H as (_ & _ & (E & _) & _). rewrite E. apply Qplus_comp; [reflexivity|exact IH].
Qed.

Lemma calc_line_refines cr c cur rates l :
  orel line_den (calc_line cr c cur rates l) (s_line rnd cr c cur rates l).
Proof.
  unfold calc_line, s_line. pose proof (calc_subs_refines cr c cur rates (ln_breakdown l)) as PS.
  destruct (calc_subs _ _ _ _ _) as [subs|]; destruct (s_subs _ _ _ _ _ _) as [fsubs|]; try contradiction; [|exact I].
  cbn [orel] in PS.
  set (it := match subs with [] => ln_item l | _ => _ end).
  set (p0 := match fsubs with [] => s_item_price rnd c cur rates (ln_item l) | _ => _ end).
  assert (P : oden (item_price it cur c rates) p0).
  { unfold it, p0. destruct PS as [|s f r fr H Hr]; [apply item_price_refines|].
    set (subs := s :: r). set (fsubs := f :: fr).
    assert (F : Forall2 sub_den subs fsubs) by (constructor; assumption).
    unfold item_price. cbn [it_cur it_price oden].
    apply den_rescale_up. rewrite (subs_price_prec subs fsubs F).
    set (m := maxl _ 0). split; cbn [fq fp]; [|apply rescale_exp].
    rewrite toQ_rescale. apply rnd_proper; [reflexivity|].
    rewrite fold_acc_toQ, toQ_zero, (subs_total_sum subs fsubs F). ring. }
  clearbody it p0.
  destruct (item_price it cur c rates) as [price|]; destruct p0 as [fprice|]; try contradiction; [|exact I].
  cbn [oden] in P. cbn [orel].
  set (e := if cr then c else (c + line_precision_extra)%nat).
  assert (S : den (apply_rr cr c (mul (rescale_up price e) (ln_qty l)))
                  (settle rnd cr c (prod rnd (raise (wmin cr c) fprice) (toQ (ln_qty l))))).
  { apply den_apply_rr, den_mul; [|reflexivity].
    replace (wmin cr c) with e by (unfold e, wmin, line_precision_extra; destruct cr; reflexivity).
    apply den_rescale_up, P. }
  unfold line_den. cbn [lc_price lc_sum lc_total lc_ds lc_cs lc_subs il_price il_sum il_total il_ds il_cs il_subs].
  split; [exact P|]. split; [exact S|].
  assert (D : forall ch xs, Forall2 den
     (ldc_amounts cr c (apply_rr cr c (mul (rescale_up price e) (ln_qty l))) (ln_qty l) ch xs)
     (map (s_row rnd cr c (settle rnd cr c (prod rnd (raise (wmin cr c) fprice) (toQ (ln_qty l)))) (of_amount (ln_qty l)) ch) xs)).
  { intros ch xs. apply ldc_amounts_refines; [exact S|apply den_of_amount]. }
  split; [|split; [apply D|split; [apply D|exact PS]]].
  apply total_refines; [exact S|apply D|apply D].
Qed.

Lemma calc_lines_refines cr c cur rates ls :
  orel (Forall2 line_den) (calc_lines cr c cur rates ls) (s_lines rnd cr c cur rates ls).
Proof.
  induction ls as [|l r IH]; cbn [calc_lines s_lines orel]; [constructor|].
  pose proof (calc_line_refines cr c cur rates l) as H.
  destruct (calc_line _ _ _ _ _); destruct (s_line _ _ _ _ _ _); try contradiction;
    destruct (calc_lines _ _ _ _ _); destruct (s_lines _ _ _ _ _ _); try contradiction; cbn [orel] in *; auto.
Qed.

(* ------------------------------------------------------------------------------------------ *)
(* presentation of lines                                                                       *)
(* ------------------------------------------------------------------------------------------ *)
Lemma den_rescale_down a f e : den a f -> den (rescale_down a e) (lower rnd e f).
Proof.
  intros H. unfold rescale_down, lower. destruct H as [H1 H2]. rewrite H2.
  destruct (Nat.ltb e (fp f)); [apply den_rescale; split; assumption|split; assumption].
Qed.

Definition so_den (s : sub_out) (f : isub) : Prop := den (so_sum s) (is_sum f) /\ den (so_total s) (is_total f).
Definition lout_den (l : line_out) (f : iline) : Prop :=
  den (lo_price l) (il_price f) /\ den (lo_sum l) (il_sum f) /\ den (lo_total l) (il_total f) /\
  Forall2 den (lo_discounts l) (il_ds f) /\ Forall2 den (lo_charges l) (il_cs f) /\
  Forall2 so_den (lo_subs l) (il_subs f).

Lemma Forall2_map {A B C D} (P : A -> B -> Prop) (Q : C -> D -> Prop) (f : A -> C) (g : B -> D) xs ys :
  (forall x y, P x y -> Q (f x) (g y)) -> Forall2 P xs ys -> Forall2 Q (map f xs) (map g ys).
Proof. intros H F. induction F; cbn [map]; constructor; auto. Qed.

Lemma present_line_refines lc f : line_den lc f -> lout_den (present_line lc) (s_present_line rnd f).
Proof.
  intros (P & S & T & D & C & B). unfold present_line, s_present_line, lout_den.
  cbn [lo_price lo_sum lo_total lo_discounts lo_charges lo_subs il_price il_sum il_total il_ds il_cs il_subs].
  destruct P as [P1 P2]. rewrite P2.
  split; [split; assumption|]. split; [apply den_rescale_down, S|]. split; [apply den_rescale_down, T|].
  split; [|split].
  - eapply Forall2_map; [|exact D]. intros x y H. apply den_rescale_down, H.
  - eapply Forall2_map; [|exact C]. intros x y H. apply den_rescale_down, H.
  - eapply Forall2_map; [|exact B]. intros x y (_ & Hs & Ht & _). split; cbn [so_sum so_total is_sum is_total];
      apply den_rescale_down; assumption.
Qed.

(* ------------------------------------------------------------------------------------------ *)
(* sums of figures, document discounts and charges                                             *)
(* ------------------------------------------------------------------------------------------ *)
Lemma maxl_shift l : forall a b, maxl l (Nat.max a b) = Nat.max b (maxl l a).
Proof. induction l as [|x r IH]; intros a b; cbn [maxl fold_right]; [lia|]. fold (maxl r (Nat.max a b)). fold (maxl r a). rewrite IH. lia. Qed.

Lemma fold_acc_den xs fxs : Forall2 den xs fxs -> forall s,
  toQ (fold_left acc xs s) == toQ s + sumQl (map fq fxs) /\ exp (fold_left acc xs s) = maxl (map fp fxs) (exp s).
Proof.
  intros F. induction F as [|x f r fr [H1 H2] _ IH]; intros s; cbn [fold_left map sumQl maxl fold_right].
  - split; [ring|reflexivity].
  - destruct (IH (acc s x)) as [E1 E2]. split.
    + rewrite E1, acc_toQ, H1. fold (sumQl (map fq fr)). ring.
    + rewrite E2, acc_exp, H2. fold (maxl (map fp fr) (exp s)). apply maxl_shift.
Qed.

Lemma sum_figs_refines c xs fxs : Forall2 den xs fxs ->
  den (fold_left acc xs (zero_of c)) (s_sum_figs c fxs).
Proof.
  intros F. destruct (fold_acc_den xs fxs F (zero_of c)) as [E1 E2].
  split; cbn [fq fp s_sum_figs]; [rewrite E1, toQ_zero; ring|exact E2].
Qed.

Lemma sum_opt_refines c xs fxs : Forall2 den xs fxs -> orel den (sum_opt c xs) (s_opt_sum c fxs).
Proof.
  intros F. unfold sum_opt, s_opt_sum. destruct F as [|x f r fr H Hr]; [exact I|].
  cbn [orel]. apply sum_figs_refines. constructor; assumption.
Qed.

Lemma ddc_amount_refines cr c sum fs d : den sum fs -> den (ddc_amount cr c sum d) (s_ddc rnd cr c fs d).
Proof.
  intros Hs. unfold ddc_amount, s_ddc. apply den_apply_rr.
  pose proof (opt_nonzero_spec (dd_pct d)) as N.
  destruct (opt_nonzero (dd_pct d)) as [p|]; destruct (nonzero_pct (dd_pct d)) as [x|]; try contradiction.
  - unfold pct_of. apply den_mul; [|rewrite N; reflexivity].
    destruct (dd_base d) as [b|]; [apply den_base2|exact Hs].
  - apply den_of_amount.
Qed.

Definition pair_den (x : ddc * amount) (y : ddc * fig) : Prop := fst x = fst y /\ den (snd x) (snd y).

Lemma ddcs_refine cr c sum fs ds : den sum fs ->
  Forall2 pair_den (map (fun x => (x, ddc_amount cr c sum x)) ds) (map (fun x => (x, s_ddc rnd cr c fs x)) ds).
Proof.
  intros Hs. induction ds as [|d r IH]; cbn [map]; constructor; [|exact IH].
  split; [reflexivity|]. cbn [snd]. apply ddc_amount_refines, Hs.
Qed.

Lemma pair_den_snd xs ys : Forall2 pair_den xs ys -> Forall2 den (map snd xs) (map snd ys).
Proof. intros F. eapply Forall2_map; [|exact F]. intros x y [_ H]. exact H. Qed.

Lemma present_ddc_refines c xs ys : Forall2 pair_den xs ys ->
  Forall2 den (map (fun p => present_ddc c (fst p) (snd p)) xs) (map (fun p => s_present_ddc rnd c (fst p) (snd p)) ys).
Proof.
  intros F. eapply Forall2_map; [|exact F]. intros x y [E H]. unfold present_ddc, s_present_ddc.
  rewrite E. apply den_rescale_down, H.
Qed.

(* ------------------------------------------------------------------------------------------ *)
(* tax rows                                                                                    *)
(* ------------------------------------------------------------------------------------------ *)
Definition tl_den (tl : tax_line) (r : irow) : Prop := den (tl_total tl) (ir_total r) /\ tl_taxes tl = ir_taxes r.

Lemma Forall2_app_intro {A B} (P : A -> B -> Prop) a1 b1 a2 b2 :
  Forall2 P a1 b1 -> Forall2 P a2 b2 -> Forall2 P (a1 ++ a2) (b1 ++ b2).
Proof. intros F1 F2. induction F1; cbn [app]; [exact F2|constructor; assumption]. Qed.

Lemma line_rows_refine lcs ils : Forall2 line_den lcs ils -> forall ls,
  Forall2 tl_den (map (fun p => mkTL (lc_total (fst p)) (ln_taxes (snd p))) (combine lcs ls))
                 (map (fun p => mkIR (il_total (fst p)) (ln_taxes (snd p))) (combine ils ls)).
Proof.
  intros F. induction F as [|lc f r fr H _ IH]; intros ls; [constructor|].
  destruct ls as [|l ls]; cbn [combine map]; constructor; [|apply IH].
  split; [|reflexivity]. cbn [tl_total ir_total fst]. apply H.
Qed.

Lemma tax_lines_refine lcs ils ls dd fdd cc fcc :
  Forall2 line_den lcs ils -> Forall2 pair_den dd fdd -> Forall2 pair_den cc fcc ->
  Forall2 tl_den (tax_lines lcs ls dd cc) (s_rows ils ls fdd fcc).
Proof.
  intros FL FD FC. unfold tax_lines, s_rows. repeat apply Forall2_app_intro.
  - apply line_rows_refine, FL.
  - eapply Forall2_map; [|exact FD]. intros x y [E H]. split; cbn [tl_total tl_taxes ir_total ir_taxes];
      [apply den_negate, H|rewrite E; reflexivity].
  - eapply Forall2_map; [|exact FC]. intros x y [E H]. split; cbn [tl_total tl_taxes ir_total ir_taxes];
      [exact H|rewrite E; reflexivity].
Qed.

Lemma prepare_refines c tl r : tl_den tl r -> tl_den (prepare_tl c tl) (s_prepare c r).
Proof.
  intros G. pose proof G as [H E]. unfold prepare_tl, s_prepare, tax_precision_extra. rewrite <- E.
  destruct (tl_taxes tl); [exact G|].
  split; cbn [tl_total tl_taxes ir_total ir_taxes]; [apply den_rescale_up, H|reflexivity].
Qed.

Lemma remove_refines pit tl r : tl_den tl r -> orel tl_den (remove_included pit tl) (s_remove rnd pit r).
Proof.
  intros G. pose proof G as [H E]. unfold remove_included, s_remove. rewrite <- E.
  destruct pit; [exact G|].
  destruct (get_combo _ _) as [cb|]; [|exact G].
  destruct (cb_retained cb); [exact I|].
  destruct (cb_pct cb) as [p|]; [|exact G].
  cbn [orel]. split; cbn [tl_total tl_taxes ir_total ir_taxes]; [|reflexivity].
  destruct H as [H1 H2]. split; cbn [fq fp]; [|unfold remove; rewrite div_exp; exact H2].
  unfold remove. rewrite toQ_div, H2. apply rnd_proper; [reflexivity|].
  rewrite factor_toQ, H1. reflexivity.
Qed.

Lemma remove_all_refines pit tls rs : Forall2 tl_den tls rs ->
  orel (Forall2 tl_den) (remove_included_all pit tls) (s_remove_all rnd pit rs).
Proof.
  intros F. induction F as [|tl r tls' rs' H _ IH]; cbn [remove_included_all s_remove_all orel]; [constructor|].
  pose proof (remove_refines pit tl r H) as K.
  destruct (remove_included pit tl); destruct (s_remove rnd pit r); try contradiction;
    destruct (remove_included_all pit tls'); destruct (s_remove_all rnd pit rs'); try contradiction; cbn [orel] in *; auto.
Qed.

(* ------------------------------------------------------------------------------------------ *)
(* tax groups and categories: the bases                                                        *)
(* ------------------------------------------------------------------------------------------ *)
Definition grel (cr : bool) (c : nat) (rt : rate_total) (g : igroup) : Prop :=
  rt_country rt = cb_country (ig_cb g) /\ rt_ext rt = cb_ext (ig_cb g) /\
  rt_pct rt = cb_pct (ig_cb g) /\ rt_sur rt = cb_sur (ig_cb g) /\
  den (rt_base rt) (ig_base g) /\ (cr = true -> fp (ig_base g) = c).

Definition crel (cr : bool) (c : nat) (ct : cat_total) (ic : icat) : Prop :=
  ct_code ct = ic_code ic /\ ct_retained ct = ic_retained ic /\ Forall2 (grel cr c) (ct_rates ct) (ic_groups ic).

Lemma grel_matches cr c rt g cb : grel cr c rt g -> rt_matches rt cb = ig_matches g cb.
Proof.
  intros (A & B & C & D & _). unfold ig_matches, rt_matches, new_rt.
  cbn [rt_ext rt_country rt_pct rt_sur]. rewrite A, B, C, D. reflexivity.
Qed.

Lemma add_base_refines cr c tot ftot rt g : den tot ftot -> grel cr c rt g ->
  grel cr c (rt_add_base cr tot rt) (mkIG (ig_cb g) (s_add_base rnd cr c ftot (ig_base g))).
Proof.
  intros [T1 T2] (A & B & C & D & [E1 E2] & I). unfold grel, rt_add_base.
  cbn [rt_country rt_ext rt_pct rt_sur rt_base ig_cb ig_base]. repeat (split; [assumption|]).
  unfold s_add_base, acc_rr, match_rr. destruct cr.
  - specialize (I eq_refl). split; [|reflexivity]. split; cbn [fq fp]; [|rewrite add_exp; congruence].
    rewrite toQ_add, E1, E2, I, T1. reflexivity.
  - split; [|discriminate]. fold (acc (rt_base rt) tot). split; cbn [fq fp].
    + rewrite acc_toQ, E1, T1. reflexivity.
    + rewrite acc_exp, E2, T2. reflexivity.
Qed.

Lemma grel_new cr c cb : grel cr c (new_rt c cb) (mkIG cb (mkF 0 c)).
Proof.
  unfold grel, new_rt. cbn [rt_country rt_ext rt_pct rt_sur rt_base ig_cb ig_base fp].
  repeat (split; [reflexivity|]). split; [|reflexivity]. split; [apply toQ_zero|reflexivity].
Qed.

Lemma add_to_rates_refines cr c tot ftot cb rts gs : den tot ftot -> Forall2 (grel cr c) rts gs ->
  Forall2 (grel cr c) (add_to_rates cr c tot cb rts) (s_add_to_groups rnd cr c ftot cb gs).
Proof.
  intros T F. induction F as [|rt g r gr H Hr IH]; cbn [add_to_rates s_add_to_groups].
  - constructor; [|constructor].
    apply (add_base_refines cr c tot ftot (new_rt c cb) (mkIG cb (mkF 0 c)) T (grel_new cr c cb)).
  - rewrite (grel_matches cr c rt g cb H). destruct (ig_matches g cb).
    + constructor; [apply add_base_refines; assumption|exact Hr].
    + constructor; [exact H|exact IH].
Qed.

Lemma add_to_cats_refines cr c tot ftot cb cts ics : den tot ftot -> Forall2 (crel cr c) cts ics ->
  Forall2 (crel cr c) (add_to_cats cr c tot cb cts) (s_add_to_cats rnd cr c ftot cb ics).
Proof.
  intros T F. induction F as [|ct ic r ir H Hr IH]; cbn [add_to_cats s_add_to_cats].
  - constructor; [|constructor]. unfold crel, ct_with_rates, new_ct. cbn [ct_code ct_retained ct_rates ic_code ic_retained ic_groups].
    repeat split. apply add_to_rates_refines; [exact T|constructor].
  - destruct H as (A & B & G). rewrite A. destruct (eqb_bytes (ic_code ic) (cb_cat cb)).
    + constructor; [|exact Hr]. unfold crel, ct_with_rates. cbn [ct_code ct_retained ct_rates ic_code ic_retained ic_groups].
      repeat split; try assumption. apply add_to_rates_refines; assumption.
    + constructor; [repeat split; assumption|exact IH].
Qed.

Lemma add_tl_refines cr c cts ics tl r : tl_den tl r -> Forall2 (crel cr c) cts ics ->
  Forall2 (crel cr c) (add_tl cr c cts tl) (s_add_row rnd cr c ics r).
Proof.
  intros [H E] F. unfold add_tl, s_add_row. rewrite <- E. clear E.
  revert cts ics F. induction (tl_taxes tl) as [|cb cbs IH]; intros cts ics F; cbn [fold_left]; [exact F|].
  apply IH. apply add_to_cats_refines; assumption.
Qed.

Lemma base_totals_refines cr c tls rs : Forall2 tl_den tls rs ->
  Forall2 (crel cr c) (base_totals cr c tls) (s_cats rnd cr c rs).
Proof.
  intros F. unfold base_totals, s_cats.
  assert (G : forall cts ics, Forall2 (crel cr c) cts ics ->
          Forall2 (crel cr c) (fold_left (add_tl cr c) tls cts) (fold_left (s_add_row rnd cr c) rs ics)).
  { induction F as [|tl r tls' rs' H _ IH]; intros cts ics K; cbn [fold_left]; [exact K|].
    apply IH. apply add_tl_refines; assumption. }
  apply G. constructor.
Qed.

(* ------------------------------------------------------------------------------------------ *)
(* group amounts, category amounts, the tax sum (through the characterisations of TaxProofs)   *)
(* ------------------------------------------------------------------------------------------ *)
Lemma rnd_zero e : rnd e 0 == 0.
Proof. unfold rnd, roundQ. cbn [Qnum Qden]. rewrite Z.mul_0_l. unfold rha. cbn [Z.leb Z.compare Z.mul Z.add].
  rewrite Z.div_small by lia. reflexivity. Qed.

Lemma contrib_toQ cr c a : toQ (contrib cr c a) = contribQ rnd cr c (toQ a).
Proof. unfold contrib, contribQ. destruct cr; [apply toQ_rescale|reflexivity]. Qed.

Lemma contribQ_zero cr c : contribQ rnd cr c 0 == 0.
Proof. unfold contribQ. destruct cr; [apply rnd_zero|reflexivity]. Qed.

#[global] Instance contribQ_proper cr c : Proper (Qeq ==> Qeq) (contribQ rnd cr c).
Proof. intros q q' H. unfold contribQ. destruct cr; [rewrite H; reflexivity|exact H]. Qed.

Lemma taxed_amount_refines cr c rt g : grel cr c rt g ->
  taxed_amount cr c (rt_calc c rt) == contribQ rnd cr c (g_amount rnd g).
Proof.
  intros (_ & _ & C & _ & [E1 E2] & _). unfold taxed_amount, g_amount. rewrite rt_calc_pct, C.
  unfold rt_calc. rewrite C. destruct (cb_pct (ig_cb g)) as [p|]; cbn [rt_amount].
  - rewrite contrib_toQ. unfold pct_of. rewrite toQ_mul, E2, E1. reflexivity.
  - symmetry. apply contribQ_zero.
Qed.

Lemma taxed_surcharge_refines cr c rt g : grel cr c rt g ->
  taxed_surcharge cr c (rt_calc c rt) == contribQ rnd cr c (g_surcharge rnd g).
Proof.
  intros (_ & _ & C & D & [E1 E2] & _). unfold taxed_surcharge, g_surcharge. rewrite rt_calc_pct, rt_calc_sur, C, D.
  unfold rt_calc. rewrite C, D. destruct (cb_pct (ig_cb g)) as [p|]; [|symmetry; apply contribQ_zero].
  destruct (cb_sur (ig_cb g)) as [s|]; cbn [rt_suramount]; [|symmetry; apply contribQ_zero].
  rewrite contrib_toQ. unfold pct_of. rewrite toQ_mul, E2, E1. reflexivity.
Qed.

Lemma cat_amounts_refine cr c ct ic : crel cr c ct ic ->
  toQ (ct_amount (ct_calc cr c ct)) == cat_amount rnd cr c ic /\
  optQ (ct_surcharge (ct_calc cr c ct)) == cat_surcharge rnd cr c ic.
Proof.
  intros (_ & _ & F).
  destruct (category_amount_is_sum_of_groups cr c ct) as (A & S & _). cbv zeta in A, S.
  rewrite A, S. unfold ct_calc. cbn [ct_rates]. unfold cat_amount, cat_surcharge, sumQ_amounts, sumQ_surcharges.
  induction F as [|rt g r gr H _ IH]; cbn [map fold_right sumQl]; [split; reflexivity|].
  destruct IH as [I1 I2]. split.
  - rewrite (taxed_amount_refines cr c rt g H). apply Qplus_comp; [reflexivity|exact I1].
  - rewrite (taxed_surcharge_refines cr c rt g H). apply Qplus_comp; [reflexivity|exact I2].
Qed.

Lemma signed_refines cr c ct ic : crel cr c ct ic -> signedQ (ct_calc cr c ct) == cat_signed rnd cr c ic.
Proof.
  intros H. destruct (cat_amounts_refine cr c ct ic H) as [A S]. destruct H as (_ & B & _).
  unfold signedQ, cat_signed.
  replace (ct_retained (ct_calc cr c ct)) with (ic_retained ic) by (rewrite <- B; reflexivity).
  destruct (ic_retained ic); rewrite A, S; reflexivity.
Qed.

Lemma tax_sum_refines cr c cts ics : Forall2 (crel cr c) cts ics ->
  toQ (fold_left (sum_step cr) (map (ct_calc cr c) cts) (zero_of c)) == s_tax rnd cr c ics.
Proof.
  intros F. rewrite tax_sum_signed. unfold sumQ_signed, s_tax.
  induction F as [|ct ic r ir H _ IH]; cbn [map fold_right sumQl]; [reflexivity|].
  rewrite (signed_refines cr c ct ic H). apply Qplus_comp; [reflexivity|exact IH].
Qed.

Lemma find_cat_refines cr c code cts ics : Forall2 (crel cr c) cts ics ->
  match find_cat code (map (ct_round c) (map (ct_calc cr c) cts)), s_find_cat code ics with
  | Some ct, Some ic => toQ (precise_or (ct_precise ct) (ct_amount ct)) == cat_amount rnd cr c ic
  | None, None => True
  | _, _ => False
  end.
Proof.
  intros F. induction F as [|ct ic r ir H _ IH]; cbn [map find_cat s_find_cat]; [exact I|].
  replace (ct_code (ct_round c (ct_calc cr c ct))) with (ic_code ic) by (destruct H as (A & _); rewrite <- A; reflexivity).
  destruct (eqb_bytes (ic_code ic) code); [|exact IH].
  unfold ct_round at 1 2. cbn [ct_precise ct_amount]. rewrite precise_or_toQ.
  apply (cat_amounts_refine cr c ct ic H).
Qed.

(* ------------------------------------------------------------------------------------------ *)
(* totals and payments                                                                         *)
(* ------------------------------------------------------------------------------------------ *)
Lemma den_sub a f b q : den a f -> toQ b == q -> den (sub a b) (mkF (fq f - rnd (fp f) q) (fp f)).
Proof.
  intros [H1 H2] Hb. split; cbn [fq fp]; [|exact H2]. rewrite toQ_sub, H1, H2, Hb. reflexivity.
Qed.

Lemma den_add a f b q : den a f -> toQ b == q -> den (add a b) (mkF (fq f + rnd (fp f) q) (fp f)).
Proof.
  intros [H1 H2] Hb. split; cbn [fq fp]; [|exact H2]. rewrite toQ_add, H1, H2, Hb. reflexivity.
Qed.

Lemma den_Qeq a f g : den a f -> fq f == fq g -> fp f = fp g -> den a g.
Proof. intros [H1 H2] E1 E2. split; [rewrite H1; exact E1|rewrite H2; exact E2]. Qed.

Lemma den_sub_opt a f o fo : den a f -> orel den o fo ->
  den (match o with Some x => sub a x | None => a end) (mkF (fq f - rnd (fp f) (oQ fo)) (fp f)).
Proof.
  intros H O. destruct o as [x|]; destruct fo as [fx|]; try contradiction; cbn [oQ].
  - apply den_sub; [exact H|apply O].
  - eapply den_Qeq; [exact H| |reflexivity]. cbn [fq]. rewrite rnd_zero. ring.
Qed.

Lemma den_add_opt a f o fo : den a f -> orel den o fo ->
  den (match o with Some x => add a x | None => a end) (mkF (fq f + rnd (fp f) (oQ fo)) (fp f)).
Proof.
  intros H O. destruct o as [x|]; destruct fo as [fx|]; try contradiction; cbn [oQ].
  - apply den_add; [exact H|apply O].
  - eapply den_Qeq; [exact H| |reflexivity]. cbn [fq]. rewrite rnd_zero. ring.
Qed.

Lemma advance_refines c twt ftwt r : den twt ftwt -> den (advance_amount c twt r) (s_advance rnd c ftwt r).
Proof.
  intros H. unfold advance_amount, s_advance. apply den_rescale_up.
  destruct (pr_pct r) as [p|]; [apply den_mul; [exact H|reflexivity]|apply den_of_amount].
Qed.

(* a presented total: the value rounded to the currency's decimals, held at c decimals *)
Definition pres (c : nat) (a : amount) (q : Q) : Prop := toQ a == q /\ exp a = c.
Definition opres (c : nat) (o : option amount) (q : option Q) : Prop :=
  match o, q with Some a, Some x => pres c a x | None, None => True | _, _ => False end.

Lemma pres_rescale c a q : toQ a == q -> pres c (rescale a c) (rnd c q).
Proof. intros H. split; [rewrite toQ_rescale, H; reflexivity|apply rescale_exp]. Qed.

Lemma due_refines c payable fpay r : den payable fpay -> pres c (due_amount c payable r) (s_due rnd c fpay r).
Proof.
  intros H. unfold due_amount, s_due. apply pres_rescale.
  pose proof (opt_nonzero_spec (pr_pct r)) as N.
  destruct (opt_nonzero (pr_pct r)) as [p|]; destruct (nonzero_pct (pr_pct r)) as [x|]; try contradiction.
  - unfold pct_of. apply (den_mul payable fpay p x H). rewrite N. reflexivity.
  - reflexivity.
Qed.

(* what it means for a calculated document to present the specified figures *)
Definition refines (c : nat) (t : totals) (it : itotals) : Prop :=
  Forall2 lout_den (t_lines t) (i_lines it) /\
  pres c (t_sum t) (i_sum it) /\
  opres c (t_discount t) (i_discount it) /\
  opres c (t_charge t) (i_charge it) /\
  opres c (t_tax_included t) (i_tax_included it) /\
  pres c (t_total t) (i_total it) /\
  pres c (t_tax t) (i_tax it) /\
  pres c (t_twt t) (i_twt it) /\
  pres c (t_payable t) (i_payable it) /\
  opres c (t_advances t) (i_advances it) /\
  opres c (t_due t) (i_due it) /\
  Forall2 den (t_dd t) (i_dd it) /\
  Forall2 den (t_cc t) (i_cc it) /\
  Forall2 (pres c) (t_adv_rows t) (i_adv_rows it) /\
  Forall2 (pres c) (t_dues t) (i_dues it).

Lemma opres_rescale c o fo : orel den o fo ->
  opres c (match o with Some a => Some (rescale a c) | None => None end)
          (match option_map fq fo with Some q => Some (rnd c q) | None => None end).
Proof.
  intros H. destruct o as [a|]; destruct fo as [f|]; try contradiction; cbn [option_map opres]; [|exact I].
  apply pres_rescale, H.
Qed.

Theorem calc_refines_ideal d t : calculate d = Totals t ->
  exists it, ideal d = Some it /\ refines (d_c d) t it.
Proof.
  unfold calculate, ideal, spec. cbv zeta.
  set (c := d_c d). set (cr := d_currency_rule d).
  pose proof (calc_lines_refines cr c (d_cur d) (d_rates d) (d_lines d)) as PL.
  destruct (calc_lines cr c (d_cur d) (d_rates d) (d_lines d)) as [lcs|]; [|discriminate].
  destruct (s_lines rnd cr c (d_cur d) (d_rates d) (d_lines d)) as [ils|]; [|contradiction].
  cbn [orel] in PL.
  set (sum := fold_left acc (map lc_total lcs) (zero_of c)).
  set (fsum := s_sum_figs c (map il_total ils)).
  assert (S : den sum fsum).
  { apply sum_figs_refines. eapply Forall2_map; [|exact PL]. intros x y K. apply K. }
  pose proof (ddcs_refine cr c sum fsum (d_discounts d) S) as DD.
  pose proof (ddcs_refine cr c sum fsum (d_charges d) S) as CC.
  set (dds := map (fun x => (x, ddc_amount cr c sum x)) (d_discounts d)) in *.
  set (ccs := map (fun x => (x, ddc_amount cr c sum x)) (d_charges d)) in *.
  set (fdds := map (fun x => (x, s_ddc rnd cr c fsum x)) (d_discounts d)) in *.
  set (fccs := map (fun x => (x, s_ddc rnd cr c fsum x)) (d_charges d)) in *.
  pose proof (sum_opt_refines c _ _ (pair_den_snd _ _ DD)) as OD.
  pose proof (sum_opt_refines c _ _ (pair_den_snd _ _ CC)) as OC.
  set (discount := sum_opt c (map snd dds)) in *. set (charge := sum_opt c (map snd ccs)) in *.
  set (fdiscount := s_opt_sum c (map snd fdds)) in *. set (fcharge := s_opt_sum c (map snd fccs)) in *.
  pose proof (tax_lines_refine lcs ils (d_lines d) dds fdds ccs fccs PL DD CC) as TL.
  destruct (tax_lines lcs (d_lines d) dds ccs) as [|tl0 tls]; [discriminate|].
  destruct (s_rows ils (d_lines d) fdds fccs) as [|r0 rs]; [inversion TL|].
  assert (TP : Forall2 tl_den (map (prepare_tl c) (tl0 :: tls)) (map (s_prepare c) (r0 :: rs))).
  { eapply Forall2_map; [|exact TL]. intros x y K. apply prepare_refines, K. }
  pose proof (remove_all_refines (d_pit d) _ _ TP) as RM.
  destruct (remove_included_all (d_pit d) (map (prepare_tl c) (tl0 :: tls))) as [tls2|]; [|discriminate].
  destruct (s_remove_all rnd (d_pit d) (map (s_prepare c) (r0 :: rs))) as [rows2|]; [|contradiction].
  cbn [orel] in RM.
  pose proof (base_totals_refines cr c tls2 rows2 RM) as CT.
  set (cts := base_totals cr c tls2) in *. set (ics := s_cats rnd cr c rows2) in *.
  pose proof (tax_sum_refines cr c cts ics CT) as TX.
  set (taxsum := fold_left (sum_step cr) (map (ct_calc cr c) cts) (zero_of c)) in *.
  intros H. injection H as <-. eexists. split; [reflexivity|].
  set (ws := fp fsum).
  (* the chain of totals, all held at the precision of the sum *)
  set (total0 := match discount with Some x => sub sum x | None => sum end).
  set (total1 := match charge with Some x => add total0 x | None => total0 end).
  assert (T0 : den total0 (mkF (fq fsum - rnd ws (oQ fdiscount)) ws)) by (apply den_sub_opt; assumption).
  assert (T1 : den total1 (mkF (fq fsum - rnd ws (oQ fdiscount) + rnd ws (oQ fcharge)) ws)).
  { apply (den_add_opt total0 _ charge fcharge T0 OC). }
  set (included := match d_pit d with [] => None | _ :: _ =>
        match find_cat (d_pit d) (map (ct_round c) (map (ct_calc cr c) cts)) with
        | Some ct => Some (precise_or (ct_precise ct) (ct_amount ct)) | None => None end end).
  set (fincluded := match d_pit d with [] => None | _ :: _ =>
        match s_find_cat (d_pit d) ics with Some ct => Some (cat_amount rnd cr c ct) | None => None end end).
  assert (IN : match included, fincluded with Some a, Some q => toQ a == q | None, None => True | _, _ => False end).
  { unfold included, fincluded. destruct (d_pit d); [exact I|].
    pose proof (find_cat_refines cr c (b :: b0) cts ics CT) as K.
    destruct (find_cat _ _); destruct (s_find_cat _ _); try contradiction; exact K. }
  set (total := match included with Some ti => sub total1 ti | None => total1 end).
  set (ftotal := fq fsum - rnd ws (oQ fdiscount) + rnd ws (oQ fcharge)
                 - match fincluded with Some ti => rnd ws ti | None => 0 end).
  assert (TT : den total (mkF ftotal ws)).
  { unfold total, ftotal. destruct included as [ti|]; destruct fincluded as [fti|]; try contradiction.
    - apply (den_sub total1 _ ti fti T1 IN).
    - eapply den_Qeq; [exact T1| |reflexivity]. cbn [fq]. ring. }
  set (tax := precise_or taxsum (rescale taxsum c)).
  assert (TA : toQ tax == s_tax rnd cr c ics) by (unfold tax; rewrite precise_or_toQ; exact TX).
  set (twt := add total tax).
  assert (TW : den twt (mkF (ftotal + rnd ws (s_tax rnd cr c ics)) ws)) by (apply (den_add total _ tax _ TT TA)).
  set (payable := match match d_rounding d with Some r => Some (rescale r c) | None => None end with
                  | Some r => add twt r | None => twt end).
  set (fpayable := ftotal + rnd ws (s_tax rnd cr c ics) + match d_rounding d with Some r => rnd ws (rnd c (toQ r)) | None => 0 end).
  assert (PY : den payable (mkF fpayable ws)).
  { unfold payable, fpayable. destruct (d_rounding d) as [r|].
    - apply (den_add twt _ (rescale r c) (rnd c (toQ r)) TW). apply (pres_rescale c r (toQ r)). reflexivity.
    - eapply den_Qeq; [exact TW| |reflexivity]. cbn [fq]. ring. }
  assert (AD : Forall2 den (map (advance_amount c twt) (d_advances d))
                           (map (s_advance rnd c (mkF (ftotal + rnd ws (s_tax rnd cr c ics)) ws)) (d_advances d))).
  { induction (d_advances d) as [|r rr IH]; cbn [map]; constructor; [apply advance_refines, TW|exact IH]. }
  pose proof (sum_opt_refines c _ _ AD) as OA.
  set (advs := map (advance_amount c twt) (d_advances d)) in *.
  set (fadvs := map (s_advance rnd c (mkF (ftotal + rnd ws (s_tax rnd cr c ics)) ws)) (d_advances d)) in *.
  unfold refines.
  cbn [t_lines t_sum t_discount t_charge t_tax_included t_total t_tax t_twt t_payable t_advances t_due
       t_dd t_cc t_adv_rows t_dues i_lines i_sum i_discount i_charge i_tax_included i_total i_tax i_twt
       i_payable i_advances i_due i_dd i_cc i_adv_rows i_dues].
  split; [eapply Forall2_map; [|exact PL]; intros x y K; apply present_line_refines, K|].
  split; [apply pres_rescale, S|].
  split; [apply opres_rescale, OD|].
  split; [apply opres_rescale, OC|].
  split.
  { fold included. fold fincluded. destruct included; destruct fincluded; try contradiction; [|exact I].
    apply pres_rescale, IN. }
  split; [apply pres_rescale, TT|].
  split; [apply pres_rescale, TA|].
  split; [apply pres_rescale, TW|].
  split; [apply pres_rescale, PY|].
  split; [apply opres_rescale, OA|].
  split.
  { destruct (sum_opt c advs) as [a|]; destruct (s_opt_sum c fadvs) as [fa|]; try contradiction; [|exact I].
    cbn [orel] in OA. apply pres_rescale. apply (den_sub payable _ a (fq fa) PY). apply OA. }
  split; [apply present_ddc_refines, DD|].
  split; [apply present_ddc_refines, CC|].
  split.
  { eapply Forall2_map; [|exact AD]. intros x y K. apply pres_rescale, K. }
  induction (d_dues d) as [|r rr IH]; cbn [map]; constructor; [apply due_refines, PY|exact IH].
Qed.
