(* C01 - the calculation model refines the declarative specification Calc/Ideal.v:
   every figure computed by Calc.calculate denotes exactly the ideal figure and is held at the
   documented number of decimals. *)
From Coq Require Import ZArith QArith Qabs Lia Lqa List Bool ZifyBool ZifyNat Setoid Morphisms.
From Verif Require Import Base.Wire Base.Rha Base.RhaProofs Num.Amount Num.AmountProofs Calc.Doc Calc.Calc
  Calc.TaxProofs Calc.ExpLemmas Calc.BoundProofs Calc.Ideal.
Import ListNotations.
Open Scope Q_scope.

(* ------------------------------------------------------------------------------------------ *)
(* amounts denote figures                                                                      *)
(* ------------------------------------------------------------------------------------------ *)
Definition den (a : amount) (f : fig) : Prop := toQ a == fq f /\ exp a = fp f.

Lemma rnd_compat e q q' : q == q' -> rnd e q = rnd e q'.
Proof. intros H. unfold rnd. rewrite (roundQ_compat e q q' H). reflexivity. Qed.

#[global] Instance rnd_proper : Proper (eq ==> Qeq ==> Qeq) rnd.
Proof. intros e e' <- q q' H. rewrite (rnd_compat e q q' H). reflexivity. Qed.

Lemma toQ_mk v e : toQ (mkA v e) = v # Z.to_pos (pow10 e).
Proof. reflexivity. Qed.

Lemma toQ_rescale a e : toQ (rescale a e) = rnd e (toQ a).
Proof. unfold toQ at 1. rewrite rescale_exp, rescale_val. reflexivity. Qed.

Lemma toQ_mul a b : toQ (mul a b) = rnd (exp a) (toQ a * toQ b).
Proof. unfold toQ at 1. rewrite mul_exp, mul_val. reflexivity. Qed.

Lemma Qmake_plus_same x y d : (x + y # d) == (x # d) + (y # d).
Proof. unfold Qeq, Qplus. cbn [Qnum Qden]. rewrite Pos2Z.inj_mul. ring. Qed.

Lemma Qmake_minus_same x y d : (x - y # d) == (x # d) - (y # d).
Proof. unfold Qeq, Qminus, Qplus, Qopp. cbn [Qnum Qden]. rewrite Pos2Z.inj_mul. ring. Qed.

Lemma toQ_add a b : toQ (add a b) == toQ a + rnd (exp a) (toQ b).
Proof. unfold toQ at 1. rewrite add_exp, add_val_impl. apply Qmake_plus_same. Qed.

Lemma toQ_sub a b : toQ (sub a b) == toQ a - rnd (exp a) (toQ b).
Proof.
  unfold toQ at 1. unfold sub. cbn [val exp]. rewrite rescale_val. apply Qmake_minus_same.
Qed.

(* division: also by zero (Coq's x / 0 = 0 and the model's rhaS n 0 = 0 agree) *)
Lemma div_val_all a b : val (div a b) = roundQ (exp a) (toQ a / toQ b).
Proof.
  destruct (Z.eq_dec (val b) 0) as [E|N]; [|apply div_val, N].
  unfold div, roundQ, Qdiv, Qmult, Qinv, toQ. cbn [val Qnum Qden]. rewrite E. cbn [Qnum Qden].
  unfold rhaS. cbn [Z.ltb Z.compare]. rewrite !Z.mul_0_r, Z.mul_0_l.
  unfold rha. cbn [Z.leb Z.compare Z.mul Z.add]. symmetry. apply Z.div_small. lia.
Qed.

Lemma toQ_div a b : toQ (div a b) = rnd (exp a) (toQ a / toQ b).
Proof. unfold toQ at 1. rewrite div_exp, div_val_all. reflexivity. Qed.

Lemma den_of_amount a : den a (of_amount a).
Proof. split; reflexivity. Qed.

Lemma den_rescale a f e : den a f -> den (rescale a e) (mkF (rnd e (fq f)) e).
Proof. intros [H1 H2]. split; cbn [fq fp]; [rewrite toQ_rescale, H1; reflexivity|apply rescale_exp]. Qed.

Lemma den_rescale_up a f e : den a f -> den (rescale_up a e) (raise e f).
Proof.
  intros [H1 H2]. split; cbn [fq fp raise]; [rewrite rescale_up_toQ; exact H1|rewrite rescale_up_exp, H2; reflexivity].
Qed.

Lemma den_mul a f b q : den a f -> toQ b == q -> den (mul a b) (prod rnd f q).
Proof.
  intros [H1 H2] Hb. split; cbn [fq fp prod]; [|rewrite mul_exp; exact H2].
  rewrite toQ_mul, H2, H1, Hb. reflexivity.
Qed.

Lemma den_apply_rr cr c a f : den a f -> den (apply_rr cr c a) (settle rnd cr c f).
Proof.
  intros H. unfold apply_rr, settle. destruct cr; [apply den_rescale, H|apply den_rescale_up, H].
Qed.

Lemma den_negate a f : den a f -> den (negate a) (fneg f).
Proof. intros [H1 H2]. split; cbn [fq fp fneg]; [rewrite negate_toQ, H1; reflexivity|exact H2]. Qed.

Lemma is_zero_Qeq_bool q : is_zero q = Qeq_bool (toQ q) 0.
Proof.
  unfold is_zero, Qeq_bool, toQ. cbn [Qnum Qden]. rewrite Z.mul_1_r. cbn.
  destruct (val q); reflexivity.
Qed.

Lemma opt_nonzero_spec p :
  match opt_nonzero p, nonzero_pct p with
  | Some q, Some x => toQ q = x
  | None, None => True
  | _, _ => False
  end.
Proof.
  unfold opt_nonzero, nonzero_pct. destruct p as [q|]; [|exact I].
  rewrite is_zero_Qeq_bool. destruct (Qeq_bool (toQ q) 0); [exact I|reflexivity].
Qed.

(* ------------------------------------------------------------------------------------------ *)
(* item price                                                                                  *)
(* ------------------------------------------------------------------------------------------ *)
Definition oden (o : option amount) (f : option fig) : Prop :=
  match o, f with Some a, Some g => den a g | None, None => True | _, _ => False end.

Lemma item_price_refines it cur c rates :
  oden (item_price it cur c rates) (s_item_price rnd c cur rates it).
Proof.
  unfold item_price, s_item_price. destruct (it_cur it) as [[ic isub]|].
  - destruct (ic =? cur)%Z.
    + apply den_rescale_up, den_of_amount.
    + destruct (find_alt cur (it_alts it)) as [v|].
      * apply den_rescale_up, den_of_amount.
      * destruct (find_rate ic cur rates) as [r|]; [|exact I].
        cbn [oden]. apply (den_rescale _ (prod rnd (raise isub (of_amount (it_price it))) (toQ r))).
        apply den_mul; [apply den_rescale_up, den_of_amount|reflexivity].
  - apply den_rescale_up, den_of_amount.
Qed.

(* ------------------------------------------------------------------------------------------ *)
(* line discounts and charges                                                                  *)
(* ------------------------------------------------------------------------------------------ *)
Lemma fig_eq f g : fq f = fq g -> fp f = fp g -> f = g.
Proof. destruct f, g. cbn. intros -> ->. reflexivity. Qed.

Lemma den_base cr c b : den (apply_rr cr c (rescale_up (rescale_up b c) (c + line_precision_extra))) (s_base rnd cr c b).
Proof.
  unfold s_base, line_precision_extra. destruct cr.
  - unfold apply_rr. split; cbn [fq fp]; [|apply rescale_exp].
    rewrite toQ_rescale, !rescale_up_toQ. reflexivity.
  - unfold apply_rr. split; cbn [fq fp raise of_amount].
    + rewrite !rescale_up_toQ. reflexivity.
    + rewrite !rescale_up_exp. lia.
Qed.

Lemma den_base2 cr c b : den (apply_rr cr c (rescale_up b (c + line_precision_extra))) (s_base rnd cr c b).
Proof.
  unfold s_base, line_precision_extra. destruct cr.
  - unfold apply_rr. split; cbn [fq fp]; [|apply rescale_exp].
    rewrite toQ_rescale, !rescale_up_toQ. reflexivity.
  - unfold apply_rr. split; cbn [fq fp raise of_amount].
    + rewrite !rescale_up_toQ. reflexivity.
    + rewrite !rescale_up_exp. lia.
Qed.

Lemma ldc_amount_refines cr c sum fs qty q ch d : den sum fs -> toQ qty == q ->
  den (ldc_amount cr c sum qty ch d) (s_row rnd cr c fs q ch d).
Proof.
  intros Hs Hq. unfold ldc_amount, s_row. apply den_apply_rr.
  assert (A1 : den (match opt_nonzero (ld_pct d) with
                    | Some p => pct_of p (ldc_base cr c sum (ld_base d))
                    | None => ld_amount d end)
                   (match nonzero_pct (ld_pct d) with
                    | Some p => prod rnd (match ld_base d with None => fs | Some b => s_base rnd cr c b end) p
                    | None => of_amount (ld_amount d) end)).
  { pose proof (opt_nonzero_spec (ld_pct d)) as N.
    destruct (opt_nonzero (ld_pct d)) as [p|]; destruct (nonzero_pct (ld_pct d)) as [x|]; try contradiction.
    - unfold pct_of. apply den_mul; [|rewrite N; reflexivity].
      unfold ldc_base. destruct (ld_base d) as [b|]; [apply den_base|exact Hs].
    - apply den_of_amount. }
  destruct ch; [|exact A1].
  destruct (ld_rate d) as [r|]; [|exact A1].
  apply den_mul; [apply den_of_amount|]. destruct (ld_qty d); [reflexivity|exact Hq].
Qed.

Lemma ldc_amounts_refines cr c sum fs qty q ch ds : den sum fs -> toQ qty == q ->
  Forall2 den (ldc_amounts cr c sum qty ch ds) (map (s_row rnd cr c fs q ch) ds).
Proof.
  intros Hs Hq. unfold ldc_amounts. induction ds as [|d r IH]; cbn [map]; constructor; [|exact IH].
  apply ldc_amount_refines; assumption.
Qed.

(* total = sum - discounts + charges *)
Lemma sub_all_toQ xs : forall fxs t, Forall2 den xs fxs ->
  toQ (sub_all t xs) == toQ t - sumQl (map (fun x => rnd (exp t) (fq x)) fxs) /\ exp (sub_all t xs) = exp t.
Proof.
  unfold sub_all. induction xs as [|x r IH]; intros fxs t F; inversion F as [|? fx ? fr Hx Hr]; subst;
    cbn [fold_left map sumQl fold_right].
  - split; [ring|reflexivity].
  - destruct (IH fr (sub t x) Hr) as [E1 E2]. split; [|rewrite E2; reflexivity].
    rewrite E1, toQ_sub. cbn [sub exp]. destruct Hx as [Hx _]. rewrite Hx.
    fold (sumQl (map (fun x0 => rnd (exp t) (fq x0)) fr)). ring.
Qed.

Lemma add_all_toQ xs : forall fxs t, Forall2 den xs fxs ->
  toQ (add_all t xs) == toQ t + sumQl (map (fun x => rnd (exp t) (fq x)) fxs) /\ exp (add_all t xs) = exp t.
Proof.
  unfold add_all. induction xs as [|x r IH]; intros fxs t F; inversion F as [|? fx ? fr Hx Hr]; subst;
    cbn [fold_left map sumQl fold_right].
  - split; [ring|reflexivity].
  - destruct (IH fr (add t x) Hr) as [E1 E2]. split; [|rewrite E2; reflexivity].
    rewrite E1, toQ_add. cbn [add exp]. destruct Hx as [Hx _]. rewrite Hx.
    fold (sumQl (map (fun x0 => rnd (exp t) (fq x0)) fr)). ring.
Qed.

Lemma total_refines sum fs ds fds cs fcs : den sum fs -> Forall2 den ds fds -> Forall2 den cs fcs ->
  den (add_all (sub_all sum ds) cs) (s_total rnd fs fds fcs).
Proof.
  intros [H1 H2] Fd Fc.
  destruct (sub_all_toQ ds fds sum Fd) as [S1 S2].
  destruct (add_all_toQ cs fcs (sub_all sum ds) Fc) as [A1 A2].
  split; cbn [fq fp s_total].
  - rewrite A1, S1, S2, H1, H2. reflexivity.
  - rewrite A2, S2. exact H2.
Qed.

(* ------------------------------------------------------------------------------------------ *)
(* sub-lines and lines                                                                         *)
(* ------------------------------------------------------------------------------------------ *)
Definition orel {A B} (P : A -> B -> Prop) (x : option A) (y : option B) : Prop :=
  match x, y with Some a, Some b => P a b | None, None => True | _, _ => False end.

Definition sub_den (s : sub_calc) (f : isub) : Prop :=
  den (sc_price s) (is_price f) /\ den (sc_sum s) (is_sum f) /\ den (sc_total s) (is_total f) /\
  Forall2 den (sc_ds s) (is_ds f) /\ Forall2 den (sc_cs s) (is_cs f).

Definition line_den (l : line_calc) (f : iline) : Prop :=
  den (lc_price l) (il_price f) /\ den (lc_sum l) (il_sum f) /\ den (lc_total l) (il_total f) /\
  Forall2 den (lc_ds l) (il_ds f) /\ Forall2 den (lc_cs l) (il_cs f) /\
  Forall2 sub_den (lc_subs l) (il_subs f).

Lemma calc_sub_refines cr c cur rates sl :
  orel sub_den (calc_sub cr c cur rates sl) (s_sub rnd cr c cur rates sl).
Proof.
  unfold calc_sub, s_sub. pose proof (item_price_refines (sl_item sl) cur c rates) as P.
  destruct (item_price _ _ _ _) as [sp|]; destruct (s_item_price _ _ _ _ _) as [fsp|]; try contradiction; [|exact I].
  cbn [oden] in P. cbn [orel].
  assert (S : den (apply_rr cr c (mul (if cr then sp else rescale_up sp (c + line_precision_extra)) (sl_qty sl)))
                  (settle rnd cr c (prod rnd (if cr then fsp else raise (c + 2) fsp) (toQ (sl_qty sl))))).
  { apply den_apply_rr, den_mul; [|reflexivity]. destruct cr; [exact P|apply den_rescale_up, P]. }
  unfold sub_den. cbn [sc_price sc_sum sc_total sc_ds sc_cs is_price is_sum is_total is_ds is_cs].
  split; [exact P|]. split; [exact S|].
  assert (D : forall ch xs, Forall2 den
     (ldc_amounts cr c (apply_rr cr c (mul (if cr then sp else rescale_up sp (c + line_precision_extra)) (sl_qty sl))) (sl_qty sl) ch xs)
     (map (s_row rnd cr c (settle rnd cr c (prod rnd (if cr then fsp else raise (c + 2) fsp) (toQ (sl_qty sl)))) (toQ (sl_qty sl)) ch) xs)).
  { intros ch xs. apply ldc_amounts_refines; [exact S|reflexivity]. }
  split; [|split; [apply D|apply D]].
  apply total_refines; [exact S|apply D|apply D].
Qed.

Lemma calc_subs_refines cr c cur rates sls :
  orel (Forall2 sub_den) (calc_subs cr c cur rates sls) (s_subs rnd cr c cur rates sls).
Proof.
  induction sls as [|sl r IH]; cbn [calc_subs s_subs orel]; [constructor|].
  pose proof (calc_sub_refines cr c cur rates sl) as H.
  destruct (calc_sub _ _ _ _ _); destruct (s_sub _ _ _ _ _ _); try contradiction;
    destruct (calc_subs _ _ _ _ _); destruct (s_subs _ _ _ _ _ _); try contradiction; cbn [orel] in *; auto.
Qed.

Lemma max_exp_fold l : forall z, fold_left (fun m a => Nat.max m (exp a)) l z = Nat.max z (maxl (map exp l) 0).
Proof.
  induction l as [|a r IH]; intros z; cbn [fold_left map maxl fold_right]; [lia|].
  rewrite IH. fold (maxl (map exp r) 0). lia.
Qed.

Lemma subs_price_prec subs fsubs : Forall2 sub_den subs fsubs ->
  max_exp (map sc_price subs) = maxl (map (fun s => fp (is_price s)) fsubs) 0.
Proof.
  intros F. unfold max_exp. rewrite max_exp_fold. cbn [Nat.max].
  induction F as [|s f r fr H _ IH]; cbn [map maxl fold_right]; [reflexivity|].
  destruct H as ((_ & E) & _). rewrite E. f_equal. exact IH.
Qed.

Lemma subs_total_sum subs fsubs : Forall2 sub_den subs fsubs ->
  sumQ (map sc_total subs) == sumQl (map (fun s => fq (is_total s)) fsubs).
Proof.
  intros F. induction F as [|s f r fr H _ IH]; cbn [map sumQ sumQl fold_right]; [reflexivity|].
  destruct H as (_ & _ & (E & _) & _). rewrite E. apply Qplus_comp; [reflexivity|exact IH].
Qed.

Lemma calc_line_refines cr c cur rates l :
  orel line_den (calc_line cr c cur rates l) (s_line rnd cr c cur rates l).
Proof.
  unfold calc_line, s_line. pose proof (calc_subs_refines cr c cur rates (ln_breakdown l)) as PS.
  destruct (calc_subs _ _ _ _ _) as [subs|]; destruct (s_subs _ _ _ _ _ _) as [fsubs|]; try contradiction; [|exact I].
  cbn [orel] in PS.
  set (it := match subs with [] => ln_item l | _ => _ end).
  set (p0 := match fsubs with [] => s_item_price rnd c cur rates (ln_item l) | _ => _ end).
  assert (P : oden (item_price it cur c rates) p0).
  { unfold it, p0. destruct PS as [|s f r fr H Hr]; [apply item_price_refines|].
    set (subs := s :: r). set (fsubs := f :: fr).
    assert (F : Forall2 sub_den subs fsubs) by (constructor; assumption).
    unfold item_price. cbn [it_cur it_price oden].
    apply den_rescale_up. rewrite (subs_price_prec subs fsubs F).
    set (m := maxl _ 0). split; cbn [fq fp]; [|apply rescale_exp].
    rewrite toQ_rescale. apply rnd_proper; [reflexivity|].
    rewrite fold_acc_toQ, toQ_zero, (subs_total_sum subs fsubs F). ring. }
  clearbody it p0.
  destruct (item_price it cur c rates) as [price|]; destruct p0 as [fprice|]; try contradiction; [|exact I].
  cbn [oden] in P. cbn [orel].
  set (e := if cr then c else (c + line_precision_extra)%nat).
  assert (S : den (apply_rr cr c (mul (rescale_up price e) (ln_qty l)))
                  (settle rnd cr c (prod rnd (raise (wmin cr c) fprice) (toQ (ln_qty l))))).
  { apply den_apply_rr, den_mul; [|reflexivity].
    replace (wmin cr c) with e by (unfold e, wmin, line_precision_extra; destruct cr; reflexivity).
    apply den_rescale_up, P. }
  unfold line_den. cbn [lc_price lc_sum lc_total lc_ds lc_cs lc_subs il_price il_sum il_total il_ds il_cs il_subs].
  split; [exact P|]. split; [exact S|].
  assert (D : forall ch xs, Forall2 den
     (ldc_amounts cr c (apply_rr cr c (mul (rescale_up price e) (ln_qty l))) (ln_qty l) ch xs)
     (map (s_row rnd cr c (settle rnd cr c (prod rnd (raise (wmin cr c) fprice) (toQ (ln_qty l)))) (toQ (ln_qty l)) ch) xs)).
  { intros ch xs. apply ldc_amounts_refines; [exact S|reflexivity]. }
  split; [|split; [apply D|split; [apply D|exact PS]]].
  apply total_refines; [exact S|apply D|apply D].
Qed.

Lemma calc_lines_refines cr c cur rates ls :
  orel (Forall2 line_den) (calc_lines cr c cur rates ls) (s_lines rnd cr c cur rates ls).
Proof.
  induction ls as [|l r IH]; cbn [calc_lines s_lines orel]; [constructor|].
  pose proof (calc_line_refines cr c cur rates l) as H.
  destruct (calc_line _ _ _ _ _); destruct (s_line _ _ _ _ _ _); try contradiction;
    destruct (calc_lines _ _ _ _ _); destruct (s_lines _ _ _ _ _ _); try contradiction; cbn [orel] in *; auto.
Qed.
