(* Proofs about tax.Total as a value (Calc/Merge.v): Matches is an equivalence, Merge adds
   component-wise per category and rate group, Negate flips every amount, and the payment
   calculation sums its lines and merges their document summaries. *)
From Coq Require Import ZArith QArith Lia ZifyBool ZifyNat List Bool.
From Verif Require Import Base.Wire Base.Rha Base.RhaProofs Num.Amount Num.AmountProofs
     Calc.Doc Calc.Calc Calc.Merge.
Import ListNotations.
Open Scope Z_scope.

(* ------------------------------------------------------------------------------------------ *)
(* byte strings, extension lists, equals                                                       *)
(* ------------------------------------------------------------------------------------------ *)
Lemma byte_eqb_eq x y : Byte.eqb x y = true <-> x = y.
Proof.
  split.
  - apply Byte.byte_dec_bl.
  - apply Byte.byte_dec_lb.
Qed.

Lemma eqb_bytes_eq a b : eqb_bytes a b = true <-> a = b.
Proof.
  revert b. induction a as [|x a IH]; intros [|y b]; cbn [eqb_bytes].
  - tauto.
  - split; discriminate.
  - split; discriminate.
  - rewrite andb_true_iff, byte_eqb_eq, IH. split.
    + intros [-> ->]. reflexivity.
    + intros E. injection E as -> ->. auto.
Qed.

Lemma eqb_bytes_refl a : eqb_bytes a a = true.
Proof. apply eqb_bytes_eq. reflexivity. Qed.

Lemma eqb_bytes_neq a b : eqb_bytes a b = false <-> a <> b.
Proof.
  rewrite <- eqb_bytes_eq. destruct (eqb_bytes a b); split; congruence.
Qed.

Lemma ext_eqb_eq a b : ext_eqb a b = true <-> a = b.
Proof.
  revert b. induction a as [|[k v] a IH]; intros [|[k2 v2] b]; cbn [ext_eqb].
  - tauto.
  - split; discriminate.
  - split; discriminate.
  - rewrite !andb_true_iff, !eqb_bytes_eq, IH. split.
    + intros [[-> ->] ->]. reflexivity.
    + intros E. injection E as -> -> ->. auto.
Qed.

Lemma equals_refl a : equals a a = true.
Proof. apply equals_iff. reflexivity. Qed.

Lemma equals_sym a b : equals a b = equals b a.
Proof.
  destruct (equals a b) eqn:E1; destruct (equals b a) eqn:E2; try reflexivity.
  - apply equals_iff in E1. symmetry in E1. apply equals_iff in E1. congruence.
  - apply equals_iff in E2. symmetry in E2. apply equals_iff in E2. congruence.
Qed.

Lemma equals_trans a b c : equals a b = true -> equals b c = true -> equals a c = true.
Proof.
  rewrite !equals_iff. intros H1 H2. rewrite H1. exact H2.
Qed.

(* ------------------------------------------------------------------------------------------ *)
(* RateTotal.Matches is an equivalence relation                                                *)
(* ------------------------------------------------------------------------------------------ *)
Lemma rt_Matches_refl a : rt_Matches a a = true.
Proof.
  unfold rt_Matches.
  assert (E1 : ext_eqb (rt_ext a) (rt_ext a) = true) by (apply ext_eqb_eq; reflexivity).
  rewrite E1, eqb_bytes_refl. cbn [andb].
  destruct (rt_pct a) as [p|]; [rewrite equals_refl; cbn [andb]|];
    (destruct (rt_sur a) as [s|]; [apply equals_refl|reflexivity]).
Qed.

Lemma rt_Matches_sym a b : rt_Matches a b = rt_Matches b a.
Proof.
  unfold rt_Matches.
  assert (E1 : ext_eqb (rt_ext a) (rt_ext b) = ext_eqb (rt_ext b) (rt_ext a)).
  { destruct (ext_eqb (rt_ext a) (rt_ext b)) eqn:X; destruct (ext_eqb (rt_ext b) (rt_ext a)) eqn:Y;
      try reflexivity.
    - apply ext_eqb_eq in X. symmetry in X. apply ext_eqb_eq in X. congruence.
    - apply ext_eqb_eq in Y. symmetry in Y. apply ext_eqb_eq in Y. congruence. }
  assert (E2 : eqb_bytes (rt_country a) (rt_country b) = eqb_bytes (rt_country b) (rt_country a)).
  { destruct (eqb_bytes (rt_country a) (rt_country b)) eqn:X;
      destruct (eqb_bytes (rt_country b) (rt_country a)) eqn:Y; try reflexivity.
    - apply eqb_bytes_eq in X. symmetry in X. apply eqb_bytes_eq in X. congruence.
    - apply eqb_bytes_eq in Y. symmetry in Y. apply eqb_bytes_eq in Y. congruence. }
  rewrite E1, E2. f_equal.
  assert (S : match rt_sur a, rt_sur b with None, None => true | Some s, Some s2 => equals s s2 | _, _ => false end =
              match rt_sur b, rt_sur a with None, None => true | Some s, Some s2 => equals s s2 | _, _ => false end).
  { destruct (rt_sur a) as [s|], (rt_sur b) as [s2|]; try reflexivity. apply equals_sym. }
  destruct (rt_pct a) as [p|], (rt_pct b) as [q|]; try reflexivity; cbv zeta.
  - rewrite (equals_sym p q). f_equal. exact S.
  - exact S.
Qed.

Lemma rt_Matches_trans a b c :
  rt_Matches a b = true -> rt_Matches b c = true -> rt_Matches a c = true.
Proof.
  unfold rt_Matches. rewrite !andb_true_iff.
  intros [[X1 Y1] Z1] [[X2 Y2] Z2].
  apply ext_eqb_eq in X1, X2. apply eqb_bytes_eq in Y1, Y2.
  assert (X3 : ext_eqb (rt_ext a) (rt_ext c) = true) by (apply ext_eqb_eq; congruence).
  assert (Y3 : eqb_bytes (rt_country a) (rt_country c) = true) by (apply eqb_bytes_eq; congruence).
  rewrite X3, Y3. split; [split; reflexivity|].
  cbv zeta in *.
  destruct (rt_pct a) as [p|], (rt_pct b) as [q|], (rt_pct c) as [r|]; try discriminate; try reflexivity.
  - apply andb_true_iff in Z1, Z2. destruct Z1 as [P1 S1], Z2 as [P2 S2].
    apply andb_true_iff. split; [exact (equals_trans _ _ _ P1 P2)|].
    destruct (rt_sur a) as [s|], (rt_sur b) as [s2|], (rt_sur c) as [s3|]; try discriminate; try reflexivity.
    exact (equals_trans _ _ _ S1 S2).
  - destruct (rt_sur a) as [s|], (rt_sur b) as [s2|], (rt_sur c) as [s3|]; try discriminate; try reflexivity.
    exact (equals_trans _ _ _ Z1 Z2).
Qed.

(* matching groups answer every key alike *)
Lemma rt_Matches_same_key m r k : rt_Matches m r = true -> rt_Matches m k = rt_Matches r k.
Proof.
  intros H.
  destruct (rt_Matches m k) eqn:E1; destruct (rt_Matches r k) eqn:E2; try reflexivity.
  - rewrite rt_Matches_sym in H. rewrite (rt_Matches_trans _ _ _ H E1) in E2. discriminate.
  - rewrite (rt_Matches_trans _ _ _ H E2) in E1. discriminate.
Qed.

Lemma rt_Matches_join m r k : rt_Matches m k = true -> rt_Matches r k = true -> rt_Matches m r = true.
Proof.
  intros H1 H2. rewrite rt_Matches_sym in H2. exact (rt_Matches_trans _ _ _ H1 H2).
Qed.

(* ------------------------------------------------------------------------------------------ *)
(* keyed merge, generically: rows of type A, looked up with keys of type K                     *)
(* ------------------------------------------------------------------------------------------ *)
Fixpoint pairwise {A} (R : A -> A -> Prop) (l : list A) : Prop :=
  match l with
  | [] => True
  | x :: rest => Forall (R x) rest /\ pairwise R rest
  end.

Section Keyed.
  Variables (A K : Type).
  Variable mt : A -> A -> bool.          (* row matches row *)
  Variable kmt : A -> K -> bool.         (* row answers key *)
  Variable mg : A -> A -> A.             (* merge second row into first *)
  Hypothesis mg_kmt : forall m r k, kmt (mg m r) k = kmt m k.
  Hypothesis mg_mt_l : forall m r x, mt (mg m r) x = mt m x.
  Hypothesis mg_mt_r : forall m r x, mt x (mg m r) = mt x m.
  Hypothesis mt_kmt : forall m r k, mt m r = true -> kmt m k = kmt r k.
  Hypothesis kmt_mt : forall m r k, kmt m k = true -> kmt r k = true -> mt m r = true.

  Fixpoint kmerge (l : list A) (r : A) : list A :=
    match l with
    | [] => [r]
    | m :: rest => if mt m r then mg m r :: rest else m :: kmerge rest r
    end.

  Fixpoint kfind (k : K) (l : list A) : option A :=
    match l with
    | [] => None
    | m :: rest => if kmt m k then Some m else kfind k rest
    end.

  Definition distinct_rows : list A -> Prop := pairwise (fun x y => mt x y = false).

  Lemma kfind_kmerge k l r :
    kfind k (kmerge l r) =
    if kmt r k then Some (match kfind k l with Some m => mg m r | None => r end) else kfind k l.
  Proof.
    induction l as [|m rest IH]; cbn [kmerge kfind].
    - reflexivity.
    - destruct (mt m r) eqn:E; cbn [kfind].
      + rewrite mg_kmt. rewrite (mt_kmt m r k E).
        destruct (kmt r k); reflexivity.
      + rewrite IH. destruct (kmt m k) eqn:E1; [|reflexivity].
        destruct (kmt r k) eqn:E2; [|reflexivity].
        rewrite (kmt_mt m r k E1 E2) in E. discriminate.
  Qed.

  Lemma kfind_none_of_distinct k r l :
    Forall (fun y => mt r y = false) l -> kmt r k = true -> kfind k l = None.
  Proof.
    intros F Hr. induction F as [|y l Hy F IH]; cbn [kfind]; [reflexivity|].
    destruct (kmt y k) eqn:E; [|exact IH].
    rewrite (kmt_mt r y k Hr E) in Hy. discriminate.
  Qed.

  Definition merged_row (a b : option A) : option A :=
    match a, b with
    | Some m, Some r => Some (mg m r)
    | Some m, None => Some m
    | None, Some r => Some r
    | None, None => None
    end.

  Lemma kfind_fold k l2 : distinct_rows l2 -> forall l1,
    kfind k (fold_left kmerge l2 l1) = merged_row (kfind k l1) (kfind k l2).
  Proof.
    induction l2 as [|r l2 IH]; intros D l1; cbn [fold_left kfind].
    - unfold merged_row. destruct (kfind k l1); reflexivity.
    - destruct D as [D1 D2]. rewrite (IH D2). rewrite kfind_kmerge.
      destruct (kmt r k) eqn:E.
      + rewrite (kfind_none_of_distinct k r l2 D1 E).
        unfold merged_row. destruct (kfind k l1); reflexivity.
      + reflexivity.
  Qed.

  Lemma kmerge_Forall (Q : A -> Prop) l r :
    (forall m, Q m -> mt m r = true -> Q (mg m r)) ->
    Forall Q l -> Q r -> Forall Q (kmerge l r).
  Proof.
    intros Hm F Hr. induction F as [|m rest Qm F IH]; cbn [kmerge].
    - constructor; [exact Hr|constructor].
    - destruct (mt m r) eqn:E.
      + constructor; [apply Hm; assumption|exact F].
      + constructor; assumption.
  Qed.

  Lemma kfold_Forall (Q : A -> Prop) l2 :
    (forall m r, Q m -> Q r -> mt m r = true -> Q (mg m r)) ->
    Forall Q l2 -> forall l1, Forall Q l1 -> Forall Q (fold_left kmerge l2 l1).
  Proof.
    intros Hm F2. induction F2 as [|r l2 Qr F2 IH]; intros l1 F1; cbn [fold_left].
    - exact F1.
    - apply IH. apply kmerge_Forall; try assumption.
      intros m Qm E. apply Hm; assumption.
  Qed.

  Lemma kmerge_distinct l r : distinct_rows l -> distinct_rows (kmerge l r).
  Proof.
    unfold distinct_rows. induction l as [|m rest IH]; intros D; cbn [kmerge].
    - cbn [pairwise]. split; constructor.
    - destruct D as [D1 D2]. destruct (mt m r) eqn:E; cbn [pairwise].
      + split; [|exact D2].
        eapply Forall_impl; [|exact D1]. intros y Hy. cbn beta in *. rewrite mg_mt_l. exact Hy.
      + split; [|apply IH; exact D2].
        apply kmerge_Forall; try assumption.
        intros y Hy _. rewrite mg_mt_r. exact Hy.
  Qed.

  Lemma kfold_distinct l2 : forall l1, distinct_rows l1 -> distinct_rows (fold_left kmerge l2 l1).
  Proof.
    induction l2 as [|r l2 IH]; intros l1 D; cbn [fold_left]; [exact D|].
    apply IH, kmerge_distinct, D.
  Qed.

  Lemma kfind_map (f : A -> A) k l :
    (forall x, kmt (f x) k = kmt x k) -> kfind k (map f l) = option_map f (kfind k l).
  Proof.
    intros Hf. induction l as [|m rest IH]; cbn [map kfind]; [reflexivity|].
    rewrite Hf. destruct (kmt m k); [reflexivity|exact IH].
  Qed.

  Lemma map_distinct (f : A -> A) l :
    (forall x y, mt (f x) (f y) = mt x y) -> distinct_rows l -> distinct_rows (map f l).
  Proof.
    intros Hf. unfold distinct_rows. induction l as [|m rest IH]; intros D; cbn [map pairwise]; [exact I|].
    destruct D as [D1 D2]. split; [|apply IH; exact D2].
    apply Forall_map. eapply Forall_impl; [|exact D1]. intros y Hy. cbn beta in *. rewrite Hf. exact Hy.
  Qed.
End Keyed.

Lemma kfind_some A K (kmt : A -> K -> bool) k l m :
  kfind A K kmt k l = Some m -> In m l /\ kmt m k = true.
Proof.
  induction l as [|x rest IH]; cbn [kfind]; [discriminate|].
  destruct (kmt x k) eqn:E.
  - intros H. injection H as ->. split; [left; reflexivity|exact E].
  - intros H. destruct (IH H) as [I1 I2]. split; [right; exact I1|exact I2].
Qed.

Lemma pairwise_iff {A} (R R' : A -> A -> Prop) l :
  (forall x y, R x y <-> R' x y) -> pairwise R l <-> pairwise R' l.
Proof.
  intros H. induction l as [|x rest IH]; cbn [pairwise]; [tauto|].
  rewrite IH. rewrite (Forall_forall (R x)), (Forall_forall (R' x)).
  split; intros [F P]; (split; [|exact P]); intros y Hy; apply H, F, Hy.
Qed.

(* ------------------------------------------------------------------------------------------ *)
(* amounts of one precision                                                                    *)
(* ------------------------------------------------------------------------------------------ *)
Lemma add_same_exp a b : exp b = exp a -> add a b = mkA (val a + val b) (exp a).
Proof. intros H. unfold add. rewrite rescale_same by exact H. reflexivity. Qed.

Lemma add_val_same_exp a b : exp b = exp a -> val (add a b) = val a + val b.
Proof. intros H. rewrite add_same_exp by exact H. reflexivity. Qed.

Lemma add_negate_zero a : val (add a (negate a)) = 0.
Proof. rewrite add_val_same_exp by reflexivity. cbn [negate val]. lia. Qed.

(* at one precision x.MatchPrecision(y).Add(y) is x.Add(y) *)
Lemma add_precise_same_exp a b : exp b = exp a -> add_precise a b = add a b.
Proof.
  intros H. unfold add_precise, match_precision, rescale_up. rewrite H, Nat.ltb_irrefl. reflexivity.
Qed.

Lemma add_precise_val_same_exp a b : exp b = exp a -> val (add_precise a b) = val a + val b.
Proof. intros H. rewrite add_precise_same_exp by exact H. apply add_val_same_exp, H. Qed.

Lemma add_precise_exp_same a b : exp b = exp a -> exp (add_precise a b) = exp a.
Proof. intros H. rewrite add_precise_same_exp by exact H. reflexivity. Qed.

(* in general it has the finer of the two precisions *)
Lemma add_precise_exp a b : exp (add_precise a b) = Nat.max (exp a) (exp b).
Proof.
  unfold add_precise, match_precision, rescale_up. rewrite add_exp.
  destruct (Nat.ltb (exp a) (exp b)) eqn:E.
  - apply Nat.ltb_lt in E. rewrite rescale_exp. lia.
  - apply Nat.ltb_ge in E. lia.
Qed.

(* ------------------------------------------------------------------------------------------ *)
(* well-formed summaries and the lookup view                                                   *)
(* ------------------------------------------------------------------------------------------ *)

(* a rate group at currency precision c: every amount has c decimals; an exempt group carries no
   surcharge rate, and a group without surcharge rate carries a zero surcharge amount (the Go
   struct cannot hold one: RateTotal.Surcharge is a single optional {Percent, Amount}) *)
Definition wf_rt (c : nat) (r : rate_total) : Prop :=
  exp (rt_base r) = c /\ exp (rt_amount r) = c /\ exp (rt_suramount r) = c /\
  (rt_pct r = None -> rt_sur r = None) /\
  (rt_sur r = None -> val (rt_suramount r) = 0).

Definition distinct_groups : list rate_total -> Prop :=
  pairwise (fun a b => rt_Matches a b = false).
Definition distinct_codes : list cat_total -> Prop :=
  pairwise (fun a b => ct_code a <> ct_code b).

Definition wf_ct (c : nat) (ct : cat_total) : Prop :=
  distinct_groups (ct_rates ct) /\ Forall (wf_rt c) (ct_rates ct) /\
  exp (ct_amount ct) = c /\ (forall s, ct_surcharge ct = Some s -> exp s = c).

(* the unexported working-precision amounts (ct_precise, tt_precise) are left unconstrained *)
Definition wf_tt (c : nat) (t : tax_total) : Prop :=
  distinct_codes (tt_cats t) /\ Forall (wf_ct c) (tt_cats t) /\ exp (tt_sum t) = c.

(* the same without any precision: distinct codes and groups, exempt groups without surcharge rate,
   no surcharge amount without surcharge rate *)
Definition shape_rt (r : rate_total) : Prop :=
  (rt_pct r = None -> rt_sur r = None) /\ (rt_sur r = None -> val (rt_suramount r) = 0).
Definition wf_shape (t : tax_total) : Prop :=
  distinct_codes (tt_cats t) /\
  Forall (fun ct => distinct_groups (ct_rates ct) /\ Forall shape_rt (ct_rates ct)) (tt_cats t).

Fixpoint find_group (key : rate_total) (rts : list rate_total) : option rate_total :=
  match rts with
  | [] => None
  | m :: rest => if rt_Matches m key then Some m else find_group key rest
  end.

Definition cat_of (t : tax_total) (code : bytes) : option cat_total := find_cat code (tt_cats t).
Definition group_of (t : tax_total) (code : bytes) (key : rate_total) : option rate_total :=
  match cat_of t code with Some ct => find_group key (ct_rates ct) | None => None end.

Definition has_cat t code : bool := match cat_of t code with Some _ => true | None => false end.
Definition has_group t code key : bool := match group_of t code key with Some _ => true | None => false end.
Definition group_base t code key : Z :=
  match group_of t code key with Some g => val (rt_base g) | None => 0 end.
Definition group_amount t code key : Z :=
  match group_of t code key with Some g => val (rt_amount g) | None => 0 end.
Definition group_suramount t code key : Z :=
  match group_of t code key with Some g => val (rt_suramount g) | None => 0 end.
Definition cat_amount t code : Z :=
  match cat_of t code with Some ct => val (ct_amount ct) | None => 0 end.
Definition cat_surcharge t code : option Z :=
  match cat_of t code with Some ct => option_map val (ct_surcharge ct) | None => None end.

Definition opt_sum (a b : option Z) : option Z :=
  match a, b with
  | Some x, Some y => Some (x + y)
  | Some x, None => Some x
  | None, Some y => Some y
  | None, None => None
  end.

(* ---- the model's functions are instances of the generic ones ---- *)
Definition ct_same (m c : cat_total) : bool := eqb_bytes (ct_code m) (ct_code c).
Definition ct_has (m : cat_total) (code : bytes) : bool := eqb_bytes (ct_code m) code.

Lemma merge_rate_k rts r : merge_rate rts r = kmerge _ rt_Matches rt_merge rts r.
Proof. induction rts as [|m rest IH]; cbn [merge_rate kmerge]; [reflexivity|]. rewrite IH. reflexivity. Qed.

Lemma fold_merge_rate_k l2 : forall l1,
  fold_left merge_rate l2 l1 = fold_left (kmerge _ rt_Matches rt_merge) l2 l1.
Proof. induction l2 as [|r l2 IH]; intros l1; cbn [fold_left]; [reflexivity|]. rewrite merge_rate_k. apply IH. Qed.

Lemma find_group_k key rts : find_group key rts = kfind _ _ rt_Matches key rts.
Proof. induction rts as [|m rest IH]; cbn [find_group kfind]; [reflexivity|]. rewrite IH. reflexivity. Qed.

Lemma merge_cat_k mp cts c : merge_cat_with mp cts c = kmerge _ ct_same (ct_merge_with mp) cts c.
Proof.
  induction cts as [|m rest IH]; cbn [merge_cat_with kmerge]; [reflexivity|].
  rewrite IH. reflexivity.
Qed.

Lemma fold_merge_cat_k mp l2 : forall l1,
  fold_left (merge_cat_with mp) l2 l1 = fold_left (kmerge _ ct_same (ct_merge_with mp)) l2 l1.
Proof. induction l2 as [|r l2 IH]; intros l1; cbn [fold_left]; [reflexivity|]. rewrite merge_cat_k. apply IH. Qed.

Lemma find_cat_k code cts : find_cat code cts = kfind _ _ ct_has code cts.
Proof. induction cts as [|m rest IH]; cbn [find_cat kfind]; [reflexivity|]. rewrite IH. reflexivity. Qed.

Lemma distinct_groups_k l : distinct_groups l <-> distinct_rows _ rt_Matches l.
Proof. reflexivity. Qed.

Lemma distinct_codes_k l : distinct_codes l <-> distinct_rows _ ct_same l.
Proof.
  unfold distinct_codes, distinct_rows. apply pairwise_iff. intros x y.
  unfold ct_same. symmetry. apply eqb_bytes_neq.
Qed.

Lemma ct_same_has m r k : ct_same m r = true -> ct_has m k = ct_has r k.
Proof. unfold ct_same, ct_has. rewrite eqb_bytes_eq. intros ->. reflexivity. Qed.

Lemma ct_has_same m r k : ct_has m k = true -> ct_has r k = true -> ct_same m r = true.
Proof. unfold ct_same, ct_has. rewrite !eqb_bytes_eq. congruence. Qed.

(* ---- lookup in a merge ---- *)
Lemma find_group_fold key l2 l1 : distinct_groups l2 ->
  find_group key (fold_left merge_rate l2 l1) =
  merged_row _ rt_merge (find_group key l1) (find_group key l2).
Proof.
  intros D. rewrite fold_merge_rate_k, !find_group_k.
  apply kfind_fold; try assumption.
  - reflexivity.
  - intros m r k. apply rt_Matches_same_key.
  - intros m r k. apply rt_Matches_join.
Qed.

Lemma find_cat_fold mp code l2 l1 : distinct_codes l2 ->
  find_cat code (fold_left (merge_cat_with mp) l2 l1) =
  merged_row _ (ct_merge_with mp) (find_cat code l1) (find_cat code l2).
Proof.
  intros D. rewrite fold_merge_cat_k, !find_cat_k.
  apply kfind_fold.
  - reflexivity.
  - apply ct_same_has.
  - apply ct_has_same.
  - apply distinct_codes_k, D.
Qed.

Lemma find_cat_some code cts ct : find_cat code cts = Some ct -> In ct cts /\ ct_code ct = code.
Proof.
  rewrite find_cat_k. intros H. apply kfind_some in H. destruct H as [H1 H2].
  split; [exact H1|]. apply eqb_bytes_eq, H2.
Qed.

Lemma find_group_some key rts g : find_group key rts = Some g -> In g rts /\ rt_Matches g key = true.
Proof. rewrite find_group_k. apply kfind_some. Qed.

Lemma cat_of_wf c t code ct : wf_tt c t -> cat_of t code = Some ct -> wf_ct c ct.
Proof.
  intros (_ & F & _) H. apply find_cat_some in H. destruct H as [H _].
  rewrite Forall_forall in F. apply F, H.
Qed.

Lemma group_of_wf c t code key g : wf_tt c t -> group_of t code key = Some g -> wf_rt c g.
Proof.
  intros W. unfold group_of. destruct (cat_of t code) as [ct|] eqn:E; [|discriminate].
  intros H. apply find_group_some in H. destruct H as [H _].
  pose proof (cat_of_wf c t code ct W E) as (_ & F & _).
  rewrite Forall_forall in F. apply F, H.
Qed.

Lemma cat_of_merge mp t1 t2 code : distinct_codes (tt_cats t2) ->
  cat_of (tt_merge_with mp t1 t2) code =
  merged_row _ (ct_merge_with mp) (cat_of t1 code) (cat_of t2 code).
Proof. intros D. unfold cat_of, tt_merge_with. cbn [tt_cats]. apply find_cat_fold, D. Qed.

Lemma group_of_merge_shape t1 t2 code key : wf_shape t2 ->
  group_of (tt_merge t1 t2) code key =
  merged_row _ rt_merge (group_of t1 code key) (group_of t2 code key).
Proof.
  intros (D & F). unfold group_of, tt_merge. rewrite cat_of_merge by exact D.
  destruct (cat_of t1 code) as [m|] eqn:E1; destruct (cat_of t2 code) as [r|] eqn:E2; cbn [merged_row].
  - unfold ct_merge_with. cbn [ct_rates mp_merge_rate mp_repaired]. apply find_group_fold.
    apply find_cat_some in E2. destruct E2 as [E2 _]. rewrite Forall_forall in F. apply (F r E2).
  - destruct (find_group key (ct_rates m)); reflexivity.
  - destruct (find_group key (ct_rates r)); reflexivity.
  - reflexivity.
Qed.

Lemma group_of_merge c t1 t2 code key : wf_tt c t2 ->
  group_of (tt_merge t1 t2) code key =
  merged_row _ rt_merge (group_of t1 code key) (group_of t2 code key).
Proof.
  intros W. unfold group_of, tt_merge. rewrite cat_of_merge by apply W.
  destruct (cat_of t1 code) as [m|] eqn:E1; destruct (cat_of t2 code) as [r|] eqn:E2; cbn [merged_row].
  - unfold ct_merge_with. cbn [ct_rates mp_merge_rate mp_repaired]. apply find_group_fold.
    apply (cat_of_wf c t2 code r W E2).
  - destruct (find_group key (ct_rates m)); reflexivity.
  - destruct (find_group key (ct_rates r)); reflexivity.
  - reflexivity.
Qed.

(* ---- merged rows stay well formed ---- *)
Lemma rt_Matches_sur_agree c m r : wf_rt c m -> wf_rt c r -> rt_Matches m r = true ->
  (rt_sur m = None <-> rt_sur r = None).
Proof.
  intros (_ & _ & _ & Pm & _) (_ & _ & _ & Pr & _). unfold rt_Matches.
  rewrite !andb_true_iff. intros [_ H].
  destruct (rt_pct m) as [p|], (rt_pct r) as [q|]; try discriminate.
  - apply andb_true_iff in H. destruct H as [_ H].
    destruct (rt_sur m), (rt_sur r); try discriminate; split; intros; (discriminate || reflexivity).
  - rewrite Pm, Pr by reflexivity. tauto.
Qed.

Lemma rt_merge_wf c m r : wf_rt c m -> wf_rt c r -> rt_Matches m r = true -> wf_rt c (rt_merge m r).
Proof.
  intros Wm Wr M. pose proof (rt_Matches_sur_agree c m r Wm Wr M) as Ag.
  destruct Wm as (B1 & A1 & S1 & P1 & Z1), Wr as (B2 & A2 & S2 & P2 & Z2).
  unfold wf_rt, rt_merge. cbn [rt_base rt_amount rt_suramount rt_pct rt_sur].
  rewrite !add_precise_exp_same by congruence. repeat split; try assumption.
  - destruct (rt_sur r); [rewrite add_precise_exp_same by congruence|]; assumption.
  - intros N. destruct (rt_sur r) eqn:E; [|apply Z1, N].
    apply Ag in N. discriminate.
Qed.

Lemma rt_merge_vals c m r : wf_rt c m -> wf_rt c r ->
  val (rt_base (rt_merge m r)) = val (rt_base m) + val (rt_base r) /\
  val (rt_amount (rt_merge m r)) = val (rt_amount m) + val (rt_amount r) /\
  val (rt_suramount (rt_merge m r)) = val (rt_suramount m) + val (rt_suramount r).
Proof.
  intros (B1 & A1 & S1 & P1 & Z1) (B2 & A2 & S2 & P2 & Z2).
  unfold rt_merge. cbn [rt_base rt_amount rt_suramount].
  rewrite !add_precise_val_same_exp by congruence. repeat split.
  destruct (rt_sur r) eqn:E.
  - apply add_precise_val_same_exp. congruence.
  - rewrite Z2 by reflexivity. lia.
Qed.

Lemma sur_merge_exp c a b :
  (forall s, a = Some s -> exp s = c) -> (forall s, b = Some s -> exp s = c) ->
  forall s, sur_merge a b = Some s -> exp s = c.
Proof.
  intros Ha Hb s. unfold sur_merge. destruct b as [y|]; [|apply Ha].
  destruct a as [x|]; intros H; injection H as <-.
  - rewrite add_precise_exp_same; [apply Ha; reflexivity|]. rewrite (Ha x), (Hb y); reflexivity.
  - apply Hb. reflexivity.
Qed.

Lemma ct_merge_wf c m r : wf_ct c m -> wf_ct c r -> wf_ct c (ct_merge_with mp_repaired m r).
Proof.
  intros (D1 & F1 & A1 & S1) (D2 & F2 & A2 & S2).
  unfold wf_ct, ct_merge_with. cbn [ct_rates ct_amount ct_surcharge mp_sur mp_add mp_merge_rate mp_repaired].
  rewrite fold_merge_rate_k. repeat split.
  - apply distinct_groups_k. apply kfold_distinct; try reflexivity. apply D1.
  - apply kfold_Forall; try assumption. apply rt_merge_wf.
  - rewrite add_precise_exp_same by congruence. exact A1.
  - apply sur_merge_exp; assumption.
Qed.

Lemma tt_merge_wf c t1 t2 : wf_tt c t1 -> wf_tt c t2 -> wf_tt c (tt_merge t1 t2).
Proof.
  intros (D1 & F1 & S1) (D2 & F2 & S2).
  unfold wf_tt, tt_merge, tt_merge_with. cbn [tt_cats tt_sum mp_add mp_repaired].
  rewrite fold_merge_cat_k. repeat split.
  - apply distinct_codes_k. apply kfold_distinct; try reflexivity. apply distinct_codes_k, D1.
  - apply kfold_Forall; try assumption. intros m r Wm Wr _. apply ct_merge_wf; assumption.
  - rewrite add_precise_exp_same by congruence. exact S1.
Qed.

(* ---- (b) Merge adds component-wise ---- *)
Lemma sur_merge_vals c a b :
  (forall s, a = Some s -> exp s = c) -> (forall s, b = Some s -> exp s = c) ->
  option_map val (sur_merge a b) = opt_sum (option_map val a) (option_map val b).
Proof.
  intros Ha Hb. destruct a as [x|], b as [y|]; cbn [sur_merge option_map opt_sum]; try reflexivity.
  rewrite add_precise_val_same_exp; [reflexivity|].
  rewrite (Ha x), (Hb y); reflexivity.
Qed.

Lemma merge_groups c t1 t2 code key : wf_tt c t1 -> wf_tt c t2 ->
  let m := tt_merge t1 t2 in
  group_base m code key = group_base t1 code key + group_base t2 code key /\
  group_amount m code key = group_amount t1 code key + group_amount t2 code key /\
  group_suramount m code key = group_suramount t1 code key + group_suramount t2 code key /\
  has_group m code key = has_group t1 code key || has_group t2 code key.
Proof.
  intros W1 W2 m. unfold group_base, group_amount, group_suramount, has_group, m, tt_merge.
  fold (tt_merge t1 t2). rewrite (group_of_merge c t1 t2 code key W2).
  destruct (group_of t1 code key) as [g1|] eqn:E1; destruct (group_of t2 code key) as [g2|] eqn:E2;
    cbn [merged_row orb].
  - pose proof (rt_merge_vals c g1 g2 (group_of_wf _ _ _ _ _ W1 E1) (group_of_wf _ _ _ _ _ W2 E2))
      as (H1 & H2 & H3).
    rewrite H1, H2, H3. repeat split.
  - repeat split; lia.
  - repeat split; lia.
  - repeat split.
Qed.

Lemma merge_cats c t1 t2 code : wf_tt c t1 -> wf_tt c t2 ->
  let m := tt_merge t1 t2 in
  cat_amount m code = cat_amount t1 code + cat_amount t2 code /\
  cat_surcharge m code = opt_sum (cat_surcharge t1 code) (cat_surcharge t2 code) /\
  has_cat m code = has_cat t1 code || has_cat t2 code.
Proof.
  intros W1 W2 m. unfold cat_amount, cat_surcharge, has_cat, m, tt_merge.
  rewrite (cat_of_merge mp_repaired t1 t2 code) by apply W2.
  destruct (cat_of t1 code) as [c1|] eqn:E1; destruct (cat_of t2 code) as [c2|] eqn:E2;
    cbn [merged_row orb].
  - pose proof (cat_of_wf _ _ _ _ W1 E1) as (_ & _ & A1 & S1).
    pose proof (cat_of_wf _ _ _ _ W2 E2) as (_ & _ & A2 & S2).
    unfold ct_merge_with. cbn [ct_amount ct_surcharge mp_sur mp_add mp_repaired].
    rewrite add_precise_val_same_exp by congruence.
    rewrite (sur_merge_vals c) by assumption. repeat split.
  - repeat split; [lia|]. destruct (option_map val (ct_surcharge c1)); reflexivity.
  - repeat split. destruct (option_map val (ct_surcharge c2)); reflexivity.
  - repeat split.
Qed.

Lemma merge_componentwise c t1 t2 : wf_tt c t1 -> wf_tt c t2 ->
  let m := tt_merge t1 t2 in
  wf_tt c m /\
  (forall code key,
     group_base m code key = group_base t1 code key + group_base t2 code key /\
     group_amount m code key = group_amount t1 code key + group_amount t2 code key /\
     group_suramount m code key = group_suramount t1 code key + group_suramount t2 code key /\
     has_group m code key = has_group t1 code key || has_group t2 code key) /\
  (forall code,
     cat_amount m code = cat_amount t1 code + cat_amount t2 code /\
     cat_surcharge m code = opt_sum (cat_surcharge t1 code) (cat_surcharge t2 code) /\
     has_cat m code = has_cat t1 code || has_cat t2 code) /\
  val (tt_sum m) = val (tt_sum t1) + val (tt_sum t2).
Proof.
  intros W1 W2 m. split; [apply tt_merge_wf; assumption|]. split; [|split].
  - intros code key. apply (merge_groups c); assumption.
  - intros code. apply (merge_cats c); assumption.
  - unfold m, tt_merge, tt_merge_with. cbn [tt_sum mp_add mp_repaired]. apply add_precise_val_same_exp.
    destruct W1 as (_ & _ & S1), W2 as (_ & _ & S2). congruence.
Qed.

(* sequences of merges stay inside the theorem *)
Definition zsum (l : list Z) : Z := fold_right Z.add 0 l.

Lemma merge_all_componentwise c ts : Forall (wf_tt c) ts -> forall t, wf_tt c t ->
  let m := fold_left tt_merge ts t in
  wf_tt c m /\
  (forall code key,
     group_base m code key = group_base t code key + zsum (map (fun x => group_base x code key) ts) /\
     group_amount m code key = group_amount t code key + zsum (map (fun x => group_amount x code key) ts) /\
     group_suramount m code key =
       group_suramount t code key + zsum (map (fun x => group_suramount x code key) ts)) /\
  (forall code,
     cat_amount m code = cat_amount t code + zsum (map (fun x => cat_amount x code) ts) /\
     cat_surcharge m code = fold_left opt_sum (map (fun x => cat_surcharge x code) ts) (cat_surcharge t code)) /\
  val (tt_sum m) = val (tt_sum t) + zsum (map (fun x => val (tt_sum x)) ts).
Proof.
  intros F. induction F as [|t2 ts W2 F IH]; intros t W; cbn [fold_left map zsum fold_right].
  - split; [exact W|]. repeat split; lia.
  - destruct (merge_componentwise c t t2 W W2) as (Wm & G & C & S).
    destruct (IH _ Wm) as (Wf & G' & C' & S'). split; [exact Wf|]. split; [|split].
    + intros code key. destruct (G' code key) as (H1 & H2 & H3). destruct (G code key) as (K1 & K2 & K3 & _).
      fold (zsum (map (fun x => group_base x code key) ts)).
      fold (zsum (map (fun x => group_amount x code key) ts)).
      fold (zsum (map (fun x => group_suramount x code key) ts)).
      rewrite H1, H2, H3, K1, K2, K3. repeat split; lia.
    + intros code. destruct (C' code) as (H1 & H2). destruct (C code) as (K1 & K2 & _).
      fold (zsum (map (fun x => cat_amount x code) ts)).
      rewrite H1, H2, K1, K2. split; [lia|reflexivity].
    + fold (zsum (map (fun x => val (tt_sum x)) ts)). rewrite S', S. lia.
Qed.

(* ---- (c) operand order only affects row order ---- *)
Lemma opt_sum_comm a b : opt_sum a b = opt_sum b a.
Proof. destruct a, b; cbn [opt_sum]; try reflexivity. f_equal. lia. Qed.

Lemma merge_comm_up_to_order c t1 t2 : wf_tt c t1 -> wf_tt c t2 ->
  let a := tt_merge t1 t2 in
  let b := tt_merge t2 t1 in
  (forall code key,
     group_base a code key = group_base b code key /\
     group_amount a code key = group_amount b code key /\
     group_suramount a code key = group_suramount b code key /\
     has_group a code key = has_group b code key) /\
  (forall code,
     cat_amount a code = cat_amount b code /\
     cat_surcharge a code = cat_surcharge b code /\
     has_cat a code = has_cat b code) /\
  val (tt_sum a) = val (tt_sum b) /\ exp (tt_sum a) = exp (tt_sum b).
Proof.
  intros W1 W2 a b.
  destruct (merge_componentwise c t1 t2 W1 W2) as (Wa & G1 & C1 & S1).
  destruct (merge_componentwise c t2 t1 W2 W1) as (Wb & G2 & C2 & S2).
  fold a in Wa, G1, C1, S1. fold b in Wb, G2, C2, S2.
  split; [|split; [|split]].
  - intros code key. destruct (G1 code key) as (H1 & H2 & H3 & H4).
    destruct (G2 code key) as (K1 & K2 & K3 & K4).
    rewrite H1, H2, H3, H4, K1, K2, K3, K4. repeat split; try lia. apply orb_comm.
  - intros code. destruct (C1 code) as (H1 & H2 & H3). destruct (C2 code) as (K1 & K2 & K3).
    rewrite H1, H2, H3, K1, K2, K3. repeat split; [lia|apply opt_sum_comm|apply orb_comm].
  - lia.
  - destruct Wa as (_ & _ & Ea), Wb as (_ & _ & Eb). congruence.
Qed.

(* ---- amounts accumulated without loss: x.MatchPrecision(y).Add(y) ---- *)
Lemma match_precision_toQ a b : toQ (match_precision a b) == toQ a.
Proof.
  unfold match_precision, rescale_up. destruct (Nat.ltb (exp a) (exp b)) eqn:E; [|reflexivity].
  apply Nat.ltb_lt in E. apply rescale_lossless. lia.
Qed.

Lemma match_precision_exp a b : (exp b <= exp (match_precision a b))%nat.
Proof.
  unfold match_precision, rescale_up. destruct (Nat.ltb (exp a) (exp b)) eqn:E.
  - rewrite rescale_exp. lia.
  - apply Nat.ltb_ge in E. exact E.
Qed.

Lemma acc_add_toQ t a : toQ (add (match_precision t a) a) == toQ t + toQ a.
Proof. rewrite add_no_loss by apply match_precision_exp. rewrite match_precision_toQ. reflexivity. Qed.

Lemma acc_sub_toQ t a : toQ (sub (match_precision t a) a) == toQ t - toQ a.
Proof.
  rewrite sub_add_negate. rewrite add_no_loss by (cbn [negate exp]; apply match_precision_exp).
  rewrite match_precision_toQ, negate_toQ. reflexivity.
Qed.

Lemma zero_of_toQ c : toQ (zero_of c) == 0.
Proof. unfold Qeq, toQ, zero_of. cbn [Qnum Qden val]. lia. Qed.

(* the unexported figures under Negate: PreciseAmount / PreciseSum commute with it *)
Lemma precise_or_negate p s : precise_or (negate p) (negate s) = negate (precise_or p s).
Proof.
  unfold precise_or, is_zero. cbn [negate val].
  destruct (val p =? 0) eqn:E; destruct (- val p =? 0) eqn:E2; try reflexivity; lia.
Qed.

Lemma tt_PreciseSum_negate t : tt_PreciseSum (tt_negate t) = negate (tt_PreciseSum t).
Proof. unfold tt_PreciseSum, tt_negate. cbn [tt_precise tt_sum]. apply precise_or_negate. Qed.

Lemma add_precise_negate_zero x : val (add_precise x (negate x)) = 0.
Proof.
  unfold add_precise, match_precision, rescale_up. cbn [negate exp]. rewrite Nat.ltb_irrefl.
  apply add_negate_zero.
Qed.

(* ---- (b') Merge sums the unexported precise figures ---- *)
(* the figure PreciseAmount() / PreciseSum() answers, and the raw unexported field *)
Definition cat_precise (t : tax_total) (code : bytes) : Q :=
  match cat_of t code with Some ct => toQ (ct_PreciseAmount ct) | None => 0%Q end.
Definition cat_precise_field (t : tax_total) (code : bytes) : Q :=
  match cat_of t code with Some ct => toQ (ct_precise ct) | None => 0%Q end.

Lemma add_precise_toQ x y : toQ (add_precise x y) == toQ x + toQ y.
Proof. apply acc_add_toQ. Qed.

Lemma is_zero_toQ a : is_zero a = true -> toQ a == 0.
Proof.
  unfold is_zero. intros H. apply Z.eqb_eq in H. unfold Qeq, toQ. cbn [Qnum Qden]. rewrite H. reflexivity.
Qed.

Lemma precise_or_nonzero p s : ~ toQ p == 0 -> precise_or p s = p.
Proof.
  intros H. unfold precise_or. destruct (is_zero p) eqn:E; [|reflexivity].
  exfalso. apply H, is_zero_toQ, E.
Qed.

Lemma merge_precise_fields t1 t2 : distinct_codes (tt_cats t2) ->
  let m := tt_merge t1 t2 in
  (forall code,
     cat_precise_field m code ==
     if has_cat t1 code && has_cat t2 code then cat_precise t1 code + cat_precise t2 code
     else cat_precise_field t1 code + cat_precise_field t2 code) /\
  toQ (tt_precise m) == toQ (tt_PreciseSum t1) + toQ (tt_PreciseSum t2).
Proof.
  intros D m. split.
  - intros code. unfold cat_precise_field, cat_precise, has_cat, m, tt_merge.
    rewrite (cat_of_merge mp_repaired t1 t2 code D).
    destruct (cat_of t1 code) as [c1|]; destruct (cat_of t2 code) as [c2|]; cbn [merged_row andb].
    + unfold ct_merge_with. cbn [ct_precise mp_cat_precise mp_repaired]. apply add_precise_toQ.
    + ring.
    + ring.
    + ring.
  - unfold m, tt_merge, tt_merge_with. cbn [tt_precise mp_sum_precise mp_repaired]. apply add_precise_toQ.
Qed.

Lemma merge_precise_componentwise t1 t2 : distinct_codes (tt_cats t2) ->
  let m := tt_merge t1 t2 in
  (forall code, ~ cat_precise t1 code + cat_precise t2 code == 0 ->
     cat_precise m code == cat_precise t1 code + cat_precise t2 code) /\
  (~ toQ (tt_PreciseSum t1) + toQ (tt_PreciseSum t2) == 0 ->
     toQ (tt_PreciseSum m) == toQ (tt_PreciseSum t1) + toQ (tt_PreciseSum t2)).
Proof.
  intros D m. split.
  - intros code. unfold cat_precise, m, tt_merge.
    rewrite (cat_of_merge mp_repaired t1 t2 code D).
    destruct (cat_of t1 code) as [c1|]; destruct (cat_of t2 code) as [c2|]; cbn [merged_row]; intros NZ.
    + unfold ct_PreciseAmount at 1. unfold ct_merge_with. cbn [ct_precise ct_amount mp_cat_precise mp_repaired].
      rewrite precise_or_nonzero; [apply add_precise_toQ|].
      rewrite add_precise_toQ. exact NZ.
    + ring.
    + ring.
    + ring.
  - intros NZ. unfold tt_PreciseSum at 1. unfold m, tt_merge, tt_merge_with.
    cbn [tt_precise tt_sum mp_sum_precise mp_repaired].
    rewrite precise_or_nonzero; [apply add_precise_toQ|].
    rewrite add_precise_toQ. exact NZ.
Qed.

Lemma merge_precise_comm t1 t2 : distinct_codes (tt_cats t1) -> distinct_codes (tt_cats t2) ->
  (forall code, cat_precise_field (tt_merge t1 t2) code == cat_precise_field (tt_merge t2 t1) code) /\
  toQ (tt_precise (tt_merge t1 t2)) == toQ (tt_precise (tt_merge t2 t1)).
Proof.
  intros D1 D2.
  destruct (merge_precise_fields t1 t2 D2) as (C1 & S1).
  destruct (merge_precise_fields t2 t1 D1) as (C2 & S2). split.
  - intros code. rewrite (C1 code), (C2 code). rewrite (andb_comm (has_cat t2 code)).
    destruct (has_cat t1 code && has_cat t2 code); ring.
  - rewrite S1, S2. ring.
Qed.

(* ------------------------------------------------------------------------------------------ *)
(* (b'') operands of different precision: every presented figure is the exact sum              *)
(* ------------------------------------------------------------------------------------------ *)
(* the lookup view in rationals (the operands need not share a precision) *)
Definition group_baseQ t code key : Q :=
  match group_of t code key with Some g => toQ (rt_base g) | None => 0%Q end.
Definition group_amountQ t code key : Q :=
  match group_of t code key with Some g => toQ (rt_amount g) | None => 0%Q end.
Definition group_suramountQ t code key : Q :=
  match group_of t code key with Some g => toQ (rt_suramount g) | None => 0%Q end.
Definition cat_amountQ t code : Q :=
  match cat_of t code with Some ct => toQ (ct_amount ct) | None => 0%Q end.
Definition cat_surchargeQ t code : Q :=
  match cat_of t code with
  | Some ct => match ct_surcharge ct with Some s => toQ s | None => 0%Q end
  | None => 0%Q
  end.
Definition has_surcharge t code : bool :=
  match cat_of t code with
  | Some ct => match ct_surcharge ct with Some _ => true | None => false end
  | None => false
  end.

Lemma wf_tt_shape c t : wf_tt c t -> wf_shape t.
Proof.
  intros (D & F & _). split; [exact D|].
  eapply Forall_impl; [|exact F]. intros ct (Dg & Fr & _). split; [exact Dg|].
  eapply Forall_impl; [|exact Fr]. intros r (_ & _ & _ & P & Z). split; assumption.
Qed.

Lemma shape_Matches_sur_agree m r : shape_rt m -> shape_rt r -> rt_Matches m r = true ->
  (rt_sur m = None <-> rt_sur r = None).
Proof.
  intros (Pm & _) (Pr & _). unfold rt_Matches.
  rewrite !andb_true_iff. intros [_ H].
  destruct (rt_pct m) as [p|], (rt_pct r) as [q|]; try discriminate.
  - apply andb_true_iff in H. destruct H as [_ H].
    destruct (rt_sur m), (rt_sur r); try discriminate; split; intros; (discriminate || reflexivity).
  - rewrite Pm, Pr by reflexivity. tauto.
Qed.

Lemma rt_merge_shape m r : shape_rt m -> shape_rt r -> rt_Matches m r = true -> shape_rt (rt_merge m r).
Proof.
  intros Sm Sr M. pose proof (shape_Matches_sur_agree m r Sm Sr M) as Ag.
  destruct Sm as (P1 & Z1). unfold shape_rt, rt_merge. cbn [rt_pct rt_sur rt_suramount].
  split; [exact P1|]. intros N. destruct (rt_sur r) eqn:E; [|apply Z1, N].
  apply Ag in N. discriminate.
Qed.

Lemma toQ_zero_val a : val a = 0 -> toQ a == 0.
Proof. intros H. unfold Qeq, toQ. cbn [Qnum Qden]. rewrite H. reflexivity. Qed.

Lemma rt_merge_Q m r : shape_rt r ->
  toQ (rt_base (rt_merge m r)) == toQ (rt_base m) + toQ (rt_base r) /\
  toQ (rt_amount (rt_merge m r)) == toQ (rt_amount m) + toQ (rt_amount r) /\
  toQ (rt_suramount (rt_merge m r)) == toQ (rt_suramount m) + toQ (rt_suramount r).
Proof.
  intros (_ & Z2). unfold rt_merge. cbn [rt_base rt_amount rt_suramount].
  split; [apply add_precise_toQ|]. split; [apply add_precise_toQ|].
  destruct (rt_sur r) eqn:E; [apply add_precise_toQ|].
  rewrite (toQ_zero_val (rt_suramount r)) by (apply Z2; reflexivity). ring.
Qed.

Lemma ct_merge_shape m r :
  distinct_groups (ct_rates m) /\ Forall shape_rt (ct_rates m) ->
  distinct_groups (ct_rates r) /\ Forall shape_rt (ct_rates r) ->
  distinct_groups (ct_rates (ct_merge_with mp_repaired m r)) /\
  Forall shape_rt (ct_rates (ct_merge_with mp_repaired m r)).
Proof.
  intros (D1 & F1) (D2 & F2). unfold ct_merge_with. cbn [ct_rates mp_merge_rate mp_repaired].
  rewrite fold_merge_rate_k. split.
  - apply distinct_groups_k. apply kfold_distinct; try reflexivity. apply D1.
  - apply kfold_Forall; try assumption. apply rt_merge_shape.
Qed.

Lemma tt_merge_shape t1 t2 : wf_shape t1 -> wf_shape t2 -> wf_shape (tt_merge t1 t2).
Proof.
  intros (D1 & F1) (D2 & F2). unfold wf_shape, tt_merge, tt_merge_with. cbn [tt_cats].
  rewrite fold_merge_cat_k. split.
  - apply distinct_codes_k. apply kfold_distinct; try reflexivity. apply distinct_codes_k, D1.
  - apply kfold_Forall; try assumption. intros m r Wm Wr _. apply ct_merge_shape; assumption.
Qed.

Lemma group_of_shape t code key g : wf_shape t -> group_of t code key = Some g -> shape_rt g.
Proof.
  intros (_ & F). unfold group_of. destruct (cat_of t code) as [ct|] eqn:E; [|discriminate].
  intros H. apply find_group_some in H. destruct H as [H _].
  apply find_cat_some in E. destruct E as [E _].
  rewrite Forall_forall in F. destruct (F ct E) as (_ & Fr).
  rewrite Forall_forall in Fr. apply Fr, H.
Qed.

Lemma merge_exact_for_any_precision t1 t2 : wf_shape t1 -> wf_shape t2 ->
  let m := tt_merge t1 t2 in
  wf_shape m /\
  (forall code key,
     group_baseQ m code key == group_baseQ t1 code key + group_baseQ t2 code key /\
     group_amountQ m code key == group_amountQ t1 code key + group_amountQ t2 code key /\
     group_suramountQ m code key == group_suramountQ t1 code key + group_suramountQ t2 code key /\
     has_group m code key = has_group t1 code key || has_group t2 code key) /\
  (forall code,
     cat_amountQ m code == cat_amountQ t1 code + cat_amountQ t2 code /\
     cat_surchargeQ m code == cat_surchargeQ t1 code + cat_surchargeQ t2 code /\
     has_surcharge m code = has_surcharge t1 code || has_surcharge t2 code /\
     has_cat m code = has_cat t1 code || has_cat t2 code) /\
  toQ (tt_sum m) == toQ (tt_sum t1) + toQ (tt_sum t2) /\
  exp (tt_sum m) = Nat.max (exp (tt_sum t1)) (exp (tt_sum t2)).
Proof.
  intros W1 W2 m. split; [apply tt_merge_shape; assumption|]. split; [|split; [|split]].
  - intros code key. unfold group_baseQ, group_amountQ, group_suramountQ, has_group, m.
    rewrite (group_of_merge_shape t1 t2 code key W2).
    destruct (group_of t1 code key) as [g1|] eqn:E1; destruct (group_of t2 code key) as [g2|] eqn:E2;
      cbn [merged_row orb].
    + destruct (rt_merge_Q g1 g2 (group_of_shape _ _ _ _ W2 E2)) as (H1 & H2 & H3).
      rewrite H1, H2, H3. repeat split; reflexivity.
    + repeat split; ring.
    + repeat split; ring.
    + repeat split; ring.
  - intros code. unfold cat_amountQ, cat_surchargeQ, has_surcharge, has_cat, m, tt_merge.
    rewrite (cat_of_merge mp_repaired t1 t2 code) by apply W2.
    destruct (cat_of t1 code) as [c1|] eqn:E1; destruct (cat_of t2 code) as [c2|] eqn:E2;
      cbn [merged_row orb].
    + unfold ct_merge_with. cbn [ct_amount ct_surcharge mp_sur mp_add mp_repaired].
      split; [apply add_precise_toQ|].
      destruct (ct_surcharge c1) as [x|], (ct_surcharge c2) as [y|]; cbn [sur_merge orb];
        repeat split; try ring. apply add_precise_toQ.
    + repeat split; try ring. destruct (ct_surcharge c1); reflexivity.
    + repeat split; ring.
    + repeat split; ring.
  - unfold m, tt_merge, tt_merge_with. cbn [tt_sum mp_add mp_repaired]. apply add_precise_toQ.
  - unfold m, tt_merge, tt_merge_with. cbn [tt_sum mp_add mp_repaired]. apply add_precise_exp.
Qed.

(* hence the order of the operands matters for the order of the rows only, whatever their precisions *)
Lemma merge_order_independent_for_any_precision t1 t2 : wf_shape t1 -> wf_shape t2 ->
  let a := tt_merge t1 t2 in
  let b := tt_merge t2 t1 in
  (forall code key,
     group_baseQ a code key == group_baseQ b code key /\
     group_amountQ a code key == group_amountQ b code key /\
     group_suramountQ a code key == group_suramountQ b code key /\
     has_group a code key = has_group b code key) /\
  (forall code,
     cat_amountQ a code == cat_amountQ b code /\
     cat_surchargeQ a code == cat_surchargeQ b code /\
     has_surcharge a code = has_surcharge b code /\
     has_cat a code = has_cat b code) /\
  toQ (tt_sum a) == toQ (tt_sum b) /\ exp (tt_sum a) = exp (tt_sum b).
Proof.
  intros W1 W2 a b.
  destruct (merge_exact_for_any_precision t1 t2 W1 W2) as (_ & G1 & C1 & S1 & X1).
  destruct (merge_exact_for_any_precision t2 t1 W2 W1) as (_ & G2 & C2 & S2 & X2).
  fold a in G1, C1, S1, X1. fold b in G2, C2, S2, X2.
  split; [|split; [|split]].
  - intros code key. destruct (G1 code key) as (H1 & H2 & H3 & H4).
    destruct (G2 code key) as (K1 & K2 & K3 & K4).
    rewrite H1, H2, H3, H4, K1, K2, K3, K4. repeat split; try ring. apply orb_comm.
  - intros code. destruct (C1 code) as (H1 & H2 & H3 & H4). destruct (C2 code) as (K1 & K2 & K3 & K4).
    rewrite H1, H2, H3, H4, K1, K2, K3, K4. repeat split; try ring; apply orb_comm.
  - rewrite S1, S2. ring.
  - rewrite X1, X2. apply Nat.max_comm.
Qed.

(* ------------------------------------------------------------------------------------------ *)
(* (d) Negate                                                                                   *)
(* ------------------------------------------------------------------------------------------ *)
Definition rt_negated (r' r : rate_total) : Prop :=
  rt_key r' = rt_key r /\ rt_country r' = rt_country r /\ rt_ext r' = rt_ext r /\
  rt_pct r' = rt_pct r /\ rt_sur r' = rt_sur r /\
  rt_base r' = negate (rt_base r) /\ rt_amount r' = negate (rt_amount r) /\
  rt_suramount r' = negate (rt_suramount r).

Definition ct_negated (c' c : cat_total) : Prop :=
  ct_code c' = ct_code c /\ ct_retained c' = ct_retained c /\
  Forall2 rt_negated (ct_rates c') (ct_rates c) /\
  ct_amount c' = negate (ct_amount c) /\
  ct_surcharge c' = option_map negate (ct_surcharge c) /\
  ct_precise c' = negate (ct_precise c).

Definition tt_negated (t' t : tax_total) : Prop :=
  Forall2 ct_negated (tt_cats t') (tt_cats t) /\
  tt_sum t' = negate (tt_sum t) /\ tt_precise t' = negate (tt_precise t).

Lemma Forall2_map_l {A} (R : A -> A -> Prop) (f : A -> A) l :
  (forall x, R (f x) x) -> Forall2 R (map f l) l.
Proof. intros H. induction l as [|x l IH]; cbn [map]; constructor; auto. Qed.

Lemma negate_flips_everything t : tt_negated (tt_negate t) t.
Proof.
  unfold tt_negated, tt_negate. cbn [tt_cats tt_sum tt_precise]. repeat split.
  apply Forall2_map_l. intros ct. unfold ct_negated, ct_negate.
  cbn [ct_code ct_retained ct_rates ct_amount ct_surcharge ct_precise]. repeat split.
  apply Forall2_map_l. intros r. unfold rt_negated, rt_negate. cbn. repeat split.
Qed.

Lemma rt_negate_involutive r : rt_negate (rt_negate r) = r.
Proof. destruct r. unfold rt_negate. cbn. rewrite !negate_involutive. reflexivity. Qed.

Lemma map_id_ext {A} (f : A -> A) l : (forall x, f x = x) -> map f l = l.
Proof. intros H. induction l as [|x l IH]; cbn [map]; [reflexivity|]. rewrite H, IH. reflexivity. Qed.

Lemma ct_negate_involutive ct : ct_negate (ct_negate ct) = ct.
Proof.
  destruct ct as [code ret rates am sur pr]. unfold ct_negate.
  cbn [ct_code ct_retained ct_rates ct_amount ct_surcharge ct_precise].
  rewrite map_map, (map_id_ext _ rates rt_negate_involutive), !negate_involutive.
  destruct sur as [s|]; cbn [option_map]; [rewrite negate_involutive|]; reflexivity.
Qed.

Lemma tt_negate_involutive t : tt_negate (tt_negate t) = t.
Proof.
  destruct t as [cats s p]. unfold tt_negate. cbn [tt_cats tt_sum tt_precise].
  rewrite map_map, (map_id_ext _ cats ct_negate_involutive), !negate_involutive. reflexivity.
Qed.

(* in the lookup view *)
Lemma cat_of_negate t code : cat_of (tt_negate t) code = option_map ct_negate (cat_of t code).
Proof.
  unfold cat_of, tt_negate. cbn [tt_cats]. rewrite !find_cat_k. apply kfind_map. reflexivity.
Qed.

Lemma group_of_negate t code key :
  group_of (tt_negate t) code key = option_map rt_negate (group_of t code key).
Proof.
  unfold group_of. rewrite cat_of_negate. destruct (cat_of t code) as [ct|]; cbn [option_map]; [|reflexivity].
  unfold ct_negate. cbn [ct_rates]. rewrite !find_group_k. apply kfind_map. reflexivity.
Qed.

Lemma rt_negate_wf c r : wf_rt c r -> wf_rt c (rt_negate r).
Proof.
  intros (B & A & S & P & Z). unfold wf_rt, rt_negate. cbn. repeat split; try assumption.
  intros N. rewrite (Z N). reflexivity.
Qed.

Lemma ct_negate_wf c ct : wf_ct c ct -> wf_ct c (ct_negate ct).
Proof.
  intros (D & F & A & S). unfold wf_ct, ct_negate. cbn [ct_rates ct_amount ct_surcharge]. repeat split.
  - apply distinct_groups_k. apply map_distinct; [reflexivity|]. apply D.
  - apply Forall_map. eapply Forall_impl; [|exact F]. apply rt_negate_wf.
  - exact A.
  - intros s. destruct (ct_surcharge ct) as [x|]; cbn [option_map]; [|discriminate].
    intros H. injection H as <-. cbn [negate exp]. apply S. reflexivity.
Qed.

Lemma tt_negate_wf c t : wf_tt c t -> wf_tt c (tt_negate t).
Proof.
  intros (D & F & S). unfold wf_tt, tt_negate. cbn [tt_cats tt_sum]. repeat split.
  - apply distinct_codes_k. apply map_distinct; [reflexivity|]. apply distinct_codes_k, D.
  - apply Forall_map. eapply Forall_impl; [|exact F]. apply ct_negate_wf.
  - exact S.
Qed.

Lemma negate_flips_lookup t :
  (forall code key,
     group_base (tt_negate t) code key = - group_base t code key /\
     group_amount (tt_negate t) code key = - group_amount t code key /\
     group_suramount (tt_negate t) code key = - group_suramount t code key /\
     has_group (tt_negate t) code key = has_group t code key) /\
  (forall code,
     cat_amount (tt_negate t) code = - cat_amount t code /\
     cat_surcharge (tt_negate t) code = option_map Z.opp (cat_surcharge t code) /\
     has_cat (tt_negate t) code = has_cat t code) /\
  val (tt_sum (tt_negate t)) = - val (tt_sum t) /\
  val (tt_precise (tt_negate t)) = - val (tt_precise t) /\
  (forall c, wf_tt c t -> wf_tt c (tt_negate t)).
Proof.
  split; [|split; [|split; [|split]]].
  - intros code key. unfold group_base, group_amount, group_suramount, has_group.
    rewrite group_of_negate. destruct (group_of t code key) as [g|]; cbn [option_map]; repeat split.
  - intros code. unfold cat_amount, cat_surcharge, has_cat. rewrite cat_of_negate.
    destruct (cat_of t code) as [ct|]; cbn [option_map]; repeat split.
    unfold ct_negate. cbn [ct_surcharge]. destruct (ct_surcharge ct); reflexivity.
  - reflexivity.
  - reflexivity.
  - intros c. apply tt_negate_wf.
Qed.

Lemma merge_negate_zero c t : wf_tt c t ->
  let m := tt_merge t (tt_negate t) in
  (forall code key,
     group_base m code key = 0 /\ group_amount m code key = 0 /\ group_suramount m code key = 0 /\
     has_group m code key = has_group t code key) /\
  (forall code,
     cat_amount m code = 0 /\
     cat_surcharge m code = option_map (fun _ => 0) (cat_surcharge t code) /\
     has_cat m code = has_cat t code) /\
  val (tt_sum m) = 0 /\ val (tt_precise m) = 0 /\ wf_tt c m.
Proof.
  intros W m.
  destruct (merge_componentwise c t (tt_negate t) W (tt_negate_wf c t W)) as (Wm & G & C & S).
  destruct (negate_flips_lookup t) as (G' & C' & S' & _ & _).
  fold m in Wm, G, C, S.
  split; [|split; [|split; [|split]]].
  - intros code key. destruct (G code key) as (H1 & H2 & H3 & H4).
    destruct (G' code key) as (K1 & K2 & K3 & K4).
    rewrite H1, H2, H3, H4, K1, K2, K3, K4. repeat split; try lia. apply orb_diag.
  - intros code. destruct (C code) as (H1 & H2 & H3). destruct (C' code) as (K1 & K2 & K3).
    rewrite H1, H2, H3, K1, K2, K3. repeat split; [lia| |apply orb_diag].
    destruct (cat_surcharge t code) as [x|]; cbn [option_map opt_sum]; [|reflexivity]. f_equal. lia.
  - lia.
  - unfold m, tt_merge, tt_merge_with. cbn [tt_precise mp_sum_precise mp_repaired].
    rewrite tt_PreciseSum_negate. apply add_precise_negate_zero.
  - exact Wm.
Qed.

(* ------------------------------------------------------------------------------------------ *)
(* (e) the shipped variants                                                                    *)
(* ------------------------------------------------------------------------------------------ *)
Import Byte.
(* one category "VAT" with one group: 21% + 5% surcharge on 100.00 *)
Definition ex_code : bytes := [x56; x41; x54].
Definition ex_rt : rate_total :=
  mkRT [] [] [] (Some (mkA 21 2)) (Some (mkA 5 2)) (mkA 10000 2) (mkA 2100 2) (mkA 500 2).
Definition ex_tt : tax_total :=
  mkTT [mkCT ex_code false [ex_rt] (mkA 2100 2) (Some (mkA 500 2)) (mkA 2100 2)]
       (mkA 2600 2) (mkA 2600 2).
(* the same category with a group without surcharge: 10% on 50.00 *)
Definition ex_rt2 : rate_total :=
  mkRT [] [] [] (Some (mkA 10 2)) None (mkA 5000 2) (mkA 500 2) (mkA 0 2).
Definition ex_tt2 : tax_total :=
  mkTT [mkCT ex_code false [ex_rt2] (mkA 500 2) None (mkA 500 2)] (mkA 500 2) (mkA 500 2).

Ltac wf_concrete :=
  unfold wf_tt, wf_ct, wf_rt, distinct_codes, distinct_groups;
  repeat (cbn;
          match goal with
          | |- _ /\ _ => split
          | |- Forall _ _ => constructor
          | |- True => exact I
          | |- _ = _ => reflexivity
          | |- _ -> _ => let H := fresh in intros H; try discriminate H; try (injection H as <-)
          | |- forall _, _ => intro
          end).

Lemma ex_tt_wf : wf_tt 2 ex_tt. Proof. wf_concrete. Qed.
Lemma ex_tt2_wf : wf_tt 2 ex_tt2. Proof. wf_concrete. Qed.

Lemma negate_flips_everything_shipped_refuted :
  exists c t code key, wf_tt c t /\
    group_suramount (tt_negate_shipped t) code key <> - group_suramount t code key /\
    cat_surcharge (tt_negate_shipped t) code <> option_map Z.opp (cat_surcharge t code).
Proof.
  exists 2%nat, ex_tt, ex_code, ex_rt. split; [exact ex_tt_wf|].
  split; vm_compute; discriminate.
Qed.

Lemma merge_comm_shipped_refuted :
  exists c t1 t2 code, wf_tt c t1 /\ wf_tt c t2 /\
    cat_surcharge (tt_merge_shipped t1 t2) code <> cat_surcharge (tt_merge_shipped t2 t1) code.
Proof.
  exists 2%nat, ex_tt, ex_tt2, ex_code. split; [exact ex_tt_wf|]. split; [exact ex_tt2_wf|].
  vm_compute. discriminate.
Qed.

Lemma merge_negate_zero_shipped_refuted :
  exists c t code key, wf_tt c t /\
    group_suramount (tt_merge_shipped t (tt_negate_shipped t)) code key <> 0 /\
    cat_surcharge (tt_merge_shipped t (tt_negate_shipped t)) code <> Some 0.
Proof.
  exists 2%nat, ex_tt, ex_code, ex_rt. split; [exact ex_tt_wf|].
  split; vm_compute; discriminate.
Qed.

(* the unexported figures as shipped (catTotal.amount untouched, nt.sum = nt.sum.Add(t2.sum)):
   ex_calc = {VAT 21% of 100.004} recalculated (precise 21.001, presented 21.00) merged with the loaded
   ex_loaded = {VAT 21% of 100.00 = 21.00} keeps 21.001 for the category (want 42.001), and in the
   other order the unset sum (0 with no decimals) rescales 21.001 to 21 *)
Definition ex_rt3 (base : amount) : rate_total :=
  mkRT [] [] [] (Some (mkA 21 2)) None base (mkA 2100 2) (mkA 0 2).
Definition ex_loaded : tax_total :=
  mkTT [mkCT ex_code false [ex_rt3 (mkA 10000 2)] (mkA 2100 2) None (mkA 0 0)] (mkA 2100 2) (mkA 0 0).
Definition ex_calc : tax_total :=
  tt_calculate false 2
    (mkTT [mkCT ex_code false [ex_rt3 (mkA 100004 3)] (mkA 2100 2) None (mkA 0 0)] (mkA 2100 2) (mkA 0 0)).

Lemma ex_loaded_wf : wf_tt 2 ex_loaded. Proof. wf_concrete. Qed.
Lemma ex_calc_wf : wf_tt 2 ex_calc. Proof. wf_concrete. Qed.

Lemma merge_precise_shipped_refuted :
  exists c t1 t2 code, wf_tt c t1 /\ wf_tt c t2 /\
    ~ cat_precise (tt_merge_precise_shipped t1 t2) code == cat_precise t1 code + cat_precise t2 code /\
    ~ toQ (tt_PreciseSum (tt_merge_precise_shipped t2 t1)) == toQ (tt_PreciseSum t2) + toQ (tt_PreciseSum t1).
Proof.
  exists 2%nat, ex_calc, ex_loaded, ex_code. split; [exact ex_calc_wf|]. split; [exact ex_loaded_wf|].
  split; vm_compute; discriminate.
Qed.

(* the presented figures as shipped (x.Add(y): the right operand rounded to the left one's decimals):
   a summary calculated for JPY (10% of 1000 = 100, no decimals) merged with one calculated for EUR
   (10% of 100.55 = 10.06): base 1101 / amount 110 / sum 110 in this order, 1100.55 / 110.06 / 110.06
   in the other *)
Definition ex_rt10 (base amount : amount) : rate_total :=
  mkRT [] [] [] (Some (mkA 10 2)) None base amount (mkA 0 (exp base)).
Definition ex_jpy : tax_total :=
  mkTT [mkCT ex_code false [ex_rt10 (mkA 1000 0) (mkA 100 0)] (mkA 100 0) None (mkA 0 0)] (mkA 100 0) (mkA 0 0).
Definition ex_eur : tax_total :=
  mkTT [mkCT ex_code false [ex_rt10 (mkA 10055 2) (mkA 1006 2)] (mkA 1006 2) None (mkA 0 0)] (mkA 1006 2) (mkA 0 0).
Lemma ex_jpy_wf : wf_tt 0 ex_jpy. Proof. wf_concrete. Qed.
Lemma ex_eur_wf : wf_tt 2 ex_eur. Proof. wf_concrete. Qed.

Lemma merge_different_precisions_shipped_refuted :
  exists c1 c2 t1 t2 code key, wf_tt c1 t1 /\ wf_tt c2 t2 /\
    group_baseQ (tt_merge_rounding_shipped t1 t2) code key == 1101 # 1 /\
    group_baseQ (tt_merge_rounding_shipped t2 t1) code key == 110055 # 100 /\
    ~ group_baseQ (tt_merge_rounding_shipped t1 t2) code key == group_baseQ t1 code key + group_baseQ t2 code key /\
    ~ group_amountQ (tt_merge_rounding_shipped t1 t2) code key == group_amountQ (tt_merge_rounding_shipped t2 t1) code key /\
    ~ cat_amountQ (tt_merge_rounding_shipped t1 t2) code == cat_amountQ t1 code + cat_amountQ t2 code /\
    ~ toQ (tt_sum (tt_merge_rounding_shipped t1 t2)) == toQ (tt_sum t1) + toQ (tt_sum t2).
Proof.
  exists 0%nat, 2%nat, ex_jpy, ex_eur, ex_code, (ex_rt10 (mkA 0 0) (mkA 0 0)).
  split; [exact ex_jpy_wf|]. split; [exact ex_eur_wf|].
  split; [vm_compute; reflexivity|]. split; [vm_compute; reflexivity|].
  repeat split; vm_compute; discriminate.
Qed.

Lemma merge_different_precisions_example :
  group_baseQ (tt_merge ex_jpy ex_eur) ex_code (ex_rt10 (mkA 0 0) (mkA 0 0)) == 110055 # 100 /\
  group_baseQ (tt_merge ex_eur ex_jpy) ex_code (ex_rt10 (mkA 0 0) (mkA 0 0)) == 110055 # 100 /\
  tt_sum (tt_merge ex_jpy ex_eur) = mkA 11006 2 /\ tt_sum (tt_merge ex_eur ex_jpy) = mkA 11006 2.
Proof. repeat split; vm_compute; reflexivity. Qed.


Lemma merge_precise_example :
  cat_precise (tt_merge ex_calc ex_loaded) ex_code == 42001 # 1000 /\
  toQ (tt_PreciseSum (tt_merge ex_loaded ex_calc)) == 42001 # 1000.
Proof. split; vm_compute; reflexivity. Qed.

(* what remains after the repair: PreciseSum() / PreciseAmount() read "zero" as "unset", so when the
   precise figures cancel exactly the accessor answers the sum of the rounded figures instead:
   0.005 + 0.005 - 0.010 (presented 0.01 + 0.01 - 0.01) *)
Definition ex_tenth (base : amount) : tax_total :=
  tt_calculate false 2
    (mkTT [mkCT ex_code false [mkRT [] [] [] (Some (mkA 10 2)) None base (mkA 0 2) (mkA 0 2)]
                (mkA 0 2) None (mkA 0 0)] (mkA 0 2) (mkA 0 0)).

Lemma merge_precise_accessor_cancel_refuted :
  exists c t1 t2 code, wf_tt c t1 /\ wf_tt c t2 /\
    ~ cat_precise (tt_merge t1 t2) code == cat_precise t1 code + cat_precise t2 code /\
    ~ toQ (tt_PreciseSum (tt_merge t1 t2)) == toQ (tt_PreciseSum t1) + toQ (tt_PreciseSum t2).
Proof.
  exists 2%nat, (tt_merge (ex_tenth (mkA 50 3)) (ex_tenth (mkA 50 3))), (ex_tenth (mkA (-100) 3)), ex_code.
  split; [wf_concrete|]. split; [wf_concrete|].
  split; vm_compute; discriminate.
Qed.

(* ex_tt is a correctly calculated summary (a fixed point of the repaired Calculate); the shipped
   Calculate adds the category surcharge again at every recalculation: 5.00, 10.00, 15.00 *)
Lemma recalculation_accumulates_surcharge_shipped_refuted :
  exists cr c t code, wf_tt c t /\ tt_calculate cr c t = t /\
    cat_surcharge (tt_calculate_shipped cr c t) code <> cat_surcharge t code /\
    cat_surcharge (tt_calculate_shipped cr c (tt_calculate_shipped cr c t)) code
      <> cat_surcharge (tt_calculate_shipped cr c t) code.
Proof.
  exists true, 2%nat, ex_tt, ex_code. split; [exact ex_tt_wf|].
  split; [reflexivity|]. split; vm_compute; discriminate.
Qed.

(* ---- the repaired Calculate is idempotent on summaries whose bases have c decimals ---- *)
Definition bases_at (c : nat) (t : tax_total) : Prop :=
  Forall (fun ct => Forall (fun r => exp (rt_base r) = c) (ct_rates ct)) (tt_cats t).

Lemma tt_calculate_unfold cr c t :
  tt_calculate cr c t =
  let cats0 := map (ct_calc cr c) (tt_cats t) in
  let s := fold_left (sum_step cr) cats0 (zero_of c) in
  mkTT (map (ct_round c) cats0) (rescale s c) s.
Proof. reflexivity. Qed.

Lemma rescale_idem a c : rescale (rescale a c) c = rescale a c.
Proof. apply rescale_same, rescale_exp. Qed.

(* recalculating a rounded group whose base has c decimals: only the (unused) surcharge amount of a
   group without surcharge rate may differ, and only before rounding *)
Lemma rt_recalc c r : exp (rt_base r) = c ->
  let x := rt_calc c r in
  let y := rt_calc c (rt_round c x) in
  rt_round c y = rt_round c x /\ forall cr st, ct_step cr c st y = ct_step cr c st x.
Proof.
  intros E. unfold rt_calc, rt_round. destruct (rt_pct r) as [p|] eqn:Ep;
    cbn [rt_key rt_country rt_ext rt_pct rt_sur rt_base rt_amount rt_suramount]; rewrite ?Ep;
    cbn [rt_key rt_country rt_ext rt_pct rt_sur rt_base rt_amount rt_suramount].
  - assert (Eb : rescale (rt_base r) c = rt_base r) by (apply rescale_same, E).
    assert (Ea : rescale (pct_of p (rt_base r)) c = pct_of p (rt_base r)).
    { apply rescale_same. unfold pct_of. rewrite mul_exp. exact E. }
    rewrite !Eb, !Ea. destruct (rt_sur r) as [s|] eqn:Es.
    + assert (Ec : rescale (pct_of s (rt_base r)) c = pct_of s (rt_base r)).
      { apply rescale_same. unfold pct_of. rewrite mul_exp. exact E. }
      rewrite !Ec. split; reflexivity.
    + rewrite rescale_idem. split; [reflexivity|].
      intros cr st. unfold ct_step. cbn [rt_pct rt_sur rt_amount]. reflexivity.
  - rewrite !rescale_idem. split; [reflexivity|].
    intros cr st. unfold ct_step. cbn [rt_pct]. reflexivity.
Qed.

Lemma fold_ct_step_ext cr c (g h : rate_total -> rate_total) l :
  Forall (fun r => forall st, ct_step cr c st (g r) = ct_step cr c st (h r)) l ->
  forall st, fold_left (ct_step cr c) (map g l) st = fold_left (ct_step cr c) (map h l) st.
Proof.
  intros F. induction F as [|r l Hr F IH]; intros st; cbn [map fold_left]; [reflexivity|].
  rewrite Hr. apply IH.
Qed.

Lemma map_ext_Forall' {A B} (g h : A -> B) l : Forall (fun x => g x = h x) l -> map g l = map h l.
Proof. intros F. induction F as [|x l Hx F IH]; cbn [map]; [reflexivity|]. rewrite Hx, IH. reflexivity. Qed.

Lemma ct_recalc cr c ct : Forall (fun r => exp (rt_base r) = c) (ct_rates ct) ->
  let x := ct_calc cr c ct in
  let y := ct_calc cr c (ct_round c x) in
  ct_round c y = ct_round c x /\ forall s, sum_step cr s y = sum_step cr s x.
Proof.
  intros F. unfold ct_calc, ct_round.
  cbn [ct_code ct_retained ct_rates ct_amount ct_surcharge ct_precise].
  rewrite !map_map.
  assert (E1 : map (fun r => rt_round c (rt_calc c (rt_round c (rt_calc c r)))) (ct_rates ct) =
               map (fun r => rt_round c (rt_calc c r)) (ct_rates ct)).
  { apply map_ext_Forall'. eapply Forall_impl; [|exact F]. intros r Er. apply (rt_recalc c r Er). }
  assert (E2 : forall st,
             fold_left (ct_step cr c) (map (fun r => rt_calc c (rt_round c (rt_calc c r))) (ct_rates ct)) st =
             fold_left (ct_step cr c) (map (rt_calc c) (ct_rates ct)) st).
  { apply fold_ct_step_ext. eapply Forall_impl; [|exact F]. intros r Er st. apply (rt_recalc c r Er). }
  rewrite E1, E2. split; [reflexivity|].
  intros s. unfold sum_step. cbn [ct_amount ct_retained ct_surcharge]. reflexivity.
Qed.

Lemma fold_sum_step_ext cr (g h : cat_total -> cat_total) l :
  Forall (fun x => forall s, sum_step cr s (g x) = sum_step cr s (h x)) l ->
  forall s, fold_left (sum_step cr) (map g l) s = fold_left (sum_step cr) (map h l) s.
Proof.
  intros F. induction F as [|x l Hx F IH]; intros s; cbn [map fold_left]; [reflexivity|].
  rewrite Hx. apply IH.
Qed.

Lemma tt_calculate_idempotent_partial cr c t : bases_at c t ->
  tt_calculate cr c (tt_calculate cr c t) = tt_calculate cr c t.
Proof.
  intros B. rewrite (tt_calculate_unfold cr c (tt_calculate cr c t)).
  rewrite (tt_calculate_unfold cr c t). cbv zeta. cbn [tt_cats].
  rewrite !map_map.
  assert (E1 : map (fun x => ct_round c (ct_calc cr c (ct_round c (ct_calc cr c x)))) (tt_cats t) =
               map (fun x => ct_round c (ct_calc cr c x)) (tt_cats t)).
  { apply map_ext_Forall'. eapply Forall_impl; [|exact B]. intros ct Fc. apply (ct_recalc cr c ct Fc). }
  assert (E2 : forall s,
             fold_left (sum_step cr) (map (fun x => ct_calc cr c (ct_round c (ct_calc cr c x))) (tt_cats t)) s =
             fold_left (sum_step cr) (map (ct_calc cr c) (tt_cats t)) s).
  { apply fold_sum_step_ext. eapply Forall_impl; [|exact B]. intros ct Fc s. apply (ct_recalc cr c ct Fc). }
  rewrite E1, E2. reflexivity.
Qed.

(* a recalculated summary has bases with c decimals, so Calculate is idempotent from its second
   application on, whatever the input *)
Lemma tt_calculate_bases cr c t : bases_at c (tt_calculate cr c t).
Proof.
  rewrite tt_calculate_unfold. cbv zeta. unfold bases_at. cbn [tt_cats].
  apply Forall_map, Forall_map. apply Forall_forall. intros ct _.
  unfold ct_round, ct_calc. cbn [ct_rates]. apply Forall_map, Forall_map. apply Forall_forall.
  intros r _. unfold rt_round. cbn [rt_base]. apply rescale_exp.
Qed.

Lemma tt_calculate_idempotent_after_first cr c t :
  let t1 := tt_calculate cr c t in
  tt_calculate cr c (tt_calculate cr c t1) = tt_calculate cr c t1.
Proof. intros t1. apply tt_calculate_idempotent_partial, tt_calculate_bases. Qed.

(* without the hypothesis: base 1.005 at 50%, c = 2: first 0.50 (of 0.503), then 0.51 (of 1.01) *)
Lemma tt_calculate_idempotent_refuted :
  exists cr c t, tt_calculate cr c (tt_calculate cr c t) <> tt_calculate cr c t.
Proof.
  exists true, 2%nat,
    (mkTT [mkCT ex_code false
                [mkRT [] [] [] (Some (mkA 50 2)) None (mkA 1005 3) (mkA 0 3) (mkA 0 3)]
                (mkA 0 2) None (mkA 0 2)] (mkA 0 2) (mkA 0 2)).
  vm_compute. discriminate.
Qed.

(* ------------------------------------------------------------------------------------------ *)
(* (f) payments                                                                                *)
(* ------------------------------------------------------------------------------------------ *)
(* one side of a payment line in the payment currency: absent = 0; None = no exchange rate *)
Definition pl_side (rates : list xrate) (cur : Z) (c : nat) (l : pay_line) (x : option amount) : option amount :=
  match x with
  | None => Some (zero_of c)
  | Some a => pl_amount rates cur c (pl_cur l) a
  end.

Lemma payment_line_total rates cur c l :
  match pl_side rates cur c l (pl_debit l), pl_side rates cur c l (pl_credit l) with
  | Some d, Some k => exists lt, pl_total true rates cur c l = Some lt /\ toQ lt == toQ d - toQ k
  | _, _ => pl_total true rates cur c l = None
  end.
Proof.
  unfold pl_total, pl_side.
  destruct (pl_debit l) as [d0|].
  - destruct (pl_amount rates cur c (pl_cur l) d0) as [d|].
    + destruct (pl_credit l) as [k0|].
      * destruct (pl_amount rates cur c (pl_cur l) k0) as [k|]; [|reflexivity].
        eexists. split; [reflexivity|].
        rewrite acc_sub_toQ, acc_add_toQ, zero_of_toQ. ring.
      * eexists. split; [reflexivity|].
        rewrite acc_add_toQ, !zero_of_toQ. ring.
    + destruct (pl_credit l) as [k0|]; [|reflexivity].
      destruct (pl_amount rates cur c (pl_cur l) k0); reflexivity.
  - destruct (pl_credit l) as [k0|].
    + destruct (pl_amount rates cur c (pl_cur l) k0) as [k|]; [|reflexivity].
      eexists. split; [reflexivity|].
      rewrite acc_sub_toQ. reflexivity.
    + eexists. split; [reflexivity|]. rewrite zero_of_toQ. ring.
Qed.

(* shipped (MatchPrecision result discarded): debit 1.005, credit 0.001, c = 2 gives 1.01, not 1.004 *)
Lemma payment_line_total_shipped_refuted :
  exists rates cur c l d k lt,
    pl_side rates cur c l (pl_debit l) = Some d /\ pl_side rates cur c l (pl_credit l) = Some k /\
    pl_total false rates cur c l = Some lt /\ ~ toQ lt == toQ d - toQ k.
Proof.
  exists [], 0, 2%nat, (mkPL None (Some (mkA 1005 3)) (Some (mkA 1 3)) None).
  eexists. eexists. eexists. split; [reflexivity|]. split; [reflexivity|]. split; [reflexivity|].
  vm_compute. discriminate.
Qed.

Definition qsum (l : list amount) : Q := fold_right (fun a q => (toQ a + q)%Q) 0%Q l.
Definition qtot (o : option amount) : Q := match o with Some t => toQ t | None => 0%Q end.

Lemma pay_calc_aux_total cr rates cur c subunits ls : forall acc total tt out,
  pay_calc_aux true cr rates cur c subunits ls acc total tt = Some out ->
  exists lts,
    Forall2 (fun l lt => pl_total true rates cur c l = Some lt) ls lts /\
    po_lines out = rev acc ++ lts /\
    qtot (po_total out) == qtot total + qsum lts /\
    (po_total out = None -> total = None /\ ls = []).
Proof.
  induction ls as [|l rest IH]; intros acc total tt out H; cbn [pay_calc_aux] in H.
  - injection H as <-. exists []. cbn [po_lines po_total qsum fold_right]. repeat split.
    + constructor.
    + rewrite app_nil_r. reflexivity.
    + ring.
    + assumption.
  - destruct (pl_total true rates cur c l) as [lt|] eqn:E; [|discriminate].
    apply IH in H. destruct H as (lts & F & L & T & N).
    exists (lt :: lts). repeat split.
    + constructor; assumption.
    + rewrite L. cbn [rev]. rewrite <- app_assoc. reflexivity.
    + rewrite T. cbn [qtot qsum fold_right]. fold (qsum lts).
      destruct total as [t0|]; cbn [qtot].
      * rewrite acc_add_toQ. ring.
      * ring.
    + apply N in H. destruct H as [H _]. discriminate.
    + apply N in H. destruct H as [H _]. discriminate.
Qed.

Lemma payment_total_is_sum cr rates cur c subunits ls out :
  pay_calc true cr rates cur c subunits ls = Some out ->
  Forall2 (fun l lt => pl_total true rates cur c l = Some lt) ls (po_lines out) /\
  match po_total out with
  | Some t => toQ t == qsum (po_lines out)
  | None => ls = []
  end.
Proof.
  unfold pay_calc. intros H. apply pay_calc_aux_total in H.
  destruct H as (lts & F & L & T & N). cbn [rev app] in L. rewrite L. split; [exact F|].
  destruct (po_total out) as [t|].
  - cbn [qtot] in T. rewrite T. ring.
  - apply N. reflexivity.
Qed.

(* the calculation is defined exactly when every line total is *)
Lemma pay_calc_aux_defined keep cr rates cur c subunits ls : forall acc total tt,
  Forall (fun l => pl_total keep rates cur c l <> None) ls ->
  pay_calc_aux keep cr rates cur c subunits ls acc total tt <> None.
Proof.
  induction ls as [|l rest IH]; intros acc total tt F; cbn [pay_calc_aux]; [discriminate|].
  inversion F as [|x y Hl Fr]; subst.
  destruct (pl_total keep rates cur c l) as [lt|]; [|congruence].
  apply IH, Fr.
Qed.

Lemma pay_calc_defined keep cr rates cur c subunits ls :
  Forall (fun l => pl_total keep rates cur c l <> None) ls ->
  pay_calc keep cr rates cur c subunits ls <> None.
Proof. apply pay_calc_aux_defined. Qed.

(* the recalculated document summary a line contributes *)
Definition line_summary (cr : bool) (c : nat) (subunits : Z -> nat) (l : pay_line) : option tax_total :=
  match pl_doc l with
  | Some (dcur, Some dt) =>
    Some (tt_calculate cr (match dcur with Some k => subunits k | None => c end) dt)
  | _ => None
  end.

Fixpoint line_summaries (cr : bool) (c : nat) (subunits : Z -> nat) (ls : list pay_line) : list tax_total :=
  match ls with
  | [] => []
  | l :: rest =>
    match line_summary cr c subunits l with
    | Some s => s :: line_summaries cr c subunits rest
    | None => line_summaries cr c subunits rest
    end
  end.

Definition tax_step (o : option tax_total) (s : tax_total) : option tax_total :=
  Some (match o with None => s | Some t0 => tt_merge t0 s end).

Lemma pay_calc_aux_tax keep cr rates cur c subunits ls : forall acc total tt out,
  pay_calc_aux keep cr rates cur c subunits ls acc total tt = Some out ->
  po_tax out = fold_left tax_step (line_summaries cr c subunits ls) tt.
Proof.
  induction ls as [|l rest IH]; intros acc total tt out H; cbn [pay_calc_aux line_summaries] in *.
  - injection H as <-. reflexivity.
  - destruct (pl_total keep rates cur c l) as [lt|]; [|discriminate].
    apply IH in H. rewrite H. unfold line_summary.
    destruct (pl_doc l) as [[dcur [dt|]]|]; reflexivity.
Qed.

Lemma fold_tax_step ss : forall d, fold_left tax_step ss (Some d) = Some (fold_left tt_merge ss d).
Proof. induction ss as [|s ss IH]; intros d; cbn [fold_left]; [reflexivity|]. apply IH. Qed.

Lemma payment_tax_is_merge_of_lines keep cr rates cur c subunits ls out :
  pay_calc keep cr rates cur c subunits ls = Some out ->
  po_tax out = match line_summaries cr c subunits ls with
               | [] => None
               | d :: ds => Some (fold_left tt_merge ds d)
               end.
Proof.
  unfold pay_calc. intros H. apply pay_calc_aux_tax in H. rewrite H.
  destruct (line_summaries cr c subunits ls) as [|d ds]; [reflexivity|].
  cbn [fold_left]. apply fold_tax_step.
Qed.

(* ------------------------------------------------------------------------------------------ *)
(* recalculated summaries are well formed: what a payment merges is inside the merge theorems   *)
(* ------------------------------------------------------------------------------------------ *)

Lemma rescale_zero_val a e : val a = 0 -> val (rescale a e) = 0.
Proof.
  intros H. unfold rescale.
  destruct (Nat.ltb e (exp a)); [|destruct (Nat.ltb (exp a) e)]; cbn [val]; rewrite ?H.
  - apply rha_exact; [apply pow10_pos|reflexivity].
  - reflexivity.
  - reflexivity.
Qed.

Lemma rt_recalc_Matches c x y :
  rt_Matches (rt_round c (rt_calc c x)) (rt_round c (rt_calc c y)) = rt_Matches x y.
Proof.
  unfold rt_round, rt_calc, rt_Matches.
  destruct (rt_pct x) eqn:Ex; destruct (rt_pct y) eqn:Ey;
    cbn [rt_ext rt_country rt_pct rt_sur]; rewrite ?Ex, ?Ey; reflexivity.
Qed.

Lemma rt_recalc_wf c r : shape_rt r -> wf_rt c (rt_round c (rt_calc c r)).
Proof.
  intros (P & Z). unfold wf_rt, rt_round. cbn [rt_base rt_amount rt_suramount rt_pct rt_sur].
  rewrite !rescale_exp. repeat split.
  - unfold rt_calc. destruct (rt_pct r) eqn:E; cbn [rt_pct rt_sur]; [discriminate|].
    intros _. apply P. reflexivity.
  - unfold rt_calc. destruct (rt_pct r) eqn:E; cbn [rt_sur rt_suramount]; intros N.
    + rewrite N. apply rescale_zero_val, Z, N.
    + apply rescale_zero_val, Z, N.
Qed.

Lemma calculate_wf cr c t : wf_shape t -> wf_tt c (tt_calculate cr c t).
Proof.
  intros (D & F). rewrite tt_calculate_unfold. cbv zeta. unfold wf_tt. cbn [tt_cats tt_sum].
  rewrite map_map. repeat split.
  - apply distinct_codes_k. apply map_distinct; [reflexivity|]. apply distinct_codes_k, D.
  - apply Forall_map. eapply Forall_impl; [|exact F]. intros ct (Dg & Fs).
    unfold wf_ct, ct_round, ct_calc. cbn [ct_rates ct_amount ct_surcharge]. rewrite map_map.
    repeat split.
    + apply distinct_groups_k. apply map_distinct; [intros x y; apply rt_recalc_Matches|exact Dg].
    + apply Forall_map. eapply Forall_impl; [|exact Fs]. intros r. apply rt_recalc_wf.
    + apply rescale_exp.
    + intros s. destruct (snd _); [|discriminate]. intros H. injection H as <-. apply rescale_exp.
  - apply rescale_exp.
Qed.

(* the payment's tax summary, component by component, when its documents share the precision c *)
Lemma payment_tax_componentwise keep cr rates cur c subunits ls out :
  pay_calc keep cr rates cur c subunits ls = Some out ->
  let ss := line_summaries cr c subunits ls in
  Forall (wf_tt c) ss ->
  match ss with
  | [] => po_tax out = None
  | _ :: _ =>
    exists m, po_tax out = Some m /\ wf_tt c m /\
      (forall code key,
         group_base m code key = zsum (map (fun x => group_base x code key) ss) /\
         group_amount m code key = zsum (map (fun x => group_amount x code key) ss) /\
         group_suramount m code key = zsum (map (fun x => group_suramount x code key) ss)) /\
      (forall code, cat_amount m code = zsum (map (fun x => cat_amount x code) ss)) /\
      val (tt_sum m) = zsum (map (fun x => val (tt_sum x)) ss)
  end.
Proof.
  intros H ss F. apply payment_tax_is_merge_of_lines in H. fold ss in H.
  destruct ss as [|d ds]; [exact H|].
  inversion F as [|x y Wd Fd]; subst.
  destruct (merge_all_componentwise c ds Fd d Wd) as (Wm & G & C & S).
  exists (fold_left tt_merge ds d). split; [exact H|]. split; [exact Wm|].
  cbn [map zsum fold_right]. split; [|split].
  - intros code key. apply G.
  - intros code. apply C.
  - exact S.
Qed.
