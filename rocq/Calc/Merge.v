(* tax.Total as a value: Clone, Negate, Merge, Matches, Calculate (tax/totals.go) and the payment
   calculation that uses them (bill/payment.go, bill/payment_line.go, org/document_ref.go).
   The functions without suffix follow the repaired code (fix commits recorded in
   KNOWN_FINDINGS.json / findings/C20.json); the *_shipped variants keep the earlier behaviour for
   the refutation theorems.  The model is a value model: Go's Merge additionally has to copy the
   operand's rows (rt.clone / ct.clone) so that the result shares no pointer with an operand; that
   clause is checked on the Go side only (harness/c20.go).  No proofs in this file. *)
From Coq Require Import ZArith List Bool.
From Verif Require Import Base.Wire Base.Rha Num.Amount Calc.Doc Calc.Calc.
Import ListNotations.
Open Scope Z_scope.

Record tax_total := mkTT { tt_cats : list cat_total; tt_sum : amount; tt_precise : amount }.

(* ---- Negate ---- *)
Definition rt_negate (r : rate_total) : rate_total :=
  mkRT (rt_key r) (rt_country r) (rt_ext r) (rt_pct r) (rt_sur r)
       (negate (rt_base r)) (negate (rt_amount r)) (negate (rt_suramount r)).
Definition ct_negate (c : cat_total) : cat_total :=
  mkCT (ct_code c) (ct_retained c) (map rt_negate (ct_rates c)) (negate (ct_amount c))
       (option_map negate (ct_surcharge c)) (negate (ct_precise c)).
Definition tt_negate (t : tax_total) : tax_total :=
  mkTT (map ct_negate (tt_cats t)) (negate (tt_sum t)) (negate (tt_precise t)).

Definition rt_negate_shipped (r : rate_total) : rate_total :=
  mkRT (rt_key r) (rt_country r) (rt_ext r) (rt_pct r) (rt_sur r)
       (negate (rt_base r)) (negate (rt_amount r)) (rt_suramount r).
Definition ct_negate_shipped (c : cat_total) : cat_total :=
  mkCT (ct_code c) (ct_retained c) (map rt_negate_shipped (ct_rates c)) (negate (ct_amount c))
       (ct_surcharge c) (negate (ct_precise c)).
Definition tt_negate_shipped (t : tax_total) : tax_total :=
  mkTT (map ct_negate_shipped (tt_cats t)) (negate (tt_sum t)) (negate (tt_precise t)).

(* ---- RateTotal.Matches (exported; keys ignored) ---- *)
Definition rt_Matches (a b : rate_total) : bool :=
  ext_eqb (rt_ext a) (rt_ext b) && eqb_bytes (rt_country a) (rt_country b) &&
  let sur_ok := match rt_sur a, rt_sur b with
                | None, None => true
                | Some s, Some s2 => equals s s2
                | _, _ => false
                end in
  match rt_pct a, rt_pct b with
  | None, None => sur_ok       (* repaired in /repo: was `true`, and Merge dereferenced the missing surcharge *)
  | Some p, Some q => equals p q && sur_ok
  | _, _ => false
  end.

(* ---- Merge ---- *)
(* x.MatchPrecision(y).Add(y): the sum at the finer of the two precisions, nothing is rounded away.
   Plain x.Add(y) rescales - i.e. rounds, half away from zero - y to x's decimals. *)
Definition add_precise (x y : amount) : amount := add (match_precision x y) y.

(* repaired: every presented figure is summed with x.MatchPrecision(y).Add(y) *)
Definition rt_merge (m r : rate_total) : rate_total :=
  mkRT (rt_key m) (rt_country m) (rt_ext m) (rt_pct m) (rt_sur m)
       (add_precise (rt_base m) (rt_base r)) (add_precise (rt_amount m) (rt_amount r))
       (match rt_sur r with Some _ => add_precise (rt_suramount m) (rt_suramount r) | None => rt_suramount m end).
(* as shipped: x.Add(y), the right operand rounded to the left operand's decimals *)
Definition rt_merge_shipped (m r : rate_total) : rate_total :=
  mkRT (rt_key m) (rt_country m) (rt_ext m) (rt_pct m) (rt_sur m)
       (add (rt_base m) (rt_base r)) (add (rt_amount m) (rt_amount r))
       (match rt_sur r with Some _ => add (rt_suramount m) (rt_suramount r) | None => rt_suramount m end).

Fixpoint merge_rate (rts : list rate_total) (r : rate_total) : list rate_total :=
  match rts with
  | [] => [r]
  | m :: rest => if rt_Matches m r then rt_merge m r :: rest else m :: merge_rate rest r
  end.
Fixpoint merge_rate_shipped (rts : list rate_total) (r : rate_total) : list rate_total :=
  match rts with
  | [] => [r]
  | m :: rest => if rt_Matches m r then rt_merge_shipped m r :: rest else m :: merge_rate_shipped rest r
  end.

Definition sur_merge (a b : option amount) : option amount :=
  match b with
  | None => a
  | Some y => match a with Some x => Some (add_precise x y) | None => Some y end
  end.
(* one-sided surcharges kept (repaired earlier), two-sided ones added with plain Add *)
Definition sur_merge_rounding (a b : option amount) : option amount :=
  match b with
  | None => a
  | Some y => match a with Some x => Some (add x y) | None => Some y end
  end.
Definition sur_merge_shipped (a b : option amount) : option amount :=
  match a, b with
  | Some x, Some y => Some (add x y)
  | _, _ => b
  end.

(* CategoryTotal.PreciseAmount / Total.PreciseSum: the unexported working-precision figure when it
   is set (non-zero), the presented figure otherwise *)
Definition ct_PreciseAmount (c : cat_total) : amount := precise_or (ct_precise c) (ct_amount c).
Definition tt_PreciseSum (t : tax_total) : amount := precise_or (tt_precise t) (tt_sum t).

(* what Merge does with the figures that were repaired at different times: the presented amounts
   (category amount, summary sum, and - through the rate-group merge - base, amount, surcharge amount),
   the category surcharge, the category's unexported amount, the summary's unexported sum *)
Record merge_policy := mkMP {
  mp_add : amount -> amount -> amount;
  mp_merge_rate : list rate_total -> rate_total -> list rate_total;
  mp_sur : option amount -> option amount -> option amount;
  mp_cat_precise : cat_total -> cat_total -> amount;
  mp_sum_precise : tax_total -> tax_total -> amount
}.
(* repaired: pa := ct.PreciseAmount(); catTotal.amount = catTotal.PreciseAmount().MatchPrecision(pa).Add(pa)
             ps := t2.PreciseSum();    nt.sum = nt.PreciseSum().MatchPrecision(ps).Add(ps)
             and all six presented figures x.MatchPrecision(y).Add(y) *)
Definition mp_repaired : merge_policy :=
  mkMP add_precise merge_rate sur_merge
       (fun m c => add_precise (ct_PreciseAmount m) (ct_PreciseAmount c))
       (fun t t2 => add_precise (tt_PreciseSum t) (tt_PreciseSum t2)).
(* as shipped: catTotal.amount untouched; nt.sum = nt.sum.Add(t2.sum); presented figures x.Add(y) *)
Definition mp_shipped : merge_policy :=
  mkMP add merge_rate_shipped sur_merge_shipped
       (fun m _ => ct_precise m)
       (fun t t2 => add (tt_precise t) (tt_precise t2)).
(* the surcharge repaired, the unexported figures as shipped (the state before the last but one repair) *)
Definition mp_precise_shipped : merge_policy :=
  mkMP add merge_rate_shipped sur_merge_rounding (mp_cat_precise mp_shipped) (mp_sum_precise mp_shipped).
(* the unexported figures repaired too, the presented ones still added with plain Add (the state
   before the last repair): operands of different precision are rounded to the left one's decimals *)
Definition mp_rounding_shipped : merge_policy :=
  mkMP add merge_rate_shipped sur_merge_rounding (mp_cat_precise mp_repaired) (mp_sum_precise mp_repaired).

Definition ct_merge_with (mp : merge_policy) (m c : cat_total) : cat_total :=
  mkCT (ct_code m) (ct_retained m) (fold_left (mp_merge_rate mp) (ct_rates c) (ct_rates m))
       (mp_add mp (ct_amount m) (ct_amount c)) (mp_sur mp (ct_surcharge m) (ct_surcharge c)) (mp_cat_precise mp m c).

Fixpoint merge_cat_with mp (cts : list cat_total) (c : cat_total) : list cat_total :=
  match cts with
  | [] => [c]
  | m :: rest => if eqb_bytes (ct_code m) (ct_code c) then ct_merge_with mp m c :: rest
                 else m :: merge_cat_with mp rest c
  end.

Definition tt_merge_with mp (t t2 : tax_total) : tax_total :=
  mkTT (fold_left (merge_cat_with mp) (tt_cats t2) (tt_cats t))
       (mp_add mp (tt_sum t) (tt_sum t2)) (mp_sum_precise mp t t2).
Definition tt_merge := tt_merge_with mp_repaired.
Definition tt_merge_shipped := tt_merge_with mp_shipped.
Definition tt_merge_precise_shipped := tt_merge_with mp_precise_shipped.
Definition tt_merge_rounding_shipped := tt_merge_with mp_rounding_shipped.

(* ---- Total.Calculate (recalculation of a summary from its bases; used by DocumentRef) ---- *)
Definition tt_calculate_from (init_sur : cat_total -> option amount) (cr : bool) (c : nat) (t : tax_total) : tax_total :=
  let cats0 := map (fun ct =>
                      let rts := map (rt_calc c) (ct_rates ct) in
                      let st := fold_left (ct_step cr c) rts (zero_of c, init_sur ct) in
                      mkCT (ct_code ct) (ct_retained ct) rts (fst st) (snd st) (fst st)) (tt_cats t) in
  let s := fold_left (sum_step cr) cats0 (zero_of c) in
  mkTT (map (ct_round c) cats0) (rescale s c) s.
Definition tt_calculate := tt_calculate_from (fun _ => None).
Definition tt_calculate_shipped := tt_calculate_from ct_surcharge.

(* ---- payments ---- *)
Record pay_line := mkPL {
  pl_cur : option Z;                 (* line currency when given *)
  pl_debit : option amount;
  pl_credit : option amount;
  pl_doc : option (option Z * option tax_total)   (* document ref: its currency, its tax summary *)
}.

Definition convert (rates : list xrate) (from to : Z) (subunits_to : nat) (a : amount) : option amount :=
  if from =? to then Some a
  else match find_rate from to rates with
       (* ExchangeRate.Convert, as repaired: raised to the destination currency's decimals before Multiply *)
       | Some r => Some (rescale (mul (match_precision a (mkA 0 subunits_to)) r) subunits_to)
       | None => None
       end.

Definition pl_amount (rates : list xrate) (cur : Z) (c : nat) (lc : option Z) (a : amount) : option amount :=
  match lc with
  | None => Some a
  | Some k => convert rates k cur c a
  end.

(* PaymentLine.calculate; keep_precision = false is the shipped behaviour (MatchPrecision result discarded) *)
Definition pl_total (keep_precision : bool) (rates : list xrate) (cur : Z) (c : nat) (l : pay_line) : option amount :=
  let step (f : amount -> amount -> amount) (t : option amount) (x : option amount) : option amount :=
      match t, x with
      | None, _ => None
      | Some t0, None => Some t0
      | Some t0, Some a0 =>
        match pl_amount rates cur c (pl_cur l) a0 with
        | None => None
        | Some a => Some (f (if keep_precision then match_precision t0 a else t0) a)
        end
      end in
  step sub (step add (Some (zero_of c)) (pl_debit l)) (pl_credit l).

Record pay_out := mkPO { po_lines : list amount; po_total : option amount; po_tax : option tax_total }.

Fixpoint pay_calc_aux (keep : bool) (cr : bool) (rates : list xrate) (cur : Z) (c : nat)
         (subunits : Z -> nat) (ls : list pay_line)
         (acc_lines : list amount) (total : option amount) (tt : option tax_total) : option pay_out :=
  match ls with
  | [] => Some (mkPO (rev acc_lines) total tt)
  | l :: rest =>
    match pl_total keep rates cur c l with
    | None => None
    | Some lt =>
      let tt' := match pl_doc l with
                 | Some (dcur, Some dt) =>
                   let dc := match dcur with Some k => subunits k | None => c end in
                   let calc := tt_calculate cr dc dt in
                   Some (match tt with None => calc | Some t0 => tt_merge t0 calc end)
                 | _ => tt
                 end in
      let total' := match total with
                    | None => lt
                    | Some t0 => add (if keep then match_precision t0 lt else t0) lt
                    end in
      pay_calc_aux keep cr rates cur c subunits rest (lt :: acc_lines) (Some total') tt'
    end
  end.

Definition pay_calc (keep cr : bool) rates cur c subunits ls : option pay_out :=
  pay_calc_aux keep cr rates cur c subunits ls [] None None.
