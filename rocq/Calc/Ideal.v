(* C01 - declarative specification of every figure of a calculated document over the rationals.
   Written from the property's wording, not from the code: every figure is a formula over exact
   rational arithmetic (Q) on the supplied quantities, prices, percentages and exchange rates in
   which a rounding operator `R e q` ("q rounded to e decimals") appears ONLY at the rounding
   points, and every figure carries the number of decimals (precision) it is held at.

   The whole specification is parametrised by the rounding operator R:
     ideal = spec with R := rnd      (half away from zero, Num.AmountProofs.roundQ)
     exact = spec with R := noround  (no rounding anywhere: the "unrounded exact value")

   Precision rule, stated once (cr = true: 'currency' rule, cr = false: 'precise' rule; c = the
   currency's decimals):
     - a supplied number is held at its own decimals;
     - the minimal working precision is  wmin = c + 2 under 'precise',  c under 'currency';
     - a product  a x b  is rounded at the precision a is held at, after a was raised to the
       minimal working precision where the property says so (prices, bases);
     - `settle`: after each line-level / row-level figure is worked out, 'currency' rounds it to c
       decimals, 'precise' keeps it (held at no fewer than c decimals);
     - adding / subtracting a figure to a running figure rounds the added figure to the precision
       of the running one (no effect when it is not more precise);
     - every presented document total is rounded to c decimals.
   Places where the rounding points of the implementation are NOT the ones the property documents
   are flagged "(!)" below; Calc/IdealBoundProofs.v has `_refuted` witnesses for the conversion, the
   breakdown price and the double rounding under 'currency'.

   Definitions only - no proofs in this file. *)
From Coq Require Import ZArith QArith List Bool.
From Verif Require Import Base.Wire Base.Rha Num.Amount Num.AmountProofs Calc.Doc Calc.Calc.
Import ListNotations.
Open Scope Q_scope.

(* a figure: its value and the number of decimals it is held at *)
Record fig := mkF { fq : Q; fp : nat }.

(* q rounded half away from zero to e decimals, as a rational *)
Definition rnd (e : nat) (q : Q) : Q := roundQ e q # Z.to_pos (pow10 e).
Definition noround (e : nat) (q : Q) : Q := q.

Definition of_amount (a : amount) : fig := mkF (toQ a) (exp a).
(* held at no fewer than e decimals; the value does not change *)
Definition raise (e : nat) (f : fig) : fig := mkF (fq f) (Nat.max (fp f) e).
Definition fneg (f : fig) : fig := mkF (- fq f) (fp f).
Definition sumQl (l : list Q) : Q := fold_right Qplus 0 l.
Definition maxl (l : list nat) (z : nat) : nat := fold_right Nat.max z l.

(* a percentage that is given and not zero *)
Definition nonzero_pct (p : option amount) : option Q :=
  match p with
  | Some q => if Qeq_bool (toQ q) 0 then None else Some (toQ q)
  | None => None
  end.

(* results, per sub-line and per line *)
Record isub := mkIS { is_price : fig; is_sum : fig; is_total : fig; is_ds : list fig; is_cs : list fig }.
Record iline := mkIL {
  il_price : fig; il_sum : fig; il_total : fig;
  il_ds : list fig; il_cs : list fig; il_subs : list isub
}.

(* tax rows, groups (rows sharing category, country, extensions, percentage, surcharge) and
   categories *)
Record irow := mkIR { ir_total : fig; ir_taxes : list combo }.
Record igroup := mkIG { ig_cb : combo; ig_base : fig }.
Record icat := mkIC { ic_code : bytes; ic_retained : bool; ic_groups : list igroup }.

(* the document's presented figures *)
Record itotals := mkIT {
  i_lines : list iline;             (* as presented *)
  i_sum : Q;
  i_discount : option Q;
  i_charge : option Q;
  i_tax_included : option Q;
  i_total : Q;
  i_tax : Q;
  i_twt : Q;
  i_payable : Q;
  i_advances : option Q;
  i_due : option Q;
  i_dd : list fig;                  (* presented document discount rows *)
  i_cc : list fig;
  i_adv_rows : list Q;
  i_dues : list Q;
  i_cats : list icat;               (* categories and groups with their bases at working precision *)
  i_ws : nat                        (* the precision the document totals are worked out at *)
}.

Section Spec.
Variable R : nat -> Q -> Q.       (* the rounding operator *)
Variable cr : bool.               (* 'currency' rule *)
Variable c : nat.                 (* decimals of the document currency *)

Definition wmin : nat := if cr then c else (c + 2)%nat.

(* a product is rounded at the precision of its first factor *)
Definition prod (f : fig) (q : Q) : fig := mkF (R (fp f) (fq f * q)) (fp f).
(* what the rounding rule does to a worked-out figure *)
Definition settle (f : fig) : fig := if cr then mkF (R c (fq f)) c else raise c f.
(* presentation at no more than e decimals *)
Definition lower (e : nat) (f : fig) : fig := if Nat.ltb e (fp f) then mkF (R e (fq f)) e else f.

(* ---- the price of an item in the document's currency ----
   (!) a price converted by an exchange rate is rounded to the currency's decimals - also under
   'precise'; a price written with MORE decimals than the currency is rounded twice: at its own
   precision, then to the currency's (with no more decimals the product is rounded once: the
   price is first held at the currency's decimals) *)
Definition s_item_price (cur : Z) (rates : list xrate) (it : item) : option fig :=
  match it_cur it with
  | None => Some (raise c (of_amount (it_price it)))
  | Some (ic, isub) =>
    let p := raise isub (of_amount (it_price it)) in
    if (ic =? cur)%Z then Some p
    else match find_alt cur (it_alts it) with
         | Some v => Some (raise c (of_amount v))
         | None => match find_rate ic cur rates with
                   | Some r => Some (mkF (R c (fq (prod (raise c p) (toQ r)))) c)
                   | None => None
                   end
         end
  end.

(* ---- line-level discounts and charges ---- *)
(* an explicit base is held at the minimal working precision *)
Definition s_base (b : amount) : fig :=
  if cr then mkF (R c (toQ b)) c else raise (c + 2) (of_amount b).

(* a rate x quantity charge is the EXACT product, carried at (decimals of the rate) + (decimals of
   the quantity); the quantity is the row's own when given, else the line's *)
Definition s_row (sum : fig) (qty : fig) (is_charge : bool) (d : ldc) : fig :=
  let a1 := match nonzero_pct (ld_pct d) with
            | Some p => prod (match ld_base d with None => sum | Some b => s_base b end) p
            | None => of_amount (ld_amount d)
            end in
  settle (if is_charge then
            match ld_rate d with
            | Some r => let q := match ld_qty d with Some q => of_amount q | None => qty end in
                        mkF (toQ r * fq q) (exp r + fp q)
            | None => a1
            end
          else a1).

(* total = sum - discounts + charges, each row rounded to the precision of the sum *)
Definition s_total (sum : fig) (ds cs : list fig) : fig :=
  mkF (fq sum - sumQl (map (fun x => R (fp sum) (fq x)) ds) + sumQl (map (fun x => R (fp sum) (fq x)) cs))
      (fp sum).

(* sum = price x quantity at the working precision, then settled
   (!) under 'currency' a price written with more than c decimals makes this a double rounding *)
Definition s_sub (cur : Z) (rates : list xrate) (sl : subline) : option isub :=
  match s_item_price cur rates (sl_item sl) with
  | None => None
  | Some sp =>
    let q := of_amount (sl_qty sl) in
    let sum := settle (prod (if cr then sp else raise (c + 2) sp) (fq q)) in
    let ds := map (s_row sum q false) (sl_discounts sl) in
    let cs := map (s_row sum q true) (sl_charges sl) in
    Some (mkIS sp sum (s_total sum ds cs) ds cs)
  end.

Fixpoint s_subs cur rates (sls : list subline) : option (list isub) :=
  match sls with
  | [] => Some []
  | sl :: r => match s_sub cur rates sl, s_subs cur rates r with
               | Some x, Some xs => Some (x :: xs)
               | _, _ => None
               end
  end.

(* a line with a breakdown is priced at the sum of the sub-line totals
   (!) rounded to the largest number of decimals of a sub-line price *)
Definition s_line (cur : Z) (rates : list xrate) (l : line) : option iline :=
  match s_subs cur rates (ln_breakdown l) with
  | None => None
  | Some subs =>
    let price0 := match subs with
                  | [] => s_item_price cur rates (ln_item l)
                  | _ => let m := maxl (map (fun s => fp (is_price s)) subs) 0 in
                         Some (raise c (mkF (R m (sumQl (map (fun s => fq (is_total s)) subs))) m))
                  end in
    match price0 with
    | None => None
    | Some price =>
      let q := of_amount (ln_qty l) in
      let sum := settle (prod (raise wmin price) (fq q)) in
      let ds := map (s_row sum q false) (ln_discounts l) in
      let cs := map (s_row sum q true) (ln_charges l) in
      Some (mkIL price sum (s_total sum ds cs) ds cs subs)
    end
  end.

Fixpoint s_lines cur rates (ls : list line) : option (list iline) :=
  match ls with
  | [] => Some []
  | l :: r => match s_line cur rates l, s_lines cur rates r with
              | Some x, Some xs => Some (x :: xs)
              | _, _ => None
              end
  end.

(* presented line figures have no more decimals than the line's price *)
Definition s_present_line (l : iline) : iline :=
  let e := fp (il_price l) in
  mkIL (il_price l) (lower e (il_sum l)) (lower e (il_total l))
       (map (lower e) (il_ds l)) (map (lower e) (il_cs l))
       (map (fun s => mkIS (is_price s) (lower e (is_sum s)) (lower e (is_total s)) [] []) (il_subs l)).

(* ---- document sum, discounts and charges ---- *)
(* sums of figures are exact and held at the largest precision of their terms (at least c) *)
Definition s_sum_figs (xs : list fig) : fig := mkF (sumQl (map fq xs)) (maxl (map fp xs) c).
Definition s_opt_sum (xs : list fig) : option fig :=
  match xs with [] => None | _ => Some (s_sum_figs xs) end.

Definition s_ddc (sum : fig) (d : ddc) : fig :=
  settle (match nonzero_pct (dd_pct d) with
          | Some p => prod (match dd_base d with None => sum | Some b => s_base b end) p
          | None => of_amount (dd_amount d)
          end).

Definition s_present_ddc (d : ddc) (f : fig) : fig :=
  lower (match dd_base d with Some b => exp b | None => c end) f.

(* ---- taxes ---- *)
Definition s_rows (ils : list iline) (ls : list line) (dd cc : list (ddc * fig)) : list irow :=
  map (fun p => mkIR (il_total (fst p)) (ln_taxes (snd p))) (combine ils ls)
  ++ map (fun p => mkIR (fneg (snd p)) (dd_taxes (fst p))) dd
  ++ map (fun p => mkIR (snd p) (dd_taxes (fst p))) cc.

(* a taxed row is held at no fewer than c + 2 decimals *)
Definition s_prepare (r : irow) : irow :=
  match ir_taxes r with [] => r | _ => mkIR (raise (c + 2) (ir_total r)) (ir_taxes r) end.

(* prices include the tax of category pit: a row carrying it at p% is divided by 1 + p *)
Definition s_remove (pit : bytes) (r : irow) : option irow :=
  match pit with
  | [] => Some r
  | _ => match get_combo pit (ir_taxes r) with
         | None => Some r
         | Some cb => if cb_retained cb then None
                      else match cb_pct cb with
                           | None => Some r
                           | Some p => Some (mkIR (mkF (R (fp (ir_total r)) (fq (ir_total r) / (toQ p + 1)))
                                                       (fp (ir_total r))) (ir_taxes r))
                           end
         end
  end.

Fixpoint s_remove_all pit (rs : list irow) : option (list irow) :=
  match rs with
  | [] => Some []
  | r :: rest => match s_remove pit r, s_remove_all pit rest with
                 | Some x, Some xs => Some (x :: xs)
                 | _, _ => None
                 end
  end.

(* a group is identified by the combo that opened it; a later combo joins it when country,
   extensions, percentage and surcharge agree (Calc.rt_matches, characterised by
   TaxProofs.rt_matches_spec) *)
Definition ig_matches (g : igroup) (cb : combo) : bool := rt_matches (new_rt 0 (ig_cb g)) cb.

(* 'currency': each row enters a base rounded to c decimals; 'precise': as it is *)
Definition s_add_base (tot b : fig) : fig :=
  if cr then mkF (fq b + R c (fq tot)) c else mkF (fq b + fq tot) (Nat.max (fp b) (fp tot)).

Fixpoint s_add_to_groups (tot : fig) (cb : combo) (gs : list igroup) : list igroup :=
  match gs with
  | [] => [mkIG cb (s_add_base tot (mkF 0 c))]
  | g :: r => if ig_matches g cb then mkIG (ig_cb g) (s_add_base tot (ig_base g)) :: r
              else g :: s_add_to_groups tot cb r
  end.

Fixpoint s_add_to_cats (tot : fig) (cb : combo) (cts : list icat) : list icat :=
  match cts with
  | [] => [mkIC (cb_cat cb) (cb_retained cb) (s_add_to_groups tot cb [])]
  | ct :: r => if eqb_bytes (ic_code ct) (cb_cat cb)
               then mkIC (ic_code ct) (ic_retained ct) (s_add_to_groups tot cb (ic_groups ct)) :: r
               else ct :: s_add_to_cats tot cb r
  end.

Definition s_add_row (cts : list icat) (r : irow) : list icat :=
  fold_left (fun cts cb => s_add_to_cats (ir_total r) cb cts) (ir_taxes r) cts.
Definition s_cats (rows : list irow) : list icat := fold_left s_add_row rows [].

(* group amount = percentage of the base, rounded at the base's precision; exempt groups: none *)
Definition g_amount (g : igroup) : Q :=
  match cb_pct (ig_cb g) with
  | Some p => fq (prod (ig_base g) (toQ p))
  | None => 0
  end.
Definition g_surcharge (g : igroup) : Q :=
  match cb_pct (ig_cb g), cb_sur (ig_cb g) with
  | Some _, Some s => fq (prod (ig_base g) (toQ s))
  | _, _ => 0
  end.
(* category amount = sum of its groups' amounts ('currency': each rounded to c decimals first) *)
Definition contribQ (q : Q) : Q := if cr then R c q else q.
Definition cat_amount (ct : icat) : Q := sumQl (map (fun g => contribQ (g_amount g)) (ic_groups ct)).
Definition cat_surcharge (ct : icat) : Q := sumQl (map (fun g => contribQ (g_surcharge g)) (ic_groups ct)).
(* tax = ordinary categories minus retained ones, surcharges included *)
Definition cat_signed (ct : icat) : Q :=
  if ic_retained ct then - (cat_amount ct + cat_surcharge ct) else cat_amount ct + cat_surcharge ct.
Definition s_tax (cts : list icat) : Q := sumQl (map cat_signed cts).

Fixpoint s_find_cat (code : bytes) (cts : list icat) : option icat :=
  match cts with
  | [] => None
  | ct :: r => if eqb_bytes (ic_code ct) code then Some ct else s_find_cat code r
  end.

(* ---- payments ---- *)
Definition s_advance (twt : fig) (r : prow) : fig :=
  raise c (match pr_pct r with Some p => prod twt (toQ p) | None => of_amount (pr_amount r) end).
(* (!) a due amount by percentage is rounded twice: at the working precision, then to c *)
Definition s_due (payable : fig) (r : prow) : Q :=
  R c (fq (match nonzero_pct (pr_pct r) with Some p => prod payable p | None => of_amount (pr_amount r) end)).

Definition oQ (o : option fig) : Q := match o with Some f => fq f | None => 0 end.

(* ---- the document ---- *)
Definition spec (d : doc) : option itotals :=
  match s_lines (d_cur d) (d_rates d) (d_lines d) with
  | None => None
  | Some ils =>
    let sum := s_sum_figs (map il_total ils) in
    let ws := fp sum in
    let dds := map (fun x => (x, s_ddc sum x)) (d_discounts d) in
    let ccs := map (fun x => (x, s_ddc sum x)) (d_charges d) in
    let discount := s_opt_sum (map snd dds) in
    let charge := s_opt_sum (map snd ccs) in
    (* total before taxes: sum - discounts + charges, each rounded to the sum's precision *)
    let total1 := fq sum - R ws (oQ discount) + R ws (oQ charge) in
    match s_rows ils (d_lines d) dds ccs with
    | [] => None
    | rows =>
      match s_remove_all (d_pit d) (map s_prepare rows) with
      | None => None
      | Some rows2 =>
        let cats := s_cats rows2 in
        let tax := s_tax cats in
        let included := match d_pit d with
                        | [] => None
                        | _ => match s_find_cat (d_pit d) cats with
                               | Some ct => Some (cat_amount ct)
                               | None => None
                               end
                        end in
        let total := total1 - match included with Some ti => R ws ti | None => 0 end in
        let twt := total + R ws tax in
        (* a supplied totals.rounding is itself a presented total: rounded to the currency's decimals,
           and that figure is what payable adds *)
        let payable := twt + match d_rounding d with Some r => R ws (R c (toQ r)) | None => 0 end in
        let advs := map (s_advance (mkF twt ws)) (d_advances d) in
        let advances := s_opt_sum advs in
        let due := match advances with Some a => Some (payable - R ws (fq a)) | None => None end in
        let P := fun q => R c q in
        let Po := fun o : option Q => match o with Some q => Some (R c q) | None => None end in
        Some (mkIT (map s_present_line ils) (P (fq sum))
                   (Po (option_map fq discount)) (Po (option_map fq charge)) (Po included)
                   (P total) (P tax) (P twt) (P payable) (Po (option_map fq advances)) (Po due)
                   (map (fun p => s_present_ddc (fst p) (snd p)) dds)
                   (map (fun p => s_present_ddc (fst p) (snd p)) ccs)
                   (map (fun f => P (fq f)) advs)
                   (map (s_due (mkF payable ws)) (d_dues d))
                   cats ws)
      end
    end
  end.

End Spec.

(* the figures the property speaks of *)
Definition ideal (d : doc) : option itotals := spec rnd (d_currency_rule d) (d_c d) d.
(* the same figures with no rounding at all *)
Definition exact (d : doc) : option itotals := spec noround (d_currency_rule d) (d_c d) d.
