(* C17: independence of row order.  The accumulator idiom (raise precision, then add) is
   commutative, so every sum built with it is invariant under permutation of its rows; each
   line is calculated on its own, so a permutation of the lines permutes their results. *)
From Coq Require Import ZArith List Bool Lia Permutation.
From Verif Require Import Base.Wire Base.Rha Base.RhaProofs Num.Amount Num.AmountProofs Calc.Doc Calc.Calc.
Import ListNotations.
Open Scope Z_scope.

Lemma amount_eq (a b : amount) : val a = val b -> exp a = exp b -> a = b.
Proof. destruct a as [v e], b as [v2 e2]; cbn; intros -> ->; reflexivity. Qed.

Lemma match_precision_exp s x : exp (match_precision s x) = Nat.max (exp s) (exp x).
Proof.
  unfold match_precision, rescale_up. destruct (Nat.ltb (exp s) (exp x)) eqn:E.
  - apply Nat.ltb_lt in E. rewrite rescale_exp. lia.
  - apply Nat.ltb_ge in E. lia.
Qed.

Lemma match_precision_val s x : val (match_precision s x) = val s * pow10 (Nat.max (exp s) (exp x) - exp s).
Proof.
  unfold match_precision, rescale_up. destruct (Nat.ltb (exp s) (exp x)) eqn:E.
  - apply Nat.ltb_lt in E. rewrite rescale_up_val by lia. f_equal. f_equal. lia.
  - apply Nat.ltb_ge in E. replace (Nat.max (exp s) (exp x) - exp s)%nat with 0%nat by lia. rewrite pow10_0. lia.
Qed.

(* accumulate: the exponent is the maximum, the value the exact sum at that exponent *)
Lemma acc_exp s x : exp (acc s x) = Nat.max (exp s) (exp x).
Proof. unfold acc. rewrite add_exp. apply match_precision_exp. Qed.

Lemma acc_val s x : val (acc s x) =
  val s * pow10 (Nat.max (exp s) (exp x) - exp s) + val x * pow10 (Nat.max (exp s) (exp x) - exp x).
Proof.
  unfold acc, add. cbn [val]. rewrite match_precision_val, match_precision_exp.
  rewrite rescale_up_val by lia. reflexivity.
Qed.

Lemma acc_comm s x y : acc (acc s x) y = acc (acc s y) x.
Proof.
  apply amount_eq.
  - rewrite !acc_val, !acc_exp, ?acc_val.
    set (m := Nat.max (Nat.max (exp s) (exp x)) (exp y)).
    replace (Nat.max (Nat.max (exp s) (exp y)) (exp x)) with m by (unfold m; lia).
    rewrite !Z.mul_add_distr_r, <- !Z.mul_assoc, <- !pow10_add.
    replace (Nat.max (exp s) (exp x) - exp s + (m - Nat.max (exp s) (exp x)))%nat with (m - exp s)%nat by (unfold m; lia).
    replace (Nat.max (exp s) (exp x) - exp x + (m - Nat.max (exp s) (exp x)))%nat with (m - exp x)%nat by (unfold m; lia).
    replace (Nat.max (exp s) (exp y) - exp s + (m - Nat.max (exp s) (exp y)))%nat with (m - exp s)%nat by (unfold m; lia).
    replace (Nat.max (exp s) (exp y) - exp y + (m - Nat.max (exp s) (exp y)))%nat with (m - exp y)%nat by (unfold m; lia).
    lia.
  - rewrite !acc_exp. lia.
Qed.

(* under the currency rule the accumulator is a plain add at the receiver's precision *)
Lemma add_comm_rows s x y : add (add s x) y = add (add s y) x.
Proof. apply amount_eq; [unfold add; cbn [val exp]; lia|reflexivity]. Qed.

Lemma acc_rr_comm cr s x y : acc_rr cr (acc_rr cr s x) y = acc_rr cr (acc_rr cr s y) x.
Proof. destruct cr; [apply add_comm_rows|apply acc_comm]. Qed.

Lemma fold_perm {A} (f : A -> amount -> A) :
  (forall s x y, f (f s x) y = f (f s y) x) ->
  forall xs ys, Permutation xs ys -> forall z, fold_left f xs z = fold_left f ys z.
Proof.
  intros C xs ys P. induction P as [|x xs ys _ IH|x y xs|xs ys zs _ IH1 _ IH2]; intros z; cbn [fold_left].
  - reflexivity.
  - apply IH.
  - rewrite C. reflexivity.
  - rewrite IH1. apply IH2.
Qed.

Lemma fold_acc_perm xs ys z : Permutation xs ys -> fold_left acc xs z = fold_left acc ys z.
Proof. intros P. apply (fold_perm acc acc_comm _ _ P). Qed.

Lemma sum_opt_perm c xs ys : Permutation xs ys -> sum_opt c xs = sum_opt c ys.
Proof.
  intros P. unfold sum_opt. destruct xs as [|x xs].
  - apply Permutation_nil in P. subst ys. reflexivity.
  - destruct ys as [|y ys]; [apply Permutation_sym, Permutation_nil in P; discriminate|].
    f_equal. apply fold_acc_perm. exact P.
Qed.

(* each line is calculated on its own: permuting the lines permutes their results *)
Lemma calc_lines_perm cr c cur rates ls ls' :
  Permutation ls ls' -> forall lcs, calc_lines cr c cur rates ls = Some lcs ->
  exists lcs', calc_lines cr c cur rates ls' = Some lcs' /\ Permutation lcs lcs'.
Proof.
  intros P. induction P as [|l ls ls' _ IH|l1 l2 ls|ls ls' ls'' _ IH1 _ IH2]; intros lcs H.
  - exists lcs. split; [exact H|apply Permutation_refl].
  - cbn [calc_lines] in *. destruct (calc_line cr c cur rates l) as [x|]; [|discriminate].
    destruct (calc_lines cr c cur rates ls) as [xs|] eqn:E; [|discriminate].
    inversion H; subst. destruct (IH xs eq_refl) as (xs' & E' & P').
    rewrite E'. exists (x :: xs'). split; [reflexivity|apply perm_skip; exact P'].
  - cbn [calc_lines] in *. destruct (calc_line cr c cur rates l1) as [x1|]; destruct (calc_line cr c cur rates l2) as [x2|]; try discriminate;
      destruct (calc_lines cr c cur rates ls) as [xs|]; try discriminate.
    inversion H; subst. exists (x1 :: x2 :: xs). split; [reflexivity|apply perm_swap].
  - destruct (IH1 lcs H) as (l1 & E1 & P1). destruct (IH2 l1 E1) as (l2 & E2 & P2).
    exists l2. split; [exact E2|eapply Permutation_trans; eauto].
Qed.

(* the document sum does not depend on the order of the lines, and each line keeps its figures *)
Theorem document_sum_independent_of_line_order cr c cur rates ls ls' lcs :
  Permutation ls ls' -> calc_lines cr c cur rates ls = Some lcs ->
  exists lcs', calc_lines cr c cur rates ls' = Some lcs' /\ Permutation lcs lcs' /\
               fold_left acc (map lc_total lcs') (zero_of c) = fold_left acc (map lc_total lcs) (zero_of c).
Proof.
  intros P H. destruct (calc_lines_perm cr c cur rates ls ls' P lcs H) as (lcs' & E & P').
  exists lcs'. split; [exact E|]. split; [exact P'|].
  apply fold_acc_perm. apply Permutation_map. apply Permutation_sym. exact P'.
Qed.

(* discounts, charges and advances: their totals are independent of row order *)
Theorem row_totals_independent_of_order c xs ys : Permutation xs ys -> sum_opt c xs = sum_opt c ys.
Proof. exact (sum_opt_perm c xs ys). Qed.
