(* Statement vocabulary of C17's negation symmetry (no proofs): the negation of a result. *)
From Coq Require Import ZArith List Bool.
From Verif Require Import Base.Wire Num.Amount Calc.Doc Calc.Calc Calc.Merge Calc.Symmetry.
Import ListNotations.
Open Scope Z_scope.

(* a presented line with every signed figure negated; unit price and sub-lines are unsigned *)
Definition lo_neg (l : line_out) : line_out :=
  mkLineOut (lo_price l) (negate (lo_sum l)) (negate (lo_total l))
            (map negate (lo_discounts l)) (map negate (lo_charges l)) (lo_subs l).

(* rate groups and categories are negated as in tax.Total.Negate (Calc/Merge.v: rt_negate, ct_negate) *)
Definition totals_neg (t : totals) : totals :=
  mkTotals (map lo_neg (t_lines t)) (negate (t_sum t)) (oneg (t_discount t)) (oneg (t_charge t))
           (oneg (t_tax_included t)) (negate (t_total t)) (negate (t_tax t)) (negate (t_twt t))
           (negate (t_payable t)) (oneg (t_advances t)) (oneg (t_due t))
           (map negate (t_dd t)) (map negate (t_cc t)) (map negate (t_adv_rows t)) (map negate (t_dues t))
           (map ct_negate (t_cats t)) (negate (t_taxsum t)) (negate (t_taxsum_precise t))
           (oneg (t_rounding t)).

Definition result_neg (r : calc_result) : calc_result :=
  match r with
  | CalcError => CalcError
  | NoTotals ls => NoTotals (map lo_neg ls)
  | Totals t => Totals (totals_neg t)
  end.
