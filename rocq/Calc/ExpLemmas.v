(* Arithmetic on amounts that share one exponent is plain integer arithmetic: the lemmas behind
   C03 (currency rule: everything lives at the currency's precision). *)
From Coq Require Import ZArith List Bool Lia.
From Verif Require Import Base.Rha Base.RhaProofs Num.Amount Num.AmountProofs Calc.Doc Calc.Calc Calc.CurrencySpec.
Import ListNotations.
Open Scope Z_scope.


Lemma amount_eta a : a = mkA (val a) (exp a).
Proof. destruct a; reflexivity. Qed.

Lemma add_same a b : exp b = exp a -> add a b = mkA (val a + val b) (exp a).
Proof. intros H. unfold add. rewrite rescale_same by exact H. reflexivity. Qed.

Lemma sub_same a b : exp b = exp a -> sub a b = mkA (val a - val b) (exp a).
Proof. intros H. unfold sub. rewrite rescale_same by exact H. reflexivity. Qed.

Lemma rescale_up_id a e : (e <= exp a)%nat -> rescale_up a e = a.
Proof. intros H. unfold rescale_up. destruct (Nat.ltb (exp a) e) eqn:E; [apply Nat.ltb_lt in E; lia|reflexivity]. Qed.

Lemma rescale_down_id a e : (exp a <= e)%nat -> rescale_down a e = a.
Proof. intros H. unfold rescale_down. destruct (Nat.ltb e (exp a)) eqn:E; [apply Nat.ltb_lt in E; lia|reflexivity]. Qed.

Lemma rescale_up_exp_ge a e : (e <= exp (rescale_up a e))%nat.
Proof.
  unfold rescale_up. destruct (Nat.ltb (exp a) e) eqn:E.
  - rewrite rescale_exp. lia.
  - apply Nat.ltb_ge in E. exact E.
Qed.

Lemma match_precision_same s x : exp x = exp s -> match_precision s x = s.
Proof. intros H. unfold match_precision. apply rescale_up_id. lia. Qed.

Lemma acc_same s x : exp x = exp s -> acc s x = mkA (val s + val x) (exp s).
Proof. intros H. unfold acc. rewrite match_precision_same by exact H. apply add_same. exact H. Qed.

Lemma apply_rr_true_exp c a : exp (apply_rr true c a) = c.
Proof. unfold apply_rr. apply rescale_exp. Qed.

Lemma apply_rr_true_id c a : exp a = c -> apply_rr true c a = a.
Proof. intros H. unfold apply_rr. apply rescale_same. exact H. Qed.

Lemma fold_acc_same xs : forall z c, exp z = c -> Forall (at_exp c) xs ->
  fold_left acc xs z = mkA (val z + sumv xs) c.
Proof.
  induction xs as [|x xs IH]; intros z c Hz Hx; cbn [fold_left sumv fold_right].
  - rewrite Z.add_0_r. subst c. apply amount_eta.
  - inversion Hx as [|? ? Hx1 Hx2]; subst. unfold at_exp in Hx1.
    rewrite acc_same by exact Hx1. rewrite (IH _ (exp z)); [|reflexivity|exact Hx2].
    cbn [val]. f_equal. fold (sumv xs). lia.
Qed.

Lemma fold_add_same xs : forall z c, exp z = c -> Forall (at_exp c) xs ->
  fold_left add xs z = mkA (val z + sumv xs) c.
Proof.
  induction xs as [|x xs IH]; intros z c Hz Hx; cbn [fold_left sumv fold_right].
  - rewrite Z.add_0_r. subst c. apply amount_eta.
  - inversion Hx as [|? ? Hx1 Hx2]; subst. unfold at_exp in Hx1.
    rewrite add_same by exact Hx1. rewrite (IH _ (exp z)); [|reflexivity|exact Hx2].
    cbn [val]. f_equal. fold (sumv xs). lia.
Qed.

Lemma fold_sub_same xs : forall z c, exp z = c -> Forall (at_exp c) xs ->
  fold_left sub xs z = mkA (val z - sumv xs) c.
Proof.
  induction xs as [|x xs IH]; intros z c Hz Hx; cbn [fold_left sumv fold_right].
  - rewrite Z.sub_0_r. subst c. apply amount_eta.
  - inversion Hx as [|? ? Hx1 Hx2]; subst. unfold at_exp in Hx1.
    rewrite sub_same by exact Hx1. rewrite (IH _ (exp z)); [|reflexivity|exact Hx2].
    cbn [val]. f_equal. fold (sumv xs). lia.
Qed.

Lemma mul_exp' a b : exp (mul a b) = exp a. Proof. reflexivity. Qed.
Lemma pct_of_exp p a : exp (pct_of p a) = exp a. Proof. reflexivity. Qed.
