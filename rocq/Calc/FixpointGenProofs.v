(* C04: the fixpoint under EITHER rounding rule, for documents whose fixed amounts carry no more
   decimals than they are presented with (the exact complement of the known finding
   C04-excess-decimals-feed-back). *)
From Coq Require Import ZArith List Bool Lia.
From Verif Require Import Base.Wire Base.Rha Base.RhaProofs Num.Amount Num.AmountProofs
  Calc.Doc Calc.Calc Calc.Symmetry Calc.CurrencySpec Calc.ExpLemmas Calc.CurrencyProofs Calc.FixpointProofs.
Import ListNotations.
Open Scope Z_scope.

(* a line discount / charge row whose amount is an input (no percentage, no rate) *)
Definition ldc_is_fixed (ch : bool) (d : ldc) : bool :=
  match opt_nonzero (ld_pct d) with
  | Some _ => false
  | None => if ch then match ld_rate d with Some _ => false | None => true end else true
  end.

(* the row keeps its amount through presentation at exponent e: at most e decimals *)
Definition ldc_no_excess (e : nat) (ch : bool) (d : ldc) : Prop :=
  ldc_is_fixed ch d = true -> (exp (ld_amount d) <= e)%nat.

Lemma apply_rr_exp_le cr c a e : (c <= e)%nat -> (exp a <= e)%nat -> (exp (apply_rr cr c a) <= e)%nat.
Proof.
  intros Hc Ha. unfold apply_rr. destruct cr.
  - rewrite rescale_exp. exact Hc.
  - unfold rescale_up. destruct (Nat.ltb (exp a) c); [rewrite rescale_exp; exact Hc|exact Ha].
Qed.

(* re-reading one row whose stored amount went through presentation at exponent e >= c *)
Lemma ldc_amount_reread cr c e sum qty ch d :
  (c <= e)%nat -> ldc_no_excess e ch d ->
  let a := ldc_amount cr c sum qty ch d in
  ldc_amount cr c sum qty ch (ldc_as_input c d (rescale_down a e)) = a.
Proof.
  intros Hc NE. cbv zeta.
  destruct (ldc_is_fixed ch d) eqn:F.
  - (* fixed: presentation is the identity on it *)
    specialize (NE F).
    assert (A : ldc_amount cr c sum qty ch d = apply_rr cr c (ld_amount d)).
    { unfold ldc_amount, ldc_is_fixed in *. destruct (opt_nonzero (ld_pct d)); [discriminate|].
      destruct ch; [destruct (ld_rate d); [discriminate|]|]; reflexivity. }
    rewrite A. rewrite rescale_down_id by (apply apply_rr_exp_le; assumption).
    rewrite <- A. apply ldc_amount_fix.
  - (* derived: the stored amount is not read at all *)
    unfold ldc_amount at 1. unfold ldc_as_input. cbn [ld_amount ld_pct ld_base ld_rate ld_qty].
    unfold ldc_is_fixed in F.
    destruct (opt_nonzero (ld_pct d)) as [p|] eqn:P.
    + assert (B : ldc_base cr c sum (match ld_base d with Some b => Some (rescale_up b c) | None => None end) = ldc_base cr c sum (ld_base d)).
      { unfold ldc_base. destruct (ld_base d) as [b|]; [rewrite rescale_up_idem|]; reflexivity. }
      assert (B' : match ld_base d with Some b => Some (rescale_up b c) | None => ld_base d end =
                   match ld_base d with Some b => Some (rescale_up b c) | None => None end).
      { destruct (ld_base d); reflexivity. }
      rewrite ?B', B. unfold ldc_amount. rewrite P. reflexivity.
    + destruct ch; [|discriminate]. destruct (ld_rate d) as [r|] eqn:R; [|discriminate].
      unfold ldc_amount. rewrite P, R. reflexivity.
Qed.

Lemma ldc_amounts_reread cr c e sum qty ch ds :
  (c <= e)%nat -> Forall (ldc_no_excess e ch) ds ->
  ldc_amounts cr c sum qty ch
    (zip_with (ldc_as_input c) ds (map (fun a => rescale_down a e) (ldc_amounts cr c sum qty ch ds)))
  = ldc_amounts cr c sum qty ch ds.
Proof.
  intros Hc H. unfold ldc_amounts. induction H as [|d ds H1 _ IH]; cbn [map zip_with]; [reflexivity|].
  rewrite IH. f_equal. apply ldc_amount_reread; assumption.
Qed.

(* ---------------- one line, either rule ---------------- *)
Definition line_no_excess (l : line) (lc : line_calc) : Prop :=
  Forall (ldc_no_excess (exp (lc_price lc)) false) (ln_discounts l) /\
  Forall (ldc_no_excess (exp (lc_price lc)) true) (ln_charges l).

Lemma calc_line_price_ge cr c cur rates l lc :
  item_wf cur c (ln_item l) -> calc_line cr c cur rates l = Some lc -> (c <= exp (lc_price lc))%nat.
Proof.
  intros W H. unfold calc_line in H.
  destruct (calc_subs cr c cur rates (ln_breakdown l)) as [subs|]; [|discriminate].
  match type of H with context [item_price ?it _ _ _] => set (it0 := it) in H end.
  assert (W0 : item_wf cur c it0).
  { unfold it0. destruct subs; [exact W|]. unfold item_wf. cbn [it_cur]. exact I. }
  destruct (item_price it0 cur c rates) as [price|] eqn:P; [|discriminate].
  inversion H; subst lc. cbn [lc_price]. eapply item_price_exp_ge; eauto.
Qed.

Lemma calc_line_fix cr c cur rates l lc :
  line_items_wf cur c l -> calc_line cr c cur rates l = Some lc -> line_no_excess l lc ->
  calc_line cr c cur rates (line_as_input c l lc) = Some lc.
Proof.
  intros [W WS] H [ND NC].
  pose proof (calc_line_price_ge cr c cur rates l lc W H) as Hp.
  unfold calc_line in H.
  destruct (calc_subs cr c cur rates (ln_breakdown l)) as [subs|] eqn:ES; [|discriminate].
  match type of H with context [item_price ?it _ _ _] => set (it0 := it) in H end.
  destruct (item_price it0 cur c rates) as [price|] eqn:P; [|discriminate].
  inversion H; subst lc; clear H.
  cbn [lc_price lc_sum lc_total lc_ds lc_cs lc_subs] in *.
  unfold calc_line, line_as_input, present_line.
  cbn [ln_breakdown ln_item ln_qty ln_discounts ln_charges ln_taxes lc_subs lc_price lc_ds lc_cs lo_price lo_discounts lo_charges].
  rewrite (calc_subs_fix cr c cur rates _ subs WS ES).
  assert (IP : item_price (match subs with
                           | [] => mkItem price None []
                           | _ :: _ => mkItem (rescale (fold_left acc (map sc_total subs) (zero_of c)) (max_exp (map sc_price subs))) None []
                           end) cur c rates = Some price).
  { destruct subs as [|s0 subs'].
    - apply item_price_plain. exact Hp.
    - exact P. }
  rewrite IP.
  rewrite (ldc_amounts_reread cr c (exp price) _ _ false _ Hp ND).
  rewrite (ldc_amounts_reread cr c (exp price) _ _ true _ Hp NC). reflexivity.
Qed.

Fixpoint lines_no_excess (ls : list line) (lcs : list line_calc) : Prop :=
  match ls, lcs with
  | l :: ls', lc :: lcs' => line_no_excess l lc /\ lines_no_excess ls' lcs'
  | _, _ => True
  end.

Lemma calc_lines_fix cr c cur rates ls : forall lcs,
  Forall (line_items_wf cur c) ls -> calc_lines cr c cur rates ls = Some lcs -> lines_no_excess ls lcs ->
  calc_lines cr c cur rates (zip_with (line_as_input c) ls lcs) = Some lcs.
Proof.
  induction ls as [|l ls IH]; intros lcs W H NE; cbn [calc_lines] in H.
  - inversion H; subst. reflexivity.
  - apply Forall_cons_iff in W. destruct W as [W1 W2].
    destruct (calc_line cr c cur rates l) as [x|] eqn:E1; [|discriminate].
    destruct (calc_lines cr c cur rates ls) as [xs|] eqn:E2; [|discriminate].
    inversion H; subst lcs. cbn [lines_no_excess] in NE. destruct NE as [N1 N2].
    cbn [zip_with calc_lines].
    rewrite (calc_line_fix cr c cur rates l x W1 E1 N1), (IH xs W2 eq_refl N2). reflexivity.
Qed.

(* ---------------- document rows, either rule ---------------- *)
Definition ddc_no_excess (c : nat) (x : ddc) : Prop :=
  opt_nonzero (dd_pct x) = None -> dd_base x = None /\ (exp (dd_amount x) <= c)%nat.

Definition ddc_reread_gen (cr : bool) (c : nat) (sum : amount) (x : ddc) : ddc :=
  ddc_as_input x (present_ddc c x (ddc_amount cr c sum x)).

Lemma ddc_reread_amount_gen cr c sum x : ddc_no_excess c x ->
  ddc_amount cr c sum (ddc_reread_gen cr c sum x) = ddc_amount cr c sum x.
Proof.
  intros F. unfold ddc_reread_gen, ddc_as_input. unfold ddc_amount at 1. cbn [dd_pct dd_base dd_amount].
  destruct (opt_nonzero (dd_pct x)) as [p|] eqn:P.
  - unfold ddc_amount. rewrite P. reflexivity.
  - destruct (F P) as [FB FE]. unfold present_ddc. rewrite FB.
    assert (A : ddc_amount cr c sum x = apply_rr cr c (dd_amount x)) by (unfold ddc_amount; rewrite P; reflexivity).
    rewrite A. rewrite rescale_down_id by (apply apply_rr_exp_le; [lia|exact FE]). apply apply_rr_idem.
Qed.

Lemma ddc_rows_gen cr c sum ds :
  zip_with ddc_as_input ds (map (fun p => present_ddc c (fst p) (snd p)) (map (fun x => (x, ddc_amount cr c sum x)) ds))
  = map (ddc_reread_gen cr c sum) ds.
Proof. rewrite zip_with_map_r. reflexivity. Qed.

Lemma ddc_rows_gen_proj {B} cr c sum (g : ddc -> amount -> B) ds :
  (forall x a, g (ddc_reread_gen cr c sum x) a = g x a) -> Forall (ddc_no_excess c) ds ->
  map (fun p => g (fst p) (snd p)) (map (fun x => (x, ddc_amount cr c sum x)) (map (ddc_reread_gen cr c sum) ds)) =
  map (fun p => g (fst p) (snd p)) (map (fun x => (x, ddc_amount cr c sum x)) ds).
Proof.
  intros G H. rewrite !map_map. cbn [fst snd]. induction H as [|x ds H1 _ IH]; cbn [map]; [reflexivity|].
  rewrite IH, ddc_reread_amount_gen by exact H1. rewrite G. reflexivity.
Qed.

(* ---------------- the whole document ---------------- *)
Definition no_excess_doc (d : doc) : Prop :=
  Forall (line_items_wf (d_cur d) (d_c d)) (d_lines d) /\
  (forall lcs, calc_lines (d_currency_rule d) (d_c d) (d_cur d) (d_rates d) (d_lines d) = Some lcs ->
               lines_no_excess (d_lines d) lcs) /\
  Forall (ddc_no_excess (d_c d)) (d_discounts d) /\ Forall (ddc_no_excess (d_c d)) (d_charges d) /\
  Forall (fun r => pr_pct r = None -> (exp (pr_amount r) <= d_c d)%nat) (d_advances d).

Theorem calc_fixpoint_no_excess d d1 :
  no_excess_doc d -> as_input d = Some d1 -> calculate d1 = calculate d.
Proof.
  intros (HW & HNE & HD & HC & Hadv) HA.
  unfold as_input in HA.
  set (c := d_c d) in *. set (cr := d_currency_rule d) in *.
  destruct (calc_lines cr c (d_cur d) (d_rates d) (d_lines d)) as [lcs|] eqn:EL; [|discriminate].
  pose proof (calc_lines_fix cr c _ _ _ lcs HW EL (HNE lcs eq_refl)) as FL.
  destruct (calculate d) as [|ls0|t] eqn:CD; try discriminate.
  - inversion HA; subst d1; clear HA.
    unfold calculate in CD |- *. fold c cr in CD. rewrite EL in CD.
    cbn [d_c d_currency_rule d_pit d_cur d_lines d_discounts d_charges d_rates d_advances d_dues d_rounding].
    fold c cr. rewrite FL.
    destruct (tax_lines lcs (d_lines d) _ _) as [|tl0 tls0] eqn:ETL in CD.
    + unfold tax_lines in ETL. apply app_eq_nil in ETL. destruct ETL as [E1 E2]. apply app_eq_nil in E2. destruct E2 as [E2 E3].
      assert (T : tax_lines lcs (zip_with (line_as_input c) (d_lines d) lcs) [] [] = []).
      { unfold tax_lines. cbn [map app]. rewrite app_nil_r. rewrite combine_as_input. exact E1. }
      cbn [map]. rewrite T. exact CD.
    + destruct (remove_included_all _ _); discriminate.
  - inversion HA; subst d1; clear HA.
    unfold calculate in CD |- *. fold c cr in CD. rewrite EL in CD.
    cbn [d_c d_currency_rule d_pit d_cur d_lines d_discounts d_charges d_rates d_advances d_dues d_rounding].
    fold c cr. rewrite FL.
    set (sum := fold_left acc (map lc_total lcs) (zero_of c)) in *.
    assert (TD : t_dd t = map (fun p => present_ddc c (fst p) (snd p)) (map (fun x => (x, ddc_amount cr c sum x)) (d_discounts d))
              /\ t_cc t = map (fun p => present_ddc c (fst p) (snd p)) (map (fun x => (x, ddc_amount cr c sum x)) (d_charges d))).
    { destruct (tax_lines lcs (d_lines d) _ _) in CD; [discriminate|].
      destruct (remove_included_all _ _) in CD; [|discriminate]. inversion CD; subst t. cbn [t_dd t_cc]. split; reflexivity. }
    destruct TD as [TD TC]. rewrite TD, TC, !ddc_rows_gen.
    assert (S1 : forall ds, Forall (ddc_no_excess c) ds ->
                 map snd (map (fun x => (x, ddc_amount cr c sum x)) (map (ddc_reread_gen cr c sum) ds)) =
                 map snd (map (fun x => (x, ddc_amount cr c sum x)) ds)).
    { intros ds Hds. apply (ddc_rows_gen_proj cr c sum (fun _ a => a) ds); [reflexivity|exact Hds]. }
    rewrite !(S1 _ HD), !(S1 _ HC).
    unfold tax_lines. rewrite combine_as_input.
    rewrite (ddc_rows_gen_proj cr c sum (fun x a => mkTL (negate a) (dd_taxes x)) _ (fun _ _ => eq_refl) HD).
    rewrite (ddc_rows_gen_proj cr c sum (fun x a => mkTL a (dd_taxes x)) _ (fun _ _ => eq_refl) HC).
    rewrite (ddc_rows_gen_proj cr c sum (fun x a => present_ddc c x a) _ (fun _ _ => eq_refl) HD).
    rewrite (ddc_rows_gen_proj cr c sum (fun x a => present_ddc c x a) _ (fun _ _ => eq_refl) HC).
    fold (tax_lines lcs (d_lines d) (map (fun x => (x, ddc_amount cr c sum x)) (d_discounts d))
                    (map (fun x => (x, ddc_amount cr c sum x)) (d_charges d))).
    unfold tax_lines in CD at 1.
    fold (tax_lines lcs (d_lines d) (map (fun x => (x, ddc_amount cr c sum x)) (d_discounts d))
                    (map (fun x => (x, ddc_amount cr c sum x)) (d_charges d))) in CD.
    destruct (tax_lines lcs (d_lines d) _ _) as [|tl0 tls0]; [discriminate|].
    destruct (remove_included_all (d_pit d) (map (prepare_tl c) (tl0 :: tls0))) as [tls2|]; [|discriminate].
    inversion CD as [CDt]. cbn [t_adv_rows t_dues t_rounding].
    rewrite (advances_reread c _ _ Hadv), rounding_reread, dues_reread. reflexivity.
Qed.
