(* Statement vocabulary of C03 (no proofs): what "every presented amount re-adds exactly" means
   on the calculation model.  All figures are integers (val) at the currency's exponent c. *)
From Coq Require Import ZArith List Bool.
From Verif Require Import Base.Wire Base.Rha Num.Amount Calc.Doc Calc.Calc.
Import ListNotations.
Open Scope Z_scope.

Definition at_exp (c : nat) (a : amount) : Prop := exp a = c.

Definition sumv (l : list amount) : Z := fold_right (fun a s => val a + s) 0 l.

Definition item_wf (cur : Z) (c : nat) (it : item) : Prop :=
  match it_cur it with Some (ic, isub) => ic = cur -> isub = c | None => True end.

Definition line_readds (c : nat) (price sum total : amount) (ds cs : list amount) : Prop :=
  exp sum = c /\ exp total = c /\ Forall (at_exp c) ds /\ Forall (at_exp c) cs /\
  val total = val sum - sumv ds + sumv cs /\ (c <= exp price)%nat.

Definition line_out_readds (c : nat) (lo : line_out) : Prop :=
  exp (lo_sum lo) = c /\ exp (lo_total lo) = c /\ Forall (at_exp c) (lo_discounts lo) /\ Forall (at_exp c) (lo_charges lo) /\
  val (lo_total lo) = val (lo_sum lo) - sumv (lo_discounts lo) + sumv (lo_charges lo).

Definition rt_at (c : nat) (rt : rate_total) : Prop :=
  exp (rt_base rt) = c /\ exp (rt_amount rt) = c /\ exp (rt_suramount rt) = c.

Definition ct_at (c : nat) (ct : cat_total) : Prop := Forall (rt_at c) (ct_rates ct).

Definition rt_readds (c : nat) (rt : rate_total) : Prop :=
  rt_at c rt /\
  match rt_pct rt with
  | None => val (rt_amount rt) = 0
  | Some p => val (rt_amount rt) = rha (val (rt_base rt) * val p) (pow10 (exp p)) /\
              match rt_sur rt with
              | Some s => val (rt_suramount rt) = rha (val (rt_base rt) * val s) (pow10 (exp s))
              | None => True
              end
  end.

Definition amt_sum (rts : list rate_total) : Z :=
  fold_right (fun rt s => match rt_pct rt with Some _ => val (rt_amount rt) + s | None => s end) 0 rts.

Definition sur_sum (rts : list rate_total) : Z :=
  fold_right (fun rt s => match rt_pct rt, rt_sur rt with Some _, Some _ => val (rt_suramount rt) + s | _, _ => s end) 0 rts.

Definition has_sur (rts : list rate_total) : bool :=
  existsb (fun rt => match rt_pct rt, rt_sur rt with Some _, Some _ => true | _, _ => false end) rts.

Definition oval (o : option amount) : Z := match o with Some a => val a | None => 0 end.

Definition oexp_ok (c : nat) (o : option amount) : Prop := match o with Some a => exp a = c | None => True end.

Definition ct_readds (c : nat) (ct : cat_total) : Prop :=
  Forall (rt_readds c) (ct_rates ct) /\
  exp (ct_amount ct) = c /\ val (ct_amount ct) = amt_sum (ct_rates ct) /\
  oexp_ok c (ct_surcharge ct) /\ oval (ct_surcharge ct) = sur_sum (ct_rates ct) /\
  (ct_surcharge ct = None <-> has_sur (ct_rates ct) = false) /\
  ct_precise ct = ct_amount ct.

Definition ct_signed (ct : cat_total) : Z :=
  let v := val (ct_amount ct) + oval (ct_surcharge ct) in if ct_retained ct then - v else v.

Definition signed_sum (cts : list cat_total) : Z := fold_right (fun ct s => ct_signed ct + s) 0 cts.

Definition currency_doc_wf (d : doc) : Prop :=
  d_currency_rule d = true /\
  Forall (fun l => item_wf (d_cur d) (d_c d) (ln_item l)) (d_lines d) /\
  (* fixed advance amounts are supplied at the currency's precision (the property's hypothesis) *)
  Forall (fun r => pr_pct r = None -> (exp (pr_amount r) <= d_c d)%nat) (d_advances d).
  (* no clause on a supplied totals.rounding: it is presented at the currency's decimals whatever the
     decimals it was written with (repair recorded in findings/C03.json) *)

(* totals.rounding as presented: the supplied value rounded half away from zero to the currency *)
Definition presented_rounding (d : doc) : option amount :=
  match d_rounding d with Some r => Some (rescale r (d_c d)) | None => None end.

Definition currency_identities (d : doc) (t : totals) : Prop :=
  let c := d_c d in
  Forall (line_out_readds c) (t_lines t) /\
  exp (t_sum t) = c /\ val (t_sum t) = sumv (map lo_total (t_lines t)) /\
  oexp_ok c (t_discount t) /\ oexp_ok c (t_charge t) /\ oexp_ok c (t_tax_included t) /\
  exp (t_total t) = c /\
  val (t_total t) = val (t_sum t) - oval (t_discount t) + oval (t_charge t) - oval (t_tax_included t) /\
  Forall (ct_readds c) (t_cats t) /\
  exp (t_taxsum t) = c /\ val (t_taxsum t) = signed_sum (t_cats t) /\ t_tax t = t_taxsum t /\
  exp (t_twt t) = c /\ val (t_twt t) = val (t_total t) + val (t_tax t) /\
  oexp_ok c (t_rounding t) /\
  exp (t_payable t) = c /\ val (t_payable t) = val (t_twt t) + oval (t_rounding t) /\
  match t_advances t, t_due t with
  | Some a, Some du => exp a = c /\ exp du = c /\ val du = val (t_payable t) - val a /\ val a = sumv (t_adv_rows t)
  | None, None => True
  | _, _ => False
  end /\
  Forall (at_exp c) (t_adv_rows t) /\ Forall (at_exp c) (t_dues t) /\
  Forall (fun a => (exp a <= c)%nat) (t_dd t) /\ Forall (fun a => (exp a <= c)%nat) (t_cc t).
