(* C01 - the class of documents for which the 'precise' error bound is proved (simple_doc), its
   decidable version (simple_docb), the error budgets, and two indicators of the features that
   take a document out of the class.  Definitions only - no proofs in this file
   (simple_docb d = true -> simple_doc d is Calc/IdealBoundProofs.simple_docb_sound). *)
From Coq Require Import ZArith QArith Qabs Qround List Bool.
From Verif Require Import Base.Wire Base.Rha Num.Amount Num.AmountProofs Calc.Doc Calc.Calc Calc.Ideal.
Import ListNotations.
Open Scope Q_scope.

Definition nQ (n : nat) : Q := inject_Z (Z.of_nat n).

Definition pct_ok (p : option amount) : Prop :=
  match p with Some q => Qabs (toQ q) <= 1 | None => True end.
(* a fixed amount, a rate x quantity, or a percentage of at most 100% either way *)
Definition simple_row (d : ldc) : Prop := pct_ok (ld_pct d).
(* priced in the document's currency, or by an alternative price in it *)
Definition unconverted (cur : Z) (it : item) : Prop :=
  match it_cur it with
  | None => True
  | Some (ic, _) => ic = cur \/ find_alt cur (it_alts it) <> None
  end.
Definition simple_line (cur : Z) (l : line) : Prop :=
  ln_breakdown l = [] /\ unconverted cur (ln_item l) /\
  Forall simple_row (ln_discounts l) /\ Forall simple_row (ln_charges l).

(* error budget of a line total, in units of eps: one for the product, three per row *)
Definition e_line (l : line) : Q := 1 + 3 * nQ (length (ln_discounts l)) + 3 * nQ (length (ln_charges l)).

Definition e_sum (ls : list line) : Q := sumQl (map e_line ls).

Definition simple_drow (d : ddc) : Prop := pct_ok (dd_pct d).

Definition rate_ok (p : option amount) : Prop :=
  match p with Some q => 0 <= toQ q /\ toQ q <= 1 | None => True end.
(* tax percentages and surcharges between 0% and 100% *)
Definition combo_ok (cb : combo) : Prop := rate_ok (cb_pct cb) /\ rate_ok (cb_sur cb).

(* rows weighted by the number of tax combos they carry *)
Fixpoint row_weight (bs : list Q) (ts : list (list combo)) : Q :=
  match bs, ts with
  | b :: bs', t :: ts' => nQ (length t) * b + row_weight bs' ts'
  | _, _ => 0
  end.
Definition ncombos (ts : list (list combo)) : nat := fold_right (fun t n => (length t + n)%nat) 0%nat ts.

(* a supplied totals.rounding written with no more decimals than the currency: presenting it at the
   currency's decimals (as the calculation does since the repair recorded in findings/C03.json) is
   then no rounding at all *)
Definition rounding_ok (c : nat) (o : option amount) : Prop :=
  match o with Some r => (exp r <= c)%nat | None => True end.
Definition rounding_okb (c : nat) (o : option amount) : bool :=
  match o with Some r => Nat.leb (exp r) c | None => true end.

Definition simple_doc (d : doc) : Prop :=
  d_currency_rule d = false /\ d_lines d <> [] /\
  Forall (simple_line (d_cur d)) (d_lines d) /\
  Forall simple_drow (d_discounts d) /\ Forall simple_drow (d_charges d) /\
  Forall (fun l => Forall combo_ok (ln_taxes l)) (d_lines d) /\
  Forall (fun x => Forall combo_ok (dd_taxes x)) (d_discounts d) /\
  Forall (fun x => Forall combo_ok (dd_taxes x)) (d_charges d) /\
  Forall (fun r => pct_ok (pr_pct r)) (d_advances d) /\
  rounding_ok (d_c d) (d_rounding d).

(* budgets, in units of eps = half a unit of the (c+2)-th decimal = 1/200 minor unit *)
Definition b_drow (d : doc) : Q := e_sum (d_lines d) + 1.
Definition b_total1 (d : doc) : Q :=
  e_sum (d_lines d) + (nQ (length (d_discounts d)) * b_drow d + 1) + (nQ (length (d_charges d)) * b_drow d + 1).
Definition row_bounds (d : doc) : list Q :=
  map e_line (d_lines d) ++ map (fun _ => b_drow d) (d_discounts d) ++ map (fun _ => b_drow d) (d_charges d).
Definition row_taxes (d : doc) : list (list combo) :=
  map ln_taxes (d_lines d) ++ map dd_taxes (d_discounts d) ++ map dd_taxes (d_charges d).
Definition b_cats (d : doc) : Q :=
  row_weight (map (fun b => b + 1) (row_bounds d)) (row_taxes d) + nQ (ncombos (row_taxes d)).
Definition b_tax (d : doc) : Q := 2 * b_cats d.
(* the tax taken out of tax-inclusive prices; nothing when prices do not include a tax *)
Definition b_inc (d : doc) : Q := match d_pit d with [] => 0 | _ :: _ => b_cats d + 1 end.
Definition b_total (d : doc) : Q := b_total1 d + b_inc d.
Definition b_twt (d : doc) : Q := b_total d + (b_tax d + 1).
Definition b_payable (d : doc) : Q := b_twt d + 1.
Definition b_discount (d : doc) : Q := nQ (length (d_discounts d)) * b_drow d.
Definition b_charge (d : doc) : Q := nQ (length (d_charges d)) * b_drow d.
Definition b_advances (d : doc) : Q := nQ (length (d_advances d)) * (b_twt d + 1).
Definition b_due (d : doc) : Q := b_payable d + (b_advances d + 1).


(* ---- decidable versions (Calc/IdealBoundProofs.simple_docb_sound) ---- *)
Definition pct_okb (p : option amount) : bool :=
  match p with Some q => Qle_bool (Qabs (toQ q)) 1 | None => true end.
Definition simple_rowb (d : ldc) : bool := pct_okb (ld_pct d).
Definition unconvertedb (cur : Z) (it : item) : bool :=
  match it_cur it with
  | None => true
  | Some (ic, _) => (ic =? cur)%Z || match find_alt cur (it_alts it) with Some _ => true | None => false end
  end.
Definition simple_lineb (cur : Z) (l : line) : bool :=
  match ln_breakdown l with [] => true | _ :: _ => false end && unconvertedb cur (ln_item l) &&
  forallb simple_rowb (ln_discounts l) && forallb simple_rowb (ln_charges l).
Definition simple_drowb (d : ddc) : bool := pct_okb (dd_pct d).
Definition rate_okb (p : option amount) : bool :=
  match p with Some q => Qle_bool 0 (toQ q) && Qle_bool (toQ q) 1 | None => true end.
Definition combo_okb (cb : combo) : bool := rate_okb (cb_pct cb) && rate_okb (cb_sur cb).
Definition simple_docb (d : doc) : bool :=
  negb (d_currency_rule d) && match d_lines d with [] => false | _ :: _ => true end &&
  forallb (simple_lineb (d_cur d)) (d_lines d) &&
  forallb simple_drowb (d_discounts d) && forallb simple_drowb (d_charges d) &&
  forallb (fun l => forallb combo_okb (ln_taxes l)) (d_lines d) &&
  forallb (fun x => forallb combo_okb (dd_taxes x)) (d_discounts d) &&
  forallb (fun x => forallb combo_okb (dd_taxes x)) (d_charges d) &&
  forallb (fun r => pct_okb (pr_pct r)) (d_advances d) &&
  rounding_okb (d_c d) (d_rounding d).

(* the two features outside the class whose rounding points are not the documented ones *)
(* some price that enters the calculation is converted by an exchange rate *)
Definition uses_conversion (d : doc) : bool :=
  existsb (fun l => match ln_breakdown l with
                    | [] => negb (unconvertedb (d_cur d) (ln_item l))
                    | subs => existsb (fun s => negb (unconvertedb (d_cur d) (sl_item s))) subs
                    end) (d_lines d).
Definition uses_breakdown (d : doc) : bool :=
  existsb (fun l => match ln_breakdown l with [] => false | _ :: _ => true end) (d_lines d).

(* everything simple_docb asks for except how prices are obtained (conversions and breakdowns
   allowed; the rows of sub-lines must be simple too): a document with this but not simple_docb is
   outside the class ONLY because of a conversion or a breakdown *)
Definition line_rows_okb (l : line) : bool :=
  forallb simple_rowb (ln_discounts l) && forallb simple_rowb (ln_charges l) &&
  forallb (fun s => forallb simple_rowb (sl_discounts s) && forallb simple_rowb (sl_charges s)) (ln_breakdown l).
Definition simple_but_priceb (d : doc) : bool :=
  negb (d_currency_rule d) && match d_lines d with [] => false | _ :: _ => true end &&
  forallb line_rows_okb (d_lines d) &&
  forallb simple_drowb (d_discounts d) && forallb simple_drowb (d_charges d) &&
  forallb (fun l => forallb combo_okb (ln_taxes l)) (d_lines d) &&
  forallb (fun x => forallb combo_okb (dd_taxes x)) (d_discounts d) &&
  forallb (fun x => forallb combo_okb (dd_taxes x)) (d_charges d) &&
  forallb (fun r => pct_okb (pr_pct r)) (d_advances d) &&
  rounding_okb (d_c d) (d_rounding d).

(* the largest budget, as an integer *)
Definition budget (d : doc) : Z := Qceiling (b_due d).
