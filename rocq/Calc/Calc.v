(* Calculation model: bill/calculator.go (calculate), bill/line_calculate.go, bill/discounts.go,
   bill/charges.go, bill/totals.go, bill/payment_details.go, pay/terms.go, pay/advance.go,
   tax/totals_calculator.go, tax/totals.go (Calculate part), tax/rounding_rules.go,
   currency/exchange_rate.go - transcribed in the order of the Go code over the specification
   arithmetic of Num/Amount.v.  No proofs in this file. *)
From Coq Require Import ZArith List Bool.
From Verif Require Import Base.Wire Base.Rha Num.Amount Calc.Doc.
Import ListNotations.
Open Scope Z_scope.

(* constants of the Go code; rocq/Gen/Consts.v (regenerated from /repo) is compared with these by
   one-line lemmas in Props *)
Definition line_precision_extra : nat := 2.   (* bill.linePrecisionExtra *)
Definition tax_precision_extra : nat := 2.    (* the "+ 2" of TotalCalculator.prepareLines *)

Definition zero_of (c : nat) : amount := mkA 0 c.

(* tax.ApplyRoundingRule *)
Definition apply_rr (cr : bool) (c : nat) (a : amount) : amount :=
  if cr then rescale a c else rescale_up a c.
(* tax.matchRoundingPrecision *)
Definition match_rr (cr : bool) (a b : amount) : amount :=
  if cr then a else match_precision a b.
(* the accumulator idiom: s = s.MatchPrecision(x); s = s.Add(x) *)
Definition acc (s x : amount) : amount := add (match_precision s x) x.
Definition acc_rr (cr : bool) (s x : amount) : amount := add (match_rr cr s x) x.

Definition opt_nonzero (p : option amount) : option amount :=
  match p with Some q => if is_zero q then None else Some q | None => None end.

(* ---------------- line discounts / charges ---------------- *)
Definition ldc_base (cr : bool) (c : nat) (sum : amount) (b : option amount) : amount :=
  match b with
  | None => sum
  | Some b0 => apply_rr cr c (rescale_up (rescale_up b0 c) (c + line_precision_extra))
  end.

(* rate x quantity of a charge: the rate is raised to the decimals the exact product needs before
   Multiply (which rounds to the receiver's precision), so nothing is lost here
   (bill/line_calculate.go calculateLineCharges, as repaired) *)
Definition rate_times (r q : amount) : amount := mul (rescale_up r (exp r + exp q)) q.

Definition ldc_amount (cr : bool) (c : nat) (sum qty : amount) (is_charge : bool) (d : ldc) : amount :=
  let a1 := match opt_nonzero (ld_pct d) with
            | Some p => pct_of p (ldc_base cr c sum (ld_base d))
            | None => ld_amount d
            end in
  let a2 := if is_charge then
              match ld_rate d with
              | Some r => rate_times r (match ld_qty d with Some q => q | None => qty end)
              | None => a1
              end
            else a1 in
  apply_rr cr c a2.

Definition ldc_amounts cr c sum qty is_charge (ds : list ldc) : list amount :=
  map (ldc_amount cr c sum qty is_charge) ds.

Definition sub_all (total : amount) (xs : list amount) : amount := fold_left sub xs total.
Definition add_all (total : amount) (xs : list amount) : amount := fold_left add xs total.

(* ---------------- item price ---------------- *)
Fixpoint find_alt (cur : Z) (alts : list (Z * amount)) : option amount :=
  match alts with
  | [] => None
  | (k, v) :: r => if k =? cur then Some v else find_alt cur r
  end.
Fixpoint find_rate (from to : Z) (rs : list xrate) : option amount :=
  match rs with
  | [] => None
  | r :: rest => if (xr_from r =? from) && (xr_to r =? to) then Some (xr_amount r) else find_rate from to rest
  end.

(* bill.calculateLineItemPrice: None = no exchange rate *)
Definition item_price (it : item) (cur : Z) (c : nat) (rates : list xrate) : option amount :=
  match it_cur it with
  | None => Some (rescale_up (it_price it) c)
  | Some (ic, isub) =>
    let price := rescale_up (it_price it) isub in
    if ic =? cur then Some price
    else match find_alt cur (it_alts it) with
         | Some v => Some (rescale_up v c)
         | None => match find_rate ic cur rates with
                   (* ExchangeRate.Convert, as repaired: the amount is raised to at least the destination
                      currency's decimals before Multiply (which rounds to its receiver's decimals) *)
                   | Some r => Some (rescale (mul (match_precision price (zero_of c)) r) c)
                   | None => None
                   end
         end
  end.

(* ---------------- sub-lines and lines ---------------- *)
Record sub_calc := mkSubCalc { sc_price : amount; sc_sum : amount; sc_total : amount; sc_ds : list amount; sc_cs : list amount }.

Definition calc_sub (cr : bool) (c : nat) (cur : Z) (rates : list xrate) (sl : subline) : option sub_calc :=
  match item_price (sl_item sl) cur c rates with
  | None => None
  | Some sp =>
    let price := if cr then sp else rescale_up sp (c + line_precision_extra) in
    let sum := apply_rr cr c (mul price (sl_qty sl)) in
    let ds := ldc_amounts cr c sum (sl_qty sl) false (sl_discounts sl) in
    let cs := ldc_amounts cr c sum (sl_qty sl) true (sl_charges sl) in
    Some (mkSubCalc sp sum (add_all (sub_all sum ds) cs) ds cs)
  end.

Fixpoint calc_subs cr c cur rates (sls : list subline) : option (list sub_calc) :=
  match sls with
  | [] => Some []
  | sl :: r => match calc_sub cr c cur rates sl, calc_subs cr c cur rates r with
               | Some x, Some xs => Some (x :: xs)
               | _, _ => None
               end
  end.

Definition max_exp (l : list amount) : nat := fold_left (fun m a => Nat.max m (exp a)) l 0%nat.

Record line_calc := mkLineCalc {
  lc_price : amount; lc_sum : amount; lc_total : amount;
  lc_ds : list amount; lc_cs : list amount; lc_subs : list sub_calc
}.

Definition calc_line (cr : bool) (c : nat) (cur : Z) (rates : list xrate) (l : line) : option line_calc :=
  match calc_subs cr c cur rates (ln_breakdown l) with
  | None => None
  | Some subs =>
    let it := match subs with
              | [] => ln_item l
              | _ => let np := fold_left acc (map sc_total subs) (zero_of c) in
                     mkItem (rescale np (max_exp (map sc_price subs))) None []
              end in
    match item_price it cur c rates with
    | None => None
    | Some price =>
      let e := if cr then c else (c + line_precision_extra)%nat in
      let sum := apply_rr cr c (mul (rescale_up price e) (ln_qty l)) in
      let ds := ldc_amounts cr c sum (ln_qty l) false (ln_discounts l) in
      let cs := ldc_amounts cr c sum (ln_qty l) true (ln_charges l) in
      Some (mkLineCalc price sum (add_all (sub_all sum ds) cs) ds cs subs)
    end
  end.

Fixpoint calc_lines cr c cur rates (ls : list line) : option (list line_calc) :=
  match ls with
  | [] => Some []
  | l :: r => match calc_line cr c cur rates l, calc_lines cr c cur rates r with
              | Some x, Some xs => Some (x :: xs)
              | _, _ => None
              end
  end.

(* ---------------- document discounts / charges ---------------- *)
Definition ddc_amount (cr : bool) (c : nat) (sum : amount) (d : ddc) : amount :=
  let a := match opt_nonzero (dd_pct d) with
           | Some p =>
             let base := match dd_base d with
                         | None => sum
                         | Some b => apply_rr cr c (rescale_up b (c + line_precision_extra))
                         end in
             pct_of p base
           | None => dd_amount d
           end in
  apply_rr cr c a.

Definition sum_opt (c : nat) (xs : list amount) : option amount :=
  match xs with [] => None | _ => Some (fold_left acc xs (zero_of c)) end.

(* ---------------- tax totals (tax.TotalCalculator) ---------------- *)
Record tax_line := mkTL { tl_total : amount; tl_taxes : list combo }.

(* prepareLines: + 2 decimals once per combo (idempotent) *)
Definition prepare_tl (c : nat) (tl : tax_line) : tax_line :=
  match tl_taxes tl with
  | [] => tl
  | _ => mkTL (rescale_up (tl_total tl) (c + tax_precision_extra)) (tl_taxes tl)
  end.

Fixpoint get_combo (cat : bytes) (cs : list combo) : option combo :=
  match cs with
  | [] => None
  | x :: r => if eqb_bytes (cb_cat x) cat then Some x else get_combo cat r
  end.

(* removeIncludedTaxes: None = error (retained category included) *)
Definition remove_included (pit : bytes) (tl : tax_line) : option tax_line :=
  match pit with
  | [] => Some tl
  | _ => match get_combo pit (tl_taxes tl) with
         | None => Some tl
         | Some cb => if cb_retained cb then None
                      else match cb_pct cb with
                           | None => Some tl
                           | Some p => Some (mkTL (remove (tl_total tl) p) (tl_taxes tl))
                           end
         end
  end.

Fixpoint remove_included_all pit (tls : list tax_line) : option (list tax_line) :=
  match tls with
  | [] => Some []
  | t :: r => match remove_included pit t, remove_included_all pit r with
              | Some x, Some xs => Some (x :: xs)
              | _, _ => None
              end
  end.

Fixpoint ext_eqb (a b : list (bytes * bytes)) : bool :=
  match a, b with
  | [], [] => true
  | (k, v) :: a', (k2, v2) :: b' => eqb_bytes k k2 && eqb_bytes v v2 && ext_eqb a' b'
  | _, _ => false
  end.

(* RateTotal.matches *)
Definition rt_matches (rt : rate_total) (cb : combo) : bool :=
  if negb (ext_eqb (rt_ext rt) (cb_ext cb)) then false
  else if negb (eqb_bytes (rt_country rt) (cb_country cb)) then false
  else match rt_pct rt, cb_pct cb with
       | Some p, Some q =>
         match rt_sur rt, cb_sur cb with
         | None, None => equals p q
         | Some s, Some s2 => if equals s s2 then equals p q else false
         | _, _ => false
         end
       | None, None => true
       | _, _ => false
       end.

Definition new_rt (c : nat) (cb : combo) : rate_total :=
  mkRT (cb_key cb) (cb_country cb) (cb_ext cb) (cb_pct cb) (cb_sur cb) (zero_of c) (zero_of c) (zero_of c).

Definition rt_add_base (cr : bool) (tot : amount) (rt : rate_total) : rate_total :=
  mkRT (rt_key rt) (rt_country rt) (rt_ext rt) (rt_pct rt) (rt_sur rt)
       (acc_rr cr (rt_base rt) tot) (rt_amount rt) (rt_suramount rt).

Fixpoint add_to_rates (cr : bool) (c : nat) (tot : amount) (cb : combo) (rts : list rate_total) : list rate_total :=
  match rts with
  | [] => [rt_add_base cr tot (new_rt c cb)]
  | rt :: r => if rt_matches rt cb then rt_add_base cr tot rt :: r
               else rt :: add_to_rates cr c tot cb r
  end.

Definition new_ct (c : nat) (cb : combo) : cat_total :=
  mkCT (cb_cat cb) (cb_retained cb) [] (zero_of c) None (zero_of c).

Definition ct_with_rates (ct : cat_total) (rts : list rate_total) : cat_total :=
  mkCT (ct_code ct) (ct_retained ct) rts (ct_amount ct) (ct_surcharge ct) (ct_precise ct).

Fixpoint add_to_cats (cr : bool) (c : nat) (tot : amount) (cb : combo) (cts : list cat_total) : list cat_total :=
  match cts with
  | [] => [ct_with_rates (new_ct c cb) (add_to_rates cr c tot cb [])]
  | ct :: r => if eqb_bytes (ct_code ct) (cb_cat cb)
               then ct_with_rates ct (add_to_rates cr c tot cb (ct_rates ct)) :: r
               else ct :: add_to_cats cr c tot cb r
  end.

(* calculateBaseRateTotals *)
Definition add_tl (cr : bool) (c : nat) (cts : list cat_total) (tl : tax_line) : list cat_total :=
  fold_left (fun cts cb => add_to_cats cr c (tl_total tl) cb cts) (tl_taxes tl) cts.
Definition base_totals (cr : bool) (c : nat) (tls : list tax_line) : list cat_total :=
  fold_left (add_tl cr c) tls [].

(* calculateBaseCategoryTotal: rate amounts, category amount and surcharge at working precision *)
Definition rt_calc (c : nat) (rt : rate_total) : rate_total :=
  match rt_pct rt with
  | None =>       (* exempt: rt.Amount = zero *)
    mkRT (rt_key rt) (rt_country rt) (rt_ext rt) (rt_pct rt) (rt_sur rt) (rt_base rt) (zero_of c) (rt_suramount rt)
  | Some p =>
    mkRT (rt_key rt) (rt_country rt) (rt_ext rt) (rt_pct rt) (rt_sur rt) (rt_base rt)
         (pct_of p (rt_base rt))
         (match rt_sur rt with Some s => pct_of s (rt_base rt) | None => rt_suramount rt end)
  end.

Definition ct_step (cr : bool) (c : nat) (st : amount * option amount) (rt : rate_total) : amount * option amount :=
  match rt_pct rt with
  | None => st
  | Some _ =>
    let am := acc_rr cr (fst st) (rt_amount rt) in
    match rt_sur rt with
    | None => (am, snd st)
    | Some _ => let x := match snd st with Some s => s | None => zero_of c end in
                (am, Some (acc_rr cr x (rt_suramount rt)))
    end
  end.

Definition ct_calc (cr : bool) (c : nat) (ct : cat_total) : cat_total :=
  let rts := map (rt_calc c) (ct_rates ct) in
  let st := fold_left (ct_step cr c) rts (zero_of c, None) in   (* ct.Surcharge = nil: reset before recalculation *)
  mkCT (ct_code ct) (ct_retained ct) rts (fst st) (snd st) (fst st).

(* calculateFinalSum *)
Definition sum_step (cr : bool) (s : amount) (ct : cat_total) : amount :=
  let s1 := match_rr cr s (ct_amount ct) in
  if ct_retained ct then
    let s2 := sub s1 (ct_amount ct) in
    match ct_surcharge ct with Some x => sub s2 x | None => s2 end
  else
    let s2 := add s1 (ct_amount ct) in
    match ct_surcharge ct with Some x => add s2 x | None => s2 end.

(* Total.round *)
Definition rt_round (c : nat) (rt : rate_total) : rate_total :=
  mkRT (rt_key rt) (rt_country rt) (rt_ext rt) (rt_pct rt) (rt_sur rt)
       (rescale (rt_base rt) c) (rescale (rt_amount rt) c) (rescale (rt_suramount rt) c).
Definition ct_round (c : nat) (ct : cat_total) : cat_total :=
  mkCT (ct_code ct) (ct_retained ct) (map (rt_round c) (ct_rates ct))
       (rescale (ct_amount ct) c)
       (match ct_surcharge ct with Some s => Some (rescale s c) | None => None end)
       (ct_amount ct).

Fixpoint find_cat (code : bytes) (cts : list cat_total) : option cat_total :=
  match cts with
  | [] => None
  | ct :: r => if eqb_bytes (ct_code ct) code then Some ct else find_cat code r
  end.

(* CategoryTotal.PreciseAmount / Total.PreciseSum *)
Definition precise_or (p presented : amount) : amount := if is_zero p then presented else p.

(* ---------------- payment ---------------- *)
Definition advance_amount (c : nat) (twt : amount) (r : prow) : amount :=
  rescale_up (match pr_pct r with Some p => pct_of p twt | None => pr_amount r end) c.
Definition due_amount (c : nat) (payable : amount) (r : prow) : amount :=
  rescale (match opt_nonzero (pr_pct r) with Some p => pct_of p payable | None => pr_amount r end) c.

(* ---------------- presentation of lines (Line.round) ---------------- *)
Definition present_line (lc : line_calc) : line_out :=
  let e := exp (lc_price lc) in
  mkLineOut (lc_price lc) (rescale_down (lc_sum lc) e) (rescale_down (lc_total lc) e)
            (map (fun a => rescale_down a e) (lc_ds lc)) (map (fun a => rescale_down a e) (lc_cs lc))
            (map (fun s => mkSubOut (rescale_down (sc_sum s) e) (rescale_down (sc_total s) e)) (lc_subs lc)).

(* roundDiscounts / roundCharges: to the currency, or to the base's own precision when given *)
Definition present_ddc (c : nat) (d : ddc) (a : amount) : amount :=
  rescale_down a (match dd_base d with Some b => exp b | None => c end).

(* ---------------- the whole calculation ---------------- *)
Inductive calc_result := CalcError | NoTotals (ls : list line_out) | Totals (t : totals).

Definition tax_lines (lcs : list line_calc) (ls : list line) (dd : list (ddc * amount)) (cc : list (ddc * amount)) : list tax_line :=
  map (fun p => mkTL (lc_total (fst p)) (ln_taxes (snd p))) (combine lcs ls)
  ++ map (fun p => mkTL (negate (snd p)) (dd_taxes (fst p))) dd
  ++ map (fun p => mkTL (snd p) (dd_taxes (fst p))) cc.

Definition calculate (d : doc) : calc_result :=
  let c := d_c d in
  let cr := d_currency_rule d in
  match calc_lines cr c (d_cur d) (d_rates d) (d_lines d) with
  | None => CalcError
  | Some lcs =>
    let sum := fold_left acc (map lc_total lcs) (zero_of c) in
    let dds := map (fun x => (x, ddc_amount cr c sum x)) (d_discounts d) in
    let ccs := map (fun x => (x, ddc_amount cr c sum x)) (d_charges d) in
    let discount := sum_opt c (map snd dds) in
    let charge := sum_opt c (map snd ccs) in
    let total0 := match discount with Some x => sub sum x | None => sum end in
    let total1 := match charge with Some x => add total0 x | None => total0 end in
    let tls := tax_lines lcs (d_lines d) dds ccs in
    match tls with
    | [] => NoTotals (map present_line lcs)
    | _ =>
      match remove_included_all (d_pit d) (map (prepare_tl c) tls) with
      | None => CalcError
      | Some tls2 =>
        let cats0 := map (ct_calc cr c) (base_totals cr c tls2) in
        let taxsum := fold_left (sum_step cr) cats0 (zero_of c) in
        let cats := map (ct_round c) cats0 in
        let taxsum_r := rescale taxsum c in
        let included := match d_pit d with
                        | [] => None
                        | _ => match find_cat (d_pit d) cats with
                               | Some ct => Some (precise_or (ct_precise ct) (ct_amount ct))
                               | None => None
                               end
                        end in
        let total := match included with Some ti => sub total1 ti | None => total1 end in
        let tax := precise_or taxsum taxsum_r in
        let twt := add total tax in
        (* t.Rounding is rescaled to zero.Exp() in place; payable adds the rescaled value (as repaired) *)
        let rounding := match d_rounding d with Some r => Some (rescale r c) | None => None end in
        let payable := match rounding with Some r => add twt r | None => twt end in
        let advs := map (advance_amount c twt) (d_advances d) in
        let advances := sum_opt c advs in
        let due := match advances with Some a => Some (sub payable a) | None => None end in
        let R := fun a => rescale a c in
        let Ro := fun o => match o with Some a => Some (rescale a c) | None => None end in
        Totals (mkTotals (map present_line lcs) (R sum) (Ro discount) (Ro charge) (Ro included) (R total)
                         (R tax) (R twt) (R payable) (Ro advances) (Ro due)
                         (map (fun p => present_ddc c (fst p) (snd p)) dds)
                         (map (fun p => present_ddc c (fst p) (snd p)) ccs)
                         (map R advs) (map (due_amount c payable) (d_dues d))
                         cats taxsum_r taxsum rounding)
      end
    end
  end.
