(* C03: under the 'currency' rounding rule every presented figure re-adds exactly.
   Proofs over Calc/Calc.v with d_currency_rule = true. *)
From Coq Require Import ZArith List Bool Lia.
From Verif Require Import Base.Wire Base.Rha Base.RhaProofs Num.Amount Num.AmountProofs Calc.Doc Calc.Calc Calc.CurrencySpec Calc.ExpLemmas.
Import ListNotations.
Open Scope Z_scope.

(* an item priced in the document's own currency declares that currency's subunits *)

Lemma item_price_exp_ge it cur c rates p :
  item_wf cur c it -> item_price it cur c rates = Some p -> (c <= exp p)%nat.
Proof.
  unfold item_wf, item_price. intros W H.
  destruct (it_cur it) as [[ic isub]|].
  - destruct (ic =? cur) eqn:E.
    + apply Z.eqb_eq in E. specialize (W E). subst isub. inversion H; subst. apply rescale_up_exp_ge.
    + destruct (find_alt cur (it_alts it)) as [v|].
      * inversion H; subst. apply rescale_up_exp_ge.
      * destruct (find_rate ic cur rates) as [r|]; [|discriminate].
        inversion H; subst. rewrite rescale_exp. lia.
  - inversion H; subst. apply rescale_up_exp_ge.
Qed.

Lemma ldc_amount_exp c sum qty ch d : exp (ldc_amount true c sum qty ch d) = c.
Proof. unfold ldc_amount. apply apply_rr_true_exp. Qed.

Lemma ldc_amounts_exp c sum qty ch ds : Forall (at_exp c) (ldc_amounts true c sum qty ch ds).
Proof.
  unfold ldc_amounts. induction ds as [|d ds IH]; cbn [map]; constructor; [apply ldc_amount_exp|exact IH].
Qed.

(* what one calculated line looks like under the currency rule *)

Lemma totals_fold c sum ds cs :
  exp sum = c -> Forall (at_exp c) ds -> Forall (at_exp c) cs ->
  add_all (sub_all sum ds) cs = mkA (val sum - sumv ds + sumv cs) c.
Proof.
  intros Hs Hd Hc. unfold add_all, sub_all.
  rewrite (fold_sub_same ds sum c Hs Hd).
  rewrite (fold_add_same cs (mkA (val sum - sumv ds) c) c eq_refl Hc). reflexivity.
Qed.

Lemma calc_line_currency c cur rates l lc :
  item_wf cur c (ln_item l) ->
  calc_line true c cur rates l = Some lc ->
  line_readds c (lc_price lc) (lc_sum lc) (lc_total lc) (lc_ds lc) (lc_cs lc).
Proof.
  intros W H. unfold calc_line in H.
  destruct (calc_subs true c cur rates (ln_breakdown l)) as [subs|]; [|discriminate].
  match type of H with context [item_price ?it _ _ _] => set (it0 := it) in H end.
  assert (W0 : item_wf cur c it0).
  { unfold it0. destruct subs; [exact W|]. unfold item_wf. cbn [it_cur]. exact I. }
  destruct (item_price it0 cur c rates) as [price|] eqn:P; [|discriminate].
  inversion H; subst lc; clear H. cbn [lc_price lc_sum lc_total lc_ds lc_cs].
  pose proof (item_price_exp_ge _ _ _ _ _ W0 P) as Hp.
  set (sum := apply_rr true c (mul (rescale_up price c) (ln_qty l))).
  assert (Hs : exp sum = c) by apply apply_rr_true_exp.
  unfold line_readds. repeat split.
  - exact Hs.
  - rewrite (totals_fold c sum _ _ Hs (ldc_amounts_exp _ _ _ _ _) (ldc_amounts_exp _ _ _ _ _)). reflexivity.
  - apply ldc_amounts_exp.
  - apply ldc_amounts_exp.
  - rewrite (totals_fold c sum _ _ Hs (ldc_amounts_exp _ _ _ _ _) (ldc_amounts_exp _ _ _ _ _)). reflexivity.
  - exact Hp.
Qed.

Lemma map_rescale_down_id e xs c : (c <= e)%nat -> Forall (at_exp c) xs -> map (fun a => rescale_down a e) xs = xs.
Proof.
  intros Hc H. induction H as [|x xs Hx _ IH]; cbn [map]; [reflexivity|].
  rewrite IH. rewrite rescale_down_id by (unfold at_exp in Hx; lia). reflexivity.
Qed.

(* presentation does not touch a line under the currency rule *)
Lemma present_line_currency c lc :
  line_readds c (lc_price lc) (lc_sum lc) (lc_total lc) (lc_ds lc) (lc_cs lc) ->
  let lo := present_line lc in
  lo_sum lo = lc_sum lc /\ lo_total lo = lc_total lc /\ lo_discounts lo = lc_ds lc /\ lo_charges lo = lc_cs lc.
Proof.
  intros (Hs & Ht & Hd & Hc & _ & Hp). unfold present_line. cbn [lo_sum lo_total lo_discounts lo_charges].
  repeat split.
  - apply rescale_down_id. lia.
  - apply rescale_down_id. lia.
  - apply (map_rescale_down_id _ _ c Hp Hd).
  - apply (map_rescale_down_id _ _ c Hp Hc).
Qed.


Lemma calc_lines_currency c cur rates ls : forall lcs,
  Forall (fun l => item_wf cur c (ln_item l)) ls ->
  calc_lines true c cur rates ls = Some lcs ->
  Forall (fun lc => line_readds c (lc_price lc) (lc_sum lc) (lc_total lc) (lc_ds lc) (lc_cs lc)) lcs.
Proof.
  induction ls as [|l ls IH]; intros lcs W H; cbn [calc_lines] in H.
  - inversion H; subst. constructor.
  - inversion W as [|? ? W1 W2]; subst.
    destruct (calc_line true c cur rates l) as [x|] eqn:E; [|discriminate].
    destruct (calc_lines true c cur rates ls) as [xs|]; [|discriminate].
    inversion H; subst. constructor; [eapply calc_line_currency; eauto|apply IH; auto].
Qed.

Lemma present_lines_currency c lcs :
  Forall (fun lc => line_readds c (lc_price lc) (lc_sum lc) (lc_total lc) (lc_ds lc) (lc_cs lc)) lcs ->
  Forall (line_out_readds c) (map present_line lcs) /\
  map lo_total (map present_line lcs) = map lc_total lcs.
Proof.
  intros H. induction H as [|lc lcs Hl _ [IH1 IH2]]; cbn [map]; [split; [constructor|reflexivity]|].
  destruct (present_line_currency c lc Hl) as (E1 & E2 & E3 & E4).
  destruct Hl as (Hs & Ht & Hd & Hc & Hv & Hp).
  split.
  - constructor; [|exact IH1]. unfold line_out_readds. rewrite E1, E2, E3, E4. repeat split; assumption.
  - rewrite E2, IH2. reflexivity.
Qed.

(* ------------------------------------------------------------------------------------------ *)
(* tax totals under the currency rule                                                          *)
(* ------------------------------------------------------------------------------------------ *)

Lemma new_rt_at c cb : rt_at c (new_rt c cb).
Proof. unfold rt_at, new_rt; cbn. auto. Qed.

Lemma rt_add_base_at c tot rt : rt_at c rt -> rt_at c (rt_add_base true tot rt).
Proof.
  intros (A & B & C). unfold rt_at, rt_add_base. cbn [rt_base rt_amount rt_suramount].
  repeat split; assumption.
Qed.

Lemma add_to_rates_at c tot cb rts : Forall (rt_at c) rts -> Forall (rt_at c) (add_to_rates true c tot cb rts).
Proof.
  induction rts as [|rt rts IH]; intros H; cbn [add_to_rates].
  - constructor; [apply rt_add_base_at, new_rt_at|constructor].
  - inversion H as [|? ? H1 H2]; subst. destruct (rt_matches rt cb).
    + constructor; [apply rt_add_base_at; exact H1|exact H2].
    + constructor; [exact H1|apply IH; exact H2].
Qed.

Lemma add_to_cats_at c tot cb cts : Forall (ct_at c) cts -> Forall (ct_at c) (add_to_cats true c tot cb cts).
Proof.
  induction cts as [|ct cts IH]; intros H; cbn [add_to_cats].
  - constructor; [|constructor]. unfold ct_at, ct_with_rates. cbn [ct_rates]. apply add_to_rates_at. constructor.
  - inversion H as [|? ? H1 H2]; subst. destruct (eqb_bytes (ct_code ct) (cb_cat cb)).
    + constructor; [|exact H2]. unfold ct_at, ct_with_rates. cbn [ct_rates]. apply add_to_rates_at. exact H1.
    + constructor; [exact H1|apply IH; exact H2].
Qed.

Lemma add_tl_at c cts tl : Forall (ct_at c) cts -> Forall (ct_at c) (add_tl true c cts tl).
Proof.
  unfold add_tl. generalize (tl_taxes tl) as cbs. intros cbs. revert cts.
  induction cbs as [|cb cbs IH]; intros cts H; cbn [fold_left]; [exact H|].
  apply IH. apply add_to_cats_at. exact H.
Qed.

Lemma base_totals_at c tls : Forall (ct_at c) (base_totals true c tls).
Proof.
  unfold base_totals. assert (G : Forall (ct_at c) []) by constructor. revert G. generalize (@nil cat_total) as cts.
  induction tls as [|tl tls IH]; intros cts H; cbn [fold_left]; [exact H|].
  apply IH. apply add_tl_at. exact H.
Qed.

(* the exact integer content of one calculated rate group *)

Lemma rt_calc_readds c rt : rt_at c rt -> rt_readds c (rt_calc c rt).
Proof.
  intros (A & B & C). unfold rt_readds, rt_calc, rt_at. destruct (rt_pct rt) as [p|] eqn:P.
  - cbn [rt_base rt_amount rt_suramount rt_pct rt_sur]. try rewrite P. repeat split; try assumption.
    + destruct (rt_sur rt); [exact A|exact C].
    + destruct (rt_sur rt) as [s|]; [reflexivity|exact I].
  - cbn [rt_base rt_amount rt_suramount rt_pct rt_sur]. try rewrite P. repeat split; try assumption; reflexivity.
Qed.


Lemma ct_step_none c st rt : rt_pct rt = None -> ct_step true c st rt = st.
Proof. intros P. unfold ct_step. rewrite P. reflexivity. Qed.
Lemma ct_step_plain c st rt p : rt_pct rt = Some p -> rt_sur rt = None ->
  ct_step true c st rt = (add (fst st) (rt_amount rt), snd st).
Proof. intros P S. unfold ct_step. rewrite P, S. reflexivity. Qed.
Lemma ct_step_sur c st rt p s : rt_pct rt = Some p -> rt_sur rt = Some s ->
  ct_step true c st rt =
  (add (fst st) (rt_amount rt), Some (add (match snd st with Some x => x | None => zero_of c end) (rt_suramount rt))).
Proof. intros P S. unfold ct_step. rewrite P, S. reflexivity. Qed.


Lemma ct_fold_currency c rts : forall am sur,
  Forall (rt_at c) rts -> exp am = c -> oexp_ok c sur ->
  let st := fold_left (ct_step true c) rts (am, sur) in
  exp (fst st) = c /\ val (fst st) = val am + amt_sum rts /\
  oexp_ok c (snd st) /\ oval (snd st) = oval sur + sur_sum rts /\
  (snd st = None <-> (sur = None /\ has_sur rts = false)).
Proof.
  induction rts as [|rt rts IH]; intros am sur H Ha Hs; cbn [fold_left].
  - cbn [fst snd amt_sum sur_sum has_sur existsb fold_right]. repeat split; try assumption; try lia; tauto.
  - apply Forall_cons_iff in H. destruct H as [(B1 & B2 & B3) H2].
    destruct (rt_pct rt) as [p|] eqn:P.
    + destruct (rt_sur rt) as [s1|] eqn:S.
      * rewrite (ct_step_sur c _ rt p s1 P S). cbn [fst snd].
        set (x := match sur with Some x0 => x0 | None => zero_of c end).
        assert (Hx : exp x = c) by (unfold x; destruct sur; [exact Hs|reflexivity]).
        assert (Vx : val x = oval sur) by (unfold x; destruct sur; reflexivity).
        specialize (IH (add am (rt_amount rt)) (Some (add x (rt_suramount rt))) H2).
        rewrite add_exp in IH. specialize (IH Ha).
        assert (Hs' : oexp_ok c (Some (add x (rt_suramount rt)))) by (cbn; exact Hx).
        specialize (IH Hs'). cbv zeta in IH. destruct IH as (I1 & I2 & I3 & I4 & I5).
        assert (Va : val (add am (rt_amount rt)) = val am + val (rt_amount rt)) by (rewrite add_same by lia; reflexivity).
        assert (Vs : val (add x (rt_suramount rt)) = val x + val (rt_suramount rt)) by (rewrite add_same by lia; reflexivity).
        cbn [oval] in I4. rewrite Va in I2. rewrite Vs in I4.
        cbn [amt_sum sur_sum has_sur existsb fold_right]. rewrite P, S. cbn [orb].
        fold (amt_sum rts). fold (sur_sum rts).
        split; [exact I1|]. split; [lia|]. split; [exact I3|]. split; [lia|].
        split.
        -- intros E. apply I5 in E. destruct E as [E _]. discriminate.
        -- intros [_ E]. discriminate.
      * rewrite (ct_step_plain c _ rt p P S). cbn [fst snd].
        specialize (IH (add am (rt_amount rt)) sur H2). rewrite add_exp in IH. specialize (IH Ha Hs).
        cbv zeta in IH. destruct IH as (I1 & I2 & I3 & I4 & I5).
        assert (Va : val (add am (rt_amount rt)) = val am + val (rt_amount rt)) by (rewrite add_same by lia; reflexivity).
        rewrite Va in I2.
        cbn [amt_sum sur_sum has_sur existsb fold_right]. rewrite P, S. cbn [orb].
        fold (amt_sum rts). fold (sur_sum rts). fold (has_sur rts).
        split; [exact I1|]. split; [lia|]. split; [exact I3|]. split; [lia|exact I5].
    + rewrite (ct_step_none c _ rt P).
      specialize (IH am sur H2 Ha Hs). cbv zeta in IH.
      cbn [amt_sum sur_sum has_sur existsb fold_right]. rewrite P. cbn [orb].
      fold (amt_sum rts). fold (sur_sum rts). fold (has_sur rts). exact IH.
Qed.

(* one calculated category under the currency rule *)

Lemma Forall_map_rt_calc c rts : Forall (rt_at c) rts -> Forall (rt_readds c) (map (rt_calc c) rts).
Proof. intros H. induction H as [|rt rts H1 _ IH]; cbn [map]; constructor; [apply rt_calc_readds; exact H1|exact IH]. Qed.

Lemma rt_readds_at c rts : Forall (rt_readds c) rts -> Forall (rt_at c) rts.
Proof. intros H. induction H as [|rt rts [H1 _] _ IH]; constructor; assumption. Qed.

Lemma ct_calc_currency c ct : ct_at c ct -> ct_readds c (ct_calc true c ct).
Proof.
  intros H. unfold ct_at in H. unfold ct_calc.
  pose proof (Forall_map_rt_calc c _ H) as HR.
  pose proof (ct_fold_currency c (map (rt_calc c) (ct_rates ct)) (zero_of c) None (rt_readds_at c _ HR) eq_refl I) as F.
  cbv zeta in F. destruct F as (F1 & F2 & F3 & F4 & F5).
  unfold ct_readds. cbn [ct_rates ct_amount ct_surcharge ct_precise].
  cbn [val zero_of oval] in F2, F4.
  repeat split; try assumption; try lia.
  - intros E. apply F5 in E. apply E.
  - intros E. apply F5. split; [reflexivity|exact E].
Qed.

Lemma rt_round_id c rt : rt_at c rt -> rt_round c rt = rt.
Proof.
  intros (A & B & C). destruct rt as [k co ex p s b a sa]. unfold rt_round.
  cbn [rt_key rt_country rt_ext rt_pct rt_sur rt_base rt_amount rt_suramount] in *.
  rewrite !rescale_same by assumption. reflexivity.
Qed.

Lemma map_rt_round_id c rts : Forall (rt_at c) rts -> map (rt_round c) rts = rts.
Proof. intros H. induction H as [|rt rts H1 _ IH]; cbn [map]; [reflexivity|]. rewrite IH, rt_round_id by exact H1. reflexivity. Qed.

Lemma ct_round_id c ct : ct_readds c ct -> ct_round c ct = ct.
Proof.
  intros (R & A1 & _ & S1 & _ & _ & P). destruct ct as [code ret rts am sur pr]. unfold ct_round.
  cbn [ct_code ct_retained ct_rates ct_amount ct_surcharge ct_precise] in *.
  rewrite (map_rt_round_id c _ (rt_readds_at c _ R)). rewrite rescale_same by exact A1.
  subst pr. f_equal. destruct sur as [s|]; [|reflexivity].
  cbn in S1. rewrite rescale_same by exact S1. reflexivity.
Qed.

Lemma map_ct_round_id c cts : Forall (ct_readds c) cts -> map (ct_round c) cts = cts.
Proof. intros H. induction H as [|ct cts H1 _ IH]; cbn [map]; [reflexivity|]. rewrite IH, ct_round_id by exact H1. reflexivity. Qed.

Lemma Forall_map_ct_calc c cts : Forall (ct_at c) cts -> Forall (ct_readds c) (map (ct_calc true c) cts).
Proof. intros H. induction H as [|ct cts H1 _ IH]; cbn [map]; constructor; [apply ct_calc_currency; exact H1|exact IH]. Qed.

(* ordinary categories are added, retained ones subtracted, surcharges included *)

Lemma sum_step_currency c s ct : exp s = c -> ct_readds c ct ->
  exp (sum_step true s ct) = c /\ val (sum_step true s ct) = val s + ct_signed ct.
Proof.
  intros Hs (_ & A1 & _ & S1 & _ & _ & _). unfold sum_step, match_rr, ct_signed. cbv zeta.
  destruct (ct_retained ct); destruct (ct_surcharge ct) as [x|]; cbn [oexp_ok oval] in *.
  - rewrite (sub_same s (ct_amount ct)) by lia. rewrite sub_same by (cbn [exp]; lia). cbn [val exp]. split; [exact Hs|lia].
  - rewrite (sub_same s (ct_amount ct)) by lia. cbn [val exp]. split; [exact Hs|lia].
  - rewrite (add_same s (ct_amount ct)) by lia. rewrite add_same by (cbn [exp]; lia). cbn [val exp]. split; [exact Hs|lia].
  - rewrite (add_same s (ct_amount ct)) by lia. cbn [val exp]. split; [exact Hs|lia].
Qed.

Lemma fold_sum_step_currency c cts : forall s, exp s = c -> Forall (ct_readds c) cts ->
  exp (fold_left (sum_step true) cts s) = c /\ val (fold_left (sum_step true) cts s) = val s + signed_sum cts.
Proof.
  induction cts as [|ct cts IH]; intros s Hs H; cbn [fold_left signed_sum fold_right].
  - split; [exact Hs|lia].
  - apply Forall_cons_iff in H. destruct H as [H1 H2].
    destruct (sum_step_currency c s ct Hs H1) as [E1 E2].
    destruct (IH _ E1 H2) as [I1 I2]. split; [exact I1|]. fold (signed_sum cts). lia.
Qed.

Lemma find_cat_In code cts ct : find_cat code cts = Some ct -> In ct cts.
Proof.
  induction cts as [|x cts IH]; cbn [find_cat]; [discriminate|].
  destruct (eqb_bytes (ct_code x) code); intros H; [inversion H; left; reflexivity|right; apply IH; exact H].
Qed.

Lemma precise_or_same a : precise_or a a = a.
Proof. unfold precise_or. destruct (is_zero a); reflexivity. Qed.

(* ------------------------------------------------------------------------------------------ *)
(* the whole document                                                                          *)
(* ------------------------------------------------------------------------------------------ *)


Lemma ddc_amount_exp c sum x : exp (ddc_amount true c sum x) = c.
Proof. unfold ddc_amount. apply apply_rr_true_exp. Qed.

Lemma Forall_ddc c sum xs : Forall (at_exp c) (map snd (map (fun x => (x, ddc_amount true c sum x)) xs)).
Proof. induction xs as [|x xs IH]; cbn [map snd]; constructor; [apply ddc_amount_exp|exact IH]. Qed.

Lemma sum_opt_currency c xs : Forall (at_exp c) xs ->
  match sum_opt c xs with
  | Some s => exp s = c /\ val s = sumv xs
  | None => xs = []
  end.
Proof.
  intros H. unfold sum_opt. destruct xs as [|x xs]; [reflexivity|].
  rewrite (fold_acc_same (x :: xs) (zero_of c) c eq_refl H). cbn [val exp zero_of]. split; [reflexivity|lia].
Qed.

Lemma present_ddc_le c d a : exp a = c -> (exp (present_ddc c d a) <= c)%nat.
Proof.
  intros H. unfold present_ddc, rescale_down.
  destruct (Nat.ltb _ (exp a)) eqn:E; [apply Nat.ltb_lt in E; rewrite rescale_exp; lia|lia].
Qed.

Lemma Forall_present_ddc c sum xs :
  Forall (fun a => (exp a <= c)%nat)
         (map (fun p => present_ddc c (fst p) (snd p)) (map (fun x => (x, ddc_amount true c sum x)) xs)).
Proof.
  induction xs as [|x xs IH]; cbn [map fst snd]; constructor; [apply present_ddc_le, ddc_amount_exp|exact IH].
Qed.

Lemma advance_amount_exp c twt r : exp twt = c -> (pr_pct r = None -> (exp (pr_amount r) <= c)%nat) ->
  exp (advance_amount c twt r) = c.
Proof.
  intros Ht H. unfold advance_amount. destruct (pr_pct r) as [p|].
  - rewrite rescale_up_id by (rewrite pct_of_exp; lia). rewrite pct_of_exp. exact Ht.
  - specialize (H eq_refl). unfold rescale_up. destruct (Nat.ltb (exp (pr_amount r)) c) eqn:E.
    + apply rescale_exp.
    + apply Nat.ltb_ge in E. lia.
Qed.

Lemma Forall_advances c twt rs : exp twt = c ->
  Forall (fun r => pr_pct r = None -> (exp (pr_amount r) <= c)%nat) rs ->
  Forall (at_exp c) (map (advance_amount c twt) rs).
Proof.
  intros Ht H. induction H as [|r rs H1 _ IH]; cbn [map]; constructor; [apply advance_amount_exp; assumption|exact IH].
Qed.

Lemma map_rescale_id c xs : Forall (at_exp c) xs -> map (fun a => rescale a c) xs = xs.
Proof. intros H. induction H as [|x xs H1 _ IH]; cbn [map]; [reflexivity|]. rewrite IH, rescale_same by exact H1. reflexivity. Qed.

Lemma Forall_dues c payable rs : Forall (at_exp c) (map (due_amount c payable) rs).
Proof. induction rs as [|r rs IH]; cbn [map]; constructor; [unfold at_exp, due_amount; apply rescale_exp|exact IH]. Qed.

(* the identities, plus how the presented advance and due rows were obtained (used by C04's fixpoint) *)
Lemma currency_rule_full d t :
  currency_doc_wf d -> calculate d = Totals t ->
  currency_identities d t /\
  t_adv_rows t = map (advance_amount (d_c d) (t_twt t)) (d_advances d) /\
  t_dues t = map (due_amount (d_c d) (t_payable t)) (d_dues d) /\
  t_rounding t = presented_rounding d.
Proof.
  intros (Hcr & Hitems & Hadv) H. unfold calculate in H. rewrite Hcr in H.
  set (c := d_c d) in *.
  destruct (calc_lines true c (d_cur d) (d_rates d) (d_lines d)) as [lcs|] eqn:EL; [|discriminate].
  pose proof (calc_lines_currency _ _ _ _ _ Hitems EL) as HL.
  destruct (present_lines_currency c lcs HL) as [HP1 HP2].
  assert (HT : Forall (at_exp c) (map lc_total lcs)).
  { clear - HL. induction HL as [|lc lcs (_ & Ht & _) _ IH]; cbn [map]; constructor; assumption. }
  set (sum := fold_left acc (map lc_total lcs) (zero_of c)) in *.
  assert (Esum : sum = mkA (sumv (map lc_total lcs)) c).
  { unfold sum. rewrite (fold_acc_same _ (zero_of c) c eq_refl HT). reflexivity. }
  set (dds := map (fun x => (x, ddc_amount true c sum x)) (d_discounts d)) in *.
  set (ccs := map (fun x => (x, ddc_amount true c sum x)) (d_charges d)) in *.
  pose proof (sum_opt_currency c (map snd dds) (Forall_ddc c sum _)) as HD.
  pose proof (sum_opt_currency c (map snd ccs) (Forall_ddc c sum _)) as HC.
  set (discount := sum_opt c (map snd dds)) in *.
  set (charge := sum_opt c (map snd ccs)) in *.
  set (total0 := match discount with Some x => sub sum x | None => sum end) in *.
  set (total1 := match charge with Some x => add total0 x | None => total0 end) in *.
  assert (E0 : exp total0 = c /\ val total0 = val sum - oval discount).
  { unfold total0. destruct discount as [x|]; cbn [oval].
    - destruct HD as [D1 D2]. rewrite sub_same by (rewrite Esum; cbn [exp]; exact D1). rewrite Esum. cbn [val exp]. split; [reflexivity|lia].
    - rewrite Esum. cbn [val exp]. split; [reflexivity|lia]. }
  assert (E1 : exp total1 = c /\ val total1 = val sum - oval discount + oval charge).
  { destruct E0 as [A B]. unfold total1. destruct charge as [x|]; cbn [oval].
    - destruct HC as [C1 C2]. rewrite add_same by lia. cbn [val exp]. split; [exact A|lia].
    - split; [exact A|lia]. }
  destruct (tax_lines lcs (d_lines d) dds ccs) as [|tl0 tls0] eqn:ETL; [discriminate|].
  destruct (remove_included_all (d_pit d) (map (prepare_tl c) (tl0 :: tls0))) as [tls2|]; [|discriminate].
  set (cats0 := map (ct_calc true c) (base_totals true c tls2)) in *.
  pose proof (Forall_map_ct_calc c _ (base_totals_at c tls2)) as HCATS. fold cats0 in HCATS.
  rewrite (map_ct_round_id c cats0 HCATS) in H.
  destruct (fold_sum_step_currency c cats0 (zero_of c) eq_refl HCATS) as [TS1 TS2].
  set (taxsum := fold_left (sum_step true) cats0 (zero_of c)) in *.
  rewrite (rescale_same taxsum c TS1) in H. rewrite precise_or_same in H.
  set (included := match d_pit d with
                   | [] => None
                   | _ :: _ => match find_cat (d_pit d) cats0 with
                               | Some ct => Some (precise_or (ct_precise ct) (ct_amount ct))
                               | None => None
                               end
                   end) in *.
  assert (EI : oexp_ok c included).
  { unfold included. destruct (d_pit d); [exact I|]. destruct (find_cat _ cats0) as [ct|] eqn:F; [|exact I].
    apply find_cat_In in F. rewrite Forall_forall in HCATS. destruct (HCATS ct F) as (_ & A1 & _ & _ & _ & _ & P).
    cbn [oexp_ok]. rewrite P, precise_or_same. exact A1. }
  set (total := match included with Some ti => sub total1 ti | None => total1 end) in *.
  assert (ET : exp total = c /\ val total = val total1 - oval included).
  { destruct E1 as [A B]. unfold total. destruct included as [ti|]; cbn [oval oexp_ok] in *.
    - rewrite sub_same by lia. cbn [val exp]. split; [exact A|lia].
    - split; [exact A|lia]. }
  set (twt := add total taxsum) in *.
  assert (ETW : exp twt = c /\ val twt = val total + val taxsum).
  { destruct ET as [A B]. unfold twt. rewrite add_same by lia. cbn [val exp]. split; [exact A|lia]. }
  set (rounding := match d_rounding d with Some r => Some (rescale r c) | None => None end) in *.
  assert (ER : oexp_ok c rounding).
  { unfold rounding. destruct (d_rounding d) as [r|]; cbn [oexp_ok]; [apply rescale_exp|exact I]. }
  set (payable := match rounding with Some r => add twt r | None => twt end) in *.
  assert (EP : exp payable = c /\ val payable = val twt + oval rounding).
  { destruct ETW as [A B]. unfold payable. destruct rounding as [r|]; cbn [oval oexp_ok] in *.
    - rewrite add_same by lia. cbn [val exp]. split; [exact A|lia].
    - split; [exact A|lia]. }
  pose proof (Forall_advances c twt (d_advances d) (proj1 ETW) Hadv) as HA.
  set (advs := map (advance_amount c twt) (d_advances d)) in *.
  pose proof (sum_opt_currency c advs HA) as HS.
  set (advances := sum_opt c advs) in *.
  inversion H; subst t; clear H.
  unfold currency_identities. fold c.
  cbn [t_lines t_sum t_discount t_charge t_tax_included t_total t_tax t_twt t_payable t_advances t_due t_dd t_cc t_adv_rows t_dues t_cats t_taxsum t_rounding].
  destruct E0 as [E0a E0b], E1 as [E1a E1b], ET as [ETa ETb], ETW as [ETWa ETWb], EP as [EPa EPb].
  assert (Rsum : rescale sum c = sum) by (apply rescale_same; rewrite Esum; reflexivity).
  rewrite Rsum, (rescale_same total c ETa), (rescale_same taxsum c TS1), (rescale_same twt c ETWa), (rescale_same payable c EPa).
  assert (RO : forall o, oexp_ok c o -> match o with Some a => Some (rescale a c) | None => None end = o).
  { intros [a|] Ho; [cbn in Ho; rewrite rescale_same by exact Ho|]; reflexivity. }
  assert (OD : oexp_ok c discount) by (destruct discount; [apply HD|exact I]).
  assert (OC : oexp_ok c charge) by (destruct charge; [apply HC|exact I]).
  rewrite (RO discount OD), (RO charge OC), (RO included EI).
  rewrite (map_rescale_id c advs HA).
  split; [|split; [|split]; reflexivity].
  split; [exact HP1|]. split; [rewrite Esum; reflexivity|].
  split; [rewrite HP2, Esum; reflexivity|].
  split; [exact OD|]. split; [exact OC|]. split; [exact EI|]. split; [exact ETa|].
  split; [lia|]. split; [exact HCATS|]. split; [exact TS1|]. split; [cbn [val zero_of] in TS2; lia|].
  split; [reflexivity|]. split; [exact ETWa|]. split; [lia|]. split; [exact ER|]. split; [exact EPa|]. split; [exact EPb|].
  split.
  { destruct advances as [a|].
    - destruct HS as [S1 S2]. cbn [rescale]. rewrite (rescale_same a c S1).
      assert (Edue : sub payable a = mkA (val payable - val a) c) by (rewrite sub_same by lia; rewrite EPa; reflexivity).
      rewrite Edue. rewrite rescale_same by reflexivity. cbn [val exp]. repeat split; try assumption; reflexivity.
    - exact I. }
  split; [exact HA|]. split; [apply Forall_dues|].
  split; apply Forall_present_ddc.
Qed.

Theorem currency_rule_readds d t :
  currency_doc_wf d -> calculate d = Totals t -> currency_identities d t.
Proof. intros W H. exact (proj1 (currency_rule_full d t W H)). Qed.

(* totals.rounding as presented is the supplied value rounded to the currency's decimals *)
Theorem currency_rule_rounding d t :
  currency_doc_wf d -> calculate d = Totals t -> t_rounding t = presented_rounding d.
Proof. intros W H. exact (proj2 (proj2 (proj2 (currency_rule_full d t W H)))). Qed.
