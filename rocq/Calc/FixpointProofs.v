(* C04: re-reading a calculated document and calculating again gives the same result
   (calculate (as_input d) = calculate d) - proved for the 'currency' rule, where every stored
   figure already has the currency's precision.  Under 'precise' the statement is false for fixed
   amounts with more decimals than they are presented with (Props/C04.v calc_fixpoint_refuted). *)
From Coq Require Import ZArith List Bool Lia.
From Verif Require Import Base.Wire Base.Rha Base.RhaProofs Num.Amount Num.AmountProofs
  Calc.Doc Calc.Calc Calc.Symmetry Calc.CurrencySpec Calc.ExpLemmas Calc.CurrencyProofs.
Import ListNotations.
Open Scope Z_scope.

(* ---------------- idempotence of the rounding helpers ---------------- *)
Lemma rescale_up_idem a e : rescale_up (rescale_up a e) e = rescale_up a e.
Proof. apply rescale_up_id. apply rescale_up_exp_ge. Qed.

Lemma apply_rr_idem cr c a : apply_rr cr c (apply_rr cr c a) = apply_rr cr c a.
Proof. unfold apply_rr. destruct cr; [apply rescale_same, rescale_exp|apply rescale_up_idem]. Qed.


(* ---------------- one discount / charge row ---------------- *)
(* re-reading a row whose stored amount is the computed one gives the computed amount again *)
Lemma ldc_amount_fix cr c sum qty ch d :
  let a := ldc_amount cr c sum qty ch d in
  ldc_amount cr c sum qty ch (ldc_as_input c d a) = a.
Proof.
  cbv zeta. unfold ldc_amount at 1. unfold ldc_as_input. cbn [ld_amount ld_pct ld_base ld_rate ld_qty].
  destruct (opt_nonzero (ld_pct d)) as [p|] eqn:P.
  - assert (B : ldc_base cr c sum (match ld_base d with Some b => Some (rescale_up b c) | None => None end) = ldc_base cr c sum (ld_base d)).
    { unfold ldc_base. destruct (ld_base d) as [b|]; [rewrite rescale_up_idem|]; reflexivity. }
    assert (B' : match ld_base d with Some b => Some (rescale_up b c) | None => ld_base d end =
                 match ld_base d with Some b => Some (rescale_up b c) | None => None end).
    { destruct (ld_base d); reflexivity. }
    rewrite ?B', B. unfold ldc_amount. rewrite P. reflexivity.
  - unfold ldc_amount. rewrite P.
    destruct ch; [destruct (ld_rate d) as [r|]|]; try reflexivity; apply apply_rr_idem.
Qed.

Lemma ldc_amounts_fix cr c sum qty ch ds :
  ldc_amounts cr c sum qty ch (zip_with (ldc_as_input c) ds (ldc_amounts cr c sum qty ch ds)) = ldc_amounts cr c sum qty ch ds.
Proof.
  unfold ldc_amounts. induction ds as [|d ds IH]; cbn [map zip_with]; [reflexivity|].
  rewrite IH. f_equal. apply ldc_amount_fix.
Qed.

(* ---------------- prices ---------------- *)
Lemma item_price_plain p cur c rates : (c <= exp p)%nat -> item_price (mkItem p None []) cur c rates = Some p.
Proof. intros H. unfold item_price. cbn [it_cur it_price]. rewrite rescale_up_id by exact H. reflexivity. Qed.

(* ---------------- sub-lines (both rules) ---------------- *)
Lemma calc_sub_fix cr c cur rates sl sc :
  item_wf cur c (sl_item sl) -> calc_sub cr c cur rates sl = Some sc ->
  calc_sub cr c cur rates (sub_as_input c sl sc) = Some sc.
Proof.
  intros W H. unfold calc_sub in H. destruct (item_price (sl_item sl) cur c rates) as [sp|] eqn:P; [|discriminate].
  pose proof (item_price_exp_ge _ _ _ _ _ W P) as Hp.
  inversion H; subst sc; clear H.
  unfold calc_sub, sub_as_input. cbn [sl_item sl_qty sl_discounts sl_charges sc_price sc_ds sc_cs].
  rewrite (item_price_plain sp cur c rates Hp). rewrite !ldc_amounts_fix. reflexivity.
Qed.

Lemma calc_subs_fix cr c cur rates sls : forall subs,
  Forall (fun sl => item_wf cur c (sl_item sl)) sls -> calc_subs cr c cur rates sls = Some subs ->
  calc_subs cr c cur rates (zip_with (sub_as_input c) sls subs) = Some subs.
Proof.
  induction sls as [|sl sls IH]; intros subs W H; cbn [calc_subs] in H.
  - inversion H; subst. reflexivity.
  - apply Forall_cons_iff in W. destruct W as [W1 W2].
    destruct (calc_sub cr c cur rates sl) as [x|] eqn:E1; [|discriminate].
    destruct (calc_subs cr c cur rates sls) as [xs|] eqn:E2; [|discriminate].
    inversion H; subst subs. cbn [zip_with calc_subs].
    rewrite (calc_sub_fix cr c cur rates sl x W1 E1), (IH xs W2 eq_refl). reflexivity.
Qed.

(* ---------------- lines under the currency rule ---------------- *)
Definition line_items_wf (cur : Z) (c : nat) (l : line) : Prop :=
  item_wf cur c (ln_item l) /\ Forall (fun sl => item_wf cur c (sl_item sl)) (ln_breakdown l).

Lemma zip_with_nil_r {A B C} (f : A -> B -> C) l : zip_with f l [] = [].
Proof. destruct l; reflexivity. Qed.

Lemma calc_subs_length cr c cur rates sls : forall subs, calc_subs cr c cur rates sls = Some subs -> length subs = length sls.
Proof.
  induction sls as [|sl sls IH]; intros subs H; cbn [calc_subs] in H; [inversion H; reflexivity|].
  destruct (calc_sub cr c cur rates sl); [|discriminate]. destruct (calc_subs cr c cur rates sls) as [xs|]; [|discriminate].
  inversion H; subst. cbn [length]. rewrite (IH xs eq_refl). reflexivity.
Qed.

Lemma calc_line_fix_currency c cur rates l lc :
  line_items_wf cur c l -> calc_line true c cur rates l = Some lc ->
  calc_line true c cur rates (line_as_input c l lc) = Some lc.
Proof.
  intros [W WS] H.
  pose proof (calc_line_currency c cur rates l lc W H) as R.
  destruct (present_line_currency c lc R) as (_ & _ & ED & EC).
  destruct R as (Hs & Ht & Hd & Hc & Hv & Hp).
  unfold calc_line in H.
  destruct (calc_subs true c cur rates (ln_breakdown l)) as [subs|] eqn:ES; [|discriminate].
  match type of H with context [item_price ?it _ _ _] => set (it0 := it) in H end.
  destruct (item_price it0 cur c rates) as [price|] eqn:P; [|discriminate].
  inversion H; subst lc; clear H.
  cbn [lc_price lc_sum lc_total lc_ds lc_cs lc_subs] in *.
  unfold calc_line, line_as_input. cbn [ln_breakdown ln_item ln_qty ln_discounts ln_charges ln_taxes lc_subs].
  rewrite ED, EC. cbn [present_line lo_price lc_price].
  rewrite (calc_subs_fix true c cur rates _ subs WS ES).
  assert (IP : item_price (match subs with
                           | [] => mkItem price None []
                           | _ :: _ => mkItem (rescale (fold_left acc (map sc_total subs) (zero_of c)) (max_exp (map sc_price subs))) None []
                           end) cur c rates = Some price).
  { destruct subs as [|s0 subs'].
    - apply item_price_plain. exact Hp.
    - exact P. }
  rewrite IP. rewrite !ldc_amounts_fix. reflexivity.
Qed.

Lemma calc_lines_fix_currency c cur rates ls : forall lcs,
  Forall (line_items_wf cur c) ls -> calc_lines true c cur rates ls = Some lcs ->
  calc_lines true c cur rates (zip_with (line_as_input c) ls lcs) = Some lcs.
Proof.
  induction ls as [|l ls IH]; intros lcs W H; cbn [calc_lines] in H.
  - inversion H; subst. reflexivity.
  - apply Forall_cons_iff in W. destruct W as [W1 W2].
    destruct (calc_line true c cur rates l) as [x|] eqn:E1; [|discriminate].
    destruct (calc_lines true c cur rates ls) as [xs|] eqn:E2; [|discriminate].
    inversion H; subst lcs. cbn [zip_with calc_lines].
    rewrite (calc_line_fix_currency c cur rates l x W1 E1), (IH xs W2 eq_refl). reflexivity.
Qed.

(* ---------------- document rows ---------------- *)
Definition ddc_fixed_ok (x : ddc) : Prop := opt_nonzero (dd_pct x) = None -> dd_base x = None.

Definition ddc_reread (c : nat) (sum : amount) (x : ddc) : ddc :=
  ddc_as_input x (present_ddc c x (ddc_amount true c sum x)).

Lemma ddc_reread_amount c sum x : ddc_fixed_ok x ->
  ddc_amount true c sum (ddc_reread c sum x) = ddc_amount true c sum x.
Proof.
  intros F. unfold ddc_reread, ddc_as_input. unfold ddc_amount at 1. cbn [dd_pct dd_base dd_amount].
  destruct (opt_nonzero (dd_pct x)) as [p|] eqn:P.
  - unfold ddc_amount. rewrite P. reflexivity.
  - specialize (F P). unfold present_ddc. rewrite F.
    rewrite rescale_down_id by (rewrite ddc_amount_exp; lia).
    apply apply_rr_true_id. apply ddc_amount_exp.
Qed.

Lemma zip_with_map_r {A B C D} (f : A -> B -> C) (g : D -> B) (h : A -> D) l :
  zip_with f l (map g (map h l)) = map (fun x => f x (g (h x))) l.
Proof. induction l as [|x l IH]; cbn [map zip_with]; [reflexivity|]. rewrite IH. reflexivity. Qed.

Lemma ddc_rows_reread c sum ds :
  zip_with ddc_as_input ds (map (fun p => present_ddc c (fst p) (snd p)) (map (fun x => (x, ddc_amount true c sum x)) ds))
  = map (ddc_reread c sum) ds.
Proof. rewrite zip_with_map_r. reflexivity. Qed.

Lemma ddc_rows_fix_snd c sum ds : Forall ddc_fixed_ok ds ->
  map snd (map (fun x => (x, ddc_amount true c sum x)) (map (ddc_reread c sum) ds)) =
  map snd (map (fun x => (x, ddc_amount true c sum x)) ds).
Proof.
  intros H. rewrite !map_map. cbn [snd]. induction H as [|x ds H1 _ IH]; cbn [map]; [reflexivity|].
  rewrite IH, ddc_reread_amount by exact H1. reflexivity.
Qed.

Lemma ddc_rows_fix_tl c sum (sgn : amount -> amount) ds : Forall ddc_fixed_ok ds ->
  map (fun p => mkTL (sgn (snd p)) (dd_taxes (fst p))) (map (fun x => (x, ddc_amount true c sum x)) (map (ddc_reread c sum) ds)) =
  map (fun p => mkTL (sgn (snd p)) (dd_taxes (fst p))) (map (fun x => (x, ddc_amount true c sum x)) ds).
Proof.
  intros H. rewrite !map_map. cbn [fst snd]. induction H as [|x ds H1 _ IH]; cbn [map]; [reflexivity|].
  rewrite IH, ddc_reread_amount by exact H1. reflexivity.
Qed.

Lemma ddc_rows_fix_present c sum ds : Forall ddc_fixed_ok ds ->
  map (fun p => present_ddc c (fst p) (snd p)) (map (fun x => (x, ddc_amount true c sum x)) (map (ddc_reread c sum) ds)) =
  map (fun p => present_ddc c (fst p) (snd p)) (map (fun x => (x, ddc_amount true c sum x)) ds).
Proof.
  intros H. rewrite !map_map. cbn [fst snd]. induction H as [|x ds H1 _ IH]; cbn [map]; [reflexivity|].
  rewrite IH, ddc_reread_amount by exact H1. reflexivity.
Qed.

Lemma combine_as_input c (lcs : list line_calc) : forall ls,
  map (fun p => mkTL (lc_total (fst p)) (ln_taxes (snd p))) (combine lcs (zip_with (line_as_input c) ls lcs)) =
  map (fun p => mkTL (lc_total (fst p)) (ln_taxes (snd p))) (combine lcs ls).
Proof.
  induction lcs as [|lc lcs IH]; intros ls; [reflexivity|].
  destruct ls as [|l ls]; [reflexivity|]. cbn [zip_with combine map fst snd]. rewrite IH. reflexivity.
Qed.

(* ---------------- advances and dues ---------------- *)
Lemma advance_reread c twt r : (pr_pct r = None -> (exp (pr_amount r) <= c)%nat) ->
  advance_amount c twt (prow_as_input r (rescale (advance_amount c twt r) c)) = advance_amount c twt r.
Proof.
  intros F. unfold prow_as_input. unfold advance_amount at 1. cbn [pr_pct pr_amount].
  destruct (pr_pct r) as [p|] eqn:P.
  - unfold advance_amount. rewrite P. reflexivity.
  - unfold advance_amount. rewrite P.
    assert (E : exp (rescale_up (pr_amount r) c) = c).
    { specialize (F eq_refl). unfold rescale_up. destruct (Nat.ltb (exp (pr_amount r)) c) eqn:L.
      - apply rescale_exp.
      - apply Nat.ltb_ge in L. lia. }
    rewrite (rescale_same _ c E). apply rescale_up_id. lia.
Qed.

Lemma advances_reread c twt rs : Forall (fun r => pr_pct r = None -> (exp (pr_amount r) <= c)%nat) rs ->
  map (advance_amount c twt) (zip_with prow_as_input rs (map (fun a => rescale a c) (map (advance_amount c twt) rs))) =
  map (advance_amount c twt) rs.
Proof.
  intros H. rewrite zip_with_map_r, map_map. induction H as [|r rs H1 _ IH]; cbn [map]; [reflexivity|].
  rewrite IH, advance_reread by exact H1. reflexivity.
Qed.

Lemma due_reread c pay r : due_amount c pay (prow_as_input r (due_amount c pay r)) = due_amount c pay r.
Proof.
  unfold prow_as_input. unfold due_amount at 1. cbn [pr_pct pr_amount].
  destruct (opt_nonzero (pr_pct r)) as [p|] eqn:P.
  - unfold due_amount. rewrite P. reflexivity.
  - apply rescale_same. unfold due_amount. apply rescale_exp.
Qed.

Lemma dues_reread c pay rs :
  map (due_amount c pay) (zip_with prow_as_input rs (map (due_amount c pay) rs)) = map (due_amount c pay) rs.
Proof.
  induction rs as [|r rs IH]; cbn [map zip_with]; [reflexivity|]. rewrite IH, due_reread. reflexivity.
Qed.

(* the presented totals.rounding read back: already at the currency's decimals *)
Lemma rounding_reread c (o : option amount) :
  match match o with Some r => Some (rescale r c) | None => None end with Some r => Some (rescale r c) | None => None end
  = match o with Some r => Some (rescale r c) | None => None end.
Proof. destruct o as [r|]; [|reflexivity]. rewrite rescale_same by apply rescale_exp. reflexivity. Qed.

(* ---------------- the whole document ---------------- *)
Definition fixpoint_doc_wf (d : doc) : Prop :=
  currency_doc_wf d /\
  Forall (line_items_wf (d_cur d) (d_c d)) (d_lines d) /\
  Forall ddc_fixed_ok (d_discounts d) /\ Forall ddc_fixed_ok (d_charges d).

Theorem calc_fixpoint_currency d d1 :
  fixpoint_doc_wf d -> as_input d = Some d1 -> calculate d1 = calculate d.
Proof.
  intros ((Hcr & Hitems & Hadv) & HW & HD & HC) HA.
  unfold as_input in HA. rewrite Hcr in HA.
  set (c := d_c d) in *.
  destruct (calc_lines true c (d_cur d) (d_rates d) (d_lines d)) as [lcs|] eqn:EL; [|discriminate].
  pose proof (calc_lines_fix_currency c _ _ _ lcs HW EL) as FL.
  (* expose what calculate d computes *)
  destruct (calculate d) as [|ls0|t] eqn:CD; try discriminate.
  - (* no totals: no taxable rows at all *)
    inversion HA; subst d1; clear HA.
    unfold calculate in CD |- *. rewrite Hcr in CD. fold c in CD. rewrite EL in CD.
    cbn [d_c d_currency_rule d_pit d_cur d_lines d_discounts d_charges d_rates d_advances d_dues d_rounding].
    fold c. rewrite ?Hcr, FL.
    destruct (tax_lines lcs (d_lines d) _ _) as [|tl0 tls0] eqn:ETL in CD.
    + (* then there are no discounts or charges either, and no lines with results *)
      unfold tax_lines in ETL. apply app_eq_nil in ETL. destruct ETL as [E1 E2]. apply app_eq_nil in E2. destruct E2 as [E2 E3].
      assert (T : tax_lines lcs (zip_with (line_as_input c) (d_lines d) lcs) [] [] = []).
      { unfold tax_lines. cbn [map app]. rewrite app_nil_r. rewrite combine_as_input. exact E1. }
      cbn [map]. rewrite T. exact CD.
    + destruct (remove_included_all _ _); discriminate.
  - inversion HA; subst d1; clear HA.
    pose proof CD as CD0.
    unfold calculate in CD |- *. rewrite Hcr in CD. fold c in CD. rewrite EL in CD.
    cbn [d_c d_currency_rule d_pit d_cur d_lines d_discounts d_charges d_rates d_advances d_dues d_rounding].
    fold c. rewrite ?Hcr, FL.
    set (sum := fold_left acc (map lc_total lcs) (zero_of c)) in *.
    (* the stored rows are exactly the presented rows of this calculation *)
    assert (TD : t_dd t = map (fun p => present_ddc c (fst p) (snd p)) (map (fun x => (x, ddc_amount true c sum x)) (d_discounts d))
              /\ t_cc t = map (fun p => present_ddc c (fst p) (snd p)) (map (fun x => (x, ddc_amount true c sum x)) (d_charges d))).
    { destruct (tax_lines lcs (d_lines d) _ _) in CD; [discriminate|].
      destruct (remove_included_all _ _) in CD; [|discriminate]. inversion CD; subst t. cbn [t_dd t_cc]. split; reflexivity. }
    destruct TD as [TD TC]. rewrite TD, TC, !ddc_rows_reread.
    rewrite !(ddc_rows_fix_snd c sum _ HD), !(ddc_rows_fix_snd c sum _ HC).
    unfold tax_lines. rewrite combine_as_input.
    rewrite (ddc_rows_fix_tl c sum negate _ HD), (ddc_rows_fix_tl c sum (fun a => a) _ HC).
    rewrite (ddc_rows_fix_present c sum _ HD), (ddc_rows_fix_present c sum _ HC).
    fold (tax_lines lcs (d_lines d) (map (fun x => (x, ddc_amount true c sum x)) (d_discounts d))
                    (map (fun x => (x, ddc_amount true c sum x)) (d_charges d))).
    unfold tax_lines in CD at 1.
    fold (tax_lines lcs (d_lines d) (map (fun x => (x, ddc_amount true c sum x)) (d_discounts d))
                    (map (fun x => (x, ddc_amount true c sum x)) (d_charges d))) in CD.
    destruct (tax_lines lcs (d_lines d) _ _) as [|tl0 tls0]; [discriminate|].
    destruct (remove_included_all (d_pit d) (map (prepare_tl c) (tl0 :: tls0))) as [tls2|]; [|discriminate].
    (* advances and dues: the stored rows are the presented rows of this very calculation *)
    inversion CD as [CDt]. cbn [t_adv_rows t_dues t_rounding].
    rewrite (advances_reread c _ _ Hadv), rounding_reread, dues_reread. reflexivity.
Qed.
