(* Proofs about the tax totals part of the calculation model (Calc/Calc.v): rate groups, bases,
   group / category amounts, the signed tax sum, and prices-include-tax.  Property C02. *)
From Coq Require Import ZArith QArith Qabs Lia Lqa List Bool ZifyBool ZifyNat.
From Verif Require Import Base.Wire Base.Rha Base.RhaProofs Num.Amount Num.AmountProofs Calc.Doc Calc.Calc.
Import ListNotations.
Open Scope Z_scope.

(* ------------------------------------------------------------------------------------------ *)
(* byte strings, extension lists                                                              *)
(* ------------------------------------------------------------------------------------------ *)
Lemma byte_eqb_eq x y : Byte.eqb x y = true <-> x = y.
Proof.
  split.
  - apply Byte.byte_dec_bl.
  - apply Byte.byte_dec_lb.
Qed.

Lemma eqb_bytes_eq a b : eqb_bytes a b = true <-> a = b.
Proof.
  revert b. induction a as [|x a IH]; intros [|y b]; cbn [eqb_bytes].
  - tauto.
  - split; discriminate.
  - split; discriminate.
  - rewrite andb_true_iff, byte_eqb_eq, IH. split.
    + intros [-> ->]. reflexivity.
    + intros E. injection E as -> ->. tauto.
Qed.

Lemma eqb_bytes_refl a : eqb_bytes a a = true.
Proof. apply eqb_bytes_eq. reflexivity. Qed.

Lemma eqb_bytes_neq a b : eqb_bytes a b = false <-> a <> b.
Proof.
  rewrite <- eqb_bytes_eq. destruct (eqb_bytes a b); split; congruence.
Qed.

Lemma ext_eqb_eq a b : ext_eqb a b = true <-> a = b.
Proof.
  revert b. induction a as [|[k v] a IH]; intros [|[k2 v2] b]; cbn [ext_eqb].
  - tauto.
  - split; discriminate.
  - split; discriminate.
  - rewrite !andb_true_iff, !eqb_bytes_eq, IH. split.
    + intros [[-> ->] ->]. reflexivity.
    + intros E. injection E as -> -> ->. tauto.
Qed.

(* ------------------------------------------------------------------------------------------ *)
(* (a) what it means for a rate group to match a combo                                        *)
(* ------------------------------------------------------------------------------------------ *)
(* both absent, or both present with the same rational value *)
Definition opt_eqQ (a b : option amount) : Prop :=
  match a, b with
  | Some x, Some y => toQ x == toQ y
  | None, None => True
  | _, _ => False
  end.

(* same percentage and surcharge, or both exempt (an exempt row's surcharge is not looked at) *)
Definition same_rate (p s q s2 : option amount) : Prop :=
  match p, q with
  | None, None => True
  | Some x, Some y => toQ x == toQ y /\ opt_eqQ s s2
  | _, _ => False
  end.

Lemma rt_matches_spec rt cb :
  rt_matches rt cb = true <->
  rt_ext rt = cb_ext cb /\ rt_country rt = cb_country cb /\
  same_rate (rt_pct rt) (rt_sur rt) (cb_pct cb) (cb_sur cb).
Proof.
  unfold rt_matches, same_rate, opt_eqQ.
  destruct (ext_eqb (rt_ext rt) (cb_ext cb)) eqn:E1; cbn [negb].
  2:{ split; [discriminate|]. intros [H _]. apply ext_eqb_eq in H. congruence. }
  apply ext_eqb_eq in E1.
  destruct (eqb_bytes (rt_country rt) (cb_country cb)) eqn:E2; cbn [negb].
  2:{ split; [discriminate|]. intros (_ & H & _). apply eqb_bytes_eq in H. congruence. }
  apply eqb_bytes_eq in E2.
  destruct (rt_pct rt) as [p|], (cb_pct cb) as [q|]; try (split; [discriminate|tauto]).
  - destruct (rt_sur rt) as [s|], (cb_sur cb) as [s2|]; try (split; [discriminate|tauto]).
    + destruct (equals s s2) eqn:E3.
      * apply equals_iff in E3. rewrite equals_iff. tauto.
      * split; [discriminate|]. intros (_ & _ & _ & H). apply equals_iff in H. congruence.
    + rewrite equals_iff. tauto.
  - tauto.
Qed.

Lemma rt_matches_new c cb : rt_matches (new_rt c cb) cb = true.
Proof.
  apply rt_matches_spec. unfold new_rt, same_rate, opt_eqQ. cbn [rt_ext rt_country rt_pct rt_sur].
  repeat split.
  destruct (cb_pct cb); [|exact I]. split; [reflexivity|]. destruct (cb_sur cb); [reflexivity|exact I].
Qed.

Lemma rt_matches_add_base cr tot rt cb : rt_matches (rt_add_base cr tot rt) cb = rt_matches rt cb.
Proof. reflexivity. Qed.

(* the combo a group stands for *)
Definition rt_combo (cat : bytes) (g : rate_total) : combo :=
  mkCombo cat (rt_country g) (rt_ext g) (rt_pct g) (rt_sur g) false (rt_key g).

(* two groups that match the same combo stand for the same rate *)
Lemma rt_matches_join g h cb cat :
  rt_matches g cb = true -> rt_matches h cb = true -> rt_matches g (rt_combo cat h) = true.
Proof.
  rewrite !rt_matches_spec. unfold rt_combo. cbn [cb_ext cb_country cb_pct cb_sur].
  intros (E1 & C1 & R1) (E2 & C2 & R2). repeat split; try congruence.
  unfold same_rate, opt_eqQ in *.
  destruct (rt_pct g), (rt_pct h), (cb_pct cb); try tauto.
  destruct R1 as [P1 S1], R2 as [P2 S2]. split.
  - rewrite P1, P2. reflexivity.
  - destruct (rt_sur g), (rt_sur h), (cb_sur cb); try tauto. rewrite S1, S2. reflexivity.
Qed.

(* matching only looks at country, extensions, percentage and surcharge *)
Lemma rt_matches_ext g cb cb' :
  cb_ext cb = cb_ext cb' -> cb_country cb = cb_country cb' -> cb_pct cb = cb_pct cb' -> cb_sur cb = cb_sur cb' ->
  rt_matches g cb = rt_matches g cb'.
Proof. intros E1 E2 E3 E4. unfold rt_matches. rewrite E1, E2, E3, E4. reflexivity. Qed.

(* ------------------------------------------------------------------------------------------ *)
(* accumulators                                                                               *)
(* ------------------------------------------------------------------------------------------ *)
Lemma toQ_zero c : toQ (zero_of c) == 0.
Proof. unfold toQ, zero_of, Qeq. cbn [val exp Qnum Qden]. reflexivity. Qed.

Lemma rescale_up_exp a e : exp (rescale_up a e) = Nat.max (exp a) e.
Proof.
  unfold rescale_up. destruct (Nat.ltb (exp a) e) eqn:E.
  - rewrite rescale_exp. apply Nat.ltb_lt in E. lia.
  - apply Nat.ltb_ge in E. lia.
Qed.

Lemma rescale_up_toQ a e : toQ (rescale_up a e) == toQ a.
Proof.
  unfold rescale_up. destruct (Nat.ltb (exp a) e) eqn:E; [|reflexivity].
  apply rescale_lossless. apply Nat.ltb_lt in E. lia.
Qed.

(* the accumulator idiom of the Go code never loses anything *)
Lemma acc_toQ s x : toQ (acc s x) == toQ s + toQ x.
Proof.
  unfold acc, match_precision. rewrite add_no_loss.
  - rewrite rescale_up_toQ. reflexivity.
  - rewrite rescale_up_exp. lia.
Qed.

Lemma acc_exp s x : exp (acc s x) = Nat.max (exp s) (exp x).
Proof. unfold acc, match_precision. rewrite add_exp. apply rescale_up_exp. Qed.

(* what a row contributes under a rounding rule: itself ('precise'), or itself rounded to the
   currency's decimals ('currency') *)
Definition contrib (cr : bool) (c : nat) (x : amount) : amount := if cr then rescale x c else x.

Lemma acc_rr_false s x : acc_rr false s x = acc s x.
Proof. reflexivity. Qed.

Lemma acc_rr_true_val s x : val (acc_rr true s x) = val s + val (rescale x (exp s)).
Proof. reflexivity. Qed.

Lemma acc_rr_true_exp s x : exp (acc_rr true s x) = exp s.
Proof. reflexivity. Qed.

Lemma acc_rr_toQ cr c s x : (cr = true -> exp s = c) ->
  toQ (acc_rr cr s x) == toQ s + toQ (contrib cr c x).
Proof.
  intros H. destruct cr.
  - specialize (H eq_refl). unfold acc_rr, match_rr, contrib, add, toQ. subst c.
    cbn [val exp]. rewrite rescale_exp. unfold Qeq, Qplus. cbn [Qnum Qden].
    rewrite Pos2Z.inj_mul, !pos_pow10. ring.
  - apply acc_toQ.
Qed.

Lemma acc_rr_exp_true cr c s x : (cr = true -> exp s = c) -> cr = true -> exp (acc_rr cr s x) = c.
Proof. intros H E. subst cr. rewrite acc_rr_true_exp. auto. Qed.

(* ------------------------------------------------------------------------------------------ *)
(* (b), (c) every row is added to exactly one group of exactly one category                   *)
(* ------------------------------------------------------------------------------------------ *)
Lemma add_to_rates_effect cr c tot cb rts :
  exists l1 g l2,
    (rts = l1 ++ g :: l2 \/ (rts = l1 /\ l2 = [] /\ g = new_rt c cb)) /\
    Forall (fun x => rt_matches x cb = false) l1 /\
    rt_matches g cb = true /\
    add_to_rates cr c tot cb rts = l1 ++ rt_add_base cr tot g :: l2.
Proof.
  induction rts as [|rt r IH]; cbn [add_to_rates].
  - exists [], (new_rt c cb), []. repeat split; auto using rt_matches_new.
  - destruct (rt_matches rt cb) eqn:E.
    + exists [], rt, r. repeat split; auto.
    + destruct IH as (l1 & g & l2 & Hs & Hn & Hm & Hr).
      exists (rt :: l1), g, l2. repeat split; auto.
      * destruct Hs as [-> | (-> & -> & ->)]; [left|right]; auto.
      * rewrite Hr. reflexivity.
Qed.

Lemma add_to_cats_effect cr c tot cb cts :
  exists l1 ct l2,
    (cts = l1 ++ ct :: l2 \/ (cts = l1 /\ l2 = [] /\ ct = new_ct c cb)) /\
    Forall (fun x => ct_code x <> cb_cat cb) l1 /\
    ct_code ct = cb_cat cb /\
    add_to_cats cr c tot cb cts =
      l1 ++ ct_with_rates ct (add_to_rates cr c tot cb (ct_rates ct)) :: l2.
Proof.
  induction cts as [|ct r IH]; cbn [add_to_cats].
  - exists [], (new_ct c cb), []. repeat split; auto.
  - destruct (eqb_bytes (ct_code ct) (cb_cat cb)) eqn:E.
    + apply eqb_bytes_eq in E. exists [], ct, r. repeat split; auto.
    + apply eqb_bytes_neq in E. destruct IH as (l1 & g & l2 & Hs & Hn & Hm & Hr).
      exists (ct :: l1), g, l2. repeat split; auto.
      * destruct Hs as [-> | (-> & -> & ->)]; [left|right]; auto.
      * rewrite Hr. reflexivity.
Qed.

(* the base of the one group grows by the row's contribution *)
Lemma rt_add_base_toQ cr c tot g : (cr = true -> exp (rt_base g) = c) ->
  toQ (rt_base (rt_add_base cr tot g)) == toQ (rt_base g) + toQ (contrib cr c tot).
Proof. intros H. unfold rt_add_base. cbn [rt_base]. apply acc_rr_toQ, H. Qed.

(* ---- distinctness of groups ---- *)
Definition same_group (g h : rate_total) : bool := rt_matches g (rt_combo [] h).

Fixpoint distinct_groups (rts : list rate_total) : Prop :=
  match rts with
  | [] => True
  | g :: r => Forall (fun h => same_group g h = false) r /\ distinct_groups r
  end.

Definition cats_wf (cts : list cat_total) : Prop :=
  NoDup (map ct_code cts) /\ Forall (fun ct => distinct_groups (ct_rates ct)) cts.

Lemma same_group_add_base_l cr tot g h : same_group (rt_add_base cr tot g) h = same_group g h.
Proof. reflexivity. Qed.
Lemma same_group_add_base_r cr tot g h : same_group g (rt_add_base cr tot h) = same_group g h.
Proof. reflexivity. Qed.

Lemma same_group_new g c cb : same_group g (new_rt c cb) = rt_matches g cb.
Proof. unfold same_group. apply rt_matches_ext; reflexivity. Qed.

Lemma distinct_groups_app l1 g l2 :
  distinct_groups (l1 ++ g :: l2) <->
  distinct_groups l1 /\ distinct_groups l2 /\
  Forall (fun x => same_group x g = false) l1 /\ Forall (fun h => same_group g h = false) l2 /\
  Forall (fun x => Forall (fun h => same_group x h = false) l2) l1.
Proof.
  induction l1 as [|x l1 IH]; cbn [app distinct_groups].
  - split.
    + intros [A B]. repeat split; auto.
    + intros (_ & A & _ & B & _). auto.
  - rewrite IH, Forall_app. split.
    + intros [[A B] (C & D & E & F & G)]. inversion B; subst. repeat split; auto.
    + intros ([A B] & C & D & E & F). inversion D; subst. inversion F; subst. repeat split; auto.
Qed.

Lemma add_to_rates_distinct cr c tot cb rts :
  distinct_groups rts -> distinct_groups (add_to_rates cr c tot cb rts).
Proof.
  intros D. destruct (add_to_rates_effect cr c tot cb rts) as (l1 & g & l2 & Hs & Hn & Hm & Hr).
  rewrite Hr. destruct Hs as [-> | (-> & -> & ->)].
  - apply distinct_groups_app in D. apply distinct_groups_app. exact D.
  - apply distinct_groups_app. split; [exact D|]. split; [exact I|]. split; [|split].
    + eapply Forall_impl; [|exact Hn]. intros x Hx. cbn beta in *.
      rewrite same_group_add_base_r, same_group_new. exact Hx.
    + constructor.
    + apply Forall_forall. intros; constructor.
Qed.

Lemma NoDup_snoc {A} (l : list A) a : NoDup l -> ~ In a l -> NoDup (l ++ [a]).
Proof.
  intros N I. apply (NoDup_Add (a := a) (l := l)).
  - pose proof (Add_app a l []) as H. rewrite app_nil_r in H. exact H.
  - split; assumption.
Qed.

Lemma add_to_cats_wf cr c tot cb cts : cats_wf cts -> cats_wf (add_to_cats cr c tot cb cts).
Proof.
  intros [N D]. destruct (add_to_cats_effect cr c tot cb cts) as (l1 & ct & l2 & Hs & Hn & Hm & Hr).
  rewrite Hr. unfold cats_wf. destruct Hs as [-> | (-> & -> & ->)].
  - split.
    + rewrite map_app in *. exact N.
    + rewrite Forall_app in *. destruct D as [D1 D2]. inversion D2; subst. split; auto.
      constructor; auto. cbn [ct_with_rates ct_rates]. apply add_to_rates_distinct. assumption.
  - split.
    + rewrite map_app. cbn [map ct_with_rates new_ct ct_code].
      apply NoDup_snoc; [exact N|]. intros I. apply in_map_iff in I. destruct I as (x & Ex & Ix).
      rewrite Forall_forall in Hn. apply (Hn x Ix). exact Ex.
    + rewrite Forall_app. split; [exact D|]. constructor; [|constructor].
      cbn [ct_with_rates ct_rates new_ct]. apply add_to_rates_distinct. exact I.
Qed.

Lemma add_tl_wf cr c cts tl : cats_wf cts -> cats_wf (add_tl cr c cts tl).
Proof.
  unfold add_tl. generalize (tl_total tl) as tot. intros tot.
  revert cts. induction (tl_taxes tl) as [|cb r IH]; intros cts W; cbn [fold_left]; auto.
  apply IH, add_to_cats_wf, W.
Qed.

Lemma groups_pairwise_distinct cr c tls : cats_wf (base_totals cr c tls).
Proof.
  unfold base_totals.
  assert (G : forall cts, cats_wf cts -> cats_wf (fold_left (add_tl cr c) tls cts)).
  { induction tls as [|tl r IH]; intros cts W; cbn [fold_left]; auto. apply IH, add_tl_wf, W. }
  apply G. split; constructor.
Qed.

(* consequence: in a list of distinct groups at most one group matches any given combo *)
Lemma same_group_sym g h : same_group g h = same_group h g.
Proof.
  assert (K : forall a b, same_group a b = true -> same_group b a = true).
  { intros a b. unfold same_group. rewrite !rt_matches_spec. unfold rt_combo.
    cbn [cb_ext cb_country cb_pct cb_sur]. intros (A & B & C). repeat split; auto.
    unfold same_rate, opt_eqQ in *. destruct (rt_pct a), (rt_pct b); try tauto.
    destruct C as [C1 C2]. split; [symmetry; exact C1|].
    destruct (rt_sur a), (rt_sur b); try tauto. symmetry; exact C2. }
  destruct (same_group g h) eqn:E1, (same_group h g) eqn:E2; auto.
  - apply K in E1. congruence.
  - apply K in E2. congruence.
Qed.

Lemma at_most_one_group_matches l1 g l2 cb :
  distinct_groups (l1 ++ g :: l2) -> rt_matches g cb = true ->
  forall h, In h (l1 ++ l2) -> rt_matches h cb = false.
Proof.
  intros D M h I. apply distinct_groups_app in D. destruct D as (_ & _ & A & B & _).
  destruct (rt_matches h cb) eqn:E; [|reflexivity]. exfalso.
  apply in_app_or in I. destruct I as [I|I].
  - rewrite Forall_forall in A. specialize (A h I). unfold same_group in A.
    rewrite (rt_matches_join h g cb []) in A by assumption. discriminate.
  - rewrite Forall_forall in B. specialize (B h I). unfold same_group in B.
    rewrite (rt_matches_join g h cb []) in B by assumption. discriminate.
Qed.
